(* Files that are not members of the logger's file family are ignored, TimestampsDirect naming (r<time stamp>[.restart-NNNN],
   no rCURRENT): a run in a directory that holds foreign files is, step by step, the embedding (ForeignFs.embed) of the run
   in the empty directory.

   - foreign name: the family test of the model rejects it (TsForeignFacts.tsd_member c n = false): the listing extracts no
     infix from it, or an infix that the time-stamp filter (r%Y-%m-%d_%H-%M-%S as chrono parses it) does not accept - as a
     plain file, as an archive, and with ".gz" removed.  Examples: a_rXYZ.log, a_r1.log, a_rCURRENT.log,
     a_r1970-01-01_00-00-00.log.bak are foreign, and - since latest_timestamp_file lists with the time-stamp filter, too -
     so are the names with a number infix or something like it: a_r00001.log, a_r1x.log, a_r1970-01-01.log,
     a_r2030-01-01_00-00-00x.log (number_infix_foreign_td); a_r1999-01-01_00-00-00.log, a_r1970-1-1_0-0-0.log are not
     (member_files_td: what the model does with them).
   - timestampsdirect_foreign_ignored: every criterion, every history OStart c :: ops ++ [OStop] of basic operations with a
     clock that does not run backwards (snapshots included), with or without append, any buffer capacity, use_utc either way.
   - timestampsdirect_stream_foreign: timestampsdirect_stream carries over.
   - sfx_gz_archive_name_td: why the third clause of tsd_member is there.
   The embedding lemmas (section CfgTd) hold for every world, faults and kills included, whose clock shows a year
   1970..9999. *)
Require Import FL.Base.Bytes FL.Base.BytesFacts FL.Base.PathName FL.Fs.Fs FL.Fs.FsFacts FL.Time.Civil FL.Time.TsFormat
  FL.Names.FileSpec FL.Names.NamesFacts FL.Names.SortFacts FL.Names.FamilyFacts
  FL.Flw.Model FL.Flw.ModelFacts FL.Flw.NumFs FL.Flw.NumInv FL.Flw.Run FL.Flw.RunFacts FL.Flw.NumRun FL.Flw.NumTheorems
  FL.Flw.NumListing FL.Flw.CleanupFacts FL.Flw.NumDInv
  FL.Flw.TsCal FL.Flw.TsTime FL.Flw.TsMono FL.Flw.TsNames FL.Flw.TsInv FL.Flw.TsRun FL.Flw.TsTheorems FL.Flw.TsParse
  FL.Flw.TsdInv FL.Flw.TsdRun FL.Flw.TsdTheorems
  FL.Flw.ForeignFs FL.Flw.ForeignSort FL.Flw.ForeignModel FL.Flw.NumForeign FL.Flw.ForeignGen FL.Flw.TsForeignFacts FL.Oracles.O_Flw.
From Coq Require Import ZifyN ZifyNat ZifyBool.
Open Scope nat_scope.

Section CfgTd.
Variable fn : list (bytes * nat).
Variable fi : list file.
Variable c : config.
Variable crit : criterion.
Hypothesis Hrot : c_rot c = Some (crit, NTimestampsDirect, KNever).
Hypothesis Hts : fts (c_spec c) = false.
Hypothesis Hlink : c_symlink c = false.
Hypothesis Hforeign : forall n, In n (fnames fn) -> tsd_member c n = false.
Notation fnm := (fnames fn).
Notation embw := (embedw fn fi).

Definition good_inner_td (st : inner) : Prop :=
  match st with
  | Active (Some rs) _ _ => (exists ts, rs_naming rs = NSTs ts None std_fmt) /\ rs_cleanup rs = KNever
  | _ => True
  end.

Lemma mount_next_embed_td w st force : good_inner_td st -> in_years (eoff c w) (wnow w) ->
  mount_next c (embw w) (shin fi st) force = lm fn fi (mount_next c w st force).
Proof.
  intros G Y. destruct st as [|[rs|] wr path]; try reflexivity.
  destruct G as [[ts En] Ek]. destruct rs as [ns roll kc0 bg]. cbn [rs_naming rs_cleanup] in En, Ek. subst ns kc0.
  unfold mount_next. cbn [shin rs_roll rs_naming rs_cleanup rs_bg]. rewrite rotation_necessary_embed.
  destruct (force || rotation_necessary w roll); [|reflexivity].
  change (wnow (embw w)) with (wnow w). rewrite (infix_from_ts_embed fn fi c).
  destruct (infix_ok c w (wnow w) Y) as [Hl Hd].
  rewrite (collision_free_embed fn fi c Hts Hforeign) by assumption.
  destruct (collision_free c w (infix_from_ts c w std_fmt (wnow w))) as [r w1] eqn:Ec. cbn [lw fst snd].
  destruct r as [i| |]; [|reflexivity|reflexivity].
  assert (Hn : ~ In (name_of c w1 (Some i)) fnm) by (eapply (collision_free_name_own fn c Hts Hforeign); eassumption).
  rewrite (open_log_file_embed fn fi c Hlink) by exact Hn.
  destruct (open_log_file c w1 (Some i)) as [r2 w2] eqn:Eo. cbn [fst snd].
  destruct r2 as [[wr' path']| |]; cbn [shwp]; [|reflexivity|reflexivity].
  apply open_log_file_path in Eo. subst path'.
  rewrite w_flush_embed. destruct (w_flush w2 wr) as [[okf w2a] wra]. cbn [lw3].
  replace (if okf then embw w2a else report EFlush (embw w2a)) with (embw (if okf then w2a else report EFlush w2a))
    by (destruct okf; [reflexivity | symmetry; apply report_embed]).
  rewrite w_drop_embed, reset_size_and_date_embed by exact Hn.
  rewrite !cleanup_never_q. reflexivity.
Qed.

Lemma mount_next_good_td w st force r w' st' : good_inner_td st -> mount_next c w st force = (r, w', st') -> good_inner_td st'.
Proof.
  intros G. destruct st as [|[rs|] wr path]; try (cbn; intros H; injection H as _ _ <-; exact Logic.I).
  destruct G as [[ts En] Ek]. destruct rs as [ns roll kc0 bg]. cbn [rs_naming rs_cleanup] in En, Ek. subst ns kc0.
  unfold mount_next. cbn [rs_roll rs_naming rs_cleanup rs_bg].
  destruct (force || rotation_necessary w roll); [|intros H; injection H as _ _ <-; cbn; split; [eauto | reflexivity]].
  destruct (collision_free c w (infix_from_ts c w std_fmt (wnow w))) as [[i| |] w1];
    try (intros H; injection H as _ _ <-; cbn; split; [eauto | reflexivity]).
  destruct (open_log_file c w1 (Some i)) as [[[wr' path']| |] w2];
    try (intros H; injection H as _ _ <-; cbn; split; [eauto | reflexivity]).
  destruct (w_flush w2 wr) as [[okf w2a] wra]. rewrite cleanup_never_q.
  intros H; injection H as _ _ <-; cbn; split; [eauto | reflexivity].
Qed.

(* the initialisation: the time stamp that latest_timestamp_file finds (the clock, unless the writer appends and finds
   files of the family) must be one of the years 1970..9999 *)
Lemma initialize_embed_td w :
  (forall ts w1, latest_timestamp_file c w (negb (c_append c)) std_fmt = (Ok ts, w1) -> in_years (eoff c w1) ts) ->
  initialize c (embw w) = (shres fi (fst (initialize c w)), embw (snd (initialize c w))).
Proof.
  intros HY. unfold initialize. rewrite Hrot. unfold init_naming.
  rewrite (latest_timestamp_file_embed fn fi c Hts Hforeign).
  destruct (latest_timestamp_file c w (negb (c_append c)) std_fmt) as [r w1] eqn:El.
  destruct r as [ts| |]; cbn [lw fst snd bind]; [|reflexivity|reflexivity].
  specialize (HY ts w1 eq_refl). rewrite (infix_from_ts_embed fn fi c).
  destruct (infix_ok c w1 ts HY) as [Hl Hd].
  rewrite (collision_free_embed fn fi c Hts Hforeign) by assumption.
  destruct (collision_free c w1 (infix_from_ts c w1 std_fmt ts)) as [r2 w2] eqn:Ec.
  destruct r2 as [next| |]; cbn [lw fst snd bind]; [|reflexivity|reflexivity].
  assert (Hnext : forall w'', ~ In (name_of c w'' (Some next)) fnm)
    by (eapply (collision_free_name_own fn c Hts Hforeign); eassumption).
  match goal with |- bind ?A _ = (shres fi (fst (bind ?B _)), _) =>
    assert (EX : exists inf', B = (Ok (NSTs ts None std_fmt, inf'), w2) /\ A = (Ok (NSTs ts None std_fmt, inf'), embw w2)
                              /\ forall w'', ~ In (name_of c w'' (Some inf')) fnm) end.
  { destruct (c_append c); [|exists next; auto].
    destruct (newest_of_next (infix_from_ts c w1 std_fmt ts) next) as [newest|] eqn:En; [|exists next; auto].
    assert (Hnew : forall w'', ~ In (name_of c w'' (Some newest)) fnm).
    { intros w''. destruct (newest_of_next_shape _ _ _ En) as [rs [Hr ->]]. rewrite (name_of_nm c Hts).
      apply (built_name_own fn c Hforeign); assumption. }
    rewrite ?name_of_embed. change (wfs (embw w2)) with (embed fn fi (wfs w2)). rewrite lookup_embed_own by apply Hnew.
    destruct (lookup (wfs w2) (name_of c w2 (Some newest))); [exists newest | exists next]; auto. }
  destruct EX as [inf' [-> [-> Hn]]]. cbn [bind].
  rewrite (open_log_file_embed fn fi c Hlink) by apply Hn.
  destruct (open_log_file c w2 (Some inf')) as [r3 w3] eqn:Eo. cbn [fst snd].
  destruct r3 as [[wr path]| |]; cbn [shwp bind]; [|reflexivity|reflexivity].
  apply open_log_file_path in Eo. subst path.
  rewrite (roll_new_embed fn fi) by apply Hn.
  destruct (roll_new w3 crit (c_append c) (name_of c w2 (Some inf'))) as [r4 w4]. cbn [lw fst snd].
  destruct r4 as [roll| |]; cbn [lw fst snd bind]; reflexivity.
Qed.

Lemma initialize_good_td w i w' : initialize c w = (Ok i, w') -> good_inner_td i.
Proof.
  unfold initialize. rewrite Hrot. unfold init_naming.
  destruct (latest_timestamp_file c w (negb (c_append c)) std_fmt) as [[ts| |] w1]; cbn [bind]; try discriminate.
  destruct (collision_free c w1 (infix_from_ts c w1 std_fmt ts)) as [[next| |] w2]; cbn [bind]; try discriminate.
  match goal with |- bind ?B _ = _ -> _ =>
    assert (EX : exists inf', B = (Ok (NSTs ts None std_fmt, inf'), w2)) end.
  { destruct (c_append c); [|eauto]. destruct (newest_of_next (infix_from_ts c w1 std_fmt ts) next) as [newest|]; [|eauto].
    destruct (lookup (wfs w2) (name_of c w2 (Some newest))); eauto. }
  destruct EX as [inf' ->]. cbn [bind].
  destruct (open_log_file c w2 (Some inf')) as [[[wr path]| |] w3]; cbn [bind]; try discriminate.
  destruct (roll_new w3 crit (c_append c) path) as [[roll| |] w4]; cbn [bind]; try discriminate.
  intros H. injection H as <- _. cbn. split; [eauto | reflexivity].
Qed.
End CfgTd.

(* ------------------------------------------------------------------ the states of the run in the clean directory *)
Section RunTd.
Variable fn : list (bytes * nat).
Variable fi : list file.
Variable c : config.
Variable crit : criterion.
Variables e lo hi : Z.
Hypothesis Hcfg : tsdcfg c crit.
Hypothesis Hyears : years_ok e lo hi.
Hypothesis Hforeign : forall n, In n (fnames fn) -> tsd_member c n = false.

Definition good_td (x : sys) : Prop := (exists a n, RelTd c crit e lo n x a) /\ (wnow (s_w x) <= hi)%Z.

Lemma good_td_cfg x s : good_td x -> s_flw x = Some s -> f_cfg s = c /\ f_poisoned s = false.
Proof.
  intros [[a [n [_ [_ R]]]] _] Es. destruct a as [[closed cur]|].
  - destruct R as [keys [wr [roll [E _]]]]. rewrite E in Es. injection Es as <-. split; reflexivity.
  - destruct R as [E _]. rewrite E in Es. injection Es as <-. split; reflexivity.
Qed.

Lemma good_td_years x : good_td x -> in_years (eoff c (s_w x)) (wnow (s_w x)).
Proof.
  intros [[a [n [_ [_ R]]]] Hhi]. destruct a as [[closed cur]|].
  - destruct R as [keys [wr [roll [_ [I _]]]]]. rewrite (td_off _ _ _ _ _ _ _ I).
    apply (years_in e lo hi); [exact Hyears|]. pose proof (tsdinv_now _ _ _ _ _ _ _ I). lia.
  - destruct R as [_ [_ [_ [_ [Hoff Hlo]]]]]. rewrite Hoff. apply (years_in e lo hi); [exact Hyears | lia].
Qed.

Lemma good_td_inner x s : good_td x -> s_flw x = Some s -> good_inner_td (f_inner s).
Proof.
  intros [[a [n [_ [_ R]]]] _] Es. destruct a as [[closed cur]|].
  - destruct R as [keys [wr [roll [E _]]]]. rewrite E in Es. injection Es as <-. cbn. split; [eauto | reflexivity].
  - destruct R as [E _]. rewrite E in Es. injection Es as <-. exact Logic.I.
Qed.

Lemma mount_next_embed_good_td x s : good_td x -> s_flw x = Some s ->
  mount_next c (embedw fn fi (s_w x)) (shin fi (f_inner s)) true = lm fn fi (mount_next c (s_w x) (f_inner s) true).
Proof.
  intros G Es. destruct Hcfg as [Hrot [Hts [Hlink _]]].
  apply (mount_next_embed_td fn fi c Hts Hlink Hforeign); [eapply good_td_inner; eassumption | apply good_td_years; exact G].
Qed.

Lemma write_buffer_embed_good_td x s b : good_td x -> s_flw x = Some s ->
  write_buffer (embeds fi s) (embedw fn fi (s_w x)) b = lwb fn fi (write_buffer s (s_w x) b).
Proof.
  intros G Es. pose proof Hcfg as [Hrot [Hts [Hlink _]]]. pose proof (good_td_years x G) as Y.
  pose proof (good_td_inner x s G Es) as Gi. destruct (good_td_cfg x s G Es) as [Ec _].
  destruct G as [[a [n [_ [_ R]]]] Hhi].
  apply (write_buffer_embed_pt fn fi c); [exact Ec | |].
  - (* a new writer: the directory of the clean run is empty, the time stamp is the clock's *)
    intros Hi. destruct a as [[closed cur]|].
    + destruct R as [keys [wr [roll [E _]]]]. rewrite E in Es. injection Es as <-. discriminate Hi.
    + destruct R as [_ [Q [Hn _]]]. apply (initialize_embed_td fn fi c crit Hrot Hts Hlink Hforeign).
      intros ts w1 El. rewrite (latest_timestamp_file_empty c _ _ Q Hn) in El. injection El as <- <-. exact Y.
  - intros w0 st0 H0. destruct a as [[closed cur]|].
    + destruct R as [keys [wr [roll [E _]]]]. rewrite E in Es. injection Es as <-. cbn [st_tsd f_inner] in H0.
      injection H0 as <- <-. apply (mount_next_embed_td fn fi c Hts Hlink Hforeign); [exact Gi | exact Y].
    + destruct R as [E [Q [Hn [Hi [Hoff Hlo]]]]]. rewrite E in Es. injection Es as <-. cbn [new_flw f_inner] in H0.
      destruct (initialize_empty_tsd c crit e lo (s_w x) Hcfg Q Hn Hi Hoff Hlo) as [w1 [wr [roll [Ei [_ [_ [_ [S1 _]]]]]]]].
      rewrite Ei in H0. injection H0 as <- <-.
      apply (mount_next_embed_td fn fi c Hts Hlink Hforeign); [cbn; split; [eauto | reflexivity]|].
      rewrite (eoff_same_env c _ _ S1), (same_env_now _ _ S1). exact Y.
Qed.

(* the directory of such a state holds no foreign name *)
Lemma good_td_fam x : good_td x -> fam_g fn good_td x.
Proof.
  intros G. split; [exact G|]. pose proof Hcfg as [_ [Hts _]]. destruct G as [[a [n [_ [_ R]]]] Hhi].
  intros nme Hn. destruct a as [[closed cur]|].
  - destruct R as [keys [wr [roll [_ [I _]]]]]. apply dir_names_lookup in Hn. destruct Hn as [j Hj].
    destruct (td_only _ _ _ _ _ _ _ I nme j Hj) as [i [Hi ->]].
    apply (kname_own fn c Hforeign). apply (years_in e lo hi); [exact Hyears|].
    assert (Ik : In (nth i keys kd) keys) by (apply nth_In; rewrite (td_len _ _ _ _ _ _ _ I); lia).
    pose proof (td_range _ _ _ _ _ _ _ I _ Ik). lia.
  - destruct R as [_ [_ [E _]]]. unfold dir_names in Hn. rewrite E in Hn. destruct Hn.
Qed.
End RunTd.

(* ------------------------------------------------------------------ the theorem *)
(* The foreign-name condition: the family test of the model (tsd_member, TsForeignFacts.v) rejects the name. *)
Theorem timestampsdirect_foreign_ignored c crit t0 off foreign ops :
  tsdcfg c crit -> tag_ok c -> Forall basic_op ops -> Forall tick_ok ops ->
  (0 <= t0 + ts_e c off)%Z -> (t0 + elapsed ops + ts_e c off < sec_max)%Z -> (N.of_nat (length ops) <= usize_max)%N ->
  NoDup (List.map fst foreign) ->
  (forall n, In n (List.map fst foreign) -> tsd_member c n = false) ->
  let ops' := OStart c :: ops ++ [OStop] in
  let rf := run (sys0f t0 off foreign) ops' in
  let r0 := run (sys0 t0 off) ops' in
  (* 1: the same observations; a snapshot shows the foreign files in addition *)
  List.map (strip_obs (List.map fst foreign)) (snd rf) = snd r0
  /\ (Forall (fun o => o <> OSnap) ops -> snd rf = snd r0)
  (* 2: the foreign files are in place, unchanged *)
  /\ (forall n d, In (n, d) foreign -> file_of (wfs (s_w (fst rf))) n = Some (plain_file t0 d))
  (* 3: every other name is what the run in the empty directory makes of it *)
  /\ (forall n, ~ In n (List.map fst foreign) -> file_of (wfs (s_w (fst rf))) n = file_of (wfs (s_w (fst r0))) n)
  /\ (forall n, In n (List.map fst foreign) -> file_of (wfs (s_w (fst r0))) n = None)
  (* the whole state: the run is the embedding of the run in the empty directory *)
  /\ fst rf = embedx (names (fs0f t0 foreign)) (inodes (fs0f t0 foreign)) (fst r0).
Proof.
  intros Hcfg T Hb Htk Hlo Hhi Hmax ND Hfor. pose proof Hcfg as [Hrot [Hts [Hlink Hasync]]].
  destruct (fs0f_spec t0 foreign ND) as [Hd _].
  assert (Hforeign : forall n, In n (fnames (names (fs0f t0 foreign))) -> tsd_member c n = false).
  { intros n Hn. apply Hfor. rewrite <- Hd. exact Hn. }
  assert (Y : years_ok (ts_e c off) t0 (t0 + elapsed ops)) by (split; assumption).
  apply (foreign_ignored_g c (good_td c crit (ts_e c off) t0 (t0 + elapsed ops)) t0 off foreign ops Hts Hasync).
  - intros x s G Es. eapply good_td_cfg; eassumption.
  - intros x s b G Es. apply (write_buffer_embed_good_td _ _ c crit _ _ _ Hcfg Y Hforeign); assumption.
  - intros x s G Es. apply (mount_next_embed_good_td _ _ c crit _ _ _ Hcfg Y Hforeign); assumption.
  - exact Hb.
  - exact ND.
  - intros i. apply (good_td_fam _ c crit _ _ _ Hcfg Y Hforeign).
    destruct (step (sys0 t0 off) (OStart c)) as [x0 ob0] eqn:E0.
    pose proof (start_rel_tsd c crit t0 off) as R0. rewrite E0 in R0. cbn [fst] in *.
    assert (W0 : wnow (s_w x0) = t0) by (cbn in E0; injection E0 as <- _; reflexivity).
    pose proof (elapsed_firstn_le ops Htk i) as El. pose proof (firstn_length_le ops i) as Ll.
    pose proof (run_rel_tsd c crit _ _ _ Hcfg T Y (firstn i ops) x0 None 0 R0 (Forall_firstn' _ _ i Hb) (Forall_firstn' _ _ i Htk)
                  ltac:(lia) ltac:(cbn [Nat.add]; lia)) as [R1 [W1 _]].
    split; [eauto | lia].
  - intros n Hn. rewrite <- Hd in Hn.
    destruct (timestampsdirect_stream_view c crit t0 off ops Hcfg T Hb Htk Hlo Hhi Hmax) as [keys [files [[Hl [_ [Hon _]]] [_ [_ Rg]]]]].
    destruct (lookup (wfs (s_w (fst (run (sys0 t0 off) (OStart c :: ops ++ [OStop]))))) n) as [j|] eqn:Ej; [exfalso|reflexivity].
    destruct (Hon n j Ej) as [i [Hi ->]]. revert Hn. apply (kname_own _ c Hforeign).
    apply (years_in _ _ _ _ Y). apply Rg. apply nth_In. lia.
Qed.
Print Assumptions timestampsdirect_foreign_ignored.

(* ------------------------------------------------------------------ the stream of records *)
(* the family files of a directory that may hold other files, too: the files named by the keys hold `files`, and no
   other name outside the foreign ones exists *)
Definition tsd_view_family (c : config) (e : Z) (fnm : list bytes) (f : fs) (keys : list key) (files : list bytes) : Prop :=
  length keys = length files
  /\ (forall i, i < length files ->
        exists fl, file_of f (kname c e (nth i keys kd)) = Some fl /\ plain fl /\ fdata fl = nth i files [])
  /\ (forall n, ~ In n fnm -> file_of f n <> None -> exists i, i < length files /\ n = kname c e (nth i keys kd)).

(* timestampsdirect_stream carries over: with foreign files in the directory the family files still hold, in the order
   of their keys, exactly the bytes written *)
Theorem timestampsdirect_stream_foreign c crit t0 off foreign ops :
  tsdcfg c crit -> tag_ok c -> Forall basic_op ops -> Forall tick_ok ops ->
  (0 <= t0 + ts_e c off)%Z -> (t0 + elapsed ops + ts_e c off < sec_max)%Z -> (N.of_nat (length ops) <= usize_max)%N ->
  NoDup (List.map fst foreign) ->
  (forall n, In n (List.map fst foreign) -> tsd_member c n = false) ->
  exists keys files,
    tsd_view_family c (ts_e c off) (List.map fst foreign)
      (wfs (s_w (fst (run (sys0f t0 off foreign) (OStart c :: ops ++ [OStop]))))) keys files
    /\ concat files = written ops /\ keys_ok keys
    /\ (forall k, In k keys -> (t0 <= fst k <= t0 + elapsed ops)%Z).
Proof.
  intros Hcfg T Hb Htk Hlo Hhi Hmax ND Hfor.
  destruct (timestampsdirect_foreign_ignored c crit t0 off foreign ops Hcfg T Hb Htk Hlo Hhi Hmax ND Hfor) as [_ [_ [_ [H3 _]]]].
  destruct (timestampsdirect_stream_view c crit t0 off ops Hcfg T Hb Htk Hlo Hhi Hmax) as [keys [files [[Hl [Hcl [Hon _]]] [Hc [K Rg]]]]].
  exists keys, files. split; [|split; [exact Hc | split; [exact K | exact Rg]]].
  set (ff := wfs (s_w (fst (run (sys0f t0 off foreign) (OStart c :: ops ++ [OStop]))))) in *.
  set (f0 := wfs (s_w (fst (run (sys0 t0 off) (OStart c :: ops ++ [OStop]))))) in *.
  assert (Y : years_ok (ts_e c off) t0 (t0 + elapsed ops)) by (split; assumption).
  assert (Hkn : forall i, i < length files -> ~ In (kname c (ts_e c off) (nth i keys kd)) (List.map fst foreign)).
  { intros i Hi Hin. apply Hfor in Hin. unfold tsd_member in Hin. rewrite !orb_false_iff in Hin. destruct Hin as [[Q _] _].
    unfold kname in Q. rewrite infix_of_tail in Q.
    assert (Yk : in_years (ts_e c off) (fst (nth i keys kd))).
    { apply (years_in _ _ _ _ Y). apply Rg. apply nth_In. lia. }
    rewrite (built_name_member c) in Q;
      [discriminate | apply tsx_like; exact Yk | exact (tsx_no_dot _ _ Yk) | apply ktail_restart_part]. }
  split; [exact Hl|]. split.
  - intros i Hi. destruct (Hcl i Hi) as [j [Lj [Pj Cj]]]. exists (inode f0 j).
    split; [rewrite (H3 _ (Hkn i Hi)); unfold file_of; rewrite Lj; reflexivity|]. split; [exact Pj | exact Cj].
  - intros n Hn Hex. rewrite (H3 n Hn) in Hex. unfold file_of in Hex.
    destruct (lookup f0 n) as [j|] eqn:Lj; [|congruence]. exact (Hon n j Lj).
Qed.
Print Assumptions timestampsdirect_stream_foreign.

(* ------------------------------------------------------------------ examples *)
Import String.StringSyntax.
Open Scope string_scope.
Definition extd_c : config :=
  {| c_spec := {| fbase := bs "a"; fdisc := None; fts := false; fsfx := Some (bs "log") |};
     c_append := true; c_cap := Some 3%nat; c_rot := Some (CSize 3, NTimestampsDirect, KNever); c_utc := false;
     c_symlink := false; c_bg := false; c_async := false; c_start := None |}.

(* "abcd" is larger than 3: the write of "ef" rotates (same second: restart-0000); the clock advances, the trigger and -
   "ghij" is larger than 3 - the write of "k" rotate *)
Definition extd_ops : list op :=
  [OWrite (bs "abcd"); OWrite (bs "ef"); OTick 1; OTrigger; OWrite (bs "ghij"); OSnap; OWrite (bs "k")].

(* near misses of the family a_r<time stamp>[.restart-NNNN].log[.gz]: another suffix behind or instead of the suffix, no time
   stamp, too few bytes in the infix, another fixed part, no suffix, the rCURRENT file (and its archive) of the other
   naming, the fixed part alone, a restart counter with too few digits, no "r"; the files of the number namings (plain and
   compressed), a number and a letter, a date without the time, a time stamp and a letter *)
Definition extd_foreign : list (bytes * bytes) :=
  [ (bs "a_r1970-01-01_00-00-00.log.bak", bs "w"); (bs "a_rXYZ.log", bs "x"); (bs "b.log", bs "y");
    (bs "a_r1970-01-01_00-00-00.txt", bs "z"); (bs "a_r1.log", bs "u"); (bs "ax_r1970-01-01_00-00-00.log", bs "v");
    (bs "a_r1970-01-01_00-00-00", bs "t"); (bs "a_rCURRENT.log", bs "s"); (bs "a.log", bs "q");
    (bs "a_r1970-01-01_00-00-00.restart-00.log", bs "p"); (bs "a_1970-01-01_00-00-00.log", bs "o");
    (bs "a_rCURRENT.log.gz", bs "n");
    (bs "a_r1x.log", bs "1"); (bs "a_r00001.log", bs "2"); (bs "a_r2030-01-01_00-00-00x.log", bs "3");
    (bs "a_r1970-01-01.log", bs "4"); (bs "a_r00001.log.gz", bs "5") ].

Example foreign_hypotheses_td :
  tsdcfg extd_c (CSize 3) /\ tag_ok extd_c /\ Forall basic_op extd_ops /\ Forall tick_ok extd_ops
  /\ (0 <= 0 + ts_e extd_c 0)%Z /\ (0 + elapsed extd_ops + ts_e extd_c 0 < sec_max)%Z
  /\ (N.of_nat (length extd_ops) <= usize_max)%N
  /\ NoDup (List.map fst extd_foreign)
  /\ (forall n, In n (List.map fst extd_foreign) -> tsd_member extd_c n = false).
Proof.
  split; [repeat split|]. split; [apply tag_free_ok; split; vm_compute; reflexivity|].
  split; [repeat constructor|].
  split; [repeat (apply Forall_cons; [cbn [tick_ok]; first [exact Logic.I | lia]|]); apply Forall_nil|].
  split; [vm_compute; discriminate|]. split; [vm_compute; reflexivity|]. split; [vm_compute; discriminate|]. split.
  - repeat (constructor; [vm_compute; intuition discriminate|]). constructor.
  - intros n Hn. cbn [List.map fst extd_foreign In] in Hn.
    repeat (destruct Hn as [<-|Hn]; [vm_compute; reflexivity|]). destruct Hn.
Qed.

(* the theorem applied *)
Example foreign_instance_td :
  List.map (strip_obs (List.map fst extd_foreign)) (snd (run (sys0f 0 0 extd_foreign) (OStart extd_c :: extd_ops ++ [OStop])))
  = snd (run (sys0 0 0) (OStart extd_c :: extd_ops ++ [OStop])).
Proof.
  destruct foreign_hypotheses_td as [H1 [H2 [H3 [H4 [H5 [H6 [H7 [H8 H9]]]]]]]].
  exact (proj1 (timestampsdirect_foreign_ignored extd_c (CSize 3) 0 0 extd_foreign extd_ops H1 H2 H3 H4 H5 H6 H7 H8 H9)).
Qed.

(* ... and computed: the directory after the run *)
Example foreign_instance_dir_td :
  ex_snap (fst (run (sys0f 0 0 extd_foreign) (OStart extd_c :: extd_ops ++ [OStop])))
  = [ (bs "a.log", 0%N, bs "q");
      (bs "a_1970-01-01_00-00-00.log", 0%N, bs "o");
      (bs "a_r00001.log", 0%N, bs "2");
      (bs "a_r00001.log.gz", 0%N, bs "5");
      (bs "a_r1.log", 0%N, bs "u");
      (bs "a_r1970-01-01.log", 0%N, bs "4");
      (bs "a_r1970-01-01_00-00-00", 0%N, bs "t");
      (bs "a_r1970-01-01_00-00-00.log", 0%N, bs "abcd");
      (bs "a_r1970-01-01_00-00-00.log.bak", 0%N, bs "w");
      (bs "a_r1970-01-01_00-00-00.restart-00.log", 0%N, bs "p");
      (bs "a_r1970-01-01_00-00-00.restart-0000.log", 0%N, bs "ef");
      (bs "a_r1970-01-01_00-00-00.txt", 0%N, bs "z");
      (bs "a_r1970-01-01_00-00-01.log", 0%N, bs "ghij");
      (bs "a_r1970-01-01_00-00-01.restart-0000.log", 0%N, bs "k");
      (bs "a_r1x.log", 0%N, bs "1");
      (bs "a_r2030-01-01_00-00-00x.log", 0%N, bs "3");
      (bs "a_rCURRENT.log", 0%N, bs "s");
      (bs "a_rCURRENT.log.gz", 0%N, bs "n");
      (bs "a_rXYZ.log", 0%N, bs "x");
      (bs "ax_r1970-01-01_00-00-00.log", 0%N, bs "v");
      (bs "b.log", 0%N, bs "y") ]
  /\ ex_snap (fst (run (sys0 0 0) (OStart extd_c :: extd_ops ++ [OStop])))
  = [ (bs "a_r1970-01-01_00-00-00.log", 0%N, bs "abcd");
      (bs "a_r1970-01-01_00-00-00.restart-0000.log", 0%N, bs "ef");
      (bs "a_r1970-01-01_00-00-01.log", 0%N, bs "ghij");
      (bs "a_r1970-01-01_00-00-01.restart-0000.log", 0%N, bs "k") ].
Proof. vm_compute. split; reflexivity. Qed.

(* the observations other than the snapshot are literally the same *)
Example foreign_instance_obs_td :
  filter (fun ob => match ob with ObsSnap _ _ _ => false | _ => true end)
    (snd (run (sys0f 0 0 extd_foreign) (OStart extd_c :: extd_ops ++ [OStop])))
  = [ObsRes 0 false; ObsRes 0 false; ObsRes 0 true; ObsRes 0 false; ObsRes 0 false; ObsRes 0 false; ObsRes 0 true; ObsRes 0 false].
Proof. vm_compute. reflexivity. Qed.

(* Files that pass the family test are NOT foreign, whoever put them there - and the model does act on them.  With append:
   (1) a_r1999-01-01_00-00-00.log carries the latest time stamp of the directory: the writer CONTINUES it ("abcd" is
       appended to the stranger's "w"); without append it is left alone (a new file is started);
   (2) a_r1970-01-01_00-00-01.restart-0005.log - a time stamp in the future of the clock (0) - is continued, too, and the
       restart counters of that second go on from 0006;
   (3) an archive a_r1970-01-01_00-00-01.log.gz: the plain name of that second counts as taken, the files of that second
       start with restart-0000;
   (4) names that only chrono's lenient parser reads as a time stamp do NOT pass the test (since the repair of the
       time-stamp filter, which wants the text the format itself writes): a_r1970-1-1_0-0-0.log (no leading zeros),
       "a_r 1970-01-01_00-00-00.log" (white space), a_r+1970-01-01_00-00-00.log (a sign) are foreign.
   The names of (1)-(3) DO follow the pattern <fixed>_<infix of the naming>.<suffix>[.gz]: this is legitimate. *)
Example member_files_td :
  let run_with n := ex_snap (fst (run (sys0f 0 0 [(bs n, bs "w")]) (OStart extd_c :: extd_ops ++ [OStop]))) in
  List.map (tsd_member extd_c) [bs "a_r1999-01-01_00-00-00.log"; bs "a_r1970-01-01_00-00-01.restart-0005.log";
                                bs "a_r1970-01-01_00-00-01.log.gz";
                                bs "a_r 1970-01-01_00-00-00.log"; bs "a_r1970-1-1_0-0-0.log"; bs "a_r+1970-01-01_00-00-00.log";
                                bs "a_r2024-02-29_23-59-58.log"]
  = [true; true; true; false; false; false; true]
  /\ run_with "a_r1999-01-01_00-00-00.log"
     = [ (bs "a_r1970-01-01_00-00-00.log", 0%N, bs "ef");
         (bs "a_r1970-01-01_00-00-01.log", 0%N, bs "ghij");
         (bs "a_r1970-01-01_00-00-01.restart-0000.log", 0%N, bs "k");
         (bs "a_r1999-01-01_00-00-00.log", 0%N, bs "wabcd") ]
  /\ run_with "a_r1970-01-01_00-00-01.restart-0005.log"
     = [ (bs "a_r1970-01-01_00-00-00.log", 0%N, bs "ef");
         (bs "a_r1970-01-01_00-00-01.restart-0005.log", 0%N, bs "wabcd");
         (bs "a_r1970-01-01_00-00-01.restart-0006.log", 0%N, bs "ghij");
         (bs "a_r1970-01-01_00-00-01.restart-0007.log", 0%N, bs "k") ]
  /\ run_with "a_r1970-01-01_00-00-01.log.gz"
     = [ (bs "a_r1970-01-01_00-00-00.log", 0%N, bs "abcd");
         (bs "a_r1970-01-01_00-00-00.restart-0000.log", 0%N, bs "ef");
         (bs "a_r1970-01-01_00-00-01.log.gz", 0%N, bs "w");
         (bs "a_r1970-01-01_00-00-01.restart-0000.log", 0%N, bs "ghij");
         (bs "a_r1970-01-01_00-00-01.restart-0001.log", 0%N, bs "k") ].
Proof. vm_compute. repeat split. Qed.

(* A NUMBER INFIX IS FOREIGN for this naming.  Before the repair of the code latest_timestamp_file listed the directory
   with the (lax) number filter - "r", a digit, one more byte -, and the family test had to accept whatever that filter
   accepted: a_r1x.log, a_r00001.log, a_r1970-01-01.log and a_r2030-01-01_00-00-00x.log were members (the former example
   member_files_td), and the last one did harm: 20 bytes were cut out of its name, "r2030-01-01_00-00-00" was read as the
   latest time stamp of the directory, and a writer with append continued (created) a_r2030-01-01_00-00-00.log.
   NOW latest_timestamp_file lists with the time-stamp filter; every listing of this naming does, or asks for one given
   time stamp (collision_free_infix: IFEq).  All these names are rejected by tsd_member, the run with such a file in the
   directory - with append - is the run in the empty directory, the file stays what it was.  Nothing remains: the number
   filter is not applied by this naming any more. *)
Example number_infix_foreign_td :
  let names := [bs "a_r1x.log"; bs "a_r00001.log"; bs "a_r00001.log.gz"; bs "a_r1.log"; bs "a_r1backup.log"; bs "a_r00001x.log";
                bs "a_r1970-01-01.log"; bs "a_r2030-01-01_00-00-00x.log"; bs "a_r1970-01-01_00-00-00.restart-0000x.log"] in
  List.map (tsd_member extd_c) names = List.map (fun _ => false) names
  /\ Forall (fun n =>
        List.map (strip_obs [n]) (snd (run (sys0f 0 0 [(n, bs "w")]) (OStart extd_c :: extd_ops ++ [OStop])))
        = snd (run (sys0 0 0) (OStart extd_c :: extd_ops ++ [OStop]))
        /\ file_of (wfs (s_w (fst (run (sys0f 0 0 [(n, bs "w")]) (OStart extd_c :: extd_ops ++ [OStop]))))) n
           = Some (plain_file 0 (bs "w"))) names
  /\ ex_snap (fst (run (sys0f 0 0 [(bs "a_r2030-01-01_00-00-00x.log", bs "w")]) (OStart extd_c :: extd_ops ++ [OStop])))
     = [ (bs "a_r1970-01-01_00-00-00.log", 0%N, bs "abcd");
         (bs "a_r1970-01-01_00-00-00.restart-0000.log", 0%N, bs "ef");
         (bs "a_r1970-01-01_00-00-01.log", 0%N, bs "ghij");
         (bs "a_r1970-01-01_00-00-01.restart-0000.log", 0%N, bs "k");
         (bs "a_r2030-01-01_00-00-00x.log", 0%N, bs "w") ].
Proof.
  cbv zeta. split; [vm_compute; reflexivity|]. split; [|vm_compute; reflexivity].
  repeat (apply Forall_cons; [vm_compute; split; reflexivity|]). apply Forall_nil.
Qed.

(* Why the third clause of tsd_member (the name without ".gz" is a plain member) is there.  collision_free_infix looks up
   <new name>.gz.  Unless the suffix of the family is "gz" this name is listed among the archives (tsd_member_simple).
   With the suffix "gz" no listing of the model accepts a_r1970-01-01_00-00-01.gz.gz - neither as a plain file (infix
   "r1970-01-01_00-00-01.gz": the tail "gz" is no restart counter) nor as an archive -, but the lookup finds it, and the files
   of that second start with restart-0000.  A theorem with "every listing rejects the name" as its hypothesis would be
   false for this configuration. *)
Definition extd_gz : config :=
  {| c_spec := {| fbase := bs "a"; fdisc := None; fts := false; fsfx := Some (bs "gz") |};
     c_append := true; c_cap := Some 3%nat; c_rot := Some (CSize 3, NTimestampsDirect, KNever); c_utc := false;
     c_symlink := false; c_bg := false; c_async := false; c_start := None |}.
Example sfx_gz_archive_name_td :
  let n := bs "a_r1970-01-01_00-00-01.gz.gz" in
  fam_q extd_gz (fsfx (c_spec extd_gz)) n = false /\ fam_q extd_gz (Some gz_sfx) n = false /\ tsd_member extd_gz n = true
  /\ tsdcfg extd_gz (CSize 3) /\ tag_ok extd_gz
  /\ ex_snap (fst (run (sys0f 0 0 [(n, bs "w")]) (OStart extd_gz :: extd_ops ++ [OStop])))
     = [ (bs "a_r1970-01-01_00-00-00.gz", 0%N, bs "abcd");
         (bs "a_r1970-01-01_00-00-00.restart-0000.gz", 0%N, bs "ef");
         (bs "a_r1970-01-01_00-00-01.gz.gz", 0%N, bs "w");
         (bs "a_r1970-01-01_00-00-01.restart-0000.gz", 0%N, bs "ghij");
         (bs "a_r1970-01-01_00-00-01.restart-0001.gz", 0%N, bs "k") ]
  /\ ex_snap (fst (run (sys0 0 0) (OStart extd_gz :: extd_ops ++ [OStop])))
     = [ (bs "a_r1970-01-01_00-00-00.gz", 0%N, bs "abcd");
         (bs "a_r1970-01-01_00-00-00.restart-0000.gz", 0%N, bs "ef");
         (bs "a_r1970-01-01_00-00-01.gz", 0%N, bs "ghij");
         (bs "a_r1970-01-01_00-00-01.restart-0000.gz", 0%N, bs "k") ].
Proof.
  cbv zeta. split; [vm_compute; reflexivity|]. split; [vm_compute; reflexivity|]. split; [vm_compute; reflexivity|].
  split; [repeat split|]. split; [apply tag_free_ok; split; vm_compute; reflexivity|]. vm_compute. split; reflexivity.
Qed.

(* the stream theorem applied: the family files hold the bytes written *)
Example stream_instance_td :
  exists keys files,
    tsd_view_family extd_c 0 (List.map fst extd_foreign)
      (wfs (s_w (fst (run (sys0f 0 0 extd_foreign) (OStart extd_c :: extd_ops ++ [OStop]))))) keys files
    /\ concat files = bs "abcdefghijk" /\ keys_ok keys /\ (forall k, In k keys -> (0 <= fst k <= 1)%Z).
Proof.
  destruct foreign_hypotheses_td as [H1 [H2 [H3 [H4 [H5 [H6 [H7 [H8 H9]]]]]]]].
  exact (timestampsdirect_stream_foreign extd_c (CSize 3) 0 0 extd_foreign extd_ops H1 H2 H3 H4 H5 H6 H7 H8 H9).
Qed.
