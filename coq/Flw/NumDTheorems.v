(* NumbersDirect naming: end-to-end statements about whole runs from an empty directory.
   The directory of a stopped writer consists exactly of r00000 .. r(n) (direct_view); the contents, in number order,
   are the same lists that Numbers naming spreads over r00000 .. r(n-1), rCURRENT. *)
Require Import FL.Base.Bytes FL.Base.BytesFacts FL.Base.PathName FL.Fs.Fs FL.Fs.FsFacts FL.Time.Civil FL.Time.TsFormat
  FL.Names.FileSpec FL.Names.NamesFacts FL.Flw.Model FL.Flw.ModelFacts FL.Flw.NumFs FL.Flw.NumInv FL.Flw.Run FL.Flw.NumRun
  FL.Oracles.O_Flw FL.Flw.NumTheorems FL.Flw.NumRestart FL.Flw.NumDInv FL.Flw.NumDRun.
From Coq Require Import ZifyN ZifyNat ZifyBool.
Import String.StringSyntax.
Open Scope nat_scope.

(* ------------------------------------------------------------------ the reader's view *)
(* an empty list of files: the directory is empty *)
Lemma direct_view_nil c f : direct_view c f [] <-> names f = [].
Proof.
  split.
  - intros [_ H]. destruct (names f) as [|[n j] r] eqn:E; [reflexivity|].
    assert (L : lookup f n = Some j) by (unfold lookup; rewrite E; cbn; rewrite beq_refl; reflexivity).
    destruct (H n j L) as [i [Hi _]]. cbn in Hi. lia.
  - intros H. split.
    + intros i Hi. cbn in Hi. lia.
    + intros n j L. rewrite lookup_empty in L by assumption. discriminate.
Qed.

(* the view determines the list of files: number and contents *)
Lemma direct_view_length c f files1 files2 : direct_view c f files1 -> direct_view c f files2 -> length files1 <= length files2.
Proof.
  intros [A1 _] [_ B2]. destruct (Nat.le_gt_cases (length files1) (length files2)) as [H|H]; [exact H|].
  destruct (A1 (length files2) H) as [j [L _]]. destruct (B2 _ _ L) as [i [Hi E]]. apply rname_inj in E. lia.
Qed.

Lemma direct_view_unique c f files1 files2 : direct_view c f files1 -> direct_view c f files2 -> files1 = files2.
Proof.
  intros V1 V2. pose proof (direct_view_length c f _ _ V1 V2) as L1. pose proof (direct_view_length c f _ _ V2 V1) as L2.
  assert (EL : length files1 = length files2) by lia.
  apply (nth_ext _ _ [] [] EL). intros i Hi.
  destruct V1 as [A1 _]. destruct V2 as [A2 _].
  assert (Hi2 : i < length files2) by (rewrite <- EL; exact Hi).
  destruct (A1 i Hi) as [j1 [Lj1 [_ C1]]]. destruct (A2 i Hi2) as [j2 [Lj2 [_ C2]]].
  rewrite Lj1 in Lj2. injection Lj2 as <-. exact (eq_trans (eq_sym C1) C2).
Qed.

(* the names in the directory are exactly rname c 0 .. rname c (n-1) *)
Lemma direct_view_names c f files n : direct_view c f files ->
  (exists j, lookup f n = Some j) <-> exists i, i < length files /\ n = rname c i.
Proof.
  intros [A B]. split.
  - intros [j L]. exact (B n j L).
  - intros [i [Hi ->]]. destruct (A i Hi) as [j [L _]]. eauto.
Qed.

Lemma files_of_direct c f a : match a with None => names f = [] | Some _ => direct_view c f (files_of a) end ->
  direct_view c f (files_of a).
Proof. destruct a as [[cl cu]|]; cbn [files_of]; intros H; [exact H | apply direct_view_nil; exact H]. Qed.

Lemma start_rel_d c crit t0 off : RelD c crit (fst (step (sys0 t0 off) (OStart c))) None.
Proof. cbn. repeat split. Qed.

(* the view of a whole run *)
Lemma run_view_d c crit t0 off ops :
  numdcfg c crit -> Forall basic_op ops ->
  exists x0 ob0, step (sys0 t0 off) (OStart c) = (x0, ob0) /\ RelD c crit x0 None /\
    direct_view c (wfs (s_w (fst (run (sys0 t0 off) (OStart c :: ops ++ [OStop])))))
                (files_of (a_run None ops (snd (run x0 ops)))).
Proof.
  intros Hcfg Hb. cbn [run]. destruct (step (sys0 t0 off) (OStart c)) as [x0 ob0] eqn:E0.
  pose proof (start_rel_d c crit t0 off) as R0. rewrite E0 in R0. cbn [fst] in R0.
  exists x0, ob0. split; [reflexivity|]. split; [exact R0|].
  rewrite run_app. pose proof (run_rel_d c crit Hcfg ops x0 None R0 Hb) as R1.
  destruct (run x0 ops) as [x1 obs1]. cbn [fst snd] in *.
  pose proof (stop_rel_d c crit x1 _ Hcfg R1) as S. cbn [run]. destruct (step x1 OStop) as [x2 ob2]. cbn [fst].
  apply files_of_direct. exact S.
Qed.

(* ------------------------------------------------------------------ the theorems *)
(* C01 for NumbersDirect naming: any criterion, any buffer capacity, with or without append.  After the writer is stopped
   the directory consists exactly of the plain files r00000 .. r(n) - consecutive numbers, nothing else; it is empty when
   nothing was written - and their contents, concatenated in this order, are exactly the bytes written. *)
Theorem numbersdirect_stream c crit t0 off ops :
  numdcfg c crit -> Forall basic_op ops ->
  exists files, direct_view c (wfs (s_w (fst (run (sys0 t0 off) (OStart c :: ops ++ [OStop]))))) files
    /\ concat files = written ops.
Proof.
  intros Hcfg Hb. destruct (run_view_d c crit t0 off ops Hcfg Hb) as [x0 [ob0 [E0 [R0 V]]]].
  exists (files_of (a_run None ops (snd (run x0 ops)))). split; [exact V|].
  pose proof (a_run_flat ops None (snd (run x0 ops)) Hb (run_length ops x0)) as F. cbn [flat app] in F. rewrite <- F.
  destruct (a_run None ops (snd (run x0 ops))) as [[cl cu]|]; cbn [files_of flat concat]; [|reflexivity].
  rewrite concat_app. cbn [concat]. rewrite app_nil_r. reflexivity.
Qed.

(* C08 for NumbersDirect naming with a size criterion: the files r00000, r00001, ... are the greedy partition of the
   records - the very same lists that Numbers naming puts into r00000, ..., rCURRENT: a trigger before the first
   record does nothing (no file has been opened yet), the first file starts empty, and every rotation starts an empty
   file under the next number *)
Theorem numbersdirect_partition c m t0 off ops :
  numdcfg c (CSize m) -> Forall basic_op ops ->
  direct_view c (wfs (s_w (fst (run (sys0 t0 off) (OStart c :: ops ++ [OStop]))))) (expected_files m None (items false ops)).
Proof.
  intros Hcfg Hb. destruct (run_view_d c (CSize m) t0 off ops Hcfg Hb) as [x0 [ob0 [E0 [R0 V]]]].
  pose proof (run_size_d c m Hcfg ops x0 None R0 Hb) as [Hs _].
  rewrite Hs, s_run_none in V by assumption. exact V.
Qed.

(* each write reports a rotation exactly when the current file (disk + buffer) already exceeds the limit *)
Theorem numbersdirect_rotates_iff c m t0 off ops i o b :
  numdcfg c (CSize m) -> Forall basic_op ops -> nth_error ops i = Some o -> (o = OWrite b \/ o = OPlain b) ->
  nth_error (snd (run (sys0 t0 off) (OStart c :: ops))) (S i)
  = Some (ObsRes 0 (m <? N.of_nat (length (cur_of (s_run m None (firstn i ops)))))%N).
Proof.
  intros Hcfg Hb Hi Ho. cbn [run]. destruct (step (sys0 t0 off) (OStart c)) as [x0 ob0] eqn:E0.
  pose proof (start_rel_d c (CSize m) t0 off) as R0. rewrite E0 in R0. cbn [fst] in R0.
  pose proof (run_size_d c m Hcfg ops x0 None R0 Hb) as [_ Hr].
  destruct (run x0 ops) as [x1 obs1]. cbn [snd nth_error] in *. exact (Hr i o Hi b Ho).
Qed.

(* the current file of the abstract run is the last file of the partition: the flag of numbersdirect_rotates_iff
   in terms of the oracle *)
Lemma s_run_cur_last m ops : Forall basic_op ops ->
  cur_of (s_run m None ops) = last (expected_files m None (items false ops)) [].
Proof.
  intros Hb. rewrite <- s_run_none by assumption.
  destruct (s_run m None ops) as [[cl cu]|]; cbn [cur_of files_of]; [|reflexivity]. rewrite last_last. reflexivity.
Qed.

Lemma firstn_Forall {A} (P : A -> Prop) n l : Forall P l -> Forall P (firstn n l).
Proof. revert n. induction l as [|x l IH]; intros n H; destruct n; cbn [firstn]; try constructor; inversion H; subst; auto. Qed.

Corollary numbersdirect_rotates_last c m t0 off ops i o b :
  numdcfg c (CSize m) -> Forall basic_op ops -> nth_error ops i = Some o -> (o = OWrite b \/ o = OPlain b) ->
  nth_error (snd (run (sys0 t0 off) (OStart c :: ops))) (S i)
  = Some (ObsRes 0 (m <? N.of_nat (length (last (expected_files m None (items false (firstn i ops))) [])))%N).
Proof.
  intros Hcfg Hb Hi Ho. rewrite (numbersdirect_rotates_iff c m t0 off ops i o b Hcfg Hb Hi Ho).
  rewrite s_run_cur_last by (apply firstn_Forall; exact Hb). reflexivity.
Qed.

(* nothing is in the directory exactly when no record was written *)
Fixpoint has_write (ops : list op) : bool :=
  match ops with [] => false | (OWrite _ | OPlain _) :: _ => true | _ :: r => has_write r end.

Lemma a_run_some p : forall ops obs, exists q, a_run (Some p) ops obs = Some q.
Proof.
  intros ops. revert p. induction ops as [|o r IH]; intros p obs; cbn [a_run]; [eauto|].
  destruct obs as [|ob robs]; [eauto|]. destruct (a_step_some p o (rot_of ob)) as [q ->]. apply IH.
Qed.

Lemma a_run_none_iff ops : forall obs, length obs = length ops -> Forall basic_op ops ->
  (a_run None ops obs = None <-> has_write ops = false).
Proof.
  induction ops as [|o r IH]; intros obs Hl Hb; [cbn; tauto|].
  destruct obs as [|ob robs]; [discriminate|]. inversion Hb as [|o' r' Ho Hr]; subst. cbn in Hl.
  destruct o; try contradiction; cbn [a_run has_write]; try (cbn [a_step]; apply IH; [lia | exact Hr]).
  - assert (X : exists p, a_step None (OWrite b) (rot_of ob) = Some p) by exact (a_step_some ([], []) (OWrite b) (rot_of ob)).
    destruct X as [p ->]. destruct (a_run_some p r robs) as [q ->]. split; discriminate.
  - assert (X : exists p, a_step None (OPlain b) (rot_of ob) = Some p) by exact (a_step_some ([], []) (OPlain b) (rot_of ob)).
    destruct X as [p ->]. destruct (a_run_some p r robs) as [q ->]. split; discriminate.
Qed.

Theorem numbersdirect_empty_iff c crit t0 off ops :
  numdcfg c crit -> Forall basic_op ops ->
  (names (wfs (s_w (fst (run (sys0 t0 off) (OStart c :: ops ++ [OStop]))))) = [] <-> has_write ops = false).
Proof.
  intros Hcfg Hb. destruct (run_view_d c crit t0 off ops Hcfg Hb) as [x0 [ob0 [E0 [R0 V]]]].
  rewrite <- (a_run_none_iff ops (snd (run x0 ops)) (run_length ops x0) Hb).
  destruct (a_run None ops (snd (run x0 ops))) as [[cl cu]|]; cbn [files_of] in V.
  - split; [|discriminate]. intros Hn. apply (direct_view_nil c) in Hn.
    pose proof (direct_view_length c _ _ _ V Hn) as L. rewrite app_length in L. cbn in L. lia.
  - split; [reflexivity|]. intros _. apply (direct_view_nil c). exact V.
Qed.

Print Assumptions numbersdirect_stream.
Print Assumptions numbersdirect_partition.
Print Assumptions numbersdirect_rotates_iff.
Print Assumptions numbersdirect_empty_iff.

(* ------------------------------------------------------------------ examples *)
Open Scope string_scope.
Definition exd_cfg (sp : file_spec) (app : bool) (crit : criterion) (cap : option nat) : config :=
  {| c_spec := sp; c_append := app; c_cap := cap; c_rot := Some (crit, NNumbersDirect, KNever); c_utc := false;
     c_symlink := false; c_bg := false; c_async := false; c_start := None |}.

Lemma exd_cfg_ok sp app crit cap : fts sp = false -> numdcfg (exd_cfg sp app crit cap) crit.
Proof. intros H. repeat split. exact H. Qed.

(* a history with a trigger before the first record, buffered records, a rotation by size, a trigger at the end *)
Definition exd_ops : list op :=
  [OTrigger; OWrite (bs "abcd"); OTick 3; OWrite (bs "ef"); OFlush; OTrigger; OPlain (bs "g"); OSnap; OWrite (bs "hi"); OTrigger].
Definition exd_c : config := exd_cfg (ex_sp "log") true (CSize 3) (Some 3%nat).

Lemma exd_ops_basic : Forall basic_op exd_ops.
Proof. repeat constructor. Qed.
Lemma exd_c_ok : numdcfg exd_c (CSize 3).
Proof. apply exd_cfg_ok. reflexivity. Qed.

(* the theorems apply (their hypotheses can be met) ... *)
Example direct_stream_instance :
  exists files,
    direct_view exd_c (wfs (s_w (fst (run (sys0 0 0) (OStart exd_c :: exd_ops ++ [OStop]))))) files
    /\ concat files = bs "abcdefghi".
Proof. exact (numbersdirect_stream exd_c (CSize 3) 0 0 exd_ops exd_c_ok exd_ops_basic). Qed.

Example direct_partition_instance :
  direct_view exd_c (wfs (s_w (fst (run (sys0 0 0) (OStart exd_c :: exd_ops ++ [OStop])))))
    [bs "abcd"; bs "ef"; bs "ghi"; bs ""].
Proof. exact (numbersdirect_partition exd_c 3 0 0 exd_ops exd_c_ok exd_ops_basic). Qed.

(* ... and this is the directory that the model computes: the write of "ef" finds "abcd" (4 > 3) and rotates, the write
   of "hi" finds "g" and does not; the trigger before the first record leaves no trace, the last one an empty file *)
Example direct_instance_dir :
  snap_of (fst (run (sys0 0 0) (OStart exd_c :: exd_ops ++ [OStop])))
  = [ (bs "app_r00000.log", 0%N, bs "abcd"); (bs "app_r00001.log", 0%N, bs "ef"); (bs "app_r00002.log", 0%N, bs "ghi");
      (bs "app_r00003.log", 0%N, bs "") ].
Proof. vm_compute. reflexivity. Qed.

(* the rotation flags of the writes, as computed: only the write of "ef" rotates *)
Example direct_instance_flags :
  List.map rot_of (snd (run (sys0 0 0) (OStart exd_c :: exd_ops)))
  = [false; false; false; false; true; false; false; false; false; false; false].
Proof. vm_compute. reflexivity. Qed.

(* the rotation flag of the write of "ef" (operation 3 of the history), by the theorem *)
Example direct_rotates_instance :
  nth_error (snd (run (sys0 0 0) (OStart exd_c :: exd_ops))) 4 = Some (ObsRes 0 true).
Proof.
  rewrite (numbersdirect_rotates_iff exd_c 3 0 0 exd_ops 3 (OWrite (bs "ef")) (bs "ef") exd_c_ok exd_ops_basic eq_refl
             (or_introl eq_refl)).
  vm_compute. reflexivity.
Qed.

(* the same history with Numbers naming: the same contents, the last one in rCURRENT *)
Example numbers_same_contents :
  List.map snd (snap_of (fst (run (sys0 0 0) (OStart (ex_cfg (ex_sp "log") true (CSize 3) (Some 3%nat)) :: exd_ops ++ [OStop]))))
  = List.map snd (snap_of (fst (run (sys0 0 0) (OStart exd_c :: exd_ops ++ [OStop])))).
Proof. vm_compute. reflexivity. Qed.

(* a history without a record: nothing is created *)
Example direct_no_write_dir :
  snap_of (fst (run (sys0 0 0) (OStart (exd_cfg (ex_sp "log") false (CAge ADay) None)
                                 :: [OTrigger; OFlush; OTick 100000; OTrigger] ++ [OStop])))
  = [].
Proof. vm_compute. reflexivity. Qed.

(* a file spec without suffix and with a discriminant, an age criterion: the clock decides about the rotation *)
Definition exd_sp2 : file_spec := {| fbase := bs "srv"; fdisc := Some (bs "a1"); fts := false; fsfx := None |}.
Definition exd_c2 : config := exd_cfg exd_sp2 false (CAge ADay) (Some 100%nat).
Definition exd_ops2 : list op := [OWrite (bs "x"); OTick 90000; OWrite (bs "y"); OWrite (bs "z")].
Example direct_age_dir :
  snap_of (fst (run (sys0 0 0) (OStart exd_c2 :: exd_ops2 ++ [OStop])))
  = [ (bs "srv_a1_r00000", 0%N, bs "x"); (bs "srv_a1_r00001", 0%N, bs "yz") ].
Proof. vm_compute. reflexivity. Qed.
Example direct_age_instance :
  exists files,
    direct_view exd_c2 (wfs (s_w (fst (run (sys0 0 0) (OStart exd_c2 :: exd_ops2 ++ [OStop]))))) files
    /\ concat files = bs "xyz".
Proof. apply (numbersdirect_stream exd_c2 (CAge ADay) 0 0 exd_ops2); [apply exd_cfg_ok; reflexivity | repeat constructor]. Qed.
