(* NumbersDirect naming, direct mode (no user-space buffer), a process that is killed at an arbitrary effect, and a new
   writer on the directory that the killed one left behind: no acknowledged record is lost, nothing else is in the files,
   the new writer starts cleanly and adds its own records.

   A rotation of NumbersDirect naming is ONE effect (the creation of the next file; nothing is renamed), so the states in
   which a kill can leave the directory are simpler than for Numbers naming (NumKill.v): the directory always consists of
   r00000 .. r(n) without a gap - the last file possibly the freshly created empty one, or the creation did not happen.
   The kill counter, `acked`, `with_w`, the dead process: NumKill.v / KillFacts.v. *)
Require Import FL.Base.Bytes FL.Base.BytesFacts FL.Base.PathName FL.Fs.Fs FL.Fs.FsFacts FL.Time.Civil FL.Time.TsFormat
  FL.Names.FileSpec FL.Names.NamesFacts FL.Names.FamilyFacts FL.Flw.Model FL.Flw.ModelFacts FL.Flw.NumFs FL.Flw.NumInv
  FL.Flw.Run FL.Flw.RunFacts FL.Flw.NumRun FL.Flw.NumListing FL.Oracles.O_Flw FL.Flw.NumTheorems FL.Flw.NumRestart
  FL.Flw.KillFacts FL.Flw.NumKill FL.Flw.NumKillRestart FL.Flw.NumDInv FL.Flw.NumDRun FL.Flw.NumDTheorems FL.Flw.NumDRestart.
From Coq Require Import ZifyN ZifyNat ZifyBool.
Import String.StringSyntax.
Open Scope nat_scope.

(* ------------------------------------------------------------------ the directory of a dead process *)
(* dir_view_d (NumDRestart.v): None - the directory is empty; Some (cl, cu) - it consists exactly of r00000 .. r(|cl|) *)
Definition DeadDirD (c : config) (w : world) (v : aview) : Prop := dead w /\ dir_view_d c (wfs w) v.

Lemma numdinv_dir c q wr cl : NumDInv c q wr cl -> wpend wr = [] -> dir_view_d c (wfs q) (Some (cl, cur_view q wr)).
Proof. intros I P. split; [apply I | apply numdinv_direct_view; assumption]. Qed.

(* the world of x is a quiet world q with the counter at S n (alive, n effects left) *)
Definition KRelD (c : config) (crit : criterion) (x : sys) (a : aview) : Prop :=
  exists q n, s_w x = kw q (S n) /\ RelD c crit (with_w x q) a.

Section DirectD.
Variables (c : config) (crit : criterion).
Hypothesis Hcfg : numdcfg c crit.
Hypothesis Hcap : c_cap c = None.

Lemma direct_wr_d q wr cl : NumDInv c q wr cl -> wpend wr = [] /\ wcap wr = None.
Proof.
  intros I. pose proof (nd_wr _ _ _ _ I) as Hw. pose proof (nd_cap _ _ _ _ I) as Hc. rewrite Hcap in Hc.
  unfold wr_ok in Hw. rewrite Hc in Hw. split; assumption.
Qed.

(* ---- one rotation with a budget: one effect, the creation of the next file ---- *)
Lemma mount_next_kd q wr cl roll force n :
  NumDInv c q wr cl -> force || rotation_necessary q roll = true ->
  match n with
  | 0 => exists r st',
      mount_next c (kw q 1) (Active (Some (mk_rs (NSNumD (N.of_nat (length cl))) roll)) wr (rname c (length cl))) force = (r, kw q 0, st')
  | S n' => exists q' wr' roll',
      mount_next c (kw q (S (S n'))) (Active (Some (mk_rs (NSNumD (N.of_nat (length cl))) roll)) wr (rname c (length cl))) force
      = (Ok tt, kw q' (S n'),
         Active (Some (mk_rs (NSNumD (N.of_nat (length (cl ++ [cur_view q wr])))) roll')) wr' (rname c (length (cl ++ [cur_view q wr]))))
      /\ NumDInv c q' wr' (cl ++ [cur_view q wr]) /\ cur_view q' wr' = [] /\ roll_size_ok roll' 0 /\ same_env q q'
      /\ (forall m cur, roll = RSize m cur -> exists cur', roll' = RSize m cur')
  end.
Proof.
  intros I Hnec. destruct Hcfg as [Hrot [Hts [Hlink _]]].
  destruct (direct_wr_d q wr cl I) as [Hp Hc0]. pose proof (nd_quiet _ _ _ _ I) as Q.
  destruct (rotate_numdinv c q wr cl (wnow q) I) as [Ht RI].
  assert (Elen : length (cl ++ [cur_view q wr]) = S (length cl)) by (rewrite app_length; cbn [length]; lia).
  assert (Hfree : match file_of (wfs q) (rname c (S (length cl))) with Some fl => fdir fl | None => false end = false).
  { unfold file_of. rewrite Ht. reflexivity. }
  destruct n as [|n'].
  - (* killed at the creation of the next file *)
    unfold mount_next. cbn [mk_rs rs_roll rs_naming rs_cleanup rs_bg]. rewrite rot_nec_kw, Hnec.
    unfold open_log_file. rewrite (name_of_fixed c (kw q 1)) by assumption.
    fold (nm c (number_infix (N.of_nat (length cl) + 1))). rewrite rname_S.
    unfold do_symlink. rewrite Hlink. rewrite p_open_kw by exact Q. rewrite Hfree. cbn [eff].
    pose proof (dead_kw q Q) as Hd.
    destruct (w_flush_dead (kw q 0) wr Hd) as [wra Ef]. rewrite Ef. cbv beta iota zeta. rewrite w_drop_dead by assumption.
    unfold cleanup_or_queue. cbn [mk_rs rs_roll rs_naming rs_cleanup rs_bg cleanup_impl]. eauto.
  - (* the rotation is completed *)
    unfold mount_next. cbn [mk_rs rs_roll rs_naming rs_cleanup rs_bg]. rewrite rot_nec_kw, Hnec.
    unfold open_log_file. rewrite (name_of_fixed c (kw q (S (S n')))) by assumption.
    fold (nm c (number_infix (N.of_nat (length cl) + 1))). rewrite rname_S.
    unfold do_symlink. rewrite Hlink. rewrite p_open_kw by exact Q. rewrite Hfree. cbn [eff].
    assert (Eopen : (if c_append c then open_append (wfs q) (rname c (S (length cl))) (wnow q)
                     else open_trunc (wfs q) (rname c (S (length cl))) 0%N (wnow q))
                    = create_file (wfs q) (rname c (S (length cl))) 0%N (wnow q)).
    { destruct (c_append c); [apply open_append_fresh | apply open_trunc_fresh]; exact Ht. }
    rewrite !Eopen. cbv beta iota zeta.
    rewrite w_flush_nop by exact Hp. cbv beta iota zeta. rewrite w_drop_nop by reflexivity.
    unfold cleanup_or_queue. cbn [mk_rs rs_roll rs_naming rs_cleanup rs_bg cleanup_impl].
    set (q2 := set_fs q (fst (create_file (wfs q) (rname c (S (length cl))) 0%N (wnow q)))).
    assert (Q2 : quiet q2) by (apply quiet_set_fs; exact Q).
    assert (F3 : wfs q2 = append_ino (fst (create_file (wfs q) (rname c (S (length cl))) 0%N (wnow q))) (wino wr) (wpend wr)).
    { rewrite Hp, append_ino_nil_id. reflexivity. }
    destruct (RI q2 Q2 F3) as [I2 [V2 _]].
    rewrite Elen.
    eexists q2, _, (reset_size_and_date q2 roll (rname c (S (length cl)))).
    split. { replace (N.of_nat (S (length cl))) with (N.of_nat (length cl) + 1)%N by lia. rewrite reset_kw. reflexivity. }
    split; [exact I2|]. split; [exact V2|].
    split. { destruct roll; cbn; auto. }
    split; [apply same_env_set_fs; exact Q|].
    intros m cur ->. cbn. eauto.
Qed.

(* ---- one write(2) of the unbuffered writer with a budget ---- *)
Lemma w_write_kd q wr cl b n :
  NumDInv c q wr cl ->
  exists w', w_write (kw q (S n)) wr b = (true, w', wr) /\
   ( (exists q' n', w' = kw q' (S n') /\ NumDInv c q' wr cl /\ cur_view q' wr = cur_view q wr ++ b /\ same_env q q')
     \/ w' = kw q 0 ).
Proof.
  intros I. destruct (direct_wr_d q wr cl I) as [Hp Hc0]. pose proof (nd_quiet _ _ _ _ I) as Q.
  unfold w_write. rewrite Hc0. rewrite p_write_kw by exact Q.
  destruct b as [|x b].
  - eexists. split; [reflexivity|]. left. exists q, n. split; [reflexivity|]. split; [exact I|].
    split; [rewrite app_nil_r; reflexivity | apply same_env_refl; exact Q].
  - destruct n as [|n']; cbn [eff].
    + eexists. split; [reflexivity|]. right. reflexivity.
    + eexists. split; [reflexivity|]. left. exists (set_fs q (append_ino (wfs q) (wino wr) (x :: b))), n'.
      split; [reflexivity|].
      destruct (numdinv_append c q (set_fs q (append_ino (wfs q) (wino wr) (x :: b))) wr wr cl (x :: b) I eq_refl
                  (same_env_set_fs q _ Q) eq_refl eq_refl (nd_wr _ _ _ _ I)) as [I2 C2].
      split; [exact I2|]. split; [|apply same_env_set_fs; exact Q].
      unfold cur_view. rewrite C2, Hp, !app_nil_r. reflexivity.
Qed.

(* ---- a write on an active writer with a budget: every kill point ---- *)
Lemma write_active_kd q wr cl roll b n :
  NumDInv c q wr cl -> roll_size_ok roll (length (cur_view q wr)) ->
  exists r w' s' rot', write_buffer (st_of_d c (length cl) roll wr) (kw q (S n)) b = (r, w', s', rot') /\
  ( (exists q' n' wr' roll' cl', w' = kw q' (S n') /\ r = Ok tt /\ s' = st_of_d c (length cl') roll' wr'
       /\ rot' = rotation_necessary q roll
       /\ NumDInv c q' wr' cl' /\ roll_size_ok roll' (length (cur_view q' wr')) /\ same_env q q'
       /\ (cl', cur_view q' wr') = (if rotation_necessary q roll then (cl ++ [cur_view q wr], b) else (cl, cur_view q wr ++ b))
       /\ (forall m cur, roll = RSize m cur -> exists cur', roll' = RSize m cur'))
    \/ (exists qd v, w' = kw qd 0 /\ quiet qd /\ dir_view_d c (wfs qd) v
          /\ flat v = concat cl ++ cur_view q wr /\ length (closed_of v) <= S (length cl)) ).
Proof.
  intros I Hsz. destruct (direct_wr_d q wr cl I) as [Hp Hc0]. pose proof (nd_quiet _ _ _ _ I) as Q.
  unfold write_buffer, st_of_d. cbn [f_cfg f_inner f_poisoned mk_rs rs_roll]. rewrite rot_nec_kw.
  destruct (rotation_necessary q roll) eqn:Er.
  - (* the write rotates first *)
    pose proof (mount_next_kd q wr cl roll false n I) as M. cbn [orb] in M. specialize (M Er).
    destruct n as [|n'].
    + destruct M as [r1 [st1 E1]]. rewrite E1.
      destruct (wb_tail_dead {| f_cfg := c; f_inner := Active (Some (mk_rs (NSNumD (N.of_nat (length cl))) roll)) wr (rname c (length cl)); f_poisoned := false |}
                  b r1 (kw q 0) st1 true (dead_kw q Q)) as [r [s' ET]].
      exists r, (kw q 0), s', true. split; [exact ET|]. right.
      exists q, (Some (cl, cur_view q wr)). split; [reflexivity|]. split; [exact Q|]. split; [exact (numdinv_dir c q wr cl I Hp)|].
      split; [reflexivity | cbn [closed_of]; lia].
    + destruct M as [q1 [wr1 [roll1 [E1 [I1 [V1 [Z1 [S1 R1]]]]]]]]. rewrite E1. cbv beta iota zeta.
      destruct (w_write_kd q1 wr1 (cl ++ [cur_view q wr]) b n' I1) as [w2 [Ew Out]]. rewrite Ew.
      eexists _, w2, _, true. split; [reflexivity|].
      destruct Out as [[q2 [n2 [-> [I2 [V2 S2]]]]] | ->].
      * left. exists q2, n2, wr1, (increase_size roll1 (N.of_nat (length b))), (cl ++ [cur_view q wr]).
        split; [reflexivity|]. split; [reflexivity|]. split; [reflexivity|]. split; [reflexivity|].
        split; [exact I2|]. rewrite V1 in V2. cbn [app] in V2.
        split. { rewrite V2. apply (roll_size_increase roll1 0 (length b)). exact Z1. }
        split; [eapply same_env_trans; eassumption|].
        split; [rewrite V2; reflexivity|].
        intros m cur Hr. destruct (R1 m cur Hr) as [cur' ->]. cbn. eauto.
      * right. destruct (direct_wr_d q1 wr1 _ I1) as [Hp1 _].
        exists q1, (Some (cl ++ [cur_view q wr], cur_view q1 wr1)).
        split; [reflexivity|]. split; [apply I1|]. split; [exact (numdinv_dir c q1 wr1 _ I1 Hp1)|].
        split.
        -- cbn [flat]. rewrite V1, concat_app. cbn [concat]. rewrite !app_nil_r. reflexivity.
        -- cbn [closed_of]. rewrite app_length. cbn [length]. lia.
  - (* no rotation *)
    unfold mount_next. cbn [mk_rs rs_roll orb]. rewrite rot_nec_kw, Er.
    destruct (w_write_kd q wr cl b n I) as [w2 [Ew Out]]. rewrite Ew.
    eexists _, w2, _, false. split; [reflexivity|].
    destruct Out as [[q2 [n2 [-> [I2 [V2 S2]]]]] | ->].
    + left. exists q2, n2, wr, (increase_size roll (N.of_nat (length b))), cl.
      split; [reflexivity|]. split; [reflexivity|]. split; [reflexivity|]. split; [reflexivity|].
      split; [exact I2|].
      split. { rewrite V2, app_length. apply roll_size_increase. exact Hsz. }
      split; [exact S2|]. split; [rewrite V2; reflexivity|].
      intros m cur ->. cbn. eauto.
    + right. exists q, (Some (cl, cur_view q wr)). split; [reflexivity|]. split; [exact Q|].
      split; [exact (numdinv_dir c q wr cl I Hp)|]. split; [reflexivity | cbn [closed_of]; lia].
Qed.

(* ---- the first write: initialisation in the empty directory with a budget ---- *)
Lemma initialize_empty_kd q n :
  quiet q -> names (wfs q) = [] -> inodes (wfs q) = [] ->
  match n with
  | 0 => exists r, initialize c (kw q 1) = (r, kw q 0)
  | S n' => exists q' wr roll,
      initialize c (kw q (S (S n'))) = (Ok (Active (Some (mk_rs (NSNumD 0) roll)) wr (rname c 0)), kw q' (S n'))
      /\ NumDInv c q' wr [] /\ cur_view q' wr = [] /\ roll_size_ok roll 0 /\ same_env q q'
      /\ (forall m, crit = CSize m -> roll = RSize m 0)
  end.
Proof.
  intros Q Hn Hi. destruct Hcfg as [Hrot [Hts [Hlink _]]].
  assert (Hnd : match file_of (wfs q) (rname c 0) with Some fl => fdir fl | None => false end = false).
  { unfold file_of. rewrite lookup_empty by assumption. reflexivity. }
  assert (Eopen : (if c_append c then open_append (wfs q) (rname c 0) (wnow q) else open_trunc (wfs q) (rname c 0) 0%N (wnow q))
                  = create_file (wfs q) (rname c 0) 0%N (wnow q)).
  { destruct (c_append c); [apply open_append_fresh | apply open_trunc_fresh]; apply lookup_empty; assumption. }
  destruct n as [|n'].
  - unfold initialize. rewrite Hrot. unfold init_naming, with_listing.
    rewrite tick_kw by assumption. cbn [kw set_kill wfs woff].
    unfold get_highest_index, list_log_gz. rewrite existing_rot_empty by exact Hn. cbn [filter_map_opt max_opt bind].
    unfold open_log_file. rewrite (name_of_fixed c (kw q 1)) by assumption. fold (nm c (number_infix 0)).
    change (nm c (number_infix 0)) with (rname c 0).
    unfold do_symlink. rewrite Hlink. rewrite p_open_kw by exact Q. rewrite Hnd. cbn [eff bind fst snd].
    destruct (roll_new_dead (kw q 0) crit (c_append c) (rname c 0) (dead_kw q Q)) as [r3 E3]. rewrite E3.
    destruct r3; cbn [bind]; eauto.
  - unfold initialize. rewrite Hrot. unfold init_naming, with_listing.
    rewrite tick_kw by assumption. cbn [kw set_kill wfs woff].
    unfold get_highest_index, list_log_gz. rewrite existing_rot_empty by exact Hn. cbn [filter_map_opt max_opt bind].
    unfold open_log_file. rewrite (name_of_fixed c (kw q (S (S n')))) by assumption. fold (nm c (number_infix 0)).
    change (nm c (number_infix 0)) with (rname c 0).
    unfold do_symlink. rewrite Hlink. rewrite p_open_kw by exact Q. rewrite Hnd. cbn [eff bind fst snd].
    rewrite !Eopen.
    set (q2 := set_fs q (fst (create_file (wfs q) (rname c 0) 0%N (wnow q)))).
    assert (Q2 : quiet q2) by (apply quiet_set_fs; exact Q).
    destruct (numdinv_first c q2 (wfs q) (wnow q) Q2 Hn Hi eq_refl) as [I2 [V2 Fo]].
    assert (Eino : snd (create_file (wfs q) (rname c 0) 0%N (wnow q)) = 0) by (unfold create_file; cbn [snd]; rewrite Hi; reflexivity).
    rewrite Eino.
    assert (RN : exists roll, roll_new (kw q2 (S n')) crit (c_append c) (rname c 0) = (Ok roll, kw q2 (S n')) /\ roll_size_ok roll 0
                 /\ (forall m, crit = CSize m -> roll = RSize m 0)).
    { unfold roll_new. destruct (c_append c).
      - rewrite tick_kw by exact Q2. cbn [kw set_kill wfs]. rewrite Fo. cbn [fresh_file fdata length].
        eexists. split; [reflexivity|]. split; [destruct crit; reflexivity|]. intros m ->. reflexivity.
      - eexists. split; [reflexivity|]. split; [destruct crit; reflexivity|]. intros m ->. reflexivity. }
    destruct RN as [roll [Ern [Z R]]]. rewrite Ern. cbn [bind].
    exists q2, {| wino := 0; wpend := []; wcap := c_cap c |}, roll. split; [reflexivity|].
    split; [exact I2|]. split; [exact V2|]. split; [exact Z|]. split; [apply same_env_set_fs; exact Q | exact R].
Qed.

(* ---- a write, from either kind of state ---- *)
Lemma write_rel_kd x a b q n :
  s_w x = kw q (S n) -> RelD c crit (with_w x q) a ->
  exists s r w' s' rot, s_flw x = Some s /\ f_poisoned s = false /\
    write_buffer s (s_w x) b = (r, w', s', rot) /\
    ( (r = Ok tt /\ KRelD c crit {| s_flw := Some s'; s_w := w'; s_tl := []; s_dead := s_dead x |} (a_step a (OWrite b) rot))
      \/ (exists v, DeadDirD c w' v /\ flat v = flat a /\ length (closed_of v) <= S (apot a)) ).
Proof.
  intros Ew [Ht [Ha R]]. cbn [with_w s_tl s_w s_flw] in Ht, Ha, R. rewrite Ew. destruct a as [[cl cu]|].
  - destruct R as [wr [roll [Es [I [V [Z RS]]]]]]. rewrite <- V in Z.
    destruct (write_active_kd q wr cl roll b n I Z) as [r [w' [s' [rot' [E Out]]]]].
    exists (st_of_d c (length cl) roll wr), r, w', s', rot'. split; [exact Es|]. split; [reflexivity|]. split; [exact E|].
    destruct Out as [[q' [n' [wr' [roll' [cl' [-> [-> [-> [-> [I' [Z' [S' [V' R']]]]]]]]]]]]] | [qd [v [-> [Qd [Vw [Fl Len]]]]]]].
    + left. split; [reflexivity|]. exists q', n'. split; [reflexivity|].
      split; [reflexivity|]. split; [cbn [with_w s_w]; exact (same_env_acts _ _ S' Ha)|].
      cbn [a_step]. rewrite V in V'.
      destruct (rotation_necessary q roll); injection V' as <- V''; (exists wr', roll'; cbn [with_w s_flw s_w];
        split; [reflexivity|]; split; [exact I'|]; split; [exact V''|]; split; [rewrite <- V''; exact Z'|];
        intros m Hm; destruct (RS m Hm) as [k ->]; destruct (R' m k eq_refl) as [k' ->]; eauto).
    + right. exists v. split; [split; [apply dead_kw; exact Qd | exact Vw]|].
      split; [rewrite Fl, V; reflexivity | exact Len].
  - destruct R as [Es [Q [Hn Hi]]].
    pose proof (initialize_empty_kd q n Q Hn Hi) as IE. destruct n as [|n'].
    + destruct IE as [r0 Ei].
      destruct (wb_initial_dead (new_flw c) (kw q 1) b r0 (kw q 0) eq_refl Ei (dead_kw q Q)) as [r [w' [s' [rot [E F]]]]].
      exists (new_flw c), r, w', s', rot. split; [exact Es|]. split; [reflexivity|]. split; [exact E|].
      right. exists None. destruct F as [D F]. cbn [kw set_kill wfs] in F.
      split; [split; [exact D | cbn [dir_view_d]; rewrite F; split; assumption]|]. split; [reflexivity | cbn; lia].
    + destruct IE as [q1 [wr [roll [Ei [I [V [Z [S1 RS]]]]]]]].
      assert (Z0 : roll_size_ok roll (length (cur_view q1 wr))) by (rewrite V; exact Z).
      destruct (write_active_kd q1 wr [] roll b n' I Z0) as [r [w' [s' [rot' [E Out]]]]].
      exists (new_flw c), r, w', s', rot'. split; [exact Es|]. split; [reflexivity|].
      split. { rewrite (write_buffer_init c (kw q (S (S n'))) b _ _ _ (kw q1 (S n')) Ei). exact E. }
      destruct Out as [[q' [n2 [wr' [roll' [cl' [-> [-> [-> [-> [I' [Z' [S' [V' R']]]]]]]]]]]]] | [qd [v [-> [Qd [Vw [Fl Len]]]]]]].
      * left. split; [reflexivity|]. exists q', n2. split; [reflexivity|].
        split; [reflexivity|]. split; [cbn [with_w s_w]; exact (same_env_acts _ _ (same_env_trans _ _ _ S1 S') Ha)|].
        cbn [a_step]. rewrite V in V'. cbn [app] in V'.
        destruct (rotation_necessary q1 roll); injection V' as <- V''; (exists wr', roll'; cbn [with_w s_flw s_w];
          split; [reflexivity|]; split; [exact I'|]; split; [exact V''|]; split; [rewrite <- V''; exact Z'|]).
        -- intros m Hm. rewrite (RS m Hm) in R'. destruct (R' m 0%N eq_refl) as [k' ->]; eauto.
        -- intros m Hm. rewrite (RS m Hm) in R'. destruct (R' m 0%N eq_refl) as [k' ->]; eauto.
      * right. exists v. split; [split; [apply dead_kw; exact Qd | exact Vw]|].
        split; [rewrite Fl, V; reflexivity | exact Len].
Qed.

Lemma krel_flw_d x a : KRelD c crit x a -> exists s, s_flw x = Some s /\ f_cfg s = c.
Proof.
  intros [q [n [_ [_ [_ R]]]]]. cbn [with_w s_flw] in R.
  destruct a as [[cl cu]|]; [destruct R as [wr [roll [Es _]]] | destruct R as [Es _]]; rewrite Es; eexists; split; reflexivity.
Qed.

Lemma step_sync_kd x a o : KRelD c crit x a -> step x o = sync_step x o.
Proof.
  intros K. destruct (krel_flw_d x a K) as [s [Es Ec]]. destruct Hcfg as [_ [Hts [_ Ha]]].
  apply (step_sync_cfg x o s Es); rewrite Ec; assumption.
Qed.

(* ---- one basic operation of a process with a budget: it either completes (and is acknowledged), or the process
        dies in it, and then the directory holds exactly what was acknowledged before ---- *)
Lemma kstep_d x a o : KRelD c crit x a -> basic_op o ->
  let '(x', ob) := step x o in
  (alive (s_w x') = true /\ KRelD c crit x' (a_step a o (rot_of ob)))
  \/ (alive (s_w x') = false /\ exists v, DeadDirD c (s_w x') v /\ flat v = flat a /\ length (closed_of v) <= S (apot a)).
Proof.
  intros K Hb. rewrite (step_sync_kd x a o K). destruct K as [q [n [Ew R]]].
  destruct o; try contradiction; cbn [sync_step].
  - (* OWrite *)
    destruct (write_rel_kd x a b q n Ew R) as [s [r [w' [s' [rot [Es [Hp [E Out]]]]]]]].
    rewrite Es, Hp. pose proof (proj1 R) as Ht. cbn [with_w s_tl] in Ht. rewrite Ht. cbn [app]. rewrite E. cbn [rot_of].
    destruct Out as [[-> K'] | [v [D [Fl Len]]]].
    + left. split; [|exact K']. destruct K' as [q' [n' [E' _]]]. cbn [s_w] in E' |- *. rewrite E'. reflexivity.
    + right. cbn [s_w].
      assert (Ew' : match r with Err => report EWrite w' | _ => w' end = w') by (destruct r; try reflexivity; apply report_dead; apply D).
      rewrite Ew'. split; [apply dead_not_alive; apply D|]. exists v. auto.
  - (* OPlain *)
    destruct (write_rel_kd x a b q n Ew R) as [s [r [w' [s' [rot [Es [Hp [E Out]]]]]]]].
    rewrite Es, Hp, E. cbn [rot_of]. pose proof (proj1 R) as Ht. cbn [with_w s_tl] in Ht. rewrite Ht.
    destruct Out as [[-> K'] | [v [D [Fl Len]]]].
    + left. split; [|exact K']. destruct K' as [q' [n' [E' _]]]. cbn [s_w] in E' |- *. rewrite E'. reflexivity.
    + right. cbn [s_w]. split; [apply dead_not_alive; apply D|]. exists v. auto.
  - (* OFlush *)
    destruct R as [Ht [Ha R]]. cbn [with_w s_tl s_w s_flw] in Ht, Ha, R. destruct a as [[cl cu]|].
    + destruct R as [wr [roll [Es [I [V [Z RS]]]]]]. rewrite Es. cbn [st_of_d f_poisoned].
      destruct (direct_wr_d q wr cl I) as [Pw _].
      unfold flush_state, st_of_d. cbn [f_inner]. rewrite w_flush_nop by exact Pw. rewrite (writer_eta wr Pw).
      cbn [rot_of a_step s_w]. left. split; [rewrite Ew; reflexivity|].
      exists q, n. split; [exact Ew|]. split; [exact Ht|]. split; [exact Ha|].
      exists wr, roll. cbn [with_w s_flw s_w]. split; [reflexivity|]. split; [exact I|]. split; [exact V|]. split; assumption.
    + destruct R as [Es R]. rewrite Es. cbn [new_flw f_poisoned flush_state f_inner rot_of a_step s_w].
      left. split; [rewrite Ew; reflexivity|]. exists q, n. split; [exact Ew|]. split; [exact Ht|]. split; [exact Ha|].
      split; [reflexivity | exact R].
  - (* OTrigger *)
    destruct R as [Ht [Ha R]]. cbn [with_w s_tl s_w s_flw] in Ht, Ha, R. destruct a as [[cl cu]|].
    + destruct R as [wr [roll [Es [I [V [Z RS]]]]]]. rewrite Es. cbn [st_of_d f_poisoned f_cfg f_inner]. rewrite Ew.
      destruct (direct_wr_d q wr cl I) as [Pw _]. pose proof (nd_quiet _ _ _ _ I) as Q.
      pose proof (mount_next_kd q wr cl roll true n I eq_refl) as M.
      destruct n as [|n'].
      * destruct M as [r1 [st1 E1]]. rewrite E1. right. cbn [s_w]. split; [reflexivity|].
        exists (Some (cl, cur_view q wr)). split; [split; [apply dead_kw; exact Q | exact (numdinv_dir c q wr cl I Pw)]|].
        split; [rewrite V; reflexivity | cbn; lia].
      * destruct M as [q' [wr' [roll' [E1 [I' [V' [Z' [S' R']]]]]]]]. rewrite E1. left.
        cbn [rot_of a_step code_of with_inner f_cfg f_poisoned s_w]. split; [reflexivity|].
        exists q', n'. split; [reflexivity|]. split; [exact Ht|]. split; [cbn [with_w s_w]; exact (same_env_acts _ _ S' Ha)|].
        rewrite V in *. exists wr', roll'. cbn [with_w s_flw s_w].
        split; [reflexivity|]. split; [exact I'|]. split; [exact V'|]. split; [exact Z'|].
        intros m Hm. destruct (RS m Hm) as [k ->]. destruct (R' m k eq_refl) as [k' ->]. eauto.
    + destruct R as [Es R]. rewrite Es. cbn [new_flw f_poisoned f_cfg f_inner mount_next with_inner rot_of a_step code_of s_w].
      left. split; [rewrite Ew; reflexivity|]. exists q, n. split; [exact Ew|]. split; [exact Ht|]. split; [exact Ha|].
      split; [reflexivity | exact R].
  - (* OTick *)
    cbn [rot_of a_step s_w]. left. rewrite Ew. split; [reflexivity|].
    exists (set_now q (wnow q + dt)%Z), n. split; [reflexivity|].
    destruct R as [Ht [Ha R]]. cbn [with_w s_tl s_w s_flw] in Ht, Ha, R.
    split; [exact Ht|]. split; [exact Ha|]. destruct a as [[cl cu]|].
    + destruct R as [wr [roll [Es [I [V [Z RS]]]]]]. exists wr, roll. cbn [with_w s_flw s_w].
      split; [exact Es|]. split; [apply (numdinv_env c q); [exact I | reflexivity | apply quiet_set_now; apply I]|].
      split; [exact V|]. split; assumption.
    + cbn [with_w s_flw s_w]. destruct R as [Es [Q [Hn Hi]]]. split; [exact Es|]. split; [apply quiet_set_now; exact Q|]. split; assumption.
  - (* OSnap *)
    cbn [rot_of a_step]. left. split; [rewrite Ew; reflexivity|]. exists q, n. split; [exact Ew | exact R].
Qed.

(* ---- the operations after the counter has been armed ---- *)
Lemma krun_d : forall ops x a, KRelD c crit x a -> Forall basic_op ops ->
  (exists a', KRelD c crit (fst (run x ops)) a' /\ flat a' = flat a ++ acked x ops /\ apot a' <= apot a + length ops)
  \/ (exists v, DeadDirD c (s_w (fst (run x ops))) v /\ flat v = flat a ++ acked x ops
                /\ length (closed_of v) <= S (apot a + length ops)).
Proof.
  induction ops as [|o r IH]; intros x a K Hb.
  - left. exists a. cbn [run fst acked length]. rewrite app_nil_r. split; [exact K|]. split; [reflexivity | lia].
  - inversion Hb as [|o' r' Ho Hr]; subst. rewrite fst_run_cons. cbn [acked length].
    pose proof (kstep_d x a o K Ho) as S. destruct (step x o) as [x1 ob] eqn:Est. cbn [fst].
    destruct S as [[Al K1] | [Al [v [D [Fl Len]]]]]; rewrite Al.
    + destruct (IH x1 _ K1 Hr) as [[a' [K' [F' P']]] | [v [D [F' P']]]].
      * left. exists a'. split; [exact K'|]. split.
        -- rewrite F', a_step_flat by exact Ho. rewrite app_assoc. reflexivity.
        -- pose proof (a_step_apot a o (rot_of ob)). lia.
      * right. exists v. split; [exact D|]. split.
        -- rewrite F', a_step_flat by exact Ho. rewrite app_assoc. reflexivity.
        -- pose proof (a_step_apot a o (rot_of ob)). lia.
    + cbn [app]. destruct D as [D V].
      pose proof (dead_run r x1 D Hr) as [D2 F2]. rewrite (acked_dead r x1 D Hr), app_nil_r.
      right. exists v. split; [split; [exact D2 | rewrite F2; exact V]|]. split; [exact Fl | lia].
Qed.

Lemma crash_alive_d x a : KRelD c crit x a ->
  exists v, IdleD c (fst (step x OCrash)) v /\ flat v = flat a /\ length (closed_of v) = apot a.
Proof.
  intros [q [n [Ew [Ht [Ha R]]]]]. rewrite step_crash. cbn [sync_step fst]. cbn [with_w s_tl s_w s_flw] in Ht, Ha, R.
  unfold IdleD. cbn [s_tl s_w s_flw]. rewrite Ew. cbn [kw set_kill set_acts wfs wacts].
  destruct a as [[cl cu]|].
  - destruct R as [wr [roll [Es [I [V [Z RS]]]]]]. destruct (direct_wr_d q wr cl I) as [Pw _].
    pose proof (numdinv_dir c q wr cl I Pw) as Vw. rewrite V in Vw. pose proof (nd_quiet _ _ _ _ I) as [Qf _].
    exists (Some (cl, cu)). split; [|split; reflexivity].
    split; [reflexivity|]. split; [reflexivity|]. split; [reflexivity|]. split; [split; [exact Qf | reflexivity] | exact Vw].
  - destruct R as [Es [[Qf _] [Hn Hi]]].
    exists None. split; [|split; reflexivity].
    split; [reflexivity|]. split; [reflexivity|]. split; [reflexivity|]. split; [split; [exact Qf | reflexivity]|].
    cbn [dir_view_d]. split; assumption.
Qed.

Lemma crash_dead_d x v : DeadDirD c (s_w x) v -> IdleD c (fst (step x OCrash)) v.
Proof.
  intros [[_ Df] V]. rewrite step_crash. cbn [sync_step fst]. unfold IdleD. cbn [s_tl s_w s_flw set_kill set_acts wfs wacts].
  split; [reflexivity|]. split; [reflexivity|]. split; [reflexivity|]. split; [split; [exact Df | reflexivity] | exact V].
Qed.

Lemma arm_krel_d x a k : RelD c crit x a -> KRelD c crit (fst (step x (OSetKill k))) a.
Proof.
  intros R. rewrite (step_sync_rel_d c crit x a _ Hcfg R). cbn [sync_step fst].
  exists (s_w x), k. split; [reflexivity|]. unfold with_w. cbn [s_flw s_tl s_dead]. destruct x; exact R.
Qed.

(* ---- the whole history of the killed process ---- *)
Lemma kill_history_d t0 off ops1 k ops2 : Forall basic_op ops1 -> Forall basic_op ops2 ->
  exists v, IdleD c (fst (run (sys0 t0 off) (OStart c :: ops1 ++ [OSetKill k] ++ ops2 ++ [OCrash]))) v
    /\ flat v = written ops1 ++ acked (fst (run (sys0 t0 off) (OStart c :: ops1 ++ [OSetKill k]))) ops2
    /\ length (closed_of v) <= S (length ops1 + length ops2).
Proof.
  intros Hb1 Hb2. rewrite !fst_run_cons, !fst_run_app, !fst_run_cons. cbn [run fst].
  pose proof (start_rel_d c crit t0 off) as R0. set (x0 := fst (step (sys0 t0 off) (OStart c))) in *.
  pose proof (run_rel_d c crit Hcfg ops1 x0 None R0 Hb1) as R1. pose proof (run_length ops1 x0) as L1.
  pose proof (a_run_flat ops1 None (snd (run x0 ops1)) Hb1 L1) as F1.
  pose proof (a_run_apot ops1 None (snd (run x0 ops1))) as P1. cbn [apot flat app] in F1, P1.
  set (x1 := fst (run x0 ops1)) in *. set (a1 := a_run None ops1 (snd (run x0 ops1))) in *.
  pose proof (arm_krel_d x1 a1 k R1) as K2. set (x2 := fst (step x1 (OSetKill k))) in *.
  destruct (krun_d ops2 x2 a1 K2 Hb2) as [[a' [K' [F' P']]] | [v [D [F' P']]]].
  - destruct (crash_alive_d _ a' K') as [v [Id [Fv Lv]]]. exists v. split; [exact Id|].
    split; [rewrite Fv, F', F1; reflexivity | lia].
  - exists v. split; [apply crash_dead_d; exact D|]. split; [rewrite F', F1; reflexivity | lia].
Qed.

(* the acknowledged bytes are the bytes written by a prefix of the operations: the process dies once *)
Lemma acked_prefix_kd : forall ops x a, KRelD c crit x a -> Forall basic_op ops ->
  exists j, acked x ops = written (firstn j ops).
Proof.
  induction ops as [|o r IH]; intros x a K Hb; [exists 0; reflexivity|].
  inversion Hb as [|o' r' Ho Hr]; subst. cbn [acked].
  pose proof (kstep_d x a o K Ho) as S. destruct (step x o) as [x1 ob] eqn:Est. cbn [fst].
  destruct S as [[Al K1] | [Al [v [D _]]]]; rewrite Al.
  - destruct (IH x1 _ K1 Hr) as [j E]. exists (S j). cbn [firstn]. rewrite E, (written_cons o (firstn j r)). reflexivity.
  - exists 0. rewrite (acked_dead r x1 (proj1 D) Hr). reflexivity.
Qed.

Lemma kill_history_prefix_d t0 off ops1 k ops2 : Forall basic_op ops1 -> Forall basic_op ops2 ->
  exists j, acked (fst (run (sys0 t0 off) (OStart c :: ops1 ++ [OSetKill k]))) ops2 = written (firstn j ops2).
Proof.
  intros Hb1 Hb2. rewrite !fst_run_cons, !fst_run_app, !fst_run_cons. cbn [run fst].
  pose proof (start_rel_d c crit t0 off) as R0. set (x0 := fst (step (sys0 t0 off) (OStart c))) in *.
  pose proof (run_rel_d c crit Hcfg ops1 x0 None R0 Hb1) as R1.
  exact (acked_prefix_kd ops2 _ _ (arm_krel_d _ _ k R1) Hb2).
Qed.

End DirectD.

Lemma idle_d_files c x v : IdleD c x v -> direct_view c (wfs (s_w x)) (files_of v) /\ concat (files_of v) = flat v.
Proof.
  intros [_ [_ [_ [_ D]]]]. destruct v as [[cl cu]|]; cbn [dir_view_d files_of flat] in *.
  - split; [apply D|]. rewrite concat_app. cbn [concat]. rewrite app_nil_r. reflexivity.
  - split; [apply direct_view_nil; apply D | reflexivity].
Qed.

(* After any history  OStart c :: ops1 ++ [OSetKill k] ++ ops2 ++ [OCrash]  from the empty directory (NumbersDirect naming,
   no cleanup, direct mode; ops1, ops2 any basic operations; any kill point k) the directory consists exactly of the plain
   files r00000 .. r(n) without a gap (files = [] stands for the empty directory, direct_view_nil), and they hold, in this
   order, exactly the acknowledged records: the payloads written by ops1 and those written by the operations of ops2 after
   which the process was still alive.  Nothing is lost, nothing else is there (in the model a write effect is atomic: the
   record whose write was killed is not in the file).  The last file may be empty (kill between the creation of a file and
   the first write into it); when the kill hit the creation itself, the file is not there. *)
Theorem numbersdirect_kill_keeps_acked c crit t0 off ops1 k ops2 :
  numdcfg c crit -> c_cap c = None -> Forall basic_op ops1 -> Forall basic_op ops2 ->
  let x1 := fst (run (sys0 t0 off) (OStart c :: ops1 ++ [OSetKill k])) in
  let xe := fst (run (sys0 t0 off) (OStart c :: ops1 ++ [OSetKill k] ++ ops2 ++ [OCrash])) in
  exists files,
    direct_view c (wfs (s_w xe)) files
    /\ concat files = written ops1 ++ acked x1 ops2.
Proof.
  intros Hcfg Hcap Hb1 Hb2 x1 xe.
  destruct (kill_history_d c crit Hcfg Hcap t0 off ops1 k ops2 Hb1 Hb2) as [v [Id [F _]]].
  destruct (idle_d_files c _ v Id) as [R C].
  exists (files_of v). split; [exact R|]. rewrite C. exact F.
Qed.
Print Assumptions numbersdirect_kill_keeps_acked.

(* what is acknowledged is what a prefix of ops2 wrote *)
Theorem acked_is_prefix_d c crit t0 off ops1 k ops2 :
  numdcfg c crit -> c_cap c = None -> Forall basic_op ops1 -> Forall basic_op ops2 ->
  exists j, acked (fst (run (sys0 t0 off) (OStart c :: ops1 ++ [OSetKill k]))) ops2 = written (firstn j ops2).
Proof. intros Hcfg Hcap. apply (kill_history_prefix_d c crit Hcfg Hcap). Qed.
Print Assumptions acked_is_prefix_d.

(* ------------------------------------------------------------------ a new writer on the directory of the killed one *)
(* The directory that a killed writer leaves behind is one that a stopped writer could have left behind (r00000 .. r(n), no
   gap): the restart is the one of NumDRestart.v (one_run_d).  What is added here: every operation of the new writer
   succeeds. *)
Lemma step_rel_ok_d c crit x a o : numdcfg c crit -> RelD c crit x a -> basic_op o -> obs_ok (snd (step x o)).
Proof.
  intros Hcfg R Hb. rewrite (step_sync_rel_d c crit x a o Hcfg R). destruct o; try contradiction; cbn [sync_step].
  - destruct (write_rel_d c crit x a b Hcfg R) as [s [w' [s' [rot [Es [Hp [E _]]]]]]].
    rewrite Es, Hp. rewrite (proj1 R). cbn [app]. rewrite E. reflexivity.
  - destruct (write_rel_d c crit x a b Hcfg R) as [s [w' [s' [rot [Es [Hp [E _]]]]]]].
    rewrite Es, Hp, E. reflexivity.
  - destruct R as [Ht [Ha R]]. destruct a as [[closed cur]|].
    + destruct R as [wr [roll [Es [I _]]]]. rewrite Es. cbn [st_of_d f_poisoned].
      destruct (flush_active_d c (s_w x) wr closed roll I) as [w' [wr' [E _]]].
      fold (st_of_d c (length closed) roll wr). rewrite E. reflexivity.
    + destruct R as [Es R]. rewrite Es. reflexivity.
  - destruct R as [Ht [Ha R]]. destruct a as [[closed cur]|].
    + destruct R as [wr [roll [Es [I _]]]]. rewrite Es. cbn [st_of_d f_poisoned f_cfg f_inner].
      destruct (mount_next_rotates_d c crit (s_w x) wr closed roll true Hcfg I eq_refl) as [w' [wr' [roll' [E _]]]].
      rewrite E. reflexivity.
    + destruct R as [Es R]. rewrite Es. reflexivity.
  - reflexivity.
  - cbn [snd snapshot obs_ok]. exact Logic.I.
Qed.

Lemma gstep_ok_d c crit x v a o :
  numdcfg c crit -> (N.of_nat (length (closed_of v)) <= u32_max)%N -> GRelD c crit x v a -> basic_op o ->
  obs_ok (snd (step x o)).
Proof.
  intros Hcfg Hb G Ho. destruct a as [p|].
  - cbn [GRelD] in G. exact (step_rel_ok_d c crit x (Some p) o Hcfg G Ho).
  - cbn [GRelD] in G. rewrite (step_sync_pre_d c crit x v o Hcfg G).
    pose proof G as [Ht [Ha [Es [Q D]]]].
    destruct o; try contradiction; cbn [sync_step].
    + destruct (first_write_d c crit x v (s_tl x ++ b) Hcfg Hb G) as [w' [s' [rot [E _]]]].
      rewrite Es. cbn [new_flw f_poisoned]. fold (new_flw c). rewrite E. reflexivity.
    + destruct (first_write_d c crit x v b Hcfg Hb G) as [w' [s' [rot [E _]]]].
      rewrite Es. cbn [new_flw f_poisoned]. fold (new_flw c). rewrite E. reflexivity.
    + rewrite Es. reflexivity.
    + rewrite Es. reflexivity.
    + reflexivity.
    + cbn [snd snapshot obs_ok]. exact Logic.I.
Qed.

Lemma grun_ok_d c crit v : numdcfg c crit -> (N.of_nat (length (closed_of v)) <= u32_max)%N ->
  forall ops x a, GRelD c crit x v a -> Forall basic_op ops -> Forall obs_ok (snd (run x ops)).
Proof.
  intros Hcfg Hb. induction ops as [|o r IH]; intros x a G Hbo; [constructor|].
  cbn [run]. inversion Hbo as [|o' r' Ho Hr]; subst.
  pose proof (gstep_rel_d c crit x v a o Hcfg Hb G Ho) as S. pose proof (gstep_ok_d c crit x v a o Hcfg Hb G Ho) as K.
  destruct (step x o) as [x1 ob]. cbn [snd] in K.
  specialize (IH x1 _ S Hr). destruct (run x1 r) as [x2 obs]. cbn [snd] in *. constructor; assumption.
Qed.

Lemma stop_ok_d c crit x v a : numdcfg c crit -> GRelD c crit x v a -> obs_ok (snd (step x OStop)).
Proof.
  intros Hcfg G. destruct a as [[closed cur]|]; cbn [GRelD] in G.
  - rewrite (step_sync_rel_d c crit x _ OStop Hcfg G). cbn [sync_step].
    destruct G as [_ [_ [wr [roll [Es _]]]]]. rewrite Es. reflexivity.
  - rewrite (step_sync_pre_d c crit x v OStop Hcfg G). destruct G as [_ [_ [Es _]]]. cbn [sync_step]. rewrite Es. reflexivity.
Qed.

Lemma one_run_ok_d c crit x v ops :
  numdcfg c crit -> (N.of_nat (length (closed_of v)) <= u32_max)%N -> Forall basic_op ops -> IdleD c x v ->
  Forall obs_ok (snd (run x (OStart c :: ops ++ [OStop]))).
Proof.
  intros Hcfg Hb Hops Id. cbn [run]. pose proof (start_pre_d c x v Id) as P0.
  assert (K0 : obs_ok (snd (step x (OStart c)))).
  { destruct Id as [_ [_ [Es _]]]. unfold step, apply_start. rewrite Es. unfold step_core. rewrite Es. reflexivity. }
  destruct (step x (OStart c)) as [x0 ob0]. cbn [fst snd] in P0, K0.
  rewrite run_app.
  pose proof (grun_rel_d c crit v Hcfg Hb ops x0 None P0 Hops) as G1.
  pose proof (grun_ok_d c crit v Hcfg Hb ops x0 None P0 Hops) as K1.
  destruct (run x0 ops) as [x1 obs1]. cbn [fst snd] in *.
  pose proof (stop_ok_d c crit x1 v _ Hcfg G1) as K2. cbn [run]. destruct (step x1 OStop) as [x2 ob2]. cbn [fst snd] in *.
  constructor; [exact K0|]. apply Forall_app. split; [exact K1 | constructor; [exact K2 | constructor]].
Qed.

(* The restart after a kill, with one side condition that the model needs (as in numbersdirect_restarts_partial):
   the bound on the length of the first history, because the index that the restarting writer reads back from a listed file
   name is parsed as u32 and counts as 0 when it does not fit (NumRestart.index_beyond_u32_reads_as_0).  Nothing else is
   missing: any kill point, any histories, any capacity / append flag / criterion for the second writer.
   Every operation of the second writer succeeds, and the final directory r00000 .. r(n) holds exactly
   written ops1 ++ acked .. ops2 ++ written ops3. *)
Theorem numbersdirect_kill_restart_partial c crit c' crit' t0 off ops1 k ops2 ops3 :
  numdcfg c crit -> c_cap c = None -> numdcfg c' crit' -> c_spec c' = c_spec c ->
  Forall basic_op ops1 -> Forall basic_op ops2 -> Forall basic_op ops3 ->
  (N.of_nat (S (length ops1 + length ops2)) <= u32_max)%N ->
  let x1 := fst (run (sys0 t0 off) (OStart c :: ops1 ++ [OSetKill k])) in
  let xk := fst (run (sys0 t0 off) (OStart c :: ops1 ++ [OSetKill k] ++ ops2 ++ [OCrash])) in
  let r2 := run xk (OStart c' :: ops3 ++ [OStop]) in
  Forall obs_ok (snd r2)
  /\ exists files,
       direct_view c' (wfs (s_w (fst r2))) files
       /\ concat files = written ops1 ++ acked x1 ops2 ++ written ops3.
Proof.
  intros Hcfg Hcap Hcfg' Hsp Hb1 Hb2 Hb3 Hbound x1 xk r2.
  destruct (kill_history_d c crit Hcfg Hcap t0 off ops1 k ops2 Hb1 Hb2) as [v [Id [F Len]]].
  fold xk in Id. fold x1 in F.
  assert (Hb : (N.of_nat (length (closed_of v)) <= u32_max)%N) by lia.
  pose proof (idle_d_spec c c' xk v (eq_sym Hsp) Id) as Id'.
  split; [exact (one_run_ok_d c' crit' xk v ops3 Hcfg' Hb Hb3 Id')|].
  destruct (one_run_d c' crit' xk v ops3 Hcfg' Hb Hb3 Id') as [v' [Id2 [F2 _]]].
  destruct (idle_d_files c' _ v' Id2) as [R C].
  exists (files_of v'). split; [exact R|]. rewrite C, F2, F, <- app_assoc. reflexivity.
Qed.
Print Assumptions numbersdirect_kill_restart_partial.

(* ------------------------------------------------------------------ examples (non-vacuity) *)
Open Scope string_scope.
(* first writer: direct mode, size criterion 3 *)
Definition kd_cfg : config := exd_cfg (ex_sp "log") false (CSize 3) None.
Definition kd_ops1 : list op := [OWrite (bs "abcd"); OWrite (bs "ef")].
Definition kd_ops2 : list op := [OTrigger; OWrite (bs "gh"); OSnap; OWrite (bs "ij")].
Definition kd_hist (k : nat) : list op := OStart kd_cfg :: kd_ops1 ++ [OSetKill k] ++ kd_ops2 ++ [OCrash].
Definition kd_armed (k : nat) : sys := fst (run (sys0 0 0) (OStart kd_cfg :: kd_ops1 ++ [OSetKill k])).

Lemma kd_numdcfg : numdcfg kd_cfg (CSize 3).
Proof. repeat split. Qed.
Lemma kd_basic1 : Forall basic_op kd_ops1.
Proof. repeat constructor. Qed.
Lemma kd_basic2 : Forall basic_op kd_ops2.
Proof. repeat constructor. Qed.

(* the kill points of this history: 0 - the creation of r00002 (the trigger) is the kill point, nothing changes;
   1 - the rotation is completed (acknowledged, it writes nothing), the write of "gh" is the kill point: r00002 is there, empty;
   2 - "gh" is written, the write of "ij" is the kill point; 3 - everything happens *)
Example kd_kill_points_dirs :
  snap_of (fst (run (sys0 0 0) (kd_hist 0)))
  = [ (bs "app_r00000.log", 0%N, bs "abcd"); (bs "app_r00001.log", 0%N, bs "ef") ]
  /\ snap_of (fst (run (sys0 0 0) (kd_hist 1)))
  = [ (bs "app_r00000.log", 0%N, bs "abcd"); (bs "app_r00001.log", 0%N, bs "ef"); (bs "app_r00002.log", 0%N, []) ]
  /\ snap_of (fst (run (sys0 0 0) (kd_hist 2)))
  = [ (bs "app_r00000.log", 0%N, bs "abcd"); (bs "app_r00001.log", 0%N, bs "ef"); (bs "app_r00002.log", 0%N, bs "gh") ]
  /\ snap_of (fst (run (sys0 0 0) (kd_hist 3)))
  = [ (bs "app_r00000.log", 0%N, bs "abcd"); (bs "app_r00001.log", 0%N, bs "ef"); (bs "app_r00002.log", 0%N, bs "ghij") ]
  /\ acked (kd_armed 0) kd_ops2 = [] /\ acked (kd_armed 1) kd_ops2 = [] /\ acked (kd_armed 2) kd_ops2 = bs "gh"
  /\ acked (kd_armed 3) kd_ops2 = bs "ghij".
Proof. vm_compute. repeat split; reflexivity. Qed.

Example kd_kill_alive :
  List.map (fun j => alive (s_w (fst (run (kd_armed 1) (firstn j kd_ops2))))) [0; 1; 2; 3; 4] = [true; true; false; false; false].
Proof. vm_compute. reflexivity. Qed.

Example kd_kill_instance :
  exists files,
    direct_view kd_cfg (wfs (s_w (fst (run (sys0 0 0) (kd_hist 1))))) files /\ concat files = bs "abcdef".
Proof.
  destruct (numbersdirect_kill_keeps_acked kd_cfg (CSize 3) 0 0 kd_ops1 1 kd_ops2 kd_numdcfg eq_refl kd_basic1 kd_basic2)
    as [files [R E]].
  exists files. split; [exact R|]. rewrite E. vm_compute. reflexivity.
Qed.

(* a kill inside a write that rotates: "ghij" is written and acknowledged, the next write rotates (6 > 3: r00002 is created)
   and is killed at its write effect *)
Example kd_kill_in_rotating_write :
  let ops2 := [OWrite (bs "ghij"); OWrite (bs "kl")] in
  snap_of (fst (run (sys0 0 0) (OStart kd_cfg :: kd_ops1 ++ [OSetKill 2] ++ ops2 ++ [OCrash])))
  = [ (bs "app_r00000.log", 0%N, bs "abcd"); (bs "app_r00001.log", 0%N, bs "efghij"); (bs "app_r00002.log", 0%N, []) ]
  /\ acked (kd_armed 2) ops2 = bs "ghij".
Proof. vm_compute. split; reflexivity. Qed.

(* a kill in the very first write: the creation of r00000 is the kill point, the directory stays empty; one effect later the
   empty r00000 is there *)
Example kd_kill_in_first_write :
  snap_of (fst (run (sys0 0 0) (OStart kd_cfg :: [] ++ [OSetKill 0] ++ [OWrite (bs "a")] ++ [OCrash]))) = []
  /\ snap_of (fst (run (sys0 0 0) (OStart kd_cfg :: [] ++ [OSetKill 1] ++ [OWrite (bs "a")] ++ [OCrash])))
     = [ (bs "app_r00000.log", 0%N, []) ].
Proof. vm_compute. split; reflexivity. Qed.

(* the restart: a buffered writer on the directory with the freshly created empty r00002 - with append it continues the
   empty file, without append it starts r00003 (the empty file stays) *)
Definition kd_cfg2 (app : bool) : config := exd_cfg (ex_sp "log") app (CSize 100) (Some 8%nat).
Definition kd_ops3 : list op := [OWrite (bs "xy"); OFlush; OTick 5; OWrite (bs "z")].

Example kd_restart_after_kill_dirs :
  snap_of (fst (run (fst (run (sys0 0 0) (kd_hist 1))) (OStart (kd_cfg2 true) :: kd_ops3 ++ [OStop])))
  = [ (bs "app_r00000.log", 0%N, bs "abcd"); (bs "app_r00001.log", 0%N, bs "ef"); (bs "app_r00002.log", 0%N, bs "xyz") ]
  /\ snap_of (fst (run (fst (run (sys0 0 0) (kd_hist 1))) (OStart (kd_cfg2 false) :: kd_ops3 ++ [OStop])))
  = [ (bs "app_r00000.log", 0%N, bs "abcd"); (bs "app_r00001.log", 0%N, bs "ef"); (bs "app_r00002.log", 0%N, []);
      (bs "app_r00003.log", 0%N, bs "xyz") ]
  /\ snap_of (fst (run (fst (run (sys0 0 0) (kd_hist 0))) (OStart (kd_cfg2 true) :: kd_ops3 ++ [OStop])))
  = [ (bs "app_r00000.log", 0%N, bs "abcd"); (bs "app_r00001.log", 0%N, bs "efxyz") ].
Proof. vm_compute. repeat split; reflexivity. Qed.

Example kd_restart_after_kill_instance :
  let r2 := run (fst (run (sys0 0 0) (kd_hist 2))) (OStart (kd_cfg2 false) :: kd_ops3 ++ [OStop]) in
  Forall obs_ok (snd r2)
  /\ exists files, direct_view (kd_cfg2 false) (wfs (s_w (fst r2))) files /\ concat files = bs "abcdefghxyz".
Proof.
  assert (H : numdcfg (kd_cfg2 false) (CSize 100)) by (repeat split).
  assert (H3 : Forall basic_op kd_ops3) by (repeat constructor).
  assert (Hb : (N.of_nat (S (length kd_ops1 + length kd_ops2)) <= u32_max)%N) by (vm_compute; discriminate).
  destruct (numbersdirect_kill_restart_partial kd_cfg (CSize 3) (kd_cfg2 false) (CSize 100) 0 0 kd_ops1 2 kd_ops2 kd_ops3
              kd_numdcfg eq_refl H eq_refl kd_basic1 kd_basic2 H3 Hb) as [K [files [R E]]].
  split; [exact K|]. exists files. split; [exact R|]. rewrite E. vm_compute. reflexivity.
Qed.

Print Assumptions numbersdirect_kill_keeps_acked.
Print Assumptions numbersdirect_kill_restart_partial.
