(* Files that are not members of the logger's file family are ignored, NumbersDirect naming (r00000, r00001, ...; no
   rCURRENT): a run in a directory that holds foreign files is, step by step, the embedding (ForeignFs.embed) of the
   run in the empty directory.

   - foreign name: the family test of the model rejects it (numd_member c n = false): it is not listed as a numbered
     file, neither plain nor as an archive.  Unlike with Numbers naming the name of the rCURRENT file is foreign, too:
     a writer with NumbersDirect naming never touches it (foreign_instance_dir_d).
   - numbersdirect_foreign_ignored: every criterion, every history OStart c :: ops ++ [OStop] of basic operations
     (snapshots included), with or without append, any buffer capacity.
   - numbersdirect_stream_foreign: numbersdirect_stream carries over.
   The embedding lemmas (section CfgD) hold for every world, faults and kills included. *)
Require Import FL.Base.Bytes FL.Base.BytesFacts FL.Base.PathName FL.Fs.Fs FL.Fs.FsFacts FL.Time.Civil FL.Time.TsFormat
  FL.Names.FileSpec FL.Names.NamesFacts FL.Names.SortFacts FL.Names.FamilyFacts
  FL.Flw.Model FL.Flw.ModelFacts FL.Flw.NumFs FL.Flw.NumInv FL.Flw.Run FL.Flw.RunFacts FL.Flw.NumRun FL.Flw.NumTheorems
  FL.Flw.NumListing FL.Flw.NumDInv FL.Flw.NumDRun FL.Flw.NumDTheorems
  FL.Flw.ForeignFs FL.Flw.ForeignSort FL.Flw.ForeignModel FL.Flw.NumForeign FL.Flw.ForeignGen FL.Oracles.O_Flw.
From Coq Require Import ZifyN ZifyNat ZifyBool.
Open Scope nat_scope.

(* the family test of the model for NumbersDirect naming: the name is listed as a numbered file, plain or compressed *)
Definition numd_member (c : config) (n : bytes) : bool :=
  qf 0 (fsfx (c_spec c)) (fixed0 c) IFNum (fsfx (c_spec c)) n
  || qf 0 (fsfx (c_spec c)) (fixed0 c) IFNum (Some gz_sfx) n.

Lemma numd_member_num c n : num_member c n = numd_member c n || beq n (cname c).
Proof. reflexivity. Qed.

Section CfgD.
Variable fn : list (bytes * nat).
Variable fi : list file.
Variable c : config.
Variable crit : criterion.
Hypothesis Hrot : c_rot c = Some (crit, NNumbersDirect, KNever).
Hypothesis Hts : fts (c_spec c) = false.
Hypothesis Hlink : c_symlink c = false.
Hypothesis Hforeign : forall n, In n (fnames fn) -> numd_member c n = false.
Notation fnm := (fnames fn).
Notation embw := (embedw fn fi).

Lemma foreign_plain_d off n : In n fnm -> qf off (fsfx (c_spec c)) (fixed0 c) IFNum (fsfx (c_spec c)) n = false.
Proof. intros H. apply Hforeign in H. unfold numd_member in H. rewrite qf_num_off. rewrite orb_false_iff in H. apply H. Qed.
Lemma foreign_gz_d off n : In n fnm -> qf off (fsfx (c_spec c)) (fixed0 c) IFNum (Some gz_sfx) n = false.
Proof. intros H. apply Hforeign in H. unfold numd_member in H. rewrite qf_num_off. rewrite orb_false_iff in H. apply H. Qed.
Lemma rname_own_d idx : ~ In (nm c (number_infix idx)) fnm.
Proof.
  intros H. pose proof (foreign_plain_d 0%Z _ H) as Q. pose proof (qf_rname 0%Z c (N.to_nat idx)) as Q'.
  unfold rname in Q'. rewrite N2Nat.id in Q'. congruence.
Qed.
Lemma name_own_d w idx : ~ In (name_of c w (Some (number_infix idx))) fnm.
Proof. rewrite name_of_fixed by exact Hts. apply rname_own_d. Qed.

Lemma get_highest_index_embed_d off f :
  get_highest_index off (c_spec c) (fixed0 c) (embed fn fi f) = get_highest_index off (c_spec c) (fixed0 c) f.
Proof.
  unfold get_highest_index. rewrite (list_log_gz_embed_g fn fi); [reflexivity | |].
  - intros n Hn. apply foreign_plain_d. exact Hn.
  - intros n Hn. apply foreign_gz_d. exact Hn.
Qed.

(* the states of a writer with NumbersDirect naming without cleanup *)
Definition good_inner_d (st : inner) : Prop :=
  match st with
  | Active (Some rs) _ _ => (exists idx, rs_naming rs = NSNumD idx) /\ rs_cleanup rs = KNever
  | _ => True
  end.

Lemma initialize_embed_d w :
  initialize c (embw w) = (shres fi (fst (initialize c w)), embw (snd (initialize c w))).
Proof.
  unfold initialize. rewrite Hrot. unfold init_naming.
  rewrite (with_listing_embed fn fi w
             (fun w' => get_highest_index (woff w') (c_spec c) (fixed_of c w') (wfs w'))
             (fun w' => get_highest_index (woff w') (c_spec c) (fixed_of c w') (wfs w'))).
  2:{ intros w'. rewrite !(fixed_of_embed c Hts). change (wfs (embw w')) with (embed fn fi (wfs w')).
      change (woff (embw w')) with (woff w'). apply get_highest_index_embed_d. }
  destruct (with_listing w (fun w' => get_highest_index (woff w') (c_spec c) (fixed_of c w') (wfs w'))) as [r w1].
  destruct r as [o| |]; cbn [lw fst snd bind]; [|reflexivity|reflexivity].
  assert (Ei : match o with
               | Some i => if c_append c && match lookup (wfs (embw w1)) (name_of c (embw w1) (Some (number_infix i))) with Some _ => true | None => false end
                           then i else (i + 1)%N
               | None => 0%N end
             = match o with
               | Some i => if c_append c && match lookup (wfs w1) (name_of c w1 (Some (number_infix i))) with Some _ => true | None => false end
                           then i else (i + 1)%N
               | None => 0%N end).
  { destruct o as [i|]; [|reflexivity]. rewrite name_of_embed. change (wfs (embw w1)) with (embed fn fi (wfs w1)).
    rewrite (lookup_is_some_embed fn fi) by apply name_own_d. reflexivity. }
  rewrite Ei. clear Ei.
  set (idx := match o with
              | Some i => if c_append c && match lookup (wfs w1) (name_of c w1 (Some (number_infix i))) with Some _ => true | None => false end
                          then i else (i + 1)%N
              | None => 0%N end).
  assert (Hn : ~ In (name_of c w1 (Some (number_infix idx))) fnm) by apply name_own_d.
  rewrite (open_log_file_embed fn fi c Hlink) by exact Hn.
  destruct (open_log_file c w1 (Some (number_infix idx))) as [r2 w2] eqn:Eo. cbn [fst snd].
  destruct r2 as [[wr path]| |]; cbn [shwp bind]; [|reflexivity|reflexivity].
  apply open_log_file_path in Eo. subst path.
  rewrite (roll_new_embed fn fi) by exact Hn.
  destruct (roll_new w2 crit (c_append c) (name_of c w1 (Some (number_infix idx)))) as [r3 w3]. cbn [lw fst snd].
  destruct r3 as [roll| |]; cbn [lw fst snd bind]; reflexivity.
Qed.

Lemma initialize_good_d w i w' : initialize c w = (Ok i, w') -> good_inner_d i.
Proof.
  unfold initialize. rewrite Hrot. unfold init_naming.
  destruct (with_listing w (fun w' => get_highest_index (woff w') (c_spec c) (fixed_of c w') (wfs w'))) as [[o| |] w1]; cbn [bind]; try discriminate.
  match goal with |- context [open_log_file c w1 (Some (number_infix ?I))] => set (idx := I) end.
  destruct (open_log_file c w1 (Some (number_infix idx))) as [[[wr path]| |] w2]; cbn [bind]; try discriminate.
  destruct (roll_new w2 crit (c_append c) path) as [[roll| |] w3]; cbn [bind]; try discriminate.
  intros H. injection H as <- _. cbn. split; [eauto | reflexivity].
Qed.

Lemma cleanup_never w bg flt d : cleanup_or_queue c w bg KNever flt d = (Ok tt, w).
Proof. unfold cleanup_or_queue. destruct bg; reflexivity. Qed.

Lemma mount_next_embed_d w st force : good_inner_d st ->
  mount_next c (embw w) (shin fi st) force = lm fn fi (mount_next c w st force).
Proof.
  intros G. destruct st as [|[rs|] wr path]; try reflexivity.
  destruct G as [[idx En] Ek]. destruct rs as [ns roll kc0 bg]. cbn [rs_naming rs_cleanup] in En, Ek. subst ns kc0.
  unfold mount_next. cbn [shin rs_roll rs_naming rs_cleanup rs_bg]. rewrite rotation_necessary_embed.
  destruct (force || rotation_necessary w roll); [|reflexivity].
  assert (Hn : ~ In (name_of c w (Some (number_infix (idx + 1)))) fnm) by apply name_own_d.
  rewrite (open_log_file_embed fn fi c Hlink) by exact Hn.
  destruct (open_log_file c w (Some (number_infix (idx + 1)))) as [r2 w2] eqn:Eo. cbn [fst snd].
  destruct r2 as [[wr' path']| |]; cbn [shwp]; [|reflexivity|reflexivity].
  apply open_log_file_path in Eo. subst path'.
  rewrite w_flush_embed. destruct (w_flush w2 wr) as [[okf w2a] wra]. cbn [lw3].
  replace (if okf then embw w2a else report EFlush (embw w2a)) with (embw (if okf then w2a else report EFlush w2a))
    by (destruct okf; [reflexivity | symmetry; apply report_embed]).
  rewrite w_drop_embed, reset_size_and_date_embed by exact Hn.
  rewrite !cleanup_never. reflexivity.
Qed.

Lemma mount_next_good_d w st force r w' st' : good_inner_d st -> mount_next c w st force = (r, w', st') -> good_inner_d st'.
Proof.
  intros G. destruct st as [|[rs|] wr path]; try (cbn; intros H; injection H as _ _ <-; exact Logic.I).
  destruct G as [[idx En] Ek]. destruct rs as [ns roll kc0 bg]. cbn [rs_naming rs_cleanup] in En, Ek. subst ns kc0.
  unfold mount_next. cbn [rs_roll rs_naming rs_cleanup rs_bg].
  destruct (force || rotation_necessary w roll); [|intros H; injection H as _ _ <-; cbn; split; [eauto | reflexivity]].
  destruct (open_log_file c w (Some (number_infix (idx + 1)))) as [[[wr' path']| |] w2];
    try (intros H; injection H as _ _ <-; cbn; split; [eauto | reflexivity]).
  destruct (w_flush w2 wr) as [[okf w2a] wra]. rewrite cleanup_never.
  intros H; injection H as _ _ <-; cbn; split; [eauto | reflexivity].
Qed.

Definition good_flw_d (s : flw) : Prop := f_cfg s = c /\ f_poisoned s = false /\ good_inner_d (f_inner s).

Lemma write_buffer_embed_d s w b : good_flw_d s ->
  write_buffer (embeds fi s) (embw w) b = lwb fn fi (write_buffer s w b).
Proof.
  intros [Ec [Hp G]]. apply (write_buffer_embed_pt fn fi c); [exact Ec | intros _; apply initialize_embed_d |].
  intros w0 st0 H. apply mount_next_embed_d. destruct (f_inner s) as [|o wr path] eqn:Ei.
  - destruct (initialize c w) as [[i| |] w'] eqn:E; try discriminate. injection H as <- <-. eapply initialize_good_d; eassumption.
  - injection H as <- <-. exact G.
Qed.
End CfgD.

(* ------------------------------------------------------------------ the states of the run in the clean directory *)
Definition good_sys_d (c : config) (x : sys) : Prop := forall s, s_flw x = Some s -> good_flw_d c s.

Lemma reld_good c crit x a : RelD c crit x a -> good_sys_d c x.
Proof.
  intros [_ [_ R]] s Es. destruct a as [[closed cur]|].
  - destruct R as [wr [roll [E _]]]. rewrite E in Es. injection Es as <-. repeat split. cbn. eauto.
  - destruct R as [E _]. rewrite E in Es. injection Es as <-. repeat split.
Qed.

Lemma reld_fam fn c crit x a : (forall n, In n (fnames fn) -> numd_member c n = false) ->
  RelD c crit x a -> fam_g fn (good_sys_d c) x.
Proof.
  intros Hforeign R. split; [eapply reld_good; exact R|]. destruct R as [_ [_ R]].
  intros n Hn. destruct a as [[closed cur]|].
  - destruct R as [wr [roll [_ [I _]]]]. apply dir_names_lookup in Hn. destruct Hn as [j Hj].
    destruct (nd_only _ _ _ _ I n j Hj) as [i [_ ->]]. apply (rname_own_d fn c Hforeign).
  - destruct R as [_ [_ [E _]]]. unfold dir_names in Hn. rewrite E in Hn. destruct Hn.
Qed.

(* ------------------------------------------------------------------ the theorem *)
(* The foreign-name condition: the family test of the model (numd_member) rejects the name - it is not listed as a
   numbered file, neither plain nor compressed. *)
Theorem numbersdirect_foreign_ignored c crit t0 off foreign ops :
  numdcfg c crit -> Forall basic_op ops ->
  NoDup (List.map fst foreign) ->
  (forall n, In n (List.map fst foreign) -> numd_member c n = false) ->
  let ops' := OStart c :: ops ++ [OStop] in
  let rf := run (sys0f t0 off foreign) ops' in
  let r0 := run (sys0 t0 off) ops' in
  (* 1: the same observations; a snapshot shows the foreign files in addition *)
  List.map (strip_obs (List.map fst foreign)) (snd rf) = snd r0
  /\ (Forall (fun o => o <> OSnap) ops -> snd rf = snd r0)
  (* 2: the foreign files are in place, unchanged *)
  /\ (forall n d, In (n, d) foreign -> file_of (wfs (s_w (fst rf))) n = Some (plain_file t0 d))
  (* 3: every other name is what the run in the empty directory makes of it *)
  /\ (forall n, ~ In n (List.map fst foreign) -> file_of (wfs (s_w (fst rf))) n = file_of (wfs (s_w (fst r0))) n)
  /\ (forall n, In n (List.map fst foreign) -> file_of (wfs (s_w (fst r0))) n = None)
  (* the whole state: the run is the embedding of the run in the empty directory *)
  /\ fst rf = embedx (names (fs0f t0 foreign)) (inodes (fs0f t0 foreign)) (fst r0).
Proof.
  intros Hcfg Hb ND Hfor. pose proof Hcfg as [Hrot [Hts [Hlink Hasync]]].
  destruct (fs0f_spec t0 foreign ND) as [Hd _].
  assert (Hforeign : forall n, In n (fnames (names (fs0f t0 foreign))) -> numd_member c n = false).
  { intros n Hn. apply Hfor. rewrite <- Hd. exact Hn. }
  apply (foreign_ignored_g c (good_sys_d c) t0 off foreign ops Hts Hasync).
  - intros x s G Es. destruct (G s Es) as [Ec [Hp _]]. split; assumption.
  - intros x s b G Es. apply (write_buffer_embed_d _ _ c crit Hrot Hts Hlink Hforeign). exact (G s Es).
  - intros x s G Es. apply (mount_next_embed_d _ _ c Hts Hlink Hforeign). destruct (G s Es) as [_ [_ Gi]]. exact Gi.
  - exact Hb.
  - exact ND.
  - intros i. eapply reld_fam; [exact Hforeign|].
    apply (run_rel_d c crit Hcfg (firstn i ops) _ None (start_rel_d c crit t0 off)). apply Forall_firstn'. exact Hb.
  - intros n Hn. rewrite <- Hd in Hn.
    destruct (run_view_d c crit t0 off ops Hcfg Hb) as [x0 [ob0 [_ [_ [_ V]]]]].
    destruct (lookup (wfs (s_w (fst (run (sys0 t0 off) (OStart c :: ops ++ [OStop]))))) n) as [j|] eqn:Ej; [exfalso|reflexivity].
    destruct (V n j Ej) as [i [_ ->]]. exact (rname_own_d _ c Hforeign _ Hn).
Qed.
Print Assumptions numbersdirect_foreign_ignored.

(* ------------------------------------------------------------------ the stream of records *)
Lemma memberd_rname c i : numd_member c (rname c i) = true.
Proof. unfold numd_member. rewrite qf_rname. reflexivity. Qed.

(* the family files of a directory that may hold other files, too: r00000, r00001, .. hold `files`, and no other
   name outside the foreign ones exists *)
Definition direct_view_family (c : config) (fnm : list bytes) (f : fs) (files : list bytes) : Prop :=
  (forall i, i < length files ->
     exists fl, file_of f (rname c i) = Some fl /\ plain fl /\ fdata fl = nth i files [])
  /\ (forall n, ~ In n fnm -> file_of f n <> None -> exists i, i < length files /\ n = rname c i).

(* numbersdirect_stream carries over: with foreign files in the directory the family files still hold, in their order,
   exactly the bytes written *)
Theorem numbersdirect_stream_foreign c crit t0 off foreign ops :
  numdcfg c crit -> Forall basic_op ops ->
  NoDup (List.map fst foreign) ->
  (forall n, In n (List.map fst foreign) -> numd_member c n = false) ->
  exists files,
    direct_view_family c (List.map fst foreign)
      (wfs (s_w (fst (run (sys0f t0 off foreign) (OStart c :: ops ++ [OStop]))))) files
    /\ concat files = written ops.
Proof.
  intros Hcfg Hb ND Hfor.
  destruct (numbersdirect_foreign_ignored c crit t0 off foreign ops Hcfg Hb ND Hfor) as [_ [_ [_ [H3 _]]]].
  destruct (numbersdirect_stream c crit t0 off ops Hcfg Hb) as [files [[Hcl Hon] Hc]].
  exists files. split; [|exact Hc].
  set (ff := wfs (s_w (fst (run (sys0f t0 off foreign) (OStart c :: ops ++ [OStop]))))) in *.
  set (f0 := wfs (s_w (fst (run (sys0 t0 off) (OStart c :: ops ++ [OStop]))))) in *.
  assert (Hrn : forall i, ~ In (rname c i) (List.map fst foreign)).
  { intros i Hi. apply Hfor in Hi. rewrite memberd_rname in Hi. discriminate. }
  split.
  - intros i Hi. destruct (Hcl i Hi) as [j [Lj [Pj Cj]]]. exists (inode f0 j).
    split; [rewrite (H3 _ (Hrn i)); unfold file_of; rewrite Lj; reflexivity|]. split; [exact Pj | exact Cj].
  - intros n Hn Hex. rewrite (H3 n Hn) in Hex. unfold file_of in Hex.
    destruct (lookup f0 n) as [j|] eqn:Lj; [|congruence]. exact (Hon n j Lj).
Qed.
Print Assumptions numbersdirect_stream_foreign.

(* ------------------------------------------------------------------ which names are foreign *)
(* a member has the shape  <fixed>_ r <one or more digits> <rest>  (the rest: restart part, suffix, ".gz") *)
Theorem numd_member_shape c n : numd_member c n = true ->
  exists ds y, ds <> [] /\ all_digits ds = true /\ n = under (fixed0 c) ++ r_char :: ds ++ y.
Proof.
  unfold numd_member. intros H. apply orb_true_iff in H. destruct H as [H|H]; eapply qf_num_shape; exact H.
Qed.

Corollary foreign_no_prefix_d c n : is_prefix (fixed0 c) n = false -> numd_member c n = false.
Proof.
  intros Hp. destruct (numd_member c n) eqn:E; [|reflexivity]. exfalso.
  apply numd_member_shape in E. destruct E as [ds [y [_ [_ ->]]]].
  rewrite is_prefix_under in Hp. discriminate.
Qed.

(* ------------------------------------------------------------------ examples *)
Import String.StringSyntax.
Open Scope string_scope.
Definition exdf_c : config :=
  {| c_spec := {| fbase := bs "a"; fdisc := None; fts := false; fsfx := Some (bs "log") |};
     c_append := true; c_cap := Some 3%nat; c_rot := Some (CSize 3, NNumbersDirect, KNever); c_utc := false;
     c_symlink := false; c_bg := false; c_async := false; c_start := None |}.

(* the near misses of NumForeign.ex_foreign (among them the names that the number filter accepted before its repair: a
   letter or a word behind the number, a time-stamp infix), and the rCURRENT file *)
Definition exdf_foreign : list (bytes * bytes) :=
  [ (bs "a_r00001.log.bak", bs "w"); (bs "a_rx.log", bs "x"); (bs "b.log", bs "y"); (bs "a_r00001.txt", bs "z");
    (bs "ax_r00001.log", bs "v"); (bs "a_r00001", bs "t"); (bs "a_rCURRENT.log.gz", bs "s");
    (bs "a.log", bs "q"); (bs "a_rCURRENT.log", bs "p");
    (bs "a_r1x.log", bs "1"); (bs "a_r1backup.log", bs "2"); (bs "a_r00001x.log", bs "3");
    (bs "a_r2024-02-29_23-59-58.log", bs "4"); (bs "a_r7x.log", bs "5") ].

Example foreign_hypotheses_d :
  numdcfg exdf_c (CSize 3) /\ Forall basic_op ex_ops /\ NoDup (List.map fst exdf_foreign)
  /\ (forall n, In n (List.map fst exdf_foreign) -> numd_member exdf_c n = false).
Proof.
  split; [repeat split|]. split; [repeat constructor|]. split.
  - repeat (constructor; [vm_compute; intuition discriminate|]). constructor.
  - intros n Hn. cbn [List.map fst exdf_foreign In] in Hn.
    repeat (destruct Hn as [<-|Hn]; [vm_compute; reflexivity|]). destruct Hn.
Qed.

(* the theorem applied *)
Example foreign_instance_d :
  List.map (strip_obs (List.map fst exdf_foreign)) (snd (run (sys0f 0 0 exdf_foreign) (OStart exdf_c :: ex_ops ++ [OStop])))
  = snd (run (sys0 0 0) (OStart exdf_c :: ex_ops ++ [OStop])).
Proof.
  destruct foreign_hypotheses_d as [H1 [H2 [H3 H4]]].
  exact (proj1 (numbersdirect_foreign_ignored exdf_c (CSize 3) 0 0 exdf_foreign ex_ops H1 H2 H3 H4)).
Qed.

(* ... and computed: the directory after the run *)
Example foreign_instance_dir_d :
  ex_snap (fst (run (sys0f 0 0 exdf_foreign) (OStart exdf_c :: ex_ops ++ [OStop])))
  = [ (bs "a.log", 0%N, bs "q");
      (bs "a_r00000.log", 0%N, bs "abcd");
      (bs "a_r00001", 0%N, bs "t");
      (bs "a_r00001.log", 0%N, bs "ef");
      (bs "a_r00001.log.bak", 0%N, bs "w");
      (bs "a_r00001.txt", 0%N, bs "z");
      (bs "a_r00001x.log", 0%N, bs "3");
      (bs "a_r00002.log", 0%N, bs "ghij");
      (bs "a_r00003.log", 0%N, bs "k");
      (bs "a_r1backup.log", 0%N, bs "2");
      (bs "a_r1x.log", 0%N, bs "1");
      (bs "a_r2024-02-29_23-59-58.log", 0%N, bs "4");
      (bs "a_r7x.log", 0%N, bs "5");
      (bs "a_rCURRENT.log", 0%N, bs "p");
      (bs "a_rCURRENT.log.gz", 0%N, bs "s");
      (bs "a_rx.log", 0%N, bs "x");
      (bs "ax_r00001.log", 0%N, bs "v");
      (bs "b.log", 0%N, bs "y") ]
  /\ ex_snap (fst (run (sys0 0 0) (OStart exdf_c :: ex_ops ++ [OStop])))
  = [ (bs "a_r00000.log", 0%N, bs "abcd"); (bs "a_r00001.log", 0%N, bs "ef"); (bs "a_r00002.log", 0%N, bs "ghij");
      (bs "a_r00003.log", 0%N, bs "k") ].
Proof. vm_compute. split; reflexivity. Qed.

(* BEFORE THE REPAIR of the number filter the family test was wider than "r and a number" here, too: "a_r7x.log" was
   accepted by the number filter (the former counterexample near_miss_is_member_d); it could not be read as a number and
   counted as index 0: a writer that found it started with r00001.
   NOW such a name is foreign: numd_member rejects it, the run with the file in the directory starts with r00000 as the run
   in the empty directory does, the file stays what it was. *)
Example near_miss_not_member_d :
  numd_member exdf_c (bs "a_r7x.log") = false
  /\ numd_member exdf_c (bs "a_r1x.log") = false
  /\ numd_member exdf_c (bs "a_r1backup.log") = false
  /\ numd_member exdf_c (bs "a_r00001x.log") = false
  /\ numd_member exdf_c (bs "a_r2024-02-29_23-59-58.log") = false
  /\ ex_snap (fst (run (sys0f 0 0 [(bs "a_r7x.log", bs "w")]) (OStart exdf_c :: ex_ops ++ [OStop])))
     = [ (bs "a_r00000.log", 0%N, bs "abcd"); (bs "a_r00001.log", 0%N, bs "ef"); (bs "a_r00002.log", 0%N, bs "ghij");
         (bs "a_r00003.log", 0%N, bs "k"); (bs "a_r7x.log", 0%N, bs "w") ]
  /\ List.map (strip_obs [bs "a_r7x.log"]) (snd (run (sys0f 0 0 [(bs "a_r7x.log", bs "w")]) (OStart exdf_c :: ex_ops ++ [OStop])))
     = snd (run (sys0 0 0) (OStart exdf_c :: ex_ops ++ [OStop])).
Proof. vm_compute. repeat split; reflexivity. Qed.

(* still "not foreign although this writer did not write it", legitimately: names that follow the pattern - a number of
   any length ("a_r7.log": one digit, which the old filter rejected for being shorter than three bytes).  It counts as
   index 7; the writer (with append) looks for a_r00007.log, does not find it and goes on with r00008. *)
Example short_number_is_member_d :
  numd_member exdf_c (bs "a_r7.log") = true
  /\ numd_member exdf_c (bs "a_r7.log.gz") = true
  /\ ex_snap (fst (run (sys0f 0 0 [(bs "a_r7.log", bs "w")]) (OStart exdf_c :: ex_ops ++ [OStop])))
     = [ (bs "a_r00008.log", 0%N, bs "abcd"); (bs "a_r00009.log", 0%N, bs "ef"); (bs "a_r00010.log", 0%N, bs "ghij");
         (bs "a_r00011.log", 0%N, bs "k"); (bs "a_r7.log", 0%N, bs "w") ].
Proof. vm_compute. repeat split; reflexivity. Qed.

(* the stream theorem applied: the family files hold the bytes written *)
Example stream_instance_d :
  exists files,
    direct_view_family exdf_c (List.map fst exdf_foreign)
      (wfs (s_w (fst (run (sys0f 0 0 exdf_foreign) (OStart exdf_c :: ex_ops ++ [OStop]))))) files
    /\ concat files = bs "abcdefghijk".
Proof.
  destruct foreign_hypotheses_d as [H1 [H2 [H3 H4]]].
  exact (numbersdirect_stream_foreign exdf_c (CSize 3) 0 0 exdf_foreign ex_ops H1 H2 H3 H4).
Qed.
