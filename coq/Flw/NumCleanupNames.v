(* Numbers naming with cleanup, part 1: the names r<i> and r<i>.gz and what the directory listing of the cleanup
   (list_log_gz with the number filter) returns on a directory that holds rCURRENT, the plain files r<i> for
   mid <= i < L and the archives r<i>.gz for lo <= i < mid:  NEWEST FIRST the plain files by descending index, then
   the archives by descending index.
   Hypotheses found necessary:
   - the suffix of the family is not "gz" and does not end with ".gz" (sfx_ok; otherwise plain files are taken for
     archives, see the examples at the end of NumCleanupRun.v);
   There is no bound on the indices: the sort key of the listing reads the number behind the last "_r" of the name (with an
   empty fixed name part: behind the leading "r") and compares it numerically. *)
Require Import FL.Base.Bytes FL.Base.BytesFacts FL.Base.PathName FL.Fs.Fs FL.Fs.FsFacts FL.Time.Civil FL.Time.TsFormat
  FL.Names.FileSpec FL.Names.NamesFacts FL.Names.SortFacts FL.Names.FamilyFacts FL.Flw.Model FL.Flw.ModelFacts FL.Flw.NumFs
  FL.Flw.NumInv FL.Flw.Run FL.Flw.NumRun FL.Flw.NumListing FL.Flw.CleanupFacts.
From Coq Require Import ZifyN ZifyNat ZifyBool Permutation Sorted.
Open Scope nat_scope.

(* ------------------------------------------------------------------ the hypothesis on the suffix *)
Definition sfx_ok (sp : file_spec) : Prop :=
  match fsfx sp with Some s => strip_suffix (dot :: gz_sfx) (dot :: s) = None | None => True end.

Definition gname (c : config) (i : nat) : bytes := gz_name (rname c i).

Lemma rname_as_name c i : rname c i = as_name (c_spec c) (fixed0 c) (Some (number_infix (N.of_nat i))).
Proof. reflexivity. Qed.

Lemma number_infix_no_gz i : strip_suffix (dot :: gz_sfx) (number_infix i) = None.
Proof.
  rewrite number_infix_digs. change (r_char :: digs i) with ([r_char] ++ digs i). apply sk_gz_digits.
  - destruct (digs_cons i) as (a & b & r & E & _). rewrite E. discriminate.
  - apply digs_all.
Qed.

Lemma rname_no_gz c i : sfx_ok (c_spec c) -> strip_suffix (dot :: gz_sfx) (rname c i) = None.
Proof.
  intros H. rewrite rname_as_name. apply as_name_gz_parts; [apply number_infix_nonempty|].
  unfold sfx_ok in H. destruct (fsfx (c_spec c)); [exact H | apply number_infix_no_gz].
Qed.

Lemma ext_is_gz_suffix n : ext_is n gz_sfx = true -> exists st, n = st ++ dot_gz.
Proof.
  intros H. apply ext_is_iff in H. pose proof (split_at_last_dot_spec n) as S. rewrite H in S.
  exists (file_stem n). exact S.
Qed.

Lemma rname_not_gz c i : sfx_ok (c_spec c) -> ext_is (rname c i) gz_sfx = false.
Proof.
  intros H. destruct (ext_is (rname c i) gz_sfx) eqn:E; [exfalso | reflexivity].
  apply ext_is_gz_suffix in E. destruct E as [st E]. pose proof (rname_no_gz c i H) as X.
  rewrite E in X. unfold dot_gz in X. rewrite strip_suffix_app in X. discriminate.
Qed.

Lemma rname_nonempty c i : rname c i <> [].
Proof. rewrite rname_shape. destruct (under (fixed0 c)); discriminate. Qed.

Lemma gname_app c i : gname c i = rname c i ++ dot_gz.
Proof. apply gz_name_app. Qed.
Lemma gname_is_gz c i : ext_is (gname c i) gz_sfx = true.
Proof. apply ext_is_gz_name, rname_nonempty. Qed.
Lemma gname_strip c i : set_extension (gname c i) [] = rname c i.
Proof. apply strip_gz_name, rname_nonempty. Qed.
Lemma gname_inj c i j : gname c i = gname c j -> i = j.
Proof. intros H. apply gz_name_inj, rname_inj in H. exact H. Qed.
Lemma gname_not_rname c i j : sfx_ok (c_spec c) -> gname c i <> rname c j.
Proof. intros H E. pose proof (gname_is_gz c i) as G. rewrite E, rname_not_gz in G by exact H. discriminate. Qed.

Lemma gname_not_cname c i : gname c i <> cname c.
Proof.
  rewrite gname_app, rname_shape, cname_shape, <- !app_assoc. intros H. apply app_inv_head in H.
  symmetry in H. destruct (digs_cons (N.of_nat i)) as (a & b & r & E & Ha). rewrite E in H. unfold cur_infix in H. cbn [app] in H.
  injection H as H _. subst a. discriminate.
Qed.

(* ------------------------------------------------------------------ the family test *)
Lemma qf_rname_gz off c i : sfx_ok (c_spec c) ->
  qf off (fsfx (c_spec c)) (fixed0 c) IFNum (Some gz_sfx) (rname c i) = false.
Proof.
  intros H. unfold qf, infix_candidate. rewrite (rname_no_gz c i H). reflexivity.
Qed.

Lemma sfx_ok_not_gz sp s : sfx_ok sp -> fsfx sp = Some s -> beq s gz_sfx = false.
Proof.
  unfold sfx_ok. intros H E. rewrite E in H. apply beq_neq. intros ->.
  change (dot :: gz_sfx) with ([] ++ dot :: gz_sfx) in H at 2. rewrite strip_suffix_app in H. discriminate.
Qed.

Lemma qf_gname_gz off c i : sfx_ok (c_spec c) ->
  qf off (fsfx (c_spec c)) (fixed0 c) IFNum (Some gz_sfx) (gname c i) = true.
Proof.
  intros H. unfold qf, infix_candidate. rewrite gname_app. unfold dot_gz. rewrite strip_suffix_app.
  assert (E : (match fsfx (c_spec c) with
               | Some s => if beq gz_sfx [103%N; 122%N] && negb (beq s [103%N; 122%N]) then strip_suffix (dot :: s) (rname c i) else Some (rname c i)
               | None => Some (rname c i) end) = Some (under (fixed0 c) ++ r_char :: digs (N.of_nat i))).
  { rewrite rname_shape. unfold sfxs. destruct (fsfx (c_spec c)) as [s|] eqn:Es.
    - change [103%N; 122%N] with gz_sfx. rewrite (sfx_ok_not_gz _ s H Es). cbn [beq gz_sfx N.eqb Pos.eqb andb negb].
      rewrite app_assoc. apply strip_suffix_app.
    - rewrite app_nil_r. reflexivity. }
  rewrite E. clear E.
  assert (Hd : ~ In dot (r_char :: digs (N.of_nat i))) by (rewrite <- number_infix_digs; apply number_infix_no_dot).
  assert (E : cand_core (fixed0 c) (under (fixed0 c) ++ r_char :: digs (N.of_nat i)) = Some (r_char :: digs (N.of_nat i))).
  { apply cand_core_spec. exists []. split; [left; reflexivity|]. split; [exact Hd|]. rewrite app_nil_r. split; [discriminate | reflexivity]. }
  unfold cand_core in E. rewrite E. rewrite <- number_infix_digs. apply filter_num_infix.
Qed.

(* an archive is not listed among the plain files *)
Lemma first_dot_unique (a b x y : bytes) : ~ In dot a -> ~ In dot b -> a ++ dot :: x = b ++ dot :: y -> a = b /\ x = y.
Proof.
  revert b. induction a as [|p a IH]; intros [|q b] Ha Hb H; cbn [app] in H.
  - injection H as ->. auto.
  - injection H as <- _. exfalso. apply Hb. left; reflexivity.
  - injection H as -> _. exfalso. apply Ha. left; reflexivity.
  - injection H as -> H. destruct (IH b) as [-> ->]; auto.
    + intros X. apply Ha. right; exact X.
    + intros X. apply Hb. right; exact X.
Qed.

Lemma strip_sfx_gz_none (s Y : bytes) : strip_suffix (dot :: gz_sfx) (dot :: s) = None ->
  strip_suffix (dot :: s) (Y ++ (dot :: s) ++ dot :: gz_sfx) = None.
Proof.
  rewrite !strip_suffix_none_iff. rewrite !rev_app_distr. cbn [rev gz_sfx app]. rewrite <- !app_assoc.
  destruct (rev s) as [|p [|q [|e t]]]; cbn [app is_prefix]; intros H.
  - reflexivity.
  - destruct (p =? 122)%N; cbn [andb]; reflexivity.
  - rewrite (N.eqb_sym p), (N.eqb_sym q). exact H.
  - rewrite (N.eqb_sym p), (N.eqb_sym q), (N.eqb_sym e).
    destruct (122 =? p)%N; cbn [andb] in *; [|reflexivity].
    destruct (103 =? q)%N; cbn [andb] in *; [|reflexivity]. rewrite andb_true_r in H. rewrite H. reflexivity.
Qed.

Lemma qf_gname_plain off c i : sfx_ok (c_spec c) ->
  qf off (fsfx (c_spec c)) (fixed0 c) IFNum (fsfx (c_spec c)) (gname c i) = false.
Proof.
  intros H. unfold qf. rewrite infix_candidate_plain, gname_app, rname_shape. unfold sfxs, sfx_ok in *.
  destruct (fsfx (c_spec c)) as [s|].
  - unfold dot_gz. rewrite <- !app_assoc, (app_assoc (under (fixed0 c))).
    change (dot :: s ++ dot :: gz_sfx) with ((dot :: s) ++ dot :: gz_sfx).
    rewrite (strip_sfx_gz_none s _ H). reflexivity.
  - rewrite app_nil_r.
    destruct (cand_core (fixed0 c) ((under (fixed0 c) ++ r_char :: digs (N.of_nat i)) ++ dot_gz)) as [infix|] eqn:E; [exfalso | reflexivity].
    apply cand_core_spec in E. destruct E as (rs & Hrs & Hnd & _ & E).
    rewrite <- app_assoc in E. apply app_inv_head in E.
    assert (Hd : ~ In dot (r_char :: digs (N.of_nat i))) by (rewrite <- number_infix_digs; apply number_infix_no_dot).
    destruct Hrs as [->|(d & -> & _ & _)].
    + rewrite app_nil_r in E. apply Hnd. rewrite <- E. apply in_or_app. right. left. reflexivity.
    + unfold dot_gz in E. apply first_dot_unique in E; [|exact Hd | exact Hnd]. destruct E as [_ E]. discriminate E.
Qed.

(* ------------------------------------------------------------------ the sort key *)
Lemma find_sub_prefix pat : forall s ix, find_sub pat s = Some ix -> is_prefix pat (skipn ix s) = true.
Proof.
  induction s as [|x s IH]; intros ix H; cbn [find_sub] in H.
  - destruct (is_prefix pat []) eqn:E; [injection H as <-; exact E | discriminate].
  - destruct (is_prefix pat (x :: s)) eqn:E; [injection H as <-; exact E|].
    destruct (find_sub pat s) as [j|] eqn:Ej; [|discriminate]. injection H as <-. cbn [skipn]. apply IH. reflexivity.
Qed.

Lemma last_nondigit_unique (u v a b : bytes) (x y : N) :
  all_digits a = true -> all_digits b = true -> is_digit x = false -> is_digit y = false ->
  u ++ x :: a = v ++ y :: b -> x = y.
Proof.
  intros Ha Hb Hx Hy. revert v. induction u as [|p u IH]; intros [|q v] H; cbn [app] in H.
  - injection H as H _. exact H.
  - injection H as _ H. exfalso. assert (I : In y a) by (rewrite H; apply in_or_app; right; left; reflexivity).
    rewrite (all_digits_in _ _ Ha I) in Hy. discriminate.
  - injection H as _ H. exfalso. assert (I : In x b) by (rewrite <- H; apply in_or_app; right; left; reflexivity).
    rewrite (all_digits_in _ _ Hb I) in Hx. discriminate.
  - injection H as _ H. apply (IH v H).
Qed.

Lemma stem_key_number (F : bytes) i : stem_key (F ++ r_char :: digs i) = (F ++ r_char :: digs i, None).
Proof. apply (stem_key_tail _ F r_char (digs i)); [reflexivity | apply digs_all | reflexivity | discriminate]. Qed.

Definition number_stem (c : config) (i : nat) : bytes := under (fixed0 c) ++ r_char :: digs (N.of_nat i).

Lemma rname_with_suffix c i : rname c i = with_suffix (c_spec c) (number_stem c i).
Proof. unfold rname, nm. rewrite FamilyFacts.as_name_some by apply number_infix_nonempty. reflexivity. Qed.

(* the key of a number name: no restart counter; the main part and the number as main_key splits them *)
Lemma sort_key_number c i (g : bool) : sfx_ok (c_spec c) ->
  sort_key (fsfx (c_spec c)) (add_gz g (rname c i)) = plain_key (number_stem c i).
Proof.
  intros H. rewrite sort_key_stem, rname_with_suffix, sk_stem_with_suffix.
  - unfold full_key, plain_key, number_stem. rewrite stem_key_number. reflexivity.
  - rewrite <- rname_with_suffix. apply rname_no_gz. exact H.
Qed.

(* the part up to the "r" of the infix, and the number without leading zeros *)
Definition number_key (i : nat) : option (nat * bytes) :=
  Some (length (drop_zeros (digs (N.of_nat i))), drop_zeros (digs (N.of_nat i))).

Lemma digs_nonempty i : digs i <> [].
Proof. destruct (digs_cons i) as (a & b & r & E & _). rewrite E. discriminate. Qed.

Lemma main_key_number_stem c i : main_key (number_stem c i) = (under (fixed0 c) ++ [r_char], number_key i).
Proof. unfold number_stem, number_key. apply main_key_number_under; [apply digs_nonempty | apply digs_all]. Qed.

Lemma add_gz_gname c i : add_gz true (rname c i) = gname c i.
Proof. rewrite gname_app. reflexivity. Qed.

(* five digits below 100000 *)
Lemma digs_len5 i : (i < 100000)%N -> length (digs i) = 5.
Proof.
  intros H. unfold digs, pad_left. rewrite app_length, repeat_length.
  pose proof (dec_length_mono i 99999 ltac:(lia)) as M. change (length (dec 99999)) with 5 in M. lia.
Qed.

Lemma lex_lt_app_head p : forall x y, lex_lt (p ++ x) (p ++ y) = lex_lt x y.
Proof.
  induction p as [|a p IH]; intros x y; cbn [app lex_lt]; [reflexivity|].
  rewrite N.ltb_irrefl, N.eqb_refl, IH. reflexivity.
Qed.

Lemma number_stem_lt c i j : i < j -> (N.of_nat j < 100000)%N ->
  lex_le (number_stem c i) (number_stem c j) = true /\ beq (number_stem c i) (number_stem c j) = false.
Proof.
  intros Hij Hj. unfold number_stem, lex_le.
  change (r_char :: digs (N.of_nat j)) with ([r_char] ++ digs (N.of_nat j)).
  change (r_char :: digs (N.of_nat i)) with ([r_char] ++ digs (N.of_nat i)).
  rewrite !app_assoc, lex_lt_app_head.
  rewrite lex_lt_value; [| apply digs_all | apply digs_all | rewrite !digs_len5 by lia; reflexivity].
  rewrite !digs_value. split; [lia|]. apply beq_neq. intros E. apply app_inv_head in E.
  apply (f_equal dec_value) in E. rewrite !digs_value in E. lia.
Qed.

(* names of the family (plain or archive, mixed) are ordered by their index: by the NUMBER, no bound on the index *)
Lemma key_le_number_any c i j (g1 g2 : bool) : sfx_ok (c_spec c) -> i < j ->
  key_le (fsfx (c_spec c)) (add_gz g1 (rname c i)) (add_gz g2 (rname c j)) = true.
Proof.
  intros H Hij. pose proof (sort_key_number c i g1 H) as Ei. pose proof (sort_key_number c j g2 H) as Ej.
  unfold plain_key in Ei, Ej. rewrite (main_key_number_stem c i) in Ei. rewrite (main_key_number_stem c j) in Ej.
  cbn [fst snd] in Ei, Ej.
  destruct (rkey_digits_lt (drop_zeros (digs (N.of_nat i))) (drop_zeros (digs (N.of_nat j)))) as [L12 [_ Q]];
    try (apply drop_zeros_all_digits, digs_all); try (intros r; apply drop_zeros_head);
    [rewrite !drop_zeros_value, !digs_value; lia|].
  rewrite (key_le_by_nkey _ _ _ _ _ _ _ _ Ei Ej Q). exact L12.
Qed.

Lemma key_le_number c i j (g1 g2 : bool) : sfx_ok (c_spec c) -> i < j -> (N.of_nat j < 100000)%N ->
  key_le (fsfx (c_spec c)) (add_gz g1 (rname c i)) (add_gz g2 (rname c j)) = true.
Proof. intros H Hij _. apply key_le_number_any; [exact H | exact Hij]. Qed.

(* ------------------------------------------------------------------ lists *)
Lemma filter_rev' {A} (p : A -> bool) l : filter p (rev l) = rev (filter p l).
Proof.
  induction l as [|x l IH]; cbn [rev filter]; [reflexivity|]. rewrite filter_app, IH. cbn [filter].
  destruct (p x); cbn [rev]; [reflexivity | rewrite app_nil_r; reflexivity].
Qed.

Lemma StronglySorted_filter {A} (R : A -> A -> Prop) (p : A -> bool) l : StronglySorted R l -> StronglySorted R (filter p l).
Proof.
  induction 1 as [|x l Hs IH Hx]; cbn [filter]; [constructor|]. destruct (p x); [|exact IH].
  constructor; [exact IH|]. rewrite Forall_forall in *. intros y Hy. apply filter_In in Hy. apply Hx, Hy.
Qed.

Lemma sorted_unique {A} (R : A -> A -> Prop) : (forall x y, R x y -> R y x -> x = y) ->
  forall l1 l2, StronglySorted R l1 -> StronglySorted R l2 -> NoDup l1 -> NoDup l2 ->
  (forall x, In x l1 <-> In x l2) -> l1 = l2.
Proof.
  intros Anti. induction l1 as [|x l1 IH]; intros [|y l2] S1 S2 N1 N2 E.
  - reflexivity.
  - exfalso. apply (proj2 (E y)). left; reflexivity.
  - exfalso. apply (proj1 (E x)). left; reflexivity.
  - inversion S1 as [|? ? S1' F1]; subst. inversion S2 as [|? ? S2' F2]; subst.
    inversion N1 as [|? ? Nx N1']; subst. inversion N2 as [|? ? Ny N2']; subst.
    rewrite Forall_forall in F1, F2.
    assert (Exy : x = y).
    { destruct (proj1 (E x) (or_introl eq_refl)) as [->|Hx]; [reflexivity|].
      destruct (proj2 (E y) (or_introl eq_refl)) as [->|Hy]; [reflexivity|].
      apply Anti; [apply F1, Hy | apply F2, Hx]. }
    subst y. f_equal. apply IH; auto. intros z. split; intros Hz.
    + destruct (proj1 (E z) (or_intror Hz)) as [->|H]; [contradiction | exact H].
    + destruct (proj2 (E z) (or_intror Hz)) as [->|H]; [contradiction | exact H].
Qed.

Lemma StronglySorted_map_seq {A} (R : A -> A -> Prop) (g : nat -> A) : forall cnt a,
  (forall i j, a <= i -> i < j -> j < a + cnt -> R (g i) (g j)) -> StronglySorted R (map g (seq a cnt)).
Proof.
  induction cnt as [|cnt IH]; intros a H; cbn [seq map]; [constructor|]. constructor.
  - apply IH. intros i j Hi Hij Hj. apply H; lia.
  - rewrite Forall_forall. intros y Hy. apply in_map_iff in Hy. destruct Hy as (j & <- & Hj). apply in_seq in Hj.
    apply H; lia.
Qed.

Lemma nth_error_rev_map_seq {A} (g : nat -> A) : forall cnt a k,
  nth_error (rev (map g (seq a cnt))) k = if k <? cnt then Some (g (a + cnt - 1 - k)) else None.
Proof.
  induction cnt as [|cnt IH]; intros a k.
  - destruct k; reflexivity.
  - rewrite seq_S, map_app, rev_app_distr. cbn [map rev app]. destruct k as [|k]; cbn [nth_error].
    + change (0 <? S cnt) with true. cbv iota. f_equal. f_equal. lia.
    + rewrite IH. change (S k <? S cnt) with (k <? cnt). destruct (k <? cnt); [|reflexivity]. f_equal. f_equal. lia.
Qed.

Lemma existsb_false_notin (x : bytes) l : ~ In x l -> existsb (beq x) l = false.
Proof.
  intros H. destruct (existsb (beq x) l) eqn:E; [|reflexivity]. exfalso. apply existsb_exists in E.
  destruct E as (y & Hy & B). apply beq_eq in B. subst y. exact (H Hy).
Qed.

(* ------------------------------------------------------------------ 1. THE LISTING *)
(* the closed files of a directory: plain for mid <= i < L, archives for lo <= i < mid, nothing else but rCURRENT *)
Record dir_shape (c : config) (f : fs) (lo mid L : nat) : Prop := {
  ds_le : lo <= mid <= L;
  ds_nodup : NoDup (dir_names f);
  ds_plain : forall i, mid <= i < L -> exists j, lookup f (rname c i) = Some j /\ fdir (inode f j) = false;
  ds_arch : forall i, lo <= i < mid -> exists j, lookup f (gname c i) = Some j /\ fdir (inode f j) = false;
  ds_only : forall n j, lookup f n = Some j ->
      n = cname c \/ (exists i, mid <= i < L /\ n = rname c i) \/ (exists i, lo <= i < mid /\ n = gname c i) }.

Definition listing (c : config) (lo mid L : nat) : list bytes :=
  rev (map (rname c) (seq mid (L - mid))) ++ rev (map (gname c) (seq lo (mid - lo))).

Section Listing.
Variables (c : config) (f : fs) (off : Z) (lo mid L : nat).
Hypothesis Hsfx : sfx_ok (c_spec c).
Hypothesis DS : dir_shape c f lo mid L.

Let sfx := fsfx (c_spec c).
Let S := sort_by_key sfx (filter (fun n => is_reg_file f n && is_prefix (fixed0 c) n) (dir_names f)).

Lemma S_sorted : StronglySorted (key_rel sfx) S.
Proof. apply sort_by_key_strongly_sorted. Qed.
Lemma S_nodup : NoDup S.
Proof. eapply Permutation_NoDup; [apply Permutation_sym, sort_by_key_perm|]. apply NoDup_filter, DS. Qed.
Lemma S_in n : In n S <-> (exists j, lookup f n = Some j) /\ is_reg_file f n = true /\ is_prefix (fixed0 c) n = true.
Proof. unfold S. rewrite In_sort_by_key, filter_In, andb_true_iff, dir_names_lookup. tauto. Qed.

Lemma plain_part :
  filter (qf off sfx (fixed0 c) IFNum sfx) S = map (rname c) (seq mid (L - mid)).
Proof.
  apply (sorted_unique (key_rel sfx)).
  - intros x y. apply key_le_antisym.
  - apply StronglySorted_filter, S_sorted.
  - apply StronglySorted_map_seq. intros i j Hi Hij Hj. unfold key_rel, sfx.
    apply (key_le_number_any c i j false false Hsfx Hij).
  - apply NoDup_filter, S_nodup.
  - apply FinFun.Injective_map_NoDup; [intros i j E; exact (rname_inj _ _ _ E) | apply seq_NoDup].
  - intros x. rewrite filter_In, S_in, in_map_iff. split.
    + intros [[[j Lj] _] Q]. destruct (ds_only _ _ _ _ _ DS x j Lj) as [->|[(i & Hi & ->)|(i & Hi & ->)]].
      * unfold sfx in Q. rewrite qf_cname in Q. discriminate.
      * exists i. split; [reflexivity | apply in_seq; lia].
      * unfold sfx in Q. rewrite qf_gname_plain in Q by exact Hsfx. discriminate.
    + intros (i & <- & Hi). apply in_seq in Hi. destruct (ds_plain _ _ _ _ _ DS i ltac:(lia)) as (j & Lj & Dj).
      split; [split; [eauto | split]|].
      * unfold is_reg_file, file_of. rewrite Lj, Dj. reflexivity.
      * rewrite rname_shape. apply is_prefix_under.
      * apply qf_rname.
Qed.

Lemma arch_part :
  filter (qf off sfx (fixed0 c) IFNum (Some gz_sfx)) S = map (gname c) (seq lo (mid - lo)).
Proof.
  apply (sorted_unique (key_rel sfx)).
  - intros x y. apply key_le_antisym.
  - apply StronglySorted_filter, S_sorted.
  - apply StronglySorted_map_seq. intros i j Hi Hij Hj. unfold key_rel, sfx. rewrite <- !add_gz_gname.
    apply (key_le_number_any c i j true true Hsfx Hij).
  - apply NoDup_filter, S_nodup.
  - apply FinFun.Injective_map_NoDup; [intros i j E; exact (gname_inj _ _ _ E) | apply seq_NoDup].
  - intros x. rewrite filter_In, S_in, in_map_iff. split.
    + intros [[[j Lj] _] Q]. destruct (ds_only _ _ _ _ _ DS x j Lj) as [->|[(i & Hi & ->)|(i & Hi & ->)]].
      * unfold sfx in Q. rewrite qf_cname in Q. discriminate.
      * unfold sfx in Q. rewrite qf_rname_gz in Q by exact Hsfx. discriminate.
      * exists i. split; [reflexivity | apply in_seq; lia].
    + intros (i & <- & Hi). apply in_seq in Hi. destruct (ds_arch _ _ _ _ _ DS i ltac:(lia)) as (j & Lj & Dj).
      split; [split; [eauto | split]|].
      * unfold is_reg_file, file_of. rewrite Lj, Dj. reflexivity.
      * rewrite gname_app, rname_shape, <- app_assoc. apply is_prefix_under.
      * apply qf_gname_gz. exact Hsfx.
Qed.

(* newest first: the plain files by descending index, then the archives by descending index *)
Theorem list_log_gz_numbers :
  list_log_gz off (c_spec c) (fixed0 c) f IFNum = Some (listing c lo mid L).
Proof.
  unfold list_log_gz, existing_rot, sel_log_gz. cbn [sel_plain sel_gz sel_rcur sel_custom].
  rewrite !filter_files_total. cbn [app_opt]. rewrite !app_nil_r. unfold related_files.
  fold sfx. fold S. rewrite !filter_rev', plain_part, arch_part. reflexivity.
Qed.
End Listing.

(* ------------------------------------------------------------------ positions in the listing *)
Definition entry (c : config) (mid i : nat) : bytes := if mid <=? i then rname c i else gname c i.

Lemma listing_nth c lo mid L k : lo <= mid <= L ->
  nth_error (listing c lo mid L) k = if k <? L - lo then Some (entry c mid (L - 1 - k)) else None.
Proof.
  intros H. unfold listing, entry.
  destruct (Nat.ltb_spec k (L - mid)) as [H1|H1].
  - rewrite nth_error_app1 by (rewrite rev_length, map_length, seq_length; exact H1).
    rewrite nth_error_rev_map_seq. destruct (Nat.ltb_spec k (L - mid)); [|lia]. destruct (Nat.ltb_spec k (L - lo)); [|lia].
    destruct (Nat.leb_spec mid (L - 1 - k)); [|lia]. do 2 f_equal. lia.
  - rewrite nth_error_app2 by (rewrite rev_length, map_length, seq_length; exact H1).
    rewrite rev_length, map_length, seq_length, nth_error_rev_map_seq.
    destruct (Nat.ltb_spec (k - (L - mid)) (mid - lo)), (Nat.ltb_spec k (L - lo)); try lia; [|reflexivity].
    destruct (Nat.leb_spec mid (L - 1 - k)); [lia|]. do 2 f_equal. lia.
Qed.

Lemma listing_in c lo mid L x : lo <= mid <= L ->
  In x (listing c lo mid L) <-> (exists i, mid <= i < L /\ x = rname c i) \/ (exists i, lo <= i < mid /\ x = gname c i).
Proof.
  intros H. unfold listing. rewrite in_app_iff, <- !in_rev, !in_map_iff. split.
  - intros [(i & <- & Hi)|(i & <- & Hi)]; apply in_seq in Hi; [left | right]; exists i; split; auto; lia.
  - intros [(i & Hi & ->)|(i & Hi & ->)]; [left | right]; exists i; split; auto; apply in_seq; lia.
Qed.

Lemma entry_inj c mid i j : sfx_ok (c_spec c) -> entry c mid i = entry c mid j -> i = j.
Proof.
  intros H. unfold entry. destruct (mid <=? i), (mid <=? j); intros E.
  - exact (rname_inj _ _ _ E).
  - symmetry in E. exfalso. exact (gname_not_rname _ _ _ H E).
  - exfalso. exact (gname_not_rname _ _ _ H E).
  - exact (gname_inj _ _ _ E).
Qed.

Lemma listing_nodup c lo mid L : sfx_ok (c_spec c) -> lo <= mid <= L -> NoDup (listing c lo mid L).
Proof.
  intros H Hle. apply NoDup_nth_error. intros i j Hi E.
  assert (Len : length (listing c lo mid L) = L - lo).
  { unfold listing. rewrite app_length, !rev_length, !map_length, !seq_length. lia. }
  rewrite !listing_nth in E by exact Hle. rewrite Len in Hi.
  destruct (Nat.ltb_spec i (L - lo)); [|lia]. destruct (Nat.ltb_spec j (L - lo)); [|discriminate].
  injection E as E. apply entry_inj in E; [lia | exact H].
Qed.

Lemma listing_no_empty c lo mid L : lo <= mid <= L -> ~ In [] (listing c lo mid L).
Proof.
  intros H I. apply listing_in in I; [|exact H]. destruct I as [(i & _ & E)|(i & _ & E)].
  - symmetry in E. exact (rname_nonempty _ _ E).
  - rewrite gname_app in E. symmetry in E. apply app_eq_nil in E. destruct E as [E _]. exact (rname_nonempty _ _ E).
Qed.

(* no archive has its original listed too: remove_redundant has nothing to do *)
Lemma listing_no_redundant c lo mid L : sfx_ok (c_spec c) -> lo <= mid <= L -> redundant_gz (listing c lo mid L) = [].
Proof.
  intros H Hle. unfold redundant_gz. apply filter_all_false. intros x Hx.
  pose proof Hx as Hx'. apply listing_in in Hx'; [|exact Hle]. destruct Hx' as [(i & Hi & ->)|(i & Hi & ->)].
  - rewrite rname_not_gz by exact H. reflexivity.
  - rewrite gname_strip, gname_is_gz. cbn [andb]. apply existsb_false_notin. intros I.
    apply listing_in in I; [|exact Hle]. destruct I as [(j & Hj & E)|(j & Hj & E)].
    + apply rname_inj in E. lia.
    + symmetry in E. exact (gname_not_rname _ _ _ H E).
Qed.

Print Assumptions list_log_gz_numbers.
