(* The time-stamp namings with cleanup: what a READER finds, and the C07 oracles on the final snapshot.
   The reader order of Oracles/ReaderOrder.v (time stamp, then restart counter, rCURRENT last; archives decompressed) applied to
   the snapshot of the directory that the stopped writer leaves gives the surviving files in the order in which they were
   written: family_in_order = the last entries of closed ++ [cur].  So the executable oracles of C07 accept the snapshot:
   oracle_tail (what survives is a contiguous tail of the logged stream), oracle_limits (at most the configured numbers of
   plain rotated files and of archives, no unfinished archive), oracle_current_plain (the newest file is not compressed). *)
Require Import FL.Base.Bytes FL.Base.BytesFacts FL.Base.PathName FL.Fs.Fs FL.Fs.FsFacts FL.Time.Civil FL.Time.TsFormat
  FL.Names.FileSpec FL.Names.NamesFacts FL.Names.SortFacts FL.Names.FamilyFacts FL.Flw.Model FL.Flw.ModelFacts FL.Flw.NumFs
  FL.Flw.NumInv FL.Flw.Run FL.Flw.NumRun FL.Oracles.O_Flw FL.Oracles.ReaderOrder FL.Oracles.O_Stream FL.Flw.NumTheorems FL.Flw.NumListing FL.Flw.NumRestart
  FL.Flw.CleanupFacts FL.Flw.NumCleanupNames FL.Flw.NumCleanupStep FL.Flw.NumCleanupRun FL.Flw.NumCleanup FL.Flw.NumDCleanupStep FL.Flw.NumDCleanupRun
  FL.Flw.TsCal FL.Flw.TsTime FL.Flw.TsMono FL.Flw.TsNames FL.Flw.TsInv FL.Flw.TsRun FL.Flw.TsTheorems FL.Flw.TsReader FL.Flw.TsdTheorems
  FL.Flw.ListingExact FL.Flw.GenCleanup FL.Flw.TsCleanupNames FL.Flw.TsdCleanupRun FL.Flw.TsdCleanup FL.Flw.TsCleanupRun FL.Flw.TsCleanup.
From Coq Require Import ZifyN ZifyNat ZifyBool Sorted Permutation.
Open Scope nat_scope.

(* ------------------------------------------------------------------ sorting is a permutation *)
Lemma insert_key_perm {A} (x : rkey * A) l : Permutation (insert_key x l) (x :: l).
Proof.
  induction l as [|y l IH]; cbn [insert_key]; [apply Permutation_refl|]. destruct (key_lt (fst y) (fst x)); [|apply Permutation_refl].
  eapply Permutation_trans; [apply perm_skip, IH | apply perm_swap].
Qed.
Lemma sort_keys_perm {A} (l : list (rkey * A)) : Permutation (sort_keys l) l.
Proof.
  induction l as [|x l IH]; [apply Permutation_refl|]. change (sort_keys (x :: l)) with (insert_key x (sort_keys l)).
  eapply Permutation_trans; [apply insert_key_perm | apply perm_skip, IH].
Qed.

(* ------------------------------------------------------------------ entries of kind 0 and 1 *)
Lemma family_entries_map' sp fixed cur f : forall ns,
  (forall n, In n ns -> exists kd d i, snap_entry f n = (n, kd, d) /\ (kd <? 2)%N = true /\ full_infix sp fixed n = Some i) ->
  family_entries sp fixed cur (List.map (snap_entry f) ns) = List.map (fun n => (key_of cur (fam sp fixed n), snap_entry f n)) ns.
Proof.
  induction ns as [|n ns IH]; intros H; [reflexivity|]. cbn [List.map family_entries].
  destruct (H n (or_introl eq_refl)) as [kd [d [i [Es [Hk Ef]]]]]. rewrite Es, Hk. unfold fam at 1. rewrite Ef.
  rewrite IH by (intros m Im; apply H; right; exact Im). reflexivity.
Qed.

(* the archive of a family member has the member's infix *)
Lemma full_infix_gz sp fixed n : strip_suffix (dot :: gz_sfx) n = None -> full_infix sp fixed (gz_name n) = full_infix sp fixed n.
Proof.
  intros H. unfold full_infix. rewrite gz_name_app. unfold dot_gz. rewrite FamilyFacts.strip_suffix_app, H. reflexivity.
Qed.

Lemma is_suffix_app (pre s : bytes) : is_suffix s (pre ++ s) = true.
Proof. unfold is_suffix. rewrite rev_app_distr. apply FamilyFacts.is_prefix_app. Qed.

Lemma limits_of_direct k : limits_of k true = klimd k.
Proof. destruct k as [|a|b|a b]; try reflexivity; destruct a; reflexivity. Qed.
Lemma limits_of_plain k : limits_of k false = klim k.
Proof. destruct k; reflexivity. Qed.

Lemma ssorted_snoc {A} (R : A -> A -> Prop) l x : StronglySorted R l -> Forall (fun a => R a x) l -> StronglySorted R (l ++ [x]).
Proof.
  induction 1 as [|a l S1 IH Ha]; intros F; cbn [app]; [constructor; constructor|].
  inversion F as [|? ? Fa Fl]; subst. constructor; [apply IH; exact Fl|]. apply Forall_app. split; [exact Ha | constructor; [exact Fa | constructor]].
Qed.

(* ------------------------------------------------------------------ the snapshot in reader order *)
Section GReader.
Variables (c : config) (e : Z) (f : fs) (keys : list key) (all : list bytes) (lo mid : nat).
(* curo: the content of rCURRENT if the naming has one; curinf: its infix for the reader *)
Variables (curo : option bytes) (curinf : option bytes).
Hypothesis G : sfx_ok (c_spec c).
Hypothesis K : keys_ok keys.
Hypothesis Yk : forall k, In k keys -> in_years e (fst k).
Hypothesis Hlen : length keys = length all.
Hypothesis KD : gdir (tname c e keys) (cname c) f all lo mid.
Hypothesis Hkey : forall k, in_years e (fst k) -> key_of curinf (infix_of e k) = rk e k.
Hypothesis Hcur : match curo with
                  | Some cur => curinf = Some cur_infix /\ exists j, lookup f (cname c) = Some j /\ plain (inode f j) /\ content f j = cur
                  | None => lookup f (cname c) = None
                  end.

Let L := length all.
Let sp := c_spec c.
Let fixed := fixed0 c.
Let nmf := tname c e keys.
Let GN : gnames nmf (cname c) L.
Proof. unfold L. rewrite <- Hlen. apply gnames_ts; assumption. Qed.
Let Yi : forall i, i < L -> in_years e (fst (nth i keys kd)).
Proof. intros i Hi. apply Yk, nth_In. rewrite Hlen. exact Hi. Qed.
Let Hle : lo <= mid <= L. Proof. exact (gd_le _ _ _ _ _ _ KD). Qed.

Definition kkind (i : nat) : N := if mid <=? i then 0%N else 1%N.
Definition kentry (i : nat) : rkey * ReaderOrder.entry := (rk e (nth i keys kd), (gentry nmf mid i, kkind i, nth i all [])).
Definition cur_target : list (rkey * ReaderOrder.entry) := match curo with Some cur => [(rcur, (cname c, 0%N, cur))] | None => [] end.
Definition gtarget : list (rkey * ReaderOrder.entry) := List.map kentry (seq lo (L - lo)) ++ cur_target.

Lemma gtarget_in a : In a gtarget <-> (exists i, lo <= i < L /\ a = kentry i) \/ In a cur_target.
Proof.
  unfold gtarget. rewrite in_app_iff, in_map_iff. split.
  - intros [(i & <- & Hi)|H]; [left; exists i; split; [apply in_seq in Hi; lia | reflexivity] | right; exact H].
  - intros [(i & Hi & ->)|H]; [left; exists i; split; [reflexivity | apply in_seq; lia] | right; exact H].
Qed.

Lemma gtarget_contents :
  contents (List.map snd gtarget) = skipn lo all ++ match curo with Some cur => [cur] | None => [] end.
Proof.
  unfold gtarget, contents. rewrite !map_app, !map_map. f_equal.
  - cbn [kentry snd]. apply (map_seq_skipn (fun i => nth i all []) all [] (L - lo) lo); [unfold L in *; lia | reflexivity].
  - unfold cur_target. destruct curo; reflexivity.
Qed.

Lemma gtarget_sorted : StronglySorted (before ReaderOrder.entry) gtarget.
Proof.
  unfold gtarget.
  assert (S1 : StronglySorted (before ReaderOrder.entry) (List.map kentry (seq lo (L - lo)))).
  { apply StronglySorted_map_seq. intros i j Hi Hij Hj. unfold before, kentry. cbn [fst].
    apply rk_lt; [apply Yi; lia | apply Yi; lia|]. apply (keys_sorted keys K). rewrite Hlen. fold L. lia. }
  unfold cur_target. destruct curo as [cur|]; [|rewrite app_nil_r; exact S1].
  apply ssorted_snoc; [exact S1|]. apply Forall_forall. intros a Ia. apply in_map_iff in Ia. destruct Ia as (i & <- & _).
  unfold before, kentry. cbn [fst]. exact (rk_cur e (nth i keys kd)).
Qed.

Lemma gtarget_names_nodup : NoDup (List.map ename gtarget).
Proof.
  apply sorted_nodup; [exact gtarget_sorted|]. intros a b Ia Ib E.
  apply gtarget_in in Ia. apply gtarget_in in Ib.
  assert (CT : forall x, In x cur_target -> exists cur, curo = Some cur /\ x = (rcur, (cname c, 0%N, cur))).
  { intros x Hx. unfold cur_target in Hx. destruct curo as [cur|]; [|destruct Hx]. destruct Hx as [<-|[]]. eauto. }
  destruct Ia as [(i & Hi & ->)|Ia], Ib as [(j & Hj & ->)|Ib].
  - unfold ename, kentry in E. cbn [fst snd] in E. apply (gentry_inj nmf (cname c) L GN) in E; [subst j; reflexivity | lia | lia].
  - exfalso. destruct (CT _ Ib) as (cur & _ & ->). unfold ename, kentry in E. cbn [fst snd] in E.
    unfold gentry in E. destruct (mid <=? i); [exact (proj1 (gn_cn _ _ _ GN i ltac:(lia)) E) | exact (proj2 (gn_cn _ _ _ GN i ltac:(lia)) E)].
  - exfalso. destruct (CT _ Ia) as (cur & _ & ->). unfold ename, kentry in E. cbn [fst snd] in E. symmetry in E.
    unfold gentry in E. destruct (mid <=? j); [exact (proj1 (gn_cn _ _ _ GN j ltac:(lia)) E) | exact (proj2 (gn_cn _ _ _ GN j ltac:(lia)) E)].
  - destruct (CT _ Ia) as (cur & _ & ->). destruct (CT _ Ib) as (cur' & _ & ->). reflexivity.
Qed.

(* what the snapshot says about a name of the directory *)
Lemma gentry_of_name n : In n (dir_names f) ->
  (exists i, lo <= i < L /\ n = gentry nmf mid i /\ snap_entry f n = (n, kkind i, nth i all [])
             /\ full_infix sp fixed n = Some (infix_of e (nth i keys kd)))
  \/ (exists cur, curo = Some cur /\ n = cname c /\ snap_entry f n = (n, 0%N, cur) /\ full_infix sp fixed n = Some cur_infix).
Proof.
  intros I. apply dir_names_lookup in I. destruct I as [j Lj].
  destruct (gd_only _ _ _ _ _ _ KD n j Lj) as [->|[(i & Hi & ->)|(i & Hi & ->)]].
  - right. destruct curo as [cur|]; [|congruence]. destruct Hcur as (_ & jc & Lc & Pc & Cc).
    exists cur. split; [reflexivity|]. split; [reflexivity|]. split; [exact (plain_entry_d f _ _ _ Lc Pc Cc) | apply full_infix_cname; exact G].
  - left. fold L in Hi. exists i. split; [lia|]. rewrite gentry_plain by lia. split; [reflexivity|].
    destruct (gd_plain _ _ _ _ _ _ KD i Hi) as (j' & Lj' & Pj & Cj). unfold kkind. destruct (Nat.leb_spec mid i); [|lia].
    split; [exact (plain_entry_d f _ _ _ Lj' Pj Cj)|]. apply full_infix_kname; [exact G | apply Yi; lia].
  - left. exists i. split; [lia|]. rewrite gentry_arch by lia. split; [reflexivity|].
    destruct (gd_arch _ _ _ _ _ _ KD i Hi) as (j' & Lj' & Dj & Gj & Fj). unfold kkind. destruct (Nat.leb_spec mid i); [lia|].
    split.
    + unfold snap_entry, file_of. rewrite Lj', Fj, Gj, Dj. reflexivity.
    + unfold gzf, nmf, tname. rewrite full_infix_gz by (apply kname_no_gz; [exact G | apply Yi; lia]).
      apply full_infix_kname; [exact G | apply Yi; lia].
Qed.

Theorem gsorted_entries : sort_keys (family_entries sp fixed curinf (snap_list f)) = gtarget.
Proof.
  unfold snap_list.
  set (ns := sort_names (dir_names f)).
  assert (Hns : forall n, In n ns -> In n (dir_names f)) by (intros n; apply sort_names_in').
  rewrite (family_entries_map' sp fixed curinf f ns).
  2:{ intros n In_. destruct (gentry_of_name n (Hns n In_)) as [(i & _ & _ & Es & Ef)|(cur & _ & _ & Es & Ef)].
      - exists (kkind i), (nth i all []), (infix_of e (nth i keys kd)). split; [exact Es|]. split; [unfold kkind; destruct (mid <=? i); reflexivity | exact Ef].
      - exists 0%N, cur, cur_infix. auto. }
  set (l := List.map (fun n => (key_of curinf (fam sp fixed n), snap_entry f n)) ns).
  assert (Enames : List.map ename l = ns).
  { unfold l. rewrite map_map. unfold ename. cbn [snd]. rewrite <- (map_id ns) at 2. apply map_ext. intros n. apply snap_entry_name. }
  apply (sort_keys_target ReaderOrder.entry ename gtarget l gtarget_sorted gtarget_names_nodup).
  - intros x Ix. unfold l in Ix. apply in_map_iff in Ix. destruct Ix as [n [<- In_]]. apply gtarget_in.
    destruct (gentry_of_name n (Hns n In_)) as [(i & Hi & -> & Es & Ef)|(cur & Ec & -> & Es & Ef)]; unfold fam; rewrite Ef, Es.
    + left. exists i. split; [exact Hi|]. rewrite Hkey by (apply Yi; lia). reflexivity.
    + right. unfold cur_target. rewrite Ec. left. rewrite Ec in Hcur. destruct Hcur as [-> _]. rewrite key_of_cur. reflexivity.
  - rewrite Enames. apply sort_names_nodup. exact (gd_nodup _ _ _ _ _ _ KD).
  - intros a Ia. rewrite Enames. apply sort_names_in', dir_names_lookup. apply gtarget_in in Ia.
    destruct Ia as [(i & Hi & ->)|Ia].
    + unfold ename, kentry. cbn [fst snd]. destruct (Nat.le_gt_cases mid i) as [H|H].
      * rewrite gentry_plain by exact H. destruct (gd_plain _ _ _ _ _ _ KD i ltac:(fold L; lia)) as (j & Lj & _). eauto.
      * rewrite gentry_arch by exact H. destruct (gd_arch _ _ _ _ _ _ KD i ltac:(lia)) as (j & Lj & _). eauto.
    + unfold cur_target in Ia. destruct curo as [cur|]; [|destruct Ia]. destruct Ia as [<-|[]].
      destruct Hcur as (_ & jc & Lc & _). unfold ename. cbn [fst snd]. eauto.
Qed.

Corollary greader_order : reader_order sp fixed curinf (snap_list f) = List.map snd gtarget.
Proof. unfold reader_order. rewrite gsorted_entries. reflexivity. Qed.

(* the family entries of the snapshot are a permutation of the target *)
Lemma gfamily_perm : Permutation (family_entries sp fixed curinf (snap_list f)) gtarget.
Proof. rewrite <- gsorted_entries. apply Permutation_sym, sort_keys_perm. Qed.

(* the counts of the oracle: plain rotated files, archives, unfinished archives *)
Lemma count_seq_ge (p : nat -> bool) a cnt : (forall i, a <= i < a + cnt -> p i = true) -> length (filter p (seq a cnt)) = cnt.
Proof.
  revert a. induction cnt as [|cnt IH]; intros a H; cbn [seq filter]; [reflexivity|].
  rewrite H by lia. cbn [length]. rewrite IH; [reflexivity|]. intros i Hi. apply H. lia.
Qed.
Lemma count_seq_none (p : nat -> bool) a cnt : (forall i, a <= i < a + cnt -> p i = false) -> length (filter p (seq a cnt)) = 0.
Proof.
  revert a. induction cnt as [|cnt IH]; intros a H; cbn [seq filter]; [reflexivity|].
  rewrite H by lia. apply IH. intros i Hi. apply H. lia.
Qed.

Lemma gcount kind :
  length (filter (fun a : rkey * ReaderOrder.entry => negb (k_cur (fst a)) && (snd (fst (snd a)) =? kind)%N) (family_entries sp fixed curinf (snap_list f)))
  = match kind with 0%N => L - mid | 1%N => mid - lo | _ => 0 end.
Proof.
  rewrite (Permutation_length (perm_filter _ _ _ gfamily_perm)). unfold gtarget. rewrite filter_app, app_length.
  assert (Ec : length (filter (fun a : rkey * ReaderOrder.entry => negb (k_cur (fst a)) && (snd (fst (snd a)) =? kind)%N) cur_target) = 0).
  { unfold cur_target. destruct curo; reflexivity. }
  rewrite Ec, Nat.add_0_r.
  assert (Em : forall l, filter (fun a : rkey * ReaderOrder.entry => negb (k_cur (fst a)) && (snd (fst (snd a)) =? kind)%N) (List.map kentry l)
                         = List.map kentry (filter (fun i => (kkind i =? kind)%N) l)).
  { induction l as [|i l IH]; [reflexivity|]. cbn [List.map filter]. rewrite IH.
    change (snd (fst (snd (kentry i)))) with (kkind i). change (k_cur (fst (kentry i))) with false. cbn [negb andb].
    destruct (kkind i =? kind)%N; reflexivity. }
  rewrite Em, map_length.
  replace (seq lo (L - lo)) with (seq lo (mid - lo) ++ seq mid (L - mid)).
  2:{ replace (L - lo) with ((mid - lo) + (L - mid)) by lia. rewrite seq_app. f_equal. f_equal. lia. }
  rewrite filter_app, app_length.
  assert (K1 : forall i, i < mid -> kkind i = 1%N) by (intros i Hi; unfold kkind; destruct (Nat.leb_spec mid i); [lia | reflexivity]).
  assert (K0 : forall i, mid <= i -> kkind i = 0%N) by (intros i Hi; unfold kkind; destruct (Nat.leb_spec mid i); [reflexivity | lia]).
  destruct kind as [|[p|p|]].
  - rewrite count_seq_none by (intros i Hi; rewrite K1 by lia; reflexivity).
    rewrite count_seq_ge by (intros i Hi; rewrite K0 by lia; reflexivity). lia.
  - rewrite count_seq_none by (intros i Hi; rewrite K1 by lia; reflexivity).
    rewrite count_seq_none by (intros i Hi; rewrite K0 by lia; reflexivity). reflexivity.
  - rewrite count_seq_none by (intros i Hi; rewrite K1 by lia; reflexivity).
    rewrite count_seq_none by (intros i Hi; rewrite K0 by lia; reflexivity). reflexivity.
  - rewrite count_seq_ge by (intros i Hi; rewrite K1 by lia; reflexivity).
    rewrite count_seq_none by (intros i Hi; rewrite K0 by lia; reflexivity). lia.
Qed.
End GReader.

(* ------------------------------------------------------------------ the oracles, from the reader order *)
Lemma tail_of_skipn (all : list bytes) lo : is_suffix (concat (skipn lo all)) (concat all) = true.
Proof. rewrite <- (firstn_skipn lo all) at 2. rewrite concat_app. apply is_suffix_app. Qed.

Lemma rev_map_snoc {A B} (g : A -> B) l x : rev (List.map g (l ++ [x])) = g x :: rev (List.map g l).
Proof. rewrite map_app, rev_app_distr. reflexivity. Qed.

(* ------------------------------------------------------------------ TimestampsDirect *)
Theorem timestampsdirect_cleanup_reader c crit k n m t0 off ops closed cur :
  tsdkcfg c crit k -> klimd k = Some (n, m) -> tag_ok c -> sfx_ok (c_spec c) ->
  Forall basic_op ops -> Forall tick_ok ops ->
  (0 <= t0 + ts_e c off)%Z -> (t0 + elapsed ops + ts_e c off < sec_max)%Z -> (N.of_nat (length ops) <= usize_max)%N ->
  a_run None ops (snd (run (fst (step (sys0 t0 off) (OStart c))) ops)) = Some (closed, cur) ->
  let x := fst (run (sys0 t0 off) (OStart c :: ops ++ [OStop])) in
  (* the reader finds the surviving files in the order in which they were written: the last n + m of closed ++ [cur] *)
  family_in_order c (snap_of x) = skipn (S (length closed) - (n + m)) (closed ++ [cur])
  /\ concat closed ++ cur = written ops
  (* the C07 oracles accept the snapshot *)
  /\ oracle_tail c (written ops) (snap_of x) = true
  /\ oracle_limits c (snap_of x) = true
  /\ oracle_current_plain c (snap_of x) = true.
Proof.
  intros Hcfg Hk T Hsfx Hb Htk Hlo Hhi Hmax Ea x.
  pose proof (timestampsdirect_cleanup_stream c crit k t0 off ops Hcfg T Hsfx Hb Htk Hlo Hhi Hmax) as S. cbv zeta in S. rewrite Ea in S.
  fold x in S. destruct S as [Fl [[keys [V [Hko Hrg]]] _]]. cbn [flat] in Fl.
  unfold d_lo, d_mid in V. rewrite Hk in V. set (L := length closed) in *. set (lo := S L - (n + m)) in *. set (mid := S L - n) in *.
  pose proof (klimd_pos _ _ _ Hk) as Hn.
  destruct V as (Hlen & KD & Hmid & Hnc). set (e := ts_e c off) in *. set (all := closed ++ [cur]) in *.
  assert (Elen : length all = S L) by (unfold all; apply glen_snoc).
  assert (Y : years_ok e t0 (t0 + elapsed ops)) by (split; assumption).
  assert (Yk : forall key, In key keys -> in_years e (fst key)).
  { intros key Ik. apply (years_in e t0 (t0 + elapsed ops)); [exact Y | exact (Hrg key Ik)]. }
  assert (Hlen' : length keys = length all) by (rewrite Elen; exact Hlen).
  assert (Ec : cur_infix_of c = None) by (unfold cur_infix_of; rewrite (proj1 Hcfg); reflexivity).
  pose proof (greader_order c e (wfs (s_w x)) keys all lo mid None None Hsfx Hko Yk Hlen' KD (key_of_infix_none e) Hnc) as RO.
  pose proof (gtarget_contents c e (wfs (s_w x)) keys all lo mid None None Yk Hlen' KD Hnc) as GC. cbn [app] in GC. rewrite app_nil_r in GC.
  assert (FO : family_in_order c (snap_of x) = skipn lo all).
  { unfold family_in_order. rewrite Ec, snap_of_list. change (fixed_name_part (c_spec c) []) with (fixed0 c). rewrite RO. exact GC. }
  assert (Wr : written ops = concat all) by (unfold all; rewrite concat_app; cbn [concat]; rewrite app_nil_r; symmetry; exact Fl).
  split; [exact FO|]. split; [exact Fl|].
  split. { unfold oracle_tail, stream_of. rewrite FO, Wr. apply tail_of_skipn. }
  split.
  { unfold oracle_limits. rewrite (proj1 Hcfg). cbn [naming_writes_direct]. rewrite limits_of_direct, Hk.
    unfold count_kind, is_rotated. rewrite Ec, snap_of_list. change (fixed_name_part (c_spec c) []) with (fixed0 c).
    rewrite !(gcount c e (wfs (s_w x)) keys all lo mid None None Hsfx Hko Yk Hlen' KD (key_of_infix_none e) Hnc). rewrite Elen.
    apply andb_true_intro. split; [apply andb_true_intro; split; apply Nat.leb_le; unfold lo, mid; lia | reflexivity]. }
  unfold oracle_current_plain. rewrite Ec, snap_of_list. change (fixed_name_part (c_spec c) []) with (fixed0 c). rewrite RO.
  unfold gtarget, cur_target. rewrite app_nil_r, Elen.
  replace (S L - lo) with ((L - lo) + 1) by (unfold lo; lia). rewrite seq_app. cbn [seq]. replace (lo + (L - lo)) with L by (unfold lo; lia).
  rewrite !map_app, rev_app_distr. cbn [List.map rev app]. unfold kentry, kkind. cbn [snd fst]. destruct (Nat.leb_spec mid L); [reflexivity | lia].
Qed.
Print Assumptions timestampsdirect_cleanup_reader.

(* ------------------------------------------------------------------ Timestamps *)
Theorem timestamps_cleanup_reader c crit k n m t0 off ops closed cur :
  tskcfg c crit k -> klim k = Some (n, m) -> tag_ok c -> sfx_ok (c_spec c) ->
  Forall basic_op ops -> Forall tick_ok ops ->
  (0 <= t0 + ts_e c off)%Z -> (t0 + elapsed ops + ts_e c off < sec_max)%Z -> (N.of_nat (length ops) <= usize_max)%N ->
  a_run None ops (snd (run (fst (step (sys0 t0 off) (OStart c))) ops)) = Some (closed, cur) ->
  let x := fst (run (sys0 t0 off) (OStart c :: ops ++ [OStop])) in
  (* the reader finds the last n + m closed files in the order of their closing, then rCURRENT *)
  family_in_order c (snap_of x) = skipn (length closed - (n + m)) closed ++ [cur]
  /\ concat closed ++ cur = written ops
  (* the C07 oracles accept the snapshot *)
  /\ oracle_tail c (written ops) (snap_of x) = true
  /\ oracle_limits c (snap_of x) = true
  /\ oracle_current_plain c (snap_of x) = true.
Proof.
  intros Hcfg Hk T Hsfx Hb Htk Hlo Hhi Hmax Ea x.
  pose proof (timestamps_cleanup_stream c crit k t0 off ops Hcfg T Hsfx Hb Htk Hlo Hhi Hmax) as S. cbv zeta in S. rewrite Ea in S.
  fold x in S. destruct S as [Fl [[keys [V [Hko Hrg]]] _]]. cbn [flat] in Fl.
  unfold k_lo, k_mid in V. rewrite Hk in V. set (L := length closed) in *. set (lo := L - (n + m)) in *. set (mid := L - n) in *.
  destruct V as (Hlen & KD & HC). set (e := ts_e c off) in *.
  assert (Y : years_ok e t0 (t0 + elapsed ops)) by (split; assumption).
  assert (Yk : forall key, In key keys -> in_years e (fst key)).
  { intros key Ik. apply (years_in e t0 (t0 + elapsed ops)); [exact Y | exact (Hrg key Ik)]. }
  assert (Ec : cur_infix_of c = Some cur_infix) by (unfold cur_infix_of; rewrite (proj1 Hcfg); reflexivity).
  assert (Hcur : Some cur_infix = Some cur_infix /\ exists j, lookup (wfs (s_w x)) (cname c) = Some j /\ plain (inode (wfs (s_w x)) j) /\ content (wfs (s_w x)) j = cur)
    by (split; [reflexivity | exact HC]).
  pose proof (greader_order c e (wfs (s_w x)) keys closed lo mid (Some cur) (Some cur_infix) Hsfx Hko Yk Hlen KD (key_of_infix e) Hcur) as RO.
  pose proof (gtarget_contents c e (wfs (s_w x)) keys closed lo mid (Some cur) (Some cur_infix) Yk Hlen KD Hcur) as GC.
  assert (FO : family_in_order c (snap_of x) = skipn lo closed ++ [cur]).
  { unfold family_in_order. rewrite Ec, snap_of_list. change (fixed_name_part (c_spec c) []) with (fixed0 c). rewrite RO. exact GC. }
  split; [exact FO|]. split; [exact Fl|].
  split.
  { unfold oracle_tail, stream_of. rewrite FO, <- Fl, concat_app. cbn [concat]. rewrite app_nil_r.
    rewrite <- (firstn_skipn lo closed) at 2. rewrite concat_app, <- app_assoc. apply is_suffix_app. }
  split.
  { unfold oracle_limits. rewrite (proj1 Hcfg). cbn [naming_writes_direct]. rewrite limits_of_plain, Hk.
    unfold count_kind, is_rotated. rewrite Ec, snap_of_list. change (fixed_name_part (c_spec c) []) with (fixed0 c).
    rewrite !(gcount c e (wfs (s_w x)) keys closed lo mid (Some cur) (Some cur_infix) Hsfx Hko Yk Hlen KD (key_of_infix e) Hcur). fold L.
    apply andb_true_intro. split; [apply andb_true_intro; split; apply Nat.leb_le; unfold lo, mid; lia | reflexivity]. }
  unfold oracle_current_plain. rewrite Ec, snap_of_list. change (fixed_name_part (c_spec c) []) with (fixed0 c). rewrite RO.
  unfold gtarget, cur_target. rewrite map_app, rev_app_distr. reflexivity.
Qed.
Print Assumptions timestamps_cleanup_reader.

(* ------------------------------------------------------------------ instances *)
Import String.StringSyntax.
Open Scope string_scope.

Example tk_reader_instance :
  let x := fst (run (sys0 0 0) (OStart (tk_cfg (KLogGz 2 2) "log") :: ext_ops ++ [OStop])) in
  family_in_order (tk_cfg (KLogGz 2 2) "log") (snap_of x) = [bs "c"; bs "d"; bs "e"; bs "f"]
  /\ oracle_tail (tk_cfg (KLogGz 2 2) "log") (written ext_ops) (snap_of x) = true
  /\ oracle_limits (tk_cfg (KLogGz 2 2) "log") (snap_of x) = true.
Proof.
  intros x. destruct (tk_bounds (KLogGz 2 2)) as (B1 & B2 & B3).
  pose proof (timestampsdirect_cleanup_reader _ (CSize 100) (KLogGz 2 2) 2 2 0 0 ext_ops _ _
                (tk_cfg_ok _ _) eq_refl (tk_tag_ok _) (tk_sfx_ok _) ext_ops_basic ext_ops_ticks B1 B2 B3 tk_view) as T.
  cbv zeta in T. fold x in T. destruct T as (R & _ & O1 & O2 & _). split; [exact R|]. split; [exact O1 | exact O2].
Qed.

Example sk_reader_instance :
  let x := fst (run (sys0 0 0) (OStart (sk_cfg (KLogGz 1 2) "log") :: ext_ops ++ [OStop])) in
  family_in_order (sk_cfg (KLogGz 1 2) "log") (snap_of x) = [bs "c"; bs "d"; bs "e"; bs "f"]
  /\ oracle_tail (sk_cfg (KLogGz 1 2) "log") (written ext_ops) (snap_of x) = true
  /\ oracle_limits (sk_cfg (KLogGz 1 2) "log") (snap_of x) = true.
Proof.
  intros x. destruct (sk_bounds (KLogGz 1 2)) as (B1 & B2 & B3).
  pose proof (timestamps_cleanup_reader _ (CSize 100) (KLogGz 1 2) 1 2 0 0 ext_ops _ _
                (sk_cfg_ok _ _) eq_refl (sk_tag_ok _) (sk_sfx_ok _) ext_ops_basic ext_ops_ticks B1 B2 B3 sk_view) as T.
  cbv zeta in T. fold x in T. destruct T as (R & _ & O1 & O2 & _). split; [exact R|]. split; [exact O1 | exact O2].
Qed.

(* with a clock that goes backwards the oracle rejects what TimestampsDirect naming leaves: the records "c" and "d" are lost *)
Example clock_backwards_oracle_rejects :
  oracle_tail (tk_cfg (KLog 1) "log") (written back_ops) (tk_final (KLog 1) "log" back_ops) = false.
Proof. vm_compute. reflexivity. Qed.
