(* The cleanup on a directory whose rotated files are named by an ABSTRACT naming  nmf : nat -> bytes  (index = position in
   the order of writing):  plain files nmf i for mid <= i < L, archives gz_name (nmf i) for lo <= i < mid, possibly one more
   name cn (rCURRENT), nothing else.  This is NumCleanupStep.v / NumDCleanupStep.v / NumDCleanupRun.v (kdir, listing,
   cleanup_numbers_d, kdir_rotate_d, the append step) with the names rname c i replaced by nmf i; what is needed of the names
   is collected in `gnames`.  Used for the time-stamp namings, whose files are named by keys (second, position). *)
Require Import FL.Base.Bytes FL.Base.BytesFacts FL.Base.PathName FL.Fs.Fs FL.Fs.FsFacts FL.Names.FileSpec
  FL.Flw.Model FL.Flw.ModelFacts FL.Flw.NumFs FL.Flw.NumInv FL.Flw.NumDInv FL.Flw.CleanupFacts FL.Flw.NumCleanupNames
  FL.Flw.NumCleanupStep.
From Coq Require Import ZifyN ZifyNat ZifyBool.
Open Scope nat_scope.

Definition gzf (nmf : nat -> bytes) (i : nat) : bytes := gz_name (nmf i).

(* what is needed of the first L names *)
Record gnames (nmf : nat -> bytes) (cn : bytes) (L : nat) : Prop := {
  gn_inj : forall i j, i < L -> j < L -> nmf i = nmf j -> i = j;
  gn_ne : forall i, i < L -> nmf i <> [];
  gn_ng : forall i, i < L -> ext_is (nmf i) gz_sfx = false;
  gn_cn : forall i, i < L -> nmf i <> cn /\ gzf nmf i <> cn }.

Lemma gnames_le nmf cn L L' : L' <= L -> gnames nmf cn L -> gnames nmf cn L'.
Proof.
  intros H [A B C D]. constructor.
  - intros i j Hi Hj. apply A; lia.
  - intros i Hi. apply B; lia.
  - intros i Hi. apply C; lia.
  - intros i Hi. apply D; lia.
Qed.

Lemma gnames_ext nmf nmf' cn L : (forall i, i < L -> nmf' i = nmf i) -> gnames nmf cn L -> gnames nmf' cn L.
Proof.
  intros E [A B C D]. constructor.
  - intros i j Hi Hj. rewrite !E by assumption. apply A; assumption.
  - intros i Hi. rewrite E by assumption. apply B; assumption.
  - intros i Hi. rewrite E by assumption. apply C; assumption.
  - intros i Hi. unfold gzf. rewrite E by assumption. apply D; assumption.
Qed.

Section Names.
Variables (nmf : nat -> bytes) (cn : bytes) (L : nat).
Hypothesis GN : gnames nmf cn L.

Lemma gzf_is_gz i : i < L -> ext_is (gzf nmf i) gz_sfx = true.
Proof. intros Hi. apply ext_is_gz_name. apply (gn_ne _ _ _ GN). exact Hi. Qed.
Lemma gzf_strip i : i < L -> set_extension (gzf nmf i) [] = nmf i.
Proof. intros Hi. apply strip_gz_name. apply (gn_ne _ _ _ GN). exact Hi. Qed.
Lemma gzf_inj i j : i < L -> j < L -> gzf nmf i = gzf nmf j -> i = j.
Proof. intros Hi Hj E. apply gz_name_inj in E. apply (gn_inj _ _ _ GN); assumption. Qed.
Lemma gzf_not_nmf i j : i < L -> j < L -> gzf nmf i <> nmf j.
Proof. intros Hi Hj E. pose proof (gzf_is_gz i Hi) as G. rewrite E, (gn_ng _ _ _ GN) in G by exact Hj. discriminate. Qed.
End Names.

(* ------------------------------------------------------------------ the directory with contents *)
Record gdir (nmf : nat -> bytes) (cn : bytes) (f : fs) (closed : list bytes) (lo mid : nat) : Prop := {
  gd_le : lo <= mid <= length closed;
  gd_nodup : nodup_names f;
  gd_plain : forall i, mid <= i < length closed ->
      exists j, lookup f (nmf i) = Some j /\ plain (inode f j) /\ content f j = nth i closed [];
  gd_arch : forall i, lo <= i < mid ->
      exists j, lookup f (gzf nmf i) = Some j /\ fdata (inode f j) = nth i closed [] /\ fgz (inode f j) = 1%N /\ fdir (inode f j) = false;
  gd_only : forall n j, lookup f n = Some j ->
      n = cn \/ (exists i, mid <= i < length closed /\ n = nmf i) \/ (exists i, lo <= i < mid /\ n = gzf nmf i) }.

Lemma gdir_ext nmf nmf' cn f closed lo mid : (forall i, i < length closed -> nmf' i = nmf i) ->
  gdir nmf cn f closed lo mid -> gdir nmf' cn f closed lo mid.
Proof.
  intros E [Hle Hnd Hp Ha Hon]. constructor; auto.
  - intros i Hi. rewrite E by lia. apply Hp. exact Hi.
  - intros i Hi. unfold gzf. rewrite E by lia. apply Ha. exact Hi.
  - intros n j Lj. destruct (Hon n j Lj) as [->|[(i & Hi & ->)|(i & Hi & ->)]]; [left; reflexivity | right; left | right; right];
      exists i; (split; [exact Hi|]); unfold gzf; rewrite E by lia; reflexivity.
Qed.

(* ------------------------------------------------------------------ the listing, newest first *)
Definition glisting (nmf : nat -> bytes) (lo mid L : nat) : list bytes :=
  rev (map nmf (seq mid (L - mid))) ++ rev (map (gzf nmf) (seq lo (mid - lo))).
Definition gentry (nmf : nat -> bytes) (mid i : nat) : bytes := if mid <=? i then nmf i else gzf nmf i.

Lemma glisting_nth nmf lo mid L k : lo <= mid <= L ->
  nth_error (glisting nmf lo mid L) k = if k <? L - lo then Some (gentry nmf mid (L - 1 - k)) else None.
Proof.
  intros H. unfold glisting, gentry.
  destruct (Nat.ltb_spec k (L - mid)) as [H1|H1].
  - rewrite nth_error_app1 by (rewrite rev_length, map_length, seq_length; exact H1).
    rewrite nth_error_rev_map_seq. destruct (Nat.ltb_spec k (L - mid)); [|lia]. destruct (Nat.ltb_spec k (L - lo)); [|lia].
    destruct (Nat.leb_spec mid (L - 1 - k)); [|lia]. do 2 f_equal. lia.
  - rewrite nth_error_app2 by (rewrite rev_length, map_length, seq_length; exact H1).
    rewrite rev_length, map_length, seq_length, nth_error_rev_map_seq.
    destruct (Nat.ltb_spec (k - (L - mid)) (mid - lo)), (Nat.ltb_spec k (L - lo)); try lia; [|reflexivity].
    destruct (Nat.leb_spec mid (L - 1 - k)); [lia|]. do 2 f_equal. lia.
Qed.

Lemma glisting_in nmf lo mid L x : lo <= mid <= L ->
  In x (glisting nmf lo mid L) <-> (exists i, mid <= i < L /\ x = nmf i) \/ (exists i, lo <= i < mid /\ x = gzf nmf i).
Proof.
  intros H. unfold glisting. rewrite in_app_iff, <- !in_rev, !in_map_iff. split.
  - intros [(i & <- & Hi)|(i & <- & Hi)]; apply in_seq in Hi; [left | right]; exists i; split; auto; lia.
  - intros [(i & Hi & ->)|(i & Hi & ->)]; [left | right]; exists i; split; auto; apply in_seq; lia.
Qed.

Lemma glisting_nth_inv nmf lo mid L k x : lo <= mid <= L ->
  nth_error (glisting nmf lo mid L) k = Some x -> k < L - lo /\ x = gentry nmf mid (L - 1 - k).
Proof.
  intros H E. rewrite glisting_nth in E by exact H. destruct (Nat.ltb_spec k (L - lo)); [|discriminate].
  injection E as <-. auto.
Qed.
Lemma glisting_nth_of nmf lo mid L i : lo <= mid <= L -> lo <= i < L ->
  nth_error (glisting nmf lo mid L) (L - 1 - i) = Some (gentry nmf mid i).
Proof.
  intros H Hi. rewrite glisting_nth by exact H. destruct (Nat.ltb_spec (L - 1 - i) (L - lo)); [|lia].
  do 2 f_equal. lia.
Qed.
Lemma gentry_plain nmf mid i : mid <= i -> gentry nmf mid i = nmf i.
Proof. intros H. unfold gentry. destruct (Nat.leb_spec mid i); [reflexivity | lia]. Qed.
Lemma gentry_arch nmf mid i : i < mid -> gentry nmf mid i = gzf nmf i.
Proof. intros H. unfold gentry. destruct (Nat.leb_spec mid i); [lia | reflexivity]. Qed.

Section Listing.
Variables (nmf : nat -> bytes) (cn : bytes) (L : nat).
Hypothesis GN : gnames nmf cn L.

Lemma gentry_ext mid i : i < L -> ext_is (gentry nmf mid i) gz_sfx = negb (mid <=? i).
Proof.
  intros Hi. unfold gentry. destruct (mid <=? i); [apply (gn_ng _ _ _ GN); exact Hi | apply (gzf_is_gz _ _ _ GN); exact Hi].
Qed.

Lemma gentry_inj mid i j : i < L -> j < L -> gentry nmf mid i = gentry nmf mid j -> i = j.
Proof.
  intros Hi Hj. unfold gentry. destruct (mid <=? i), (mid <=? j); intros E.
  - exact (gn_inj _ _ _ GN _ _ Hi Hj E).
  - symmetry in E. exfalso. exact (gzf_not_nmf _ _ _ GN _ _ Hj Hi E).
  - exfalso. exact (gzf_not_nmf _ _ _ GN _ _ Hi Hj E).
  - exact (gzf_inj _ _ _ GN _ _ Hi Hj E).
Qed.

Lemma glisting_nodup lo mid : lo <= mid <= L -> NoDup (glisting nmf lo mid L).
Proof.
  intros Hle. apply NoDup_nth_error. intros i j Hi E.
  assert (Len : length (glisting nmf lo mid L) = L - lo).
  { unfold glisting. rewrite app_length, !rev_length, !map_length, !seq_length. lia. }
  rewrite !glisting_nth in E by exact Hle. rewrite Len in Hi.
  destruct (Nat.ltb_spec i (L - lo)); [|lia]. destruct (Nat.ltb_spec j (L - lo)); [|discriminate].
  injection E as E. apply gentry_inj in E; lia.
Qed.

Lemma glisting_no_redundant lo mid : lo <= mid <= L -> redundant_gz (glisting nmf lo mid L) = [].
Proof.
  intros Hle. unfold redundant_gz. apply filter_all_false. intros x Hx.
  pose proof Hx as Hx'. apply glisting_in in Hx'; [|exact Hle]. destruct Hx' as [(i & Hi & ->)|(i & Hi & ->)].
  - rewrite (gn_ng _ _ _ GN) by lia. reflexivity.
  - rewrite (gzf_strip _ _ _ GN), (gzf_is_gz _ _ _ GN) by lia. cbn [andb]. apply existsb_false_notin. intros I.
    apply glisting_in in I; [|exact Hle]. destruct I as [(j & Hj & E)|(j & Hj & E)].
    + apply (gn_inj _ _ _ GN) in E; lia.
    + symmetry in E. apply (gzf_not_nmf _ _ _ GN) in E; [exact E | lia | lia].
Qed.
End Listing.

(* ------------------------------------------------------------------ ONE CLEANUP *)
(* what cleanup_impl does once it has the listing *)
Definition cleanup_body (w : world) (files : list bytes) (n m : nat) (cur : option bytes) : res unit * world :=
  let '(ok0, w1', files') := remove_redundant w (redundant_gz files) files in
  if negb ok0 then (Err, w1') else
  let '(ok, w2) := cleanup_loop w1' files' 0 n (n + m) cur in ((if ok then Ok tt else Err), w2).

Theorem gcleanup nmf cn w n m closed lo mid :
  gnames nmf cn (length closed) -> quiet w -> fs_wf (wfs w) -> gdir nmf cn (wfs w) closed lo mid ->
  exists w', cleanup_body w (glisting nmf lo mid (length closed)) n m None = (Ok tt, w') /\ same_env w w' /\ fs_wf (wfs w')
    /\ gdir nmf cn (wfs w') closed (Nat.max lo (length closed - (n + m))) (Nat.max mid (length closed - n))
    /\ same_at (wfs w) (wfs w') cn
    /\ (forall i, Nat.max mid (length closed - n) <= i < length closed -> same_at (wfs w) (wfs w') (nmf i)).
Proof.
  intros GN Q W KD. set (L := length closed) in *. set (f := wfs w) in *.
  pose proof (gd_le _ _ _ _ _ _ KD) as Hle. fold L in Hle.
  pose proof KD as [_ Hnd Hp Ha Hon]. fold L in Hp, Hon.
  unfold cleanup_body.
  rewrite (glisting_no_redundant nmf cn L GN lo mid Hle). cbn [remove_redundant negb].
  set (files := glisting nmf lo mid L).
  assert (Ex : forall i, lo <= i < L -> lookup f (gentry nmf mid i) <> None).
  { intros i Hi. destruct (Nat.le_gt_cases mid i) as [H|H].
    - rewrite gentry_plain by exact H. destruct (Hp i ltac:(lia)) as (j & Lj & _). congruence.
    - rewrite gentry_arch by exact H. destruct (Ha i ltac:(lia)) as (j & Lj & _). congruence. }
  assert (NoG : forall i, mid <= i < L -> lookup f (gzf nmf i) = None).
  { intros i Hi. destruct (lookup f (gzf nmf i)) as [j|] eqn:E; [exfalso | reflexivity].
    destruct (Hon _ _ E) as [X|[(i' & Hi' & X)|(i' & Hi' & X)]].
    - exact (proj2 (gn_cn _ _ _ GN i ltac:(lia)) X).
    - apply (gzf_not_nmf _ _ _ GN) in X; [exact X | lia | lia].
    - apply (gzf_inj _ _ _ GN) in X; lia. }
  assert (Pos : forall k x, nth_error files k = Some x -> k < L - lo /\ x = gentry nmf mid (L - 1 - k)).
  { intros k0 x. apply glisting_nth_inv. exact Hle. }
  assert (Zone : forall k x, nth_error files k = Some x -> ext_is x gz_sfx = false ->
                 mid <= L - 1 - k /\ x = nmf (L - 1 - k)).
  { intros k0 x Hk0 He. destruct (Pos _ _ Hk0) as [Hk1 ->]. rewrite (gentry_ext nmf cn L GN) in He by lia.
    destruct (Nat.leb_spec mid (L - 1 - k0)); [|discriminate]. split; [assumption | apply gentry_plain; assumption]. }
  destruct (cleanup_loop_spec w files 0 n (n + m) Q W (glisting_nodup nmf cn L GN lo mid Hle)) as (w' & E & S & W' & O & Fr).
  { intros k0 x Hk0 _. destruct (Pos _ _ Hk0) as [Hk1 ->]. apply Ex. lia. }
  { intros k0 x Hk0 _ He Hin. destruct (Zone _ _ Hk0 He) as [Hm ->]. destruct (Pos _ _ Hk0) as [Hk1 _].
    fold (gzf nmf (L - 1 - k0)) in Hin.
    apply glisting_in in Hin; [|exact Hle]. destruct Hin as [(j & Hj & X)|(j & Hj & X)].
    - apply (gzf_not_nmf _ _ _ GN) in X; [exact X | lia | lia].
    - apply (gzf_inj _ _ _ GN) in X; lia. }
  { intros k0 x Hk0 _ He. destruct (Zone _ _ Hk0 He) as [Hm ->]. destruct (Pos _ _ Hk0) as [Hk1 _].
    apply not_dir_missing. apply NoG. lia. }
  cbn [Nat.add] in O. fold f in O, Fr.
  exists w'. rewrite E. split; [reflexivity|]. split; [exact S|]. split; [exact W'|].
  set (f' := wfs w') in *.
  assert (Of : forall i, lo <= i < L ->
             (n + m <= L - 1 - i -> lookup f' (gentry nmf mid i) = None)
             /\ (L - 1 - i < n + m -> L - 1 - i < n \/ ext_is (gentry nmf mid i) gz_sfx = true -> same_at f f' (gentry nmf mid i))
             /\ (n <= L - 1 - i < n + m -> ext_is (gentry nmf mid i) gz_sfx = false -> archived f f' (gentry nmf mid i))).
  { intros i Hi. apply (O (L - 1 - i)). apply glisting_nth_of; assumption. }
  assert (NDf' : nodup_names f').
  { unfold f'. replace w' with (snd (cleanup_loop w files 0 n (n + m) None)) by (rewrite E; reflexivity).
    apply cleanup_loop_nd. exact Hnd. }
  set (made := map gz_name (filter not_gz (zone_part n (n + m) files))).
  assert (Made : forall x, In x made <-> exists i, mid <= i < L /\ n <= L - 1 - i < n + m /\ x = gzf nmf i).
  { intros x. unfold made. rewrite in_map_iff. split.
    - intros (y & <- & Hy). apply filter_In in Hy. destruct Hy as [Hy G]. apply In_zone_nth in Hy.
      destruct Hy as (k0 & Hk0 & Ek0). unfold not_gz in G. apply negb_true_iff in G.
      destruct (Zone _ _ Ek0 G) as [Hm ->]. destruct (Pos _ _ Ek0) as [Hk1 _].
      exists (L - 1 - k0). split; [lia|]. split; [|reflexivity]. replace (L - 1 - (L - 1 - k0)) with k0 by lia. lia.
    - intros (i & Hi & Hz & ->). exists (nmf i). split; [reflexivity|]. apply filter_In. split.
      + apply (nth_In_zone _ _ _ (L - 1 - i)); [|lia]. unfold files. rewrite glisting_nth_of by (auto; lia).
        rewrite gentry_plain by lia. reflexivity.
      + unfold not_gz. rewrite (gn_ng _ _ _ GN) by lia. reflexivity. }
  assert (Fr' : forall x, ~ In x files -> ~ In x made -> same_at f f' x).
  { intros x H1 H2. apply Fr; [exact H1|]. intros k0 y Hk0 Hz He ->. apply H2. destruct (Zone _ _ Hk0 He) as [Hm ->].
    destruct (Pos _ _ Hk0) as [Hk1 _]. apply Made. exists (L - 1 - k0). split; [lia|]. split; [|reflexivity].
    replace (L - 1 - (L - 1 - k0)) with k0 by lia. lia. }
  split; [|split].
  - constructor.
    + fold L. lia.
    + exact NDf'.
    + fold L. intros i Hi. destruct (Of i ltac:(lia)) as (_ & K & _). rewrite gentry_plain in K by lia.
      destruct (Hp i ltac:(lia)) as (j & Lj & Pj & Cj).
      assert (K1 : L - 1 - i < n + m) by lia. assert (K2 : L - 1 - i < n) by lia.
      destruct (same_at_content _ _ _ _ (K K1 (or_introl K2)) Lj) as [Lj' Ij'].
      exists j. split; [exact Lj'|]. unfold content. fold f'. rewrite Ij'. split; [exact Pj | exact Cj].
    + fold L. intros i Hi. destruct (Nat.lt_ge_cases i mid) as [Hm|Hm].
      * destruct (Of i ltac:(lia)) as (_ & K & _). rewrite gentry_arch in K by lia.
        destruct (Ha i ltac:(lia)) as (j & Lj & Dj & Gj & Fj).
        assert (K1 : L - 1 - i < n + m) by lia.
        destruct (same_at_content _ _ _ _ (K K1 (or_intror (gzf_is_gz _ _ _ GN i ltac:(lia)))) Lj) as [Lj' Ij'].
        exists j. fold f'. rewrite Ij'. auto.
      * destruct (Of i ltac:(lia)) as (_ & _ & Z). rewrite gentry_plain in Z by lia.
        assert (K1 : n <= L - 1 - i < n + m) by lia.
        destruct (Z K1 (gn_ng _ _ _ GN i ltac:(lia))) as (i0 & j & Li & Ln & Lg & D & G & Dr).
        destruct (Hp i ltac:(lia)) as (j0 & Lj0 & _ & Cj0). rewrite Li in Lj0. injection Lj0 as <-.
        exists j. split; [exact Lg|]. split; [rewrite D; exact Cj0|]. auto.
    + fold L. intros x j Lx. destruct (in_dec bytes_eq_dec x files) as [Hin|Hnin].
      * apply In_nth_error in Hin. destruct Hin as [k0 Hk0]. destruct (Pos _ _ Hk0) as [Hk1 ->].
        set (i := L - 1 - k0) in *. assert (Hi : lo <= i < L) by (unfold i; lia).
        destruct (Of i Hi) as (R & K & Z). fold f' in Lx.
        destruct (Nat.le_gt_cases (n + m) (L - 1 - i)) as [H1|H1]; [rewrite (R H1) in Lx; discriminate|].
        destruct (Nat.le_gt_cases mid i) as [H2|H2].
        -- rewrite gentry_plain in * by exact H2. destruct (Nat.le_gt_cases n (L - 1 - i)) as [H3|H3].
           ++ assert (K1 : n <= L - 1 - i < n + m) by lia.
              destruct (Z K1 (gn_ng _ _ _ GN i ltac:(lia))) as (_ & _ & _ & Ln & _). rewrite Ln in Lx. discriminate.
           ++ right. left. exists i. split; [lia | reflexivity].
        -- rewrite gentry_arch in * by exact H2. right. right. exists i. split; [lia | reflexivity].
      * destruct (in_dec bytes_eq_dec x made) as [Hm|Hm].
        -- apply Made in Hm. destruct Hm as (i & Hi & Hz & ->). right. right. exists i. split; [lia | reflexivity].
        -- destruct (Fr' x Hnin Hm) as [Lx' _]. fold f' in Lx. rewrite Lx' in Lx.
           destruct (Hon _ _ Lx) as [->|[(i & Hi & ->)|(i & Hi & ->)]]; [left; reflexivity | exfalso | exfalso];
             apply Hnin, glisting_in; auto; [left | right]; exists i; auto.
  - apply Fr'.
    + intros Hin. apply glisting_in in Hin; [|exact Hle]. destruct Hin as [(i & Hi & X)|(i & Hi & X)].
      * symmetry in X. exact (proj1 (gn_cn _ _ _ GN i ltac:(lia)) X).
      * symmetry in X. exact (proj2 (gn_cn _ _ _ GN i ltac:(lia)) X).
    + intros Hin. apply Made in Hin. destruct Hin as (i & Hi & _ & X). symmetry in X. exact (proj2 (gn_cn _ _ _ GN i ltac:(lia)) X).
  - fold L. intros i Hi. destruct (Of i ltac:(lia)) as (_ & K & _). rewrite gentry_plain in K by lia.
    apply K; [lia | left; lia].
Qed.
Print Assumptions gcleanup.

(* The same with the current output file handed over (a DIRECT naming: cur = Some (the newest named file), first limit at
   least 1): the file is at position 0 of the listing - if it is listed at all -, where it is kept anyway; that the loop
   skips it makes no difference. *)
Lemma cleanup_body_cur_newest nmf cn w n m L lo mid :
  gnames nmf cn L -> lo <= mid <= L -> 1 <= n ->
  cleanup_body w (glisting nmf lo mid L) n m (Some (nmf (L - 1))) = cleanup_body w (glisting nmf lo mid L) n m None.
Proof.
  intros GN Hle Hn. unfold cleanup_body.
  rewrite (glisting_no_redundant nmf cn L GN lo mid Hle). cbn [remove_redundant negb].
  rewrite (cleanup_loop_cur_kept n (n + m) (nmf (L - 1))); [reflexivity|].
  intros k0 Hk0. cbn [Nat.add]. apply glisting_nth_inv in Hk0; [|exact Hle]. destruct Hk0 as [Hk1 Ee].
  assert (k0 = 0).
  { unfold gentry in Ee. destruct (mid <=? L - 1 - k0).
    - apply (gn_inj _ _ _ GN) in Ee; lia.
    - exfalso. symmetry in Ee. apply (gzf_not_nmf _ _ _ GN) in Ee; [exact Ee | lia | lia]. }
  subst k0. apply act_keep. split; [lia | left; lia].
Qed.

Theorem gcleanup_d nmf cn w n m closed lo mid :
  gnames nmf cn (length closed) -> quiet w -> fs_wf (wfs w) -> gdir nmf cn (wfs w) closed lo mid -> 1 <= n ->
  exists w', cleanup_body w (glisting nmf lo mid (length closed)) n m (Some (nmf (length closed - 1))) = (Ok tt, w')
    /\ same_env w w' /\ fs_wf (wfs w')
    /\ gdir nmf cn (wfs w') closed (Nat.max lo (length closed - (n + m))) (Nat.max mid (length closed - n))
    /\ same_at (wfs w) (wfs w') cn
    /\ (forall i, Nat.max mid (length closed - n) <= i < length closed -> same_at (wfs w) (wfs w') (nmf i)).
Proof.
  intros GN Q W KD Hn. rewrite (cleanup_body_cur_newest nmf cn w n m (length closed) lo mid GN (gd_le _ _ _ _ _ _ KD) Hn).
  apply gcleanup; assumption.
Qed.
Print Assumptions gcleanup_d.

(* ------------------------------------------------------------------ the steps of a writer with a DIRECT naming *)
(* (the file being written is the newest named file nmf L, L = number of closed files; `closed` of gdir lists the contents of
   all named files, the last entry being what the current file holds on disk) *)
Lemma glen_snoc {A} (l : list A) x : length (l ++ [x]) = S (length l).
Proof. rewrite app_length. cbn [length]. lia. Qed.

(* ---- the file system after create + flush of the old writer ---- *)
Lemma gdir_rotate_d nmf cn f closed lo mid old pend now :
  gnames nmf cn (S (S (length closed))) ->
  fs_wf f -> gdir nmf cn f (closed ++ [content f old]) lo mid -> mid <= length closed ->
  lookup f (nmf (length closed)) = Some old -> lookup f cn = None ->
  lookup f (nmf (S (length closed))) = None /\
  let f3 := append_ino (fst (create_file f (nmf (S (length closed))) 0%N now)) old pend in
  let new := snd (create_file f (nmf (S (length closed))) 0%N now) in
  fs_wf f3 /\ lookup f3 (nmf (S (length closed))) = Some new /\ inode f3 new = fresh_file now
  /\ lookup f3 cn = None
  /\ gdir nmf cn f3 ((closed ++ [content f old ++ pend]) ++ [content f3 new]) lo mid.
Proof.
  intros GN W KD Hmid Hc Hnc. pose proof KD as [Hle Hnd Hp Ha Hon]. set (L := length closed) in *.
  rewrite glen_snoc in Hle, Hp, Hon. fold L in Hle, Hp, Hon.
  assert (Ht : lookup f (nmf (S L)) = None).
  { destruct (lookup f (nmf (S L))) as [j|] eqn:E; [|reflexivity]. exfalso.
    destruct (Hon _ _ E) as [E1|[(i & Hi & E1)|(i & Hi & E1)]].
    - exact (proj1 (gn_cn _ _ _ GN (S L) ltac:(lia)) E1).
    - apply (gn_inj _ _ _ GN) in E1; lia.
    - symmetry in E1. apply (gzf_not_nmf _ _ _ GN) in E1; [exact E1 | lia | lia]. }
  split; [exact Ht|].
  pose proof (wf_bound _ W _ _ Hc) as Hold.
  pose proof (direct_fs_spec f (nmf (S L)) old pend now W Hold Ht) as R.
  cbn zeta in *. destruct R as [W3 [Hnew [L3t [L3o [Inew [Iold Ioth]]]]]].
  set (new := snd (create_file f (nmf (S L)) 0%N now)) in *.
  set (f3 := append_ino (fst (create_file f (nmf (S L)) 0%N now)) old pend) in *.
  split; [exact W3|]. split; [exact L3t|]. split; [exact Inew|].
  split. { rewrite L3o; [exact Hnc | intros E; exact (proj1 (gn_cn _ _ _ GN (S L) ltac:(lia)) (eq_sym E))]. }
  assert (Cnew : content f3 new = []) by (unfold content; rewrite Inew; reflexivity).
  rewrite Cnew.
  assert (Keep : forall x j, x <> nmf L -> lookup f x = Some j ->
                 lookup f3 x = Some j /\ inode f3 j = inode f j).
  { intros x j H2 Lj.
    assert (H1 : x <> nmf (S L)) by (intros ->; congruence).
    split; [rewrite L3o by assumption; exact Lj|]. apply Ioth.
    - pose proof (wf_bound _ W _ _ Lj). rewrite Hnew. lia.
    - intros ->. apply H2. exact (wf_inj _ W _ _ _ Lj Hc). }
  constructor.
  - rewrite !glen_snoc. fold L. lia.
  - apply nd_append. apply nd_create; [exact Ht | exact Hnd].
  - rewrite !glen_snoc. fold L. intros i Hi.
    destruct (Nat.eq_dec i (S L)) as [->|Hne1]; [|destruct (Nat.eq_dec i L) as [->|Hne2]].
    + exists new. split; [exact L3t|]. split; [rewrite Inew; split; reflexivity|].
      rewrite Cnew. rewrite app_nth2 by (rewrite glen_snoc; fold L; lia). rewrite glen_snoc. fold L. rewrite Nat.sub_diag. reflexivity.
    + destruct (Hp L ltac:(lia)) as (j & Lj & Pj & _). rewrite Hc in Lj. injection Lj as <-.
      exists old. split; [rewrite L3o; [exact Hc | intros E; apply (gn_inj _ _ _ GN) in E; lia]|]. split.
      * rewrite Iold. exact Pj.
      * unfold content at 1. rewrite Iold. cbn [with_data fdata].
        rewrite app_nth1 by (rewrite glen_snoc; fold L; lia). rewrite app_nth2 by (fold L; lia). fold L. rewrite Nat.sub_diag. reflexivity.
    + destruct (Hp i ltac:(lia)) as (j & Lj & Pj & Cj).
      destruct (Keep (nmf i) j) as [Lj' Ij']; [intros E; apply (gn_inj _ _ _ GN) in E; lia | exact Lj|].
      exists j. split; [exact Lj'|]. unfold content. rewrite Ij'. split; [exact Pj|].
      rewrite app_nth1 by (rewrite glen_snoc; fold L; lia). rewrite app_nth1 by (fold L; lia).
      rewrite app_nth1 in Cj by (fold L; lia). exact Cj.
  - intros i Hi. destruct (Ha i Hi) as (j & Lj & Dj & Gj & Fj).
    destruct (Keep (gzf nmf i) j) as [Lj' Ij']; [apply (gzf_not_nmf _ _ _ GN); lia | exact Lj|].
    exists j. rewrite Ij'. split; [exact Lj'|]. split; [|auto].
    rewrite app_nth1 by (rewrite glen_snoc; fold L; lia). rewrite app_nth1 by (fold L; lia).
    rewrite app_nth1 in Dj by (fold L; lia). exact Dj.
  - intros x j Hx. rewrite !glen_snoc. fold L.
    destruct (beq_spec x (nmf (S L))) as [->|Hn1].
    + right. left. exists (S L). split; [lia | reflexivity].
    + rewrite L3o in Hx by assumption. destruct (Hon _ _ Hx) as [E|[(i & Hi & E)|(i & Hi & E)]]; [left; exact E| |].
      * right. left. exists i. split; [lia | exact E].
      * right. right. exists i. split; [lia | exact E].
Qed.

(* ---- appending to the current inode ---- *)
Lemma gdir_append nmf cn f closed lo mid old x :
  gnames nmf cn (S (length closed)) -> fs_wf f -> lookup f (nmf (length closed)) = Some old -> mid <= length closed ->
  gdir nmf cn f (closed ++ [content f old]) lo mid ->
  gdir nmf cn (append_ino f old x) (closed ++ [content f old ++ x]) lo mid.
Proof.
  intros GN W Hc Hmid [Hle Hnd Hp Ha Hon]. rewrite glen_snoc in Hle, Hp, Hon.
  pose proof (wf_bound _ W _ _ Hc) as Hold.
  assert (Oth : forall n j, n <> nmf (length closed) -> lookup f n = Some j -> inode (append_ino f old x) j = inode f j).
  { intros n j Hn Lj. rewrite inode_append by assumption. destruct (Nat.eqb_spec j old) as [->|_]; [|reflexivity].
    exfalso. apply Hn. exact (wf_inj _ W _ _ _ Lj Hc). }
  constructor.
  - rewrite glen_snoc. exact Hle.
  - apply nd_append. exact Hnd.
  - rewrite glen_snoc. intros i Hi. destruct (Nat.eq_dec i (length closed)) as [->|Hne].
    + destruct (Hp (length closed) Hi) as (j & Lj & Pj & _). rewrite Hc in Lj. injection Lj as <-.
      exists old. rewrite lookup_append. split; [exact Hc|]. split.
      * rewrite inode_append, Nat.eqb_refl by assumption. exact Pj.
      * rewrite content_append, Nat.eqb_refl by assumption. rewrite app_nth2, Nat.sub_diag by lia. reflexivity.
    + destruct (Hp i Hi) as (j & Lj & Pj & Cj). exists j. rewrite lookup_append. split; [exact Lj|].
      assert (Hn : nmf i <> nmf (length closed)) by (intros E; apply (gn_inj _ _ _ GN) in E; lia).
      unfold content. rewrite (Oth _ _ Hn Lj). split; [exact Pj|].
      rewrite app_nth1 by lia. rewrite app_nth1 in Cj by lia. exact Cj.
  - intros i Hi. destruct (Ha i Hi) as (j & Lj & Dj & R). exists j. rewrite lookup_append. split; [exact Lj|].
    assert (Hn : gzf nmf i <> nmf (length closed)) by (apply (gzf_not_nmf _ _ _ GN); lia).
    rewrite (Oth _ _ Hn Lj). split; [|exact R].
    rewrite app_nth1 by lia. rewrite app_nth1 in Dj by lia. exact Dj.
  - rewrite glen_snoc. intros n j. rewrite lookup_append. apply Hon.
Qed.

(* ---- the first file on the empty directory ---- *)
Lemma gdir_first nmf cn now :
  let f := {| names := [(nmf 0, 0)]; inodes := [fresh_file now] |} in
  gdir nmf cn f [content f 0] 0 0 /\ lookup f (nmf 0) = Some 0 /\ fs_wf f /\ content f 0 = [] /\ inode f 0 = fresh_file now.
Proof.
  cbn zeta. set (f := {| names := [(nmf 0, 0)]; inodes := [fresh_file now] |}).
  assert (Lc : lookup f (nmf 0) = Some 0) by (unfold lookup; cbn; rewrite beq_refl; reflexivity).
  assert (C0 : content f 0 = []) by reflexivity.
  split; [|split; [exact Lc|split; [|split; [exact C0 | reflexivity]]]].
  - constructor.
    + cbn [length]. lia.
    + unfold nodup_names, dir_names. cbn [names map fst]. constructor; [intros [] | constructor].
    + cbn [length]. intros i Hi. assert (i = 0) by lia. subst i. exists 0. split; [exact Lc|]. split; [split; reflexivity | reflexivity].
    + intros i Hi. lia.
    + intros n j. unfold lookup; cbn. destruct (beq_spec (nmf 0) n) as [<-|]; [|discriminate].
      intros _. right. left. exists 0. cbn [length]. split; [lia | reflexivity].
  - split.
    + intros a j. unfold lookup; cbn. destruct (beq (nmf 0) a); [|discriminate]. intros E; injection E as <-. lia.
    + intros a b j. unfold lookup; cbn. destruct (beq_spec (nmf 0) a), (beq_spec (nmf 0) b); try discriminate. congruence.
Qed.

(* ------------------------------------------------------------------ the steps of a writer with a CURRENT file cn *)
(* (the file being written is cn = rCURRENT; a rotation renames it to nmf L, L = number of closed files, and creates cn anew;
   `closed` of gdir lists the contents of the closed files) *)
Lemma gdir_rotate_r nmf cn f closed lo mid old pend now :
  gnames nmf cn (S (length closed)) ->
  fs_wf f -> gdir nmf cn f closed lo mid -> lookup f cn = Some old -> plain (inode f old) ->
  lookup f (nmf (length closed)) = None /\
  exists f1, rename f cn (nmf (length closed)) = Some f1 /\ lookup f1 cn = None /\
    let f3 := append_ino (fst (create_file f1 cn 0%N now)) old pend in
    let new := snd (create_file f1 cn 0%N now) in
    fs_wf f3 /\ lookup f3 cn = Some new /\ inode f3 new = fresh_file now
    /\ gdir nmf cn f3 (closed ++ [content f old ++ pend]) lo mid.
Proof.
  intros GN W KD Hc Hcp. pose proof KD as [Hle Hnd Hp Ha Hon]. set (L := length closed) in *.
  assert (Ht : lookup f (nmf L) = None).
  { destruct (lookup f (nmf L)) as [j|] eqn:E; [|reflexivity]. exfalso.
    destruct (Hon _ _ E) as [E1|[(i & Hi & E1)|(i & Hi & E1)]].
    - exact (proj1 (gn_cn _ _ _ GN L ltac:(lia)) E1).
    - apply (gn_inj _ _ _ GN) in E1; lia.
    - symmetry in E1. apply (gzf_not_nmf _ _ _ GN) in E1; [exact E1 | lia | lia]. }
  split; [exact Ht|].
  destruct (rotate_fs_spec f cn (nmf L) old pend now W (fun E => proj1 (gn_cn _ _ _ GN L ltac:(lia)) (eq_sym E)) Hc Ht) as [f1 [Er R]].
  cbn zeta in R. destruct R as [L1c [Hino1 [W3 [Hnew [L3c [L3t [L3o [Hlen [Inew [Iold Ioth]]]]]]]]]].
  exists f1. split; [exact Er|]. split; [exact L1c|]. cbn zeta.
  set (new := snd (create_file f1 cn 0%N now)) in *.
  set (f3 := append_ino (fst (create_file f1 cn 0%N now)) old pend) in *.
  split; [exact W3|]. split; [exact L3c|]. split; [exact Inew|].
  pose proof (wf_bound _ W _ _ Hc) as Hold.
  assert (Keep : forall x j, x <> cn -> x <> nmf L -> lookup f x = Some j ->
                 lookup f3 x = Some j /\ inode f3 j = inode f j).
  { intros x j H1 H2 Lj. split; [rewrite L3o by assumption; exact Lj|]. apply Ioth.
    - pose proof (wf_bound _ W _ _ Lj). rewrite Hnew. lia.
    - intros ->. apply H1. exact (wf_inj _ W _ _ _ Lj Hc). }
  constructor.
  - rewrite glen_snoc. fold L. lia.
  - apply nd_append. apply nd_create; [exact L1c|]. eapply nd_rename; eassumption.
  - intros i Hi. rewrite glen_snoc in Hi. fold L in Hi.
    destruct (Nat.eq_dec i L) as [->|Hne].
    + exists old. split; [exact L3t|]. split.
      * rewrite Iold. exact Hcp.
      * unfold content at 1. rewrite Iold. cbn [with_data fdata]. unfold L. rewrite app_nth2, Nat.sub_diag by lia. reflexivity.
    + destruct (Hp i ltac:(lia)) as (j & Lj & Pj & Cj).
      destruct (Keep (nmf i) j) as [Lj' Ij']; [exact (proj1 (gn_cn _ _ _ GN i ltac:(lia))) | intros E; apply (gn_inj _ _ _ GN) in E; lia | exact Lj|].
      exists j. split; [exact Lj'|]. unfold content. rewrite Ij'. split; [exact Pj|]. rewrite app_nth1 by (fold L; lia). exact Cj.
  - intros i Hi. destruct (Ha i Hi) as (j & Lj & Dj & Gj & Fj).
    destruct (Keep (gzf nmf i) j) as [Lj' Ij']; [exact (proj2 (gn_cn _ _ _ GN i ltac:(lia))) | apply (gzf_not_nmf _ _ _ GN); lia | exact Lj|].
    exists j. rewrite Ij'. split; [exact Lj'|]. split; [|auto]. rewrite app_nth1 by (fold L; lia). exact Dj.
  - intros x j Hx. rewrite glen_snoc. fold L.
    destruct (beq_spec x cn) as [->|Hn1]; [left; reflexivity|].
    destruct (beq_spec x (nmf L)) as [->|Hn2].
    + right. left. exists L. split; [lia | reflexivity].
    + rewrite L3o in Hx by assumption. destruct (Hon _ _ Hx) as [E|[(i & Hi & E)|(i & Hi & E)]]; [contradiction| |].
      * right. left. exists i. split; [lia | exact E].
      * right. right. exists i. split; [lia | exact E].
Qed.

(* ---- appending to the inode of cn ---- *)
Lemma gdir_append_r nmf cn f closed lo mid old x :
  gnames nmf cn (length closed) -> fs_wf f -> lookup f cn = Some old ->
  gdir nmf cn f closed lo mid -> gdir nmf cn (append_ino f old x) closed lo mid.
Proof.
  intros GN W Hc [Hle Hnd Hp Ha Hon].
  pose proof (wf_bound _ W _ _ Hc) as Hold.
  assert (Oth : forall n j, n <> cn -> lookup f n = Some j -> inode (append_ino f old x) j = inode f j).
  { intros n j Hn Lj. rewrite inode_append by assumption. destruct (Nat.eqb_spec j old) as [->|_]; [|reflexivity].
    exfalso. apply Hn. exact (wf_inj _ W _ _ _ Lj Hc). }
  constructor.
  - exact Hle.
  - apply nd_append. exact Hnd.
  - intros i Hi. destruct (Hp i Hi) as (j & Lj & Pj & Cj). exists j. rewrite lookup_append. split; [exact Lj|].
    unfold content. rewrite (Oth _ _ (proj1 (gn_cn _ _ _ GN i ltac:(lia))) Lj). auto.
  - intros i Hi. destruct (Ha i Hi) as (j & Lj & R). exists j. rewrite lookup_append. split; [exact Lj|].
    rewrite (Oth _ _ (proj2 (gn_cn _ _ _ GN i ltac:(lia))) Lj). exact R.
  - intros n j. rewrite lookup_append. apply Hon.
Qed.

(* ---- only cn: the directory after the first write ---- *)
Lemma gdir_only_cn nmf cn now :
  let f := {| names := [(cn, 0)]; inodes := [fresh_file now] |} in
  gdir nmf cn f [] 0 0 /\ lookup f cn = Some 0 /\ fs_wf f /\ inode f 0 = fresh_file now.
Proof.
  cbn zeta. set (f := {| names := [(cn, 0)]; inodes := [fresh_file now] |}).
  assert (Lc : lookup f cn = Some 0) by (unfold lookup; cbn; rewrite beq_refl; reflexivity).
  split; [|split; [exact Lc|split; [|reflexivity]]].
  - constructor.
    + cbn [length]. lia.
    + unfold nodup_names, dir_names. cbn [names map fst]. constructor; [intros [] | constructor].
    + cbn [length]. intros i Hi. lia.
    + intros i Hi. lia.
    + intros n j. unfold lookup; cbn. destruct (beq_spec cn n) as [<-|]; [|discriminate]. intros _. left. reflexivity.
  - split.
    + intros a j. unfold lookup; cbn. destruct (beq cn a); [|discriminate]. intros E; injection E as <-. lia.
    + intros a b j. unfold lookup; cbn. destruct (beq_spec cn a), (beq_spec cn b); try discriminate. congruence.
Qed.
