(* C19 at the level of whole histories, for a writer without rotation in direct mode: for EVERY fault sequence
   and EVERY list of records, the file holds exactly the records whose own write (and the opening it needed)
   succeeded, in order; every lost record is reported; after the last fault nothing is lost. *)
Require Import FL.Base.Bytes FL.Base.BytesFacts FL.Fs.Fs FL.Fs.FsFacts FL.Names.FileSpec FL.Flw.Model FL.Flw.ModelFacts FL.Flw.Run FL.Flw.RunFacts.
Open Scope nat_scope.

(* the configurations covered: no rotation, direct mode (no buffer), synchronous, no symlink, no start-time part *)
Definition plaincfg (c : config) : Prop :=
  c_rot c = None /\ c_cap c = None /\ c_async c = false /\ c_symlink c = false /\ fts (c_spec c) = false.

(* the specification: walk through the records with the fault oracle.  While no file is open, a record first
   needs the open call (one oracle entry); a failing open loses the record.  A non-empty record then needs one
   write call (one oracle entry).  Result: the bytes that reach the file, the number of reported failures, and the
   rest of the oracle. *)
Fixpoint sim (opened : bool) (fl : list bool) (recs : list bytes) : bytes * nat * list bool :=
  match recs with
  | [] => ([], 0, fl)
  | b :: rest =>
    let '(open_ok, fl1) := if opened then (true, fl) else match fl with [] => (true, []) | f :: r => (negb f, r) end in
    if open_ok then
      let '(write_ok, fl2) := match b with [] => (true, fl1) | _ => match fl1 with [] => (true, []) | f :: r => (negb f, r) end end in
      let '(data, errs, fl3) := sim true fl2 rest in
      if write_ok then (b ++ data, errs, fl3) else (data, S errs, fl3)
    else
      let '(data, errs, fl3) := sim false fl1 rest in (data, S errs, fl3)
  end.

Definition the_name (c : config) : bytes := as_name (c_spec c) (fixed_name_part (c_spec c) []) None.

(* the file content after the history (nothing if the file was never created) *)
Definition content_of (f : fs) (n : bytes) : bytes := match file_of f n with Some fl => fdata fl | None => [] end.

(* ------------------------------------------------------------------ invariants and single steps *)
Definition mkflw (c : config) (i : inner) : flw := {| f_cfg := c; f_inner := i; f_poisoned := false |}.
Definition mksys (s : flw) (w : world) : sys := {| s_flw := Some s; s_w := w; s_tl := []; s_dead := false |}.
Definition wr_step (b : bytes) (fl : list bool) : bool * list bool :=
  match b with [] => (true, fl) | _ => match fl with [] => (true, []) | f :: r => (negb f, r) end end.
Definition open_inv (c : config) (ino : nat) (x : sys) (data : bytes) (errs : nat) (fl : list bool) : Prop :=
  exists path w, x = mksys (mkflw c (Active None {| wino := ino; wpend := []; wcap := None |} path)) w
    /\ wkill w = None /\ fs_wf (wfs w) /\ lookup (wfs w) (the_name c) = Some ino
    /\ content (wfs w) ino = data /\ werrs w = repeat EWrite errs /\ wfaults w = fl.

Lemma open_step c ino x data errs fl b :
  c_async c = false /\ fts (c_spec c) = false -> open_inv c ino x data errs fl ->
  exists x', step x (OWrite b) = (x', ObsRes 0%N false)
    /\ open_inv c ino x' (if fst (wr_step b fl) then data ++ b else data)
                         (if fst (wr_step b fl) then errs else S errs) (snd (wr_step b fl)).
Proof.
  intros [Hasync Hts] (path & w & -> & K & W & L & C & E & F).
  rewrite step_plain by (unfold mksys, mkflw; cbn [s_flw]; intros s' Es'; injection Es' as <-; exact Hts).
  unfold step_core, mksys, mkflw; cbn [s_flw]. unfold is_async; cbn [f_cfg]. rewrite Hasync.
  unfold sync_step; cbn [s_flw s_tl s_w f_poisoned app s_dead].
  unfold write_buffer; cbn [f_inner f_cfg mount_next].
  unfold w_write; cbn [wcap wino]. unfold p_write.
  assert (Hi : ino < length (inodes (wfs w))) by (eapply wf_bound; eassumption).
  destruct b as [|b0 b].
  - (* the empty record: no call *)
    cbn [wr_step fst snd with_inner f_cfg f_poisoned]. eexists. split; [reflexivity|].
    exists path, w. rewrite app_nil_r. split; [reflexivity|]. tauto.
  - unfold tick. rewrite F. destruct fl as [|[|] r]; cbn [wr_step fst snd negb with_inner f_cfg f_poisoned].
    + (* oracle exhausted: the write succeeds *)
      eexists. split; [reflexivity|].
      exists path, (effect w (fun f => append_ino f ino (b0 :: b))).
      unfold effect, kill_step. rewrite K. cbn [set_kill set_fs wfs wkill werrs wfaults].
      split; [reflexivity|]. split; [reflexivity|]. split; [apply wf_append; assumption|].
      split; [rewrite lookup_append; assumption|].
      split; [rewrite content_append, Nat.eqb_refl, C by assumption; reflexivity|]. split; assumption.
    + (* injected failure *)
      eexists. split; [reflexivity|].
      exists path, (report EWrite (set_faults w r)).
      unfold report. cbn [set_faults wkill]. rewrite K. cbn [wfs wkill werrs wfaults].
      split; [reflexivity|]. split; [reflexivity|]. split; [assumption|]. split; [assumption|]. split; [assumption|].
      cbn [set_faults werrs wfaults]. split; [rewrite E; symmetry; apply repeat_cons | reflexivity].
    + eexists. split; [reflexivity|].
      exists path, (effect (set_faults w r) (fun f => append_ino f ino (b0 :: b))).
      unfold effect, kill_step. cbn [set_faults wkill]. rewrite K. cbn [set_kill set_fs set_faults wfs wkill werrs wfaults].
      split; [reflexivity|]. split; [reflexivity|]. split; [apply wf_append; assumption|].
      split; [rewrite lookup_append; assumption|].
      split; [rewrite content_append, Nat.eqb_refl, C by assumption; reflexivity|]. split; [assumption | reflexivity].
Qed.

Definition closed_inv (c : config) (x : sys) (errs : nat) (fl : list bool) : Prop :=
  exists w, x = mksys (mkflw c Initial) w
    /\ wkill w = None /\ fs_wf (wfs w) /\ lookup (wfs w) (the_name c) = None
    /\ werrs w = repeat EWrite errs /\ wfaults w = fl.

Lemma name_plain c w : fts (c_spec c) = false -> name_of c w None = the_name c.
Proof. intros H. unfold name_of, fixed_of, the_name, fixed_name_part. rewrite H. reflexivity. Qed.

Lemma closed_step_fail c x errs r b :
  plaincfg c -> closed_inv c x errs (true :: r) ->
  exists x', step x (OWrite b) = (x', ObsRes 0%N false) /\ closed_inv c x' (S errs) r.
Proof.
  intros (Hrot & Hcap & Hasync & Hsym & Hts) (w & -> & K & W & L & E & F).
  rewrite step_plain by (unfold mksys, mkflw; cbn [s_flw]; intros s' Es'; injection Es' as <-; exact Hts).
  unfold step_core, mksys, mkflw; cbn [s_flw]. unfold is_async; cbn [f_cfg]. rewrite Hasync.
  unfold sync_step; cbn [s_flw s_tl s_w f_poisoned app s_dead].
  unfold write_buffer; cbn [f_inner f_cfg].
  unfold initialize. rewrite Hrot. unfold open_log_file, do_symlink. rewrite Hsym.
  unfold p_open, tick. rewrite F. cbn [bind with_inner f_cfg f_poisoned].
  eexists. split; [reflexivity|].
  exists (report EWrite (set_faults w r)). split; [reflexivity|].
  unfold report. cbn [set_faults wkill]. rewrite K. cbn [set_faults wfs wkill werrs wfaults].
  split; [reflexivity|]. split; [assumption|]. split; [assumption|].
  split; [rewrite E; symmetry; apply repeat_cons | reflexivity].
Qed.

Lemma closed_step_open c x errs fl b :
  plaincfg c -> closed_inv c x errs fl -> hd false fl = false ->
  exists ino x1, step x (OWrite b) = step x1 (OWrite b) /\ open_inv c ino x1 [] errs (tl fl).
Proof.
  intros (Hrot & Hcap & Hasync & Hsym & Hts) (w & -> & K & W & L & E & F) Hhd.
  rewrite step_plain by (unfold mksys, mkflw; cbn [s_flw]; intros s' Es'; injection Es' as <-; exact Hts).
  unfold step_core, mksys, mkflw; cbn [s_flw]. unfold is_async; cbn [f_cfg]. rewrite Hasync.
  unfold sync_step; cbn [s_flw s_tl s_w f_poisoned app s_dead].
  unfold write_buffer; cbn [f_inner f_cfg].
  unfold initialize. rewrite Hrot. unfold open_log_file, do_symlink. rewrite Hsym, Hcap, name_plain by assumption.
  unfold p_open.
  set (w1 := snd (tick w)).
  assert (T : tick w = (false, w1)).
  { unfold w1, tick. rewrite F. destruct fl as [|f r]; [reflexivity|]. cbn in Hhd. subst f. reflexivity. }
  assert (K1 : wkill w1 = None) by (unfold w1, tick; rewrite F; destruct fl; cbn; assumption).
  assert (F1 : wfaults w1 = tl fl) by (unfold w1, tick; rewrite F; destruct fl; cbn; [assumption | reflexivity]).
  assert (S1 : wfs w1 = wfs w) by (unfold w1, tick; rewrite F; destruct fl; reflexivity).
  assert (E1 : werrs w1 = werrs w) by (unfold w1, tick; rewrite F; destruct fl; reflexivity).
  rewrite T. clearbody w1. unfold file_of. rewrite S1, L.
  set (op := fun f => if c_append c then open_append f (the_name c) (wnow w1) else open_trunc f (the_name c) 0%N (wnow w1)).
  change (if c_append c then open_append (wfs w) (the_name c) (wnow w1) else open_trunc (wfs w) (the_name c) 0%N (wnow w1)) with (op (wfs w)).
  assert (OP : let '(f', i) := op (wfs w) in fs_wf f' /\ lookup f' (the_name c) = Some i /\ content f' i = []).
  { unfold op. destruct (c_append c).
    - pose proof (open_append_spec (wfs w) (the_name c) (wnow w1) W) as S.
      destruct (open_append (wfs w) (the_name c) (wnow w1)) as [f' i].
      destruct S as (S_wf & S_l & _ & _ & _ & _ & S_new & _). destruct (S_new L) as [_ S_c]. auto.
    - pose proof (open_trunc_spec (wfs w) (the_name c) 0%N (wnow w1) W) as S.
      destruct (open_trunc (wfs w) (the_name c) 0%N (wnow w1)) as [f' i].
      destruct S as (S_wf & S_l & _ & S_c & _). auto. }
  destruct (op (wfs w)) as [f' i] eqn:Eop. destruct OP as (O_wf & O_l & O_c).
  cbn [snd bind fst].
  exists i. eexists (mksys (mkflw c (Active None {| wino := i; wpend := []; wcap := None |} (the_name c))) _).
  split.
  - rewrite step_plain by (unfold mksys, mkflw; cbn [s_flw]; intros s' Es'; injection Es' as <-; exact Hts).
    unfold step_core, mksys, mkflw; cbn [s_flw]. unfold is_async; cbn [f_cfg]. rewrite Hasync.
    unfold sync_step; cbn [s_flw s_tl s_w f_poisoned app s_dead].
    unfold write_buffer; cbn [f_inner f_cfg with_inner f_poisoned]. reflexivity.
  - exists (the_name c). eexists. split; [reflexivity|].
    unfold effect, kill_step. rewrite K1. cbn [set_kill set_fs wfs wkill werrs wfaults].
    rewrite S1. fold (op (wfs w)). rewrite Eop. cbn [fst].
    split; [reflexivity|]. split; [assumption|]. split; [assumption|]. split; [assumption|].
    split; [congruence | assumption].
Qed.

(* ------------------------------------------------------------------ unfolding sim *)
Lemma sim_true_cons fl b rest :
  sim true fl (b :: rest)
  = let '(data, errs, fl3) := sim true (snd (wr_step b fl)) rest in
    if fst (wr_step b fl) then (b ++ data, errs, fl3) else (data, S errs, fl3).
Proof. cbn [sim]. unfold wr_step. destruct b as [|b0 b]; [reflexivity|]. destruct fl as [|f r]; reflexivity. Qed.

Lemma sim_false_fail r b rest :
  sim false (true :: r) (b :: rest) = let '(data, errs, fl3) := sim false r rest in (data, S errs, fl3).
Proof. reflexivity. Qed.

Lemma sim_false_open fl b rest : hd false fl = false -> sim false fl (b :: rest) = sim true (tl fl) (b :: rest).
Proof. destruct fl as [|[|] r]; cbn [hd]; intros H; [reflexivity | discriminate | reflexivity]. Qed.

(* ------------------------------------------------------------------ whole runs *)
Definition all_ok (obs : list obs) : Prop := Forall (fun o => o = ObsRes 0%N false) obs.

Lemma open_run c ino recs : c_async c = false /\ fts (c_spec c) = false ->
  forall x data errs fl, open_inv c ino x data errs fl ->
  exists x' obs, run x (List.map OWrite recs) = (x', obs)
    /\ open_inv c ino x' (data ++ fst (fst (sim true fl recs))) (errs + snd (fst (sim true fl recs))) (snd (sim true fl recs))
    /\ all_ok obs.
Proof.
  intros Hasync. induction recs as [|b rest IH]; intros x data errs fl I.
  - exists x, []. cbn [List.map run sim fst snd]. rewrite app_nil_r, Nat.add_0_r.
    split; [reflexivity|]. split; [assumption | constructor].
  - destruct (open_step c ino x data errs fl b Hasync I) as (x1 & S1 & I1).
    destruct (IH _ _ _ _ I1) as (x' & obs & R & I' & Fo).
    exists x', (ObsRes 0%N false :: obs). cbn [List.map run]. rewrite S1, R. split; [reflexivity|].
    split; [|constructor; [reflexivity | assumption]].
    rewrite sim_true_cons.
    destruct (sim true (snd (wr_step b fl)) rest) as [[d e] f]. cbn [fst snd] in I'.
    destruct (fst (wr_step b fl)); cbn [fst snd].
    + rewrite app_assoc. assumption.
    + rewrite Nat.add_succ_r. assumption.
Qed.

Lemma open_final c ino x data errs fl : open_inv c ino x data errs fl ->
  content_of (wfs (s_w x)) (the_name c) = data /\ werrs (s_w x) = repeat EWrite errs /\ wfaults (s_w x) = fl.
Proof.
  intros (path & w & -> & K & W & L & C & E & F). unfold mksys; cbn [s_w].
  unfold content_of, file_of. rewrite L. auto.
Qed.

Lemma closed_run c recs : plaincfg c ->
  forall x errs fl, closed_inv c x errs fl ->
  exists x' obs, run x (List.map OWrite recs) = (x', obs)
    /\ content_of (wfs (s_w x')) (the_name c) = fst (fst (sim false fl recs))
    /\ werrs (s_w x') = repeat EWrite (errs + snd (fst (sim false fl recs)))
    /\ wfaults (s_w x') = snd (sim false fl recs)
    /\ all_ok obs.
Proof.
  intros P. induction recs as [|b rest IH]; intros x errs fl I.
  - exists x, []. cbn [List.map run sim fst snd]. rewrite Nat.add_0_r.
    destruct I as (w & -> & K & W & L & E & F). unfold mksys; cbn [s_w].
    unfold content_of, file_of. rewrite L. repeat split; try assumption. constructor.
  - destruct (hd false fl) eqn:Hhd.
    + (* the open call fails *)
      destruct fl as [|f r]; [discriminate|]. cbn [hd] in Hhd. subst f.
      destruct (closed_step_fail c x errs r b P I) as (x1 & S1 & I1).
      destruct (IH _ _ _ I1) as (x' & obs & R & Hc & He & Hf & Fo).
      exists x', (ObsRes 0%N false :: obs). cbn [List.map run]. rewrite S1, R. split; [reflexivity|].
      rewrite sim_false_fail. destruct (sim false r rest) as [[d e] f]. cbn [fst snd] in *.
      rewrite Nat.add_succ_r. repeat split; try assumption. constructor; [reflexivity | assumption].
    + (* the file is opened; from here on the file stays open *)
      destruct (closed_step_open c x errs fl b P I Hhd) as (ino & x1 & S1 & I1).
      assert (Hasync : c_async c = false /\ fts (c_spec c) = false) by (destruct P as (_ & _ & A & _ & T); split; assumption).
      destruct (open_run c ino (b :: rest) Hasync _ _ _ _ I1) as (x' & obs & R & I' & Fo).
      exists x', obs. split; [cbn [List.map run] in *; rewrite S1; exact R|].
      rewrite sim_false_open by assumption.
      destruct (open_final _ _ _ _ _ _ I') as (Hc & He & Hf). cbn [app] in Hc. auto.
Qed.

Theorem faults_norotation :
  forall c t0 off fl recs, plaincfg c ->
    let w0 := set_faults (world0 t0 off) fl in
    let x := fst (run {| s_flw := None; s_w := w0; s_tl := []; s_dead := false |} (OStart c :: List.map OWrite recs)) in
    content_of (wfs (s_w x)) (the_name c) = fst (fst (sim false fl recs))
    /\ werrs (s_w x) = repeat EWrite (snd (fst (sim false fl recs)))
    /\ (forall o, In o (snd (run {| s_flw := None; s_w := w0; s_tl := []; s_dead := false |} (OStart c :: List.map OWrite recs))) ->
          o = ObsRes 0%N false).
Proof.
  intros c t0 off fl recs P. cbv zeta.
  set (w0 := set_faults (world0 t0 off) fl).
  assert (I : closed_inv c (mksys (mkflw c Initial) w0) 0 fl).
  { exists w0. split; [reflexivity|]. split; [reflexivity|]. split; [apply wf_empty|]. repeat split; reflexivity. }
  destruct (closed_run c recs P _ _ _ I) as (x' & obs & R & Hc & He & _ & Fo).
  assert (Rn : run {| s_flw := None; s_w := w0; s_tl := []; s_dead := false |} (OStart c :: List.map OWrite recs)
               = (x', ObsRes 0%N false :: obs)).
  { change (run {| s_flw := None; s_w := w0; s_tl := []; s_dead := false |} (OStart c :: List.map OWrite recs))
      with (let '(x2, obs) := run (mksys (mkflw c Initial) w0) (List.map OWrite recs) in (x2, ObsRes 0%N false :: obs)).
    rewrite R. reflexivity. }
  rewrite Rn. cbn [fst snd]. split; [assumption|]. split; [assumption|].
  intros o [<-|Ho]; [reflexivity|]. unfold all_ok in Fo. rewrite Forall_forall in Fo. apply Fo. assumption.
Qed.
Print Assumptions faults_norotation.

(* consequences *)
Lemma sim_no_faults : forall recs opened, sim opened [] recs = (concat recs, 0, []).
Proof.
  induction recs as [|b rest IH]; intros opened; [reflexivity|].
  cbn [sim concat]. destruct opened, b; rewrite IH; reflexivity.
Qed.

Theorem no_faults_nothing_lost : forall recs, sim false [] recs = (concat recs, 0, []).
Proof. intros recs. apply sim_no_faults. Qed.
Print Assumptions no_faults_nothing_lost.

(* once the oracle is exhausted (no more failures) every further record is written *)
Theorem recovery : forall opened recs, fst (fst (sim opened [] recs)) = concat recs /\ snd (fst (sim opened [] recs)) = 0.
Proof. intros opened recs. rewrite sim_no_faults. split; reflexivity. Qed.
Print Assumptions recovery.

(* only records during whose handling a failure was injected can be missing: the result is a subsequence *)
Inductive Subseq : list bytes -> list bytes -> Prop :=
| sub_nil : Subseq [] []
| sub_keep x a b : Subseq a b -> Subseq (x :: a) (x :: b)
| sub_drop x a b : Subseq a b -> Subseq a (x :: b).
Theorem lost_only_failed : forall opened fl recs,
  exists kept, Subseq kept recs /\ fst (fst (sim opened fl recs)) = concat kept
               /\ length recs = length kept + snd (fst (sim opened fl recs)).
Proof.
  intros opened fl recs. revert opened fl. induction recs as [|b rest IH]; intros opened fl.
  - exists []. cbn [sim fst snd concat length]. repeat split. constructor.
  - assert (Keep : forall o f, let '(data, errs, fl3) := sim o f rest in
               exists kept, Subseq kept (b :: rest) /\ b ++ data = concat kept /\ length (b :: rest) = length kept + errs).
    { intros o f. destruct (IH o f) as (kept & Hs & Hd & Hl). destruct (sim o f rest) as [[d e] f3]. cbn [fst snd] in *.
      exists (b :: kept). cbn [concat length]. split; [constructor; assumption|]. split; [congruence | lia]. }
    assert (Drop : forall o f, let '(data, errs, fl3) := sim o f rest in
               exists kept, Subseq kept (b :: rest) /\ data = concat kept /\ length (b :: rest) = length kept + S errs).
    { intros o f. destruct (IH o f) as (kept & Hs & Hd & Hl). destruct (sim o f rest) as [[d e] f3]. cbn [fst snd] in *.
      exists kept. cbn [length]. split; [constructor; assumption|]. split; [assumption | lia]. }
    assert (Opened : forall f, exists kept, Subseq kept (b :: rest) /\ fst (fst (sim true f (b :: rest))) = concat kept
               /\ length (b :: rest) = length kept + snd (fst (sim true f (b :: rest)))).
    { intros f. rewrite sim_true_cons. specialize (Keep true (snd (wr_step b f))). specialize (Drop true (snd (wr_step b f))).
      destruct (sim true (snd (wr_step b f)) rest) as [[d e] f3]. destruct (fst (wr_step b f)); cbn [fst snd]; assumption. }
    destruct opened; [apply Opened|].
    destruct (hd false fl) eqn:Hhd.
    + destruct fl as [|f r]; [discriminate|]. cbn [hd] in Hhd. subst f. rewrite sim_false_fail.
      specialize (Drop false r). destruct (sim false r rest) as [[d e] f3]. cbn [fst snd]. assumption.
    + rewrite sim_false_open by assumption. apply Opened.
Qed.
Print Assumptions lost_only_failed.

(* ------------------------------------------------------------------ the statement, computed on examples *)
Definition ex_cfg (app : bool) : config :=
  {| c_spec := {| fbase := [97%N]; fdisc := None; fts := false; fsfx := Some [108%N; 111%N; 103%N] |};
     c_append := app; c_cap := None; c_rot := None; c_utc := false; c_symlink := false; c_bg := false; c_async := false; c_start := None |}.
Definition ex_run (app : bool) (fl : list bool) (recs : list bytes) : bytes * list ecode * list bool :=
  let x := fst (run {| s_flw := None; s_w := set_faults (world0 0%Z 0%Z) fl; s_tl := []; s_dead := false |}
                    (OStart (ex_cfg app) :: List.map OWrite recs)) in
  (content_of (wfs (s_w x)) (the_name (ex_cfg app)), werrs (s_w x), wfaults (s_w x)).
Definition ex_sim (fl : list bool) (recs : list bytes) : bytes * list ecode * list bool :=
  let '(d, n, r) := sim false fl recs in (d, repeat EWrite n, r).
(* open fails twice, succeeds, the write of the third record fails, the fourth is written *)
Example ex1 : ex_run false [true; true; false; true] [[1%N; 2%N]; [3%N]; [4%N]; [5%N; 6%N]] = ([5%N; 6%N], [EWrite; EWrite; EWrite], [])
              /\ ex_sim [true; true; false; true] [[1%N; 2%N]; [3%N]; [4%N]; [5%N; 6%N]] = ([5%N; 6%N], [EWrite; EWrite; EWrite], []).
Proof. split; vm_compute; reflexivity. Qed.
(* an empty record opens the file (one oracle entry) but needs no write call *)
Example ex2 : ex_run true [false; true; false] [[]; [1%N]; []; [2%N]] = ([2%N], [EWrite], [])
              /\ ex_sim [false; true; false] [[]; [1%N]; []; [2%N]] = ([2%N], [EWrite], []).
Proof. split; vm_compute; reflexivity. Qed.
