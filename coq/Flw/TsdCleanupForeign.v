(* Files that are not members of the logger's file family are ignored - TimestampsDirect naming WITH a cleanup strategy
   (TsdForeign.v does this without cleanup; NumDCleanupForeign.v for NumbersDirect naming with cleanup):
   the cleanup (cleanup_impl with the time-stamp filter and cur = Some (the file being written)) lists, removes and
   compresses family files only - tsd_member rejects the foreign names, so they are not in the listing it works on; the
   archive name of a listed plain file is a family name, too.
   A run in a directory pre-filled with foreign files is, step by step, the embedding (ForeignFs.embed) of the run in the
   empty directory: same observations, foreign files untouched (neither removed nor compressed), family files as in the
   clean run.
   The embedding lemmas (sections CleanupFlt, CfgTdK) hold for every world, faults and kills included, whose clock shows a
   year 1970..9999; the run level is ForeignGen.v; the run invariant is TsdCleanupRun.RelTK. *)
Require Import FL.Base.Bytes FL.Base.BytesFacts FL.Base.PathName FL.Fs.Fs FL.Fs.FsFacts FL.Time.Civil FL.Time.TsFormat
  FL.Names.FileSpec FL.Names.NamesFacts FL.Names.SortFacts FL.Names.FamilyFacts FL.Flw.Model FL.Flw.ModelFacts FL.Flw.NumFs
  FL.Flw.NumInv FL.Flw.Run FL.Flw.RunFacts FL.Flw.NumRun FL.Oracles.O_Flw FL.Flw.NumTheorems FL.Flw.NumListing FL.Flw.CleanupFacts
  FL.Flw.NumKillRestart FL.Flw.NumDInv FL.Flw.NumDRun
  FL.Flw.NumCleanupNames FL.Flw.NumCleanupStep FL.Flw.NumCleanupRun FL.Flw.NumCleanup FL.Flw.NumDCleanupStep FL.Flw.NumDCleanupRun
  FL.Flw.TsCal FL.Flw.TsTime FL.Flw.TsMono FL.Flw.TsNames FL.Flw.TsInv FL.Flw.TsRun FL.Flw.TsTheorems FL.Flw.TsParse
  FL.Flw.TsdInv FL.Flw.TsdRun FL.Flw.TsdTheorems
  FL.Flw.ForeignFs FL.Flw.ForeignSort FL.Flw.ForeignModel FL.Flw.NumForeign FL.Flw.NumCleanupForeign FL.Flw.ForeignGen
  FL.Flw.TsForeignFacts FL.Flw.TsdForeign
  FL.Flw.GenCleanup FL.Flw.TsCleanupNames FL.Flw.TsdCleanupRun FL.Flw.TsdCleanup.
From Coq Require Import ZifyN ZifyNat ZifyBool.
Open Scope nat_scope.

(* ------------------------------------------------------------------ the cleanup, for any infix filter *)
(* What is needed of the filter: the listing of the rotated files (plain and compressed) does not see the stock, and every
   listed name is a name of the family whose archive name is one, too (unless it is an archive itself). *)
Section CleanupFlt.
Variable fn : list (bytes * nat).
Variable fi : list file.
Variable c : config.
Variable flt : infix_filter.
Hypothesis Hts : fts (c_spec c) = false.
Hypothesis Hlist : forall off f,
  list_log_gz off (c_spec c) (fixed0 c) (embed fn fi f) flt = list_log_gz off (c_spec c) (fixed0 c) f flt.
Hypothesis Hown : forall off f files, list_log_gz off (c_spec c) (fixed0 c) f flt = Some files ->
  forall n, In n files -> ~ In n (fnames fn) /\ (ext_is n gz_sfx = true \/ ~ In (gz_name n) (fnames fn)).
Notation embw := (embedw fn fi).
Notation emb := (embed fn fi).

Lemma cleanup_body_embed_flt w ll total cur :
  (let '(fl, w1) := tick (embw w) in
   if fl then (@Err unit, w1) else
   match list_log_gz (woff w1) (c_spec c) (fixed_of c w1) (wfs w1) flt with
   | None => (Panic, w1)
   | Some files =>
     let '(ok0, w1', files') := remove_redundant w1 (redundant_gz files) files in
     if negb ok0 then (Err, w1') else
     let '(ok, w2) := cleanup_loop w1' files' 0 ll total cur in
     ((if ok then Ok tt else Err), w2)
   end)
  = lw fn fi (let '(fl, w1) := tick w in
        if fl then (@Err unit, w1) else
        match list_log_gz (woff w1) (c_spec c) (fixed_of c w1) (wfs w1) flt with
        | None => (Panic, w1)
        | Some files =>
          let '(ok0, w1', files') := remove_redundant w1 (redundant_gz files) files in
          if negb ok0 then (Err, w1') else
          let '(ok, w2) := cleanup_loop w1' files' 0 ll total cur in
          ((if ok then Ok tt else Err), w2)
        end).
Proof.
  rewrite tick_embed. destruct (tick w) as [fl w1]. cbn [lw fst snd]. destruct fl; [reflexivity|].
  rewrite !(fixed_of_embed c Hts). change (wfs (embw w1)) with (emb (wfs w1)). change (woff (embw w1)) with (woff w1).
  rewrite Hlist.
  destruct (list_log_gz (woff w1) (c_spec c) (fixed0 c) (wfs w1) flt) as [files|] eqn:El; [|reflexivity].
  pose proof (Hown _ _ _ El) as Hown'.
  rewrite remove_redundant_embed by (intros n Hn; unfold redundant_gz in Hn; apply filter_In in Hn; apply Hown'; apply Hn).
  destruct (remove_redundant w1 (redundant_gz files) files) as [[ok0 w1'] files'] eqn:Er.
  destruct ok0; cbn [negb]; [|reflexivity].
  rewrite cleanup_loop_embed by (intros n Hn; apply Hown'; eapply remove_redundant_incl; eassumption).
  destruct (cleanup_loop w1' files' 0 ll total cur) as [ok w2]. reflexivity.
Qed.

Lemma cleanup_impl_embed_flt w kc cur : cleanup_impl c (embw w) kc flt cur = lw fn fi (cleanup_impl c w kc flt cur).
Proof.
  unfold cleanup_impl. destruct kc as [|a|b|a b]; [reflexivity| | |]; apply cleanup_body_embed_flt.
Qed.
End CleanupFlt.

(* ------------------------------------------------------------------ the time-stamp filter *)
(* a name that is listed as an archive has the extension gz *)
Lemma fam_q_gz_ext c n : fam_q c (Some gz_sfx) n = true -> ext_is n gz_sfx = true.
Proof.
  intros H. destruct (fam_q_shape c _ n H) as [y Shape].
  unfold fam_q in H. destruct (infix_candidate (fsfx (c_spec c)) (Some gz_sfx) (fixed0 c) n) as [infix|] eqn:E; [|discriminate].
  unfold infix_candidate in E. destruct (strip_suffix (dot :: gz_sfx) n) as [stem|] eqn:Es; [|discriminate].
  apply strip_suffix_spec in Es. fold dot_gz in Es. rewrite Es, <- gz_name_app. apply ext_is_gz_name.
  intros ->. cbn [app] in Es. rewrite Es in Shape. unfold under in Shape. destruct (fixed0 c) as [|f0 [|f1 fr]].
  - cbn [app] in Shape. unfold dot_gz in Shape. injection Shape as Shape _. discriminate.
  - cbn [app] in Shape. unfold dot_gz, gz_sfx in Shape. injection Shape as _ Shape _. discriminate.
  - apply (f_equal (@length N)) in Shape. cbn [app] in Shape. cbn [length dot_gz gz_sfx] in Shape.
    rewrite ?app_length in Shape. cbn [length] in Shape. lia.
Qed.

Section TsFlt.
Variable fn : list (bytes * nat).
Variable fi : list file.
Variable c : config.
Hypothesis Hforeign : forall n, In n (fnames fn) -> tsd_member c n = false.
Notation fnm := (fnames fn).

Lemma list_log_gz_embed_tk off f :
  list_log_gz off (c_spec c) (fixed0 c) (embed fn fi f) (IFTs std_fmt) = list_log_gz off (c_spec c) (fixed0 c) f (IFTs std_fmt).
Proof.
  apply (list_log_gz_embed_g fn fi).
  - intros n Hn. destruct (foreign_q fn c Hforeign n Hn) as [Q _]. rewrite (fam_q_qf c _ _ off) in Q. exact Q.
  - intros n Hn. destruct (foreign_q fn c Hforeign n Hn) as [_ [Q _]]. rewrite (fam_q_qf c _ _ off) in Q. exact Q.
Qed.

(* every listed name is a member of the family, and so is the name of its archive, unless it is an archive itself *)
Lemma listed_own_tk off f files : fsfx (c_spec c) <> Some gz_sfx ->
  list_log_gz off (c_spec c) (fixed0 c) f (IFTs std_fmt) = Some files ->
  forall n, In n files -> ~ In n fnm /\ (ext_is n gz_sfx = true \/ ~ In (gz_name n) fnm).
Proof.
  intros Hs. unfold list_log_gz, existing_rot, sel_log_gz. cbn [sel_plain sel_gz sel_rcur sel_custom].
  rewrite !filter_files_total. cbn [app_opt]. intros E. injection E as <-. intros n Hn. rewrite !app_nil_r in Hn.
  apply in_app_or in Hn. destruct Hn as [Hn|Hn]; apply filter_In in Hn; destruct Hn as [_ Q]; rewrite <- (fam_q_qf c _ _ off) in Q.
  - split.
    + intros Hf. destruct (foreign_q fn c Hforeign n Hf) as [Q' _]. congruence.
    + right. intros Hf. pose proof (fam_q_gz_name c n Hs Q) as Q'. rewrite <- gz_name_app in Q'.
      destruct (foreign_q fn c Hforeign _ Hf) as [_ [Q'' _]]. congruence.
  - split.
    + intros Hf. destruct (foreign_q fn c Hforeign n Hf) as [_ [Q' _]]. congruence.
    + left. eapply fam_q_gz_ext. exact Q.
Qed.

(* the cleanup of the time-stamp namings *)
Lemma cleanup_impl_embed_ts w kc cur : fts (c_spec c) = false -> kc = KNever \/ fsfx (c_spec c) <> Some gz_sfx ->
  cleanup_impl c (embedw fn fi w) kc (IFTs std_fmt) cur = lw fn fi (cleanup_impl c w kc (IFTs std_fmt) cur).
Proof.
  intros Hts [->|Hs]; [reflexivity|].
  apply (cleanup_impl_embed_flt fn fi c (IFTs std_fmt) Hts); [apply list_log_gz_embed_tk|].
  intros off f files. apply listed_own_tk. exact Hs.
Qed.
End TsFlt.

(* ------------------------------------------------------------------ the state machine *)
Section CfgTdK.
Variable fn : list (bytes * nat).
Variable fi : list file.
Variable c : config.
Variable crit : criterion.
Variable kc : cleanup.
(* TimestampsDirect naming with cleanup strategy kc, no start-time part in the names, no symlink; with a cleanup: no cleanup
   thread, and the suffix is not "gz" *)
Hypothesis Hrot : c_rot c = Some (crit, NTimestampsDirect, kc).
Hypothesis Hts : fts (c_spec c) = false.
Hypothesis Hlink : c_symlink c = false.
Hypothesis Hk : kc = KNever \/ (c_bg c = false /\ fsfx (c_spec c) <> Some gz_sfx).
Hypothesis Hforeign : forall n, In n (fnames fn) -> tsd_member c n = false.
Notation fnm := (fnames fn).
Notation embw := (embedw fn fi).

Lemma hk_weak_tdk : kc = KNever \/ fsfx (c_spec c) <> Some gz_sfx.
Proof. destruct Hk as [H|[_ H]]; [left | right]; exact H. Qed.

Lemma cleanup_match_tdk (w3 : world) flt d :
  match kc with KNever => (Ok tt, w3) | _ => cleanup_impl c w3 kc flt d end = cleanup_impl c w3 kc flt d.
Proof. destruct kc; reflexivity. Qed.

Lemma bg_false_tdk : match kc with KNever => false | _ => c_bg c end = false.
Proof. destruct Hk as [->|[Hb _]]; [reflexivity|]. destruct kc; [reflexivity | exact Hb | exact Hb | exact Hb]. Qed.

(* the states of a writer with TimestampsDirect naming and the cleanup strategy kc (no cleanup thread) *)
Definition good_inner_tdk (st : inner) : Prop :=
  match st with
  | Active (Some rs) _ _ => (exists ts, rs_naming rs = NSTs ts None std_fmt) /\ rs_cleanup rs = kc /\ rs_bg rs = false
  | _ => True
  end.

Lemma mount_next_embed_tdk w st force : good_inner_tdk st -> in_years (eoff c w) (wnow w) ->
  mount_next c (embw w) (shin fi st) force = lm fn fi (mount_next c w st force).
Proof.
  intros G Y. destruct st as [|[rs|] wr path]; try reflexivity.
  destruct G as [[ts En] [Ek Eb]]. destruct rs as [ns roll kc0 bg]. cbn [rs_naming rs_cleanup rs_bg] in En, Ek, Eb. subst ns kc0 bg.
  unfold mount_next. cbn [shin rs_roll rs_naming rs_cleanup rs_bg]. rewrite rotation_necessary_embed.
  destruct (force || rotation_necessary w roll); [|reflexivity].
  change (wnow (embw w)) with (wnow w). rewrite (infix_from_ts_embed fn fi c).
  destruct (infix_ok c w (wnow w) Y) as [Hl Hd].
  rewrite (collision_free_embed fn fi c Hts Hforeign) by assumption.
  destruct (collision_free c w (infix_from_ts c w std_fmt (wnow w))) as [r w1] eqn:Ec. cbn [lw fst snd].
  destruct r as [i| |]; [|reflexivity|reflexivity].
  assert (Hn : ~ In (name_of c w1 (Some i)) fnm) by (eapply (collision_free_name_own fn c Hts Hforeign); eassumption).
  rewrite (open_log_file_embed fn fi c Hlink) by exact Hn.
  destruct (open_log_file c w1 (Some i)) as [r2 w2] eqn:Eo. cbn [fst snd].
  destruct r2 as [[wr' path']| |]; cbn [shwp]; [|reflexivity|reflexivity].
  apply open_log_file_path in Eo. subst path'.
  rewrite w_flush_embed. destruct (w_flush w2 wr) as [[okf w2a] wra]. cbn [lw3].
  replace (if okf then embw w2a else report EFlush (embw w2a)) with (embw (if okf then w2a else report EFlush w2a))
    by (destruct okf; [reflexivity | symmetry; apply report_embed]).
  rewrite w_drop_embed, reset_size_and_date_embed by exact Hn.
  unfold cleanup_or_queue. cbn [ns_filter ns_writes_direct].
  rewrite (cleanup_impl_embed_ts fn fi c Hforeign _ _ _ Hts hk_weak_tdk).
  destruct (cleanup_impl c (w_drop (if okf then w2a else report EFlush w2a) wra) kc (IFTs std_fmt) (Some _)) as [rc w4]. reflexivity.
Qed.

(* the initialisation: the time stamp that latest_timestamp_file finds (the clock, unless the writer appends and finds
   files of the family) must be one of the years 1970..9999 *)
Lemma initialize_embed_tdk w :
  (forall ts w1, latest_timestamp_file c w (negb (c_append c)) std_fmt = (Ok ts, w1) -> in_years (eoff c w1) ts) ->
  initialize c (embw w) = (shres fi (fst (initialize c w)), embw (snd (initialize c w))).
Proof.
  intros HY. unfold initialize. rewrite Hrot. unfold init_naming.
  rewrite (latest_timestamp_file_embed fn fi c Hts Hforeign).
  destruct (latest_timestamp_file c w (negb (c_append c)) std_fmt) as [r w1] eqn:El.
  destruct r as [ts| |]; cbn [lw fst snd bind]; [|reflexivity|reflexivity].
  specialize (HY ts w1 eq_refl). rewrite (infix_from_ts_embed fn fi c).
  destruct (infix_ok c w1 ts HY) as [Hl Hd].
  rewrite (collision_free_embed fn fi c Hts Hforeign) by assumption.
  destruct (collision_free c w1 (infix_from_ts c w1 std_fmt ts)) as [r2 w2] eqn:Ec.
  destruct r2 as [next| |]; cbn [lw fst snd bind]; [|reflexivity|reflexivity].
  assert (Hnext : forall w'', ~ In (name_of c w'' (Some next)) fnm)
    by (eapply (collision_free_name_own fn c Hts Hforeign); eassumption).
  match goal with |- bind ?A _ = (shres fi (fst (bind ?B _)), _) =>
    assert (EX : exists inf', B = (Ok (NSTs ts None std_fmt, inf'), w2) /\ A = (Ok (NSTs ts None std_fmt, inf'), embw w2)
                              /\ forall w'', ~ In (name_of c w'' (Some inf')) fnm) end.
  { destruct (c_append c); [|exists next; auto].
    destruct (newest_of_next (infix_from_ts c w1 std_fmt ts) next) as [newest|] eqn:En; [|exists next; auto].
    assert (Hnew : forall w'', ~ In (name_of c w'' (Some newest)) fnm).
    { intros w''. destruct (newest_of_next_shape _ _ _ En) as [rs [Hr ->]]. rewrite (name_of_nm c Hts).
      apply (built_name_own fn c Hforeign); assumption. }
    rewrite ?name_of_embed. change (wfs (embw w2)) with (embed fn fi (wfs w2)). rewrite lookup_embed_own by apply Hnew.
    destruct (lookup (wfs w2) (name_of c w2 (Some newest))); [exists newest | exists next]; auto. }
  destruct EX as [inf' [-> [-> Hn]]]. cbn [bind].
  rewrite (open_log_file_embed fn fi c Hlink) by apply Hn.
  destruct (open_log_file c w2 (Some inf')) as [r3 w3] eqn:Eo. cbn [fst snd].
  destruct r3 as [[wr path]| |]; cbn [shwp bind]; [|reflexivity|reflexivity].
  apply open_log_file_path in Eo. subst path.
  rewrite (roll_new_embed fn fi) by apply Hn.
  destruct (roll_new w3 crit (c_append c) (name_of c w2 (Some inf'))) as [r4 w4]. cbn [lw fst snd].
  destruct r4 as [roll| |]; cbn [lw fst snd bind]; [|reflexivity|reflexivity].
  cbn [ns_filter naming_writes_direct]. rewrite !cleanup_match_tdk, (cleanup_impl_embed_ts fn fi c Hforeign _ _ _ Hts hk_weak_tdk), bg_false_tdk.
  destruct (cleanup_impl c w4 kc (IFTs std_fmt) (Some _)) as [r5 w5]. cbn [lw fst snd]. destruct r5; reflexivity.
Qed.
End CfgTdK.

(* ------------------------------------------------------------------ the states of the run in the clean directory *)
Section RunTdK.
Variable fn : list (bytes * nat).
Variable fi : list file.
Variable c : config.
Variable crit : criterion.
Variable k : cleanup.
Variables e lo hi : Z.
Hypothesis Hcfg : tsdkcfg c crit k.
Hypothesis Hsfx : sfx_ok (c_spec c).
Hypothesis Hyears : years_ok e lo hi.
Hypothesis Hforeign : forall n, In n (fnames fn) -> tsd_member c n = false.

Definition good_tdk (x : sys) : Prop := (exists a n, RelTK c crit k e lo n x a) /\ (wnow (s_w x) <= hi)%Z.

Lemma hk_tdk : k = KNever \/ (c_bg c = false /\ fsfx (c_spec c) <> Some gz_sfx).
Proof. right. destruct Hcfg as (_ & _ & _ & _ & Hbg). split; [exact Hbg | apply sfx_ok_not_gz'; exact Hsfx]. Qed.

Lemma good_tdk_cfg x s : good_tdk x -> s_flw x = Some s -> f_cfg s = c /\ f_poisoned s = false.
Proof.
  intros [[a [n [_ [_ R]]]] _] Es. destruct a as [[closed cur]|].
  - destruct R as [keys [wr [roll [E _]]]]. rewrite E in Es. injection Es as <-. split; reflexivity.
  - destruct R as [E _]. rewrite E in Es. injection Es as <-. split; reflexivity.
Qed.

Lemma good_tdk_years x : good_tdk x -> in_years (eoff c (s_w x)) (wnow (s_w x)).
Proof.
  intros [[a [n [_ [_ R]]]] Hhi]. destruct a as [[closed cur]|].
  - destruct R as [keys [wr [roll [_ [I _]]]]]. rewrite (tk_off _ _ _ _ _ _ _ _ _ I).
    apply (years_in e lo hi); [exact Hyears|]. pose proof (tk_now _ _ _ _ _ _ _ _ _ I). lia.
  - destruct R as [_ [_ [_ [_ [Hoff Hlo]]]]]. rewrite Hoff. apply (years_in e lo hi); [exact Hyears | lia].
Qed.

Lemma good_tdk_inner x s : good_tdk x -> s_flw x = Some s -> good_inner_tdk k (f_inner s).
Proof.
  intros [[a [n [_ [_ R]]]] _] Es. destruct a as [[closed cur]|].
  - destruct R as [keys [wr [roll [E _]]]]. rewrite E in Es. injection Es as <-. cbn. split; [eauto | split; reflexivity].
  - destruct R as [E _]. rewrite E in Es. injection Es as <-. exact Logic.I.
Qed.

Lemma mount_next_embed_good_tdk x s : good_tdk x -> s_flw x = Some s ->
  mount_next c (embedw fn fi (s_w x)) (shin fi (f_inner s)) true = lm fn fi (mount_next c (s_w x) (f_inner s) true).
Proof.
  intros G Es. destruct Hcfg as (Hrot & Hts & Hlink & _).
  apply (mount_next_embed_tdk fn fi c k Hts Hlink hk_tdk Hforeign); [eapply good_tdk_inner; eassumption | apply good_tdk_years; exact G].
Qed.

Lemma write_buffer_embed_good_tdk x s b : good_tdk x -> s_flw x = Some s ->
  write_buffer (embeds fi s) (embedw fn fi (s_w x)) b = lwb fn fi (write_buffer s (s_w x) b).
Proof.
  intros G Es. pose proof Hcfg as (Hrot & Hts & Hlink & _). pose proof (good_tdk_years x G) as Y.
  pose proof (good_tdk_inner x s G Es) as Gi. destruct (good_tdk_cfg x s G Es) as [Ec _].
  destruct G as [[a [n [_ [_ R]]]] Hhi].
  apply (write_buffer_embed_pt fn fi c); [exact Ec | |].
  - (* a new writer: the directory of the clean run is empty, the time stamp is the clock's *)
    intros Hi. destruct a as [[closed cur]|].
    + destruct R as [keys [wr [roll [E _]]]]. rewrite E in Es. injection Es as <-. discriminate Hi.
    + destruct R as [_ [Q [Hn _]]]. apply (initialize_embed_tdk fn fi c crit k Hrot Hts Hlink hk_tdk Hforeign).
      intros ts w1 El. rewrite (latest_timestamp_file_empty c _ _ Q Hn) in El. injection El as <- <-. exact Y.
  - intros w0 st0 H0. destruct a as [[closed cur]|].
    + destruct R as [keys [wr [roll [E _]]]]. rewrite E in Es. injection Es as <-. cbn [st_tsdk f_inner] in H0.
      injection H0 as <- <-. apply (mount_next_embed_tdk fn fi c k Hts Hlink hk_tdk Hforeign); [exact Gi | exact Y].
    + destruct R as [E [Q [Hn [Hi [Hoff Hlo]]]]]. rewrite E in Es. injection Es as <-. cbn [new_flw f_inner] in H0.
      destruct (initialize_empty_tk c crit k e lo hi (s_w x) Hcfg Hsfx Hyears Hhi Q Hn Hi Hoff Hlo) as [w1 [wr [roll [Ei [_ [_ [_ [S1 _]]]]]]]].
      rewrite Ei in H0. injection H0 as <- <-.
      apply (mount_next_embed_tdk fn fi c k Hts Hlink hk_tdk Hforeign); [cbn; split; [eauto | split; reflexivity]|].
      rewrite (eoff_same_env c _ _ S1), (same_env_now _ _ S1). exact Y.
Qed.

(* the names of a directory of the invariant's shape (gdir with the names of the keys, no rCURRENT) are family names *)
Lemma tk_dir_own f keys all lo' mid' :
  (forall key, In key keys -> in_years e (fst key)) -> length keys = length all ->
  gdir (tname c e keys) (cname c) f all lo' mid' -> lookup f (cname c) = None ->
  forall n j, lookup f n = Some j -> ~ In n (fnames fn).
Proof.
  intros Yk Hlen KD Hnc n j Hj.
  assert (Yi : forall i, i < length all -> in_years e (fst (nth i keys kd))).
  { intros i Hi. apply Yk. apply nth_In. lia. }
  destruct (gd_only _ _ _ _ _ _ KD n j Hj) as [->|[[i [Hi ->]]|[i [Hi ->]]]].
  - rewrite Hnc in Hj. discriminate.
  - apply (kname_own fn c Hforeign). apply Yi. lia.
  - pose proof (gd_le _ _ _ _ _ _ KD) as Hle. unfold gzf, tname, kname. rewrite gz_name_app, infix_of_tail.
    assert (Y : in_years e (fst (nth i keys kd))) by (apply Yi; lia).
    apply (built_name_gz_own fn c Hforeign); [apply tsx_like; exact Y | exact (tsx_no_dot e _ Y) | apply ktail_restart_part].
Qed.

(* the directory of such a state holds no foreign name *)
Lemma good_tdk_fam x : good_tdk x -> fam_g fn good_tdk x.
Proof.
  intros G. split; [exact G|]. destruct G as [[a [n [_ [_ R]]]] Hhi].
  intros nme Hn. destruct a as [[closed cur]|].
  - destruct R as [keys [wr [roll [_ [I _]]]]]. apply dir_names_lookup in Hn. destruct Hn as [j Hj].
    apply (tk_dir_own _ keys _ _ _ (tk_years _ _ _ _ _ _ _ _ _ _ Hyears Hhi I)
             ltac:(rewrite glen_snoc; exact (tk_len _ _ _ _ _ _ _ _ _ I)) (tk_dir _ _ _ _ _ _ _ _ _ I) (tk_nocur _ _ _ _ _ _ _ _ _ I) nme j Hj).
  - destruct R as [_ [_ [E _]]]. unfold dir_names in Hn. rewrite E in Hn. destruct Hn.
Qed.
End RunTdK.

(* ------------------------------------------------------------------ THE THEOREM *)
(* Hypotheses as for timestampsdirect_cleanup_stream (the suffix is not gz and does not end with .gz; a clock that does
   not go backwards and stays within the years 1970..9999), and the foreign-name condition of
   timestampsdirect_foreign_ignored: the family test of the model (tsd_member) rejects the name. *)
Theorem timestampsdirect_cleanup_foreign_ignored c crit k t0 off foreign ops :
  tsdkcfg c crit k -> tag_ok c -> sfx_ok (c_spec c) -> Forall basic_op ops -> Forall tick_ok ops ->
  (0 <= t0 + ts_e c off)%Z -> (t0 + elapsed ops + ts_e c off < sec_max)%Z -> (N.of_nat (length ops) <= usize_max)%N ->
  NoDup (List.map fst foreign) ->
  (forall n, In n (List.map fst foreign) -> tsd_member c n = false) ->
  let ops' := OStart c :: ops ++ [OStop] in
  let rf := run (sys0f t0 off foreign) ops' in
  let r0 := run (sys0 t0 off) ops' in
  (* 1: the same observations; a snapshot shows the foreign files in addition *)
  List.map (strip_obs (List.map fst foreign)) (snd rf) = snd r0
  /\ (Forall (fun o => o <> OSnap) ops -> snd rf = snd r0)
  (* 2: the foreign files are in place, unchanged: neither removed nor compressed *)
  /\ (forall n d, In (n, d) foreign -> file_of (wfs (s_w (fst rf))) n = Some (plain_file t0 d))
  (* 3: every other name is what the run in the empty directory makes of it *)
  /\ (forall n, ~ In n (List.map fst foreign) -> file_of (wfs (s_w (fst rf))) n = file_of (wfs (s_w (fst r0))) n)
  /\ (forall n, In n (List.map fst foreign) -> file_of (wfs (s_w (fst r0))) n = None)
  (* the whole state: the run is the embedding of the run in the empty directory *)
  /\ fst rf = embedx (names (fs0f t0 foreign)) (inodes (fs0f t0 foreign)) (fst r0).
Proof.
  intros Hcfg T Hsfx Hb Htk Hlo Hhi Hmax ND Hfor. pose proof Hcfg as (Hrot & Hts & Hlink & Hasync & Hbg).
  destruct (fs0f_spec t0 foreign ND) as [Hd _].
  assert (Hforeign : forall n, In n (fnames (names (fs0f t0 foreign))) -> tsd_member c n = false).
  { intros n Hn. apply Hfor. rewrite <- Hd. exact Hn. }
  assert (Y : years_ok (ts_e c off) t0 (t0 + elapsed ops)) by (split; assumption).
  apply (foreign_ignored_g c (good_tdk c crit k (ts_e c off) t0 (t0 + elapsed ops)) t0 off foreign ops Hts Hasync).
  - intros x s G Es. eapply good_tdk_cfg; eassumption.
  - intros x s b G Es. apply (write_buffer_embed_good_tdk _ _ c crit k _ _ _ Hcfg Hsfx Y Hforeign); assumption.
  - intros x s G Es. apply (mount_next_embed_good_tdk _ _ c crit k _ _ _ Hcfg Hsfx Y Hforeign); assumption.
  - exact Hb.
  - exact ND.
  - intros i. apply (good_tdk_fam _ c crit k _ _ _ Y Hforeign).
    destruct (step (sys0 t0 off) (OStart c)) as [x0 ob0] eqn:E0.
    pose proof (start_rel_tk c crit k t0 off) as R0. rewrite E0 in R0. cbn [fst] in *.
    assert (W0 : wnow (s_w x0) = t0) by (cbn in E0; injection E0 as <- _; reflexivity).
    pose proof (elapsed_firstn_le ops Htk i) as El. pose proof (firstn_length_le ops i) as Ll.
    pose proof (run_rel_tk c crit k _ _ _ Hcfg Hsfx T Y (firstn i ops) x0 None 0 R0 (Forall_firstn' _ _ i Hb) (Forall_firstn' _ _ i Htk)
                  ltac:(lia) ltac:(cbn [Nat.add]; lia)) as [R1 [W1 _]].
    split; [eauto | lia].
  - intros n Hn. rewrite <- Hd in Hn.
    pose proof (timestampsdirect_cleanup_stream c crit k t0 off ops Hcfg T Hsfx Hb Htk Hlo Hhi Hmax) as [_ [V _]].
    set (f := wfs (s_w (fst (run (sys0 t0 off) (OStart c :: ops ++ [OStop]))))) in *.
    destruct (lookup f n) as [j|] eqn:Ej; [exfalso|reflexivity].
    destruct (a_run None ops (snd (run (fst (step (sys0 t0 off) (OStart c))) ops))) as [[closed cur]|].
    + destruct V as [keys [[Hlen [KD [_ Hnc]]] [_ Rg]]].
      refine (tk_dir_own _ c (ts_e c off) Hforeign f keys _ _ _ _ _ KD Hnc n j Ej Hn).
      * intros key Ik. apply (years_in _ _ _ _ Y). exact (Rg key Ik).
      * rewrite glen_snoc. exact Hlen.
    + unfold lookup in Ej. rewrite V in Ej. discriminate.
Qed.
Print Assumptions timestampsdirect_cleanup_foreign_ignored.

(* the names of the run - of a file and of its archive - are members of the family *)
Lemma memberd_kname c e k : in_years e (fst k) -> tsd_member c (kname c e k) = true.
Proof.
  intros Y. unfold tsd_member, kname. rewrite infix_of_tail.
  rewrite (built_name_member c); [reflexivity | apply tsx_like; exact Y | exact (tsx_no_dot _ _ Y) | apply ktail_restart_part].
Qed.

Lemma memberd_gkname c e k : in_years e (fst k) -> tsd_member c (gz_name (kname c e k)) = true.
Proof.
  intros Y. unfold tsd_member, kname. rewrite infix_of_tail, gz_name_app, strip_suffix_app.
  rewrite (built_name_member c); [apply orb_true_r | apply tsx_like; exact Y | exact (tsx_no_dot _ _ Y) | apply ktail_restart_part].
Qed.

(* timestampsdirect_cleanup carries over: what the directory with the foreign files holds after the run.
   closed, cur: the reader's view that the run would leave without cleanup; (n, m) = klimd k: n plain files - the file being
   written, the one of the last key, included - and m archives are kept.  K i: the name of the i-th file ever written,
   G i: the name of its archive. *)
Theorem timestampsdirect_cleanup_foreign_dir c crit k n m t0 off foreign ops closed cur :
  tsdkcfg c crit k -> klimd k = Some (n, m) -> tag_ok c -> sfx_ok (c_spec c) ->
  Forall basic_op ops -> Forall tick_ok ops ->
  (0 <= t0 + ts_e c off)%Z -> (t0 + elapsed ops + ts_e c off < sec_max)%Z -> (N.of_nat (length ops) <= usize_max)%N ->
  a_run None ops (snd (run (fst (step (sys0 t0 off) (OStart c))) ops)) = Some (closed, cur) ->
  NoDup (List.map fst foreign) ->
  (forall x, In x (List.map fst foreign) -> tsd_member c x = false) ->
  let ff := wfs (s_w (fst (run (sys0f t0 off foreign) (OStart c :: ops ++ [OStop])))) in
  let L := length closed in let lo := S L - (n + m) in let mid := S L - n in
  concat closed ++ cur = written ops
  /\ exists keys : list key,
       let K i := kname c (ts_e c off) (nth i keys kd) in
       let G i := gz_name (K i) in
       length keys = S L /\ keys_ok keys /\ (forall key, In key keys -> (t0 <= fst key <= t0 + elapsed ops)%Z)
       (* exactly these names exist *)
       /\ (forall x, file_of ff x <> None <->
             In x (List.map fst foreign) \/ (exists i, mid <= i <= L /\ x = K i) \/ (exists i, lo <= i < mid /\ x = G i))
       (* the foreign files as they were *)
       /\ (forall x d, In (x, d) foreign -> file_of ff x = Some (plain_file t0 d))
       (* the newest n - 1 closed files as they were closed, the next m as complete archives, the current file *)
       /\ (forall i, mid <= i < L ->
             exists fl, file_of ff (K i) = Some fl /\ fdata fl = nth i closed [] /\ fgz fl = 0%N /\ fdir fl = false)
       /\ (forall i, lo <= i < mid ->
             exists fl, file_of ff (G i) = Some fl /\ fdata fl = nth i closed [] /\ fgz fl = 1%N /\ fdir fl = false)
       /\ (exists fl, file_of ff (K L) = Some fl /\ fdata fl = cur /\ fgz fl = 0%N /\ fdir fl = false)
       (* older family files are gone; the originals of the archives, too *)
       /\ (forall i, i < lo -> file_of ff (K i) = None /\ file_of ff (G i) = None)
       /\ (forall i, lo <= i < mid -> file_of ff (K i) = None).
Proof.
  intros Hcfg Hk T Hsfx Hb Htk Hlo Hhi Hmax Ea ND Hfor ff L lo mid.
  destruct (timestampsdirect_cleanup_foreign_ignored c crit k t0 off foreign ops Hcfg T Hsfx Hb Htk Hlo Hhi Hmax ND Hfor) as (_ & _ & F2 & F3 & F4 & _).
  fold ff in F2, F3.
  destruct (timestampsdirect_cleanup c crit k n m t0 off ops closed cur Hcfg Hk T Hsfx Hb Htk Hlo Hhi Hmax Ea) as (P0 & keys & P).
  cbv zeta in P. fold L lo mid in P.
  set (f0 := wfs (s_w (fst (run (sys0 t0 off) (OStart c :: ops ++ [OStop]))))) in *.
  destruct P as (Hlen & Hko & Hrg & Pn & _ & _ & _ & _ & _ & _ & _ & Pp & Pa & Po & _ & _ & Pc).
  split; [exact P0|]. exists keys. cbv zeta.
  assert (Y : years_ok (ts_e c off) t0 (t0 + elapsed ops)) by (split; assumption).
  assert (Hrn : forall i, i <= L -> ~ In (kname c (ts_e c off) (nth i keys kd)) (List.map fst foreign)).
  { intros i Hi Hin. apply Hfor in Hin. rewrite memberd_kname in Hin; [discriminate|].
    apply (years_in _ _ _ _ Y). apply Hrg. apply nth_In. lia. }
  assert (Hgn : forall i, i <= L -> ~ In (gz_name (kname c (ts_e c off) (nth i keys kd))) (List.map fst foreign)).
  { intros i Hi Hin. apply Hfor in Hin. rewrite memberd_gkname in Hin; [discriminate|].
    apply (years_in _ _ _ _ Y). apply Hrg. apply nth_In. lia. }
  assert (Hex : forall x, file_of f0 x <> None <-> exists j, lookup f0 x = Some j).
  { intros x. unfold file_of. destruct (lookup f0 x) as [j|]; split; intros H; try congruence; eauto. destruct H; discriminate. }
  split; [exact Hlen|]. split; [exact Hko|]. split; [exact Hrg|].
  split; [|split; [exact F2|split; [|split; [|split; [|split]]]]].
  - intros x. destruct (in_dec bytes_eq_dec x (List.map fst foreign)) as [Hi|Hi].
    + split; [intros _; left; exact Hi|]. intros _. apply in_map_iff in Hi. destruct Hi as [[x' d] [E Hi]]. cbn in E. subst x'.
      rewrite (F2 x d Hi). discriminate.
    + rewrite (F3 x Hi), Hex, Pn. split; [intros H; right; exact H|]. intros [H|H]; [contradiction | exact H].
  - intros i Hi. rewrite (F3 _ (Hrn i ltac:(lia))). destruct (Pp i Hi) as [_ H]. exact H.
  - intros i Hi. rewrite (F3 _ (Hgn i ltac:(lia))). destruct (Pa i Hi) as [_ H]. exact H.
  - rewrite (F3 _ (Hrn L ltac:(lia))). exact Pc.
  - intros i Hi. assert (i <= L) by lia. rewrite (F3 _ (Hrn i ltac:(lia))), (F3 _ (Hgn i ltac:(lia))). destruct (Po i Hi) as [H1 H2].
    unfold file_of. rewrite H1, H2. split; reflexivity.
  - intros i Hi. rewrite (F3 _ (Hrn i ltac:(lia))). destruct (Pa i Hi) as [H1 _]. unfold file_of. rewrite H1. reflexivity.
Qed.
Print Assumptions timestampsdirect_cleanup_foreign_dir.

(* ------------------------------------------------------------------ example *)
Import String.StringSyntax.
Open Scope string_scope.
(* the current file, one more plain file and one archive are kept *)
Definition extd_k : config :=
  {| c_spec := c_spec extd_c; c_append := true; c_cap := Some 3%nat; c_rot := Some (CSize 3, NTimestampsDirect, KLogGz 2 1); c_utc := false;
     c_symlink := false; c_bg := false; c_async := false; c_start := None |}.

(* the near misses of TsdForeign.extd_foreign (among them the rCURRENT file and its archive, the files of the number
   namings), and near misses of the archive names *)
Definition extd_foreign_k : list (bytes * bytes) :=
  extd_foreign ++ [ (bs "a_r1970-01-01_00-00-00.log.gz.bak", bs "6"); (bs "a_r1970-01-01_00-00-00.gz", bs "7");
                    (bs "a_r1970-01-01_00-00-00.log.gzip", bs "8") ].

Example cleanup_foreign_hypotheses_td :
  tsdkcfg extd_k (CSize 3) (KLogGz 2 1) /\ tag_ok extd_k /\ sfx_ok (c_spec extd_k) /\ Forall basic_op extd_ops /\ Forall tick_ok extd_ops
  /\ (0 <= 0 + ts_e extd_k 0)%Z /\ (0 + elapsed extd_ops + ts_e extd_k 0 < sec_max)%Z
  /\ (N.of_nat (length extd_ops) <= usize_max)%N
  /\ NoDup (List.map fst extd_foreign_k)
  /\ (forall n, In n (List.map fst extd_foreign_k) -> tsd_member extd_k n = false).
Proof.
  split; [repeat split|]. split; [apply tag_free_ok; split; vm_compute; reflexivity|]. split; [vm_compute; reflexivity|].
  split; [repeat constructor|].
  split; [repeat (apply Forall_cons; [cbn [tick_ok]; first [exact Logic.I | lia]|]); apply Forall_nil|].
  split; [vm_compute; discriminate|]. split; [vm_compute; reflexivity|]. split; [vm_compute; discriminate|]. split.
  - repeat (constructor; [vm_compute; intuition discriminate|]). constructor.
  - intros n Hn. vm_compute in Hn.
    repeat (destruct Hn as [<-|Hn]; [vm_compute; reflexivity|]). destruct Hn.
Qed.

(* the theorem applied *)
Example cleanup_foreign_instance_td :
  List.map (strip_obs (List.map fst extd_foreign_k)) (snd (run (sys0f 0 0 extd_foreign_k) (OStart extd_k :: extd_ops ++ [OStop])))
  = snd (run (sys0 0 0) (OStart extd_k :: extd_ops ++ [OStop])).
Proof.
  destruct cleanup_foreign_hypotheses_td as (H1 & H2 & H3 & H4 & H5 & H6 & H7 & H8 & H9 & H10).
  exact (proj1 (timestampsdirect_cleanup_foreign_ignored extd_k (CSize 3) (KLogGz 2 1) 0 0 extd_foreign_k extd_ops H1 H2 H3 H4 H5 H6 H7 H8 H9 H10)).
Qed.

(* computed: the cleanup has removed the file of second 0 ("abcd"), compressed its successor restart-0000 ("ef") and kept
   the file of second 1 and the current file - and nothing else: the stranger's files of second 0 with other suffixes
   (.log.bak, .txt, none, .gz, .log.gz.bak, .log.gzip), the one with a two-digit restart counter, a_rCURRENT.log and its
   archive and the files with number infixes are left alone *)
Example cleanup_foreign_instance_dir_td :
  ex_snap (fst (run (sys0f 0 0 extd_foreign_k) (OStart extd_k :: extd_ops ++ [OStop])))
  = [ (bs "a.log", 0%N, bs "q");
      (bs "a_1970-01-01_00-00-00.log", 0%N, bs "o");
      (bs "a_r00001.log", 0%N, bs "2");
      (bs "a_r00001.log.gz", 0%N, bs "5");
      (bs "a_r1.log", 0%N, bs "u");
      (bs "a_r1970-01-01.log", 0%N, bs "4");
      (bs "a_r1970-01-01_00-00-00", 0%N, bs "t");
      (bs "a_r1970-01-01_00-00-00.gz", 0%N, bs "7");
      (bs "a_r1970-01-01_00-00-00.log.bak", 0%N, bs "w");
      (bs "a_r1970-01-01_00-00-00.log.gz.bak", 0%N, bs "6");
      (bs "a_r1970-01-01_00-00-00.log.gzip", 0%N, bs "8");
      (bs "a_r1970-01-01_00-00-00.restart-00.log", 0%N, bs "p");
      (bs "a_r1970-01-01_00-00-00.restart-0000.log.gz", 1%N, bs "ef");
      (bs "a_r1970-01-01_00-00-00.txt", 0%N, bs "z");
      (bs "a_r1970-01-01_00-00-01.log", 0%N, bs "ghij");
      (bs "a_r1970-01-01_00-00-01.restart-0000.log", 0%N, bs "k");
      (bs "a_r1x.log", 0%N, bs "1");
      (bs "a_r2030-01-01_00-00-00x.log", 0%N, bs "3");
      (bs "a_rCURRENT.log", 0%N, bs "s");
      (bs "a_rCURRENT.log.gz", 0%N, bs "n");
      (bs "a_rXYZ.log", 0%N, bs "x");
      (bs "ax_r1970-01-01_00-00-00.log", 0%N, bs "v");
      (bs "b.log", 0%N, bs "y") ]
  /\ ex_snap (fst (run (sys0 0 0) (OStart extd_k :: extd_ops ++ [OStop])))
  = [ (bs "a_r1970-01-01_00-00-00.restart-0000.log.gz", 1%N, bs "ef");
      (bs "a_r1970-01-01_00-00-01.log", 0%N, bs "ghij");
      (bs "a_r1970-01-01_00-00-01.restart-0000.log", 0%N, bs "k") ].
Proof. vm_compute. split; reflexivity. Qed.

(* the directory theorem applied: L = 3 closed files, n = 2, m = 1: lo = 1, mid = 2 *)
Example cleanup_foreign_dir_instance_td :
  let ff := wfs (s_w (fst (run (sys0f 0 0 extd_foreign_k) (OStart extd_k :: extd_ops ++ [OStop])))) in
  exists keys : list key,
    let K i := kname extd_k 0 (nth i keys kd) in
    length keys = 4 /\ keys_ok keys
    /\ (forall x d, In (x, d) extd_foreign_k -> file_of ff x = Some (plain_file 0 d))
    /\ (exists fl, file_of ff (gz_name (K 1)) = Some fl /\ fdata fl = bs "ef" /\ fgz fl = 1%N /\ fdir fl = false)
    /\ (exists fl, file_of ff (K 3) = Some fl /\ fdata fl = bs "k" /\ fgz fl = 0%N /\ fdir fl = false)
    /\ file_of ff (K 0) = None /\ file_of ff (gz_name (K 0)) = None /\ file_of ff (K 1) = None.
Proof.
  intros ff. destruct cleanup_foreign_hypotheses_td as (H1 & H2 & H3 & H4 & H5 & H6 & H7 & H8 & H9 & H10).
  assert (Ea : a_run None extd_ops (snd (run (fst (step (sys0 0 0) (OStart extd_k))) extd_ops))
               = Some ([bs "abcd"; bs "ef"; bs "ghij"], bs "k")) by (vm_compute; reflexivity).
  pose proof (timestampsdirect_cleanup_foreign_dir extd_k (CSize 3) (KLogGz 2 1) 2 1 0 0 extd_foreign_k extd_ops _ _
                H1 eq_refl H2 H3 H4 H5 H6 H7 H8 Ea H9 H10) as T.
  cbv zeta in T. fold ff in T. change (ts_e extd_k 0) with 0%Z in T.
  change (length [bs "abcd"; bs "ef"; bs "ghij"]) with 3 in T. cbn [Nat.sub Nat.add] in T.
  destruct T as (_ & keys & Hl & Hko & _ & _ & F & _ & A & C & O & O').
  exists keys. cbv zeta. split; [exact Hl|]. split; [exact Hko|].
  split; [exact F|]. split; [exact (A 1 ltac:(lia))|]. split; [exact C|].
  split; [exact (proj1 (O 0 ltac:(lia)))|]. split; [exact (proj2 (O 0 ltac:(lia)))|]. exact (O' 1 ltac:(lia)).
Qed.

(* THE BOUNDARY of "foreign" (model behaviour worth knowing): a file that this writer did not write but whose name follows
   the pattern - "a_r1960-01-01_00-00-00.log", a time stamp before the epoch - is a member (tsd_member = true), so the
   theorem does not speak about it: with append it carries the latest (the only) time stamp of the directory, the writer
   CONTINUES it ("ab" is appended to the stranger's "w"), and the cleanup treats it as the oldest family file: after the
   first rotation it is still there (two plain files are allowed), at the end of the history it has been REMOVED - with the
   stranger's bytes and the record "abcd".  With KLogGz 2 2 it would have been compressed instead. *)
Example member_file_is_cleaned_td :
  tsd_member extd_k (bs "a_r1960-01-01_00-00-00.log") = true
  /\ ex_snap (fst (run (sys0f 0 0 [(bs "a_r1960-01-01_00-00-00.log", bs "w")]) ([OStart extd_k; OWrite (bs "ab")] ++ [OStop])))
     = [ (bs "a_r1960-01-01_00-00-00.log", 0%N, bs "wab") ]
  /\ ex_snap (fst (run (sys0f 0 0 [(bs "a_r1960-01-01_00-00-00.log", bs "w")]) (OStart extd_k :: firstn 2 extd_ops ++ [OStop])))
     = [ (bs "a_r1960-01-01_00-00-00.log", 0%N, bs "wabcd"); (bs "a_r1970-01-01_00-00-00.log", 0%N, bs "ef") ]
  /\ ex_snap (fst (run (sys0f 0 0 [(bs "a_r1960-01-01_00-00-00.log", bs "w")]) (OStart extd_k :: extd_ops ++ [OStop])))
     = [ (bs "a_r1970-01-01_00-00-00.log.gz", 1%N, bs "ef"); (bs "a_r1970-01-01_00-00-01.log", 0%N, bs "ghij");
         (bs "a_r1970-01-01_00-00-01.restart-0000.log", 0%N, bs "k") ].
Proof. vm_compute. repeat split; reflexivity. Qed.
