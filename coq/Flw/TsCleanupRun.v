(* Timestamps naming (rCURRENT + closed files named by keys) with a cleanup strategy: the invariant TsKInv, one cleanup, one
   rotation (mount_next with cleanup), every history of basic operations with a clock that does not go backwards, and the
   end-to-end theorem timestamps_cleanup_stream:  after the writer is stopped the directory holds exactly rCURRENT, the newest
   n closed files as plain files, the next m closed files as archives with the same content, nothing else ((n, m) = klim k).
   A closed file is named by the second in which it was STARTED (as rCURRENT) and its position within that second; `keys`
   lists the keys of ALL closed files, also of those that have been removed.
   A strategy with n + m = 0 (KLog 0, KGz 0, KLogGz 0 0) removes every closed file at once; then THE NAMES ARE USED AGAIN: the
   next file closed in the same second gets the very same name, without restart counter (TsCleanup.names_reused).  The run
   invariant KI therefore tracks the keys only when the strategy keeps at least one closed file (keepsb); otherwise the
   directory holds rCURRENT only, and the theorem - which claims no name then - is met by any keys. *)
Require Import FL.Base.Bytes FL.Base.BytesFacts FL.Base.PathName FL.Fs.Fs FL.Fs.FsFacts FL.Time.Civil FL.Time.TsFormat
  FL.Names.FileSpec FL.Names.NamesFacts FL.Names.SortFacts FL.Names.FamilyFacts FL.Flw.Model FL.Flw.ModelFacts FL.Flw.NumFs
  FL.Flw.NumInv FL.Flw.Run FL.Flw.RunFacts FL.Flw.NumRun FL.Oracles.O_Flw FL.Flw.NumTheorems FL.Flw.NumListing FL.Flw.CleanupFacts
  FL.Flw.NumKillRestart
  FL.Flw.NumCleanupNames FL.Flw.NumCleanupStep FL.Flw.NumCleanupRun
  FL.Flw.TsCal FL.Flw.TsTime FL.Flw.TsNames FL.Flw.TsInv FL.Flw.TsRun FL.Flw.TsTheorems
  FL.Flw.GenCleanup FL.Flw.TsCleanupNames.
From Coq Require Import ZifyN ZifyNat ZifyBool.
Open Scope nat_scope.

(* ------------------------------------------------------------------ configurations *)
Definition tskcfg (c : config) (crit : criterion) (k : cleanup) : Prop :=
  c_rot c = Some (crit, NTimestamps, k) /\ fts (c_spec c) = false /\ c_symlink c = false /\ c_async c = false
  /\ c_bg c = false.

Lemma k_mid_le k L : k_mid k L <= L.
Proof. unfold k_mid. destruct (klim k) as [[n m]|]; lia. Qed.

(* ------------------------------------------------------------------ the invariant *)
Record TsKInv (c : config) (e lo0 : Z) (w : world) (wr : writer) (keys : list key) (closed : list bytes) (ts : Z) (lo mid : nat) : Prop := {
  sk_quiet : quiet w;
  sk_wf : fs_wf (wfs w);
  sk_off : eoff c w = e;
  sk_cur : lookup (wfs w) (cname c) = Some (wino wr);
  sk_curplain : plain (inode (wfs w) (wino wr));
  sk_len : length keys = length closed;
  sk_dir : gdir (tname c e keys) (cname c) (wfs w) closed lo mid;
  sk_keys : keys_ok keys;
  sk_range : forall k, In k keys -> (lo0 <= fst k <= ts)%Z;
  sk_ts : (lo0 <= ts <= wnow w)%Z;
  sk_wr : wr_ok wr;
  sk_cap : wcap wr = c_cap c }.

Definition st_tsk (c : config) (k : cleanup) (ts : Z) (roll : roll_state) (wr : writer) : flw :=
  {| f_cfg := c; f_inner := Active (Some (mk_rsk k (NSTs ts (Some cur_infix) std_fmt) roll)) wr (cname c); f_poisoned := false |}.

Lemma sk_years c e lo0 hi w wr keys closed ts lo mid :
  years_ok e lo0 hi -> (wnow w <= hi)%Z -> TsKInv c e lo0 w wr keys closed ts lo mid -> forall k, In k keys -> in_years e (fst k).
Proof.
  intros Y Hhi I k Ik. apply (years_in e lo0 hi); [exact Y|]. pose proof (sk_range _ _ _ _ _ _ _ _ _ _ I k Ik).
  pose proof (sk_ts _ _ _ _ _ _ _ _ _ _ I). lia.
Qed.

(* ---- the cleanup keeps the invariant and moves the limits; rCURRENT is not touched ---- *)
Lemma cleanup_sk c crit k e lo0 hi w wr keys closed ts lo mid :
  tskcfg c crit k -> sfx_ok (c_spec c) -> years_ok e lo0 hi -> (wnow w <= hi)%Z -> TsKInv c e lo0 w wr keys closed ts lo mid ->
  exists w', cleanup_impl c w k (IFTs std_fmt) None = (Ok tt, w') /\ same_env w w'
    /\ TsKInv c e lo0 w' wr keys closed ts (knew_lo k lo (length closed)) (knew_mid k mid (length closed))
    /\ cur_view w' wr = cur_view w wr.
Proof.
  intros (Hrot & Hts & Hlink & Has & Hbg) Hsfx Y Hhi I. pose proof I as [Q W Hoff Hc Hcp Hlen KD Hko Hrg Htsr Hwr Hcap].
  pose proof (sk_years _ _ _ _ _ _ _ _ _ _ _ Y Hhi I) as Yk.
  unfold knew_lo, knew_mid in *. destruct (klim k) as [[n m]|] eqn:Ek.
  - pose proof (gnames_ts c e keys Hsfx Hko Yk) as GN. rewrite Hlen in GN.
    rewrite (cleanup_impl_unfold c w k (IFTs std_fmt) n m Ek Q), (fixed_of_fixed0 c w Hts).
    rewrite (list_log_gz_ts c e (woff w) (wfs w) keys closed lo mid Hsfx Hko Yk Hlen KD).
    destruct (gcleanup (tname c e keys) (cname c) w n m closed lo mid GN Q W KD) as (w' & E & S & W' & KD' & SC & _).
    unfold cleanup_body in E. rewrite E. clear E.
    destruct (same_at_content _ _ _ _ SC Hc) as [Lc' Ic'].
    exists w'. split; [reflexivity|]. split; [exact S|]. split.
    + constructor; auto.
      * apply S.
      * unfold eoff in *. destruct S as [_ [_ [-> _]]]. exact Hoff.
      * rewrite Ic'. exact Hcp.
      * destruct S as [_ [-> _]]. exact Htsr.
    + unfold cur_view, content. rewrite Ic'. reflexivity.
  - apply klim_none in Ek. subst k. exists w. split; [reflexivity|]. split; [apply same_env_refl; exact Q|]. split; [exact I | reflexivity].
Qed.

(* the newest key: if a closed file with the second asked for exists, the last closed file has it *)
Lemma last_key_newest' (keys : list key) t n :
  keys_ok keys -> (forall k, In k keys -> (fst k <= t)%Z) -> (forall m, In (t, m) keys <-> m < n) -> 0 < n ->
  0 < length keys /\ nth (length keys - 1) keys kd = (t, n - 1).
Proof.
  intros K Hle Hn Hpos.
  assert (I1 : In (t, n - 1) keys) by (apply Hn; lia).
  destruct (In_nth keys _ kd I1) as [j [Hj Ej]]. split; [lia|].
  destruct (Nat.eq_dec j (length keys - 1)) as [->|Hne]; [exact Ej|]. exfalso.
  pose proof (keys_sorted keys K j (length keys - 1) ltac:(lia)) as X. rewrite Ej in X.
  assert (IL : In (nth (length keys - 1) keys kd) keys) by (apply nth_In; lia).
  pose proof (Hle _ IL) as HL. destruct (nth (length keys - 1) keys kd) as [tl ml] eqn:El. cbn [fst snd] in *.
  destruct X as [X|[X1 X2]]; cbn [fst snd] in *; [lia|]. subst tl. apply Hn in IL. lia.
Qed.

(* ---- one rotation ---- *)
Lemma mount_next_rotates_sk c crit k e lo0 hi w wr keys closed ts roll force :
  tskcfg c crit k -> sfx_ok (c_spec c) -> (0 < count ts keys -> k_lo k (length closed) < length closed) -> tag_ok c -> years_ok e lo0 hi ->
  TsKInv c e lo0 w wr keys closed ts (k_lo k (length closed)) (k_mid k (length closed)) ->
  (wnow w <= hi)%Z -> (N.of_nat (length closed) <= usize_max)%N ->
  force || rotation_necessary w roll = true ->
  exists w' wr' roll',
    mount_next c w (Active (Some (mk_rsk k (NSTs ts (Some cur_infix) std_fmt) roll)) wr (cname c)) force
      = (Ok tt, w', Active (Some (mk_rsk k (NSTs (wnow w) (Some cur_infix) std_fmt) roll')) wr' (cname c))
    /\ TsKInv c e lo0 w' wr' (keys ++ [(ts, count ts keys)]) (closed ++ [cur_view w wr]) (wnow w)
               (k_lo k (S (length closed))) (k_mid k (S (length closed)))
    /\ cur_view w' wr' = [] /\ roll_size_ok roll' 0 /\ same_env w w'
    /\ (forall m cur, roll = RSize m cur -> exists cur', roll' = RSize m cur')
    /\ roll' = roll_reset roll (wnow w).
Proof.
  intros Hcfg Hsfx K1 T Y I Hhi Hmax Hnec. pose proof Hcfg as (Hrot & Hts & Hlink & Has & Hbg).
  pose proof I as [Q W Hoff Hc Hcp Hlen KD Hko Hrg Htsr Hwr Hcap].
  pose proof (sk_years _ _ _ _ _ _ _ _ _ _ _ Y Hhi I) as Yk.
  assert (Yts : in_years e ts) by (apply (years_in e lo0 hi); [exact Y | lia]).
  set (L := length closed) in *.
  set (knew := (ts, count ts keys)).
  set (keys' := keys ++ [knew]).
  assert (Hko' : keys_ok keys') by (apply ko_snoc; [exact Hko|]; intros k0 Ik; specialize (Hrg k0 Ik); lia).
  assert (Yk' : forall k0, In k0 keys' -> in_years e (fst k0)).
  { intros k0 Ik. apply in_app_or in Ik. destruct Ik as [Ik|[<-|[]]]; [exact (Yk _ Ik) | exact Yts]. }
  assert (Hlen' : length keys' = S L) by (unfold keys'; rewrite glen_snoc, Hlen; reflexivity).
  unfold mount_next. cbn [mk_rsk rs_roll rs_naming rs_cleanup rs_bg]. rewrite Hnec.
  unfold creation_ts_of_current, collision_free. rewrite !tick_quiet by assumption.
  rewrite !(name_of_fixed c w) by assumption. rewrite (fixed_of_fixed0 c w Hts), infix_from_ts_tsx, Hoff.
  (* the answer of collision_free_infix: the next position of the second in which rCURRENT was started *)
  assert (CF : collision_free_infix (woff w) (c_spec c) (fixed0 c) (wfs w) (tsx e ts) = Some (Some (infix_of e knew))).
  { apply (collision_free_infix_tsk c e (woff w) (wfs w) keys closed _ _ ts (count ts keys) T Hsfx Yts Yk Hlen KD).
    - exact (keys_count keys Hko ts).
    - pose proof (count_le_length ts keys). lia.
    - intros Hpos. destruct (last_key_newest' keys ts (count ts keys) Hko) as [Hp0 El]; auto.
      + intros k0 Ik. specialize (Hrg k0 Ik). lia.
      + exact (keys_count keys Hko ts).
      + rewrite Hlen in Hp0, El. fold L in Hp0, El. exists (L - 1). split; [|exact El].
        pose proof (K1 Hpos). lia. }
  rewrite CF.
  rewrite ?(name_of_fixed c w) by assumption.
  fold (nm c cur_infix). fold (cname c).
  change (as_name (c_spec c) (fixed0 c) (Some (infix_of e knew))) with (kname c e knew).
  (* the directory after rename + create + flush *)
  assert (Ext : forall i, i < length closed -> tname c e keys' i = tname c e keys i).
  { intros i Hi. apply tname_snoc. rewrite Hlen. exact Hi. }
  pose proof (gdir_ext _ _ _ _ _ _ _ Ext KD) as KD1.
  assert (Enew : tname c e keys' L = kname c e knew) by (unfold keys'; rewrite <- Hlen; apply tname_last).
  assert (GN : gnames (tname c e keys') (cname c) (S L)) by (rewrite <- Hlen'; apply gnames_ts; assumption).
  destruct (gdir_rotate_r (tname c e keys') (cname c) (wfs w) closed _ _ (wino wr) (wpend wr) (wnow w) GN W KD1 Hc Hcp)
    as (Ht & f1 & Er & L1c & R).
  fold L in Ht, Er, R. rewrite Enew in Ht, Er.
  cbn zeta in R. destruct R as (W3 & L3c & Inew & KD3).
  pose proof (p_rename_quiet w (cname c) (kname c e knew) Q) as PR. rewrite Er in PR.
  destruct PR as [w1 [Epr [F1 S1]]]. rewrite Epr.
  (* the creation time of the new current file: it does not exist yet, so the clock is read *)
  assert (Eb : birth_or_now w1 (cname c) = wnow w).
  { unfold birth_or_now, file_of. rewrite F1, L1c. apply S1. }
  rewrite Eb.
  (* open the new current file *)
  unfold open_log_file. rewrite (name_of_fixed c w1) by assumption. fold (nm c cur_infix) (cname c).
  unfold do_symlink. rewrite Hlink.
  assert (D1 : match file_of (wfs w1) (cname c) with Some fl => fdir fl = false | None => True end).
  { unfold file_of. rewrite F1, L1c. exact Logic.I. }
  destruct (p_open_quiet w1 (cname c) (c_append c) (proj1 S1) D1) as [w2 [Eop [F2 S2]]]. rewrite Eop.
  assert (Eopen : (if c_append c then open_append (wfs w1) (cname c) (wnow w1) else open_trunc (wfs w1) (cname c) 0%N (wnow w1))
                  = create_file f1 (cname c) 0%N (wnow w)).
  { rewrite F1. destruct S1 as [_ [-> _]]. destruct (c_append c); [apply open_append_fresh | apply open_trunc_fresh]; exact L1c. }
  rewrite Eopen in *. clear Eopen.
  (* the old writer is dropped *)
  unfold w_drop. destruct (w_flush_quiet w2 wr (proj1 S2)) as [w3 [Efl [F3 S3]]]. rewrite Efl. cbn [fst snd].
  change (w_flush w3 {| wino := wino wr; wpend := []; wcap := wcap wr |})
    with (true, w3, {| wino := wino wr; wpend := []; wcap := wcap wr |}). cbn [fst snd].
  unfold cleanup_or_queue. cbn [ns_filter ns_writes_direct].
  set (new := snd (create_file f1 (cname c) 0%N (wnow w))) in *.
  set (f3 := append_ino (fst (create_file f1 (cname c) 0%N (wnow w))) (wino wr) (wpend wr)) in *.
  assert (F3' : wfs w3 = f3) by (rewrite F3, F2; reflexivity).
  set (wr' := {| wino := new; wpend := []; wcap := c_cap c |}).
  assert (SE : same_env w w3) by (eapply same_env_trans; [eapply same_env_trans|]; eassumption).
  assert (Elen : length (closed ++ [cur_view w wr]) = S L) by apply glen_snoc.
  assert (I3 : TsKInv c e lo0 w3 wr' keys' (closed ++ [cur_view w wr]) (wnow w) (k_lo k L) (k_mid k L)).
  { constructor.
    - exact (proj1 S3).
    - rewrite F3'. exact W3.
    - unfold eoff in *. destruct SE as [_ [_ [-> _]]]. exact Hoff.
    - rewrite F3'. exact L3c.
    - rewrite F3'. cbn [wr' wino]. rewrite Inew. split; reflexivity.
    - rewrite Hlen', Elen. reflexivity.
    - rewrite F3'. exact KD3.
    - exact Hko'.
    - intros k0 Ik. apply in_app_or in Ik. destruct Ik as [Ik|[<-|[]]].
      + specialize (Hrg k0 Ik). lia.
      + unfold knew. cbn [fst]. lia.
    - destruct SE as [_ [-> _]]. lia.
    - unfold wr_ok, wr'. cbn. destruct (c_cap c); [lia | reflexivity].
    - reflexivity. }
  assert (Hhi3 : (wnow w3 <= hi)%Z) by (rewrite (same_env_now _ _ SE); exact Hhi).
  destruct (cleanup_sk c crit k e lo0 hi w3 wr' _ _ _ _ _ Hcfg Hsfx Y Hhi3 I3) as (w4 & Ecl & S4 & I4 & V4).
  rewrite Ecl. rewrite Elen, knew_lo_step, knew_mid_step in I4.
  exists w4, wr', (reset_size_and_date w3 roll (cname c)).
  split; [reflexivity|]. split; [exact I4|].
  split. { rewrite V4. unfold cur_view. rewrite F3'. cbn [wr' wino wpend]. unfold content. rewrite Inew. reflexivity. }
  split. { destruct roll; cbn; auto. }
  split; [eapply same_env_trans; eassumption|].
  split; [intros m cur ->; cbn; eauto|].
  assert (B : birth_or_now w3 (cname c) = wnow w).
  { unfold birth_or_now, file_of. rewrite F3', L3c. fold new. rewrite Inew. reflexivity. }
  unfold reset_size_and_date. rewrite B. destruct roll; reflexivity.
Qed.

(* ---- appending to the current inode keeps the invariant ---- *)
Lemma tskinv_append c e lo0 hi w w' wr wr' keys closed ts lo mid x :
  sfx_ok (c_spec c) -> years_ok e lo0 hi -> (wnow w <= hi)%Z ->
  TsKInv c e lo0 w wr keys closed ts lo mid -> wfs w' = append_ino (wfs w) (wino wr) x -> same_env w w' ->
  wino wr' = wino wr -> wcap wr' = wcap wr -> wr_ok wr' ->
  TsKInv c e lo0 w' wr' keys closed ts lo mid /\ content (wfs w') (wino wr') = content (wfs w) (wino wr) ++ x.
Proof.
  intros Hsfx Y Hhi I F SE Ei Ec Hok. pose proof (sk_years _ _ _ _ _ _ _ _ _ _ _ Y Hhi I) as Yk.
  destruct I as [Q W Hoff Hc Hcp Hlen KD Hko Hrg Htsr Hwr Hcap].
  pose proof (wf_bound _ W _ _ Hc) as Hold.
  assert (GN : gnames (tname c e keys) (cname c) (length closed)) by (rewrite <- Hlen; apply gnames_ts; assumption).
  split.
  - constructor.
    + exact (proj1 SE).
    + rewrite F. apply wf_append. exact W.
    + unfold eoff in *. destruct SE as [_ [_ [-> _]]]. exact Hoff.
    + rewrite F, lookup_append, Ei. exact Hc.
    + rewrite F, Ei, inode_append, Nat.eqb_refl by assumption. exact Hcp.
    + exact Hlen.
    + rewrite F. apply gdir_append_r; assumption.
    + exact Hko.
    + exact Hrg.
    + destruct SE as [_ [-> _]]. exact Htsr.
    + exact Hok.
    + congruence.
  - rewrite F, Ei, content_append, Nat.eqb_refl by assumption. reflexivity.
Qed.

(* ------------------------------------------------------------------ the invariant of the run *)
(* A strategy that keeps at least one closed file (or none at all: KNever): the keys of all closed files are tracked.
   A strategy with both limits 0 (KLog 0, KGz 0, KLogGz 0 0) removes every closed file at once; then nothing is tracked: the
   directory holds rCURRENT only, and the name that a closed file gets for the moment before its removal is used again. *)
Definition keepsb (k : cleanup) : bool := match klim k with None => true | Some (n, m) => 0 <? n + m end.

Definition KI (c : config) (k : cleanup) (e lo0 : Z) (w : world) (wr : writer) (closed : list bytes) (ts : Z) : Prop :=
  exists keys tcl, TsKInv c e lo0 w wr keys tcl ts (k_lo k (length tcl)) (k_mid k (length tcl))
    /\ (if keepsb k then tcl = closed else keys = [] /\ tcl = []).

Lemma ki_quiet c k e lo0 w wr closed ts : KI c k e lo0 w wr closed ts -> quiet w.
Proof. intros (keys & tcl & I & _). apply I. Qed.
Lemma ki_wr c k e lo0 w wr closed ts : KI c k e lo0 w wr closed ts -> wr_ok wr.
Proof. intros (keys & tcl & I & _). apply I. Qed.

Lemma tskinv_forget c k e lo0 w wr keys tcl ts : keepsb k = false ->
  TsKInv c e lo0 w wr keys tcl ts (k_lo k (length tcl)) (k_mid k (length tcl)) -> TsKInv c e lo0 w wr [] [] ts 0 0.
Proof.
  intros Hk [Q W Hoff Hc Hcp Hlen KD Hko Hrg Htsr Hwr Hcap].
  assert (E : k_lo k (length tcl) = length tcl /\ k_mid k (length tcl) = length tcl).
  { unfold keepsb, k_lo, k_mid in *. destruct (klim k) as [[n m]|]; [|discriminate]. apply Nat.ltb_ge in Hk. split; lia. }
  destruct E as [E1 E2]. rewrite E1, E2 in KD. destruct KD as [Hle Hnd Hp Ha Hon].
  constructor; auto.
  - constructor.
    + cbn [length]. lia.
    + exact Hnd.
    + cbn [length]. intros i Hi. lia.
    + intros i Hi. lia.
    + intros n j Lj. destruct (Hon n j Lj) as [->|[(i & Hi & _)|(i & Hi & _)]]; [left; reflexivity | lia | lia].
  - constructor.
  - intros k0 [].
Qed.

(* ---- one rotation ---- *)
Lemma mount_next_rotates_ki c crit k e lo0 hi w wr closed ts roll force :
  tskcfg c crit k -> sfx_ok (c_spec c) -> tag_ok c -> years_ok e lo0 hi -> KI c k e lo0 w wr closed ts ->
  (wnow w <= hi)%Z -> (N.of_nat (length closed) <= usize_max)%N ->
  force || rotation_necessary w roll = true ->
  exists w' wr' roll',
    mount_next c w (Active (Some (mk_rsk k (NSTs ts (Some cur_infix) std_fmt) roll)) wr (cname c)) force
      = (Ok tt, w', Active (Some (mk_rsk k (NSTs (wnow w) (Some cur_infix) std_fmt) roll')) wr' (cname c))
    /\ KI c k e lo0 w' wr' (closed ++ [cur_view w wr]) (wnow w)
    /\ cur_view w' wr' = [] /\ roll_size_ok roll' 0 /\ same_env w w'
    /\ (forall m cur, roll = RSize m cur -> exists cur', roll' = RSize m cur')
    /\ roll' = roll_reset roll (wnow w).
Proof.
  intros Hcfg Hsfx T Y (keys & tcl & I & Lk) Hhi Hmax Hnec. destruct (keepsb k) eqn:Ek.
  - subst tcl.
    assert (K1 : 0 < count ts keys -> k_lo k (length closed) < length closed).
    { intros Hpos. pose proof (count_le_length ts keys) as Hc. rewrite (sk_len _ _ _ _ _ _ _ _ _ _ I) in Hc.
      unfold keepsb, k_lo in *. destruct (klim k) as [[n m]|]; [apply Nat.ltb_lt in Ek|]; lia. }
    destruct (mount_next_rotates_sk c crit k e lo0 hi w wr keys closed ts roll force Hcfg Hsfx K1 T Y I Hhi Hmax Hnec)
      as (w' & wr' & roll' & E & I' & R).
    exists w', wr', roll'. split; [exact E|]. split; [|exact R].
    exists (keys ++ [(ts, count ts keys)]), (closed ++ [cur_view w wr]). rewrite glen_snoc, Ek. split; [exact I' | reflexivity].
  - destruct Lk as [-> ->].
    assert (K1 : 0 < count ts [] -> k_lo k (length (@nil bytes)) < length (@nil bytes)) by (cbn; lia).
    destruct (mount_next_rotates_sk c crit k e lo0 hi w wr [] [] ts roll force Hcfg Hsfx K1 T Y I Hhi ltac:(cbn [length]; lia) Hnec)
      as (w' & wr' & roll' & E & I' & R).
    exists w', wr', roll'. split; [exact E|]. split; [|exact R].
    exists [], []. rewrite Ek. split; [|split; reflexivity].
    cbn [length]. rewrite k_lo_0, k_mid_0.
    apply (tskinv_forget c k e lo0 w' wr' ([] ++ [(ts, count ts [])]) ([] ++ [cur_view w wr]) (wnow w) Ek). exact I'.
Qed.

Lemma ki_append c k e lo0 hi w w' wr wr' closed ts x :
  sfx_ok (c_spec c) -> years_ok e lo0 hi -> (wnow w <= hi)%Z ->
  KI c k e lo0 w wr closed ts -> wfs w' = append_ino (wfs w) (wino wr) x -> same_env w w' ->
  wino wr' = wino wr -> wcap wr' = wcap wr -> wr_ok wr' ->
  KI c k e lo0 w' wr' closed ts /\ content (wfs w') (wino wr') = content (wfs w) (wino wr) ++ x.
Proof.
  intros Hsfx Y Hhi (keys & tcl & I & Lk) F SE Ei Ec Hok.
  destruct (tskinv_append c e lo0 hi w w' wr wr' keys tcl ts _ _ x Hsfx Y Hhi I F SE Ei Ec Hok) as [I' C'].
  split; [exists keys, tcl; split; [exact I' | exact Lk] | exact C'].
Qed.

(* ---- a write on an active writer ---- *)
Lemma write_active_ki c crit k e lo0 hi w wr closed ts roll b :
  tskcfg c crit k -> sfx_ok (c_spec c) -> tag_ok c -> years_ok e lo0 hi -> KI c k e lo0 w wr closed ts ->
  (wnow w <= hi)%Z -> (N.of_nat (length closed) <= usize_max)%N -> roll_size_ok roll (length (cur_view w wr)) ->
  let rot := rotation_necessary w roll in
  exists w' wr' roll' closed' ts',
    write_buffer (st_tsk c k ts roll wr) w b = (Ok tt, w', st_tsk c k ts' roll' wr', rot)
    /\ KI c k e lo0 w' wr' closed' ts'
    /\ roll_size_ok roll' (length (cur_view w' wr')) /\ same_env w w'
    /\ (closed', cur_view w' wr') = (if rot then (closed ++ [cur_view w wr], b) else (closed, cur_view w wr ++ b))
    /\ (forall m cur, roll = RSize m cur -> exists cur', roll' = RSize m cur')
    /\ roll' = increase_size (if rot then roll_reset roll (wnow w) else roll) (N.of_nat (length b)).
Proof.
  intros Hcfg Hsfx T Y I Hhi Hmax Hsz rot.
  unfold write_buffer, st_tsk. cbn [f_cfg f_inner f_poisoned mk_rsk rs_roll]. fold rot.
  assert (M : exists w1 wr1 roll1 closed1 ts1,
            mount_next c w (Active (Some (mk_rsk k (NSTs ts (Some cur_infix) std_fmt) roll)) wr (cname c)) false
            = (Ok tt, w1, Active (Some (mk_rsk k (NSTs ts1 (Some cur_infix) std_fmt) roll1)) wr1 (cname c))
            /\ KI c k e lo0 w1 wr1 closed1 ts1
            /\ roll_size_ok roll1 (length (cur_view w1 wr1)) /\ same_env w w1
            /\ (closed1, cur_view w1 wr1) = (if rot then (closed ++ [cur_view w wr], []) else (closed, cur_view w wr))
            /\ (forall m cur, roll = RSize m cur -> exists cur', roll1 = RSize m cur')
            /\ roll1 = (if rot then roll_reset roll (wnow w) else roll)).
  { destruct rot eqn:Er.
    - destruct (mount_next_rotates_ki c crit k e lo0 hi w wr closed ts roll false Hcfg Hsfx T Y I Hhi Hmax)
        as [w1 [wr1 [roll1 [E [I1 [V1 [Z1 [S1 [R1 RR1]]]]]]]]]; [exact Er|].
      exists w1, wr1, roll1, (closed ++ [cur_view w wr]), (wnow w). rewrite V1.
      split; [exact E|]. split; [exact I1|]. split; [exact Z1|]. split; [exact S1|]. split; [reflexivity|]. split; [exact R1 | exact RR1].
    - exists w, wr, roll, closed, ts. split.
      + unfold mount_next. cbn [mk_rsk rs_roll orb]. unfold rot in Er. rewrite Er. reflexivity.
      + split; [exact I|]. split; [exact Hsz|]. split; [apply same_env_refl; exact (ki_quiet _ _ _ _ _ _ _ _ I)|]. split; [reflexivity|]. split; [eauto | reflexivity]. }
  destruct M as [w1 [wr1 [roll1 [closed1 [ts1 [E [I1 [Z1 [S1 [V1 [R1 RR1]]]]]]]]]]].
  rewrite E.
  destruct (w_write_quiet w1 wr1 b (ki_quiet _ _ _ _ _ _ _ _ I1) (ki_wr _ _ _ _ _ _ _ _ I1)) as [w2 [wr2 [fl [Ew [S2 [F2 [Ei [Ec [Ep Hok]]]]]]]]].
  rewrite Ew.
  assert (Hhi1 : (wnow w1 <= hi)%Z) by (rewrite (same_env_now _ _ S1); exact Hhi).
  destruct (ki_append c k e lo0 hi w1 w2 wr1 wr2 closed1 ts1 fl Hsfx Y Hhi1 I1 F2 S2 Ei Ec Hok) as [I2 C2].
  exists w2, wr2, (increase_size roll1 (N.of_nat (length b))), closed1, ts1.
  assert (V2 : cur_view w2 wr2 = cur_view w1 wr1 ++ b).
  { unfold cur_view. rewrite C2, <- !app_assoc, Ep. reflexivity. }
  split; [reflexivity|]. split; [exact I2|].
  split. { rewrite V2, app_length. apply roll_size_increase. exact Z1. }
  split; [eapply same_env_trans; eassumption|].
  split. { rewrite V2. destruct rot; injection V1 as -> ->; reflexivity. }
  split; [intros m cur Hr; destruct (R1 m cur Hr) as [cur' ->]; cbn; eauto|].
  rewrite RR1. reflexivity.
Qed.

(* ---- flush ---- *)
Lemma flush_active_ki c k e lo0 hi w wr closed ts roll :
  sfx_ok (c_spec c) -> years_ok e lo0 hi -> (wnow w <= hi)%Z -> KI c k e lo0 w wr closed ts ->
  exists w' wr', flush_state (st_tsk c k ts roll wr) w = (true, w', st_tsk c k ts roll wr')
    /\ KI c k e lo0 w' wr' closed ts /\ cur_view w' wr' = cur_view w wr /\ wpend wr' = [] /\ same_env w w'.
Proof.
  intros Hsfx Y Hhi I. unfold flush_state, st_tsk. cbn [f_inner].
  destruct (w_flush_quiet w wr (ki_quiet _ _ _ _ _ _ _ _ I)) as [w1 [E [F S]]]. rewrite E.
  set (wr' := {| wino := wino wr; wpend := []; wcap := wcap wr |}).
  assert (Hok : wr_ok wr') by (unfold wr_ok, wr'; cbn; destruct (wcap wr); [lia | reflexivity]).
  destruct (ki_append c k e lo0 hi w w1 wr wr' closed ts (wpend wr) Hsfx Y Hhi I F S eq_refl eq_refl Hok) as [I1 C1].
  exists w1, wr'. split; [reflexivity|]. split; [exact I1|]. split; [|split; [reflexivity | exact S]].
  unfold cur_view. rewrite C1. cbn [wr' wpend]. rewrite app_nil_r. reflexivity.
Qed.

(* ---- the first write initialises the writer on the empty directory; the initial cleanup finds nothing ---- *)
Lemma initialize_empty_sk c crit k e lo0 hi w :
  tskcfg c crit k -> sfx_ok (c_spec c) -> years_ok e lo0 hi -> (wnow w <= hi)%Z ->
  quiet w -> names (wfs w) = [] -> inodes (wfs w) = [] -> eoff c w = e -> (lo0 <= wnow w)%Z ->
  exists w' wr roll,
    initialize c w = (Ok (Active (Some (mk_rsk k (NSTs (wnow w) (Some cur_infix) std_fmt) roll)) wr (cname c)), w')
    /\ TsKInv c e lo0 w' wr [] [] (wnow w) 0 0 /\ cur_view w' wr = [] /\ roll_size_ok roll 0 /\ same_env w w'
    /\ (forall m, crit = CSize m -> roll = RSize m 0)
    /\ roll = roll_init crit (wnow w).
Proof.
  intros Hcfg Hsfx Y Hhi Q Hn Hi Hoff Hlo. pose proof Hcfg as (Hrot & Hts & Hlink & Has & Hbg).
  unfold initialize. rewrite Hrot. unfold init_naming.
  assert (E0 : creation_ts_of_current c w cur_infix (negb (c_append c)) None std_fmt = (Ok (wnow w), w)).
  { unfold creation_ts_of_current. rewrite (name_of_fixed c w) by assumption. fold (nm c cur_infix) (cname c).
    assert (Eb : birth_or_now w (cname c) = wnow w).
    { unfold birth_or_now, file_of. rewrite lookup_empty by assumption. reflexivity. }
    rewrite Eb. destruct (negb (c_append c)); [|reflexivity].
    unfold collision_free. rewrite !tick_quiet by assumption. rewrite collision_free_infix_empty by assumption.
    pose proof (p_rename_quiet w (cname c) (name_of c w (Some (infix_from_ts c w std_fmt (wnow w)))) Q) as PR.
    rewrite rename_none in PR by (apply lookup_empty; assumption). rewrite PR, Eb. reflexivity. }
  rewrite E0. cbn [bind].
  unfold open_log_file. rewrite (name_of_fixed c w) by assumption. fold (nm c cur_infix) (cname c).
  unfold do_symlink. rewrite Hlink.
  assert (D1 : match file_of (wfs w) (cname c) with Some fl => fdir fl = false | None => True end).
  { unfold file_of. rewrite lookup_empty by assumption. exact Logic.I. }
  destruct (p_open_quiet w (cname c) (c_append c) Q D1) as [w2 [Eop [F2 S2]]]. rewrite Eop.
  assert (Eopen : (if c_append c then open_append (wfs w) (cname c) (wnow w) else open_trunc (wfs w) (cname c) 0%N (wnow w))
                  = create_file (wfs w) (cname c) 0%N (wnow w)).
  { destruct (c_append c); [apply open_append_fresh | apply open_trunc_fresh]; apply lookup_empty; assumption. }
  rewrite Eopen in *. clear Eopen. cbn [bind fst snd].
  unfold create_file in F2. cbn [fst snd] in F2. rewrite Hn, Hi in F2. cbn [length app] in F2.
  unfold create_file. cbn [snd]. rewrite Hi. cbn [length].
  set (wr := {| wino := 0; wpend := []; wcap := c_cap c |}).
  destruct (gdir_only_cn (tname c e []) (cname c) (wnow w)) as (KD0 & Lc0 & W0 & I0).
  change (fresh_file (wnow w)) with {| fdata := []; fgz := 0%N; fborn := wnow w; fdir := false |} in KD0, Lc0, W0, I0.
  rewrite <- F2 in KD0, Lc0, W0, I0.
  assert (Fo : file_of (wfs w2) (cname c) = Some (fresh_file (wnow w))) by (unfold file_of; rewrite Lc0, I0; reflexivity).
  assert (RN : exists roll, roll_new w2 crit (c_append c) (cname c) = (Ok roll, w2) /\ roll_size_ok roll 0
               /\ (forall m, crit = CSize m -> roll = RSize m 0) /\ roll = roll_init crit (wnow w)).
  { assert (B : birth_or_now w2 (cname c) = wnow w) by (unfold birth_or_now; rewrite Fo; reflexivity).
    unfold roll_new. destruct (c_append c).
    - rewrite tick_quiet by apply S2. rewrite Fo. cbn [fresh_file fdata length]. rewrite B.
      eexists. split; [reflexivity|]. split; [destruct crit; reflexivity|]. split; [intros m ->; reflexivity | destruct crit; reflexivity].
    - rewrite B. eexists. split; [reflexivity|]. split; [destruct crit; reflexivity|]. split; [intros m ->; reflexivity | destruct crit; reflexivity]. }
  destruct RN as [roll [Ern [Z [R RI]]]]. rewrite Ern. cbn [bind].
  assert (I2 : TsKInv c e lo0 w2 wr [] [] (wnow w) 0 0).
  { constructor.
    - apply S2.
    - exact W0.
    - unfold eoff in *. destruct S2 as [_ [_ [-> _]]]. exact Hoff.
    - exact Lc0.
    - cbn [wr wino]. rewrite I0. split; reflexivity.
    - reflexivity.
    - exact KD0.
    - constructor.
    - intros k0 [].
    - destruct S2 as [_ [-> _]]. lia.
    - unfold wr_ok, wr. cbn. destruct (c_cap c); [lia | reflexivity].
    - reflexivity. }
  (* the initial cleanup *)
  assert (Ecl : forall d, match k with KNever => (Ok tt, w2) | _ => cleanup_impl c w2 k (ns_filter (NSTs (wnow w) (Some cur_infix) std_fmt)) (if naming_writes_direct NTimestamps then Some d else None) end
                = cleanup_impl c w2 k (IFTs std_fmt) None) by (intros d; destruct k; reflexivity).
  rewrite Ecl. clear Ecl.
  assert (Hhi2 : (wnow w2 <= hi)%Z) by (rewrite (same_env_now _ _ S2); exact Hhi).
  destruct (cleanup_sk c crit k e lo0 hi w2 wr [] [] (wnow w) 0 0 Hcfg Hsfx Y Hhi2 I2) as (w4 & E4 & S4 & I4 & V4). rewrite E4. cbn [bind].
  assert (Ebg : match k with KNever => false | _ => c_bg c end = false) by (destruct k; auto).
  rewrite Ebg.
  assert (Z0 : knew_lo k 0 (length (@nil bytes)) = 0 /\ knew_mid k 0 (length (@nil bytes)) = 0).
  { unfold knew_lo, knew_mid. destruct (klim k) as [[n m]|]; cbn [length]; split; lia. }
  destruct Z0 as [Z1 Z2]. rewrite Z1, Z2 in I4.
  exists w4, wr, roll. split; [reflexivity|]. split; [exact I4|].
  split. { rewrite V4. unfold cur_view. cbn [wr wino wpend]. unfold content. rewrite I0. reflexivity. }
  split; [exact Z|]. split; [eapply same_env_trans; eassumption|]. split; [exact R | exact RI].
Qed.

(* ------------------------------------------------------------------ the run *)
(* n bounds the number of closed files (it grows by at most one with every operation) *)
Definition RelSK (c : config) (crit : criterion) (k : cleanup) (e lo0 : Z) (n : nat) (x : sys) (a : aview) : Prop :=
  s_tl x = [] /\ wacts (s_w x) = 0 /\
  match a with
  | None => s_flw x = Some (new_flw c) /\ quiet (s_w x) /\ names (wfs (s_w x)) = [] /\ inodes (wfs (s_w x)) = []
            /\ eoff c (s_w x) = e /\ (lo0 <= wnow (s_w x))%Z
  | Some (closed, cur) =>
    exists wr roll ts, s_flw x = Some (st_tsk c k ts roll wr)
      /\ KI c k e lo0 (s_w x) wr closed ts
      /\ cur_view (s_w x) wr = cur /\ length closed <= n
      /\ roll_size_ok roll (length cur) /\ (forall m, crit = CSize m -> exists z, roll = RSize m z)
  end.

Lemma ki_init c k e lo0 w wr ts : TsKInv c e lo0 w wr [] [] ts 0 0 -> KI c k e lo0 w wr [] ts.
Proof.
  intros I. exists [], []. cbn [length]. rewrite k_lo_0, k_mid_0. split; [exact I|]. destruct (keepsb k); [reflexivity | split; reflexivity].
Qed.

Lemma write_rel_sk c crit k e lo0 hi n x a b :
  tskcfg c crit k -> sfx_ok (c_spec c) -> tag_ok c -> years_ok e lo0 hi -> RelSK c crit k e lo0 n x a ->
  (wnow (s_w x) <= hi)%Z -> (N.of_nat n <= usize_max)%N ->
  exists s w' s' rot, s_flw x = Some s /\ f_poisoned s = false /\
    write_buffer s (s_w x) b = (Ok tt, w', s', rot)
    /\ RelSK c crit k e lo0 (S n) {| s_flw := Some s'; s_w := w'; s_tl := []; s_dead := s_dead x |} (a_step a (OWrite b) rot)
    /\ wnow w' = wnow (s_w x)
    /\ (forall m, crit = CSize m ->
          rot = (m <? N.of_nat (length (match a with Some (_, cu) => cu | None => [] end)))%N)
    /\ (rot = flag_of crit (s_w x) (roll_of_sys x) (OWrite b)
        /\ roll_of_flw s' = ro_step crit (wnow (s_w x)) (roll_of_sys x) (OWrite b) rot
        /\ woff w' = woff (s_w x)).
Proof.
  intros Hcfg Hsfx T Y [Ht [Ha R]] Hhi Hmax. destruct a as [[closed cur]|].
  - destruct R as [wr [roll [ts [Es [I [V [Hn [Z RS]]]]]]]].
    rewrite <- V in Z.
    destruct (write_active_ki c crit k e lo0 hi (s_w x) wr closed ts roll b Hcfg Hsfx T Y I Hhi ltac:(lia) Z)
      as [w' [wr' [roll' [closed' [ts' [E [I' [Z' [S' [V' [R' RR']]]]]]]]]]].
    exists (st_tsk c k ts roll wr), w', (st_tsk c k ts' roll' wr'), (rotation_necessary (s_w x) roll).
    split; [exact Es|]. split; [reflexivity|]. split; [exact E|].
    split; [|split; [exact (same_env_now _ _ S')|split]].
    + split; [reflexivity|]. split; [cbn [s_w]; exact (same_env_acts _ _ S' Ha)|].
      cbn [a_step]. rewrite V in V'.
      destruct (rotation_necessary (s_w x) roll); injection V' as -> V''; (exists wr', roll', ts'; cbn [s_flw s_w];
        split; [reflexivity|]; split; [exact I'|]; split; [exact V''|]; split; [rewrite ?app_length; cbn [length]; lia|];
        split; [rewrite <- V''; exact Z'|];
        intros m Hm; destruct (RS m Hm) as [z ->]; destruct (R' m z eq_refl) as [z' ->]; eauto).
    + intros m Hm. destruct (RS m Hm) as [z ->]. cbn in Z. subst z. rewrite V. reflexivity.
    + unfold roll_of_sys. rewrite Es. cbn [roll_of_flw st_tsk f_inner mk_rsk rs_roll flag_of is_write ro_step].
      split; [reflexivity|]. split; [rewrite RR'; reflexivity|]. apply same_env_clock. exact S'.
  - destruct R as [Es [Q [Hn [Hi [Hoff Hlo]]]]].
    destruct (initialize_empty_sk c crit k e lo0 hi (s_w x) Hcfg Hsfx Y Hhi Q Hn Hi Hoff Hlo) as [w1 [wr [roll [Ei [I [V [Z [S1 [RS RI]]]]]]]]].
    assert (Hhi1 : (wnow w1 <= hi)%Z) by (rewrite (same_env_now _ _ S1); exact Hhi).
    assert (Z0 : roll_size_ok roll (length (cur_view w1 wr))) by (rewrite V; exact Z).
    pose proof (ki_init c k e lo0 w1 wr _ I) as I0.
    destruct (write_active_ki c crit k e lo0 hi w1 wr [] (wnow (s_w x)) roll b Hcfg Hsfx T Y I0 Hhi1 ltac:(cbn [length]; lia) Z0)
      as [w' [wr' [roll' [closed' [ts' [E [I' [Z' [S' [V' [R' RR']]]]]]]]]]].
    exists (new_flw c), w', (st_tsk c k ts' roll' wr'), (rotation_necessary w1 roll).
    split; [exact Es|]. split; [reflexivity|].
    split. { rewrite (write_buffer_init c (s_w x) b _ _ _ w1 Ei). exact E. }
    split; [|split; [rewrite (same_env_now _ _ S'); exact (same_env_now _ _ S1)|split]].
    + split; [reflexivity|]. split; [cbn [s_w]; exact (same_env_acts _ _ (same_env_trans _ _ _ S1 S') Ha)|].
      cbn [a_step]. rewrite V in V'. cbn [app] in V'.
      destruct (rotation_necessary w1 roll); injection V' as -> V''; (exists wr', roll', ts'; cbn [s_flw s_w];
        split; [reflexivity|]; split; [exact I'|]; split; [exact V''|]; split; [cbn [app length]; lia|];
        split; [rewrite <- V''; exact Z'|]).
      * intros m Hm. rewrite (RS m Hm) in R'. destruct (R' m 0%N eq_refl) as [z' ->]; eauto.
      * intros m Hm. rewrite (RS m Hm) in R'. destruct (R' m 0%N eq_refl) as [z' ->]; eauto.
    + intros m Hm. rewrite (RS m Hm). reflexivity.
    + destruct (same_env_clock _ _ S1) as [C1 C2]. destruct (same_env_clock _ _ S') as [C3 C4].
      unfold roll_of_sys. rewrite Es. cbn [roll_of_flw new_flw st_tsk f_inner mk_rsk rs_roll flag_of is_write ro_step].
      rewrite <- RI. split; [apply rotation_necessary_env; assumption|]. split; [rewrite RR', C1; reflexivity|]. congruence.
Qed.

Lemma tskinv_tick c e lo0 w wr keys closed ts lo mid dt : TsKInv c e lo0 w wr keys closed ts lo mid -> (0 <= dt)%Z ->
  TsKInv c e lo0 (set_now w (wnow w + dt)%Z) wr keys closed ts lo mid.
Proof.
  intros [Q W Hoff Hc Hcp Hlen KD Hko Hrg Htsr Hwr Hcap] Hdt. constructor; try assumption. cbn [set_now wnow]. lia.
Qed.
Lemma ki_tick c k e lo0 w wr closed ts dt : KI c k e lo0 w wr closed ts -> (0 <= dt)%Z ->
  KI c k e lo0 (set_now w (wnow w + dt)%Z) wr closed ts.
Proof. intros (keys & tcl & I & Lk) Hdt. exists keys, tcl. split; [apply tskinv_tick; assumption | exact Lk]. Qed.

Lemma step_sync_rel_sk c crit k e lo0 n x a o : tskcfg c crit k -> RelSK c crit k e lo0 n x a -> step x o = sync_step x o.
Proof.
  intros (_ & Hts & _ & Ha & _) [_ [_ R]].
  assert (E : exists s, s_flw x = Some s /\ f_cfg s = c).
  { destruct a as [[closed cur]|]; [destruct R as [wr [roll [ts [Es _]]]] | destruct R as [Es _]]; rewrite Es; eexists; split; reflexivity. }
  destruct E as [s [Es Ec]].
  rewrite step_plain by (intros s' Es'; rewrite Es in Es'; injection Es' as <-; rewrite Ec; exact Hts).
  unfold step_core. rewrite Es. unfold is_async. rewrite Ec, Ha. reflexivity.
Qed.

Lemma RelSK_mono c crit k e lo0 n x a : RelSK c crit k e lo0 n x a -> RelSK c crit k e lo0 (S n) x a.
Proof.
  intros [Ht [Ha R]]. split; [exact Ht|]. split; [exact Ha|]. destruct a as [[closed cur]|]; [|exact R].
  destruct R as [wr [roll [ts [Es [I [V [Hn ZR]]]]]]]. exists wr, roll, ts.
  split; [exact Es|]. split; [exact I|]. split; [exact V|]. split; [lia | exact ZR].
Qed.

(* one basic operation: the relation is kept, the operation succeeds (no error, no panic) *)
Lemma step_rel_sk c crit k e lo0 hi n x a o :
  tskcfg c crit k -> sfx_ok (c_spec c) -> tag_ok c -> years_ok e lo0 hi -> RelSK c crit k e lo0 n x a ->
  basic_op o -> tick_ok o -> (wnow (s_w x) <= hi)%Z -> (N.of_nat n <= usize_max)%N ->
  let '(x', ob) := step x o in
  RelSK c crit k e lo0 (S n) x' (a_step a o (rot_of ob)) /\ wnow (s_w x') = (wnow (s_w x) + dt_of o)%Z
  /\ (forall b m, (o = OWrite b \/ o = OPlain b) -> crit = CSize m ->
        ob = ObsRes 0 (m <? N.of_nat (length (match a with Some (_, cu) => cu | None => [] end)))%N)
  /\ obs_ok ob
  /\ trace_ok crit x x' o ob.
Proof.
  intros Hcfg Hsfx T Y R Hb Htk Hhi Hmax. rewrite (step_sync_rel_sk c crit k e lo0 n x a o Hcfg R). unfold trace_ok.
  destruct o; try contradiction; cbn [sync_step dt_of].
  - (* OWrite *)
    destruct (write_rel_sk c crit k e lo0 hi n x a b Hcfg Hsfx T Y R Hhi Hmax) as [s [w' [s' [rot [Es [Hp [E [R' [Hw [C (T1 & T2 & T3)]]]]]]]]]].
    rewrite Es, Hp. rewrite (proj1 R). cbn [app]. rewrite E. cbn [rot_of s_w]. split; [exact R'|]. split; [lia|].
    split; [intros b0 m _ Hm; rewrite (C m Hm); reflexivity|]. split; [reflexivity|].
    unfold roll_of_sys at 2. cbn [s_flw clock_step]. auto.
  - (* OPlain *)
    destruct (write_rel_sk c crit k e lo0 hi n x a b Hcfg Hsfx T Y R Hhi Hmax) as [s [w' [s' [rot [Es [Hp [E [R' [Hw [C (T1 & T2 & T3)]]]]]]]]]].
    rewrite Es, Hp, E. cbn [rot_of code_of s_w]. rewrite (proj1 R). split; [exact R'|]. split; [lia|].
    split; [intros b0 m _ Hm; rewrite (C m Hm); reflexivity|]. split; [reflexivity|].
    unfold roll_of_sys at 2. cbn [s_flw clock_step]. auto.
  - (* OFlush *)
    destruct R as [Ht [Ha R]]. destruct a as [[closed cur]|].
    + destruct R as [wr [roll [ts [Es [I [V [Hn ZR]]]]]]]. unfold roll_of_sys. rewrite Es. cbn [st_tsk f_poisoned].
      destruct (flush_active_ki c k e lo0 hi (s_w x) wr closed ts roll Hsfx Y Hhi I) as [w' [wr' [E [I' [V' [P' S']]]]]].
      fold (st_tsk c k ts roll wr). rewrite E. cbn [rot_of a_step s_w].
      split; [|split; [rewrite (same_env_now _ _ S'); lia | split; [intros b m [H|H]; discriminate | split; [reflexivity|]]]].
      * split; [exact Ht|]. split; [exact (same_env_acts _ _ S' Ha)|]. exists wr', roll, ts. cbn [s_flw s_w].
        split; [reflexivity|]. split; [exact I'|]. split; [congruence|]. split; [lia | exact ZR].
      * cbn [s_flw s_w]. split; [reflexivity|]. split; [reflexivity|]. apply same_env_clock. exact S'.
    + destruct R as [Es R]. unfold roll_of_sys. rewrite Es. cbn [new_flw f_poisoned flush_state f_inner rot_of a_step s_w].
      split; [|split; [lia | split; [intros b m [H|H]; discriminate | split; [reflexivity|]]]].
      * split; [exact Ht|]. split; [exact Ha|]. split; [reflexivity | exact R].
      * cbn [s_flw s_w]. repeat split.
  - (* OTrigger *)
    destruct R as [Ht [Ha R]]. destruct a as [[closed cur]|].
    + destruct R as [wr [roll [ts [Es [I [V [Hn [Z RS]]]]]]]]. unfold roll_of_sys. rewrite Es. cbn [st_tsk f_poisoned f_cfg f_inner].
      destruct (mount_next_rotates_ki c crit k e lo0 hi (s_w x) wr closed ts roll true Hcfg Hsfx T Y I Hhi ltac:(lia) eq_refl)
        as [w' [wr' [roll' [E [I' [V' [Z' [S' [R' RR']]]]]]]]].
      rewrite E. cbn [rot_of a_step code_of with_inner f_cfg f_poisoned s_w].
      split; [|split; [rewrite (same_env_now _ _ S'); lia | split; [intros b m [H|H]; discriminate | split; [reflexivity|]]]].
      * split; [exact Ht|]. split; [exact (same_env_acts _ _ S' Ha)|]. rewrite V in *.
        exists wr', roll', (wnow (s_w x)). cbn [s_flw s_w].
        split; [reflexivity|]. split; [exact I'|]. split; [exact V'|]. split; [rewrite glen_snoc; lia|]. split; [exact Z'|].
        intros m Hm. destruct (RS m Hm) as [z ->]. destruct (R' m z eq_refl) as [z' ->]. eauto.
      * cbn [s_flw s_w roll_of_flw f_inner mk_rsk rs_roll flag_of is_write ro_step clock_step].
        split; [reflexivity|]. split; [rewrite RR'; reflexivity|]. apply same_env_clock. exact S'.
    + destruct R as [Es R]. unfold roll_of_sys. rewrite Es.
      cbn [new_flw f_poisoned f_cfg f_inner mount_next with_inner rot_of a_step code_of s_w].
      split; [|split; [lia | split; [intros b m [H|H]; discriminate | split; [reflexivity|]]]].
      * split; [exact Ht|]. split; [exact Ha|]. split; [reflexivity | exact R].
      * cbn [s_flw s_w]. repeat split.
  - (* OTick *)
    cbn [rot_of a_step s_w set_now wnow tick_ok] in *. split; [|split; [reflexivity | split; [intros b m [H|H]; discriminate | split; [reflexivity|]]]].
    + destruct R as [Ht [Ha R]]. split; [exact Ht|]. split; [exact Ha|]. destruct a as [[closed cur]|].
      * destruct R as [wr [roll [ts [Es [I [V [Hn ZR]]]]]]]. exists wr, roll, ts. cbn [s_flw s_w].
        split; [exact Es|]. split; [apply ki_tick; assumption|]. split; [exact V|]. split; [lia | exact ZR].
      * cbn [s_flw s_w]. destruct R as [Es [Q [Hn [Hi [Hoff Hlo]]]]]. repeat split; try assumption; try apply Q. cbn [set_now wnow]. lia.
    + unfold roll_of_sys. cbn [s_flw s_w set_now wnow woff]. repeat split.
  - (* OSnap *)
    cbn [rot_of a_step]. split; [apply RelSK_mono; exact R|]. split; [lia|]. split; [intros b m [H|H]; discriminate|]. split; [exact Logic.I | repeat split].
Qed.

Lemma run_rel_sk c crit k e lo0 hi : tskcfg c crit k -> sfx_ok (c_spec c) -> tag_ok c -> years_ok e lo0 hi ->
  forall ops x a n, RelSK c crit k e lo0 n x a -> Forall basic_op ops -> Forall tick_ok ops ->
  (wnow (s_w x) + elapsed ops <= hi)%Z -> (N.of_nat (n + length ops) <= usize_max)%N ->
  RelSK c crit k e lo0 (n + length ops) (fst (run x ops)) (a_run a ops (snd (run x ops)))
  /\ wnow (s_w (fst (run x ops))) = (wnow (s_w x) + elapsed ops)%Z
  /\ Forall obs_ok (snd (run x ops))
  /\ (forall m, crit = CSize m -> a_run a ops (snd (run x ops)) = s_run m a ops).
Proof.
  intros Hcfg Hsfx T Y. induction ops as [|o r IH]; intros x a n R Hb Htk Hhi Hmax.
  - cbn [run fst snd a_run length elapsed]. rewrite Nat.add_0_r. split; [exact R|]. split; [lia|]. split; [constructor|].
    intros m _. reflexivity.
  - cbn [run]. inversion Hb as [|o' r' Ho Hr]; subst. inversion Htk as [|o' r' Hto Htr]; subst.
    cbn [elapsed length] in *. pose proof (elapsed_nonneg r Htr) as Er.
    assert (Hdt : (0 <= dt_of o)%Z) by (destruct o; cbn [dt_of tick_ok] in *; lia).
    pose proof (step_rel_sk c crit k e lo0 hi n x a o Hcfg Hsfx T Y R Ho Hto ltac:(lia) ltac:(lia)) as S. destruct (step x o) as [x1 ob].
    destruct S as [R1 [W1 [C1 [Ok1 _]]]]. specialize (IH x1 _ (S n) R1 Hr Htr ltac:(lia) ltac:(lia)). destruct (run x1 r) as [x2 obs].
    cbn [fst snd a_run] in *. replace (n + S (length r)) with (S n + length r) by lia. destruct IH as [IH1 [IH2 [IH3 IH4]]].
    split; [exact IH1|]. split; [lia|]. split; [constructor; assumption|].
    intros m Hm.
    assert (Erot : a_step a o (rot_of ob) = a_step a o (m <? N.of_nat (length (cur_of a)))%N).
    { destruct o; try reflexivity.
      - rewrite (C1 b m (or_introl eq_refl) Hm). reflexivity.
      - rewrite (C1 b m (or_intror eq_refl) Hm). reflexivity. }
    cbn [s_run]. rewrite <- Erot. exact (IH4 m Hm).
Qed.

(* ------------------------------------------------------------------ stop: what is left in the directory *)
(* keys: the keys of ALL closed files (length closed of them); the files of the keys at the positions lo .. L-1 exist:
   archives below mid, plain from mid on; rCURRENT holds cur; nothing else *)
Definition tsk_view (c : config) (e : Z) (f : fs) (keys : list key) (closed : list bytes) (cur : bytes) (lo mid : nat) : Prop :=
  length keys = length closed
  /\ gdir (tname c e keys) (cname c) f closed lo mid
  /\ exists j, lookup f (cname c) = Some j /\ plain (inode f j) /\ content f j = cur.

(* keys for the case that nothing is kept: no name is claimed to exist, any sequence of keys of one second will do *)
Definition akeys (t : Z) (L : nat) : list key := map (fun i => (t, i)) (seq 0 L).
Lemma akeys_length t L : length (akeys t L) = L.
Proof. unfold akeys. rewrite map_length, seq_length. reflexivity. Qed.
Lemma akeys_fst t L k : In k (akeys t L) -> fst k = t.
Proof. unfold akeys. intros H. apply in_map_iff in H. destruct H as (i & <- & _). reflexivity. Qed.
Lemma akeys_ok t L : keys_ok (akeys t L).
Proof.
  induction L as [|L IH]; [constructor|].
  unfold akeys. rewrite seq_S, map_app. cbn [map Nat.add]. fold (akeys t L).
  replace L with (count t (akeys t L)) at 2.
  - apply ko_snoc; [exact IH|]. intros k Ik. rewrite (akeys_fst t L k Ik). lia.
  - rewrite count_all by (intros k Ik; exact (akeys_fst t L k Ik)). apply akeys_length.
Qed.

Lemma shutdown_active_ki c k e lo0 hi w wr closed ts roll :
  sfx_ok (c_spec c) -> years_ok e lo0 hi -> (wnow w <= hi)%Z ->
  KI c k e lo0 w wr closed ts -> wacts w = 0 ->
  exists w' wr', shutdown_state (st_tsk c k ts roll wr) w = (w', st_tsk c k ts roll wr')
    /\ KI c k e lo0 w' wr' closed ts /\ cur_view w' wr' = cur_view w wr /\ wpend wr' = [] /\ wacts w' = 0
    /\ wnow w' = wnow w.
Proof.
  intros Hsfx Y Hhi I Ha. unfold shutdown_state, st_tsk, drain_acts. cbn [f_inner f_cfg mk_rsk rs_cleanup rs_naming rs_roll].
  destruct (w_flush_quiet w wr (ki_quiet _ _ _ _ _ _ _ _ I)) as [w1 [E [F S]]]. rewrite E.
  set (wr' := {| wino := wino wr; wpend := []; wcap := wcap wr |}).
  assert (Hok : wr_ok wr') by (unfold wr_ok, wr'; cbn; destruct (wcap wr); [lia | reflexivity]).
  destruct (ki_append c k e lo0 hi w w1 wr wr' closed ts (wpend wr) Hsfx Y Hhi I F S eq_refl eq_refl Hok) as [I1 C1].
  exists w1, wr'. split; [reflexivity|]. split; [exact I1|]. split; [|split; [reflexivity | split; [exact (same_env_acts _ _ S Ha) | exact (same_env_now _ _ S)]]].
  unfold cur_view. rewrite C1. cbn [wr' wpend]. rewrite app_nil_r. reflexivity.
Qed.

Lemma ki_view c k e lo0 w wr closed ts cur : KI c k e lo0 w wr closed ts -> content (wfs w) (wino wr) = cur ->
  exists keys, tsk_view c e (wfs w) keys closed cur (k_lo k (length closed)) (k_mid k (length closed))
               /\ keys_ok keys /\ (forall key, In key keys -> (lo0 <= fst key <= wnow w)%Z).
Proof.
  intros (keys & tcl & I & Lk) Ec. destruct I as [Q W Hoff Hc Hcp Hlen KD Hko Hrg Htsr Hwr Hcap]. destruct (keepsb k) eqn:Ek.
  - subst tcl. exists keys. split; [|split; [exact Hko | intros key Ik; specialize (Hrg key Ik); lia]].
    split; [exact Hlen|]. split; [exact KD|]. exists (wino wr). auto.
  - destruct Lk as [-> ->]. cbn [length] in KD. rewrite k_lo_0, k_mid_0 in KD. destruct KD as [Hle Hnd Hp Ha Hon].
    set (L := length closed).
    assert (E : k_lo k L = L /\ k_mid k L = L).
    { unfold keepsb, k_lo, k_mid in *. destruct (klim k) as [[n m]|]; [|discriminate]. apply Nat.ltb_ge in Ek. split; lia. }
    destruct E as [E1 E2]. rewrite E1, E2.
    exists (akeys lo0 L). split; [|split; [apply akeys_ok | intros key Ik; rewrite (akeys_fst _ _ _ Ik); lia]].
    split; [apply akeys_length|]. split; [|exists (wino wr); auto].
    constructor.
    + fold L. lia.
    + exact Hnd.
    + fold L. intros i Hi. lia.
    + intros i Hi. lia.
    + intros n j Lj. destruct (Hon n j Lj) as [->|[(i & Hi & _)|(i & Hi & _)]]; [left; reflexivity | cbn [length] in Hi; lia | lia].
Qed.

Lemma stop_rel_sk c crit k e lo0 hi n x a : tskcfg c crit k -> sfx_ok (c_spec c) -> years_ok e lo0 hi -> (wnow (s_w x) <= hi)%Z ->
  RelSK c crit k e lo0 n x a ->
  let '(x', ob) := step x OStop in
  ob = ObsRes 0%N false /\
  match a with
  | None => names (wfs (s_w x')) = []
  | Some (closed, cur) => exists keys, tsk_view c e (wfs (s_w x')) keys closed cur (k_lo k (length closed)) (k_mid k (length closed))
                                       /\ keys_ok keys /\ (forall key, In key keys -> (lo0 <= fst key <= wnow (s_w x))%Z)
  end.
Proof.
  intros Hcfg Hsfx Y Hhi R0. rewrite (step_sync_rel_sk c crit k e lo0 n x a OStop Hcfg R0). destruct R0 as [Ht [Ha R]]. cbn [sync_step].
  destruct a as [[closed cur]|].
  - destruct R as [wr [roll [ts [Es [I [V _]]]]]]. rewrite Es. cbn [st_tsk f_poisoned]. split; [reflexivity|]. unfold drop_state.
    destruct (shutdown_active_ki c k e lo0 hi (s_w x) wr closed ts roll Hsfx Y Hhi I Ha) as [w1 [wr1 [E1 [I1 [V1 [P1 [A1 N1]]]]]]].
    fold (st_tsk c k ts roll wr). rewrite E1.
    destruct (shutdown_active_ki c k e lo0 hi w1 wr1 closed ts roll Hsfx Y ltac:(lia) I1 A1) as [w2 [wr2 [E2 [I2 [V2 [P2 [A2 N2]]]]]]]. rewrite E2.
    cbn [st_tsk f_inner s_w]. unfold w_drop.
    destruct (w_flush_quiet w2 wr2 (ki_quiet _ _ _ _ _ _ _ _ I2)) as [w3 [E3 [F3 S3]]]. rewrite E3. cbn [fst snd].
    rewrite P2, append_ino_nil_id in F3. rewrite F3.
    assert (Ec : content (wfs w2) (wino wr2) = cur).
    { unfold cur_view in *. rewrite P2, app_nil_r in V2. congruence. }
    destruct (ki_view c k e lo0 w2 wr2 closed ts cur I2 Ec) as [keys [Vw [K Rg]]].
    exists keys. split; [exact Vw|]. split; [exact K|]. intros key Ik. specialize (Rg key Ik). lia.
  - destruct R as [Es [Q [Hn Hi]]]. rewrite Es. cbn [new_flw f_poisoned drop_state shutdown_state f_inner s_w]. split; [reflexivity | exact Hn].
Qed.

Lemma start_rel_sk c crit k t0 off : RelSK c crit k (ts_e c off) t0 0 (fst (step (sys0 t0 off) (OStart c))) None.
Proof. cbn. repeat split. cbn. lia. Qed.

(* ------------------------------------------------------------------ THE THEOREM (stream form) *)
(* a is the view reconstructed from the reported rotation flags (what each closed file held, rCURRENT): its concatenation is
   what was written.  The directory left behind holds rCURRENT, the newest n closed files as they are and the next m as
   archives - and nothing else; and no operation fails or panics.  No condition on the strategy. *)
Theorem timestamps_cleanup_stream c crit k t0 off ops :
  tskcfg c crit k -> tag_ok c -> sfx_ok (c_spec c) -> Forall basic_op ops -> Forall tick_ok ops ->
  (0 <= t0 + ts_e c off)%Z -> (t0 + elapsed ops + ts_e c off < sec_max)%Z -> (N.of_nat (length ops) <= usize_max)%N ->
  let x0 := fst (step (sys0 t0 off) (OStart c)) in
  let a := a_run None ops (snd (run x0 ops)) in
  let r := run (sys0 t0 off) (OStart c :: ops ++ [OStop]) in
  let f := wfs (s_w (fst r)) in
  flat a = written ops
  /\ match a with
     | None => names f = []
     | Some (closed, cur) =>
       exists keys, tsk_view c (ts_e c off) f keys closed cur (k_lo k (length closed)) (k_mid k (length closed))
                    /\ keys_ok keys /\ (forall key, In key keys -> (t0 <= fst key <= t0 + elapsed ops)%Z)
     end
  /\ Forall obs_ok (snd r)
  /\ (forall m, crit = CSize m -> a = s_run m None ops).
Proof.
  intros Hcfg T Hsfx Hb Htk Hlo Hhi Hmax x0 a r f. unfold f, r. clear f r. cbn [run]. fold x0.
  destruct (step (sys0 t0 off) (OStart c)) as [x0' ob0] eqn:E0. cbn [fst] in x0. subst x0.
  pose proof (start_rel_sk c crit k t0 off) as R0. rewrite E0 in R0. cbn [fst] in R0.
  assert (K0 : obs_ok ob0) by (cbn in E0; injection E0 as _ <-; reflexivity).
  assert (W0 : wnow (s_w x0') = t0) by (cbn in E0; injection E0 as <- _; reflexivity).
  assert (Y : years_ok (ts_e c off) t0 (t0 + elapsed ops)) by (split; assumption).
  rewrite run_app.
  pose proof (run_rel_sk c crit k _ _ _ Hcfg Hsfx T Y ops x0' None 0 R0 Hb Htk ltac:(lia) ltac:(cbn [Nat.add]; exact Hmax)) as [R1 [W1 [Ok1 Z1]]].
  pose proof (run_length ops x0') as Len.
  fold a in R1, Z1. unfold a in *. clear a.
  destruct (run x0' ops) as [x1 obs1]. cbn [fst snd] in *.
  pose proof (stop_rel_sk c crit k _ _ _ _ x1 _ Hcfg Hsfx Y ltac:(lia) R1) as S. cbn [run]. destruct (step x1 OStop) as [x2 ob2]. cbn [fst snd].
  destruct S as [-> S].
  split; [|split; [|split; [|exact Z1]]].
  - rewrite (a_run_flat ops None obs1 Hb Len). reflexivity.
  - destruct (a_run None ops obs1) as [[cl cu]|]; [|exact S].
    destruct S as [keys [V [K Rg]]]. exists keys. split; [exact V|]. split; [exact K|].
    intros key Ik. specialize (Rg key Ik). lia.
  - constructor; [exact K0|]. apply Forall_app. split; [exact Ok1|]. repeat constructor.
Qed.
Print Assumptions timestamps_cleanup_stream.
