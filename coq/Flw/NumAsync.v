(* Numbers naming, ASYNCHRONOUS write mode (c_async = true): the file contents do not depend on the write mode.

   How the model writes in this mode (Run.v): a log call (OWrite b), a raw chunk (OPlain b) and a flush are not
   executed by the caller; async_step turns them into a message (AData b, AFlush; AShutdown for shutdown / drop) and
   async_send hands it to the writer thread, which works it off at once (async_consume) - this is the scheduling
   assumption of the model and of the test harness, which synchronises the writer thread through schedule points:
   EVERY MESSAGE IS CONSUMED BEFORE THE NEXT OPERATION STARTS.  The writer thread executes
       AData b   -> Model.write_buffer s w b     (the same State::write_buffer as the synchronous handle, on the same
                                                  state; the bytes are b alone: the thread-local buffer s_tl of the
                                                  logging thread is not involved)
       AFlush    -> Model.flush_state s w
       AShutdown -> Model.shutdown_state s w, after which the thread is gone (s_dead = true).
   The writer inside the state is opened by Model.open_log_file with wcap := c_cap c, whatever c_async is: with
   c_cap c = Some n the writer thread writes through a BufWriter of capacity n, with c_cap c = None it writes to the
   File directly.  All theorems below hold for every c_cap.
   What the caller gets back (async_send): ObsRes 0 false, always - the send succeeded; the rotation flag that the
   synchronous write_buffer returns is dropped by async_consume, so the caller of an asynchronous writer never sees a
   rotation.  rotate() (OTrigger) is not a message: it is executed by the caller on the shared state (sync_step).
   OStop: the shutdown message is consumed (if the thread still runs), then the state is dropped (drop_state: two more
   shutdowns and the drop of the boxed writer).

   Consequence for the proofs: the abstract reader's view cannot be driven by the observed rotation flags (a_run of
   NumRun.v over the observations); it is driven by the rotation decisions the writer thread takes, which exist
   (arun_rel) and, for a size criterion, are the greedy rule (s_run). *)
Require Import FL.Base.Bytes FL.Base.BytesFacts FL.Base.PathName FL.Fs.Fs FL.Fs.FsFacts FL.Time.Civil FL.Time.TsFormat
  FL.Names.FileSpec FL.Names.NamesFacts FL.Flw.Model FL.Flw.ModelFacts FL.Flw.NumFs FL.Flw.NumInv FL.Flw.Run FL.Flw.RunFacts
  FL.Flw.NumRun FL.Oracles.O_Flw FL.Flw.NumTheorems FL.Flw.NumCfg0.
From Coq Require Import ZifyN ZifyNat ZifyBool.
Open Scope nat_scope.

(* the configurations covered: as numcfg, but asynchronous; any capacity *)
Definition numacfg (c : config) (crit : criterion) : Prop :=
  c_rot c = Some (crit, NNumbers, KNever) /\ fts (c_spec c) = false /\ c_symlink c = false /\ c_async c = true.

Lemma numacfg_numcfg0 c crit : numacfg c crit -> numcfg0 c crit.
Proof. intros [H1 [H2 [H3 _]]]. repeat split; assumption. Qed.

(* the invariant of the synchronous development (it does not mention the mode), and: the writer thread runs *)
Definition RelA (c : config) (crit : criterion) (x : sys) (a : aview) : Prop := Rel c crit x a /\ s_dead x = false.

(* bytes accepted by the writer but not yet handed to the file system *)
Definition pending (x : sys) : bytes :=
  match s_flw x with
  | Some s => match f_inner s with Active _ wr _ => wpend wr | Initial => [] end
  | None => []
  end.

(* the directory already reads as the abstract view, and nothing is pending *)
Definition Flushed (c : config) (x : sys) (a : aview) : Prop :=
  pending x = [] /\
  match a with
  | None => names (wfs (s_w x)) = []
  | Some (closed, cur) => reader_view c (wfs (s_w x)) closed cur
  end.

(* what the caller of an asynchronous writer observes *)
Definition aobs (o : op) (ob : obs) : Prop :=
  match o with OSnap => exists fl l e, ob = ObsSnap fl l e | _ => ob = ObsRes 0%N false end.

Lemma rel_state c crit x a : Rel c crit x a -> exists s, s_flw x = Some s /\ f_cfg s = c /\ f_poisoned s = false.
Proof.
  intros [_ [_ R]]. destruct a as [[closed cur]|]; [destruct R as [wr [roll [Es _]]] | destruct R as [Es _]];
    rewrite Es; eexists; repeat split.
Qed.

Lemma rel_ext c crit x y a : Rel c crit x a -> s_flw y = s_flw x -> s_w y = s_w x -> s_tl y = s_tl x -> Rel c crit y a.
Proof. unfold Rel. intros R E1 E2 E3. rewrite E1, E2, E3. exact R. Qed.

Lemma reader_of_inv c w wr closed : NumInv c w wr closed -> wpend wr = [] -> reader_view c (wfs w) closed (cur_view w wr).
Proof.
  intros [Q W Hc Hcp Hcl Hon Hwr Hcap] P. split; [exact Hcl|]. split; [|exact Hon].
  exists (wino wr). split; [exact Hc|]. split; [exact Hcp|]. unfold cur_view. rewrite P, app_nil_r. reflexivity.
Qed.

(* a basic operation on a running asynchronous writer: messages for writes and flushes, the rest is executed by the
   caller *)
Lemma step_async_basic c crit x a o : numacfg c crit -> RelA c crit x a -> basic_op o ->
  exists s, s_flw x = Some s /\ f_cfg s = c /\ f_poisoned s = false /\
    step x o = match o with
               | OWrite b | OPlain b => (async_consume x s (AData b), ObsRes 0%N false)
               | OFlush => (async_consume x s AFlush, ObsRes 0%N false)
               | _ => sync_step x o
               end.
Proof.
  intros [_ [Hts [_ Has]]] [R Hd] Hb. destruct (rel_state c crit x a R) as [s [Es [Ec Hp]]].
  exists s. split; [exact Es|]. split; [exact Ec|]. split; [exact Hp|].
  rewrite step_plain by (intros s' Es'; rewrite Es in Es'; injection Es' as <-; rewrite Ec; exact Hts).
  unfold step_core. rewrite Es. unfold is_async. rewrite Ec, Has.
  destruct o; try contradiction; cbn [async_step]; unfold async_send; rewrite ?Hd, ?Hp; reflexivity.
Qed.

(* a data message *)
Lemma adata_rel c crit x a s b : numacfg c crit -> RelA c crit x a -> s_flw x = Some s ->
  exists rot, RelA c crit (async_consume x s (AData b)) (a_step a (OWrite b) rot)
    /\ (forall m, crit = CSize m -> rot = (m <? N.of_nat (length (cur_of a)))%N).
Proof.
  intros Hcfg [R Hd] Es.
  destruct (write_rel0 c crit x a b (numacfg_numcfg0 _ _ Hcfg) R) as [s0 [w' [s' [rot [Es0 [Hp [E [R' C]]]]]]]].
  rewrite Es in Es0. injection Es0 as <-.
  exists rot. split; [|exact C].
  unfold async_consume. rewrite E. split; [|reflexivity].
  eapply rel_ext; [exact R' | reflexivity | reflexivity |]. cbn [s_tl]. exact (proj1 R).
Qed.

(* a flush message *)
Lemma aflush_rel c crit x a s : numacfg c crit -> RelA c crit x a -> s_flw x = Some s ->
  RelA c crit (async_consume x s AFlush) a /\ Flushed c (async_consume x s AFlush) a.
Proof.
  intros Hcfg [[Ht [Ha R]] Hd] Es. destruct a as [[closed cur]|].
  - destruct R as [wr [roll [Es' [I [V [Z RS]]]]]]. rewrite Es in Es'. injection Es' as ->.
    destruct (flush_active c (s_w x) wr closed roll I) as [w' [wr' [E [I' [V' [P' S']]]]]].
    unfold async_consume. rewrite E. split.
    + split; [|reflexivity]. split; [exact Ht|]. split; [exact (same_env_acts _ _ S' Ha)|].
      exists wr', roll. cbn [s_flw s_w]. split; [reflexivity|]. split; [exact I'|]. split; [congruence|]. split; assumption.
    + split; [exact P'|]. cbn [s_w]. rewrite <- V, <- V'. apply reader_of_inv; assumption.
  - destruct R as [Es' R]. rewrite Es in Es'. injection Es' as ->.
    unfold async_consume. cbn [new_flw flush_state f_inner]. split.
    + split; [|reflexivity]. split; [exact Ht|]. split; [exact Ha|]. split; [reflexivity | exact R].
    + split; [reflexivity|]. cbn [s_w]. apply R.
Qed.

(* one basic operation *)
Lemma astep_rel c crit x a o :
  numacfg c crit -> RelA c crit x a -> basic_op o ->
  exists rot,
    RelA c crit (fst (step x o)) (a_step a o rot)
    /\ (forall m, crit = CSize m -> a_step a o rot = a_step a o (m <? N.of_nat (length (cur_of a)))%N)
    /\ aobs o (snd (step x o))
    /\ (o = OFlush -> Flushed c (fst (step x o)) a).
Proof.
  intros Hcfg RA Hb. destruct (step_async_basic c crit x a o Hcfg RA Hb) as [s [Es [Ec [Hp Est]]]]. rewrite Est.
  pose proof (numacfg_numcfg0 _ _ Hcfg) as Hcfg0.
  destruct o; try contradiction; cbn [fst snd aobs].
  - (* OWrite *)
    destruct (adata_rel c crit x a s b Hcfg RA Es) as [rot [R' C]]. exists rot.
    split; [exact R'|]. split; [intros m Hm; rewrite (C m Hm); reflexivity|]. split; [reflexivity | discriminate].
  - (* OPlain *)
    destruct (adata_rel c crit x a s b Hcfg RA Es) as [rot [R' C]]. exists rot.
    split; [exact R'|]. split; [intros m Hm; rewrite (C m Hm); reflexivity|]. split; [reflexivity | discriminate].
  - (* OFlush *)
    destruct (aflush_rel c crit x a s Hcfg RA Es) as [R' F']. exists false.
    split; [exact R'|]. split; [reflexivity|]. split; [reflexivity | intros _; exact F'].
  - (* OTrigger: rotate() is executed by the caller *)
    exists false. cbn [sync_step]. destruct RA as [[Ht [Ha R]] Hd]. destruct a as [[closed cur]|].
    + destruct R as [wr [roll [Es' [I [V [Z RS]]]]]]. rewrite Es'. cbn [st_of f_poisoned f_cfg f_inner].
      destruct (mount_next_rotates0 c crit (s_w x) wr closed roll true Hcfg0 I eq_refl) as [w' [wr' [roll' [E [I' [V' [Z' [S' R']]]]]]]].
      rewrite E. cbn [fst snd a_step code_of with_inner f_cfg f_poisoned].
      split; [|split; [reflexivity | split; [reflexivity | discriminate]]].
      split; [|exact Hd]. split; [exact Ht|]. split; [exact (same_env_acts _ _ S' Ha)|]. rewrite V in *. exists wr', roll'. cbn [s_flw s_w].
      split; [reflexivity|]. split; [exact I'|]. split; [exact V'|]. split; [exact Z'|].
      intros m Hm. destruct (RS m Hm) as [k ->]. destruct (R' m k eq_refl) as [k' ->]. eauto.
    + destruct R as [Es' R]. rewrite Es'. cbn [new_flw f_poisoned f_cfg f_inner mount_next with_inner fst snd a_step code_of].
      split; [|split; [reflexivity | split; [reflexivity | discriminate]]].
      split; [|exact Hd]. split; [exact Ht|]. split; [exact Ha|]. split; [reflexivity | exact R].
  - (* OTick *)
    exists false. cbn [sync_step fst snd a_step].
    split; [|split; [reflexivity | split; [reflexivity | discriminate]]].
    destruct RA as [[Ht [Ha R]] Hd]. split; [|exact Hd]. split; [exact Ht|]. split; [exact Ha|]. destruct a as [[closed cur]|].
    + destruct R as [wr [roll [Es' [I [V [Z RS]]]]]]. exists wr, roll. cbn [s_flw s_w].
      split; [exact Es'|]. split; [apply (numinv_env c (s_w x)); [exact I | reflexivity | apply I]|].
      split; [exact V|]. split; assumption.
    + cbn [s_flw s_w]. exact R.
  - (* OSnap *)
    exists false. cbn [sync_step fst snd a_step].
    split; [exact RA|]. split; [reflexivity|]. split; [|discriminate]. unfold snapshot. eauto.
Qed.

(* a history of basic operations: the writer thread's rotation decisions rots exist; the state refines the abstract
   view they produce; for a size criterion that view is the greedy one; the caller sees no rotation *)
Lemma arun_rel c crit : numacfg c crit -> forall ops x a, RelA c crit x a -> Forall basic_op ops ->
  exists rots, length rots = length ops
    /\ RelA c crit (fst (run x ops)) (a_run a ops (List.map (ObsRes 0%N) rots))
    /\ (forall m, crit = CSize m -> a_run a ops (List.map (ObsRes 0%N) rots) = s_run m a ops)
    /\ Forall2 aobs ops (snd (run x ops)).
Proof.
  intros Hcfg. induction ops as [|o r IH]; intros x a R Hb.
  - exists []. split; [reflexivity|]. split; [exact R|]. split; [reflexivity | constructor].
  - inversion Hb as [|o' r' Ho Hr]; subst.
    destruct (astep_rel c crit x a o Hcfg R Ho) as [rot [R1 [C1 [O1 _]]]].
    cbn [run]. destruct (step x o) as [x1 ob]. cbn [fst snd] in R1, O1.
    destruct (IH x1 _ R1 Hr) as [rots [L [R2 [C2 O2]]]]. destruct (run x1 r) as [x2 obs]. cbn [fst snd] in *.
    exists (rot :: rots). cbn [List.map a_run rot_of length].
    split; [rewrite L; reflexivity|]. split; [exact R2|]. split; [|constructor; assumption].
    intros m Hm. rewrite (C2 m Hm), (C1 m Hm). reflexivity.
Qed.

(* ---- stop: the shutdown message, then the drop of the state ---- *)
Lemma astop_rel c crit x a : numacfg c crit -> RelA c crit x a ->
  match a with
  | None => names (wfs (s_w (fst (step x OStop)))) = []
  | Some (closed, cur) => reader_view c (wfs (s_w (fst (step x OStop)))) closed cur
  end
  /\ s_flw (fst (step x OStop)) = None /\ s_dead (fst (step x OStop)) = true /\ snd (step x OStop) = ObsRes 0%N false.
Proof.
  intros [_ [Hts [_ Has]]] [R0 Hd]. destruct (rel_state c crit x a R0) as [s [Es [Ec Hp]]].
  rewrite step_plain by (intros s' Es'; rewrite Es in Es'; injection Es' as <-; rewrite Ec; exact Hts).
  unfold step_core. rewrite Es. unfold is_async. rewrite Ec, Has, Hd, Hp. cbn [orb].
  destruct R0 as [Ht [Ha R]]. destruct a as [[closed cur]|].
  - destruct R as [wr [roll [Es' [I [V [Z RS]]]]]]. rewrite Es in Es'. injection Es' as ->.
    destruct (shutdown_active c (s_w x) wr closed roll I Ha) as [w0 [wr0 [E0 [I0 [V0 [P0 A0]]]]]].
    unfold async_consume. rewrite E0. cbn [s_flw s_w s_tl sync_step]. cbn [st_of f_poisoned]. unfold drop_state.
    fold (st_of c (length closed) roll wr0).
    destruct (shutdown_active c w0 wr0 closed roll I0 A0) as [w1 [wr1 [E1 [I1 [V1 [P1 A1]]]]]]. rewrite E1.
    destruct (shutdown_active c w1 wr1 closed roll I1 A1) as [w2 [wr2 [E2 [I2 [V2 [P2 A2]]]]]]. rewrite E2.
    cbn [st_of f_inner s_w s_flw s_dead fst snd]. unfold w_drop.
    destruct (w_flush_quiet w2 wr2 (ni_quiet _ _ _ _ I2)) as [w3 [E3 [F3 S3]]]. rewrite E3. cbn [fst snd].
    rewrite P2, append_ino_nil_id in F3. rewrite F3.
    split; [|repeat split].
    assert (EV : cur_view w2 wr2 = cur) by congruence. rewrite <- EV. apply reader_of_inv; assumption.
  - destruct R as [Es' [Q [Hn Hi]]]. rewrite Es in Es'. injection Es' as ->.
    unfold async_consume. cbn [new_flw shutdown_state f_inner s_flw s_w s_tl sync_step f_poisoned drop_state s_dead fst snd].
    split; [exact Hn | repeat split].
Qed.

Lemma astart_rel c crit t0 off : RelA c crit (fst (step (sys0 t0 off) (OStart c))) None.
Proof. cbn. repeat split. Qed.

Lemma astart_obs c t0 off : snd (step (sys0 t0 off) (OStart c)) = ObsRes 0%N false.
Proof. reflexivity. Qed.

(* ---- whole runs ---- *)
(* start, a history, stop *)
Lemma async_run_stop c crit t0 off ops :
  numacfg c crit -> Forall basic_op ops ->
  exists rots, length rots = length ops /\
    let a := a_run None ops (List.map (ObsRes 0%N) rots) in
    let r := run (sys0 t0 off) (OStart c :: ops ++ [OStop]) in
    reads c (wfs (s_w (fst r))) (files_of a)
    /\ (forall m, crit = CSize m -> a = s_run m None ops)
    /\ s_flw (fst r) = None /\ s_dead (fst r) = true
    /\ Forall2 aobs (OStart c :: ops ++ [OStop]) (snd r).
Proof.
  intros Hcfg Hb. cbn [run]. pose proof (astart_rel c crit t0 off) as R0. pose proof (astart_obs c t0 off) as O0.
  destruct (step (sys0 t0 off) (OStart c)) as [x0 ob0]. cbn [fst snd] in R0, O0.
  rewrite run_app. destruct (arun_rel c crit Hcfg ops x0 None R0 Hb) as [rots [L [R1 [C1 O1]]]].
  destruct (run x0 ops) as [x1 obs1]. cbn [fst snd] in *.
  destruct (astop_rel c crit x1 _ Hcfg R1) as [S [SF [SD SO]]]. cbn [run]. destruct (step x1 OStop) as [x2 ob2]. cbn [fst snd] in *.
  exists rots. split; [exact L|]. cbn zeta.
  split; [apply files_of_reads; exact S|]. split; [exact C1|]. split; [exact SF|]. split; [exact SD|].
  constructor; [exact O0|]. apply Forall2_app; [exact O1|]. constructor; [exact SO | constructor].
Qed.

(* start, a history, a flush (the flush message is consumed before anything else happens) *)
Lemma async_run_flush c crit t0 off ops :
  numacfg c crit -> Forall basic_op ops ->
  exists rots, length rots = length ops /\
    let a := a_run None ops (List.map (ObsRes 0%N) rots) in
    let x := fst (run (sys0 t0 off) (OStart c :: ops ++ [OFlush])) in
    RelA c crit x a /\ Flushed c x a /\ (forall m, crit = CSize m -> a = s_run m None ops).
Proof.
  intros Hcfg Hb. cbn [run]. pose proof (astart_rel c crit t0 off) as R0.
  destruct (step (sys0 t0 off) (OStart c)) as [x0 ob0]. cbn [fst] in R0.
  rewrite run_app. destruct (arun_rel c crit Hcfg ops x0 None R0 Hb) as [rots [L [R1 [C1 O1]]]].
  destruct (run x0 ops) as [x1 obs1]. cbn [fst snd] in *.
  destruct (astep_rel c crit x1 _ OFlush Hcfg R1 Logic.I) as [rot [R2 [_ [_ F2]]]]. specialize (F2 eq_refl).
  cbn [run]. destruct (step x1 OFlush) as [x2 ob2]. cbn [fst a_step] in *.
  exists rots. split; [exact L|]. cbn zeta. split; [exact R2|]. split; [exact F2 | exact C1].
Qed.

Lemma files_flat a : concat (files_of a) = flat a.
Proof. destruct a as [[cl cu]|]; cbn [files_of flat concat]; [|reflexivity]. rewrite concat_app. cbn [concat]. rewrite app_nil_r. reflexivity. Qed.

(* 1. the stream: any criterion, any capacity.  After the writer has been dropped the files r00000.., rCURRENT hold,
   in this order, a partition of exactly the bytes written - the statement of numbers_stream, for the asynchronous mode *)
Theorem async_numbers_stream c crit t0 off ops :
  numacfg c crit -> Forall basic_op ops ->
  exists files, reads c (wfs (s_w (fst (run (sys0 t0 off) (OStart c :: ops ++ [OStop]))))) files
    /\ concat files = written ops.
Proof.
  intros Hcfg Hb. destruct (async_run_stop c crit t0 off ops Hcfg Hb) as [rots [L [S _]]].
  eexists. split; [exact S|]. rewrite files_flat, a_run_flat; [reflexivity | exact Hb | rewrite map_length; exact L].
Qed.

(* 2. size criterion: the files are the greedy partition - the statement of numbers_partition *)
Theorem async_numbers_partition c m t0 off ops :
  numacfg c (CSize m) -> Forall basic_op ops ->
  reads c (wfs (s_w (fst (run (sys0 t0 off) (OStart c :: ops ++ [OStop]))))) (expected_files m None (items false ops)).
Proof.
  intros Hcfg Hb. destruct (async_run_stop c (CSize m) t0 off ops Hcfg Hb) as [rots [L [S [C _]]]]. cbn zeta in S, C.
  rewrite (C m eq_refl) in S. rewrite s_run_none in S by assumption. exact S.
Qed.

(* hence: an asynchronous and a synchronous (Direct or buffered) writer leave, after the same operations, directories
   that read as the same list of files *)
Theorem async_sync_same_files ca cs m t0 off ops :
  numacfg ca (CSize m) -> numcfg cs (CSize m) -> Forall basic_op ops ->
  exists files,
    reads ca (wfs (s_w (fst (run (sys0 t0 off) (OStart ca :: ops ++ [OStop]))))) files
    /\ reads cs (wfs (s_w (fst (run (sys0 t0 off) (OStart cs :: ops ++ [OStop]))))) files.
Proof.
  intros Ha Hs Hb. exists (expected_files m None (items false ops)).
  split; [apply async_numbers_partition | apply numbers_partition]; assumption.
Qed.

(* two asynchronous writers of different capacities *)
Theorem async_async_same_files c1 c2 m t0 off ops :
  numacfg c1 (CSize m) -> numacfg c2 (CSize m) -> Forall basic_op ops ->
  exists files,
    reads c1 (wfs (s_w (fst (run (sys0 t0 off) (OStart c1 :: ops ++ [OStop]))))) files
    /\ reads c2 (wfs (s_w (fst (run (sys0 t0 off) (OStart c2 :: ops ++ [OStop]))))) files.
Proof.
  intros H1 H2 Hb. exists (expected_files m None (items false ops)). split; apply async_numbers_partition; assumption.
Qed.

(* 3. what the caller observes: every operation except a snapshot returns "ok, no rotation" - in particular every
   write, also those at which the writer thread rotates; after the drop there is no writer, the thread is gone and
   nothing is pending *)
Theorem async_observations c crit t0 off ops :
  numacfg c crit -> Forall basic_op ops ->
  let r := run (sys0 t0 off) (OStart c :: ops ++ [OStop]) in
  Forall2 aobs (OStart c :: ops ++ [OStop]) (snd r)
  /\ s_flw (fst r) = None /\ s_dead (fst r) = true /\ pending (fst r) = [].
Proof.
  intros Hcfg Hb. destruct (async_run_stop c crit t0 off ops Hcfg Hb) as [rots [L [_ [_ [SF [SD O]]]]]]. cbn zeta in *.
  split; [exact O|]. split; [exact SF|]. split; [exact SD|]. unfold pending. rewrite SF. reflexivity.
Qed.

(* the i-th operation of the history, when it is a write or a raw chunk or a flush, returns ObsRes 0 false *)
Corollary async_write_obs c crit t0 off ops i o :
  numacfg c crit -> Forall basic_op ops -> nth_error ops i = Some o -> o <> OSnap ->
  nth_error (snd (run (sys0 t0 off) (OStart c :: ops ++ [OStop]))) (S i) = Some (ObsRes 0%N false).
Proof.
  intros Hcfg Hb Hi Hs. destruct (async_observations c crit t0 off ops Hcfg Hb) as [O _]. cbn zeta in O.
  remember (snd (run (sys0 t0 off) (OStart c :: ops ++ [OStop]))) as lobs eqn:El. clear El.
  inversion O as [|o0 ob0 l0 obs Ho0 O' E1 E2]; subst. cbn [nth_error].
  assert (G : forall l l' k, Forall2 aobs l l' -> nth_error l k = Some o -> exists ob, nth_error l' k = Some ob /\ aobs o ob).
  { clear. induction l as [|y l IH]; intros l' k F Hk; [destruct k; discriminate|].
    inversion F as [|y0 ob0 l0 l'0 Hy F' E1 E2]; subst. destruct k as [|k]; cbn [nth_error] in *.
    - injection Hk as ->. eauto.
    - apply (IH _ _ F' Hk). }
  destruct (G _ _ i O') as [ob [E A]]. { rewrite nth_error_app1; [exact Hi|]. apply nth_error_Some. congruence. }
  rewrite E. f_equal. destruct o; try exact A. contradiction.
Qed.

(* 4. durability.  (a) flush: once the flush message has been consumed - in the model and in the test harness that is
   before the next operation starts; this is the scheduling assumption, the code itself gives the caller of flush() no
   acknowledgement - the directory holds everything accepted so far, as files whose concatenation is the written
   bytes (for a size criterion: the greedy partition), no byte is pending in the writer, and the writer thread is
   still running *)
Theorem async_flush_durable c crit t0 off ops :
  numacfg c crit -> Forall basic_op ops ->
  let x := fst (run (sys0 t0 off) (OStart c :: ops ++ [OFlush])) in
  exists files, reads c (wfs (s_w x)) files /\ concat files = written ops
    /\ pending x = [] /\ s_dead x = false
    /\ (forall m, crit = CSize m -> files = expected_files m None (items false ops)).
Proof.
  intros Hcfg Hb. destruct (async_run_flush c crit t0 off ops Hcfg Hb) as [rots [L [R [[P F] C]]]]. cbn zeta in *.
  eexists. split; [apply files_of_reads; exact F|].
  split; [rewrite files_flat, a_run_flat; [reflexivity | exact Hb | rewrite map_length; exact L]|].
  split; [exact P|]. split; [exact (proj2 R)|].
  intros m Hm. rewrite (C m Hm). apply s_run_none. exact Hb.
Qed.

(* (b) shutdown + drop of the handle *)
Theorem async_stop_durable c crit t0 off ops :
  numacfg c crit -> Forall basic_op ops ->
  let x := fst (run (sys0 t0 off) (OStart c :: ops ++ [OStop])) in
  exists files, reads c (wfs (s_w x)) files /\ concat files = written ops
    /\ pending x = [] /\ s_flw x = None /\ s_dead x = true
    /\ (forall m, crit = CSize m -> files = expected_files m None (items false ops)).
Proof.
  intros Hcfg Hb. destruct (async_run_stop c crit t0 off ops Hcfg Hb) as [rots [L [S [C [SF [SD _]]]]]]. cbn zeta in *.
  eexists. split; [exact S|].
  split; [rewrite files_flat, a_run_flat; [reflexivity | exact Hb | rewrite map_length; exact L]|].
  split; [unfold pending; rewrite SF; reflexivity|]. split; [exact SF|]. split; [exact SD|].
  intros m Hm. rewrite (C m Hm). apply s_run_none. exact Hb.
Qed.

(* ---- the same flush statement for the synchronous modes (Direct and buffered), for comparison ---- *)
Lemma sync_flush_rel c crit x a : numcfg c crit -> Rel c crit x a ->
  Rel c crit (fst (step x OFlush)) a /\ Flushed c (fst (step x OFlush)) a.
Proof.
  intros Hcfg R0. rewrite (step_sync_rel c crit x a OFlush Hcfg R0). cbn [sync_step].
  destruct R0 as [Ht [Ha R]]. destruct a as [[closed cur]|].
  - destruct R as [wr [roll [Es [I [V [Z RS]]]]]]. rewrite Es. cbn [st_of f_poisoned].
    destruct (flush_active c (s_w x) wr closed roll I) as [w' [wr' [E [I' [V' [P' S']]]]]].
    fold (st_of c (length closed) roll wr). rewrite E. cbn [fst]. split.
    + split; [exact Ht|]. split; [exact (same_env_acts _ _ S' Ha)|]. exists wr', roll. cbn [s_flw s_w].
      split; [reflexivity|]. split; [exact I'|]. split; [congruence|]. split; assumption.
    + split; [exact P'|]. cbn [s_w]. rewrite <- V, <- V'. apply reader_of_inv; assumption.
  - destruct R as [Es R]. rewrite Es. cbn [new_flw f_poisoned flush_state f_inner fst]. split.
    + split; [exact Ht|]. split; [exact Ha|]. split; [reflexivity | exact R].
    + split; [unfold pending; cbn [s_flw f_inner]; reflexivity|]. cbn [s_w]. apply R.
Qed.

Theorem sync_flush_durable c crit t0 off ops :
  numcfg c crit -> Forall basic_op ops ->
  let x := fst (run (sys0 t0 off) (OStart c :: ops ++ [OFlush])) in
  exists files, reads c (wfs (s_w x)) files /\ concat files = written ops
    /\ pending x = []
    /\ (forall m, crit = CSize m -> files = expected_files m None (items false ops)).
Proof.
  intros Hcfg Hb. cbn zeta. cbn [run]. destruct (step (sys0 t0 off) (OStart c)) as [x0 ob0] eqn:E0.
  pose proof (start_rel c crit t0 off) as R0. rewrite E0 in R0. cbn [fst] in R0.
  rewrite run_app. pose proof (run_rel c crit Hcfg ops x0 None R0 Hb) as R1. pose proof (run_length ops x0) as L.
  assert (HS : forall m, crit = CSize m -> a_run None ops (snd (run x0 ops)) = s_run m None ops).
  { intros m Hm. subst crit. apply (run_size c m Hcfg ops x0 None R0 Hb). }
  destruct (run x0 ops) as [x1 obs1]. cbn [fst snd] in *.
  destruct (sync_flush_rel c crit x1 _ Hcfg R1) as [_ [P F]]. cbn [run]. destruct (step x1 OFlush) as [x2 ob2]. cbn [fst] in *.
  exists (files_of (a_run None ops obs1)). split; [apply files_of_reads; exact F|].
  split; [rewrite files_flat, a_run_flat; [reflexivity | exact Hb | exact L]|].
  split; [exact P|]. intros m Hm. rewrite (HS m Hm). apply s_run_none. exact Hb.
Qed.

(* flushed directories agree across the modes *)
Theorem async_sync_same_files_flushed ca cs m t0 off ops :
  numacfg ca (CSize m) -> numcfg cs (CSize m) -> Forall basic_op ops ->
  let xa := fst (run (sys0 t0 off) (OStart ca :: ops ++ [OFlush])) in
  let xs := fst (run (sys0 t0 off) (OStart cs :: ops ++ [OFlush])) in
  exists files, reads ca (wfs (s_w xa)) files /\ reads cs (wfs (s_w xs)) files /\ pending xa = [] /\ pending xs = [].
Proof.
  intros Ha Hs Hb. cbn zeta.
  destruct (async_flush_durable ca (CSize m) t0 off ops Ha Hb) as [fa [Ra [_ [Pa [_ Ca]]]]].
  destruct (sync_flush_durable cs (CSize m) t0 off ops Hs Hb) as [fs [Rs [_ [Ps Cs]]]]. cbn zeta in *.
  exists (expected_files m None (items false ops)). rewrite <- (Ca m eq_refl) at 1. rewrite <- (Cs m eq_refl).
  repeat split; assumption.
Qed.

(* ---- the limit of the mode independence: shutdown() without drop (OShutdown is not a basic operation) ----
   once the writer thread has ended, a log call still returns Ok (the failed send is ignored) and the record is lost:
   the world is unchanged.  A synchronous writer keeps writing after shutdown() (State::shutdown only flushes). *)
Lemma async_dead_write_lost x s b :
  s_flw x = Some s -> c_async (f_cfg s) = true -> s_dead x = true ->
  s_w (fst (step x (OWrite b))) = s_w x /\ snd (step x (OWrite b)) = ObsRes 0%N false.
Proof.
  intros Es Ha Hd. unfold step, apply_start. rewrite Es.
  assert (Ea : forall w, c_async (f_cfg (ensure_start s w)) = true).
  { intros w. unfold ensure_start. destruct (fts (c_spec (f_cfg s))); [|exact Ha]. destruct (c_start (f_cfg s)); exact Ha. }
  destruct (names_computed (OWrite b) && negb (f_poisoned s)).
  - unfold step_core. cbn [s_flw]. unfold is_async. rewrite Ea. cbn [async_step]. unfold async_send. cbn [s_dead]. rewrite Hd.
    split; reflexivity.
  - unfold step_core. rewrite Es. unfold is_async. rewrite Ha. cbn [async_step]. unfold async_send. rewrite Hd. split; reflexivity.
Qed.

(* ---- examples ---- *)
Section Examples.
Open Scope N_scope.
(* a_rCURRENT.log / a_r0000i.log, rotation when the current file holds more than 3 bytes *)
Definition ex_mode (cap : option nat) (async : bool) : config :=
  {| c_spec := {| fbase := [97]; fdisc := None; fts := false; fsfx := Some [108; 111; 103] |};
     c_append := false; c_cap := cap; c_rot := Some (CSize 3, NNumbers, KNever); c_utc := false;
     c_symlink := false; c_bg := false; c_async := async; c_start := None |}.
Definition ex_direct := ex_mode None false.
Definition ex_buffered := ex_mode (Some 4%nat) false.
Definition ex_async := ex_mode (Some 4%nat) true.        (* the writer thread writes through a BufWriter of 4 bytes *)
Definition ex_async_unbuffered := ex_mode None true.

Definition ex_hist : list op :=
  [OWrite [1;2;3;10]; OWrite [4;10]; OSnap; OFlush; OSnap; OTrigger; OPlain [5]; OWrite [6;7;8;9;10]; OWrite [11]].

(* the hypotheses are satisfiable *)
Example ex_hyps :
  numcfg ex_direct (CSize 3) /\ numcfg ex_buffered (CSize 3) /\ numacfg ex_async (CSize 3)
  /\ numacfg ex_async_unbuffered (CSize 3) /\ Forall basic_op ex_hist.
Proof. repeat split; repeat constructor. Qed.

(* the directory after the history and the drop of the writer *)
Definition final_dir (c : config) (ops : list op) : obs :=
  last (snd (run (sys0 0 0) (OStart c :: ops ++ [OStop; OSnap]))) (ObsRes 9 false).

Definition ex_dir : obs :=
  ObsSnap [([97; 95; 114; 48; 48; 48; 48; 48; 46; 108; 111; 103], 0, [1; 2; 3; 10]);
           ([97; 95; 114; 48; 48; 48; 48; 49; 46; 108; 111; 103], 0, [4; 10]);
           ([97; 95; 114; 48; 48; 48; 48; 50; 46; 108; 111; 103], 0, [5; 6; 7; 8; 9; 10]);
           ([97; 95; 114; 67; 85; 82; 82; 69; 78; 84; 46; 108; 111; 103], 0, [11])] None [].

Example ex_dir_direct : final_dir ex_direct ex_hist = ex_dir.                    Proof. vm_compute. reflexivity. Qed.
Example ex_dir_buffered : final_dir ex_buffered ex_hist = ex_dir.                Proof. vm_compute. reflexivity. Qed.
Example ex_dir_async : final_dir ex_async ex_hist = ex_dir.                      Proof. vm_compute. reflexivity. Qed.
Example ex_dir_async_unbuffered : final_dir ex_async_unbuffered ex_hist = ex_dir. Proof. vm_compute. reflexivity. Qed.
Example ex_dir_expected : expected_files 3 None (items false ex_hist) = [[1;2;3;10]; [4;10]; [5;6;7;8;9;10]; [11]].
Proof. vm_compute. reflexivity. Qed.

(* what differs is what the caller is told and what is on the disk BEFORE a flush.  The rotation flags: *)
Definition rots_seen (c : config) (ops : list op) : list bool :=
  List.map rot_of (snd (run (sys0 0 0) (OStart c :: ops ++ [OStop]))).
Example ex_flags_buffered : rots_seen ex_buffered ex_hist
  = [false; false; true; false; false; false; false; false; false; true; false]%bool.
Proof. vm_compute. reflexivity. Qed.
Example ex_flags_async : rots_seen ex_async ex_hist
  = [false; false; false; false; false; false; false; false; false; false; false]%bool.
Proof. vm_compute. reflexivity. Qed.

(* the first snapshot (before the flush) and the second (after it): with a BufWriter of 4 bytes the record [4;10]
   is still pending at the first one - in buffered and in asynchronous mode alike - and on the disk at the second *)
Definition snaps (c : config) (ops : list op) : list obs :=
  List.filter (fun ob => match ob with ObsSnap _ _ _ => true | _ => false end) (snd (run (sys0 0 0) (OStart c :: ops))).
Definition ex_snap (cur : bytes) : obs :=
  ObsSnap [([97; 95; 114; 48; 48; 48; 48; 48; 46; 108; 111; 103], 0, [1; 2; 3; 10]);
           ([97; 95; 114; 67; 85; 82; 82; 69; 78; 84; 46; 108; 111; 103], 0, cur)] None [].
Example ex_snaps_direct : snaps ex_direct ex_hist = [ex_snap [4;10]; ex_snap [4;10]].     Proof. vm_compute. reflexivity. Qed.
Example ex_snaps_buffered : snaps ex_buffered ex_hist = [ex_snap []; ex_snap [4;10]].     Proof. vm_compute. reflexivity. Qed.
Example ex_snaps_async : snaps ex_async ex_hist = [ex_snap []; ex_snap [4;10]].           Proof. vm_compute. reflexivity. Qed.
Example ex_snaps_async_unbuffered : snaps ex_async_unbuffered ex_hist = [ex_snap [4;10]; ex_snap [4;10]].
Proof. vm_compute. reflexivity. Qed.

(* FINDING (outside the theorems: OShutdown is not a basic operation).  shutdown() without dropping the writer, then
   more log calls: the synchronous writer writes them; the asynchronous one has no writer thread any more, the log
   call nevertheless returns Ok (code 0) and the record [2;10] is lost (async_dead_write_lost); the raw chunk [3]
   returns an error (code 1).  With OShutdown in the history the file contents DO depend on the write mode. *)
Definition ex_hist_shutdown : list op := [OWrite [1;10]; OShutdown; OWrite [2;10]; OPlain [3]; OFlush].
Example ex_shutdown_direct : final_dir ex_direct ex_hist_shutdown
  = ObsSnap [([97; 95; 114; 48; 48; 48; 48; 48; 46; 108; 111; 103], 0, [1; 10; 2; 10]);
             ([97; 95; 114; 67; 85; 82; 82; 69; 78; 84; 46; 108; 111; 103], 0, [3])] None [].
Proof. vm_compute. reflexivity. Qed.
Example ex_shutdown_async : final_dir ex_async_unbuffered ex_hist_shutdown
  = ObsSnap [([97; 95; 114; 67; 85; 82; 82; 69; 78; 84; 46; 108; 111; 103], 0, [1; 10])] None [].
Proof. vm_compute. reflexivity. Qed.
Example ex_shutdown_codes :
  snd (run (sys0 0 0) (OStart ex_direct :: ex_hist_shutdown ++ [OStop]))
  = [ObsRes 0 false; ObsRes 0 false; ObsRes 0 false; ObsRes 0 false; ObsRes 0 true; ObsRes 0 false; ObsRes 0 false]
  /\ snd (run (sys0 0 0) (OStart ex_async_unbuffered :: ex_hist_shutdown ++ [OStop]))
  = [ObsRes 0 false; ObsRes 0 false; ObsRes 0 false; ObsRes 0 false; ObsRes 1 false; ObsRes 0 false; ObsRes 0 false].
Proof. split; vm_compute; reflexivity. Qed.
End Examples.

Print Assumptions async_numbers_stream.
Print Assumptions async_numbers_partition.
Print Assumptions async_sync_same_files.
Print Assumptions async_async_same_files.
Print Assumptions async_observations.
Print Assumptions async_write_obs.
Print Assumptions async_flush_durable.
Print Assumptions async_stop_durable.
Print Assumptions sync_flush_durable.
Print Assumptions async_sync_same_files_flushed.
Print Assumptions async_dead_write_lost.
