(* C19 for the buffered write modes WITH rotation (Numbers naming, size criterion, no cleanup, synchronous): the
   executable specification.  It combines FaultRotSpec (the rotation steps under a fault oracle) with FaultBufSpec
   (write_all of the BufWriter under a fault oracle).

   What the model does in addition to the two, read off Model.mount_next:
   - the size counter counts the ACCEPTED bytes (in the file or still in the buffer), so a rotation is due when file
     content + buffer content exceed the limit;
   - at a rotation, AFTER the rename of rCURRENT and the creation of the new rCURRENT, the old BufWriter is flushed
     explicitly into the (renamed) old file: a failure is REPORTED as EFlush; then the old writer is dropped, which
     flushes ONCE MORE, silently.  If both attempts fail, the whole content of the old buffer is LOST - announced by
     the one EFlush -, the rotation is complete all the same, and the incoming record goes into the new buffer;
   - when the rename or the creation fails (ELogFile), the record is handed to the OLD BufWriter (which may flush,
     and lose the incoming record, as without rotation). *)
Require Import FL.Base.Bytes FL.Base.BytesFacts FL.Fs.Fs FL.Flw.Model FL.Flw.Run FL.Flw.NumRun FL.Flw.FaultFacts
  FL.Flw.FaultRotSpec FL.Flw.FaultRotation FL.Flw.FaultBufSpec.
From Coq Require Import ZifyN ZifyNat ZifyBool.
Open Scope nat_scope.

(* the abstract state, in terms of records: closed files, the writer's file, the buffer *)
Inductive rbst :=
| RInit (created : bool)                          (* writer not initialised; rCURRENT absent / present and empty *)
| RCur (cl : list (list bytes)) (D B : list bytes)   (* closed files cl; rCURRENT holds D; the buffer holds B *)
| ROld (cl : list (list bytes)) (D B : list bytes)   (* closed files cl ++ [D], no rCURRENT: the writer's file was renamed *)
| RStopped (cl : list (list bytes)) (ocur : option (list bytes)).   (* the writer has been dropped: closed files, rCURRENT *)

Definition rb_closed (st : rbst) : list bytes :=
  match st with
  | RInit _ => []
  | RCur cl _ _ => List.map (@concat N) cl
  | ROld cl D _ => List.map (@concat N) cl ++ [concat D]
  | RStopped cl _ => List.map (@concat N) cl
  end.
Definition rb_cur (st : rbst) : option bytes :=
  match st with
  | RInit created => if created then Some [] else None
  | RCur _ D _ => Some (concat D)
  | ROld _ _ _ => None
  | RStopped _ ocur => option_map (@concat N) ocur
  end.
Definition rb_pend (st : rbst) : option bytes :=
  match st with RCur _ _ B | ROld _ _ B => Some (concat B) | _ => None end.
(* the records: on disk (in order), in the buffer *)
Definition rb_disk (st : rbst) : list bytes :=
  match st with
  | RInit _ => []
  | RCur cl D _ | ROld cl D _ => concat cl ++ D
  | RStopped cl ocur => concat cl ++ match ocur with Some D => D | None => [] end
  end.
Definition rb_buf (st : rbst) : list bytes := match st with RCur _ _ B | ROld _ _ B => B | _ => [] end.
Definition rb_live (st : rbst) : Prop := match st with RStopped _ _ => False | _ => True end.

Record rout := mkrout { r_st : rbst; r_errs : list ecode; r_fl : list bool; r_code : N; r_lost : list bytes }.

(* the record is handed to the BufWriter whose file holds D and whose buffer holds B; e0 / lost0: what the rotation
   check before it has reported / lost *)
Definition rb_write (n : nat) (mk : list bytes -> list bytes -> rbst) (D B : list bytes) (b : bytes)
                    (e0 : list ecode) (fl : list bool) (lost0 : list bytes) : rout :=
  let out := sb_write n D B b fl in
  mkrout (mk (st_file (o_st out)) (st_buf (o_st out))) (e0 ++ o_errs out) (o_fl out) 0 (lost0 ++ o_lost out).

Definition rb_active (n : nat) (m : N) (old : bool) (cl : list (list bytes)) (D B : list bytes) (b : bytes) (fl : list bool) : rout :=
  let same := if old then ROld cl else RCur cl in
  if (m <? N.of_nat (length (concat D) + length (concat B)))%N then
    let '(f1, fl1) := pop fl in                                   (* rename rCURRENT -> r<index> *)
    if f1 then rb_write n same D B b [ELogFile] fl1 []
    else
      let '(f2, fl2) := pop fl1 in                                (* create the new rCURRENT *)
      if f2 then rb_write n (ROld cl) D B b [ELogFile] fl2 []
      else
        let '(g1, fl3) := wr_pop (concat B) fl2 in                (* flush the old writer: reported *)
        if g1 then
          let '(g2, fl4) := wr_pop (concat B) fl3 in              (* its drop: silent *)
          if g2 then rb_write n (RCur (cl ++ [D])) [] [] b [EFlush] fl4 B
          else rb_write n (RCur (cl ++ [D ++ B])) [] [] b [EFlush] fl4 []
        else rb_write n (RCur (cl ++ [D ++ B])) [] [] b [] fl3 []
  else rb_write n same D B b [] fl [].

Definition rb_init (n : nat) (app : bool) (m : N) (created : bool) (b : bytes) (fl : list bool) : rout :=
  match s_init_pops app fl with
  | (Some k, fl') => mkrout (RInit (created || k)) [EWrite] fl' 0 [b]
  | (None, fl') => rb_active n m false [] [] [] b fl'
  end.

Definition rb_flush (mk : list bytes -> list bytes -> rbst) (D B : list bytes) (fl : list bool) : rout :=
  let '(f, fl1) := wr_pop (concat B) fl in
  if f then mkrout (mk D B) [] fl1 1 [] else mkrout (mk (D ++ B) []) [] fl1 0 [].

Definition rb_stop (old : bool) (cl : list (list bytes)) (D B : list bytes) (fl : list bool) : rout :=
  let out := sb_stop D B fl in
  mkrout (if old then RStopped (cl ++ [st_file (o_st out)]) None else RStopped cl (Some (st_file (o_st out))))
         (o_errs out) (o_fl out) 0 (o_lost out).

Definition rb_step (n : nat) (app : bool) (m : N) (st : rbst) (o : op) (fl : list bool) : rout :=
  match st with
  | RStopped _ _ => mkrout st [] fl 3 []
  | RInit created =>
    match o with
    | OWrite b => rb_init n app m created b fl
    | OStop => mkrout (RStopped [] (if created then Some [] else None)) [] fl 0 []
    | _ => mkrout st [] fl 0 []
    end
  | RCur cl D B =>
    match o with
    | OWrite b => rb_active n m false cl D B b fl
    | OFlush => rb_flush (RCur cl) D B fl
    | OStop => rb_stop false cl D B fl
    | _ => mkrout st [] fl 0 []
    end
  | ROld cl D B =>
    match o with
    | OWrite b => rb_active n m true cl D B b fl
    | OFlush => rb_flush (ROld cl) D B fl
    | OStop => rb_stop true cl D B fl
    | _ => mkrout st [] fl 0 []
    end
  end.

Fixpoint simrb_run (n : nat) (app : bool) (m : N) (st : rbst) (fl : list bool) (ops : list op)
  : rbst * list ecode * list bool * list N * list bytes :=
  match ops with
  | [] => (st, [], fl, [], [])
  | o :: rest =>
    let out := rb_step n app m st o fl in
    let '(st2, e2, fl2, c2, l2) := simrb_run n app m (r_st out) (r_fl out) rest in
    (st2, r_errs out ++ e2, fl2, r_code out :: c2, r_lost out ++ l2)
  end.

(* closed files, current file, buffer, reported errors, rest of the oracle *)
Definition simrb (n : nat) (app : bool) (m : N) (fl : list bool) (ops : list op)
  : list bytes * option bytes * option bytes * list ecode * list bool :=
  let '(st, e, fl', _, _) := simrb_run n app m (RInit false) fl ops in (rb_closed st, rb_cur st, rb_pend st, e, fl').

Definition rop (o : op) : Prop := match o with OWrite _ | OFlush => True | _ => False end.
Definition rop_stop (o : op) : Prop := match o with OWrite _ | OFlush | OStop => True | _ => False end.

(* ------------------------------------------------------------------ one operation *)
Definition rb_all (st : rbst) : list bytes := rb_disk st ++ rb_buf st.

(* what one operation does.  used: the oracle entries it consumes; kb: the content of the buffer is kept (not kept:
   both flush attempts of a rotation, or all three of the drop, have failed); ki: the incoming record is kept.
   - every report has its own failing call; without a failing call nothing is reported, nothing is lost, result 0;
   - a loss is reported: the loss of the buffer by EFlush, the loss of the incoming record by EWrite;
   - what is on disk stays there, in place (rb_disk: the closed files, then the writer's file: it grows at its end) *)
Definition rstep_ok (st : rbst) (o : op) (fl : list bool) (out : rout) : Prop :=
  exists used add (kb ki : bool),
    fl = used ++ r_fl out
    /\ length (r_errs out) <= ntrue used
    /\ (ntrue used = 0 -> r_errs out = [] /\ r_lost out = [] /\ r_code out = 0%N)
    /\ (r_lost out <> [] -> r_errs out <> [])
    /\ rb_disk (r_st out) = rb_disk st ++ add
    /\ r_lost out = (if kb then [] else rb_buf st) ++ (if ki then [] else rec_of o)
    /\ rb_all (r_st out) = rb_disk st ++ (if kb then rb_buf st else []) ++ (if ki then rec_of o else [])
    /\ (kb = false -> In EFlush (r_errs out))
    /\ (ki = false -> In EWrite (r_errs out))
    /\ nlost (r_errs out) = (if ki then 0 else 1).

(* the write after the rotation check: pre / e0 / lost0 are what the check consumed / reported / lost; the writer that
   takes the record is on a file that holds base ++ D (records on disk) with the buffer B *)
Lemma rb_write_ok n mk base D B b e0 fl0 lost0 st fl pre (kb : bool) addD :
  (forall D' B', rb_disk (mk D' B') = base ++ D' /\ rb_buf (mk D' B') = B') ->
  fl = pre ++ fl0 -> length e0 <= ntrue pre -> (ntrue pre = 0 -> e0 = []) -> nlost e0 = 0 ->
  lost0 = (if kb then [] else rb_buf st) -> (kb = false -> In EFlush e0) ->
  (base ++ D) ++ B = rb_disk st ++ (if kb then rb_buf st else []) ->
  base ++ D = rb_disk st ++ addD ->
  rstep_ok st (OWrite b) fl (rb_write n mk D B b e0 fl0 lost0).
Proof.
  intros Hmk Hfl He0 Hn0 Hnl Hl0 Hkb Hall Hdisk. unfold rb_write.
  pose proof (sb_write_ok n D B b fl0) as S. pose proof (sb_write_live n D B b fl0) as Lv.
  destruct (sb_write n D B b fl0) as [st1 e1 fl1 c1 l1]. unfold step_okb in S. cbn [o_st o_errs o_fl o_code o_lost] in *.
  destruct S as [used1 [add1 [S1 [S2 [S3 [S4 [S5 S6]]]]]]]. cbn [st_file st_buf] in S5.
  destruct (Hmk (st_file st1) (st_buf st1)) as [M1 M2].
  assert (Hall1 : forall X, st_all st1 = (D ++ B) ++ X ->
            rb_all (mk (st_file st1) (st_buf st1)) = rb_disk st ++ (if kb then rb_buf st else []) ++ X).
  { intros X HX. unfold rb_all. rewrite M1, M2. unfold st_all in HX.
    rewrite <- (app_assoc base (st_file st1) (st_buf st1)), HX.
    assert (E : base ++ (D ++ B) ++ X = (rb_disk st ++ (if kb then rb_buf st else [])) ++ X)
      by (rewrite <- Hall, <- !app_assoc; reflexivity).
    rewrite E, <- app_assoc. reflexivity. }
  destruct S6 as [[El [Hn Ha]] | [[b' [Eb [El [Ha [Ee Hn]]]]] | [Eo _]]]; [| |discriminate Eo].
  - (* the record is accepted *)
    exists (pre ++ used1), (addD ++ add1), kb, true. cbn [r_st r_errs r_fl r_code r_lost rec_of].
    split; [rewrite Hfl, S1, app_assoc; reflexivity|].
    split; [rewrite app_length, ntrue_app; lia|].
    split. { rewrite ntrue_app. intros H0. assert (ntrue pre = 0) by lia. assert (ntrue used1 = 0) by lia.
             destruct (S3 H1) as [Ee1 [El1 _]]. rewrite Ee1, El1, (Hn0 H), Hl0. cbn [app]. rewrite app_nil_r.
             destruct kb; [auto|]. specialize (Hkb eq_refl). rewrite (Hn0 H) in Hkb. contradiction. }
    split. { rewrite El, app_nil_r, Hl0. intros Hne. destruct kb; [congruence|]. specialize (Hkb eq_refl).
             destruct e0; [contradiction | discriminate]. }
    split; [rewrite M1, S5, app_assoc, Hdisk, <- !app_assoc; reflexivity|].
    split; [rewrite El, Hl0; reflexivity|].
    split; [apply Hall1; exact Ha|].
    split; [intros Hk; apply in_or_app; left; apply Hkb; exact Hk|].
    split; [discriminate|]. rewrite nlost_app. lia.
  - (* the record is lost *)
    injection Eb as <-. exists (pre ++ used1), (addD ++ add1), kb, false. cbn [r_st r_errs r_fl r_code r_lost rec_of].
    split; [rewrite Hfl, S1, app_assoc; reflexivity|].
    split; [rewrite app_length, ntrue_app; lia|].
    split; [rewrite ntrue_app; intros H0; lia|].
    split; [rewrite Ee; intros _ H; apply app_eq_nil in H; destruct H; discriminate|].
    split; [rewrite M1, S5, app_assoc, Hdisk, <- !app_assoc; reflexivity|].
    split; [rewrite El, Hl0; reflexivity|].
    split; [rewrite app_nil_r; rewrite <- (app_nil_r (if kb then rb_buf st else [])); apply Hall1; rewrite app_nil_r; exact Ha|].
    split; [intros Hk; apply in_or_app; left; apply Hkb; exact Hk|].
    split; [intros _; apply in_or_app; right; rewrite Ee; left; reflexivity|].
    rewrite nlost_app, Ee, Hnl. reflexivity.
Qed.

Lemma pop_used fl : exists u, fl = u ++ snd (pop fl) /\ ntrue u = (if fst (pop fl) then 1 else 0).
Proof. destruct fl as [|[|] r]; cbn [pop hd tl fst snd]; [exists [] | exists [true] | exists [false]]; split; reflexivity. Qed.
Lemma wr_pop_used b fl : exists u, fl = u ++ snd (wr_pop b fl) /\ ntrue u = (if fst (wr_pop b fl) then 1 else 0).
Proof. unfold wr_pop. destruct b; [exists []; split; reflexivity | apply pop_used]. Qed.

Lemma rb_active_ok n m (old : bool) cl D B b fl :
  rstep_ok (if old then ROld cl D B else RCur cl D B) (OWrite b) fl (rb_active n m old cl D B b fl).
Proof.
  set (st := if old then ROld cl D B else RCur cl D B).
  assert (Hd : rb_disk st = concat cl ++ D) by (unfold st; destruct old; reflexivity).
  assert (Hb : rb_buf st = B) by (unfold st; destruct old; reflexivity).
  assert (Msame : forall D' B', rb_disk ((if old then ROld cl else RCur cl) D' B') = concat cl ++ D'
                                /\ rb_buf ((if old then ROld cl else RCur cl) D' B') = B') by (intros; destruct old; split; reflexivity).
  assert (Mold : forall D' B', rb_disk (ROld cl D' B') = concat cl ++ D' /\ rb_buf (ROld cl D' B') = B') by (intros; split; reflexivity).
  assert (Mnew : forall X D' B', rb_disk (RCur (cl ++ [X]) D' B') = (concat cl ++ X) ++ D' /\ rb_buf (RCur (cl ++ [X]) D' B') = B').
  { intros. cbn [rb_disk rb_buf]. rewrite concat_app. cbn [concat]. rewrite app_nil_r. split; reflexivity. }
  unfold rb_active.
  destruct (m <? N.of_nat (length (concat D) + length (concat B)))%N.
  - destruct (pop_used fl) as [u1 [U1 N1]]. destruct (pop fl) as [f1 fl1]. cbn [fst snd] in *. destruct f1; cbv iota in N1.
    + (* the rename fails *)
      apply (rb_write_ok n _ (concat cl) D B b [ELogFile] fl1 [] st fl u1 true []);
        [exact Msame | exact U1 | cbn; lia | intros H; lia | reflexivity | reflexivity | discriminate
        | rewrite Hd, Hb; reflexivity | rewrite Hd, app_nil_r; reflexivity].
    + destruct (pop_used fl1) as [u2 [U2 N2]]. destruct (pop fl1) as [f2 fl2]. cbn [fst snd] in *. destruct f2; cbv iota in N2.
      * (* the creation fails *)
        apply (rb_write_ok n _ (concat cl) D B b [ELogFile] fl2 [] st fl (u1 ++ u2) true []);
          [exact Mold | rewrite U1, U2, app_assoc; reflexivity | rewrite ntrue_app; cbn; lia | rewrite ntrue_app; intros H; lia
          | reflexivity | reflexivity | discriminate | rewrite Hd, Hb; reflexivity | rewrite Hd, app_nil_r; reflexivity].
      * destruct (wr_pop_used (concat B) fl2) as [u3 [U3 N3]]. destruct (wr_pop (concat B) fl2) as [g1 fl3]. cbn [fst snd] in *.
        destruct g1; cbv iota in N3.
        -- destruct (wr_pop_used (concat B) fl3) as [u4 [U4 N4]]. destruct (wr_pop (concat B) fl3) as [g2 fl4]. cbn [fst snd] in *.
           assert (Hfl : fl = (u1 ++ u2 ++ u3 ++ u4) ++ fl4) by (rewrite U1, U2, U3, U4, <- !app_assoc; reflexivity).
           destruct g2; cbv iota in N4.
           ++ (* both attempts fail: the old buffer is lost *)
              apply (rb_write_ok n _ (concat cl ++ D) [] [] b [EFlush] fl4 B st fl (u1 ++ u2 ++ u3 ++ u4) false []);
                [apply Mnew | exact Hfl | rewrite !ntrue_app; cbn; lia | rewrite !ntrue_app; intros H; lia | reflexivity
                | rewrite Hb; reflexivity | intros _; left; reflexivity | rewrite Hd, !app_nil_r; reflexivity
                | rewrite Hd, !app_nil_r; reflexivity].
           ++ apply (rb_write_ok n _ (concat cl ++ (D ++ B)) [] [] b [EFlush] fl4 [] st fl (u1 ++ u2 ++ u3 ++ u4) true B);
                [apply Mnew | exact Hfl | rewrite !ntrue_app; cbn; lia | rewrite !ntrue_app; intros H; lia | reflexivity
                | reflexivity | discriminate | rewrite Hd, Hb, !app_nil_r, !app_assoc; reflexivity
                | rewrite Hd, !app_nil_r, !app_assoc; reflexivity].
        -- apply (rb_write_ok n _ (concat cl ++ (D ++ B)) [] [] b [] fl3 [] st fl (u1 ++ u2 ++ u3) true B);
             [apply Mnew | rewrite U1, U2, U3, <- !app_assoc; reflexivity | cbn; lia | reflexivity | reflexivity
             | reflexivity | discriminate | rewrite Hd, Hb, !app_nil_r, !app_assoc; reflexivity
             | rewrite Hd, !app_nil_r, !app_assoc; reflexivity].
  - apply (rb_write_ok n _ (concat cl) D B b [] fl [] st fl [] true []);
      [exact Msame | reflexivity | cbn; lia | reflexivity | reflexivity | reflexivity | discriminate
      | rewrite Hd, Hb; reflexivity | rewrite Hd, app_nil_r; reflexivity].
Qed.

Lemma s_init_pops_used app fl :
  exists u, fl = u ++ snd (s_init_pops app fl) /\ ntrue u = (match fst (s_init_pops app fl) with Some _ => 1 | None => 0 end).
Proof.
  unfold s_init_pops.
  destruct (pop_used fl) as [u1 [U1 N1]]. destruct (pop fl) as [f1 fl1]. cbn [fst snd] in *. destruct f1; cbv iota in N1.
  { exists u1. cbn [fst snd]. auto. }
  assert (P2 : exists u2, fl1 = u2 ++ snd (if app then (false, fl1) else pop fl1)
                          /\ ntrue u2 = (if fst (if app then (false, fl1) else pop fl1) then 1 else 0)).
  { destruct app; [exists []; split; reflexivity | apply pop_used]. }
  destruct P2 as [u2 [U2 N2]]. destruct (if app then (false, fl1) else pop fl1) as [f2 fl2]. cbn [fst snd] in *.
  destruct f2; cbv iota in N2.
  { exists (u1 ++ u2). cbn [fst snd]. rewrite ntrue_app, U1, U2, app_assoc. split; [reflexivity | lia]. }
  destruct (pop_used fl2) as [u3 [U3 N3]]. destruct (pop fl2) as [f3 fl3]. cbn [fst snd] in *. destruct f3; cbv iota in N3.
  { exists (u1 ++ u2 ++ u3). cbn [fst snd]. rewrite !ntrue_app, U1, U2, U3, <- !app_assoc. split; [reflexivity | lia]. }
  assert (P4 : exists u4, fl3 = u4 ++ snd (if app then pop fl3 else (false, fl3))
                          /\ ntrue u4 = (if fst (if app then pop fl3 else (false, fl3)) then 1 else 0)).
  { destruct app; [apply pop_used | exists []; split; reflexivity]. }
  destruct P4 as [u4 [U4 N4]]. destruct (if app then pop fl3 else (false, fl3)) as [f4 fl4]. cbn [fst snd] in *.
  exists (u1 ++ u2 ++ u3 ++ u4). rewrite !ntrue_app, U1, U2, U3, U4, <- !app_assoc.
  destruct f4; cbv iota in N4; cbn [fst snd]; split; try reflexivity; lia.
Qed.

(* a prefix of the oracle without failures is consumed before: the statement carries over *)
Lemma rstep_ok_prefix st st0 o fl pre fl0 out : fl = pre ++ fl0 -> ntrue pre = 0 ->
  rb_disk st0 = rb_disk st -> rb_buf st0 = rb_buf st -> rstep_ok st0 o fl0 out -> rstep_ok st o fl out.
Proof.
  intros Hfl Hn Hd Hb [used [add [kb [ki [H1 [H2 [H3 [H4 [H5 [H6 [H7 [H8 [H9 H10]]]]]]]]]]]]].
  exists (pre ++ used), add, kb, ki. rewrite ntrue_app, Hn. cbn [plus]. rewrite <- Hd, <- Hb.
  split; [rewrite Hfl, H1, app_assoc; reflexivity|]. auto 12.
Qed.

Lemma rb_init_ok n ap m created b fl : rstep_ok (RInit created) (OWrite b) fl (rb_init n ap m created b fl).
Proof.
  unfold rb_init. destruct (s_init_pops_used ap fl) as [u [U Nu]].
  destruct (s_init_pops ap fl) as [[k|] fl']; cbn [fst snd] in *.
  - exists u, [], true, false. cbn [r_st r_errs r_fl r_code r_lost rb_disk rb_buf rec_of app length].
    split; [exact U|]. split; [lia|]. split; [intros H; lia|]. split; [discriminate|]. split; [reflexivity|].
    split; [reflexivity|]. split; [reflexivity|]. split; [discriminate|]. split; [intros _; left; reflexivity | reflexivity].
  - apply (rstep_ok_prefix (RInit created) (RCur [] [] []) (OWrite b) fl u fl'); [exact U | exact Nu | reflexivity | reflexivity|].
    apply (rb_active_ok n m false [] [] [] b fl').
Qed.

Lemma rb_flush_ok (old : bool) cl D B fl :
  rstep_ok (if old then ROld cl D B else RCur cl D B) OFlush fl (rb_flush (if old then ROld cl else RCur cl) D B fl).
Proof.
  unfold rb_flush. destruct (wr_pop_used (concat B) fl) as [u [U Nu]]. destruct (wr_pop (concat B) fl) as [f fl1]. cbn [fst snd] in *.
  assert (Hd : forall D' B', rb_disk ((if old then ROld cl else RCur cl) D' B') = concat cl ++ D'
                             /\ rb_buf ((if old then ROld cl else RCur cl) D' B') = B') by (intros; destruct old; split; reflexivity).
  assert (E : (if old then ROld cl D B else RCur cl D B) = (if old then ROld cl else RCur cl) D B) by (destruct old; reflexivity).
  rewrite E. destruct (Hd D B) as [Hd1 Hb1]. destruct f; cbv iota in Nu.
  - exists u, [], true, true. cbn [r_st r_errs r_fl r_code r_lost rec_of app length]. rewrite !app_nil_r.
    split; [exact U|]. split; [lia|]. split; [intros H; lia|]. split; [congruence|]. split; [reflexivity|]. split; [reflexivity|].
    split; [reflexivity|]. split; [discriminate|]. split; [discriminate | reflexivity].
  - destruct (Hd (D ++ B) []) as [Hd2 Hb2].
    exists u, B, true, true. cbn [r_st r_errs r_fl r_code r_lost rec_of app length]. unfold rb_all. rewrite Hd1, Hb1, Hd2, Hb2, !app_nil_r.
    split; [exact U|]. split; [lia|]. split; [auto|]. split; [congruence|]. split; [rewrite app_assoc; reflexivity|].
    split; [reflexivity|]. split; [rewrite !app_assoc; reflexivity|]. split; [discriminate|]. split; [discriminate | reflexivity].
Qed.

Lemma rb_stop_ok (old : bool) cl D B fl :
  rstep_ok (if old then ROld cl D B else RCur cl D B) OStop fl (rb_stop old cl D B fl).
Proof.
  unfold rb_stop. pose proof (sb_stop_ok D B fl) as S. unfold step_okb in S.
  assert (Hst : exists F', o_st (sb_stop D B fl) = BStopped F').
  { unfold sb_stop.
    repeat match goal with
           | |- context [if ?x then _ else _] => match type of x with bool => destruct x end
           | |- context [let '(_, _) := ?p in _] => destruct p
           end; cbn [o_st]; eexists; reflexivity. }
  destruct (sb_stop D B fl) as [st1 e1 fl1 c1 l1]. cbn [o_st o_errs o_fl o_code o_lost] in *.
  destruct Hst as [F' ->]. cbn [st_file st_buf] in *.
  destruct S as [used [add [S1 [S2 [S3 [S4 [S5 S6]]]]]]].
  assert (Hd : rb_disk (if old then ROld cl D B else RCur cl D B) = concat cl ++ D) by (destruct old; reflexivity).
  assert (Hb : rb_buf (if old then ROld cl D B else RCur cl D B) = B) by (destruct old; reflexivity).
  assert (Hd2 : rb_disk (if old then RStopped (cl ++ [F']) None else RStopped cl (Some F')) = concat cl ++ F').
  { destruct old; cbn [rb_disk]; [rewrite concat_app; cbn [concat]; rewrite !app_nil_r|]; reflexivity. }
  assert (Hb2 : rb_buf (if old then RStopped (cl ++ [F']) None else RStopped cl (Some F')) = []) by (destruct old; reflexivity).
  assert (Hc : ntrue used = 0 -> e1 = [] /\ l1 = [] /\ 0%N = 0%N) by (intros H; destruct (S3 H) as [H1 [H2 _]]; auto).
  destruct S6 as [[El [Hn Ha]] | [[b' [Eb _]] | [_ [El [Hne [Est [Ee Eu]]]]]]]; [|discriminate Eb|].
  - unfold st_all in Ha. cbn [st_file st_buf rec_of] in Ha. rewrite !app_nil_r in Ha. rewrite Ha in *. clear Ha.
    exists used, B, true, true. cbn [r_st r_errs r_fl r_code r_lost rec_of]. unfold rb_all. rewrite Hd, Hb, Hd2, Hb2, El, !app_nil_r.
    split; [exact S1|]. split; [exact S2|]. split; [intros H; destruct (Hc H) as [H1 _]; auto|]. split; [congruence|].
    split; [rewrite app_assoc; reflexivity|].
    split; [reflexivity|]. split; [rewrite app_assoc; reflexivity|]. split; [discriminate|]. split; [discriminate | exact Hn].
  - injection Est as ->. exists used, [], false, true. cbn [r_st r_errs r_fl r_code r_lost rec_of]. unfold rb_all.
    rewrite Hd, Hb, Hd2, Hb2, El, Ee, !app_nil_r.
    split; [exact S1|]. split; [rewrite Ee in S2; exact S2|]. split; [intros H; rewrite Eu in H; cbn in H; lia|].
    split; [discriminate|]. split; [reflexivity|]. split; [reflexivity|]. split; [reflexivity|].
    split; [intros _; left; reflexivity|]. split; [discriminate | reflexivity].
Qed.

Theorem rb_step_ok n ap m st o fl : rb_live st -> rop_stop o -> rstep_ok st o fl (rb_step n ap m st o fl).
Proof.
  intros Hl Ho.
  assert (Nop : forall st0, rec_of o = [] -> rstep_ok st0 o fl (mkrout st0 [] fl 0 [])).
  { intros st0 Hr. exists [], [], true, true. cbn [r_st r_errs r_fl r_code r_lost app length]. unfold rb_all. rewrite Hr, !app_nil_r.
    split; [reflexivity|]. split; [cbn; lia|]. split; [auto|]. split; [congruence|]. split; [reflexivity|]. split; [reflexivity|].
    split; [reflexivity|]. split; [discriminate|]. split; [discriminate | reflexivity]. }
  destruct st as [created|cl D B|cl D B|cl ocur]; [| | |contradiction]; cbn [rb_step].
  - destruct o; try contradiction; try (apply Nop; reflexivity).
    + apply rb_init_ok.
    + exists [], [], true, true. cbn [r_st r_errs r_fl r_code r_lost app length rec_of]. unfold rb_all.
      cbn [rb_disk rb_buf concat app]. destruct created; cbn [app];
        (split; [reflexivity|]; split; [cbn; lia|]; split; [auto|]; split; [congruence|]; split; [reflexivity|]; split; [reflexivity|];
         split; [reflexivity|]; split; [discriminate|]; split; [discriminate | reflexivity]).
  - destruct o; try contradiction.
    + apply (rb_active_ok n m false).
    + apply (rb_flush_ok false).
    + apply (rb_stop_ok false).
  - destruct o; try contradiction.
    + apply (rb_active_ok n m true).
    + apply (rb_flush_ok true).
    + apply (rb_stop_ok true).
Qed.

Lemma rb_step_live n ap m st o fl : rb_live st -> rop o -> rb_live (r_st (rb_step n ap m st o fl)).
Proof.
  intros Hl Ho.
  assert (A : forall old cl D B b fl0, rb_live (r_st (rb_active n m old cl D B b fl0))).
  { intros old cl D B b fl0. unfold rb_active, rb_write.
    repeat match goal with
           | |- context [if ?x then _ else _] => match type of x with bool => destruct x end
           | |- context [let '(_, _) := ?p in _] => destruct p
           end; exact I. }
  destruct st as [created|cl D B|cl D B|cl ocur]; [| | |contradiction]; cbn [rb_step]; destruct o; try contradiction; try exact I.
  - unfold rb_init. destruct (s_init_pops ap fl) as [[k|] fl']; [exact I | apply A].
  - apply A.
  - unfold rb_flush. destruct (wr_pop (concat B) fl) as [f fl1]. destruct f; exact I.
  - apply A.
  - unfold rb_flush. destruct (wr_pop (concat B) fl) as [f fl1]. destruct f; exact I.
Qed.

(* ------------------------------------------------------------------ whole histories *)
(* (2) with rotation.  A history of log calls and flushes, possibly ended by the drop.  What is on disk (closed files in
   order, then the writer's file) followed by the buffer is the records of the history, in order, each at most once
   (`kept`, a subsequence); exactly the others are lost (counted); every report has its own failing call; what is on
   disk stays there, in place *)
Theorem simrb_run_records n ap m : forall ops st fl tail, rb_live st -> Forall rop ops -> tail = [] \/ tail = [OStop] ->
  let '(st', e, fl', codes, lost) := simrb_run n ap m st fl (ops ++ tail) in
  exists kept used add,
    Subseq kept (rb_buf st ++ recs_of ops) /\ rb_all st' = rb_disk st ++ kept
    /\ length (rb_buf st ++ recs_of ops) = length kept + length lost
    /\ fl = used ++ fl' /\ length e <= ntrue used
    /\ rb_disk st' = rb_disk st ++ add.
Proof.
  (* one step, then a run *)
  assert (Step : forall st o fl out st2 e2 fl2 (l2 : list bytes) rest,
    rstep_ok st o fl out ->
    (exists kept used add,
        Subseq kept (rb_buf (r_st out) ++ recs_of rest) /\ rb_all st2 = rb_disk (r_st out) ++ kept
        /\ length (rb_buf (r_st out) ++ recs_of rest) = length kept + length l2
        /\ r_fl out = used ++ fl2 /\ length e2 <= ntrue used
        /\ rb_disk st2 = rb_disk (r_st out) ++ add) ->
    exists kept used add,
        Subseq kept (rb_buf st ++ rec_of o ++ recs_of rest) /\ rb_all st2 = rb_disk st ++ kept
        /\ length (rb_buf st ++ rec_of o ++ recs_of rest) = length kept + length (r_lost out ++ l2)
        /\ fl = used ++ fl2 /\ length (r_errs out ++ e2) <= ntrue used
        /\ rb_disk st2 = rb_disk st ++ add).
  { intros st o fl out st2 e2 fl2 l2 rest [used [add [kb [ki [H1 [H2 [H3 [H4 [H5 [H6 [H7 _]]]]]]]]]]]
           [kept2 [used2 [add2 [K1 [K2 [K3 [K4 [K5 K6]]]]]]]].
    (* what the step keeps: X = add ++ buffer afterwards *)
    set (X := (if kb then rb_buf st else []) ++ (if ki then rec_of o else [])) in *.
    assert (HX : X = add ++ rb_buf (r_st out)).
    { unfold rb_all in H7. rewrite H5, <- app_assoc in H7. apply app_inv_head in H7. symmetry. exact H7. }
    assert (SX : Subseq X (rb_buf st ++ rec_of o)).
    { unfold X. apply subseq_app; [destruct kb; [apply subseq_refl | apply subseq_nil] | destruct ki; [apply subseq_refl | apply subseq_nil]]. }
    assert (LX : length (rb_buf st ++ rec_of o) = length X + length (r_lost out)).
    { unfold X. rewrite H6, !app_length. destruct kb, ki; cbn [length]; lia. }
    exists (add ++ kept2), (used ++ used2), (add ++ add2).
    split. { apply (subseq_trans (X ++ recs_of rest)).
             - rewrite app_assoc. apply subseq_app; [exact SX | apply subseq_refl].
             - rewrite HX, <- app_assoc. apply subseq_app; [apply subseq_refl | exact K1]. }
    split; [rewrite K2, H5, <- app_assoc; reflexivity|].
    split. { rewrite app_assoc, app_length, LX, HX. rewrite !app_length in *. lia. }
    split; [rewrite H1, K4, app_assoc; reflexivity|].
    split; [rewrite app_length, ntrue_app; lia|].
    rewrite K6, H5, <- app_assoc. reflexivity. }
  induction ops as [|o rest IH]; intros st fl tail Hl Hb Ht.
  - cbn [app]. destruct Ht as [->| ->]; cbn [simrb_run].
    + exists (rb_buf st), [], []. cbn [recs_of List.map concat length ntrue filter]. rewrite !app_nil_r.
      split; [apply subseq_refl|]. split; [reflexivity|]. split; [lia|]. split; [reflexivity|]. split; [cbn; lia | reflexivity].
    + pose proof (rb_step_ok n ap m st OStop fl Hl I) as S.
      destruct (rb_step n ap m st OStop fl) as [st1 e1 fl1 c1 l1].
      destruct (Step st OStop fl _ st1 [] fl1 [] [] S) as [kept [used [add H]]].
      { cbn [r_st r_fl]. exists (rb_buf st1), [], []. cbn [recs_of List.map concat length]. rewrite !app_nil_r.
        split; [apply subseq_refl|]. split; [reflexivity|]. split; [lia|]. split; [reflexivity|]. split; [cbn; lia | reflexivity]. }
      cbn [r_st r_errs r_fl r_code r_lost rec_of recs_of List.map concat app] in *. exists kept, used, add. exact H.
  - inversion Hb as [|o' r' Ho Hr]; subst o' r'. cbn [app simrb_run].
    assert (Ho' : rop_stop o) by (destruct o; try contradiction; exact I).
    pose proof (rb_step_ok n ap m st o fl Hl Ho') as S. pose proof (rb_step_live n ap m st o fl Hl Ho) as L.
    specialize (IH (r_st (rb_step n ap m st o fl)) (r_fl (rb_step n ap m st o fl)) tail L Hr Ht).
    destruct (simrb_run n ap m (r_st (rb_step n ap m st o fl)) (r_fl (rb_step n ap m st o fl)) (rest ++ tail)) as [[[[st2 e2] fl2] c2] l2].
    rewrite recs_of_cons. exact (Step st o fl _ st2 e2 fl2 l2 rest S IH).
Qed.

(* record by record: the operations with the state before, the oracle before, and the outcome *)
Fixpoint rb_trace (n : nat) (ap : bool) (m : N) (st : rbst) (fl : list bool) (ops : list op) : list (rbst * op * list bool * rout) :=
  match ops with
  | [] => []
  | o :: rest => let out := rb_step n ap m st o fl in (st, o, fl, out) :: rb_trace n ap m (r_st out) (r_fl out) rest
  end.
Definition tr_out (x : rbst * op * list bool * rout) : rout := snd x.
Definition tr_ok (x : rbst * op * list bool * rout) : Prop := let '(st, o, fl, out) := x in rstep_ok st o fl out.
Definition tr_loses (x : rbst * op * list bool * rout) : bool := match r_lost (tr_out x) with [] => false | _ => true end.

Theorem simrb_trace n ap m : forall ops st fl tail, rb_live st -> Forall rop ops -> tail = [] \/ tail = [OStop] ->
  let '(st', e, fl', codes, lost) := simrb_run n ap m st fl (ops ++ tail) in
  let t := rb_trace n ap m st fl (ops ++ tail) in
  e = concat (List.map (fun x => r_errs (tr_out x)) t)
  /\ lost = concat (List.map (fun x => r_lost (tr_out x)) t)
  /\ codes = List.map (fun x => r_code (tr_out x)) t
  /\ Forall tr_ok t
  /\ length (filter tr_loses t) <= length e.
Proof.
  induction ops as [|o rest IH]; intros st fl tail Hl Hb Ht.
  - cbn [app]. destruct Ht as [->| ->]; cbn [simrb_run rb_trace].
    + cbv zeta. cbn [List.map concat filter length]. split; [reflexivity|]. split; [reflexivity|]. split; [reflexivity|]. split; [constructor | lia].
    + pose proof (rb_step_ok n ap m st OStop fl Hl I) as S.
      destruct (rb_step n ap m st OStop fl) as [st1 e1 fl1 c1 l1] eqn:Es. cbv zeta.
      cbn [List.map concat tr_out snd r_errs r_lost r_code filter]. rewrite !app_nil_r.
      split; [reflexivity|]. split; [reflexivity|]. split; [reflexivity|]. split; [constructor; [exact S | constructor]|].
      unfold tr_loses. cbn [tr_out snd r_lost]. destruct S as [_ [_ [_ [_ [_ [_ [_ [S4 _]]]]]]]]. cbn [r_lost r_errs] in S4.
      destruct l1; cbn [length]; [lia|]. destruct e1; [exfalso; apply S4; [discriminate | reflexivity] | cbn [length]; lia].
  - inversion Hb as [|o' r' Ho Hr]; subst o' r'. cbn [app simrb_run rb_trace].
    assert (Ho' : rop_stop o) by (destruct o; try contradiction; exact I).
    pose proof (rb_step_ok n ap m st o fl Hl Ho') as S. pose proof (rb_step_live n ap m st o fl Hl Ho) as L.
    specialize (IH (r_st (rb_step n ap m st o fl)) (r_fl (rb_step n ap m st o fl)) tail L Hr Ht).
    destruct (simrb_run n ap m (r_st (rb_step n ap m st o fl)) (r_fl (rb_step n ap m st o fl)) (rest ++ tail)) as [[[[st2 e2] fl2] c2] l2].
    cbv zeta in IH |- *. destruct IH as [I1 [I2 [I3 [I4 I5]]]].
    cbn [List.map concat tr_out snd filter]. rewrite <- I1, <- I2, <- I3.
    split; [reflexivity|]. split; [reflexivity|]. split; [reflexivity|]. split; [constructor; [exact S | exact I4]|].
    unfold tr_loses at 1. cbn [tr_out snd]. rewrite app_length.
    destruct S as [_ [_ [_ [_ [_ [_ [_ [S4 _]]]]]]]].
    destruct (r_lost (rb_step n ap m st o fl)); cbn [length]; [lia|].
    destruct (r_errs (rb_step n ap m st o fl)); [exfalso; apply S4; [discriminate | reflexivity] | cbn [length]; lia].
Qed.

(* ------------------------------------------------------------------ (3) recovery *)
Lemma rb_step_recovered n ap m st o fl : all_false fl -> rb_live st -> rop_stop o ->
  let out := rb_step n ap m st o fl in
  r_errs out = [] /\ r_lost out = [] /\ r_code out = 0%N /\ all_false (r_fl out)
  /\ rb_all (r_st out) = rb_all st ++ rec_of o
  /\ exists add, rb_disk (r_st out) = rb_disk st ++ add.
Proof.
  intros Hf Hl Ho. cbv zeta.
  destruct (rb_step_ok n ap m st o fl Hl Ho) as [used [add [kb [ki [H1 [H2 [H3 [H4 [H5 [H6 [H7 [H8 [H9 H10]]]]]]]]]]]]].
  rewrite H1 in Hf. apply all_false_app in Hf. destruct Hf as [Hu Hf'].
  assert (Hn : ntrue used = 0) by (apply ntrue_0_all_false; exact Hu).
  destruct (H3 Hn) as [E1 [E2 E3]]. split; [exact E1|]. split; [exact E2|]. split; [exact E3|]. split; [exact Hf'|].
  split; [|exists add; exact H5].
  rewrite E1 in H8, H9. destruct kb; [|destruct (H8 eq_refl)]. destruct ki; [|destruct (H9 eq_refl)].
  rewrite H7. unfold rb_all. rewrite app_assoc. reflexivity.
Qed.

Lemma rb_final_empty n ap m st o fl : all_false fl -> rb_live st -> o = OFlush \/ o = OStop ->
  rb_buf (r_st (rb_step n ap m st o fl)) = [].
Proof.
  intros Hf Hl Ho.
  destruct st as [created|cl D B|cl D B|cl ocur]; [| | |contradiction]; cbn [rb_step].
  - destruct Ho as [->| ->]; reflexivity.
  - destruct (wr_pop_all_false (concat B) fl Hf) as [W1 _].
    destruct Ho as [->| ->]; unfold rb_flush, rb_stop; [destruct (wr_pop (concat B) fl) as [f fl1]; cbn [fst] in W1; subst f; reflexivity | reflexivity].
  - destruct (wr_pop_all_false (concat B) fl Hf) as [W1 _].
    destruct Ho as [->| ->]; unfold rb_flush, rb_stop; [destruct (wr_pop (concat B) fl) as [f fl1]; cbn [fst] in W1; subst f; reflexivity | reflexivity].
Qed.

Lemma simrb_run_app n ap m : forall ops1 ops2 st fl,
  simrb_run n ap m st fl (ops1 ++ ops2)
  = let '(st1, e1, fl1, c1, l1) := simrb_run n ap m st fl ops1 in
    let '(st2, e2, fl2, c2, l2) := simrb_run n ap m st1 fl1 ops2 in (st2, e1 ++ e2, fl2, c1 ++ c2, l1 ++ l2).
Proof.
  induction ops1 as [|o rest IH]; intros ops2 st fl; cbn [Datatypes.app simrb_run].
  - destruct (simrb_run n ap m st fl ops2) as [[[[st2 e2] fl2] c2] l2]. reflexivity.
  - rewrite IH. destruct (simrb_run n ap m (r_st (rb_step n ap m st o fl)) (r_fl (rb_step n ap m st o fl)) rest) as [[[[st1 e1] fl1] c1] l1].
    destruct (simrb_run n ap m st1 fl1 ops2) as [[[[st2 e2] fl2] c2] l2]. rewrite !app_assoc. reflexivity.
Qed.

(* once no more failures come: nothing more is reported or lost, every call returns 0, every further record is accepted
   behind what is there (disk, then buffer); rotation works again (the records are distributed over the files by the
   size rule, which the refinement theorem ties to the directory) *)
Theorem recovery_spec_rb n ap m : forall ops st fl, all_false fl -> rb_live st -> Forall rop ops ->
  let '(st', e, fl', codes, lost) := simrb_run n ap m st fl ops in
  e = [] /\ lost = [] /\ Forall (fun k => k = 0%N) codes /\ all_false fl' /\ rb_live st'
  /\ rb_all st' = rb_all st ++ recs_of ops.
Proof.
  induction ops as [|o rest IH]; intros st fl Hf Hl Hb; cbn [simrb_run].
  - cbn. rewrite app_nil_r. repeat split; auto.
  - inversion Hb as [|o' r' Ho Hr]; subst o' r'.
    assert (Ho' : rop_stop o) by (destruct o; try contradiction; exact I).
    pose proof (rb_step_recovered n ap m st o fl Hf Hl Ho') as S. pose proof (rb_step_live n ap m st o fl Hl Ho) as L. cbv zeta in S.
    destruct (rb_step n ap m st o fl) as [st1 e1 fl1 c1 l1]. cbn [r_st r_errs r_fl r_code r_lost] in *.
    destruct S as [-> [-> [-> [Hf1 [Ha _]]]]].
    specialize (IH st1 fl1 Hf1 L Hr). destruct (simrb_run n ap m st1 fl1 rest) as [[[[st2 e2] fl2] c2] l2].
    destruct IH as [-> [-> [Hc [Hf2 [L2 Ha2]]]]].
    split; [reflexivity|]. split; [reflexivity|]. split; [constructor; [reflexivity | exact Hc]|]. split; [exact Hf2|].
    split; [exact L2|]. rewrite Ha2, Ha, recs_of_cons, app_assoc. reflexivity.
Qed.

(* a history ops1 after which the rest of the oracle holds no failure, continued by ops2 and a final flush or drop:
   nothing more is reported or lost, and everything accepted after ops1 (disk and buffer) followed by all records of
   ops2 is on disk *)
Theorem buffered_rotation_recovery n ap m fl ops1 ops2 f : Forall rop ops1 -> Forall rop ops2 -> f = OFlush \/ f = OStop ->
  let '(st1, e1, fl1, _, l1) := simrb_run n ap m (RInit false) fl ops1 in
  all_false fl1 ->
  let '(st2, e2, fl2, c2, l2) := simrb_run n ap m (RInit false) fl (ops1 ++ ops2 ++ [f]) in
  e2 = e1 /\ l2 = l1 /\ rb_disk st2 = rb_all st1 ++ recs_of ops2 /\ rb_buf st2 = [] /\ all_false fl2.
Proof.
  intros H1 H2 Hfin. rewrite simrb_run_app.
  assert (L1 : rb_live (fst (fst (fst (fst (simrb_run n ap m (RInit false) fl ops1)))))).
  { clear H2 Hfin. generalize (RInit false) fl (I : rb_live (RInit false)). induction ops1 as [|o rest IH]; intros st fl0 Hl; [exact Hl|].
    inversion H1 as [|o' r' Ho Hr]; subst o' r'. cbn [simrb_run].
    specialize (IH Hr _ (r_fl (rb_step n ap m st o fl0)) (rb_step_live n ap m st o fl0 Hl Ho)).
    destruct (simrb_run n ap m (r_st (rb_step n ap m st o fl0)) (r_fl (rb_step n ap m st o fl0)) rest) as [[[[st2 e2] fl2] c2] l2]. exact IH. }
  destruct (simrb_run n ap m (RInit false) fl ops1) as [[[[st1 e1] fl1] c1] l1]. cbn [fst] in L1. intros Hf.
  rewrite simrb_run_app. pose proof (recovery_spec_rb n ap m ops2 st1 fl1 Hf L1 H2) as R.
  destruct (simrb_run n ap m st1 fl1 ops2) as [[[[st2 e2] fl2] c2] l2]. destruct R as [-> [-> [_ [Hf2 [L2 Ha]]]]].
  cbn [simrb_run].
  assert (Ho' : rop_stop f) by (destruct Hfin as [->| ->]; exact I).
  pose proof (rb_step_recovered n ap m st2 f fl2 Hf2 L2 Ho') as S. pose proof (rb_final_empty n ap m st2 f fl2 Hf2 L2 Hfin) as Eb. cbv zeta in S.
  destruct (rb_step n ap m st2 f fl2) as [st3 e3 fl3 c3 l3]. cbn [r_st r_errs r_fl r_code r_lost] in *.
  destruct S as [-> [-> [_ [Hf3 [Ha3 _]]]]]. rewrite !app_nil_r.
  split; [reflexivity|]. split; [reflexivity|]. split; [|split; [exact Eb | exact Hf3]].
  unfold rb_all in Ha3 at 1. rewrite Eb, app_nil_r in Ha3. rewrite Ha3, Ha.
  destruct Hfin as [->| ->]; cbn [rec_of]; rewrite app_nil_r; reflexivity.
Qed.

Print Assumptions rb_step_ok.
Print Assumptions simrb_run_records.
Print Assumptions simrb_trace.
Print Assumptions buffered_rotation_recovery.
