(* NumbersDirect naming with a size criterion: the greedy partition over SEQUENCES of runs on one directory.
   The files r00000 .. r(n) found are continued as under Numbers naming (files_after of NumAppendPartition.v):
   - with append the newest numbered file is continued and its content counts for the limit from the first write on;
   - without append the next number is started (at the first write) and the run partitions as from a fresh start;
   - a run that never writes leaves the directory as it is. *)
Require Import FL.Base.Bytes FL.Base.BytesFacts FL.Base.PathName FL.Fs.Fs FL.Fs.FsFacts FL.Time.Civil FL.Time.TsFormat
  FL.Names.FileSpec FL.Names.NamesFacts FL.Names.FamilyFacts FL.Flw.Model FL.Flw.ModelFacts FL.Flw.NumFs FL.Flw.NumInv
  FL.Flw.Run FL.Flw.RunFacts FL.Flw.NumRun FL.Flw.NumListing FL.Oracles.O_Flw FL.Flw.NumTheorems FL.Flw.NumRestart
  FL.Flw.NumAppendPartition FL.Flw.NumDInv FL.Flw.NumDRun FL.Flw.NumDTheorems FL.Flw.NumDRestart.
From Coq Require Import ZifyN ZifyNat ZifyBool.
Import String.StringSyntax.
Open Scope nat_scope.

(* ================================================================== the size rule of one run *)
Lemma first_write_size_d c m x v b :
  numdcfg c (CSize m) -> (N.of_nat (length (closed_of v)) <= u32_max)%N -> PreD c x v ->
  exists w' s',
    write_buffer (new_flw c) (s_w x) b = (Ok tt, w', s', (m <? N.of_nat (length (snd (init_view c v))))%N).
Proof.
  intros Hcfg Hb [Ht [Ha [Es [Q D]]]]. destruct v as [[cl cu]|].
  - destruct D as [W R]. cbn [closed_of] in Hb.
    destruct (initialize_view_d c (CSize m) (s_w x) cl cu Hcfg Q W R Hb) as [w1 [wr [roll [Ei [I [V [Z [S1 RS]]]]]]]].
    destruct (RS m eq_refl) as [k Ek]. subst roll. cbn [roll_size_ok] in Z. subst k.
    destruct (init_view c (Some (cl, cu))) as [cl1 cu1]. cbn [fst snd] in *.
    assert (Z0 : roll_size_ok (RSize m (N.of_nat (length cu1))) (length (cur_view w1 wr))) by (rewrite V; reflexivity).
    destruct (write_active_d c (CSize m) w1 wr cl1 _ b Hcfg I Z0) as [w' [wr' [roll' [closed' [E _]]]]].
    exists w', (st_of_d c (length closed') roll' wr').
    rewrite (write_buffer_init c (s_w x) b _ _ _ w1 Ei). exact E.
  - assert (R0 : RelD c (CSize m) x None) by (split; [exact Ht|]; split; [exact Ha|]; split; [exact Es|]; split; [exact Q | exact D]).
    destruct (write_rel_d c (CSize m) x None b Hcfg R0) as [s [w' [s' [rot [Es' [Hp [E [_ C]]]]]]]].
    rewrite Es in Es'. injection Es' as <-. exists w', s'. rewrite E, (C m eq_refl). reflexivity.
Qed.

Lemma gstep_size_d c m x v a o b :
  numdcfg c (CSize m) -> (N.of_nat (length (closed_of v)) <= u32_max)%N ->
  GRelD c (CSize m) x v a -> (o = OWrite b \/ o = OPlain b) ->
  snd (step x o) = ObsRes 0 (m <? N.of_nat (length (gcur c v a)))%N.
Proof.
  intros Hcfg Hb G Hw.
  assert (Ho : basic_op o) by (destruct Hw as [->| ->]; exact Logic.I).
  destruct a as [p|].
  - cbn [GRelD] in G. pose proof (step_rel_d c (CSize m) x (Some p) o Hcfg G Ho) as S.
    destruct (step x o) as [x' ob]. destruct S as [_ C]. cbn [snd]. rewrite (C b m Hw eq_refl).
    destruct p as [cl cu]. reflexivity.
  - cbn [GRelD] in G. rewrite (step_sync_pre_d c (CSize m) x v o Hcfg G).
    pose proof G as [Ht [Ha [Es [Q D]]]]. cbn [gcur].
    destruct Hw as [->| ->]; cbn [sync_step].
    + destruct (first_write_size_d c m x v (s_tl x ++ b) Hcfg Hb G) as [w' [s' E]].
      rewrite Es. cbn [new_flw f_poisoned]. fold (new_flw c). rewrite E. reflexivity.
    + destruct (first_write_size_d c m x v b Hcfg Hb G) as [w' [s' E]].
      rewrite Es. cbn [new_flw f_poisoned]. fold (new_flw c). rewrite E. reflexivity.
Qed.

Lemma grun_size_d c m v : numdcfg c (CSize m) -> (N.of_nat (length (closed_of v)) <= u32_max)%N ->
  forall ops x a, GRelD c (CSize m) x v a -> Forall basic_op ops ->
  g_run c v a ops (snd (run x ops)) = gs_run m c v a ops
  /\ (forall i o, nth_error ops i = Some o -> forall b, (o = OWrite b \/ o = OPlain b) ->
        nth_error (snd (run x ops)) i
        = Some (ObsRes 0 (m <? N.of_nat (length (gcur c v (gs_run m c v a (firstn i ops)))))%N)).
Proof.
  intros Hcfg Hbd. induction ops as [|o r IH]; intros x a G Hb.
  - split; [reflexivity|]. intros i o H. destruct i; discriminate.
  - cbn [run]. inversion Hb as [|o' r' Ho Hr]; subst.
    pose proof (gstep_rel_d c (CSize m) x v a o Hcfg Hbd G Ho) as S.
    pose proof (fun b Hw => gstep_size_d c m x v a o b Hcfg Hbd G Hw) as C1.
    destruct (step x o) as [x1 ob] eqn:Est. cbn [snd] in C1.
    specialize (IH x1 _ S Hr). destruct (run x1 r) as [x2 obs] eqn:Er. cbn [snd] in *.
    assert (Erot : g_step c v a o (rot_of ob) = g_step c v a o (m <? N.of_nat (length (gcur c v a)))%N).
    { destruct o; try (destruct a; reflexivity).
      - rewrite (C1 b (or_introl eq_refl)). reflexivity.
      - rewrite (C1 b (or_intror eq_refl)). reflexivity. }
    cbn [g_run gs_run]. rewrite <- Erot. destruct IH as [IH1 IH2]. split; [exact IH1|].
    intros i o0 Hi b Hw. destruct i as [|i].
    + cbn in Hi. injection Hi as <-. cbn [nth_error firstn gs_run]. f_equal. apply (C1 b Hw).
    + cbn [nth_error firstn gs_run] in *. rewrite <- Erot. apply (IH2 i o0 Hi b Hw).
Qed.

(* ---- one whole run ---- *)
Lemma one_run_size_d c m x v ops :
  numdcfg c (CSize m) -> (N.of_nat (length (closed_of v)) <= u32_max)%N ->
  Forall basic_op ops -> IdleD c x v ->
  exists v', IdleD c (fst (run x (OStart c :: ops ++ [OStop]))) v'
    /\ files_of v' = files_after (files_of v) (c_append c) m ops
    /\ length (closed_of v') <= length (closed_of v) + S (length ops).
Proof.
  intros Hcfg Hb Hops Id. cbn [run]. pose proof (start_pre_d c x v Id) as P0.
  destruct (step x (OStart c)) as [x0 ob0]. cbn [fst] in P0.
  rewrite run_app.
  pose proof (grun_rel_d c (CSize m) v Hcfg Hb ops x0 None P0 Hops) as G1.
  pose proof (grun_size_d c m v Hcfg Hb ops x0 None P0 Hops) as [Hs _].
  destruct (run x0 ops) as [x1 obs1]. cbn [fst snd] in *.
  pose proof (stop_idle_d c (CSize m) x1 v _ Hcfg G1) as S. cbn [run]. destruct (step x1 OStop) as [x2 ob2]. cbn [fst] in *.
  exists (gview v (g_run c v None ops obs1)). split; [exact S|]. split.
  - rewrite Hs. apply gview_files. exact Hops.
  - pose proof (gview_pot v (g_run c v None ops obs1)). pose proof (g_run_pot c v ops None obs1). cbn [gpot] in *. lia.
Qed.

Lemma one_run_flags_d c m x v ops i o b :
  numdcfg c (CSize m) -> (N.of_nat (length (closed_of v)) <= u32_max)%N ->
  Forall basic_op ops -> IdleD c x v ->
  nth_error ops i = Some o -> (o = OWrite b \/ o = OPlain b) ->
  nth_error (snd (run x (OStart c :: ops))) (S i)
  = Some (ObsRes 0 (m <? N.of_nat (length (cur_before m (start_of (files_of v) (c_append c)) (firstn i ops))))%N).
Proof.
  intros Hcfg Hb Hops Id Hi Hw. cbn [run]. pose proof (start_pre_d c x v Id) as P0.
  destruct (step x (OStart c)) as [x0 ob0]. cbn [fst] in P0.
  pose proof (grun_size_d c m v Hcfg Hb ops x0 None P0 Hops) as [_ Hr].
  destruct (run x0 ops) as [x1 obs1]. cbn [snd nth_error] in *.
  rewrite (Hr i o Hi b Hw), gcur_before. reflexivity.
Qed.

(* ================================================================== sequences of runs *)
Definition srun_ok_d (sp : file_spec) (r : config * list op) : Prop :=
  c_spec (fst r) = sp /\ (exists m, numdcfg (fst r) (CSize m)) /\ Forall basic_op (snd r).

Lemma runs_size_rel_d sp : forall rs x v c0, c_spec c0 = sp -> Forall (srun_ok_d sp) rs -> IdleD c0 x v ->
  (N.of_nat (length (closed_of v) + length (runs_ops rs)) <= u32_max)%N ->
  exists v', IdleD c0 (fst (run x (runs_ops rs))) v' /\ files_of v' = runs_files (files_of v) rs
    /\ length (closed_of v') <= length (closed_of v) + length (runs_ops rs).
Proof.
  induction rs as [|[c ops] r IH]; intros x v c0 Ec0 Hrs Id Hb.
  - exists v. split; [exact Id|]. split; [reflexivity|]. cbn [runs_ops length]. lia.
  - inversion Hrs as [|r0 r' [Ec [[m Hcfg] Hops]] Hr]; subst. cbn [fst snd] in *.
    rewrite runs_ops_cons in *.
    assert (Esp : c_spec c0 = c_spec c) by congruence.
    assert (Hb1 : (N.of_nat (length (closed_of v)) <= u32_max)%N) by lia.
    destruct (one_run_size_d c m x v ops Hcfg Hb1 Hops (idle_d_spec c0 c x v Esp Id)) as [v1 [Id1 [F1 P1]]].
    rewrite run_app. destruct (run x (OStart c :: ops ++ [OStop])) as [x1 obs1]. cbn [fst] in Id1.
    assert (Hb2 : (N.of_nat (length (closed_of v1) + length (runs_ops r)) <= u32_max)%N).
    { rewrite app_length in Hb. cbn [length] in Hb. rewrite app_length in Hb. cbn [length] in Hb. lia. }
    destruct (IH x1 v1 c0 eq_refl Hr (idle_d_spec c c0 x1 v1 (eq_sym Esp) Id1) Hb2) as [v2 [Id2 [F2 P2]]].
    destruct (run x1 (runs_ops r)) as [x2 obs2]. cbn [fst] in *.
    exists v2. split; [exact Id2|]. split.
    + rewrite F2, F1. cbn [runs_files]. destruct Hcfg as [-> _]. reflexivity.
    + rewrite app_length. cbn [length]. rewrite app_length. cbn [length]. lia.
Qed.

(* C08 for any number of runs on one directory under NumbersDirect naming *)
Theorem numbersdirect_runs_partition sp t0 off rs :
  (N.of_nat (length (runs_ops rs)) <= u32_max)%N ->
  Forall (fun r => c_spec (fst r) = sp /\ (exists m, numdcfg (fst r) (CSize m)) /\ Forall basic_op (snd r)) rs ->
  forall c, c_spec c = sp ->
    direct_view c (wfs (s_w (fst (run (sys0 t0 off) (runs_ops rs))))) (runs_files [] rs).
Proof.
  intros Hb Hrs c Ec.
  destruct (runs_size_rel_d sp rs (sys0 t0 off) None (sp_config sp) eq_refl Hrs (idle_d0 _ t0 off) Hb) as [v' [Id [F _]]].
  destruct (idle_d_reads sp (sp_config sp) _ v' eq_refl Id) as [R _].
  cbn [files_of] in F. rewrite <- F. apply R. exact Ec.
Qed.
Print Assumptions numbersdirect_runs_partition.

Theorem numbersdirect_runs_rotates_iff sp t0 off rs c m ops i o b :
  (N.of_nat (length (runs_ops rs)) <= u32_max)%N ->
  Forall (fun r => c_spec (fst r) = sp /\ (exists m, numdcfg (fst r) (CSize m)) /\ Forall basic_op (snd r)) rs ->
  c_spec c = sp -> numdcfg c (CSize m) -> Forall basic_op ops ->
  nth_error ops i = Some o -> (o = OWrite b \/ o = OPlain b) ->
  nth_error (snd (run (fst (run (sys0 t0 off) (runs_ops rs))) (OStart c :: ops))) (S i)
  = Some (ObsRes 0 (m <? N.of_nat (length (cur_before m (start_of (runs_files [] rs) (c_append c)) (firstn i ops))))%N).
Proof.
  intros Hb Hrs Ec Hcfg Hops Hi Hw.
  destruct (runs_size_rel_d sp rs (sys0 t0 off) None (sp_config sp) eq_refl Hrs (idle_d0 _ t0 off) Hb) as [v' [Id [F P]]].
  cbn [files_of closed_of length] in F, P. rewrite <- F.
  apply (one_run_flags_d c m _ v' ops i o b); try assumption; [lia|].
  apply (idle_d_spec (sp_config sp) c); [symmetry; exact Ec | exact Id].
Qed.
Print Assumptions numbersdirect_runs_rotates_iff.

(* ================================================================== two runs *)
Lemma first_run_idle_d c1 m1 t0 off ops1 :
  numdcfg c1 (CSize m1) -> Forall basic_op ops1 ->
  exists v1, IdleD c1 (fst (run (sys0 t0 off) (OStart c1 :: ops1 ++ [OStop]))) v1
    /\ files_of v1 = expected_files m1 None (items false ops1).
Proof.
  intros Hcfg Hops.
  assert (Hb0 : (N.of_nat (length (closed_of None)) <= u32_max)%N) by (cbn; lia).
  destruct (one_run_size_d c1 m1 (sys0 t0 off) None ops1 Hcfg Hb0 Hops (idle_d0 c1 t0 off)) as [v1 [Id1 [F1 _]]].
  exists v1. split; [exact Id1|]. rewrite F1. unfold files_after. cbn [files_of app]. destruct (c_append c1); reflexivity.
Qed.

(* 3. Two runs, the second one appending: the newest numbered file (the last file of run 1) is continued, and its
   content counts for the limit from the first write on. *)
Theorem numbersdirect_append_partition c1 c2 m1 m2 t0 off ops1 ops2 closed1 cur1 :
  numdcfg c1 (CSize m1) -> numdcfg c2 (CSize m2) -> c_spec c1 = c_spec c2 -> c_append c2 = true ->
  Forall basic_op ops1 -> Forall basic_op ops2 ->
  expected_files m1 None (items false ops1) = closed1 ++ [cur1] -> (N.of_nat (length closed1) <= u32_max)%N ->
  direct_view c2 (wfs (s_w (fst (run (sys0 t0 off) (OStart c1 :: ops1 ++ [OStop] ++ OStart c2 :: ops2 ++ [OStop])))))
              (closed1 ++ expected_files m2 (Some cur1) (items false ops2)).
Proof.
  intros Hcfg1 Hcfg2 Esp Happ Hops1 Hops2 E1 Hb.
  destruct (first_run_idle_d c1 m1 t0 off ops1 Hcfg1 Hops1) as [v1 [Id1 F1]].
  rewrite E1 in F1. apply files_of_some_inv in F1. subst v1.
  rewrite two_runs_split, run_app. destruct (run (sys0 t0 off) (OStart c1 :: ops1 ++ [OStop])) as [x1 obs1]. cbn [fst] in Id1.
  destruct (one_run_size_d c2 m2 x1 (Some (closed1, cur1)) ops2 Hcfg2 Hb Hops2 (idle_d_spec c1 c2 x1 _ Esp Id1)) as [v2 [Id2 [F2 _]]].
  destruct (run x1 (OStart c2 :: ops2 ++ [OStop])) as [x2 obs2]. cbn [fst] in *.
  destruct (idle_d_reads (c_spec c2) c2 x2 v2 eq_refl Id2) as [R _].
  unfold files_after in F2. rewrite Happ in F2. cbn [files_of] in F2.
  destruct (closed1 ++ [cur1]) eqn:E0; [destruct closed1; discriminate|]. rewrite <- E0 in F2.
  rewrite removelast_last, last_last in F2. rewrite <- F2. apply R. reflexivity.
Qed.
Print Assumptions numbersdirect_append_partition.

Theorem numbersdirect_append_rotates_iff c1 c2 m1 m2 t0 off ops1 ops2 closed1 cur1 i o b :
  numdcfg c1 (CSize m1) -> numdcfg c2 (CSize m2) -> c_spec c1 = c_spec c2 -> c_append c2 = true ->
  Forall basic_op ops1 -> Forall basic_op ops2 ->
  expected_files m1 None (items false ops1) = closed1 ++ [cur1] -> (N.of_nat (length closed1) <= u32_max)%N ->
  nth_error ops2 i = Some o -> (o = OWrite b \/ o = OPlain b) ->
  nth_error (snd (run (fst (run (sys0 t0 off) (OStart c1 :: ops1 ++ [OStop]))) (OStart c2 :: ops2))) (S i)
  = Some (ObsRes 0 (m2 <? N.of_nat (length (cur_of (s_run m2 (Some ([], cur1)) (from_first_write (firstn i ops2))))))%N).
Proof.
  intros Hcfg1 Hcfg2 Esp Happ Hops1 Hops2 E1 Hb Hi Hw.
  destruct (first_run_idle_d c1 m1 t0 off ops1 Hcfg1 Hops1) as [v1 [Id1 F1]].
  rewrite E1 in F1. apply files_of_some_inv in F1. subst v1.
  rewrite (one_run_flags_d c2 m2 _ (Some (closed1, cur1)) ops2 i o b Hcfg2 Hb Hops2 (idle_d_spec c1 c2 _ _ Esp Id1) Hi Hw).
  unfold start_of. rewrite Happ. cbn [files_of].
  destruct (closed1 ++ [cur1]) eqn:E0; [destruct closed1; discriminate|]. rewrite <- E0, last_last. reflexivity.
Qed.
Print Assumptions numbersdirect_append_rotates_iff.

(* without append the next number is started: the files of run 1 stay, run 2 partitions as from a fresh start *)
Theorem numbersdirect_noappend_partition c1 c2 m1 m2 t0 off ops1 ops2 :
  numdcfg c1 (CSize m1) -> numdcfg c2 (CSize m2) -> c_spec c1 = c_spec c2 -> c_append c2 = false ->
  Forall basic_op ops1 -> Forall basic_op ops2 ->
  (N.of_nat (length (expected_files m1 None (items false ops1))) <= u32_max)%N ->
  direct_view c2 (wfs (s_w (fst (run (sys0 t0 off) (OStart c1 :: ops1 ++ [OStop] ++ OStart c2 :: ops2 ++ [OStop])))))
              (expected_files m1 None (items false ops1) ++ expected_files m2 None (items false ops2)).
Proof.
  intros Hcfg1 Hcfg2 Esp Happ Hops1 Hops2 Hb.
  destruct (first_run_idle_d c1 m1 t0 off ops1 Hcfg1 Hops1) as [v1 [Id1 F1]].
  rewrite two_runs_split, run_app. destruct (run (sys0 t0 off) (OStart c1 :: ops1 ++ [OStop])) as [x1 obs1]. cbn [fst] in Id1.
  assert (Hb1 : (N.of_nat (length (closed_of v1)) <= u32_max)%N).
  { rewrite <- F1 in Hb. destruct v1 as [[cl cu]|]; cbn [closed_of files_of length] in *; [|lia].
    rewrite app_length in Hb. lia. }
  destruct (one_run_size_d c2 m2 x1 v1 ops2 Hcfg2 Hb1 Hops2 (idle_d_spec c1 c2 x1 _ Esp Id1)) as [v2 [Id2 [F2 _]]].
  destruct (run x1 (OStart c2 :: ops2 ++ [OStop])) as [x2 obs2]. cbn [fst] in *.
  destruct (idle_d_reads (c_spec c2) c2 x2 v2 eq_refl Id2) as [R _].
  unfold files_after in F2. rewrite Happ, F1 in F2. rewrite <- F2. apply R. reflexivity.
Qed.
Print Assumptions numbersdirect_noappend_partition.

Theorem numbersdirect_noappend_rotates_iff c1 c2 m1 m2 t0 off ops1 ops2 i o b :
  numdcfg c1 (CSize m1) -> numdcfg c2 (CSize m2) -> c_spec c1 = c_spec c2 -> c_append c2 = false ->
  Forall basic_op ops1 -> Forall basic_op ops2 ->
  (N.of_nat (length (expected_files m1 None (items false ops1))) <= u32_max)%N ->
  nth_error ops2 i = Some o -> (o = OWrite b \/ o = OPlain b) ->
  nth_error (snd (run (fst (run (sys0 t0 off) (OStart c1 :: ops1 ++ [OStop]))) (OStart c2 :: ops2))) (S i)
  = Some (ObsRes 0 (m2 <? N.of_nat (length (cur_of (s_run m2 None (firstn i ops2)))))%N).
Proof.
  intros Hcfg1 Hcfg2 Esp Happ Hops1 Hops2 Hb Hi Hw.
  destruct (first_run_idle_d c1 m1 t0 off ops1 Hcfg1 Hops1) as [v1 [Id1 F1]].
  assert (Hb1 : (N.of_nat (length (closed_of v1)) <= u32_max)%N).
  { rewrite <- F1 in Hb. destruct v1 as [[cl cu]|]; cbn [closed_of files_of length] in *; [|lia].
    rewrite app_length in Hb. lia. }
  rewrite (one_run_flags_d c2 m2 _ v1 ops2 i o b Hcfg2 Hb1 Hops2 (idle_d_spec c1 c2 _ _ Esp Id1) Hi Hw).
  unfold start_of. rewrite Happ. reflexivity.
Qed.
Print Assumptions numbersdirect_noappend_rotates_iff.

(* ================================================================== examples *)
Open Scope string_scope.
Definition apd_c1 : config := exd_cfg (ex_sp "log") false (CSize 3) None.
Definition apd_c2 : config := exd_cfg (ex_sp "log") true (CSize 5) (Some 3%nat).
Definition apd_c2n : config := exd_cfg (ex_sp "log") false (CSize 5) (Some 3%nat).

(* run 1 leaves r00000 = abcd, r00001 = ef, r00002 = ghij; the appending run 2 (limit 5) continues r00002: "kl" goes
   into it, "mn" rotates because the 4 bytes found count *)
Example direct_append_partition_instance :
  direct_view apd_c2 (wfs (s_w (fst (run (sys0 0 0) (OStart apd_c1 :: ap_ops1 ++ [OStop] ++ OStart apd_c2 :: ap_ops2 ++ [OStop])))))
              ([bs "abcd"; bs "ef"] ++ [bs "ghijkl"; bs "mnop"]).
Proof.
  change [bs "ghijkl"; bs "mnop"] with (expected_files 5 (Some (bs "ghij")) (items false ap_ops2)).
  apply (numbersdirect_append_partition apd_c1 apd_c2 3 5 0 0 ap_ops1 ap_ops2 [bs "abcd"; bs "ef"] (bs "ghij")).
  - apply exd_cfg_ok. reflexivity.
  - apply exd_cfg_ok. reflexivity.
  - reflexivity.
  - reflexivity.
  - exact ap_ops1_basic.
  - exact ap_ops2_basic.
  - vm_compute. reflexivity.
  - vm_compute. discriminate.
Qed.

Example direct_append_partition_dir :
  snap_of (fst (run (sys0 0 0) (OStart apd_c1 :: ap_ops1 ++ [OStop] ++ OStart apd_c2 :: ap_ops2 ++ [OStop])))
  = [ (bs "app_r00000.log", 0%N, bs "abcd"); (bs "app_r00001.log", 0%N, bs "ef"); (bs "app_r00002.log", 0%N, bs "ghijkl");
      (bs "app_r00003.log", 0%N, bs "mnop") ]
  /\ List.map rot_of (snd (run (fst (run (sys0 0 0) (OStart apd_c1 :: ap_ops1 ++ [OStop]))) (OStart apd_c2 :: ap_ops2)))
     = [false; false; false; false; true; false].
Proof. vm_compute. split; reflexivity. Qed.

Example direct_noappend_partition_dir :
  snap_of (fst (run (sys0 0 0) (OStart apd_c1 :: ap_ops1 ++ [OStop] ++ OStart apd_c2n :: ap_ops2 ++ [OStop])))
  = [ (bs "app_r00000.log", 0%N, bs "abcd"); (bs "app_r00001.log", 0%N, bs "ef"); (bs "app_r00002.log", 0%N, bs "ghij");
      (bs "app_r00003.log", 0%N, bs "klmnop") ]
  /\ expected_files 3 None (items false ap_ops1) ++ expected_files 5 None (items false ap_ops2)
     = [bs "abcd"; bs "ef"; bs "ghij"; bs "klmnop"].
Proof. vm_compute. split; reflexivity. Qed.

(* a trigger before the first write of the appending run does nothing here either: the content found counts *)
Example direct_append_trigger_before_first_write :
  nth_error (snd (run (fst (run (sys0 0 0) (OStart apd_c1 :: ap_ops1 ++ [OStop])))
                      (OStart (exd_cfg (ex_sp "log") true (CSize 3) (Some 3%nat)) :: ap_ops2t))) 2
  = Some (ObsRes 0 true)
  /\ (3 <? N.of_nat (length (cur_of (s_run 3 (Some ([], bs "ghij")) (firstn 1 ap_ops2t)))))%N = false.
Proof. vm_compute. split; reflexivity. Qed.

(* ================================================================== any start state *)
Theorem numbersdirect_partition_any_start c m x v ops :
  numdcfg c (CSize m) -> (N.of_nat (length (closed_of v)) <= u32_max)%N -> Forall basic_op ops -> IdleD c x v ->
  direct_view c (wfs (s_w (fst (run x (OStart c :: ops ++ [OStop]))))) (files_after (files_of v) (c_append c) m ops).
Proof.
  intros Hcfg Hb Hops Id. destruct (one_run_size_d c m x v ops Hcfg Hb Hops Id) as [v' [Id' [F _]]].
  destruct (idle_d_reads (c_spec c) c _ v' eq_refl Id') as [R _]. rewrite <- F. apply R. reflexivity.
Qed.
Print Assumptions numbersdirect_partition_any_start.

Theorem numbersdirect_rotates_iff_any_start c m x v ops i o b :
  numdcfg c (CSize m) -> (N.of_nat (length (closed_of v)) <= u32_max)%N -> Forall basic_op ops -> IdleD c x v ->
  nth_error ops i = Some o -> (o = OWrite b \/ o = OPlain b) ->
  nth_error (snd (run x (OStart c :: ops))) (S i)
  = Some (ObsRes 0 (m <? N.of_nat (length (cur_before m (start_of (files_of v) (c_append c)) (firstn i ops))))%N).
Proof. exact (one_run_flags_d c m x v ops i o b). Qed.
Print Assumptions numbersdirect_rotates_iff_any_start.

Example direct_any_start_instance :
  exists v, IdleD apd_c2 (fst (run (sys0 0 0) (OStart apd_c1 :: ap_ops1 ++ [OStop]))) v
            /\ files_of v = [bs "abcd"; bs "ef"; bs "ghij"]
            /\ files_after (files_of v) (c_append apd_c2) 5 ap_ops2 = [bs "abcd"; bs "ef"; bs "ghijkl"; bs "mnop"].
Proof.
  destruct (first_run_idle_d apd_c1 3 0 0 ap_ops1 (exd_cfg_ok (ex_sp "log") false (CSize 3) None eq_refl) ap_ops1_basic) as [v [Id F]].
  exists v. split; [apply (idle_d_spec apd_c1 apd_c2); [reflexivity | exact Id]|].
  rewrite F. split; vm_compute; reflexivity.
Qed.
