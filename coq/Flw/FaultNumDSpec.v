(* C19 with rotation, NumbersDirect naming (r00000, r00001, ...; no rCURRENT): the executable SPECIFICATION of what a
   FileLogWriter with NumbersDirect naming, size criterion, direct mode (no buffer), no cleanup, synchronous, makes of
   a list of records when the file-system calls fail as an arbitrary fault oracle says; and what the specification
   implies.  The refinement proof (the model `run` does exactly this) is in FaultNumD.v.

   What the model (and the code) does, read off write_buffer / mount_next / initialize:

   (iii) a failing step of the INITIALISATION (the listing read_dir, the open/create of r00000, the metadata call
         [append]): initialize returns Err, write_buffer returns Err BEFORE anything is written, the record is LOST,
         the handle reports EWrite, the state stays `Initial`: the next record initialises again from the beginning
         (lists again).  With append, an r00000 that was created before the failing metadata call stays (empty) and is
         continued later.
   (i)   a rotation renames nothing: the naming state is advanced FIRST (index + 1), then r<index+1> is opened.  When
         that OPEN/CREATE fails, mount_next returns Err, the naming state STAYS ADVANCED, the writer is still the old one
         on its old file; write_buffer reports ELogFile and WRITES THE RECORD WITH THE OLD WRITER into the (over-full)
         old file.  Nothing is lost, the state is not poisoned, there is always a file.  The size counter still exceeds
         the limit, so the NEXT record tries the rotation again - with the index advanced once more: every failed open
         SKIPS A NUMBER (a gap in the numbering; the skipped number is never used).
   (iv)  the WRITE itself fails: write_buffer returns Err, the size counter is not increased, the record is LOST,
         the handle reports EWrite; the writer state is as before.
   Every oracle entry `true` that is consumed yields exactly one reported error (ELogFile: rotation step, record
   kept; EWrite: record lost).  No log call panics or returns an error. *)
Require Import FL.Base.Bytes FL.Base.BytesFacts FL.Fs.Fs FL.Flw.Model FL.Flw.Run FL.Flw.NumRun FL.Flw.FaultFacts
  FL.Flw.FaultRotSpec.
From Coq Require Import ZifyN ZifyNat ZifyBool.
From Coq Require Import Sorted.
Open Scope nat_scope.

(* ------------------------------------------------------------------ the specification *)
(* the abstract state: directory and writer *)
Inductive dst :=
| DInit (created : bool)      (* writer not initialised; the directory is empty / holds an empty r00000 *)
| DAct (cl : list (nat * bytes)) (k s : nat) (d : bytes).
                              (* closed files cl (number, content); the writer writes into r<k>, which holds d; s opens
                                 have failed since r<k> was opened: the naming state is at k + s *)

(* the files of the directory, by number *)
Definition d_files (st : dst) : list (nat * bytes) :=
  match st with DInit created => if created then [(0, [])] else [] | DAct cl k _ d => cl ++ [(k, d)] end.
Definition d_closed (st : dst) : list (nat * bytes) :=
  match st with DInit _ => [] | DAct cl _ _ _ => cl end.
(* what a reader finds: the files in the order of their numbers *)
Definition dstream (st : dst) : bytes := concat (List.map snd (d_files st)).

(* an initialised writer on r<k> *)
Definition d_active (m : N) (cl : list (nat * bytes)) (k s : nat) (d b : bytes) (fl : list bool) : dst * list ecode * list bool :=
  if (m <? N.of_nat (length d))%N then
    let '(f1, fl1) := pop fl in                               (* open/create r<k+s+1> *)
    if f1 then let '(d', e, fl2) := s_write d b fl1 in (DAct cl k (S s) d', ELogFile :: e, fl2)
    else let '(d', e, fl2) := s_write [] b fl1 in (DAct (cl ++ [(k, d)]) (k + s + 1) 0 d', e, fl2)
  else let '(d', e, fl1) := s_write d b fl in (DAct cl k s d', e, fl1).

(* a writer that is not initialised yet *)
Definition d_init (app : bool) (m : N) (created : bool) (b : bytes) (fl : list bool) : dst * list ecode * list bool :=
  let '(f1, fl1) := pop fl in                                 (* read_dir *)
  if f1 then (DInit created, [EWrite], fl1) else
  let '(f3, fl3) := pop fl1 in                                (* open/create r00000 *)
  if f3 then (DInit created, [EWrite], fl3) else
  let '(f4, fl4) := if app then pop fl3 else (false, fl3) in  (* metadata (with append) *)
  if f4 then (DInit true, [EWrite], fl4) else
  d_active m [] 0 0 [] b fl4.

Definition dstep (app : bool) (m : N) (st : dst) (fl : list bool) (b : bytes) : dst * list ecode * list bool :=
  match st with
  | DInit created => d_init app m created b fl
  | DAct cl k s d => d_active m cl k s d b fl
  end.

Fixpoint simd_st (app : bool) (m : N) (st : dst) (fl : list bool) (recs : list bytes) : dst * list ecode * list bool :=
  match recs with
  | [] => (st, [], fl)
  | b :: rest =>
    let '(st1, e1, fl1) := dstep app m st fl b in
    let '(st2, e2, fl2) := simd_st app m st1 fl1 rest in (st2, e1 ++ e2, fl2)
  end.

(* the specification in the form asked for: the files (number, content), the reported errors (with their codes), the
   rest of the oracle *)
Definition simd (app : bool) (m : N) (fl : list bool) (recs : list bytes) : list (nat * bytes) * list ecode * list bool :=
  let '(st, e, fl') := simd_st app m (DInit false) fl recs in (d_files st, e, fl').

(* ------------------------------------------------------------------ one record *)
Lemma dstream_act cl k s d : dstream (DAct cl k s d) = concat (List.map snd cl) ++ d.
Proof. unfold dstream. cbn [d_files]. rewrite map_app, concat_app. cbn [List.map snd concat]. rewrite app_nil_r. reflexivity. Qed.
Lemma dstream_init created : dstream (DInit created) = [].
Proof. destruct created; reflexivity. Qed.

(* what one step does, in terms of: the oracle entries it uses, the reports, the stream *)
Definition dstep_ok (st : dst) (fl : list bool) (b : bytes) (r : dst * list ecode * list bool) : Prop :=
  let '(st', e, fl') := r in
  exists used, fl = used ++ fl' /\ length e = ntrue used /\ nlost e <= 1
    /\ dstream st' = dstream st ++ (if lost e then [] else b).

Lemma d_active_ok m cl k s d b fl : dstep_ok (DAct cl k s d) fl b (d_active m cl k s d b fl).
Proof.
  unfold d_active, dstep_ok. rewrite dstream_act.
  (* the plain write *)
  assert (W : forall pre fl0 errs0 s', fl = pre ++ fl0 -> ntrue pre = length errs0 -> lost errs0 = false -> nlost errs0 = 0 ->
     let '(d', e, fl1) := s_write d b fl0 in
     exists used, fl = used ++ fl1 /\ length (errs0 ++ e) = ntrue used /\ nlost (errs0 ++ e) <= 1
       /\ dstream (DAct cl k s' d') = (concat (List.map snd cl) ++ d) ++ (if lost (errs0 ++ e) then [] else b)).
  { intros pre fl0 errs0 s' Hfl Hn Hl Hnl. pose proof (s_write_ok d b fl0) as S.
    destruct (s_write d b fl0) as [[d' e] fl1]. destruct S as [used [Hu [He [Hc Hd]]]].
    exists (pre ++ used). split; [rewrite Hfl, Hu, app_assoc; reflexivity|].
    split. { rewrite app_length. unfold ntrue in *. rewrite filter_app, app_length. lia. }
    split. { unfold nlost in *. rewrite filter_app, app_length. destruct Hc as [->| ->]; cbn; lia. }
    rewrite dstream_act. unfold lost in *. rewrite existsb_app, Hl. cbn [orb]. rewrite Hd, app_assoc. reflexivity. }
  (* the write into the new file *)
  assert (Nw : forall pre fl0, fl = pre ++ fl0 -> ntrue pre = 0 ->
     let '(d', e, fl1) := s_write [] b fl0 in
     exists used, fl = used ++ fl1 /\ length e = ntrue used /\ nlost e <= 1
       /\ dstream (DAct (cl ++ [(k, d)]) (k + s + 1) 0 d') = (concat (List.map snd cl) ++ d) ++ (if lost e then [] else b)).
  { intros pre fl0 Hfl Hn. pose proof (s_write_ok [] b fl0) as S.
    destruct (s_write [] b fl0) as [[d' e] fl1]. destruct S as [used [Hu [He [Hc Hd]]]].
    exists (pre ++ used). split; [rewrite Hfl, Hu, app_assoc; reflexivity|].
    split. { unfold ntrue in *. rewrite filter_app, app_length. lia. }
    split; [destruct Hc as [->| ->]; cbn; lia|].
    rewrite dstream_act, map_app, concat_app. cbn [List.map snd concat]. rewrite Hd, app_nil_r. cbn [app]. reflexivity. }
  destruct (m <? N.of_nat (length d))%N.
  - destruct (pop_cases fl) as [[-> ->] | [f1 [r1 [-> ->]]]].
    + cbn [pop hd tl]. pose proof (Nw [] [] eq_refl eq_refl) as S1.
      destruct (s_write [] b []) as [[d' e] fl2]. exact S1.
    + destruct f1.
      * (* the open fails *)
        pose proof (W [true] r1 [ELogFile] (S s) eq_refl eq_refl eq_refl eq_refl) as S1.
        destruct (s_write d b r1) as [[d' e] fl2]. exact S1.
      * pose proof (Nw [false] r1 eq_refl eq_refl) as S1.
        destruct (s_write [] b r1) as [[d' e] fl2]. exact S1.
  - pose proof (W [] fl [] s eq_refl eq_refl eq_refl eq_refl) as S1.
    destruct (s_write d b fl) as [[d' e] fl1]. exact S1.
Qed.

Lemma dstep_ok_prefix st st0 fl pre fl0 b r : fl = pre ++ fl0 -> ntrue pre = 0 -> dstream st0 = dstream st ->
  dstep_ok st0 fl0 b r -> dstep_ok st fl b r.
Proof.
  intros Hfl Hn Hs. destruct r as [[st' e] fl']. unfold dstep_ok. intros [used [Hu [He [Hl Hst]]]].
  exists (pre ++ used). split; [rewrite Hfl, Hu, app_assoc; reflexivity|].
  split. { unfold ntrue in *. rewrite filter_app, app_length. lia. }
  split; [exact Hl|]. rewrite Hst, Hs. reflexivity.
Qed.

Lemma d_init_ok app m created b fl : dstep_ok (DInit created) fl b (d_init app m created b fl).
Proof.
  assert (Fail : forall pre fl' cr, fl = pre ++ true :: fl' -> ntrue pre = 0 -> dstep_ok (DInit created) fl b (DInit cr, [EWrite], fl')).
  { intros pre fl' cr Hfl Hn. exists (pre ++ [true]). split; [rewrite Hfl, <- app_assoc; reflexivity|].
    split. { unfold ntrue in *. rewrite filter_app, app_length. cbn. lia. }
    split; [cbn; lia|]. rewrite !dstream_init. reflexivity. }
  assert (Go : forall pre fl', fl = pre ++ fl' -> ntrue pre = 0 -> dstep_ok (DInit created) fl b (d_active m [] 0 0 [] b fl')).
  { intros pre fl' Hfl Hn. apply (dstep_ok_prefix (DInit created) (DAct [] 0 0 []) fl pre fl' b _ Hfl Hn).
    - rewrite dstream_init. reflexivity.
    - apply d_active_ok. }
  unfold d_init.
  destruct (pop_cases fl) as [[-> ->] | [f1 [r1 [-> ->]]]].
  - destruct app; cbn [pop hd tl]; apply (Go [] []); reflexivity.
  - destruct f1; [apply (Fail [] r1 created); reflexivity|].
    destruct (pop_cases r1) as [[-> ->] | [f3 [r3 [-> ->]]]].
    + destruct app; cbn [pop hd tl]; apply (Go [false] []); reflexivity.
    + destruct f3; [apply (Fail [false] r3 created); reflexivity|].
      destruct app.
      * destruct (pop_cases r3) as [[-> ->] | [f4 [r4 [-> ->]]]].
        -- apply (Go [false; false] []); reflexivity.
        -- destruct f4; [apply (Fail [false; false] r4 true); reflexivity|].
           apply (Go [false; false; false] r4); reflexivity.
      * apply (Go [false; false] r3); reflexivity.
Qed.

Theorem dstep_ok_all app m st fl b : dstep_ok st fl b (dstep app m st fl b).
Proof. destruct st as [created|cl k s d]; cbn [dstep]; [apply d_init_ok | apply d_active_ok]. Qed.

(* ------------------------------------------------------------------ whole lists of records *)
(* per record: the record, the reports of its log call, the oracle entries its log call consumed *)
Fixpoint traced (app : bool) (m : N) (st : dst) (fl : list bool) (recs : list bytes) : list entry :=
  match recs with
  | [] => []
  | b :: rest =>
    let '(st1, e1, fl1) := dstep app m st fl b in
    {| t_rec := b; t_errs := e1; t_used := firstn (length fl - length fl1) fl |} :: traced app m st1 fl1 rest
  end.

Theorem simd_trace app m : forall recs st fl,
  let '(st', e, fl') := simd_st app m st fl recs in
  let t := traced app m st fl recs in
  List.map t_rec t = recs
  /\ fl = concat (List.map t_used t) ++ fl'
  /\ e = concat (List.map t_errs t)
  /\ dstream st' = dstream st ++ concat (List.map t_kept t)
  /\ Forall (fun x => length (t_errs x) = ntrue (t_used x) /\ nlost (t_errs x) <= 1) t.
Proof.
  induction recs as [|b rest IH]; intros st fl; cbn [simd_st traced].
  - cbn. rewrite app_nil_r. repeat split. constructor.
  - pose proof (dstep_ok_all app m st fl b) as S. destruct (dstep app m st fl b) as [[st1 e1] fl1].
    specialize (IH st1 fl1). destruct (simd_st app m st1 fl1 rest) as [[st2 e2] fl2].
    destruct S as [used [Hu [He [Hl Hs]]]]. destruct IH as [H1 [H2 [H3 [H4 H5]]]].
    cbn [List.map concat t_rec t_used t_errs]. subst fl. rewrite firstn_used.
    split; [rewrite H1; reflexivity|].
    split; [rewrite <- app_assoc, <- H2; reflexivity|].
    split; [rewrite H3; reflexivity|].
    split. { rewrite H4, Hs, <- app_assoc. reflexivity. }
    constructor; [cbn [t_errs t_used]; split; assumption | exact H5].
Qed.

Lemma simd_st_app app m : forall recs1 recs2 st fl,
  simd_st app m st fl (recs1 ++ recs2)
  = let '(st1, e1, fl1) := simd_st app m st fl recs1 in
    let '(st2, e2, fl2) := simd_st app m st1 fl1 recs2 in (st2, e1 ++ e2, fl2).
Proof.
  induction recs1 as [|b rest IH]; intros recs2 st fl; cbn [Datatypes.app simd_st].
  - destruct (simd_st app m st fl recs2) as [[st2 e2] fl2]. reflexivity.
  - destruct (dstep app m st fl b) as [[st1 e1] fl1]. rewrite IH.
    destruct (simd_st app m st1 fl1 rest) as [[st2 e2] fl2].
    destruct (simd_st app m st2 fl2 recs2) as [[st3 e3] fl3]. rewrite app_assoc. reflexivity.
Qed.

(* (2) Only records during whose own log call a failing call was consumed can be missing; the stream (the files in the
   order of their numbers) consists of the other records, in order, each once.  With t the list of log calls (record,
   reports, oracle entries consumed): the consumed entries partition the consumed part of the oracle; the reports are
   those of the calls; the stream is the concatenation of the records that were not lost; a record is lost only if its
   call reported EWrite, and a call reports exactly as many errors as it consumed failing entries - so a record whose
   call consumed only `false` entries is in the stream and nothing is reported for it. *)
Theorem numd_lost_only_around_failures app m fl recs :
  let '(st', e, fl') := simd_st app m (DInit false) fl recs in
  let t := traced app m (DInit false) fl recs in
  List.map t_rec t = recs
  /\ fl = concat (List.map t_used t) ++ fl'
  /\ e = concat (List.map t_errs t)
  /\ dstream st' = concat (List.map t_kept t)
  /\ (forall x, In x t -> length (t_errs x) = ntrue (t_used x))
  /\ (forall x, In x t -> (forall f, In f (t_used x) -> f = false) -> t_errs x = [] /\ t_kept x = t_rec x)
  /\ (forall x, In x t -> t_kept x <> t_rec x -> In true (t_used x) /\ In EWrite (t_errs x)).
Proof.
  pose proof (simd_trace app m recs (DInit false) fl) as T.
  destruct (simd_st app m (DInit false) fl recs) as [[st' e] fl']. cbv zeta in T |- *.
  destruct T as [H1 [H2 [H3 [H4 H5]]]]. rewrite Forall_forall in H5.
  split; [exact H1|]. split; [exact H2|]. split; [exact H3|]. split; [exact H4|].
  split; [intros x Hx; apply (H5 x Hx)|].
  split.
  - intros x Hx Hall. destruct (H5 x Hx) as [Hn _]. apply ntrue_0_all_false in Hall. rewrite Hall in Hn.
    destruct (t_errs x) eqn:E; [|discriminate]. unfold t_kept. rewrite E. split; reflexivity.
  - intros x Hx Hk. destruct (H5 x Hx) as [Hn _]. unfold t_kept in Hk.
    destruct (lost (t_errs x)) eqn:El; [|congruence]. split.
    + destruct (in_dec Bool.bool_dec true (t_used x)) as [Hi|Hi]; [exact Hi|]. exfalso.
      assert (Hall : forall f, In f (t_used x) -> f = false) by (intros [|] Hf; [contradiction | reflexivity]).
      apply ntrue_0_all_false in Hall. rewrite Hall in Hn. destruct (t_errs x); [discriminate El | discriminate Hn].
    + unfold lost in El. apply existsb_exists in El. destruct El as [c [Hc Ec]]. destruct c; try discriminate. exact Hc.
Qed.

(* (3) the stream is the concatenation of a subsequence of the records (no duplication, no reordering); each missing
   record is one reported EWrite: #missing = #EWrite <= #reported errors (the other reports are ELogFile: a failed
   open at a rotation, the record of that call was kept) *)
Theorem numd_loss_is_reported app m : forall recs st fl,
  let '(st', e, _) := simd_st app m st fl recs in
  exists kept, Subseq kept recs /\ dstream st' = dstream st ++ concat kept
    /\ length recs = length kept + nlost e /\ nlost e <= length e
    /\ (forall c, In c e -> c = EWrite \/ c = ELogFile).
Proof.
  induction recs as [|b rest IH]; intros st fl; cbn [simd_st].
  - exists []. cbn. rewrite app_nil_r. repeat split; [constructor | lia | intros c []].
  - pose proof (dstep_ok_all app m st fl b) as S.
    assert (Codes : forall c, In c (snd (fst (dstep app m st fl b))) -> c = EWrite \/ c = ELogFile).
    { assert (SW : forall d fl0 c, In c (snd (fst (s_write d b fl0))) -> c = EWrite \/ c = ELogFile).
      { intros d fl0 c. unfold s_write. destruct (wr_pop b fl0) as [f fl1]. destruct f; cbn [fst snd]; [intros [<-|[]]; auto | intros []]. }
      assert (A : forall cl k s d fl0 c, In c (snd (fst (d_active m cl k s d b fl0))) -> c = EWrite \/ c = ELogFile).
      { intros cl k s d fl0 c. unfold d_active. destruct (m <? N.of_nat (length d))%N.
        - destruct (pop fl0) as [f1 fl1]. destruct f1.
          + pose proof (SW d fl1 c) as X. destruct (s_write d b fl1) as [[d' e] fl2]. cbn [fst snd] in *. intros [<-|H]; auto.
          + pose proof (SW [] fl1 c) as X. destruct (s_write [] b fl1) as [[d' e] fl2]. exact X.
        - pose proof (SW d fl0 c) as X. destruct (s_write d b fl0) as [[d' e] fl2]. exact X. }
      intros c. destruct st as [created|cl k s d]; cbn [dstep]; [|apply A].
      unfold d_init. destruct (pop fl) as [f1 fl1]. destruct f1; [cbn; intros [<-|[]]; auto|].
      destruct (pop fl1) as [f3 fl3]. destruct f3; [cbn; intros [<-|[]]; auto|].
      destruct (if app then pop fl3 else (false, fl3)) as [f4 fl4]. destruct f4; [cbn; intros [<-|[]]; auto|]. apply A. }
    destruct (dstep app m st fl b) as [[st1 e1] fl1]. cbn [fst snd] in Codes.
    specialize (IH st1 fl1). destruct (simd_st app m st1 fl1 rest) as [[st2 e2] fl2].
    destruct S as [used [Hu [He [Hl Hs]]]]. destruct IH as [kept [Hsub [Hst [Hlen [Hle Hco]]]]].
    pose proof (nlost_le (e1 ++ e2)) as Hle2. rewrite nlost_app in Hle2.
    assert (Hco2 : forall c, In c (e1 ++ e2) -> c = EWrite \/ c = ELogFile).
    { intros c Hc. apply in_app_or in Hc. destruct Hc as [Hc|Hc]; [apply Codes | apply Hco]; exact Hc. }
    destruct (lost e1) eqn:El.
    + exists kept. split; [constructor; exact Hsub|]. rewrite Hst, Hs, app_nil_r. split; [reflexivity|].
      apply lost_nlost in El. rewrite nlost_app. cbn [length]. split; [lia|]. split; [lia | exact Hco2].
    + exists (b :: kept). split; [constructor; exact Hsub|]. rewrite Hst, Hs, <- app_assoc. split; [reflexivity|].
      assert (nlost e1 = 0). { destruct (nlost e1) eqn:E; [reflexivity|]. assert (lost e1 = true) by (apply lost_nlost; lia). congruence. }
      rewrite nlost_app. cbn [length]. split; [lia|]. split; [lia | exact Hco2].
Qed.

(* ------------------------------------------------------------------ the numbering, for every oracle *)
(* the numbers of the files *)
Definition d_idx (st : dst) : list nat := List.map fst (d_files st).
(* the number of the file that the next successful rotation (or initialisation) creates *)
Definition d_next (st : dst) : nat :=
  match st with DInit created => if created then 1 else 0 | DAct _ k s _ => k + s + 1 end.
(* the numbers are strictly increasing (so the names are pairwise different), all below d_next *)
Definition d_sorted (st : dst) : Prop := StronglySorted lt (d_idx st) /\ Forall (fun i => i < d_next st) (d_idx st).

Lemma sorted_snoc l k : StronglySorted lt l -> Forall (fun i => i < k) l -> StronglySorted lt (l ++ [k]).
Proof.
  induction l as [|x r IH]; intros S F; cbn [app]; [constructor; constructor|].
  inversion S as [|x' r' Sr Fr]; subst. inversion F as [|x' r' Hx Fr']; subst.
  constructor; [apply IH; assumption|]. apply Forall_app. split; [exact Fr | constructor; [exact Hx | constructor]].
Qed.

Lemma d_idx_act cl k s d : d_idx (DAct cl k s d) = List.map fst cl ++ [k].
Proof. unfold d_idx. cbn [d_files]. rewrite map_app. reflexivity. Qed.

Lemma Forall_lt_mono l a b : a <= b -> Forall (fun i => i < a) l -> Forall (fun i => i < b) l.
Proof. intros H F. eapply Forall_impl; [|exact F]. cbn. intros; lia. Qed.

(* what one step does to the files: closed files stay as they are (number and content), the numbers stay sorted, a new
   file gets the number d_next, a failed open advances d_next by one *)
Definition dfiles_ok (st st' : dst) : Prop :=
  (d_sorted st -> d_sorted st')
  /\ (exists ext, d_closed st' = d_closed st ++ ext)
  /\ d_next st <= d_next st'
  /\ ((d_idx st' = d_idx st /\ d_closed st' = d_closed st) \/ (d_idx st' = d_idx st ++ [d_next st] /\ d_next st' = d_next st + 1)).

Lemma d_active_files m cl k s d b fl : dfiles_ok (DAct cl k s d) (fst (fst (d_active m cl k s d b fl))).
Proof.
  assert (Same : forall s' d', s <= s' -> dfiles_ok (DAct cl k s d) (DAct cl k s' d')).
  { intros s' d' Hs. unfold dfiles_ok, d_sorted. rewrite !d_idx_act. cbn [d_next d_closed].
    split. { intros [S1 F1]. split; [exact S1|]. eapply Forall_lt_mono; [|exact F1]. lia. }
    split; [exists []; rewrite app_nil_r; reflexivity|]. split; [lia|]. left. split; reflexivity. }
  unfold d_active. destruct (m <? N.of_nat (length d))%N.
  - destruct (pop fl) as [f1 fl1]. destruct f1.
    + destruct (s_write d b fl1) as [[d' e] fl2]. cbn [fst]. apply Same. lia.
    + destruct (s_write [] b fl1) as [[d' e] fl2]. cbn [fst].
      unfold dfiles_ok, d_sorted. rewrite !d_idx_act. cbn [d_next d_closed]. rewrite map_app. cbn [List.map fst].
      split. { intros [S1 F1]. split.
               - apply sorted_snoc; [exact S1 | exact F1].
               - apply Forall_app. split; [eapply Forall_lt_mono; [|exact F1]; lia | constructor; [lia | constructor]]. }
      split; [eexists; reflexivity|]. split; [lia|]. right. split; [reflexivity | lia].
  - destruct (s_write d b fl) as [[d' e] fl2]. cbn [fst]. apply Same. lia.
Qed.

Lemma dstep_files app m st fl b : dfiles_ok st (fst (fst (dstep app m st fl b))).
Proof.
  destruct st as [created|cl k s d]; cbn [dstep]; [|apply d_active_files].
  assert (Stay : forall cr : bool, (created = true -> cr = true) -> dfiles_ok (DInit created) (DInit cr)).
  { intros cr H. unfold dfiles_ok, d_sorted, d_idx. cbn [d_files d_next d_closed].
    split. { intros _. destruct cr; cbn; repeat constructor. }
    split; [exists []; reflexivity|].
    destruct created; [rewrite (H eq_refl); split; [lia | left; split; reflexivity]|].
    destruct cr; cbn; [split; [lia | right; split; reflexivity] | split; [lia | left; split; reflexivity]]. }
  assert (Go : forall fl0, dfiles_ok (DInit created) (fst (fst (d_active m [] 0 0 [] b fl0)))).
  { intros fl0. unfold d_active. change (N.of_nat (length (@nil N))) with 0%N.
    assert (E : (m <? 0)%N = false) by (apply N.ltb_ge; apply N.le_0_l). rewrite E.
    destruct (s_write [] b fl0) as [[d' e] fl2]. cbn [fst].
    unfold dfiles_ok, d_sorted, d_idx. cbn [d_files d_next d_closed Datatypes.app List.map fst].
    split. { intros _. split; repeat constructor. }
    split; [exists []; reflexivity|].
    destruct created; [split; [lia | left; split; reflexivity] | split; [lia | right; split; reflexivity]]. }
  unfold d_init. destruct (pop fl) as [f1 fl1]. destruct f1; [apply Stay; auto|].
  destruct (pop fl1) as [f3 fl3]. destruct f3; [apply Stay; auto|].
  destruct (if app then pop fl3 else (false, fl3)) as [f4 fl4]. destruct f4; [apply Stay; auto | apply Go].
Qed.

(* for EVERY oracle: the numbers of the files are strictly increasing - no two files have the same number, a file is never
   opened a second time -, and a file that has been closed keeps its number and content for ever *)
Theorem simd_files app m : forall recs st fl,
  let st' := fst (fst (simd_st app m st fl recs)) in
  (d_sorted st -> d_sorted st') /\ (exists ext, d_closed st' = d_closed st ++ ext) /\ d_next st <= d_next st'.
Proof.
  induction recs as [|b rest IH]; intros st fl; cbn [simd_st].
  - cbn [fst]. split; [auto|]. split; [exists []; rewrite app_nil_r; reflexivity | lia].
  - pose proof (dstep_files app m st fl b) as S. destruct (dstep app m st fl b) as [[st1 e1] fl1]. cbn [fst] in S.
    specialize (IH st1 fl1). destruct (simd_st app m st1 fl1 rest) as [[st2 e2] fl2]. cbn [fst] in *.
    destruct S as [S1 [[x1 S2] [S3 _]]]. destruct IH as [I1 [[x2 I2] I3]].
    split; [auto|]. split; [exists (x1 ++ x2); rewrite I2, S2, app_assoc; reflexivity | lia].
Qed.

Lemma d_sorted_init : d_sorted (DInit false).
Proof. split; constructor. Qed.

(* ------------------------------------------------------------------ (4) recovery *)
(* the view of the fault-free development (NumRun.aview): closed contents and the content of the writer's file *)
Definition daview (st : dst) : aview :=
  match st with DInit _ => None | DAct cl _ _ d => Some (List.map snd cl, d) end.
(* while opens have failed a rotation is pending *)
Definition d_pending (m : N) (st : dst) : Prop :=
  match st with DAct _ _ (S _) d => (m <? N.of_nat (length d))%N = true | _ => True end.

Lemma dstep_pending app m st fl b : d_pending m st -> d_pending m (fst (fst (dstep app m st fl b))).
Proof.
  assert (A : forall cl k s d fl, d_pending m (DAct cl k s d) -> d_pending m (fst (fst (d_active m cl k s d b fl)))).
  { intros cl k s d fl0 P. unfold d_active.
    destruct (m <? N.of_nat (length d))%N eqn:Em.
    - destruct (pop fl0) as [f1 fl1]. destruct f1.
      + pose proof (s_write_pending d b fl1) as L. destruct (s_write d b fl1) as [[d' e] fl2]. cbn [fst d_pending]. lia.
      + destruct (s_write [] b fl1) as [[d' e] fl2]. exact I.
    - pose proof (s_write_pending d b fl0) as L. destruct (s_write d b fl0) as [[d' e] fl1]. cbn [fst].
      destruct s; cbn [d_pending] in *; [exact I | congruence]. }
  intros P. destruct st as [created|cl k s d]; cbn [dstep]; [|apply A; exact P].
  unfold d_init. destruct (pop fl) as [f1 fl1]. destruct f1; [exact I|].
  destruct (pop fl1) as [f3 fl3]. destruct f3; [exact I|].
  destruct (if app then pop fl3 else (false, fl3)) as [f4 fl4]. destruct f4; [exact I|].
  apply A. exact I.
Qed.

Lemma simd_st_pending app m : forall recs st fl, d_pending m st -> d_pending m (fst (fst (simd_st app m st fl recs))).
Proof.
  induction recs as [|b rest IH]; intros st fl P; cbn [simd_st]; [exact P|].
  pose proof (dstep_pending app m st fl b P) as P1. destruct (dstep app m st fl b) as [[st1 e1] fl1]. cbn [fst] in P1.
  specialize (IH st1 fl1 P1). destruct (simd_st app m st1 fl1 rest) as [[st2 e2] fl2]. exact IH.
Qed.

(* one record when no more failures come: nothing is reported, the record is appended, a pending rotation is carried
   out, the state is that of the fault-free size rule, a new file gets the number d_next *)
Lemma dstep_recovered app m st fl b : all_false fl -> d_pending m st ->
  let '(st', e, fl') := dstep app m st fl b in
  e = [] /\ all_false fl' /\ (exists cl k d, st' = DAct cl k 0 d)
  /\ daview st' = a_step (daview st) (OWrite b) (m <? N.of_nat (length (cur_of (daview st))))%N
  /\ exists n, d_idx st' = d_idx st ++ seq (d_next st) n /\ d_next st' = d_next st + n.
Proof.
  intros Hf P.
  assert (W : forall d fl0, all_false fl0 -> let '(d', e, fl1) := s_write d b fl0 in d' = d ++ b /\ e = [] /\ all_false fl1).
  { intros d fl0 H0. unfold s_write, wr_pop. destruct b as [|x b']; [rewrite app_nil_r; auto|].
    destruct (pop_all_false fl0 H0) as [E1 E2]. destruct (pop fl0) as [f fl1]. cbn [fst snd] in *. subst f. auto. }
  assert (A : forall cl k s d fl0, all_false fl0 -> d_pending m (DAct cl k s d) ->
     let '(st', e, fl') := d_active m cl k s d b fl0 in
     e = [] /\ all_false fl' /\ (exists cl' k' d', st' = DAct cl' k' 0 d')
     /\ daview st' = a_step (Some (List.map snd cl, d)) (OWrite b) (m <? N.of_nat (length d))%N
     /\ exists n, d_idx st' = d_idx (DAct cl k s d) ++ seq (k + s + 1) n /\ d_next st' = k + s + 1 + n).
  { intros cl k s d fl0 H0 Ho. unfold d_active. cbn [a_step].
    destruct (m <? N.of_nat (length d))%N eqn:Em.
    - destruct (pop_all_false fl0 H0) as [E1 E2]. destruct (pop fl0) as [f1 fl1]. cbn [fst snd] in *. subst f1.
      pose proof (W [] fl1 E2) as S. destruct (s_write [] b fl1) as [[d' e] fl3]. destruct S as [-> [-> S3]].
      split; [reflexivity|]. split; [exact S3|]. split; [eauto|].
      split. { cbn [daview Datatypes.app]. rewrite map_app. reflexivity. }
      exists 1. rewrite !d_idx_act, map_app. cbn [List.map fst seq d_next]. split; [reflexivity | lia].
    - pose proof (W d fl0 H0) as S. destruct (s_write d b fl0) as [[d' e] fl1]. destruct S as [-> [-> S3]].
      destruct s; [|cbn [d_pending] in Ho; congruence].
      split; [reflexivity|]. split; [exact S3|]. split; [eauto|]. split; [reflexivity|].
      exists 0. rewrite !d_idx_act. cbn [seq d_next]. rewrite app_nil_r. split; [reflexivity | lia]. }
  destruct st as [created|cl k s d]; cbn [dstep daview cur_of].
  - unfold d_init.
    destruct (pop_all_false fl Hf) as [E1 E2]. destruct (pop fl) as [f1 fl1]. cbn [fst snd] in *. subst f1.
    destruct (pop_all_false fl1 E2) as [E4 E5]. destruct (pop fl1) as [f3 fl3]. cbn [fst snd] in *. subst f3.
    assert (X4 : fst (if app then pop fl3 else (false, fl3)) = false /\ all_false (snd (if app then pop fl3 else (false, fl3)))).
    { destruct app; [apply pop_all_false; exact E5 | split; [reflexivity | exact E5]]. }
    destruct (if app then pop fl3 else (false, fl3)) as [f4 fl4]. cbn [fst snd] in X4. destruct X4 as [-> E6].
    (* the first record of a fresh writer never rotates *)
    unfold d_active. change (N.of_nat (length (@nil N))) with 0%N.
    assert (E : (m <? 0)%N = false) by (apply N.ltb_ge; apply N.le_0_l). rewrite E.
    pose proof (W [] fl4 E6) as S. destruct (s_write [] b fl4) as [[d' e] fl5]. destruct S as [-> [-> S3]].
    split; [reflexivity|]. split; [exact S3|]. split; [eauto|]. split; [reflexivity|].
    unfold d_idx. cbn [d_files d_next Datatypes.app List.map fst].
    destruct created; [exists 0; split; reflexivity | exists 1; split; reflexivity].
  - pose proof (A cl k s d fl Hf P) as S. destruct (d_active m cl k s d b fl) as [[st' e] fl']. exact S.
Qed.

(* (4) Once no more failures come (the rest of the oracle is empty or all `false`), nothing more is reported, every
   further record is in the stream, and rotation works again: the contents develop exactly by the fault-free size rule
   NumRun.s_run (rotate before a record iff the file holds more than m bytes), starting with the rotation that is still
   pending if opens have failed; the new files are numbered consecutively from d_next on - the number after the
   last one that was tried -, the old files keep their numbers: no file is opened twice *)
Theorem numd_recovery_spec app m : forall recs st fl, all_false fl -> d_pending m st ->
  let '(st', e, fl') := simd_st app m st fl recs in
  e = [] /\ all_false fl' /\ dstream st' = dstream st ++ concat recs
  /\ daview st' = s_run m (daview st) (List.map OWrite recs)
  /\ (exists n, d_idx st' = d_idx st ++ seq (d_next st) n /\ d_next st' = d_next st + n)
  /\ (recs <> [] -> exists cl k d, st' = DAct cl k 0 d).
Proof.
  induction recs as [|b rest IH]; intros st fl Hf P; cbn [simd_st List.map].
  - cbn [s_run concat]. rewrite app_nil_r. repeat split; try assumption; [|intros H; contradiction].
    exists 0. cbn [seq]. rewrite app_nil_r. split; [reflexivity | lia].
  - rewrite s_run_write_cons.
    pose proof (dstep_recovered app m st fl b Hf P) as S. pose proof (dstep_ok_all app m st fl b) as K.
    destruct (dstep app m st fl b) as [[st1 e1] fl1]. destruct S as [-> [Hf1 [[cl1 [k1 [d1 Est]]] [Hv [n1 [Hi1 Hn1]]]]]].
    destruct K as [used [_ [_ [_ Hs]]]]. cbn [lost existsb] in Hs.
    assert (P1 : d_pending m st1) by (rewrite Est; exact I).
    specialize (IH st1 fl1 Hf1 P1). destruct (simd_st app m st1 fl1 rest) as [[st2 e2] fl2] eqn:Er.
    destruct IH as [-> [Hf2 [Hs2 [Hv2 [[n2 [Hi2 Hn2]] Hc2]]]]].
    split; [reflexivity|]. split; [exact Hf2|].
    split; [rewrite Hs2, Hs; cbn [concat]; rewrite <- app_assoc; reflexivity|].
    split; [rewrite Hv2, Hv; reflexivity|].
    split. { exists (n1 + n2). rewrite Hi2, Hi1, Hn1, <- app_assoc, seq_app. split; [reflexivity | lia]. }
    intros _. destruct rest as [|b2 rest2]; [|apply Hc2; discriminate].
    cbn [simd_st] in Er. injection Er as <- _. eauto.
Qed.

Theorem numd_recovery app m fl recs1 recs2 :
  let '(st1, e1, fl1) := simd_st app m (DInit false) fl recs1 in
  all_false fl1 ->
  let '(st2, e2, fl2) := simd_st app m (DInit false) fl (recs1 ++ recs2) in
  e2 = e1 /\ dstream st2 = dstream st1 ++ concat recs2
  /\ daview st2 = s_run m (daview st1) (List.map OWrite recs2)
  /\ (exists n, d_idx st2 = d_idx st1 ++ seq (d_next st1) n)
  /\ StronglySorted lt (d_idx st2)
  /\ (exists ext, d_closed st2 = d_closed st1 ++ ext)
  /\ (recs2 <> [] -> exists cl k d, st2 = DAct cl k 0 d).
Proof.
  rewrite simd_st_app.
  pose proof (simd_st_pending app m recs1 (DInit false) fl I) as P.
  pose proof (simd_files app m recs1 (DInit false) fl) as F1.
  destruct (simd_st app m (DInit false) fl recs1) as [[st1 e1] fl1]. cbn [fst] in P, F1. intros Hf.
  pose proof (numd_recovery_spec app m recs2 st1 fl1 Hf P) as R.
  pose proof (simd_files app m recs2 st1 fl1) as F2.
  destruct (simd_st app m st1 fl1 recs2) as [[st2 e2] fl2]. cbn [fst] in F2.
  destruct R as [-> [_ [Hs [Hv [[n [Hi _]] Hc]]]]].
  rewrite app_nil_r. destruct F1 as [S1 _]. destruct F2 as [S2 [X2 _]].
  split; [reflexivity|]. split; [exact Hs|]. split; [exact Hv|]. split; [eauto|].
  split; [apply S2, S1, d_sorted_init|]. split; [exact X2 | exact Hc].
Qed.

(* without failures: the fault-free size rule from the start, the files are numbered 0, 1, 2, ... *)
Corollary no_faults_numd app m recs :
  let '(st, e, _) := simd_st app m (DInit false) [] recs in
  e = [] /\ dstream st = concat recs /\ daview st = s_run m None (List.map OWrite recs)
  /\ d_idx st = seq 0 (length (d_idx st)).
Proof.
  assert (Hf : all_false []) by (intros f []).
  pose proof (numd_recovery_spec app m recs (DInit false) [] Hf I) as R.
  destruct (simd_st app m (DInit false) [] recs) as [[st e] fl']. destruct R as [-> [_ [Hs [Hv [[n [Hi _]] _]]]]].
  split; [reflexivity|]. split; [exact Hs|]. split; [exact Hv|].
  cbn in Hi. rewrite Hi, seq_length. reflexivity.
Qed.

Print Assumptions numd_lost_only_around_failures.
Print Assumptions numd_loss_is_reported.
Print Assumptions simd_files.
Print Assumptions numd_recovery.
