(* The dead process and the environment: KillFacts.v shows that a dead process (kill point reached) leaves the FILE SYSTEM
   alone in every basic operation.  Here, in addition: it does not touch the zone offset, and the clock moves only by the
   ticks of the history (the clock goes on after the process has died).  Needed for the time-stamp namings, where the new
   writer names its file by the clock: the clock at the restart is not earlier than any time stamp in the directory. *)
Require Import FL.Base.Bytes FL.Base.BytesFacts FL.Base.PathName FL.Fs.Fs FL.Fs.FsFacts FL.Time.Civil FL.Time.TsFormat
  FL.Names.FileSpec FL.Flw.Model FL.Flw.ModelFacts FL.Flw.Run FL.Flw.KillFacts FL.Flw.TsRun.
Open Scope nat_scope.

(* w' is dead, and has the file system, the clock and the zone of w *)
Definition frozen_e (w w' : world) : Prop := dead w' /\ wfs w' = wfs w /\ wnow w' = wnow w /\ woff w' = woff w.

Lemma frozen_e_refl w : dead w -> frozen_e w w.
Proof. intros H. repeat split; apply H. Qed.
Lemma frozen_e_trans a b c : frozen_e a b -> frozen_e b c -> frozen_e a c.
Proof. intros [_ [F1 [N1 O1]]] [D2 [F2 [N2 O2]]]. split; [exact D2|]. repeat split; congruence. Qed.
Lemma frozen_e_frozen w w' : frozen_e w w' -> frozen w w'.
Proof. intros [D [F _]]. split; assumption. Qed.
Lemma frozen_e_set_acts w n : dead w -> frozen_e w (set_acts w n).
Proof. intros H. split; [exact H|]. repeat split. Qed.

Lemma cleanup_or_queue_frozen_e c w bg k flt d : dead w ->
  exists r w', cleanup_or_queue c w bg k flt d = (r, w') /\ frozen_e w w'.
Proof.
  intros H. unfold cleanup_or_queue. destruct (cleanup_impl_dead c w k flt d H) as [r E].
  destruct bg.
  - destruct k as [|a|b|a b]; [eexists _, _; split; [reflexivity | apply frozen_e_refl; assumption]| | |].
    all: destruct (Nat.eqb (wacts w) 1); [eexists _, _; split; [reflexivity | apply frozen_e_refl; assumption]|].
    all: rewrite E; destruct r; eexists _, _; (split; [reflexivity|]);
      first [apply frozen_e_refl; assumption | apply frozen_e_set_acts; assumption].
  - rewrite E. eexists _, _. split; [reflexivity | apply frozen_e_refl; assumption].
Qed.

Lemma initialize_frozen_e c w : dead w -> exists r w', initialize c w = (r, w') /\ frozen_e w w'.
Proof.
  intros H. unfold initialize. destruct (c_rot c) as [[[crit nam] k]|].
  - destruct (init_naming_dead c w nam H) as [r E]. rewrite E.
    destruct r as [[ns infix]| |]; cbn [bind]; [|eexists _, _; split; [reflexivity | apply frozen_e_refl; assumption]..].
    destruct (open_log_file_dead c w (Some infix) H) as [r2 E2]. rewrite E2.
    destruct r2 as [[wr path]| |]; cbn [bind]; [|eexists _, _; split; [reflexivity | apply frozen_e_refl; assumption]..].
    destruct (roll_new_dead w crit (c_append c) path H) as [r3 E3]. rewrite E3.
    destruct r3 as [roll| |]; cbn [bind]; [|eexists _, _; split; [reflexivity | apply frozen_e_refl; assumption]..].
    assert (X : exists r4, match k with KNever => (Ok tt, w) | _ => cleanup_impl c w k (ns_filter ns) (if naming_writes_direct nam then Some path else None) end = (r4, w)).
    { destruct (cleanup_impl_dead c w k (ns_filter ns) (if naming_writes_direct nam then Some path else None) H) as [r4 E4]. destruct k; eauto. }
    destruct X as [r4 E4]. rewrite E4.
    destruct r4; cbn [bind]; [|eexists _, _; split; [reflexivity | apply frozen_e_refl; assumption]..].
    eexists _, _. split; [reflexivity|].
    destruct (match k with KNever => false | _ => c_bg c end); [|apply frozen_e_refl; assumption].
    apply frozen_e_set_acts. exact H.
  - destruct (open_log_file_dead c w None H) as [r E]. rewrite E.
    destruct r; cbn [bind]; eexists _, _; (split; [reflexivity | apply frozen_e_refl; assumption]).
Qed.

Lemma mount_next_frozen_e c w st force : dead w -> exists r w' st', mount_next c w st force = (r, w', st') /\ frozen_e w w'.
Proof.
  intros H. unfold mount_next.
  destruct st as [|[rs|] wr path]; try (eexists _, _, _; split; [reflexivity | apply frozen_e_refl; assumption]).
  destruct (force || rotation_necessary w (rs_roll rs)); [|eexists _, _, _; split; [reflexivity | apply frozen_e_refl; assumption]].
  assert (T : forall (r : res bytes) ns1, exists r' w' st',
    match r with
    | Ok infix =>
      match open_log_file c w (Some infix) with
      | (Ok (wr', path'), w2) =>
        let '(okf, w2a, wra) := w_flush w2 wr in
        let w2b := if okf then w2a else report EFlush w2a in
        let w3 := w_drop w2b wra in
        let roll' := reset_size_and_date w3 (rs_roll rs) path' in
        let '(rc, w4) := cleanup_or_queue c w3 (rs_bg rs) (rs_cleanup rs) (ns_filter ns1) (if ns_writes_direct ns1 then Some path' else None) in
        let st' := Active (Some {| rs_naming := ns1; rs_roll := roll'; rs_cleanup := rs_cleanup rs; rs_bg := rs_bg rs |}) wr' path' in
        (match rc with Ok _ => Ok tt | Err => Err | Panic => Panic end, w4, st')
      | (Err, w2) => (Err, w2, Active (Some {| rs_naming := ns1; rs_roll := rs_roll rs; rs_cleanup := rs_cleanup rs; rs_bg := rs_bg rs |}) wr path)
      | (Panic, w2) => (Panic, w2, Active (Some {| rs_naming := ns1; rs_roll := rs_roll rs; rs_cleanup := rs_cleanup rs; rs_bg := rs_bg rs |}) wr path)
      end
    | Err => (Err, w, Active (Some {| rs_naming := ns1; rs_roll := rs_roll rs; rs_cleanup := rs_cleanup rs; rs_bg := rs_bg rs |}) wr path)
    | Panic => (Panic, w, Active (Some {| rs_naming := ns1; rs_roll := rs_roll rs; rs_cleanup := rs_cleanup rs; rs_bg := rs_bg rs |}) wr path)
    end = (r', w', st') /\ frozen_e w w').
  { intros r ns1.
    destruct r as [infix| |]; try (eexists _, _, _; split; [reflexivity | apply frozen_e_refl; assumption]).
    destruct (open_log_file_dead c w (Some infix) H) as [r2 E2]. rewrite E2.
    destruct r2 as [[wr' path']| |]; try (eexists _, _, _; split; [reflexivity | apply frozen_e_refl; assumption]).
    destruct (w_flush_dead w wr H) as [wra Ef]. rewrite Ef. cbv beta iota zeta. rewrite w_drop_dead by assumption.
    destruct (cleanup_or_queue_frozen_e c w (rs_bg rs) (rs_cleanup rs) (ns_filter ns1) (if ns_writes_direct ns1 then Some path' else None) H) as [rc [w4 [Ec F4]]].
    rewrite Ec. eexists _, _, _. split; [reflexivity | exact F4]. }
  destruct (rs_naming rs) as [ts [cur|] fmt|idx|idx].
  - destruct (creation_ts_dead c w cur true (Some ts) fmt H) as [r E]. rewrite E.
    destruct r as [a| |]; [exact (T (Ok cur) (NSTs a (Some cur) fmt)) | exact (T Err (NSTs ts (Some cur) fmt)) | exact (T Panic (NSTs ts (Some cur) fmt))].
  - destruct (collision_free_dead c w (infix_from_ts c w fmt (wnow w)) H) as [r E]. rewrite E.
    destruct r as [a| |]; [exact (T (Ok a) (NSTs (wnow w) None fmt)) | exact (T Err (NSTs (wnow w) None fmt)) | exact (T Panic (NSTs (wnow w) None fmt))].
  - destruct (index_for_rcurrent_dead c w (Some idx) true H) as [r E]. rewrite E.
    destruct r as [a| |]; [exact (T (Ok cur_infix) (NSNumR a)) | exact (T Err (NSNumR idx)) | exact (T Panic (NSNumR idx))].
  - exact (T (Ok (number_infix (idx + 1))) (NSNumD (idx + 1))).
Qed.

Lemma write_buffer_frozen_e s w b : dead w -> exists r w' s' rot, write_buffer s w b = (r, w', s', rot) /\ frozen_e w w'.
Proof.
  intros H. unfold write_buffer.
  assert (T : forall (r0 : res unit) w0 st0, frozen_e w w0 -> exists r w' s' rot,
    match r0 with
    | Ok _ =>
      let rotating := match st0 with
                      | Active (Some rs) _ _ => rotation_necessary w0 (rs_roll rs)
                      | _ => false end in
      let '(r1, w1, st1) := mount_next (f_cfg s) w0 st0 false in
      match r1 with
      | Panic => (Panic, w1, poison (with_inner s st1), rotating)
      | _ =>
        let w2 := match r1 with Err => report ELogFile w1 | _ => w1 end in
        match st1 with
        | Active o_rot wr path =>
          let '(ok, w3, wr') := w_write w2 wr b in
          if ok then
            let o_rot' := match o_rot with
                          | Some rs => Some {| rs_naming := rs_naming rs; rs_roll := increase_size (rs_roll rs) (N.of_nat (length b));
                                               rs_cleanup := rs_cleanup rs; rs_bg := rs_bg rs |}
                          | None => None end in
            (Ok tt, w3, with_inner s (Active o_rot' wr' path), rotating)
          else (Err, w3, with_inner s (Active o_rot wr' path), rotating)
        | Initial => (Ok tt, w2, with_inner s st1, rotating)
        end
      end
    | Err => (Err, w0, with_inner s st0, false)
    | Panic => (Panic, w0, poison (with_inner s st0), false)
    end = (r, w', s', rot) /\ frozen_e w w').
  { intros r0 w0 st0 F0. pose proof (proj1 F0) as H0.
    destruct r0; try (eexists _, _, _, _; split; [reflexivity | exact F0]).
    destruct (mount_next_frozen_e (f_cfg s) w0 st0 false H0) as [r1 [w1 [st1 [E1 F1]]]]. rewrite E1. cbn zeta.
    pose proof (proj1 F1) as H1. pose proof (frozen_e_trans _ _ _ F0 F1) as F01.
    destruct r1; try (eexists _, _, _, _; split; [reflexivity | exact F01]).
    - destruct st1 as [|o wr p]; [eexists _, _, _, _; split; [reflexivity | exact F01]|].
      destruct (w_write_dead w1 wr b H1) as [wr' Ew]. rewrite Ew. eexists _, _, _, _; split; [reflexivity | exact F01].
    - rewrite report_dead by assumption.
      destruct st1 as [|o wr p]; [eexists _, _, _, _; split; [reflexivity | exact F01]|].
      destruct (w_write_dead w1 wr b H1) as [wr' Ew]. rewrite Ew. eexists _, _, _, _; split; [reflexivity | exact F01]. }
  destruct (f_inner s) as [|o wr p].
  - destruct (initialize_frozen_e (f_cfg s) w H) as [r [w' [E F]]]. rewrite E.
    destruct r as [i| |]; [exact (T (Ok tt) w' i F) | exact (T Err w' Initial F) | exact (T Panic w' Initial F)].
  - exact (T (Ok tt) w (Active o wr p) (frozen_e_refl w H)).
Qed.

(* one basic operation of a dead process: the file system and the zone stay, the clock moves by the tick *)
Definition after_dead (w w' : world) (dt : Z) : Prop :=
  dead w' /\ wfs w' = wfs w /\ wnow w' = (wnow w + dt)%Z /\ woff w' = woff w.

Lemma frozen_e_after w w' : frozen_e w w' -> after_dead w w' 0.
Proof. intros [D [F [N O]]]. split; [exact D|]. split; [exact F|]. split; [rewrite N; apply Zplus_0_r_reverse | exact O]. Qed.

Lemma sync_step_dead_e x o : dead (s_w x) -> kbasic_op o -> after_dead (s_w x) (s_w (fst (sync_step x o))) (dt_of o).
Proof.
  intros H Ho. destruct o; try contradiction; cbn [sync_step dt_of].
  - apply frozen_e_after. destruct (s_flw x) as [s|]; [|apply frozen_e_refl; assumption].
    destruct (f_poisoned s); [apply frozen_e_refl; assumption|].
    destruct (write_buffer_frozen_e s (s_w x) (s_tl x ++ b) H) as [r [w' [s' [rot [E F]]]]]. rewrite E. cbn [fst s_w].
    destruct r; try exact F. rewrite report_dead by apply F. exact F.
  - apply frozen_e_after. destruct (s_flw x) as [s|]; [|apply frozen_e_refl; assumption].
    destruct (f_poisoned s); [apply frozen_e_refl; assumption|].
    destruct (write_buffer_frozen_e s (s_w x) b H) as [r [w' [s' [rot [E F]]]]]. rewrite E. exact F.
  - apply frozen_e_after. destruct (s_flw x) as [s|]; [|apply frozen_e_refl; assumption].
    destruct (f_poisoned s); [apply frozen_e_refl; assumption|].
    destruct (flush_state_dead s (s_w x) H) as [ok [s' E]]. rewrite E. apply frozen_e_refl; assumption.
  - apply frozen_e_after. destruct (s_flw x) as [s|]; [|apply frozen_e_refl; assumption].
    destruct (f_poisoned s); [apply frozen_e_refl; assumption|].
    destruct (mount_next_frozen_e (f_cfg s) (s_w x) (f_inner s) true H) as [r [w' [st' [E F]]]]. rewrite E. exact F.
  - cbn [fst s_w]. split; [exact H|]. repeat split.
  - apply frozen_e_after. apply frozen_e_refl; assumption.
Qed.

Lemma async_consume_dead_e x s m : dead (s_w x) -> frozen_e (s_w x) (s_w (async_consume x s m)).
Proof.
  intros H. unfold async_consume. destruct m.
  - destruct (write_buffer_frozen_e s (s_w x) b H) as [r [w' [s' [rot [E F]]]]]. rewrite E. cbn [s_w].
    destruct r; try exact F. rewrite report_dead by apply F. exact F.
  - destruct (flush_state_dead s (s_w x) H) as [ok [s' E]]. rewrite E. cbn [s_w].
    destruct ok; [|rewrite report_dead by assumption]; apply frozen_e_refl; assumption.
  - destruct (shutdown_state_dead s (s_w x) H) as [s' E]. rewrite E. apply frozen_e_refl; assumption.
Qed.

Lemma async_send_dead_e x s m cd : dead (s_w x) -> frozen_e (s_w x) (s_w (fst (async_send x s m cd))).
Proof.
  intros H. unfold async_send. destruct (s_dead x); [apply frozen_e_refl; assumption|].
  destruct (f_poisoned s); [apply frozen_e_refl; assumption|]. apply async_consume_dead_e. assumption.
Qed.

Theorem dead_step_e x o : dead (s_w x) -> kbasic_op o -> after_dead (s_w x) (s_w (fst (step x o))) (dt_of o).
Proof.
  intros H Ho. unfold step.
  assert (EA : s_w (apply_start x o) = s_w x).
  { unfold apply_start. destruct (s_flw x) as [s|]; [|reflexivity]. destruct (names_computed o && negb (f_poisoned s)); reflexivity. }
  set (y := apply_start x o) in *. rewrite <- EA in *. clearbody y.
  unfold step_core. destruct (s_flw y) as [s|] eqn:Es; [|apply sync_step_dead_e; assumption].
  destruct (is_async s); [|apply sync_step_dead_e; assumption].
  destruct o; try contradiction; cbn [async_step dt_of]; try (apply sync_step_dead_e; assumption);
    apply frozen_e_after; apply async_send_dead_e; assumption.
Qed.

Lemma dead_run_e : forall ops x, dead (s_w x) -> Forall kbasic_op ops -> after_dead (s_w x) (s_w (fst (run x ops))) (elapsed ops).
Proof.
  induction ops as [|o r IH]; intros x H Hb.
  - cbn [run fst elapsed]. apply frozen_e_after. apply frozen_e_refl. exact H.
  - inversion Hb as [|o' r' Ho Hr]; subst. cbn [run elapsed].
    pose proof (dead_step_e x o H Ho) as F1. destruct (step x o) as [x1 ob]. cbn [fst] in F1.
    specialize (IH x1 (proj1 F1) Hr). destruct (run x1 r) as [x2 obs]. cbn [fst] in *.
    destruct F1 as [_ [F1 [N1 O1]]]. destruct IH as [D2 [F2 [N2 O2]]].
    split; [exact D2|]. split; [congruence|]. split; [rewrite N2, N1; symmetry; apply Zplus_assoc | congruence].
Qed.
Print Assumptions dead_run_e.

(* the first write of a writer whose initialisation was killed (KillFacts.wb_initial_dead, with the environment) *)
Lemma wb_initial_dead_e s w b r0 w0 : f_inner s = Initial -> initialize (f_cfg s) w = (r0, w0) -> dead w0 ->
  exists r w' s' rot, write_buffer s w b = (r, w', s', rot) /\ frozen_e w0 w'.
Proof.
  intros Hi E H0. unfold write_buffer. rewrite Hi, E.
  destruct r0 as [i| |]; try (eexists _, _, _, _; split; [reflexivity | apply frozen_e_refl; assumption]).
  cbv beta iota zeta.
  destruct (mount_next_frozen_e (f_cfg s) w0 i false H0) as [r1 [w1 [st1 [E1 F1]]]]. rewrite E1.
  destruct (wb_tail_dead s b r1 w1 st1 (match i with Active (Some rs) _ _ => rotation_necessary w0 (rs_roll rs) | _ => false end) (proj1 F1))
    as [r [s' ET]].
  eexists _, _, _, _. split; [exact ET | exact F1].
Qed.

(* what OCrash makes of the world of the dead process *)
Definition calm (w : world) : world := set_acts (set_kill w None) 0.

Lemma quiet_calm w : wfaults w = [] -> quiet (calm w).
Proof. intros F. split; [exact F | reflexivity]. Qed.
