(* Foreign files in the directory, file-system level.
   `embed fn fi f` is the file system f put on top of a stock of other directory entries fn whose inodes fi
   were allocated before: the entries of f come first in the directory list (new entries are always put in
   front), the inode numbers of f are shifted by the number of the inodes of the stock.
   Every primitive that is applied to names outside the stock commutes with the embedding - as an equation. *)
Require Import FL.Base.Bytes FL.Base.BytesFacts FL.Fs.Fs FL.Fs.FsFacts.
Open Scope nat_scope.

Section Embed.
Variable fn : list (bytes * nat).      (* the directory entries of the stock *)
Variable fi : list file.               (* its inodes *)

Definition fk : nat := length fi.
Definition shift (p : bytes * nat) : bytes * nat := (fst p, fk + snd p).
Definition embed (f : fs) : fs := {| names := List.map shift (names f) ++ fn; inodes := fi ++ inodes f |}.
Definition stock : fs := {| names := fn; inodes := fi |}.
Definition fnames : list bytes := List.map fst fn.

Lemma stock_embed : embed empty_fs = stock.
Proof. unfold embed, stock. cbn. rewrite app_nil_r. reflexivity. Qed.

(* ---- lookup ---- *)
Lemma lookup_embed f n :
  lookup (embed f) n = match lookup f n with Some i => Some (fk + i) | None => lookup stock n end.
Proof.
  unfold lookup. cbn [names embed stock]. induction (names f) as [|[m j] l IH]; cbn [List.map app find fst snd shift].
  - reflexivity.
  - destruct (beq m n); [reflexivity | exact IH].
Qed.

Lemma lookup_stock_none n : ~ In n fnames -> lookup stock n = None.
Proof.
  intros H. unfold lookup. cbn [names stock].
  destruct (find (fun p => beq (fst p) n) fn) as [p|] eqn:E; [|reflexivity].
  apply find_some in E. destruct E as [I B]. apply beq_eq in B. exfalso. apply H. subst n. apply in_map. exact I.
Qed.

Lemma lookup_embed_own f n : ~ In n fnames ->
  lookup (embed f) n = match lookup f n with Some i => Some (fk + i) | None => None end.
Proof. intros H. rewrite lookup_embed, (lookup_stock_none n H). reflexivity. Qed.

Lemma lookup_embed_stock f n : lookup f n = None -> lookup (embed f) n = lookup stock n.
Proof. intros H. rewrite lookup_embed, H. reflexivity. Qed.

(* ---- inodes ---- *)
Lemma inode_embed f i : inode (embed f) (fk + i) = inode f i.
Proof. unfold inode, embed, fk. cbn [inodes]. rewrite app_nth2 by lia. f_equal. lia. Qed.

Lemma inode_embed_stock f j : j < fk -> inode (embed f) j = inode stock j.
Proof. intros H. unfold inode, embed, stock. cbn [inodes]. apply app_nth1. exact H. Qed.

Lemma content_embed f i : content (embed f) (fk + i) = content f i.
Proof. unfold content. rewrite inode_embed. reflexivity. Qed.

Lemma upd_embed (l : list file) i x : upd (fi ++ l) (fk + i) x = fi ++ upd l i x.
Proof. unfold fk. induction fi as [|y r IH]; cbn [length app upd plus]; [reflexivity|]. f_equal. exact IH. Qed.

Lemma file_of_embed_own f n : ~ In n fnames -> file_of (embed f) n = file_of f n.
Proof.
  intros H. unfold file_of. rewrite lookup_embed_own by exact H. destruct (lookup f n) as [i|]; [|reflexivity].
  rewrite inode_embed. reflexivity.
Qed.

Lemma is_reg_file_embed_own f n : ~ In n fnames -> is_reg_file (embed f) n = is_reg_file f n.
Proof. intros H. unfold is_reg_file. rewrite file_of_embed_own by exact H. reflexivity. Qed.

(* a name that f knows is found in f, whatever the stock holds *)
Lemma file_of_embed_known f n i : lookup f n = Some i -> file_of (embed f) n = file_of f n.
Proof. intros H. unfold file_of. rewrite lookup_embed, H, inode_embed. reflexivity. Qed.

(* a name that f does not know is looked up in the stock; its inode is the one of the stock *)
Lemma file_of_embed_stock f n : lookup f n = None -> (forall j, lookup stock n = Some j -> j < fk) ->
  file_of (embed f) n = file_of stock n.
Proof.
  intros H B. unfold file_of. rewrite lookup_embed_stock by exact H. destruct (lookup stock n) as [j|] eqn:E; [|reflexivity].
  rewrite inode_embed_stock by (apply B; reflexivity). reflexivity.
Qed.

(* ---- the primitives ---- *)
Lemma append_ino_embed f i b : append_ino (embed f) (fk + i) b = embed (append_ino f i b).
Proof.
  unfold append_ino. rewrite content_embed, inode_embed. unfold embed. cbn [names inodes].
  rewrite upd_embed. reflexivity.
Qed.

Lemma filter_stock (p : bytes * nat -> bool) : (forall x, In (fst x) fnames -> p x = true) -> filter p fn = fn.
Proof.
  unfold fnames. induction fn as [|x l IH]; intros H; cbn [filter]; [reflexivity|].
  rewrite H by (left; reflexivity). f_equal. apply IH. intros y Hy. apply H. right. exact Hy.
Qed.

Lemma filter_shift (p : bytes * nat -> bool) l : (forall a i j, p (a, i) = p (a, j)) ->
  filter p (List.map shift l) = List.map shift (filter p l).
Proof.
  intros H. induction l as [|[a i] l IH]; cbn [List.map filter]; [reflexivity|].
  unfold shift at 1. cbn [fst snd]. rewrite (H a (fk + i) i). destruct (p (a, i)); cbn [List.map]; rewrite IH; reflexivity.
Qed.

Lemma rename_embed f a b : ~ In a fnames -> ~ In b fnames ->
  rename (embed f) a b = match rename f a b with Some f' => Some (embed f') | None => None end.
Proof.
  intros Ha Hb. unfold rename. rewrite lookup_embed_own by exact Ha. destruct (lookup f a) as [i|]; [|reflexivity].
  f_equal. unfold embed. cbn [names inodes]. f_equal. cbn [List.map app]. f_equal.
  rewrite filter_app, filter_shift by reflexivity. f_equal.
  apply filter_stock. intros x Hx. cbn.
  destruct (beq_spec (fst x) a) as [E|_]; [exfalso; apply Ha; rewrite <- E; exact Hx|].
  destruct (beq_spec (fst x) b) as [E|_]; [exfalso; apply Hb; rewrite <- E; exact Hx|]. reflexivity.
Qed.

Lemma unlink_embed f a : ~ In a fnames -> unlink (embed f) a = embed (unlink f a).
Proof.
  intros Ha. unfold unlink, embed. cbn [names inodes]. f_equal.
  rewrite filter_app, filter_shift by reflexivity. f_equal.
  apply filter_stock. intros x Hx. cbn.
  destruct (beq_spec (fst x) a) as [E|_]; [exfalso; apply Ha; rewrite <- E; exact Hx | reflexivity].
Qed.

Lemma create_file_embed f a gz now :
  create_file (embed f) a gz now = (embed (fst (create_file f a gz now)), fk + snd (create_file f a gz now)).
Proof.
  unfold create_file, embed. cbn [names inodes fst snd List.map app shift]. rewrite app_length, <- app_assoc. reflexivity.
Qed.

Lemma open_trunc_embed f a gz now : ~ In a fnames ->
  open_trunc (embed f) a gz now = (embed (fst (open_trunc f a gz now)), fk + snd (open_trunc f a gz now)).
Proof.
  intros Ha. unfold open_trunc. rewrite lookup_embed_own by exact Ha. destruct (lookup f a) as [i|].
  - cbn [fst snd]. f_equal. rewrite inode_embed. unfold embed. cbn [names inodes]. f_equal. apply upd_embed.
  - apply create_file_embed.
Qed.

Lemma open_append_embed f a now : ~ In a fnames ->
  open_append (embed f) a now = (embed (fst (open_append f a now)), fk + snd (open_append f a now)).
Proof.
  intros Ha. unfold open_append. rewrite lookup_embed_own by exact Ha. destruct (lookup f a) as [i|].
  - reflexivity.
  - apply create_file_embed.
Qed.

Lemma dir_names_embed f : dir_names (embed f) = dir_names f ++ fnames.
Proof.
  unfold dir_names, embed, fnames. cbn [names]. rewrite map_app, map_map. reflexivity.
Qed.

End Embed.
