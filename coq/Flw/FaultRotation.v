(* C19 with rotation: the model does what the specification FaultRotSpec.simr says - for EVERY fault oracle and EVERY
   list of records (Numbers naming, size criterion, direct mode, no cleanup, synchronous, no symlink, no start-time
   part in the name; both with and without append; empty records included). *)
Require Import FL.Base.Bytes FL.Base.BytesFacts FL.Base.PathName FL.Fs.Fs FL.Fs.FsFacts FL.Time.Civil FL.Time.TsFormat
  FL.Names.FileSpec FL.Names.NamesFacts FL.Flw.Model FL.Flw.ModelFacts FL.Flw.NumFs FL.Flw.NumInv FL.Flw.Run FL.Flw.RunFacts
  FL.Flw.NumRun FL.Flw.NumListing FL.Oracles.O_Flw FL.Flw.NumTheorems FL.Flw.NumRestart FL.Flw.KillFacts FL.Flw.NumKill
  FL.Flw.NumKillRestart FL.Flw.FaultFacts FL.Flw.FaultRotSpec.
From Coq Require Import ZifyN ZifyNat ZifyBool.
Open Scope nat_scope.

(* ------------------------------------------------------------------ worlds with a fault oracle *)
(* fw q fl: the quiet world q with the oracle fl *)
Definition fw (q : world) (fl : list bool) : world := set_faults q fl.

Lemma tick_fw q fl : tick (fw q fl) = (fst (pop fl), fw q (snd (pop fl))).
Proof. destruct fl as [|f r]; reflexivity. Qed.

Lemma effect_fw q fl g : quiet q -> effect (fw q fl) g = fw (set_fs q (g (wfs q))) fl.
Proof. intros [_ K]. destruct q. cbn in K. subst. reflexivity. Qed.

Lemma report_fw e q fl : quiet q -> report e (fw q fl) = fw (report e q) fl.
Proof. intros [_ K]. destruct q. cbn in K. subst. reflexivity. Qed.

(* w' differs from w in the error channel only: e has been reported *)
Definition reported (q q' : world) (e : list ecode) : Prop :=
  quiet q' /\ wnow q' = wnow q /\ woff q' = woff q /\ werrs q' = werrs q ++ e /\ wlink q' = wlink q /\ wacts q' = wacts q.

Lemma reported_refl q : quiet q -> reported q q [].
Proof. intros Q. unfold reported. rewrite app_nil_r. repeat split; try apply Q; reflexivity. Qed.
Lemma reported_trans a b c e1 e2 : reported a b e1 -> reported b c e2 -> reported a c (e1 ++ e2).
Proof.
  intros [Q1 [A1 [B1 [C1 [D1 E1]]]]] [Q2 [A2 [B2 [C2 [D2 E2]]]]].
  unfold reported. rewrite C2, C1, app_assoc. repeat split; try apply Q2; congruence.
Qed.
Lemma same_env_reported a b : same_env a b -> reported a b [].
Proof. intros [Q [A [B [C [D E]]]]]. unfold reported. rewrite app_nil_r. repeat split; try apply Q; assumption. Qed.
Lemma reported_nil_same a b : reported a b [] -> same_env a b.
Proof. intros [Q [A [B [C [D E]]]]]. rewrite app_nil_r in C. unfold same_env. repeat split; try apply Q; assumption. Qed.
Lemma report_reported e q : quiet q -> reported q (report e q) [e] /\ wfs (report e q) = wfs q.
Proof. intros [F K]. unfold report. rewrite K. unfold reported, quiet. cbn. repeat split; assumption. Qed.
Lemma set_fs_reported q f : quiet q -> reported q (set_fs q f) [] /\ wfs (set_fs q f) = f.
Proof. intros Q. split; [apply same_env_reported, set_fs_env; exact Q | reflexivity]. Qed.

(* ---- the primitives ---- *)
Lemma p_write_fw q fl i b : quiet q ->
  exists q', p_write (fw q fl) i b = (negb (fst (wr_pop b fl)), fw q' (snd (wr_pop b fl)))
    /\ same_env q q' /\ wfs q' = (if fst (wr_pop b fl) then wfs q else append_ino (wfs q) i b).
Proof.
  intros Q. unfold p_write, wr_pop. destruct b as [|x b].
  - exists q. cbn [fst snd negb]. split; [reflexivity|]. split; [apply same_env_refl; exact Q|].
    rewrite append_ino_nil_id. reflexivity.
  - rewrite tick_fw. destruct (pop fl) as [f fl1]. cbn [fst snd]. destruct f; cbn [negb].
    + exists q. split; [reflexivity|]. split; [apply same_env_refl; exact Q | reflexivity].
    + rewrite effect_fw by exact Q. eexists. split; [reflexivity|]. split; [apply same_env_set_fs; exact Q | reflexivity].
Qed.

Lemma w_write_fw q fl wr b : quiet q -> wcap wr = None ->
  exists q', w_write (fw q fl) wr b = (negb (fst (wr_pop b fl)), fw q' (snd (wr_pop b fl)), wr)
    /\ same_env q q' /\ wfs q' = (if fst (wr_pop b fl) then wfs q else append_ino (wfs q) (wino wr) b).
Proof.
  intros Q Hc. unfold w_write. rewrite Hc. destruct (p_write_fw q fl (wino wr) b Q) as [q' [E [S F]]]. rewrite E.
  exists q'. auto.
Qed.

Lemma p_rename_fw q fl a b : quiet q ->
  p_rename (fw q fl) a b =
  if fst (pop fl) then (RErr, fw q (snd (pop fl)))
  else match rename (wfs q) a b with
       | Some f1 => (ROk, fw (set_fs q f1) (snd (pop fl)))
       | None => (RNotFound, fw q (snd (pop fl)))
       end.
Proof.
  intros Q. unfold p_rename. rewrite tick_fw. destruct (pop fl) as [f fl1]. cbn [fst snd]. destruct f; [reflexivity|].
  cbn [fw set_faults wfs]. destruct (rename (wfs q) a b) as [f1|] eqn:E; [|reflexivity].
  fold (fw q fl1). rewrite effect_fw by exact Q. rewrite E. reflexivity.
Qed.

Lemma p_open_fw q fl name app : quiet q ->
  p_open (fw q fl) name app =
  if fst (pop fl) then (None, fw q (snd (pop fl)))
  else if match file_of (wfs q) name with Some fl => fdir fl | None => false end then (None, fw q (snd (pop fl)))
  else (Some (snd (if app then open_append (wfs q) name (wnow q) else open_trunc (wfs q) name 0%N (wnow q))),
        fw (set_fs q (fst (if app then open_append (wfs q) name (wnow q) else open_trunc (wfs q) name 0%N (wnow q)))) (snd (pop fl))).
Proof.
  intros Q. unfold p_open. rewrite tick_fw. destruct (pop fl) as [f fl1]. cbn [fst snd]. destruct f; [reflexivity|].
  cbn [fw set_faults wfs wnow]. destruct (match file_of (wfs q) name with Some fl0 => fdir fl0 | None => false end); [reflexivity|].
  fold (fw q fl1). rewrite effect_fw by exact Q. reflexivity.
Qed.

Section Rot.
Variables (c : config) (m : N).
Hypothesis Hcfg : numcfg c (CSize m).
Hypothesis Hcap : c_cap c = None.

(* the state of an initialised writer *)
Definition act (idx cur : N) (wr : writer) : inner := Active (Some (mk_rs (NSNumR idx) (RSize m cur))) wr (cname c).
Definition flw_of (i : inner) : flw := {| f_cfg := c; f_inner := i; f_poisoned := false |}.

(* ---- the rotation check of one write, computed: o is what the rename of rCURRENT finds ---- *)
Lemma mount_next_fw q fl idx cur wr o :
  quiet q -> wpend wr = [] -> rename (wfs q) (cname c) (nm c (number_infix idx)) = o ->
  let q1 := match o with Some f1 => set_fs q f1 | None => q end in
  let idx1 := match o with Some _ => (idx + 1)%N | None => idx end in
  lookup (wfs q1) (cname c) = None ->
  mount_next c (fw q fl) (act idx cur wr) false =
    if (m <? cur)%N then
      if fst (pop fl) then (Err, fw q (snd (pop fl)), act idx cur wr)
      else if fst (pop (snd (pop fl))) then (Err, fw q1 (snd (pop (snd (pop fl)))), act idx1 cur wr)
      else (Ok tt, fw (set_fs q1 (fst (create_file (wfs q1) (cname c) 0%N (wnow q)))) (snd (pop (snd (pop fl)))),
            act idx1 0 {| wino := snd (create_file (wfs q1) (cname c) 0%N (wnow q)); wpend := []; wcap := c_cap c |})
    else (Ok tt, fw q fl, act idx cur wr).
Proof.
  intros Q Hp Eo q1 idx1 L1. destruct Hcfg as [Hrot [Hts [Hlink _]]].
  unfold mount_next, act. cbn [mk_rs rs_roll rs_naming rs_cleanup rs_bg orb rotation_necessary]. unfold size_rotation_necessary.
  destruct (m <? cur)%N; [|reflexivity].
  unfold index_for_rcurrent. rewrite !(name_of_fixed c (fw q fl)) by assumption.
  fold (nm c cur_infix) (nm c (number_infix idx)). fold (cname c).
  rewrite p_rename_fw by exact Q. rewrite Eo.
  destruct (pop fl) as [f1 fl1]; cbn [fst snd]. destruct f1; [reflexivity|].
  assert (Q1 : quiet q1) by (unfold q1; destruct o; [apply quiet_set_fs|]; exact Q).
  assert (N1 : wnow q1 = wnow q) by (unfold q1; destruct o; reflexivity).
  assert (X : forall ns, 
    match open_log_file c (fw q1 fl1) (Some cur_infix) with
    | (Ok (wr', path'), w2) =>
      let '(okf, w2a, wra) := w_flush w2 wr in
      let w2b := if okf then w2a else report EFlush w2a in
      let w3 := w_drop w2b wra in
      let roll' := reset_size_and_date w3 (RSize m cur) path' in
      let '(rc, w4) := cleanup_or_queue c w3 false KNever (ns_filter ns) (if ns_writes_direct ns then Some path' else None) in
      let st' := Active (Some {| rs_naming := ns; rs_roll := roll'; rs_cleanup := KNever; rs_bg := false |}) wr' path' in
      (match rc with Ok _ => Ok tt | Err => Err | Panic => Panic end, w4, st')
    | (Err, w2) => (Err, w2, Active (Some {| rs_naming := ns; rs_roll := RSize m cur; rs_cleanup := KNever; rs_bg := false |}) wr (cname c))
    | (Panic, w2) => (Panic, w2, Active (Some {| rs_naming := ns; rs_roll := RSize m cur; rs_cleanup := KNever; rs_bg := false |}) wr (cname c))
    end =
    if fst (pop fl1) then (Err, fw q1 (snd (pop fl1)), Active (Some (mk_rs ns (RSize m cur))) wr (cname c))
    else (Ok tt, fw (set_fs q1 (fst (create_file (wfs q1) (cname c) 0%N (wnow q)))) (snd (pop fl1)),
          Active (Some (mk_rs ns (RSize m 0))) {| wino := snd (create_file (wfs q1) (cname c) 0%N (wnow q)); wpend := []; wcap := c_cap c |} (cname c))).
  { intros ns. unfold open_log_file. rewrite (name_of_fixed c (fw q1 fl1)) by assumption. fold (nm c cur_infix) (cname c).
    unfold do_symlink. rewrite Hlink. rewrite p_open_fw by exact Q1.
    destruct (pop fl1) as [f2 fl2]; cbn [fst snd]. destruct f2; [reflexivity|].
    unfold file_of at 1. rewrite L1.
    assert (Eopen : (if c_append c then open_append (wfs q1) (cname c) (wnow q1) else open_trunc (wfs q1) (cname c) 0%N (wnow q1))
                    = create_file (wfs q1) (cname c) 0%N (wnow q)).
    { rewrite N1. destruct (c_append c); [apply open_append_fresh | apply open_trunc_fresh]; exact L1. }
    rewrite Eopen. rewrite w_flush_nop by exact Hp. cbv beta iota zeta. rewrite w_drop_nop by reflexivity.
    unfold cleanup_or_queue. cbn [cleanup_impl reset_size_and_date]. reflexivity. }
  destruct o as [f1|]; [exact (X (NSNumR (idx + 1)%N)) | exact (X (NSNumR idx))].
Qed.

(* ---- the rest of write_buffer after the rotation check ---- *)
Lemma wb_active q fl idx cur wr r1 q1 fl1 idx1 cur1 wr1 b :
  mount_next c (fw q fl) (act idx cur wr) false = (r1, fw q1 fl1, act idx1 cur1 wr1) ->
  r1 <> Panic -> quiet q1 -> wcap wr1 = None ->
  exists q3,
    write_buffer (flw_of (act idx cur wr)) (fw q fl) b
    = ((if fst (wr_pop b fl1) then Err else Ok tt), fw q3 (snd (wr_pop b fl1)),
       flw_of (act idx1 (if fst (wr_pop b fl1) then cur1 else (cur1 + N.of_nat (length b))%N) wr1), (m <? cur)%N)
    /\ reported q1 q3 (match r1 with Err => [ELogFile] | _ => [] end)
    /\ wfs q3 = (if fst (wr_pop b fl1) then wfs q1 else append_ino (wfs q1) (wino wr1) b).
Proof.
  intros M Hr Q1 Hc. unfold act in *. unfold write_buffer, flw_of. cbn [f_cfg f_inner]. rewrite M.
  cbn [mk_rs rs_roll rotation_necessary]. unfold size_rotation_necessary.
  destruct r1 as [[]| |]; [| |contradiction].
  - destruct (w_write_fw q1 fl1 wr1 b Q1 Hc) as [q3 [E [S F]]]. rewrite E.
    exists q3. split; [|split; [apply same_env_reported; exact S | exact F]].
    destruct (fst (wr_pop b fl1)); cbn [negb with_inner f_cfg f_poisoned mk_rs rs_naming rs_roll rs_cleanup rs_bg increase_size]; reflexivity.
  - rewrite report_fw by exact Q1. destruct (report_reported ELogFile q1 Q1) as [R1 F1].
    destruct (w_write_fw (report ELogFile q1) fl1 wr1 b (proj1 R1) Hc) as [q3 [E [S F]]]. rewrite E.
    exists q3. split; [|split].
    + destruct (fst (wr_pop b fl1)); cbn [negb with_inner f_cfg f_poisoned mk_rs rs_naming rs_roll rs_cleanup rs_bg increase_size]; reflexivity.
    + pose proof (reported_trans _ _ _ _ _ R1 (same_env_reported _ _ S)) as R. cbn [app] in R. exact R.
    + rewrite F, F1. reflexivity.
Qed.

(* ---- the log call around write_buffer ---- *)
Lemma step_write x i b r w1 i1 rot :
  s_flw x = Some (flw_of i) -> s_tl x = [] -> write_buffer (flw_of i) (s_w x) b = (r, w1, flw_of i1, rot) -> r <> Panic ->
  step x (OWrite b) = ({| s_flw := Some (flw_of i1); s_w := match r with Err => report EWrite w1 | _ => w1 end; s_tl := []; s_dead := s_dead x |},
                       ObsRes 0 rot).
Proof.
  intros Es Ht E Hr. destruct Hcfg as [_ [Hts [_ Ha]]].
  rewrite (step_sync_cfg x (OWrite b) (flw_of i) Es Hts Ha). cbn [sync_step]. rewrite Es. cbn [flw_of f_poisoned].
  rewrite Ht. cbn [app]. fold (flw_of i). rewrite E. destruct r; [reflexivity | reflexivity | contradiction].
Qed.

(* ---- the writer and its file: on rCURRENT (old = false), or on the file that was rCURRENT and has been renamed to
        r<length cl> while no new rCURRENT could be created (old = true): q is then the image under that rename of a
        world q0 in which the invariant of the fault-free development holds ---- *)
Definition AInv (old : bool) (q : world) (wr : writer) (cl : list bytes) (d : bytes) : Prop :=
  if old then exists q0, NumInv c q0 wr cl /\ cur_view q0 wr = d /\ rename (wfs q0) (cname c) (rname c (length cl)) = Some (wfs q)
  else NumInv c q wr cl /\ cur_view q wr = d.
Definition idx_of (old : bool) (cl : list bytes) : N := if old then (N.of_nat (length cl) + 1)%N else N.of_nat (length cl).
Definition st_same (old : bool) (cl : list bytes) (d : bytes) : sst := if old then SOld cl d else SCur cl d.

Lemma rename_append f a b' i x f1 : rename f a b' = Some f1 -> rename (append_ino f i x) a b' = Some (append_ino f1 i x).
Proof.
  unfold rename. rewrite lookup_append. destruct (lookup f a) as [j|]; [|discriminate]. intros E. injection E as <-. reflexivity.
Qed.

Lemma ainv_direct old q wr cl d : AInv old q wr cl d -> wpend wr = [] /\ wcap wr = None.
Proof. destruct old; [intros [q0 [I _]] | intros [I _]]; exact (direct_wr c Hcap _ wr cl I). Qed.

Lemma ainv_env old q q' wr cl d : AInv old q wr cl d -> wfs q' = wfs q -> quiet q' -> AInv old q' wr cl d.
Proof.
  destruct old; cbn [AInv].
  - intros [q0 [I [V R]]] F _. exists q0. rewrite F. auto.
  - intros [I V] F Q'. split; [exact (numinv_env c q q' wr cl I F Q')|]. unfold cur_view in *. rewrite F. exact V.
Qed.

Lemma ainv_append old q q' wr cl d b : AInv old q wr cl d -> quiet q' -> wfs q' = append_ino (wfs q) (wino wr) b ->
  AInv old q' wr cl (d ++ b).
Proof.
  intros A Q' F. destruct (ainv_direct old q wr cl d A) as [Hp Hc]. destruct old; cbn [AInv] in *.
  - destruct A as [q0 [I [V R]]]. pose proof (ni_quiet _ _ _ _ I) as Q0.
    destruct (numinv_append c q0 (set_fs q0 (append_ino (wfs q0) (wino wr) b)) wr wr cl b I eq_refl
                (same_env_set_fs q0 _ Q0) eq_refl eq_refl (ni_wr _ _ _ _ I)) as [I2 C2].
    exists (set_fs q0 (append_ino (wfs q0) (wino wr) b)). split; [exact I2|]. split.
    + unfold cur_view in *. rewrite C2, Hp, app_nil_r in *. rewrite V. reflexivity.
    + cbn [set_fs wfs]. rewrite F. apply rename_append. exact R.
  - destruct A as [I V].
    assert (I' : NumInv c (set_fs q' (wfs q)) wr cl) by exact (numinv_env c q (set_fs q' (wfs q)) wr cl I eq_refl (quiet_set_fs q' _ Q')).
    assert (S : same_env (set_fs q' (wfs q)) q') by (unfold same_env; cbn; repeat split; try apply Q'; reflexivity).
    destruct (numinv_append c (set_fs q' (wfs q)) q' wr wr cl b I' F S eq_refl eq_refl (ni_wr _ _ _ _ I)) as [I2 C2].
    split; [exact I2|]. unfold cur_view in *. cbn [set_fs wfs] in C2. rewrite C2, Hp, app_nil_r in *. rewrite V. reflexivity.
Qed.

(* what the rename of rCURRENT finds, and the world after it *)
Lemma ainv_rename old q wr cl d : AInv old q wr cl d ->
  exists o, rename (wfs q) (cname c) (nm c (number_infix (idx_of old cl))) = o /\
    let q1 := match o with Some f1 => set_fs q f1 | None => q end in
    lookup (wfs q1) (cname c) = None /\ AInv true q1 wr cl d
    /\ match o with Some _ => (idx_of old cl + 1)%N | None => idx_of old cl end = idx_of true cl.
Proof.
  destruct old; cbn [AInv idx_of].
  - intros [q0 [I [V R]]]. destruct (rotate_numinv c q0 wr cl 0%Z I) as [f1 [Er [L1 _]]].
    rewrite Er in R. injection R as R.
    exists None. split; [apply rename_none; rewrite <- R; exact L1|]. cbv zeta.
    split; [rewrite <- R; exact L1|]. split; [|reflexivity]. exists q0. rewrite <- R. auto.
  - intros [I V]. destruct (rotate_numinv c q wr cl 0%Z I) as [f1 [Er [L1 _]]].
    exists (Some f1). split; [exact Er|]. cbv zeta. cbn [set_fs wfs]. split; [exact L1|]. split; [|reflexivity].
    exists q. auto.
Qed.

(* the creation of the new rCURRENT completes a rotation *)
Lemma ainv_create q wr cl d q3 now : AInv true q wr cl d -> quiet q3 -> wfs q3 = fst (create_file (wfs q) (cname c) 0%N now) ->
  AInv false q3 {| wino := snd (create_file (wfs q) (cname c) 0%N now); wpend := []; wcap := c_cap c |} (cl ++ [d]) [].
Proof.
  intros [q0 [I [V R]]] Q3 F3. destruct (direct_wr c Hcap _ wr cl I) as [Hp _].
  destruct (rotate_numinv c q0 wr cl now I) as [f1 [Er [L1 RI]]]. rewrite Er in R. injection R as R. rewrite <- R in *.
  assert (F3' : wfs q3 = append_ino (fst (create_file f1 (cname c) 0%N now)) (wino wr) (wpend wr))
    by (rewrite Hp, append_ino_nil_id; exact F3).
  destruct (RI q3 Q3 F3') as [I3 [V3 _]]. rewrite V in I3. split; assumption.
Qed.

(* ------------------------------------------------------------------ the invariant of the run *)
Definition FInv (x : sys) (st : sst) (errs : list ecode) (fl : list bool) : Prop :=
  exists q, s_w x = fw q fl /\ quiet q /\ wacts q = 0 /\ werrs q = errs /\ s_tl x = [] /\
  match st with
  | SInit created =>
    s_flw x = Some (flw_of Initial) /\ fs_wf (wfs q) /\ reader_view_opt c (wfs q) [] (if created then Some [] else None)
    /\ (created = true -> c_append c = true)
  | SCur cl d => exists wr, s_flw x = Some (flw_of (act (idx_of false cl) (N.of_nat (length d)) wr)) /\ AInv false q wr cl d
  | SOld cl d => exists wr, s_flw x = Some (flw_of (act (idx_of true cl) (N.of_nat (length d)) wr)) /\ AInv true q wr cl d
  end.

Lemma finv_same x old cl d errs fl q wr :
  s_w x = fw q fl -> quiet q -> wacts q = 0 -> werrs q = errs -> s_tl x = [] ->
  s_flw x = Some (flw_of (act (idx_of old cl) (N.of_nat (length d)) wr)) -> AInv old q wr cl d ->
  FInv x (st_same old cl d) errs fl.
Proof. intros. exists q. destruct old; cbn [st_same]; repeat (split; [assumption|]); exists wr; split; assumption. Qed.

Lemma reported_acts q q' e : reported q q' e -> wacts q = 0 -> wacts q' = 0.
Proof. intros [_ [_ [_ [_ [_ H]]]]] E. congruence. Qed.
Lemma reported_errs q q' e errs : reported q q' e -> werrs q = errs -> werrs q' = errs ++ e.
Proof. intros [_ [_ [_ [H _]]]] E. congruence. Qed.

(* the rotation check has been made (result r1, world q1, oracle fl1, writer wr1 on a file that holds d1): the write *)
Lemma tail_step x q fl idx cur wr r1 q1 fl1 old1 cl1 d1 wr1 errs1 b :
  s_w x = fw q fl -> s_tl x = [] -> s_flw x = Some (flw_of (act idx cur wr)) ->
  mount_next c (fw q fl) (act idx cur wr) false = (r1, fw q1 fl1, act (idx_of old1 cl1) (N.of_nat (length d1)) wr1) ->
  r1 <> Panic -> quiet q1 -> wacts q1 = 0 -> werrs q1 = errs1 -> AInv old1 q1 wr1 cl1 d1 ->
  let '(d', e, fl2) := s_write d1 b fl1 in
  exists x' rot, step x (OWrite b) = (x', ObsRes 0 rot)
    /\ FInv x' (st_same old1 cl1 d') (errs1 ++ (match r1 with Err => [ELogFile] | _ => [] end) ++ e) fl2.
Proof.
  intros Ew Ht Es M Hr Q1 Ha1 He1 A1.
  destruct (ainv_direct _ _ _ _ _ A1) as [Hp1 Hc1].
  destruct (wb_active q fl idx cur wr r1 q1 fl1 _ _ wr1 b M Hr Q1 Hc1) as [q3 [E [R3 F3]]].
  unfold s_write. destruct (wr_pop b fl1) as [f fl2]. cbn [fst snd] in *.
  rewrite <- Ew in E. pose proof (step_write x _ b _ _ _ _ Es Ht E) as S.
  destruct f.
  - (* the write fails: reported by the handle *)
    eexists _, _. split; [apply S; discriminate|].
    destruct (report_reported EWrite q3 (proj1 R3)) as [R4 F4].
    pose proof (reported_trans _ _ _ _ _ R3 R4) as R.
    apply (finv_same _ old1 cl1 d1 _ fl2 (report EWrite q3) wr1); cbn [s_w s_tl s_flw].
    + apply report_fw. apply R3.
    + apply R.
    + exact (reported_acts _ _ _ R Ha1).
    + rewrite (reported_errs _ _ _ _ R He1). reflexivity.
    + reflexivity.
    + reflexivity.
    + apply (ainv_env old1 q1); [exact A1 | rewrite F4; exact F3 | apply R].
  - eexists _, _. split; [apply S; discriminate|].
    apply (finv_same _ old1 cl1 (d1 ++ b) _ fl2 q3 wr1); cbn [s_w s_tl s_flw].
    + reflexivity.
    + apply R3.
    + exact (reported_acts _ _ _ R3 Ha1).
    + rewrite (reported_errs _ _ _ _ R3 He1), app_nil_r. reflexivity.
    + reflexivity.
    + rewrite app_length, Nat2N.inj_add. reflexivity.
    + apply (ainv_append old1 q1); [exact A1 | apply R3 | exact F3].
Qed.

(* one record on an initialised writer *)
Lemma active_step x old q fl errs cl d wr b :
  s_w x = fw q fl -> quiet q -> wacts q = 0 -> werrs q = errs -> s_tl x = [] ->
  s_flw x = Some (flw_of (act (idx_of old cl) (N.of_nat (length d)) wr)) -> AInv old q wr cl d ->
  let '(st', e, fl') := s_active m old cl d b fl in
  exists x' rot, step x (OWrite b) = (x', ObsRes 0 rot) /\ FInv x' st' (errs ++ e) fl'.
Proof.
  intros Ew Q Ha He Ht Es A.
  destruct (ainv_direct _ _ _ _ _ A) as [Hp Hc].
  destruct (ainv_rename old q wr cl d A) as [o [Eo Ho]]. cbv zeta in Ho. destruct Ho as [L1 [A1 Ei]].
  pose proof (mount_next_fw q fl (idx_of old cl) (N.of_nat (length d)) wr o Q Hp Eo L1) as M. rewrite Ei in M.
  set (q1 := match o with Some f1 => set_fs q f1 | None => q end) in *.
  assert (Q1 : quiet q1) by (unfold q1; destruct o; [apply quiet_set_fs|]; exact Q).
  assert (Ha1 : wacts q1 = 0) by (unfold q1; destruct o; exact Ha).
  assert (He1 : werrs q1 = errs) by (unfold q1; destruct o; exact He).
  unfold s_active. fold (st_same old cl).
  destruct (m <? N.of_nat (length d))%N.
  - destruct (pop fl) as [f1 fl1]. cbn [fst snd] in M. destruct f1.
    + (* the rename fails *)
      pose proof (tail_step x q fl _ _ wr Err q fl1 old cl d wr errs b Ew Ht Es M (fun H => ltac:(discriminate H)) Q Ha He A) as T.
      destruct (s_write d b fl1) as [[d' e] fl2]. exact T.
    + destruct (pop fl1) as [f2 fl2]. cbn [fst snd] in M. destruct f2.
      * (* the new current file cannot be created *)
        pose proof (tail_step x q fl _ _ wr Err q1 fl2 true cl d wr errs b Ew Ht Es M (fun H => ltac:(discriminate H)) Q1 Ha1 He1 A1) as T.
        destruct (s_write d b fl2) as [[d' e] fl3]. exact T.
      * (* the rotation is completed *)
        set (q3 := set_fs q1 (fst (create_file (wfs q1) (cname c) 0%N (wnow q)))) in *.
        set (wr3 := {| wino := snd (create_file (wfs q1) (cname c) 0%N (wnow q)); wpend := []; wcap := c_cap c |}) in *.
        assert (Q3 : quiet q3) by (apply quiet_set_fs; exact Q1).
        assert (A3 : AInv false q3 wr3 (cl ++ [d]) []) by (apply (ainv_create q1 wr cl d q3 (wnow q) A1 Q3); reflexivity).
        assert (Ei3 : idx_of true cl = idx_of false (cl ++ [d])) by (cbn [idx_of]; rewrite app_length; cbn [length]; lia).
        rewrite Ei3 in M. change 0%N with (N.of_nat (length (@nil N))) in M.
        pose proof (tail_step x q fl _ _ wr (Ok tt) q3 fl2 false (cl ++ [d]) [] wr3 errs b Ew Ht Es M (fun H => ltac:(discriminate H)) Q3 Ha1 He1 A3) as T.
        destruct (s_write [] b fl2) as [[d' e] fl3]. exact T.
  - pose proof (tail_step x q fl _ _ wr (Ok tt) q fl old cl d wr errs b Ew Ht Es M (fun H => ltac:(discriminate H)) Q Ha He A) as T.
    destruct (s_write d b fl) as [[d' e] fl1]. exact T.
Qed.

(* ------------------------------------------------------------------ the initialisation *)
Lemma create_view f cl now : fs_wf f -> reader_view_opt c f cl None ->
  fs_wf (fst (create_file f (cname c) 0%N now))
  /\ reader_view_opt c (fst (create_file f (cname c) 0%N now)) cl (Some [])
  /\ lookup (fst (create_file f (cname c) 0%N now)) (cname c) = Some (snd (create_file f (cname c) 0%N now)).
Proof.
  intros W [Hcl [Hnc Hon]].
  pose proof (create_file_spec f (cname c) 0%N now) as CS.
  pose proof (wf_create f (cname c) 0%N now W Hnc) as W2.
  destruct (create_file f (cname c) 0%N now) as [f2 new] eqn:Ecf. cbn [fst snd] in *.
  destruct CS as [Enew [Hino [Lc Lo]]].
  assert (Inew : inode f2 new = fresh_file now).
  { unfold inode. rewrite Hino, Enew, inode_app_new. reflexivity. }
  assert (Iold : forall j, j < length (inodes f) -> inode f2 j = inode f j).
  { intros j Hj. unfold inode. rewrite Hino, inode_app_old by assumption. reflexivity. }
  split; [exact W2|]. split; [|exact Lc].
  split; [|split].
  - intros i Hi. destruct (Hcl i Hi) as [j [Lj [Pj Cj]]]. exists j.
    rewrite Lo by apply rname_not_cname. split; [exact Lj|].
    pose proof (wf_bound _ W _ _ Lj) as Hj. unfold content. rewrite Iold by exact Hj. split; [exact Pj | exact Cj].
  - exists new. split; [exact Lc|]. unfold content. rewrite Inew. split; [split; reflexivity | reflexivity].
  - intros n j Hn. destruct (beq_spec n (cname c)) as [->|Hne]; [left; reflexivity|].
    rewrite Lo in Hn by exact Hne. exact (Hon n j Hn).
Qed.

Lemma numinv_of_view_opt w cl cu j : quiet w -> fs_wf (wfs w) -> reader_view_opt c (wfs w) cl (Some cu) ->
  lookup (wfs w) (cname c) = Some j ->
  AInv false w {| wino := j; wpend := []; wcap := c_cap c |} cl cu.
Proof.
  intros Q W [Hcl [[j' [Lj [Pj Cj]]] Hon]] L. assert (j' = j) by congruence. subst j'. split.
  - constructor; cbn [wino wpend wcap]; try assumption.
    + unfold wr_ok. cbn. destruct (c_cap c); [lia | reflexivity].
    + reflexivity.
  - unfold cur_view. cbn [wino wpend]. rewrite app_nil_r. exact Cj.
Qed.

(* the open/create of rCURRENT by a writer that is being initialised *)
Lemma open_init q fl (created : bool) :
  quiet q -> fs_wf (wfs q) -> reader_view_opt c (wfs q) [] (if created then Some [] else None) ->
  (created = true -> c_append c = true) ->
  exists f2 ino,
    open_log_file c (fw q fl) (Some cur_infix)
    = (if fst (pop fl) then (Err, fw q (snd (pop fl)))
       else (Ok ({| wino := ino; wpend := []; wcap := c_cap c |}, cname c), fw (set_fs q f2) (snd (pop fl))))
    /\ fs_wf f2 /\ reader_view_opt c f2 [] (Some []) /\ lookup f2 (cname c) = Some ino.
Proof.
  intros Q W R Hc. destruct Hcfg as [Hrot [Hts [Hlink _]]].
  set (opn := if c_append c then open_append (wfs q) (cname c) (wnow q) else open_trunc (wfs q) (cname c) 0%N (wnow q)).
  assert (Hop : fs_wf (fst opn) /\ reader_view_opt c (fst opn) [] (Some []) /\ lookup (fst opn) (cname c) = Some (snd opn)
                /\ match file_of (wfs q) (cname c) with Some fl0 => fdir fl0 | None => false end = false).
  { destruct created.
    - pose proof R as [_ [[j [Lj [Pj Cj]]] _]].
      assert (E : opn = (wfs q, j)) by (unfold opn, open_append; rewrite (Hc eq_refl), Lj; reflexivity).
      rewrite E. cbn [fst snd]. split; [exact W|]. split; [exact R|]. split; [exact Lj|].
      unfold file_of. rewrite Lj. apply Pj.
    - pose proof R as [_ [Lc _]].
      assert (E : opn = create_file (wfs q) (cname c) 0%N (wnow q))
        by (unfold opn; destruct (c_append c); [apply open_append_fresh | apply open_trunc_fresh]; exact Lc).
      rewrite E. destruct (create_view (wfs q) [] (wnow q) W R) as [H1 [H2 H3]].
      split; [exact H1|]. split; [exact H2|]. split; [exact H3|]. unfold file_of. rewrite Lc. reflexivity. }
  destruct Hop as [H1 [H2 [H3 H4]]].
  exists (fst opn), (snd opn). split; [|auto].
  unfold open_log_file. rewrite (name_of_fixed c (fw q fl)) by assumption. fold (nm c cur_infix) (cname c).
  unfold do_symlink. rewrite Hlink. rewrite p_open_fw by exact Q. rewrite H4. fold opn.
  destruct (fst (pop fl)); reflexivity.
Qed.

(* the oracle entries of one initialisation: None = it succeeds; Some k = it fails (k: after rCURRENT was created) *)
Definition s_init_pops (app : bool) (fl : list bool) : option bool * list bool :=
  let '(f1, fl1) := pop fl in
  if f1 then (Some false, fl1) else
  let '(f2, fl2) := if app then (false, fl1) else pop fl1 in
  if f2 then (Some false, fl2) else
  let '(f3, fl3) := pop fl2 in
  if f3 then (Some false, fl3) else
  let '(f4, fl4) := if app then pop fl3 else (false, fl3) in
  if f4 then (Some true, fl4) else (None, fl4).

Lemma s_init_alt app created b fl :
  s_init app m created b fl
  = match s_init_pops app fl with
    | (Some k, fl') => (SInit (created || k), [EWrite], fl')
    | (None, fl') => s_active m false [] [] b fl'
    end.
Proof.
  unfold s_init, s_init_pops. destruct (pop fl) as [f1 fl1]. destruct f1; [rewrite Bool.orb_false_r; reflexivity|].
  destruct (if app then (false, fl1) else pop fl1) as [f2 fl2]. destruct f2; [rewrite Bool.orb_false_r; reflexivity|].
  destruct (pop fl2) as [f3 fl3]. destruct f3; [rewrite Bool.orb_false_r; reflexivity|].
  destruct (if app then pop fl3 else (false, fl3)) as [f4 fl4]. destruct f4; [rewrite Bool.orb_true_r; reflexivity | reflexivity].
Qed.

Lemma initialize_fw q fl (created : bool) :
  quiet q -> fs_wf (wfs q) -> reader_view_opt c (wfs q) [] (if created then Some [] else None) ->
  (created = true -> c_append c = true) ->
  match s_init_pops (c_append c) fl with
  | (Some k, fl') =>
    exists q', initialize c (fw q fl) = (Err, fw q' fl') /\ same_env q q' /\ fs_wf (wfs q')
      /\ reader_view_opt c (wfs q') [] (if created || k then Some [] else None) /\ (created || k = true -> c_append c = true)
  | (None, fl') =>
    exists q' wr, initialize c (fw q fl) = (Ok (act 0 0 wr), fw q' fl') /\ same_env q q' /\ AInv false q' wr [] []
  end.
Proof.
  intros Q W R Hc. pose proof Hcfg as [Hrot [Hts [Hlink _]]].
  (* a failure before rCURRENT is created *)
  assert (Fail : forall fl', exists q', (Err : res inner, fw q fl') = (Err, fw q' fl') /\ same_env q q' /\ fs_wf (wfs q')
      /\ reader_view_opt c (wfs q') [] (if created || false then Some [] else None) /\ (created || false = true -> c_append c = true)).
  { intros fl'. exists q. rewrite Bool.orb_false_r. split; [reflexivity|]. split; [apply same_env_refl; exact Q|]. auto. }
  unfold initialize. rewrite Hrot. unfold init_naming, index_for_rcurrent, with_listing. rewrite tick_fw.
  unfold s_init_pops. destruct (pop fl) as [f1 fl1]. cbn [fst snd]. destruct f1; [cbn [bind]; apply Fail|].
  rewrite fixed_of_fixed by assumption. change (woff (fw q fl1)) with (woff q). change (wfs (fw q fl1)) with (wfs q).
  rewrite (highest_index_view_opt c (woff q) (wfs q) [] _ R) by (cbn [length]; apply N.le_0_l). cbn [length].
  (* the rename of an old rCURRENT: there is none *)
  assert (E0 : (if negb (c_append c)
                then let '(r, w1) := p_rename (fw q fl1) (name_of c (fw q fl1) (Some cur_infix)) (name_of c (fw q fl1) (Some (number_infix 0))) in
                     match r with ROk => (Ok (0 + 1)%N, w1) | RNotFound => (Ok 0%N, w1) | RErr => (Err, w1) end
                else (Ok 0%N, fw q fl1))
               = (let '(f2, fl2) := if c_append c then (false, fl1) else pop fl1 in
                  if f2 then (Err, fw q fl2) else (Ok 0%N, fw q fl2))).
  { destruct (c_append c) eqn:Happ; cbn [negb]; [reflexivity|].
    rewrite p_rename_fw by exact Q. destruct (pop fl1) as [f2 fl2]. cbn [fst snd]. destruct f2; [reflexivity|].
    rewrite rename_none; [reflexivity|]. rewrite (name_of_fixed c (fw q fl1)) by assumption. fold (nm c cur_infix) (cname c).
    destruct created; [discriminate (Hc eq_refl)|]. apply R. }
  rewrite E0. clear E0.
  destruct (if c_append c then (false, fl1) else pop fl1) as [f2 fl2]. destruct f2; [cbn [bind]; apply Fail|]. cbn [bind].
  destruct (open_init q fl2 created Q W R Hc) as [f2 [ino [Eop [W2 [R2 L2]]]]]. rewrite Eop.
  destruct (pop fl2) as [f3 fl3]. cbn [fst snd]. destruct f3; [cbn [bind]; apply Fail|]. cbn [bind].
  set (q2 := set_fs q f2). assert (Q2 : quiet q2) by (apply quiet_set_fs; exact Q).
  pose proof R2 as [_ [[j [Lj [Pj Cj]]] _]]. assert (j = ino) by congruence. subst j.
  assert (RN : roll_new (fw q2 fl3) (CSize m) (c_append c) (cname c)
               = (let '(f4, fl4) := if c_append c then pop fl3 else (false, fl3) in
                  if f4 then (Err, fw q2 fl4) else (Ok (RSize m 0), fw q2 fl4))).
  { unfold roll_new. destruct (c_append c); [|reflexivity]. rewrite tick_fw. destruct (pop fl3) as [f4 fl4]. cbn [fst snd].
    destruct f4; [reflexivity|]. change (wfs (fw q2 fl4)) with f2. unfold file_of. rewrite L2.
    unfold content in Cj. rewrite Cj. reflexivity. }
  rewrite RN. clear RN.
  destruct (if c_append c then pop fl3 else (false, fl3)) as [f4 fl4] eqn:E4. destruct f4; cbn [bind].
  - (* the metadata call fails: rCURRENT has been created *)
    exists q2. rewrite Bool.orb_true_r. split; [reflexivity|]. split; [apply same_env_set_fs; exact Q|].
    split; [exact W2|]. split; [exact R2|]. intros _. destruct (c_append c); [reflexivity | discriminate E4].
  - exists q2, {| wino := ino; wpend := []; wcap := c_cap c |}. split; [reflexivity|]. split; [apply same_env_set_fs; exact Q|].
    exact (numinv_of_view_opt q2 [] [] ino Q2 W2 R2 L2).
Qed.

Lemma step_write_eq x x1 i i1 b :
  s_flw x = Some (flw_of i) -> s_flw x1 = Some (flw_of i1) -> s_tl x = [] -> s_tl x1 = [] -> s_dead x1 = s_dead x ->
  write_buffer (flw_of i) (s_w x) b = write_buffer (flw_of i1) (s_w x1) b ->
  step x (OWrite b) = step x1 (OWrite b).
Proof.
  intros Es Es1 Ht Ht1 Hd E. destruct Hcfg as [_ [Hts [_ Ha]]].
  rewrite (step_sync_cfg x (OWrite b) (flw_of i) Es Hts Ha), (step_sync_cfg x1 (OWrite b) (flw_of i1) Es1 Hts Ha).
  cbn [sync_step]. rewrite Es, Es1. cbn [flw_of f_poisoned]. rewrite Ht, Ht1, Hd. cbn [app].
  fold (flw_of i) (flw_of i1). rewrite E. reflexivity.
Qed.

(* one record on a writer that is not initialised *)
Lemma init_step x created errs fl b : FInv x (SInit created) errs fl ->
  let '(st', e, fl') := s_init (c_append c) m created b fl in
  exists x' rot, step x (OWrite b) = (x', ObsRes 0 rot) /\ FInv x' st' (errs ++ e) fl'.
Proof.
  intros [q [Ew [Q [Ha [He [Ht [Es [W [R Hc]]]]]]]]]. rewrite s_init_alt.
  pose proof (initialize_fw q fl created Q W R Hc) as IF.
  destruct (s_init_pops (c_append c) fl) as [[k|] fl'].
  - (* the initialisation fails: the record is lost, the handle reports it, the writer stays uninitialised *)
    destruct IF as [q' [Ei [S [W' [R' Hc']]]]].
    assert (E : write_buffer (flw_of Initial) (s_w x) b = (Err, fw q' fl', flw_of Initial, false)).
    { rewrite Ew. unfold write_buffer. cbn [flw_of f_cfg f_inner]. rewrite Ei. reflexivity. }
    eexists _, _. split; [apply (step_write x Initial b Err _ Initial false Es Ht E); discriminate|].
    destruct (report_reported EWrite q' (proj1 S)) as [R4 F4].
    pose proof (reported_trans _ _ _ _ _ (same_env_reported _ _ S) R4) as RR. cbn [app] in RR.
    exists (report EWrite q'). cbn [s_w s_tl s_flw].
    split; [apply report_fw; apply S|]. split; [apply R4|]. split; [exact (reported_acts _ _ _ RR Ha)|].
    split; [exact (reported_errs _ _ _ _ RR He)|]. split; [reflexivity|]. split; [reflexivity|].
    rewrite F4. auto.
  - destruct IF as [q' [wr [Ei [S A]]]].
    set (x1 := {| s_flw := Some (flw_of (act 0 0 wr)); s_w := fw q' fl'; s_tl := []; s_dead := s_dead x |}).
    assert (E : step x (OWrite b) = step x1 (OWrite b)).
    { apply (step_write_eq x x1 Initial (act 0 0 wr) b Es eq_refl Ht eq_refl eq_refl). rewrite Ew. cbn [x1 s_w].
      exact (write_buffer_init c (fw q fl) b _ wr (cname c) (fw q' fl') Ei). }
    rewrite E.
    apply (active_step x1 false q' fl' errs [] [] wr b eq_refl (proj1 S)).
    + exact (same_env_acts _ _ S Ha).
    + destruct S as [_ [_ [_ [H _]]]]. congruence.
    + reflexivity.
    + reflexivity.
    + exact A.
Qed.

Theorem fstep x st errs fl b : FInv x st errs fl ->
  let '(st', e, fl') := sstep (c_append c) m st fl b in
  exists x' rot, step x (OWrite b) = (x', ObsRes 0 rot) /\ FInv x' st' (errs ++ e) fl'.
Proof.
  intros I. destruct st as [created|cl d|cl d]; cbn [sstep].
  - apply init_step. exact I.
  - destruct I as [q [Ew [Q [Ha [He [Ht [wr [Es A]]]]]]]]. exact (active_step x false q fl errs cl d wr b Ew Q Ha He Ht Es A).
  - destruct I as [q [Ew [Q [Ha [He [Ht [wr [Es A]]]]]]]]. exact (active_step x true q fl errs cl d wr b Ew Q Ha He Ht Es A).
Qed.

Definition obs_normal (o : obs) : Prop := exists rot, o = ObsRes 0 rot.

Theorem frun : forall recs x st errs fl, FInv x st errs fl ->
  let '(st', e, fl') := simr_st (c_append c) m st fl recs in
  exists x' obs, run x (List.map OWrite recs) = (x', obs) /\ FInv x' st' (errs ++ e) fl' /\ Forall obs_normal obs.
Proof.
  induction recs as [|b rest IH]; intros x st errs fl I; cbn [simr_st List.map run].
  - exists x, []. rewrite app_nil_r. split; [reflexivity|]. split; [exact I | constructor].
  - pose proof (fstep x st errs fl b I) as S. destruct (sstep (c_append c) m st fl b) as [[st1 e1] fl1].
    destruct S as [x1 [rot [S1 I1]]]. specialize (IH x1 st1 (errs ++ e1) fl1 I1).
    destruct (simr_st (c_append c) m st1 fl1 rest) as [[st2 e2] fl2]. destruct IH as [x2 [obs [R [I2 O]]]].
    exists x2, (ObsRes 0 rot :: obs). rewrite S1, R. split; [reflexivity|]. split; [rewrite app_assoc; exact I2|].
    constructor; [exists rot; reflexivity | exact O].
Qed.

(* what the invariant says about the world *)
Lemma finv_final x st errs fl : FInv x st errs fl ->
  fs_wf (wfs (s_w x)) /\ reader_view_opt c (wfs (s_w x)) (st_closed st) (st_cur st)
  /\ werrs (s_w x) = errs /\ wfaults (s_w x) = fl /\ wkill (s_w x) = None.
Proof.
  intros [q [Ew [Q [Ha [He [Ht I]]]]]]. rewrite Ew. cbn [fw set_faults wfs werrs wfaults wkill].
  assert (V : fs_wf (wfs q) /\ reader_view_opt c (wfs q) (st_closed st) (st_cur st)).
  { destruct st as [created|cl d|cl d]; cbn [st_closed st_cur].
    - destruct I as [_ [W [R _]]]. auto.
    - destruct I as [wr [_ [I V]]]. destruct (direct_wr c Hcap _ wr cl I) as [Hp _]. rewrite <- V. exact (numinv_view c q wr cl I Hp).
    - destruct I as [wr [_ [q0 [I [V R]]]]]. destruct (direct_wr c Hcap _ wr cl I) as [Hp _].
      destruct (rename_view c q0 wr cl (wfs q) I R) as [W RV]. split; [exact W|].
      unfold cur_view in V. rewrite Hp, app_nil_r in V. rewrite V in RV. exact RV. }
  destruct V as [W V]. split; [exact W|]. split; [exact V|]. split; [exact He|]. split; [reflexivity | apply Q].
Qed.

(* when the oracle is exhausted and the writer is on rCURRENT, the state is related to the view (closed files, current
   content) by the very relation of the fault-free development: all its theorems apply to what follows *)
Theorem finv_rel x cl d errs : FInv x (SCur cl d) errs [] -> Rel c (CSize m) x (Some (cl, d)).
Proof.
  intros [q [Ew [Q [Ha [He [Ht [wr [Es [I V]]]]]]]]].
  split; [exact Ht|]. split; [rewrite Ew; exact Ha|].
  exists wr, (RSize m (N.of_nat (length d))). split; [exact Es|].
  split. { rewrite Ew. apply (numinv_env c q); [exact I | reflexivity | split; [reflexivity | apply Q]]. }
  split; [rewrite Ew; exact V|]. split; [reflexivity|]. intros m' E. injection E as <-. eauto.
Qed.

Lemma finv_start t0 off fl :
  FInv (fst (step {| s_flw := None; s_w := set_faults (world0 t0 off) fl; s_tl := []; s_dead := false |} (OStart c))) (SInit false) [] fl.
Proof.
  exists (world0 t0 off). split; [reflexivity|]. split; [split; reflexivity|]. split; [reflexivity|]. split; [reflexivity|].
  split; [reflexivity|]. split; [reflexivity|].
  destruct (empty_view c (wfs (world0 t0 off)) eq_refl) as [W V]. split; [exact W|]. split; [exact V | discriminate].
Qed.

End Rot.

(* ------------------------------------------------------------------ the theorems *)
Definition fsys (t0 off : Z) (fl : list bool) : sys := {| s_flw := None; s_w := set_faults (world0 t0 off) fl; s_tl := []; s_dead := false |}.

(* (1) For every fault oracle fl and every list of records: after  OStart c :: map OWrite recs  from the empty directory
   with the oracle fl, the directory is exactly what simr says - r00000, r00001, ... hold the closed contents in order,
   rCURRENT holds the current content or does not exist, nothing else is there -, the error channel holds exactly the
   errors simr lists (with their codes, in order), the oracle is consumed as simr says, and every log call (and the
   start) returns normally: no panic, no error result. *)
Theorem faults_rotation c m t0 off fl recs :
  numcfg c (CSize m) -> c_cap c = None ->
  let r := run (fsys t0 off fl) (OStart c :: List.map OWrite recs) in
  let '(closed, ocur, errs, rest) := simr (c_append c) m fl recs in
  fs_wf (wfs (s_w (fst r)))
  /\ reader_view_opt c (wfs (s_w (fst r))) closed ocur
  /\ werrs (s_w (fst r)) = errs
  /\ wfaults (s_w (fst r)) = rest
  /\ (forall o, In o (snd r) -> exists rot, o = ObsRes 0 rot).
Proof.
  intros Hcfg Hcap. cbv zeta. unfold simr.
  pose proof (finv_start c m t0 off fl) as I0. fold (fsys t0 off fl) in I0.
  pose proof (frun c m Hcfg Hcap recs _ _ _ _ I0) as R.
  destruct (simr_st (c_append c) m (SInit false) fl recs) as [[st e] fl'].
  destruct R as [x' [obs [R [I O]]]]. cbn [app] in I.
  assert (Rn : run (fsys t0 off fl) (OStart c :: List.map OWrite recs) = (x', ObsRes 0 false :: obs)).
  { cbn [run]. destruct (step (fsys t0 off fl) (OStart c)) as [x1 ob] eqn:E1.
    assert (ob = ObsRes 0 false) by (unfold fsys in E1; cbv in E1; injection E1 as _ <-; reflexivity).
    cbn [fst] in R. rewrite R. subst ob. reflexivity. }
  rewrite Rn. cbn [fst snd].
  destruct (finv_final c m Hcap x' st e fl' I) as [W [V [He [Hf _]]]].
  split; [exact W|]. split; [exact V|]. split; [exact He|]. split; [exact Hf|].
  intros o [<-|Ho]; [eexists; reflexivity|]. rewrite Forall_forall in O. exact (O o Ho).
Qed.
Print Assumptions faults_rotation.

(* the stream a reader finds in a directory with that view *)
Definition dir_stream (closed : list bytes) (ocur : option bytes) : bytes :=
  concat closed ++ match ocur with Some d => d | None => [] end.

(* (1)-(3) together, in terms of the run only: the directory after the history reads as the concatenation of a
   subsequence `kept` of the records (nothing duplicated, nothing reordered, nothing else in the files); each missing
   record is announced by one EWrite on the error channel, so the number of missing records is at most the number of
   reported errors *)
Theorem faults_rotation_stream c m t0 off fl recs :
  numcfg c (CSize m) -> c_cap c = None ->
  let x := fst (run (fsys t0 off fl) (OStart c :: List.map OWrite recs)) in
  exists closed ocur kept,
    reader_view_opt c (wfs (s_w x)) closed ocur
    /\ dir_stream closed ocur = concat kept /\ Subseq kept recs
    /\ length recs = length kept + nlost (werrs (s_w x))
    /\ nlost (werrs (s_w x)) <= length (werrs (s_w x)).
Proof.
  intros Hcfg Hcap. cbv zeta.
  pose proof (faults_rotation c m t0 off fl recs Hcfg Hcap) as F. cbv zeta in F. unfold simr in F.
  pose proof (loss_is_reported (c_append c) m recs (SInit false) fl) as L.
  destruct (simr_st (c_append c) m (SInit false) fl recs) as [[st e] fl'].
  destruct F as [_ [V [He _]]]. destruct L as [kept [Hs [Hst [Hl Hle]]]].
  exists (st_closed st), (st_cur st), kept. rewrite He. split; [exact V|]. split; [exact Hst|]. auto.
Qed.
Print Assumptions faults_rotation_stream.

(* (2) in terms of the run, record by record: with t = trace .. the list of log calls (record, its reports, the oracle
   entries its call consumed - they partition the consumed part of the oracle, and the reports are those on the error
   channel), the directory reads as the concatenation of the records that were kept; a record whose log call consumed
   only `false` entries is kept and nothing is reported for it; a record that is missing had a failing call in its own
   log call and was reported with EWrite *)
Theorem faults_rotation_trace c m t0 off fl recs :
  numcfg c (CSize m) -> c_cap c = None ->
  let x := fst (run (fsys t0 off fl) (OStart c :: List.map OWrite recs)) in
  let t := trace (c_append c) m (SInit false) fl recs in
  exists closed ocur,
    reader_view_opt c (wfs (s_w x)) closed ocur
    /\ dir_stream closed ocur = concat (List.map t_kept t)
    /\ List.map t_rec t = recs
    /\ werrs (s_w x) = concat (List.map t_errs t)
    /\ fl = concat (List.map t_used t) ++ wfaults (s_w x)
    /\ (forall e, In e t -> length (t_errs e) = ntrue (t_used e))
    /\ (forall e, In e t -> (forall f, In f (t_used e) -> f = false) -> t_errs e = [] /\ t_kept e = t_rec e)
    /\ (forall e, In e t -> t_kept e <> t_rec e -> In true (t_used e) /\ In EWrite (t_errs e)).
Proof.
  intros Hcfg Hcap. cbv zeta.
  pose proof (faults_rotation c m t0 off fl recs Hcfg Hcap) as Fr. cbv zeta in Fr. unfold simr in Fr.
  pose proof (lost_only_around_failures (c_append c) m fl recs) as L.
  destruct (simr_st (c_append c) m (SInit false) fl recs) as [[st e] fl']. cbv zeta in L.
  destruct Fr as [_ [V [He [Hf _]]]]. destruct L as [H1 [H2 [H3 [H4 [H5 [H6 H7]]]]]].
  exists (st_closed st), (st_cur st). rewrite He, Hf.
  split; [exact V|]. split; [exact H4|]. split; [exact H1|]. split; [exact H3|]. split; [exact H2|]. auto.
Qed.
Print Assumptions faults_rotation_trace.

(* (4) at the level of the run.  When the oracle has been used up by the history (rest = []) and the writer is on
   rCURRENT (which is the case after the first record that follows the last failure: recovery_spec), the state is
   related to the view (closed, current) by Rel, the invariant of the fault-free development: whatever basic
   operations follow (writes, flushes, rotate(), clock ticks), they behave exactly as in a run without failures from
   that directory - the view follows the size rule s_run, and every write reports whether it rotated *)
Theorem recovery_rotation_run c m t0 off fl recs ops :
  numcfg c (CSize m) -> c_cap c = None -> Forall basic_op ops ->
  let x := fst (run (fsys t0 off fl) (OStart c :: List.map OWrite recs)) in
  let '(st, _, rest) := simr_st (c_append c) m (SInit false) fl recs in
  rest = [] -> forall cl d, st = SCur cl d ->
    Rel c (CSize m) x (Some (cl, d))
    /\ Rel c (CSize m) (fst (run x ops)) (s_run m (Some (cl, d)) ops)
    /\ (forall i o b, nth_error ops i = Some o -> (o = OWrite b \/ o = OPlain b) ->
          nth_error (snd (run x ops)) i
          = Some (ObsRes 0 (m <? N.of_nat (length (cur_of (s_run m (Some (cl, d)) (firstn i ops)))))%N)).
Proof.
  intros Hcfg Hcap Hb. cbv zeta.
  pose proof (finv_start c m t0 off fl) as I0. fold (fsys t0 off fl) in I0.
  pose proof (frun c m Hcfg Hcap recs _ _ _ _ I0) as R.
  destruct (simr_st (c_append c) m (SInit false) fl recs) as [[st e] fl'].
  destruct R as [x' [obs [R [I O]]]]. intros -> cl d ->.
  assert (Ex : fst (run (fsys t0 off fl) (OStart c :: List.map OWrite recs)) = x').
  { cbn [run]. destruct (step (fsys t0 off fl) (OStart c)) as [x1 ob]. cbn [fst] in R. rewrite R. reflexivity. }
  rewrite Ex. pose proof (finv_rel c m x' cl d _ I) as Rl.
  split; [exact Rl|].
  pose proof (run_rel c (CSize m) Hcfg ops x' _ Rl Hb) as R2.
  destruct (run_size c m Hcfg ops x' _ Rl Hb) as [E2 O2]. rewrite E2 in R2.
  split; [exact R2|]. intros i o b Hi Hw. exact (O2 i o Hi b Hw).
Qed.
Print Assumptions recovery_rotation_run.

(* ------------------------------------------------------------------ the statement, computed on examples *)
Import String.StringSyntax.
Open Scope string_scope.
Definition fx_cfg (app : bool) (m : N) : config :=
  {| c_spec := {| fbase := bs "app"; fdisc := None; fts := false; fsfx := Some (bs "log") |};
     c_append := app; c_cap := None; c_rot := Some (CSize m, NNumbers, KNever); c_utc := false;
     c_symlink := false; c_bg := false; c_async := false; c_start := None |}.
Lemma fx_numcfg app m : numcfg (fx_cfg app m) (CSize m) /\ c_cap (fx_cfg app m) = None.
Proof. repeat split. Qed.

(* the run: the directory (name, kind, content; sorted by name), the error channel, the rest of the oracle, and
   whether every log call returned normally *)
Definition obs_normalb (o : obs) : bool := match o with ObsRes 0%N _ => true | _ => false end.
Definition fx_run (app : bool) (m : N) (fl : list bool) (recs : list bytes)
  : list (bytes * N * bytes) * list ecode * list bool * bool :=
  let r := run (fsys 0 0 fl) (OStart (fx_cfg app m) :: List.map OWrite recs) in
  (snap_of (fst r), werrs (s_w (fst r)), wfaults (s_w (fst r)), forallb obs_normalb (snd r)).
(* the specification, as a directory *)
Fixpoint number {A} (i : nat) (l : list A) : list (nat * A) := match l with [] => [] | x :: r => (i, x) :: number (S i) r end.
Definition fx_sim (app : bool) (m : N) (fl : list bool) (recs : list bytes)
  : list (bytes * N * bytes) * list ecode * list bool * bool :=
  let '(cl, ocur, e, rest) := simr app m fl recs in
  (List.map (fun p => (rname (fx_cfg app m) (fst p), 0%N, snd p)) (number 0 cl)
   ++ match ocur with Some d => [(cname (fx_cfg app m), 0%N, d)] | None => [] end, e, rest, true).

Definition T := true.
Definition F := false.
Definition recs3 : list bytes := [bs "abcd"; bs "ef"; bs "gh"].
Definition recs5 : list bytes := [bs "abcd"; bs "ef"; bs "gh"; bs "ijkl"; bs "mn"].
Definition r0 := bs "app_r00000.log".
Definition r1 := bs "app_r00001.log".
Definition rC := bs "app_rCURRENT.log".

(* size limit 3, no append: the first log call makes four fallible calls (read_dir, rename, open, write) *)
(* no failure *)
Example fx_none : fx_run false 3 [] recs3 = ([(r0, 0%N, bs "abcd"); (rC, 0%N, bs "efgh")], [], [], true)
               /\ fx_sim false 3 [] recs3 = fx_run false 3 [] recs3.
Proof. split; vm_compute; reflexivity. Qed.
(* (i) the rename at the rotation before "ef" fails: reported (ELogFile), "ef" goes into the over-full rCURRENT, the next
   record rotates *)
Example fx_rename_fails : fx_run false 3 [F;F;F;F; T] recs3 = ([(r0, 0%N, bs "abcdef"); (rC, 0%N, bs "gh")], [ELogFile], [], true)
               /\ fx_sim false 3 [F;F;F;F; T] recs3 = fx_run false 3 [F;F;F;F; T] recs3.
Proof. split; vm_compute; reflexivity. Qed.
(* ... as long as the rename fails rCURRENT grows beyond the limit, each time reported, nothing lost *)
Example fx_rename_keeps_failing :
  fx_run false 3 [F;F;F;F; T;F; T;F] recs3 = ([(rC, 0%N, bs "abcdefgh")], [ELogFile; ELogFile], [], true)
  /\ fx_sim false 3 [F;F;F;F; T;F; T;F] recs3 = fx_run false 3 [F;F;F;F; T;F; T;F] recs3.
Proof. split; vm_compute; reflexivity. Qed.
(* (ii) the rename succeeds, the creation of the new rCURRENT fails: reported, "ef" is written into the file that is now
   called r00000; there is no rCURRENT *)
Example fx_create_fails :
  fx_run false 3 [F;F;F;F; F;T] (firstn 2 recs3) = ([(r0, 0%N, bs "abcdef")], [ELogFile], [], true)
  /\ fx_sim false 3 [F;F;F;F; F;T] (firstn 2 recs3) = fx_run false 3 [F;F;F;F; F;T] (firstn 2 recs3).
Proof. split; vm_compute; reflexivity. Qed.
(* ... the next record tries again: rCURRENT is not found (tolerated), a new one is created, the numbering goes on
   with r00001 (the index is not advanced twice) *)
Example fx_create_fails_then_recovers :
  fx_run false 3 [F;F;F;F; F;T] recs5 = ([(r0, 0%N, bs "abcdef"); (r1, 0%N, bs "ghijkl"); (rC, 0%N, bs "mn")], [ELogFile], [], true)
  /\ fx_sim false 3 [F;F;F;F; F;T] recs5 = fx_run false 3 [F;F;F;F; F;T] recs5.
Proof. split; vm_compute; reflexivity. Qed.
(* ... and if the creation fails again, the record again goes into the renamed file *)
Example fx_create_fails_twice :
  fx_run false 3 [F;F;F;F; F;T;F; F;T;F] recs3 = ([(r0, 0%N, bs "abcdefgh")], [ELogFile; ELogFile], [], true)
  /\ fx_sim false 3 [F;F;F;F; F;T;F; F;T;F] recs3 = fx_run false 3 [F;F;F;F; F;T;F; F;T;F] recs3.
Proof. split; vm_compute; reflexivity. Qed.
(* (iii) the listing of the initialisation fails: "abcd" is lost and reported (EWrite); the next record initialises again *)
Example fx_listing_fails : fx_run false 3 [T] recs3 = ([(rC, 0%N, bs "efgh")], [EWrite], [], true)
               /\ fx_sim false 3 [T] recs3 = fx_run false 3 [T] recs3.
Proof. split; vm_compute; reflexivity. Qed.
(* the rename of the initialisation fails (first record), then the open of the second initialisation (second record) *)
Example fx_init_fails_twice : fx_run false 3 [F;T; F;F;T] recs3 = ([(rC, 0%N, bs "gh")], [EWrite; EWrite], [], true)
               /\ fx_sim false 3 [F;T; F;F;T] recs3 = fx_run false 3 [F;T; F;F;T] recs3.
Proof. split; vm_compute; reflexivity. Qed.
(* with append the calls are read_dir, open, metadata: when metadata fails the created (empty) rCURRENT stays *)
Example fx_metadata_fails : fx_run true 3 [F;F;T] [bs "abcd"] = ([(rC, 0%N, [])], [EWrite], [], true)
               /\ fx_sim true 3 [F;F;T] [bs "abcd"] = fx_run true 3 [F;F;T] [bs "abcd"]
               /\ fx_run true 3 [F;F;T] recs3 = ([(rC, 0%N, bs "efgh")], [EWrite], [], true)
               /\ fx_sim true 3 [F;F;T] recs3 = fx_run true 3 [F;F;T] recs3.
Proof. repeat split; vm_compute; reflexivity. Qed.
(* (iv) the write fails: the record is lost and reported (EWrite) *)
Example fx_write_fails : fx_run false 3 [F;F;F;T] recs3 = ([(rC, 0%N, bs "efgh")], [EWrite], [], true)
               /\ fx_sim false 3 [F;F;F;T] recs3 = fx_run false 3 [F;F;F;T] recs3.
Proof. split; vm_compute; reflexivity. Qed.
(* one log call, two reports: the rotation fails (ELogFile) and then the write fails (EWrite): one record lost *)
Example fx_two_reports : fx_run false 3 [F;F;F;F; T;T] recs3 = ([(r0, 0%N, bs "abcd"); (rC, 0%N, bs "gh")], [ELogFile; EWrite], [], true)
               /\ fx_sim false 3 [F;F;F;F; T;T] recs3 = fx_run false 3 [F;F;F;F; T;T] recs3.
Proof. split; vm_compute; reflexivity. Qed.

(* run and specification agree on ALL fault oracles up to length 9 (1023 oracles), for three settings; empty records
   included (they need no write call) *)
Fixpoint leqb {A} (e : A -> A -> bool) (a b : list A) : bool :=
  match a, b with [], [] => true | x :: r, y :: s => e x y && leqb e r s | _, _ => false end.
Definition ec_eqb (a b : ecode) : bool :=
  match a, b with
  | EWrite, EWrite | EFlush, EFlush | EFormat, EFormat | ELogFile, ELogFile | ESymlink, ESymlink | EPoison, EPoison
  | EWriterSpec, EWriterSpec => true
  | _, _ => false end.
Definition ent_eqb (a b : bytes * N * bytes) : bool :=
  beq (fst (fst a)) (fst (fst b)) && N.eqb (snd (fst a)) (snd (fst b)) && beq (snd a) (snd b).
Definition agree (app : bool) (m : N) (recs : list bytes) (fl : list bool) : bool :=
  let '(d1, e1, f1, ok1) := fx_run app m fl recs in
  let '(d2, e2, f2, ok2) := fx_sim app m fl recs in
  leqb ent_eqb d1 d2 && leqb ec_eqb e1 e2 && leqb Bool.eqb f1 f2 && Bool.eqb ok1 ok2.
Fixpoint all_lists (n : nat) : list (list bool) :=
  match n with O => [[]] | S k => let r := all_lists k in [] :: List.map (cons true) r ++ List.map (cons false) r end.
Example fx_agree_all :
  forallb (agree false 3 recs5) (all_lists 9) = true
  /\ forallb (agree true 3 recs5) (all_lists 9) = true
  /\ forallb (agree false 1 [bs "abcd"; bs ""; bs "efgh"; bs ""; bs "i"]) (all_lists 9) = true.
Proof. repeat split; vm_compute; reflexivity. Qed.
