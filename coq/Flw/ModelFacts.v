(* The primitives of the world in the absence of faults and kills. *)
Require Import FL.Base.Bytes FL.Base.BytesFacts FL.Fs.Fs FL.Fs.FsFacts FL.Names.FileSpec FL.Flw.Model.
Open Scope nat_scope.

Definition quiet (w : world) : Prop := wfaults w = [] /\ wkill w = None.

(* w' differs from w at most in the file system *)
Definition same_env (w w' : world) : Prop :=
  quiet w' /\ wnow w' = wnow w /\ woff w' = woff w /\ werrs w' = werrs w /\ wlink w' = wlink w /\ wacts w' = wacts w.

Lemma same_env_refl w : quiet w -> same_env w w.
Proof. intros Q. repeat split; apply Q. Qed.
Lemma same_env_trans a b c : same_env a b -> same_env b c -> same_env a c.
Proof. unfold same_env. intros [Q1 [A1 [B1 [C1 [D1 E1]]]]] [Q2 [A2 [B2 [C2 [D2 E2]]]]]. repeat split; try apply Q2; congruence. Qed.

Lemma tick_quiet w : quiet w -> tick w = (false, w).
Proof. intros [F _]. unfold tick. rewrite F. reflexivity. Qed.

Lemma effect_quiet w g : quiet w -> wfs (effect w g) = g (wfs w) /\ same_env w (effect w g).
Proof. intros [F K]. unfold effect, kill_step. rewrite K. cbn. repeat split; auto. Qed.

Lemma set_fs_env w f : quiet w -> wfs (set_fs w f) = f /\ same_env w (set_fs w f).
Proof. intros [F K]. cbn. repeat split; auto. Qed.

Lemma p_write_quiet w i b : quiet w ->
  exists w', p_write w i b = (true, w') /\ wfs w' = append_ino (wfs w) i b /\ same_env w w'.
Proof.
  intros Q. unfold p_write. destruct b as [|x b].
  - exists w. split; [reflexivity|]. split; [rewrite append_ino_nil_id; reflexivity | apply same_env_refl; assumption].
  - rewrite tick_quiet by assumption. eexists. split; [reflexivity|]. apply effect_quiet. assumption.
Qed.

Lemma p_rename_quiet w a b : quiet w ->
  match rename (wfs w) a b with
  | Some f' => exists w', p_rename w a b = (ROk, w') /\ wfs w' = f' /\ same_env w w'
  | None => p_rename w a b = (RNotFound, w)
  end.
Proof.
  intros Q. unfold p_rename. rewrite tick_quiet by assumption. destruct (rename (wfs w) a b) as [f'|] eqn:E; [|reflexivity].
  eexists. split; [reflexivity|]. destruct (effect_quiet w (fun f => match rename f a b with Some f' => f' | None => f end) Q) as [H1 H2].
  split; [rewrite H1, E; reflexivity | exact H2].
Qed.

Lemma p_open_quiet w name append : quiet w ->
  match file_of (wfs w) name with Some fl => fdir fl = false | None => True end ->
  exists w', p_open w name append
             = (Some (snd (if append then open_append (wfs w) name (wnow w) else open_trunc (wfs w) name 0%N (wnow w))), w')
    /\ wfs w' = fst (if append then open_append (wfs w) name (wnow w) else open_trunc (wfs w) name 0%N (wnow w))
    /\ same_env w w'.
Proof.
  intros Q D. unfold p_open. rewrite tick_quiet by assumption.
  destruct (file_of (wfs w) name) as [fl|] eqn:E; [rewrite D|]; (eexists; split; [reflexivity|]; apply effect_quiet; assumption).
Qed.

Lemma w_flush_quiet w wr : quiet w ->
  exists w', w_flush w wr = (true, w', {| wino := wino wr; wpend := []; wcap := wcap wr |})
    /\ wfs w' = append_ino (wfs w) (wino wr) (wpend wr) /\ same_env w w'.
Proof.
  intros Q. unfold w_flush. destruct (p_write_quiet w (wino wr) (wpend wr) Q) as [w' [E [F S]]].
  rewrite E. exists w'. auto.
Qed.

(* the buffer never holds more than its capacity; an unbuffered writer holds nothing *)
Definition wr_ok (wr : writer) : Prop :=
  match wcap wr with None => wpend wr = [] | Some c => length (wpend wr) <= c end.

(* write_all without faults: where the bytes end up *)
Lemma w_write_quiet w wr b : quiet w -> wr_ok wr ->
  exists w' wr' flushed, w_write w wr b = (true, w', wr') /\ same_env w w'
    /\ wfs w' = append_ino (wfs w) (wino wr) flushed
    /\ wino wr' = wino wr /\ wcap wr' = wcap wr
    /\ flushed ++ wpend wr' = wpend wr ++ b
    /\ wr_ok wr'.
Proof.
  intros Q HP. destruct wr as [ino pend cap]. unfold wr_ok in *. cbn [wino wpend wcap] in *. unfold w_write; cbn [wino wpend wcap].
  destruct cap as [c|].
  - destruct (Nat.ltb (length b) (c - length pend)) eqn:E1.
    + exists w, {| wino := ino; wpend := pend ++ b; wcap := Some c |}, [].
      split; [reflexivity|]. split; [apply same_env_refl; assumption|].
      split; [rewrite append_ino_nil_id; reflexivity|]. cbn. apply Nat.ltb_lt in E1. rewrite app_length. repeat split; auto; lia.
    + destruct (Nat.ltb (c - length pend) (length b)) eqn:E2.
      * destruct (w_flush_quiet w {| wino := ino; wpend := pend; wcap := Some c |} Q) as [w1 [Ef [F1 S1]]]. rewrite Ef.
        cbn [wino wpend wcap] in *.
        destruct (Nat.leb c (length b)) eqn:E3; cbn [wino wpend wcap].
        -- destruct (p_write_quiet w1 ino b (proj1 S1)) as [w2 [Ew [F2 S2]]]. rewrite Ew.
           exists w2, {| wino := ino; wpend := []; wcap := Some c |}, (pend ++ b).
           split; [reflexivity|]. split; [eapply same_env_trans; eassumption|].
           split; [rewrite F2, F1, append_ino_app; reflexivity|].
           cbn. rewrite app_nil_r. repeat split; auto; lia.
        -- exists w1, {| wino := ino; wpend := [] ++ b; wcap := Some c |}, pend.
           split; [reflexivity|]. split; [exact S1|]. split; [exact F1|]. cbn. apply Nat.leb_gt in E3. repeat split; auto; lia.
      * destruct (Nat.leb c (length b)) eqn:E3; cbn [wino wpend wcap].
        -- destruct (p_write_quiet w ino b Q) as [w2 [Ew [F2 S2]]]. rewrite Ew.
           apply Nat.ltb_ge in E1, E2. apply Nat.leb_le in E3.
           assert (Hp : pend = []) by (destruct pend; [reflexivity | cbn in *; lia]). subst pend.
           exists w2, {| wino := ino; wpend := []; wcap := Some c |}, b. split; [reflexivity|]. split; [exact S2|]. split; [exact F2|].
           cbn. rewrite app_nil_r. repeat split; auto; lia.
        -- exists w, {| wino := ino; wpend := pend ++ b; wcap := Some c |}, [].
           split; [reflexivity|]. split; [apply same_env_refl; assumption|].
           split; [rewrite append_ino_nil_id; reflexivity|]. cbn.
           apply Nat.ltb_ge in E1, E2. apply Nat.leb_gt in E3. rewrite app_length. repeat split; auto; lia.
  - subst pend. cbn [wino wpend wcap]. destruct (p_write_quiet w ino b Q) as [w2 [Ew [F2 S2]]]. rewrite Ew.
    exists w2, {| wino := ino; wpend := []; wcap := None |}, b. split; [reflexivity|]. split; [exact S2|]. split; [exact F2|]. cbn.
    rewrite app_nil_r. repeat split; auto.
Qed.
