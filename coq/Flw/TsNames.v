(* Timestamps naming: the names of the rotated files, and what collision_free_infix answers on a directory
   that holds, for the time stamp asked for, exactly the files <ts>, <ts>.restart-0000, .. (n of them). *)
Require Import FL.Base.Bytes FL.Base.BytesFacts FL.Base.PathName FL.Fs.Fs FL.Fs.FsFacts FL.Time.Civil FL.Time.TsFormat
  FL.Names.FileSpec FL.Names.NamesFacts FL.Names.SortFacts FL.Names.FamilyFacts FL.Flw.Model FL.Flw.ModelFacts FL.Flw.NumFs
  FL.Flw.NumInv FL.Flw.Run FL.Flw.NumRun FL.Flw.NumListing FL.Flw.TsCal FL.Flw.TsTime.
From Coq Require Import ZifyN ZifyNat ZifyBool.
Open Scope nat_scope.

(* ------------------------------------------------------------------ ".restart-" inside names *)
Lemma contains_false_iff p s : contains p s = false <-> find_sub p s = None.
Proof. unfold contains. destruct (find_sub p s); split; congruence. Qed.

Lemma contains_cons_false p c s : contains p (c :: s) = false -> is_prefix p (c :: s) = false /\ contains p s = false.
Proof.
  unfold contains. cbn [find_sub]. destruct (is_prefix p (c :: s)); [discriminate|]. destruct (find_sub p s); [discriminate|]. auto.
Qed.

Lemma is_prefix_refl p : is_prefix p p = true.
Proof. rewrite <- (app_nil_r p) at 2. apply sk_is_prefix_app. Qed.

Lemma is_prefix_cons_head p q b r : is_prefix (q :: p) (b :: r) = true -> b = q.
Proof. cbn [is_prefix]. intros H. apply andb_prop in H. destruct H as [H _]. apply N.eqb_eq in H. congruence. Qed.

(* no occurrence in A, none in B, and B does not start with a byte of the inner part of the tag: none in A ++ B *)
Lemma contains_tag_app A B : contains restart_tag A = false -> contains restart_tag B = false ->
  (forall h r, B = h :: r -> ~ In h (tl restart_tag)) -> contains restart_tag (A ++ B) = false.
Proof.
  intros HA HB Hh. induction A as [|c A IH]; [exact HB|].
  apply contains_cons_false in HA. destruct HA as [Hp HA]. specialize (IH HA).
  unfold contains in *. cbn [app find_sub].
  destruct (is_prefix restart_tag (c :: A ++ B)) eqn:E.
  - exfalso. change (c :: A ++ B) with ((c :: A) ++ B) in E. apply sk_is_prefix_split in E.
    destruct E as [E|[p2 [E1 E2]]]; [congruence|].
    destruct p2 as [|q p2].
    + rewrite app_nil_r in E1. rewrite <- E1, is_prefix_refl in Hp. discriminate.
    + destruct B as [|b r]; [discriminate E2|]. apply is_prefix_cons_head in E2. subst b.
      apply (Hh q r eq_refl). rewrite E1. cbn [tl app]. apply in_or_app. right. left. reflexivity.
  - destruct (find_sub restart_tag (A ++ B)); [discriminate | reflexivity].
Qed.

Lemma no_dot_no_tag s : ~ In dot s -> contains restart_tag s = false.
Proof.
  induction s as [|c s IH]; intros H; [reflexivity|].
  unfold contains. cbn [find_sub]. assert (Hc : c <> dot) by (intros ->; apply H; left; reflexivity).
  assert (E : is_prefix restart_tag (c :: s) = false).
  { unfold restart_tag. cbn [is_prefix]. destruct (N.eqb_spec 46 c) as [E0|_]; [exfalso; apply Hc; symmetry; exact E0 | reflexivity]. }
  rewrite E. assert (IH' : contains restart_tag s = false) by (apply IH; intros I; apply H; right; exact I).
  unfold contains in IH'. destruct (find_sub restart_tag s); [discriminate | reflexivity].
Qed.

(* ------------------------------------------------------------------ occurrences of a longer pattern *)
Lemma is_prefix_iff p : forall s, is_prefix p s = true <-> exists r, s = p ++ r.
Proof.
  induction p as [|x p IH]; intros s; cbn [is_prefix app].
  - split; [intros _; exists s; reflexivity | reflexivity].
  - destruct s as [|y s]; [split; [discriminate | intros [r E]; discriminate E]|].
    rewrite andb_true_iff, N.eqb_eq, IH. split.
    + intros [-> [r ->]]. exists r. reflexivity.
    + intros [r E]. injection E as -> ->. split; [reflexivity | exists r; reflexivity].
Qed.

Lemma find_sub_split p : forall s i, find_sub p s = Some i -> exists a b, s = a ++ p ++ b /\ length a = i.
Proof.
  induction s as [|x s IH]; intros i H; cbn [find_sub] in H.
  - destruct (is_prefix p []) eqn:E; [|discriminate]. injection H as <-. apply is_prefix_iff in E. destruct E as [r E].
    exists [], r. split; [exact E | reflexivity].
  - destruct (is_prefix p (x :: s)) eqn:E.
    + injection H as <-. apply is_prefix_iff in E. destruct E as [r E]. exists [], r. split; [exact E | reflexivity].
    + destruct (find_sub p s) as [j|] eqn:Ej; [|discriminate]. injection H as <-.
      destruct (IH j eq_refl) as [a [b [-> <-]]]. exists (x :: a), b. split; reflexivity.
Qed.

Lemma contains_intro p a b : contains p (a ++ p ++ b) = true.
Proof.
  unfold contains. induction a as [|x a IH]; cbn [app].
  - assert (E : is_prefix p (p ++ b) = true) by apply sk_is_prefix_app.
    destruct (p ++ b) as [|y r]; cbn [find_sub]; rewrite E; reflexivity.
  - cbn [find_sub]. destruct (is_prefix p (x :: a ++ p ++ b)); [reflexivity|].
    destruct (find_sub p (a ++ p ++ b)); [reflexivity | discriminate IH].
Qed.

Lemma contains_longer q p s : contains (q ++ p) s = true -> contains p s = true.
Proof.
  unfold contains at 1. destruct (find_sub (q ++ p) s) as [i|] eqn:E; [intros _ | discriminate].
  apply find_sub_split in E. destruct E as [a [b [-> _]]]. rewrite <- !app_assoc, (app_assoc a q). apply contains_intro.
Qed.

(* no occurrence starts within U *)
Lemma find_sub_app_skip P : forall U R, (forall a b, U = a ++ b -> b <> [] -> is_prefix P (b ++ R) = false) ->
  find_sub P (U ++ R) = match find_sub P R with Some i => Some (length U + i) | None => None end.
Proof.
  induction U as [|c U IH]; intros R H; cbn [app length Nat.add]; [destruct (find_sub P R); reflexivity|].
  cbn [find_sub]. pose proof (H [] (c :: U) eq_refl ltac:(discriminate)) as E0. cbn [app] in E0. rewrite E0.
  rewrite IH; [destruct (find_sub P R); reflexivity|].
  intros a b E Hb. apply (H (c :: a) b); [rewrite E; reflexivity | exact Hb].
Qed.

Lemma tag_no_uscore : ~ In uscore restart_tag.
Proof. unfold uscore, restart_tag. cbn [In]. intros X. repeat (destruct X as [X|X]; [discriminate X|]). exact X. Qed.

Lemma stamp_tag_not_in_under fixed T T' R' :
  length T = 20 -> length T' = 20 -> ~ In dot T' ->
  contains (T ++ restart_tag) fixed = false ->
  forall a b, under fixed = a ++ b -> b <> [] -> is_prefix (T ++ restart_tag) (b ++ T' ++ R') = false.
Proof.
  intros LT LT' HD' Hc a b EU Hb.
  destruct (is_prefix (T ++ restart_tag) (b ++ T' ++ R')) eqn:E; [exfalso|reflexivity].
  apply is_prefix_iff in E. destruct E as [rest E]. rewrite <- app_assoc in E.
  assert (EU' : exists b', b = b' ++ [uscore] /\ fixed = a ++ b').
  { destruct (exists_last Hb) as [b' [z ->]]. unfold under in EU. destruct fixed as [|f0 fr].
    - cbn [app] in EU. symmetry in EU. apply app_eq_nil in EU. destruct EU as [_ EU]. apply app_eq_nil in EU. destruct EU as [_ EU]. discriminate EU.
    - rewrite app_assoc in EU. apply app_inj_tail in EU. destruct EU as [EF <-]. exists b'. split; [reflexivity | exact EF]. }
  destruct EU' as [b' [-> EF]]. clear EU Hb.
  apply app_eq_app in E. destruct E as [l [[E1 E2]|[E1 E2]]].
  - apply app_eq_app in E2. destruct E2 as [l2 [[E3 E4]|[E3 E4]]].
    + destruct l as [|l0 lr].
      * cbn [app] in E3. subst l2. destruct T' as [|t0 T'r]; [discriminate LT'|].
        unfold restart_tag in E4. cbn [app] in E4. injection E4 as E4 _. apply HD'. left. exact E4.
      * destruct (@exists_last _ (l0 :: lr) ltac:(discriminate)) as [l' [z El]]. rewrite El in *.
        rewrite app_assoc in E1. apply app_inj_tail in E1. destruct E1 as [_ <-].
        apply tag_no_uscore. rewrite E3. apply in_or_app. left. apply in_or_app. right. left. reflexivity.
    + subst l. destruct l2 as [|l0 lr].
      * rewrite app_nil_r in E1. change restart_tag with ([46; 114; 101; 115; 116; 97; 114; 116] ++ [45])%N in E1.
        rewrite app_assoc in E1. apply app_inj_tail in E1. destruct E1 as [_ E1]. discriminate E1.
      * destruct (@exists_last _ (l0 :: lr) ltac:(discriminate)) as [l3 [z El]]. rewrite El in *.
        rewrite !app_assoc in E1. apply app_inj_tail in E1. destruct E1 as [E1 _].
        rewrite E1 in EF. rewrite EF, <- !app_assoc in Hc. rewrite (app_assoc T), contains_intro in Hc. discriminate Hc.
  - apply app_eq_app in E2. destruct E2 as [l2 [[E3 E4]|[E3 E4]]].
    + destruct l2 as [|z l2].
      * rewrite app_nil_r in E3. subst l. rewrite E1, !app_length in LT. cbn [length] in LT. lia.
      * unfold restart_tag in E4. cbn [app] in E4. injection E4 as E4 _. subst z. apply HD'. rewrite E3. apply in_or_app. right. left. reflexivity.
    + rewrite E1, E3, !app_length in LT. cbn [length] in LT. lia.
Qed.

(* ------------------------------------------------------------------ keys and names *)
(* a closed file is identified by the second of its creation and its position among the files of that second:
   0 = no restart counter, S m = restart counter m *)
Definition key := (Z * nat)%type.
Definition ktail (n : nat) : bytes := match n with O => [] | S m => restart_tag ++ restart_digits (N.of_nat m) end.
Definition infix_of (e : Z) (k : key) : bytes :=
  match snd k with O => tsx e (fst k) | S m => restart_infix (tsx e (fst k)) (N.of_nat m) end.
Definition kname (c : config) (e : Z) (k : key) : bytes := nm c (infix_of e k).

Lemma infix_of_tail e k : infix_of e k = tsx e (fst k) ++ ktail (snd k).
Proof. unfold infix_of, ktail. destruct (snd k); [rewrite app_nil_r; reflexivity | reflexivity]. Qed.

Lemma infix_of_nonempty e k : in_years e (fst k) -> infix_of e k <> [].
Proof. intros H E. rewrite infix_of_tail in E. apply app_eq_nil in E. destruct E as [E _]. exact (tsx_nonempty e _ H E). Qed.

Lemma kname_shape c e k : in_years e (fst k) ->
  kname c e k = under (fixed0 c) ++ tsx e (fst k) ++ ktail (snd k) ++ sfxs (c_spec c).
Proof.
  intros H. unfold kname, nm. rewrite as_name_some by (apply infix_of_nonempty; exact H).
  rewrite with_suffix_sfxs, infix_of_tail, <- !app_assoc. reflexivity.
Qed.

Lemma restart_digits_inj a b : restart_digits a = restart_digits b -> a = b.
Proof. intros E. apply (f_equal (fun s => dec_value (drop_zeros s))) in E. rewrite !restart_digits_value in E. exact E. Qed.

Lemma ktail_inj a b : ktail a = ktail b -> a = b.
Proof.
  destruct a as [|a], b as [|b]; cbn [ktail]; intros E; try reflexivity; try discriminate.
  apply app_inv_head in E. apply restart_digits_inj in E. lia.
Qed.

Lemma infix_of_inj e k1 k2 : in_years e (fst k1) -> in_years e (fst k2) -> infix_of e k1 = infix_of e k2 -> k1 = k2.
Proof.
  intros H1 H2 E. rewrite !infix_of_tail in E. apply app_inj_len in E; [|rewrite !tsx_length by assumption; reflexivity].
  destruct E as [E1 E2]. apply tsx_inj in E1; [|assumption|assumption]. apply ktail_inj in E2.
  destruct k1, k2; cbn [fst snd] in *; subst; reflexivity.
Qed.

Lemma tsx_app_not_cur e t y z : in_years e t -> tsx e t ++ y <> cur_infix ++ z.
Proof.
  intros H E. destruct (tsx_second e t H) as [d [r [Et D]]]. rewrite Et in E. unfold cur_infix in E. cbn [app] in E.
  injection E as E _. subst d. vm_compute in D. discriminate.
Qed.

Lemma infix_of_not_cur e k : in_years e (fst k) -> infix_of e k <> cur_infix.
Proof. intros H E. rewrite infix_of_tail in E. apply (tsx_app_not_cur e (fst k) (ktail (snd k)) [] H). rewrite app_nil_r. exact E. Qed.

Lemma kname_inj c e k1 k2 : in_years e (fst k1) -> in_years e (fst k2) -> kname c e k1 = kname c e k2 -> k1 = k2.
Proof.
  intros H1 H2 E. unfold kname, nm in E. apply as_name_inj in E; [|apply infix_of_nonempty; assumption|apply infix_of_nonempty; assumption].
  apply infix_of_inj in E; assumption.
Qed.

Lemma kname_not_cname c e k : in_years e (fst k) -> kname c e k <> cname c.
Proof.
  intros H E. unfold kname, cname, nm in E. apply as_name_inj in E; [|apply infix_of_nonempty; assumption|apply cur_infix_nonempty].
  exact (infix_of_not_cur e k H E).
Qed.

(* ------------------------------------------------------------------ the hypothesis on the configured name parts *)
(* The code looks for the restart counter of the siblings behind the first occurrence of <ts> ++ ".restart-" in the whole
   file name, <ts> being the time stamp infix asked for (before the repair: behind the first ".restart-", see the examples in
   TsTheorems.v).  What is still needed:
   - the fixed name part does not contain a time stamp infix followed by ".restart-" (a basename like
     "a_r2024-02-29_23-59-58.restart-7"; "a.restart-7" is fine),
   - nor does the suffix,
   - and the suffix does not start with "restart-" (the name <ts>.restart-5 of the first file of a second, with the suffix
     "restart-5", reads like a sibling with restart counter 5; see TsTheorems.tag_in_suffix_shifts_counters). *)
Definition has_stamp_tag (s : bytes) : Prop := exists e t, in_years e t /\ contains (tsx e t ++ restart_tag) s = true.
Definition tag_ok (c : config) : Prop :=
  ~ has_stamp_tag (fixed0 c) /\ ~ has_stamp_tag (sfxs (c_spec c)) /\ is_prefix restart_tag (sfxs (c_spec c)) = false.

(* the former hypothesis - neither the fixed name part nor "." ++ suffix contains ".restart-" - is a special case *)
Definition tag_free (c : config) : Prop :=
  contains restart_tag (fixed0 c) = false /\ contains restart_tag (sfxs (c_spec c)) = false.

Lemma no_tag_no_stamp_tag s : contains restart_tag s = false -> ~ has_stamp_tag s.
Proof. intros H [e [t [_ X]]]. apply contains_longer in X. congruence. Qed.

(* a short text does not contain a time stamp *)
Lemma short_no_stamp_tag s : length s < 29 -> ~ has_stamp_tag s.
Proof.
  intros H [e [t [Y X]]]. unfold contains in X. destruct (find_sub (tsx e t ++ restart_tag) s) as [i|] eqn:E; [|discriminate].
  apply find_sub_split in E. destruct E as [a [b [-> _]]]. rewrite !app_length, (tsx_length e t Y) in H. change (length restart_tag) with 9 in H. lia.
Qed.

Lemma tag_free_ok c : tag_free c -> tag_ok c.
Proof.
  intros [Hf Hs]. split; [apply no_tag_no_stamp_tag, Hf|]. split; [apply no_tag_no_stamp_tag, Hs|].
  destruct (sfxs (c_spec c)) as [|h r]; [reflexivity|]. apply contains_cons_false in Hs. apply Hs.
Qed.

Lemma no_stamp_tag_contains s e t : ~ has_stamp_tag s -> in_years e t -> contains (tsx e t ++ restart_tag) s = false.
Proof. intros H Y. destruct (contains (tsx e t ++ restart_tag) s) eqn:E; [|reflexivity]. exfalso. apply H. exists e, t. auto. Qed.

(* <ts> ++ ".restart-" does not start within the fixed name part and its underscore when another time stamp follows *)
Lemma stamp_find_under c e t t' R :
  ~ has_stamp_tag (fixed0 c) -> in_years e t -> in_years e t' ->
  find_sub (tsx e t ++ restart_tag) (under (fixed0 c) ++ tsx e t' ++ R)
  = match find_sub (tsx e t ++ restart_tag) (tsx e t' ++ R) with Some i => Some (length (under (fixed0 c)) + i) | None => None end.
Proof.
  intros Hf Y Y'. apply find_sub_app_skip. apply stamp_tag_not_in_under.
  - apply tsx_length, Y.
  - apply tsx_length, Y'.
  - exact (tsx_no_dot e t' Y').
  - apply no_stamp_tag_contains; assumption.
Qed.

Lemma sfxs_head_ok sp h r : sfxs sp = h :: r -> ~ In h (tl restart_tag).
Proof.
  unfold sfxs. destruct (fsfx sp); [|discriminate]. intros E. injection E as <- _. unfold restart_tag, dot. cbn [tl In].
  intros X. repeat (destruct X as [X|X]; [discriminate X|]). exact X.
Qed.

(* the first file of a second is no restart sibling *)
Lemma kname_plain_no_tag c e t : tag_ok c -> in_years e t -> contains (tsx e t ++ restart_tag) (kname c e (t, 0)) = false.
Proof.
  intros [Hf [Hs Hp]] Y. rewrite kname_shape by exact Y. cbn [fst snd ktail app].
  unfold contains. rewrite (stamp_find_under c e t t _ Hf Y Y).
  rewrite find_sub_app_skip.
  - pose proof (no_stamp_tag_contains _ e t Hs Y) as X. unfold contains in X.
    destruct (find_sub (tsx e t ++ restart_tag) (sfxs (c_spec c))); [discriminate X | reflexivity].
  - intros a b Et Hb. destruct (is_prefix (tsx e t ++ restart_tag) (b ++ sfxs (c_spec c))) eqn:E; [exfalso | reflexivity].
    apply is_prefix_iff in E. destruct E as [rest E]. rewrite <- app_assoc in E. rewrite Et in E. apply app_eq_app in E. destruct E as [l [[E1 E2]|[E1 E2]]].
    + (* b = (a ++ b) ++ l *)
      assert (L : length b = length ((a ++ b) ++ l)) by (rewrite <- E1; reflexivity). rewrite !app_length in L.
      assert (La : a = []) by (destruct a; [reflexivity | cbn [length] in L; lia]).
      assert (Ll : l = []) by (destruct l; [reflexivity | cbn [length] in L; lia]).
      subst a l. cbn [app] in E2.
      assert (X : is_prefix restart_tag (sfxs (c_spec c)) = true) by (apply is_prefix_iff; exists rest; symmetry; exact E2).
      congruence.
    + (* a ++ b = b ++ l, sfxs = l ++ ".restart-" ++ rest *)
      destruct l as [|z l].
      * cbn [app] in E2. assert (X : is_prefix restart_tag (sfxs (c_spec c)) = true) by (apply is_prefix_iff; exists rest; exact E2).
        congruence.
      * apply (tsx_no_dot e t Y). rewrite Et, E1. apply in_or_app. right. left.
        unfold sfxs in E2. destruct (fsfx (c_spec c)); [|discriminate E2]. cbn [app] in E2. injection E2 as E2 _. symmetry. exact E2.
Qed.

Lemma kname_restart_find c e t m : ~ has_stamp_tag (fixed0 c) -> in_years e t ->
  kname c e (t, S m) = under (fixed0 c) ++ tsx e t ++ restart_tag ++ restart_digits (N.of_nat m) ++ sfxs (c_spec c)
  /\ find_sub (tsx e t ++ restart_tag) (kname c e (t, S m)) = Some (length (under (fixed0 c))).
Proof.
  intros Hf Y.
  assert (E : kname c e (t, S m) = under (fixed0 c) ++ tsx e t ++ restart_tag ++ restart_digits (N.of_nat m) ++ sfxs (c_spec c)).
  { rewrite kname_shape by exact Y. cbn [fst snd ktail]. rewrite <- !app_assoc. reflexivity. }
  split; [exact E|]. rewrite E, (stamp_find_under c e t t _ Hf Y Y).
  assert (P : is_prefix (tsx e t ++ restart_tag) (tsx e t ++ restart_tag ++ restart_digits (N.of_nat m) ++ sfxs (c_spec c)) = true).
  { rewrite (app_assoc (tsx e t)). apply sk_is_prefix_app. }
  destruct (tsx e t ++ restart_tag ++ restart_digits (N.of_nat m) ++ sfxs (c_spec c)) as [|x r]; cbn [find_sub]; rewrite P; f_equal; lia.
Qed.

Lemma fs_take_digits_app d rest : all_digits d = true -> (forall h r, rest = h :: r -> is_digit h = false) ->
  FileSpec.take_digits (d ++ rest) = d.
Proof.
  intros Hd Hr. induction d as [|x d IH]; cbn [app FileSpec.take_digits].
  - destruct rest as [|h r]; [reflexivity|]. cbn [FileSpec.take_digits]. rewrite (Hr h r eq_refl). reflexivity.
  - cbn [all_digits] in Hd. apply andb_prop in Hd. destruct Hd as [Hx Hd]. rewrite Hx, (IH Hd). reflexivity.
Qed.

Lemma restart_number_kname c e t m : ~ has_stamp_tag (fixed0 c) -> in_years e t -> (N.of_nat m <= usize_max)%N ->
  restart_number (tsx e t) (kname c e (t, S m)) = Some (N.of_nat m).
Proof.
  intros T H Hm. destruct (kname_restart_find c e t m T H) as [E F]. unfold restart_number. rewrite F, E.
  rewrite <- Nat.add_assoc, sk_skipn_app, sk_skipn_app.
  change (skipn 9 (restart_tag ++ restart_digits (N.of_nat m) ++ sfxs (c_spec c)))
    with (restart_digits (N.of_nat m) ++ sfxs (c_spec c)).
  rewrite fs_take_digits_app; [|apply restart_digits_all|].
  - rewrite parse_uint_digits; [|apply restart_digits_nonempty | apply restart_digits_all].
    assert (V : dec_value (restart_digits (N.of_nat m)) = N.of_nat m).
    { unfold restart_digits, pad_left. rewrite dec_value_zeros. apply dec_value_dec. }
    rewrite V. destruct (N.leb_spec (N.of_nat m) usize_max); [reflexivity | lia].
  - intros h r. unfold sfxs. destruct (fsfx (c_spec c)); [|discriminate]. intros X. injection X as <- _. reflexivity.
Qed.

Lemma kname_restart_contains c e t m : ~ has_stamp_tag (fixed0 c) -> in_years e t ->
  contains (tsx e t ++ restart_tag) (kname c e (t, S m)) = true.
Proof. intros T H. unfold contains. rewrite (proj2 (kname_restart_find c e t m T H)). reflexivity. Qed.

(* ------------------------------------------------------------------ the listing with the filter "infix = <ts>" *)
(* the directory: the closed files named by `keys` (not directories), possibly the current file, nothing else *)
Definition dir_is (c : config) (e : Z) (f : fs) (keys : list key) : Prop :=
  (forall k, In k keys -> exists j, lookup f (kname c e k) = Some j /\ fdir (inode f j) = false)
  /\ (forall n j, lookup f n = Some j -> n = cname c \/ exists k, In k keys /\ n = kname c e k).

Lemma restart_digits_length k : 4 <= length (restart_digits k).
Proof. unfold restart_digits, pad_left. rewrite app_length, repeat_length. lia. Qed.

Lemma ktail_restart_part m : restart_part (ktail m).
Proof.
  destruct m as [|m]; [left; reflexivity|]. right. exists (restart_digits (N.of_nat m)).
  split; [reflexivity|]. split; [apply restart_digits_length | apply restart_digits_all].
Qed.

Section Listing.
Variables (c : config) (e : Z) (off : Z) (ts : Z).
Hypothesis Hts : in_years e ts.
Let S := tsx e ts.
Let sfx := fsfx (c_spec c).
Let fixed := fixed0 c.

(* only names with this time stamp pass the filter, whatever suffix the listing asks for *)
Lemma qf_eq_upper keys o x :
  (forall k, In k keys -> in_years e (fst k)) ->
  (x = cname c \/ exists k, In k keys /\ x = kname c e k) ->
  qf off sfx fixed (IFEq S) o x = true -> exists m, In (ts, m) keys /\ x = kname c e (ts, m).
Proof.
  intros Hk Hx Q. unfold qf in Q. destruct (infix_candidate sfx o fixed x) as [i|] eqn:Ei; [|discriminate].
  cbn [filter_infix] in Q. apply beq_eq in Q. subst i. apply infix_candidate_prefix in Ei. destruct Ei as [y Ey].
  destruct Hx as [->|[k [Ik ->]]].
  - exfalso. rewrite cname_shape in Ey. apply app_inv_head in Ey. exact (tsx_app_not_cur e ts y _ Hts (eq_sym Ey)).
  - pose proof (Hk k Ik) as Yk. rewrite (kname_shape c e k Yk) in Ey. apply app_inv_head in Ey.
    apply app_inj_len in Ey; [|unfold S; rewrite !tsx_length by assumption; reflexivity].
    destruct Ey as [Ey _]. apply tsx_inj in Ey; [|assumption|assumption].
    exists (snd k). destruct k as [t m]; cbn [fst snd] in *. subst t. auto.
Qed.

(* every name with this time stamp passes the filter of the plain listing *)
Lemma qf_eq_lower m : qf off sfx fixed (IFEq S) sfx (kname c e (ts, m)) = true.
Proof.
  unfold qf, sfx, fixed. rewrite (family_is_candidate (c_spec c) (fixed0 c) (kname c e (ts, m)) S).
  - cbn [filter_infix]. apply beq_refl.
  - apply family_plain_alt. exists (ktail m). split; [apply ktail_restart_part|].
    split; [apply tsx_nonempty; exact Hts|]. split; [exact (tsx_no_dot e ts Hts)|].
    rewrite kname_shape by exact Hts. cbn [fst snd]. fold (sfxs (c_spec c)). rewrite <- !app_assoc. reflexivity.
Qed.
End Listing.

(* the name of the compressed file that collision_free_infix looks for does not exist *)
Lemma gz_name_absent c e f keys ts :
  in_years e ts -> (forall k, In k keys -> in_years e (fst k)) -> dir_is c e f keys ->
  lookup f (kname c e (ts, 0) ++ dot :: gz_sfx) = None.
Proof.
  intros Hts Hk [_ Hon]. destruct (lookup f (kname c e (ts, 0) ++ dot :: gz_sfx)) as [j|] eqn:E; [exfalso|reflexivity].
  rewrite kname_shape in E by exact Hts. cbn [fst snd ktail app] in E.
  destruct (Hon _ _ E) as [X|[k [Ik X]]].
  - rewrite cname_shape, <- !app_assoc in X. apply app_inv_head in X. exact (tsx_app_not_cur e ts _ _ Hts X).
  - pose proof (Hk k Ik) as Yk. rewrite (kname_shape c e k Yk), <- !app_assoc in X. apply app_inv_head in X.
    apply app_inj_len in X; [|rewrite !tsx_length by assumption; reflexivity]. destruct X as [_ X].
    apply (f_equal (@length N)) in X. destruct (snd k) as [|m]; cbn [ktail app] in X.
    + rewrite app_length in X. cbn [length] in X. lia.
    + (* "." ++ suffix ++ ".gz" is shorter than ".restart-" ++ digits ++ "." ++ suffix *)
      rewrite !app_length in X. change (length (dot :: gz_sfx)) with 3 in X. change (length restart_tag) with 9 in X. lia.
Qed.

(* THE CHARACTERISATION.  The directory holds exactly n files with the time stamp asked for - necessarily
   <ts>, <ts>.restart-0000, .., <ts>.restart-(n-2) - besides files with other time stamps and the current file.
   The answer is the next name of this sequence: <ts> for n = 0, <ts>.restart-0000 for n = 1, <ts>.restart-(n-1) else.
   No bound of 10000 on the counters: beyond 9999 the text just has more digits. *)
Theorem collision_free_infix_ts c e off f keys ts n :
  tag_ok c -> in_years e ts -> (forall k, In k keys -> in_years e (fst k)) -> dir_is c e f keys ->
  (forall m, In (ts, m) keys <-> m < n) -> (N.of_nat n <= usize_max)%N ->
  collision_free_infix off (c_spec c) (fixed0 c) f (tsx e ts) = Some (Some (infix_of e (ts, n))).
Proof.
  intros T Hts Hk D Hn Hmax. pose proof D as [Hin Hon].
  unfold collision_free_infix. rewrite !filter_files_total.
  set (rel := related_files f (fsfx (c_spec c)) (fixed0 c)).
  set (unc := filter (qf off (fsfx (c_spec c)) (fixed0 c) (IFEq (tsx e ts)) (fsfx (c_spec c))) rel).
  set (cmp := filter (qf off (fsfx (c_spec c)) (fixed0 c) (IFEq (tsx e ts)) (Some gz_sfx)) rel).
  set (sibs := filter (fun x => contains (tsx e ts ++ restart_tag) x) (unc ++ cmp)).
  (* what is listed carries this time stamp *)
  assert (A : forall x, In x (unc ++ cmp) -> exists m, m < n /\ x = kname c e (ts, m)).
  { intros x I. apply in_app_or in I.
    assert (X : exists o, In x rel /\ qf off (fsfx (c_spec c)) (fixed0 c) (IFEq (tsx e ts)) o x = true).
    { destruct I as [I|I]; apply filter_In in I; destruct I; eauto. }
    destruct X as [o [Ir Q]]. apply related_files_in in Ir. destruct Ir as [Id _].
    apply dir_names_lookup in Id. destruct Id as [j Lj].
    destruct (qf_eq_upper c e off ts Hts keys o x Hk (Hon x j Lj) Q) as [m [Im ->]]. exists m. split; [apply Hn; exact Im | reflexivity]. }
  (* every file with this time stamp is listed *)
  assert (B : forall m, m < n -> In (kname c e (ts, m)) (unc ++ cmp)).
  { intros m Hm. apply in_or_app. left. apply filter_In. split; [|apply qf_eq_lower; exact Hts].
    destruct (Hin (ts, m) (proj2 (Hn m) Hm)) as [j [Lj Pd]]. apply related_files_in. split; [apply dir_names_lookup; eauto|]. split.
    - unfold is_reg_file, file_of. rewrite Lj, Pd. reflexivity.
    - rewrite kname_shape by exact Hts. apply is_prefix_under. }
  (* the restart numbers found: 0 .. n-2 *)
  assert (R : forall v, In v (filter_map_opt (restart_number (tsx e ts)) sibs) <-> exists i, i < n - 1 /\ v = N.of_nat i).
  { intros v. rewrite filter_map_opt_in. split.
    - intros [x [Ix Ex]]. apply filter_In in Ix. destruct Ix as [Ix Cx]. destruct (A x Ix) as [m [Hm ->]].
      destruct m as [|m]; [rewrite kname_plain_no_tag in Cx by assumption; discriminate|].
      rewrite restart_number_kname in Ex by (assumption || apply T || lia). injection Ex as <-. exists m. split; [lia | reflexivity].
    - intros [i [Hi ->]]. exists (kname c e (ts, Datatypes.S i)). split.
      + apply filter_In. split; [apply B; lia | apply kname_restart_contains; [apply T | assumption]].
      + apply restart_number_kname; [apply T | assumption | lia]. }
  rewrite (max_opt_range _ _ R).
  (* the three tests *)
  assert (E1 : lookup f (as_name (c_spec c) (fixed0 c) (Some (tsx e ts))) = None <-> n = 0).
  { change (as_name (c_spec c) (fixed0 c) (Some (tsx e ts))) with (kname c e (ts, 0)). split.
    - intros L. destruct n as [|n']; [reflexivity|]. destruct (Hin (ts, 0) (proj2 (Hn 0) ltac:(lia))) as [j [Lj _]]. congruence.
    - intros ->. destruct (lookup f (kname c e (ts, 0))) as [j|] eqn:L; [exfalso|reflexivity].
      destruct (Hon _ _ L) as [X|[k [Ik X]]]; [exact (kname_not_cname c e (ts, 0) Hts X)|].
      apply kname_inj in X; [|exact Hts | apply Hk; exact Ik]. subst k. apply Hn in Ik. lia. }
  change (as_name (c_spec c) (fixed0 c) (Some (tsx e ts)) ++ dot :: gz_sfx) with (kname c e (ts, 0) ++ dot :: gz_sfx).
  rewrite (gz_name_absent c e f keys ts Hts Hk D). cbn [orb].
  destruct n as [|[|n']].
  - rewrite (proj2 E1 eq_refl). cbn [orb].
    assert (Es : sibs = []).
    { destruct sibs as [|x r] eqn:Es; [reflexivity|exfalso].
      assert (Ix : In x sibs) by (rewrite Es; left; reflexivity). apply filter_In in Ix. destruct (A x (proj1 Ix)) as [m [Hm _]]. lia. }
    rewrite Es. reflexivity.
  - assert (L : exists j, lookup f (as_name (c_spec c) (fixed0 c) (Some (tsx e ts))) = Some j).
    { assert (L : lookup f (as_name (c_spec c) (fixed0 c) (Some (tsx e ts))) <> None) by (intros X; apply E1 in X; discriminate).
      destruct (lookup f (as_name (c_spec c) (fixed0 c) (Some (tsx e ts)))) as [j|]; [eauto | congruence]. }
    destruct L as [j L]. rewrite L.
    cbn [orb Nat.sub]. reflexivity.
  - assert (L : exists j, lookup f (as_name (c_spec c) (fixed0 c) (Some (tsx e ts))) = Some j).
    { assert (L : lookup f (as_name (c_spec c) (fixed0 c) (Some (tsx e ts))) <> None) by (intros X; apply E1 in X; discriminate).
      destruct (lookup f (as_name (c_spec c) (fixed0 c) (Some (tsx e ts)))) as [j|]; [eauto | congruence]. }
    destruct L as [j L]. rewrite L.
    cbn [orb Nat.sub].
    destruct (N.ltb_spec (N.of_nat n') usize_max) as [_|X]; [|lia].
    unfold infix_of, restart_infix. cbn [fst snd]. replace (N.of_nat n' + 1)%N with (N.of_nat (Datatypes.S n')) by lia. reflexivity.
Qed.
Print Assumptions collision_free_infix_ts.
