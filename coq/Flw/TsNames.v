(* Timestamps naming: the names of the rotated files, and what collision_free_infix answers on a directory
   that holds, for the time stamp asked for, exactly the files <ts>, <ts>.restart-0000, .. (n of them). *)
Require Import FL.Base.Bytes FL.Base.BytesFacts FL.Base.PathName FL.Fs.Fs FL.Fs.FsFacts FL.Time.Civil FL.Time.TsFormat
  FL.Names.FileSpec FL.Names.NamesFacts FL.Names.SortFacts FL.Names.FamilyFacts FL.Flw.Model FL.Flw.ModelFacts FL.Flw.NumFs
  FL.Flw.NumInv FL.Flw.Run FL.Flw.NumRun FL.Flw.NumListing FL.Flw.TsCal FL.Flw.TsTime.
From Coq Require Import ZifyN ZifyNat ZifyBool.
Open Scope nat_scope.

(* ------------------------------------------------------------------ ".restart-" inside names *)
Lemma contains_false_iff p s : contains p s = false <-> find_sub p s = None.
Proof. unfold contains. destruct (find_sub p s); split; congruence. Qed.

Lemma contains_cons_false p c s : contains p (c :: s) = false -> is_prefix p (c :: s) = false /\ contains p s = false.
Proof.
  unfold contains. cbn [find_sub]. destruct (is_prefix p (c :: s)); [discriminate|]. destruct (find_sub p s); [discriminate|]. auto.
Qed.

Lemma is_prefix_refl p : is_prefix p p = true.
Proof. rewrite <- (app_nil_r p) at 2. apply sk_is_prefix_app. Qed.

Lemma is_prefix_cons_head p q b r : is_prefix (q :: p) (b :: r) = true -> b = q.
Proof. cbn [is_prefix]. intros H. apply andb_prop in H. destruct H as [H _]. apply N.eqb_eq in H. congruence. Qed.

(* no occurrence in A, none in B, and B does not start with a byte of the inner part of the tag: none in A ++ B *)
Lemma contains_tag_app A B : contains restart_tag A = false -> contains restart_tag B = false ->
  (forall h r, B = h :: r -> ~ In h (tl restart_tag)) -> contains restart_tag (A ++ B) = false.
Proof.
  intros HA HB Hh. induction A as [|c A IH]; [exact HB|].
  apply contains_cons_false in HA. destruct HA as [Hp HA]. specialize (IH HA).
  unfold contains in *. cbn [app find_sub].
  destruct (is_prefix restart_tag (c :: A ++ B)) eqn:E.
  - exfalso. change (c :: A ++ B) with ((c :: A) ++ B) in E. apply sk_is_prefix_split in E.
    destruct E as [E|[p2 [E1 E2]]]; [congruence|].
    destruct p2 as [|q p2].
    + rewrite app_nil_r in E1. rewrite <- E1, is_prefix_refl in Hp. discriminate.
    + destruct B as [|b r]; [discriminate E2|]. apply is_prefix_cons_head in E2. subst b.
      apply (Hh q r eq_refl). rewrite E1. cbn [tl app]. apply in_or_app. right. left. reflexivity.
  - destruct (find_sub restart_tag (A ++ B)); [discriminate | reflexivity].
Qed.

Lemma no_dot_no_tag s : ~ In dot s -> contains restart_tag s = false.
Proof.
  induction s as [|c s IH]; intros H; [reflexivity|].
  unfold contains. cbn [find_sub]. assert (Hc : c <> dot) by (intros ->; apply H; left; reflexivity).
  assert (E : is_prefix restart_tag (c :: s) = false).
  { unfold restart_tag. cbn [is_prefix]. destruct (N.eqb_spec 46 c) as [E0|_]; [exfalso; apply Hc; symmetry; exact E0 | reflexivity]. }
  rewrite E. assert (IH' : contains restart_tag s = false) by (apply IH; intros I; apply H; right; exact I).
  unfold contains in IH'. destruct (find_sub restart_tag s); [discriminate | reflexivity].
Qed.

(* ------------------------------------------------------------------ keys and names *)
(* a closed file is identified by the second of its creation and its position among the files of that second:
   0 = no restart counter, S m = restart counter m *)
Definition key := (Z * nat)%type.
Definition ktail (n : nat) : bytes := match n with O => [] | S m => restart_tag ++ restart_digits (N.of_nat m) end.
Definition infix_of (e : Z) (k : key) : bytes :=
  match snd k with O => tsx e (fst k) | S m => restart_infix (tsx e (fst k)) (N.of_nat m) end.
Definition kname (c : config) (e : Z) (k : key) : bytes := nm c (infix_of e k).

Lemma infix_of_tail e k : infix_of e k = tsx e (fst k) ++ ktail (snd k).
Proof. unfold infix_of, ktail. destruct (snd k); [rewrite app_nil_r; reflexivity | reflexivity]. Qed.

Lemma infix_of_nonempty e k : in_years e (fst k) -> infix_of e k <> [].
Proof. intros H E. rewrite infix_of_tail in E. apply app_eq_nil in E. destruct E as [E _]. exact (tsx_nonempty e _ H E). Qed.

Lemma kname_shape c e k : in_years e (fst k) ->
  kname c e k = under (fixed0 c) ++ tsx e (fst k) ++ ktail (snd k) ++ sfxs (c_spec c).
Proof.
  intros H. unfold kname, nm. rewrite as_name_some by (apply infix_of_nonempty; exact H).
  rewrite with_suffix_sfxs, infix_of_tail, <- !app_assoc. reflexivity.
Qed.

Lemma restart_digits_inj a b : restart_digits a = restart_digits b -> a = b.
Proof. intros E. apply (f_equal (fun s => dec_value (drop_zeros s))) in E. rewrite !restart_digits_value in E. exact E. Qed.

Lemma ktail_inj a b : ktail a = ktail b -> a = b.
Proof.
  destruct a as [|a], b as [|b]; cbn [ktail]; intros E; try reflexivity; try discriminate.
  apply app_inv_head in E. apply restart_digits_inj in E. lia.
Qed.

Lemma infix_of_inj e k1 k2 : in_years e (fst k1) -> in_years e (fst k2) -> infix_of e k1 = infix_of e k2 -> k1 = k2.
Proof.
  intros H1 H2 E. rewrite !infix_of_tail in E. apply app_inj_len in E; [|rewrite !tsx_length by assumption; reflexivity].
  destruct E as [E1 E2]. apply tsx_inj in E1; [|assumption|assumption]. apply ktail_inj in E2.
  destruct k1, k2; cbn [fst snd] in *; subst; reflexivity.
Qed.

Lemma tsx_app_not_cur e t y z : in_years e t -> tsx e t ++ y <> cur_infix ++ z.
Proof.
  intros H E. destruct (tsx_second e t H) as [d [r [Et D]]]. rewrite Et in E. unfold cur_infix in E. cbn [app] in E.
  injection E as E _. subst d. vm_compute in D. discriminate.
Qed.

Lemma infix_of_not_cur e k : in_years e (fst k) -> infix_of e k <> cur_infix.
Proof. intros H E. rewrite infix_of_tail in E. apply (tsx_app_not_cur e (fst k) (ktail (snd k)) [] H). rewrite app_nil_r. exact E. Qed.

Lemma kname_inj c e k1 k2 : in_years e (fst k1) -> in_years e (fst k2) -> kname c e k1 = kname c e k2 -> k1 = k2.
Proof.
  intros H1 H2 E. unfold kname, nm in E. apply as_name_inj in E; [|apply infix_of_nonempty; assumption|apply infix_of_nonempty; assumption].
  apply infix_of_inj in E; assumption.
Qed.

Lemma kname_not_cname c e k : in_years e (fst k) -> kname c e k <> cname c.
Proof.
  intros H E. unfold kname, cname, nm in E. apply as_name_inj in E; [|apply infix_of_nonempty; assumption|apply cur_infix_nonempty].
  exact (infix_of_not_cur e k H E).
Qed.

(* ------------------------------------------------------------------ the hypothesis on the configured name parts *)
(* neither the fixed name part nor "." ++ suffix contains ".restart-" (the code looks for the first occurrence of this
   text in the whole file name, see the counterexamples in TsTheorems.v) *)
Definition tag_free (c : config) : Prop :=
  contains restart_tag (fixed0 c) = false /\ contains restart_tag (sfxs (c_spec c)) = false.

Lemma under_tsx_no_tag c e t : tag_free c -> in_years e t -> contains restart_tag (under (fixed0 c) ++ tsx e t) = false.
Proof.
  intros [Hf _] H. pose proof (tsx_no_dot e t H) as Hd. unfold under. destruct (fixed0 c) as [|f0 fr] eqn:Ef.
  - cbn [app]. apply no_dot_no_tag. exact Hd.
  - rewrite <- app_assoc. apply contains_tag_app; [exact Hf | |].
    + apply no_dot_no_tag. cbn [app In]. intros [X|X]; [discriminate X | exact (Hd X)].
    + intros h r E. cbn [app] in E. injection E as <- _. unfold restart_tag, uscore. cbn [tl In].
      intros X. repeat (destruct X as [X|X]; [discriminate X|]). exact X.
Qed.

Lemma sfxs_head_ok sp h r : sfxs sp = h :: r -> ~ In h (tl restart_tag).
Proof.
  unfold sfxs. destruct (fsfx sp); [|discriminate]. intros E. injection E as <- _. unfold restart_tag, dot. cbn [tl In].
  intros X. repeat (destruct X as [X|X]; [discriminate X|]). exact X.
Qed.

Lemma kname_plain_no_tag c e t : tag_free c -> in_years e t -> contains restart_tag (kname c e (t, 0)) = false.
Proof.
  intros T H. rewrite kname_shape by exact H. cbn [fst snd ktail app]. rewrite app_assoc.
  apply contains_tag_app; [apply under_tsx_no_tag; assumption | apply T | apply sfxs_head_ok].
Qed.

Lemma kname_restart_find c e t m : tag_free c -> in_years e t ->
  kname c e (t, S m) = (under (fixed0 c) ++ tsx e t) ++ restart_tag ++ restart_digits (N.of_nat m) ++ sfxs (c_spec c)
  /\ find_sub restart_tag (kname c e (t, S m)) = Some (length (under (fixed0 c) ++ tsx e t)).
Proof.
  intros T H.
  assert (E : kname c e (t, S m) = (under (fixed0 c) ++ tsx e t) ++ restart_tag ++ restart_digits (N.of_nat m) ++ sfxs (c_spec c)).
  { rewrite kname_shape by exact H. cbn [fst snd ktail]. rewrite <- !app_assoc. reflexivity. }
  split; [exact E|]. rewrite E. apply sk_find_tag_app. apply under_tsx_no_tag; assumption.
Qed.

Lemma fs_take_digits_app d rest : all_digits d = true -> (forall h r, rest = h :: r -> is_digit h = false) ->
  FileSpec.take_digits (d ++ rest) = d.
Proof.
  intros Hd Hr. induction d as [|x d IH]; cbn [app FileSpec.take_digits].
  - destruct rest as [|h r]; [reflexivity|]. cbn [FileSpec.take_digits]. rewrite (Hr h r eq_refl). reflexivity.
  - cbn [all_digits] in Hd. apply andb_prop in Hd. destruct Hd as [Hx Hd]. rewrite Hx, (IH Hd). reflexivity.
Qed.

Lemma restart_number_kname c e t m : tag_free c -> in_years e t -> (N.of_nat m <= usize_max)%N ->
  restart_number (kname c e (t, S m)) = Some (N.of_nat m).
Proof.
  intros T H Hm. destruct (kname_restart_find c e t m T H) as [E F]. unfold restart_number. rewrite F, E.
  rewrite sk_skipn_app. change (skipn 9 (restart_tag ++ restart_digits (N.of_nat m) ++ sfxs (c_spec c)))
    with (restart_digits (N.of_nat m) ++ sfxs (c_spec c)).
  rewrite fs_take_digits_app; [|apply restart_digits_all|].
  - rewrite parse_uint_digits; [|apply restart_digits_nonempty | apply restart_digits_all].
    assert (V : dec_value (restart_digits (N.of_nat m)) = N.of_nat m).
    { unfold restart_digits, pad_left. rewrite dec_value_zeros. apply dec_value_dec. }
    rewrite V. destruct (N.leb_spec (N.of_nat m) usize_max); [reflexivity | lia].
  - intros h r. unfold sfxs. destruct (fsfx (c_spec c)); [|discriminate]. intros X. injection X as <- _. reflexivity.
Qed.

Lemma kname_restart_contains c e t m : tag_free c -> in_years e t -> contains restart_tag (kname c e (t, S m)) = true.
Proof. intros T H. unfold contains. rewrite (proj2 (kname_restart_find c e t m T H)). reflexivity. Qed.

(* ------------------------------------------------------------------ the listing with the filter "infix = <ts>" *)
(* the directory: the closed files named by `keys` (not directories), possibly the current file, nothing else *)
Definition dir_is (c : config) (e : Z) (f : fs) (keys : list key) : Prop :=
  (forall k, In k keys -> exists j, lookup f (kname c e k) = Some j /\ fdir (inode f j) = false)
  /\ (forall n j, lookup f n = Some j -> n = cname c \/ exists k, In k keys /\ n = kname c e k).

Lemma restart_digits_length k : 4 <= length (restart_digits k).
Proof. unfold restart_digits, pad_left. rewrite app_length, repeat_length. lia. Qed.

Lemma ktail_restart_part m : restart_part (ktail m).
Proof.
  destruct m as [|m]; [left; reflexivity|]. right. exists (restart_digits (N.of_nat m)).
  split; [reflexivity|]. split; [apply restart_digits_length | apply restart_digits_all].
Qed.

Section Listing.
Variables (c : config) (e : Z) (off : Z) (ts : Z).
Hypothesis Hts : in_years e ts.
Let S := tsx e ts.
Let sfx := fsfx (c_spec c).
Let fixed := fixed0 c.

(* only names with this time stamp pass the filter, whatever suffix the listing asks for *)
Lemma qf_eq_upper keys o x :
  (forall k, In k keys -> in_years e (fst k)) ->
  (x = cname c \/ exists k, In k keys /\ x = kname c e k) ->
  qf off sfx fixed (IFEq S) o x = true -> exists m, In (ts, m) keys /\ x = kname c e (ts, m).
Proof.
  intros Hk Hx Q. unfold qf in Q. destruct (infix_candidate sfx o fixed x) as [i|] eqn:Ei; [|discriminate].
  cbn [filter_infix] in Q. apply beq_eq in Q. subst i. apply infix_candidate_prefix in Ei. destruct Ei as [y Ey].
  destruct Hx as [->|[k [Ik ->]]].
  - exfalso. rewrite cname_shape in Ey. apply app_inv_head in Ey. exact (tsx_app_not_cur e ts y _ Hts (eq_sym Ey)).
  - pose proof (Hk k Ik) as Yk. rewrite (kname_shape c e k Yk) in Ey. apply app_inv_head in Ey.
    apply app_inj_len in Ey; [|unfold S; rewrite !tsx_length by assumption; reflexivity].
    destruct Ey as [Ey _]. apply tsx_inj in Ey; [|assumption|assumption].
    exists (snd k). destruct k as [t m]; cbn [fst snd] in *. subst t. auto.
Qed.

(* every name with this time stamp passes the filter of the plain listing *)
Lemma qf_eq_lower m : qf off sfx fixed (IFEq S) sfx (kname c e (ts, m)) = true.
Proof.
  unfold qf, sfx, fixed. rewrite (family_is_candidate (c_spec c) (fixed0 c) (kname c e (ts, m)) S).
  - cbn [filter_infix]. apply beq_refl.
  - apply family_plain_alt. exists (ktail m). split; [apply ktail_restart_part|].
    split; [apply tsx_nonempty; exact Hts|]. split; [exact (tsx_no_dot e ts Hts)|].
    rewrite kname_shape by exact Hts. cbn [fst snd]. fold (sfxs (c_spec c)). rewrite <- !app_assoc. reflexivity.
Qed.
End Listing.

(* the name of the compressed file that collision_free_infix looks for does not exist *)
Lemma gz_name_absent c e f keys ts :
  tag_free c -> in_years e ts -> (forall k, In k keys -> in_years e (fst k)) -> dir_is c e f keys ->
  lookup f (kname c e (ts, 0) ++ dot :: gz_sfx) = None.
Proof.
  intros T Hts Hk [_ Hon]. destruct (lookup f (kname c e (ts, 0) ++ dot :: gz_sfx)) as [j|] eqn:E; [exfalso|reflexivity].
  rewrite kname_shape in E by exact Hts. cbn [fst snd ktail app] in E.
  destruct (Hon _ _ E) as [X|[k [Ik X]]].
  - rewrite cname_shape, <- !app_assoc in X. apply app_inv_head in X. exact (tsx_app_not_cur e ts _ _ Hts X).
  - pose proof (Hk k Ik) as Yk. rewrite (kname_shape c e k Yk), <- !app_assoc in X. apply app_inv_head in X.
    apply app_inj_len in X; [|rewrite !tsx_length by assumption; reflexivity]. destruct X as [_ X].
    destruct (snd k) as [|m]; cbn [ktail app] in X.
    + apply (f_equal (@length N)) in X. rewrite app_length in X. cbn [length] in X. lia.
    + (* "." ++ suffix would have to start with ".restart-" *)
      destruct T as [_ Ts]. rewrite <- !app_assoc in X.
      assert (P : is_prefix restart_tag (sfxs (c_spec c) ++ dot :: gz_sfx) = true) by (rewrite X; apply sk_is_prefix_app).
      apply sk_is_prefix_split in P. destruct P as [P|[p2 [P1 P2]]].
      * unfold contains in Ts. destruct (sfxs (c_spec c)) as [|h r]; [discriminate P|]. cbn [find_sub] in Ts. rewrite P in Ts. discriminate.
      * destruct p2 as [|q p2].
        -- rewrite app_nil_r in P1. rewrite <- P1 in Ts. vm_compute in Ts. discriminate.
        -- destruct (sfxs (c_spec c)) as [|h r] eqn:Es.
           ++ cbn [app] in P1. rewrite <- P1 in P2. vm_compute in P2. discriminate.
           ++ apply is_prefix_cons_head in P2. subst q.
              assert (Hq : In dot (tl restart_tag)).
              { rewrite P1. cbn [app tl]. apply in_or_app. right. left. reflexivity. }
              unfold restart_tag, dot in Hq. cbn [tl In] in Hq.
              repeat (destruct Hq as [Hq|Hq]; [discriminate Hq|]). exact Hq.
Qed.

(* THE CHARACTERISATION.  The directory holds exactly n files with the time stamp asked for - necessarily
   <ts>, <ts>.restart-0000, .., <ts>.restart-(n-2) - besides files with other time stamps and the current file.
   The answer is the next name of this sequence: <ts> for n = 0, <ts>.restart-0000 for n = 1, <ts>.restart-(n-1) else.
   No bound of 10000 on the counters: beyond 9999 the text just has more digits. *)
Theorem collision_free_infix_ts c e off f keys ts n :
  tag_free c -> in_years e ts -> (forall k, In k keys -> in_years e (fst k)) -> dir_is c e f keys ->
  (forall m, In (ts, m) keys <-> m < n) -> (N.of_nat n <= usize_max)%N ->
  collision_free_infix off (c_spec c) (fixed0 c) f (tsx e ts) = Some (Some (infix_of e (ts, n))).
Proof.
  intros T Hts Hk D Hn Hmax. pose proof D as [Hin Hon].
  unfold collision_free_infix. rewrite !filter_files_total.
  set (rel := related_files f (fsfx (c_spec c)) (fixed0 c)).
  set (unc := filter (qf off (fsfx (c_spec c)) (fixed0 c) (IFEq (tsx e ts)) (fsfx (c_spec c))) rel).
  set (cmp := filter (qf off (fsfx (c_spec c)) (fixed0 c) (IFEq (tsx e ts)) (Some gz_sfx)) rel).
  set (sibs := filter (fun x => contains restart_tag x) (unc ++ cmp)).
  (* what is listed carries this time stamp *)
  assert (A : forall x, In x (unc ++ cmp) -> exists m, m < n /\ x = kname c e (ts, m)).
  { intros x I. apply in_app_or in I.
    assert (X : exists o, In x rel /\ qf off (fsfx (c_spec c)) (fixed0 c) (IFEq (tsx e ts)) o x = true).
    { destruct I as [I|I]; apply filter_In in I; destruct I; eauto. }
    destruct X as [o [Ir Q]]. apply related_files_in in Ir. destruct Ir as [Id _].
    apply dir_names_lookup in Id. destruct Id as [j Lj].
    destruct (qf_eq_upper c e off ts Hts keys o x Hk (Hon x j Lj) Q) as [m [Im ->]]. exists m. split; [apply Hn; exact Im | reflexivity]. }
  (* every file with this time stamp is listed *)
  assert (B : forall m, m < n -> In (kname c e (ts, m)) (unc ++ cmp)).
  { intros m Hm. apply in_or_app. left. apply filter_In. split; [|apply qf_eq_lower; exact Hts].
    destruct (Hin (ts, m) (proj2 (Hn m) Hm)) as [j [Lj Pd]]. apply related_files_in. split; [apply dir_names_lookup; eauto|]. split.
    - unfold is_reg_file, file_of. rewrite Lj, Pd. reflexivity.
    - rewrite kname_shape by exact Hts. apply is_prefix_under. }
  (* the restart numbers found: 0 .. n-2 *)
  assert (R : forall v, In v (filter_map_opt restart_number sibs) <-> exists i, i < n - 1 /\ v = N.of_nat i).
  { intros v. rewrite filter_map_opt_in. split.
    - intros [x [Ix Ex]]. apply filter_In in Ix. destruct Ix as [Ix Cx]. destruct (A x Ix) as [m [Hm ->]].
      destruct m as [|m]; [rewrite kname_plain_no_tag in Cx by assumption; discriminate|].
      rewrite restart_number_kname in Ex by (assumption || lia). injection Ex as <-. exists m. split; [lia | reflexivity].
    - intros [i [Hi ->]]. exists (kname c e (ts, Datatypes.S i)). split.
      + apply filter_In. split; [apply B; lia | apply kname_restart_contains; assumption].
      + apply restart_number_kname; [assumption | assumption | lia]. }
  rewrite (max_opt_range _ _ R).
  (* the three tests *)
  assert (E1 : lookup f (as_name (c_spec c) (fixed0 c) (Some (tsx e ts))) = None <-> n = 0).
  { change (as_name (c_spec c) (fixed0 c) (Some (tsx e ts))) with (kname c e (ts, 0)). split.
    - intros L. destruct n as [|n']; [reflexivity|]. destruct (Hin (ts, 0) (proj2 (Hn 0) ltac:(lia))) as [j [Lj _]]. congruence.
    - intros ->. destruct (lookup f (kname c e (ts, 0))) as [j|] eqn:L; [exfalso|reflexivity].
      destruct (Hon _ _ L) as [X|[k [Ik X]]]; [exact (kname_not_cname c e (ts, 0) Hts X)|].
      apply kname_inj in X; [|exact Hts | apply Hk; exact Ik]. subst k. apply Hn in Ik. lia. }
  change (as_name (c_spec c) (fixed0 c) (Some (tsx e ts)) ++ dot :: gz_sfx) with (kname c e (ts, 0) ++ dot :: gz_sfx).
  rewrite (gz_name_absent c e f keys ts T Hts Hk D). cbn [orb].
  destruct n as [|[|n']].
  - rewrite (proj2 E1 eq_refl). cbn [orb].
    assert (Es : sibs = []).
    { destruct sibs as [|x r] eqn:Es; [reflexivity|exfalso].
      assert (Ix : In x sibs) by (rewrite Es; left; reflexivity). apply filter_In in Ix. destruct (A x (proj1 Ix)) as [m [Hm _]]. lia. }
    rewrite Es. reflexivity.
  - assert (L : exists j, lookup f (as_name (c_spec c) (fixed0 c) (Some (tsx e ts))) = Some j).
    { assert (L : lookup f (as_name (c_spec c) (fixed0 c) (Some (tsx e ts))) <> None) by (intros X; apply E1 in X; discriminate).
      destruct (lookup f (as_name (c_spec c) (fixed0 c) (Some (tsx e ts)))) as [j|]; [eauto | congruence]. }
    destruct L as [j L]. rewrite L.
    cbn [orb Nat.sub]. reflexivity.
  - assert (L : exists j, lookup f (as_name (c_spec c) (fixed0 c) (Some (tsx e ts))) = Some j).
    { assert (L : lookup f (as_name (c_spec c) (fixed0 c) (Some (tsx e ts))) <> None) by (intros X; apply E1 in X; discriminate).
      destruct (lookup f (as_name (c_spec c) (fixed0 c) (Some (tsx e ts)))) as [j|]; [eauto | congruence]. }
    destruct L as [j L]. rewrite L.
    cbn [orb Nat.sub].
    destruct (N.ltb_spec (N.of_nat n') usize_max) as [_|X]; [|lia].
    unfold infix_of, restart_infix. cbn [fst snd]. replace (N.of_nat n' + 1)%N with (N.of_nat (Datatypes.S n')) by lia. reflexivity.
Qed.
Print Assumptions collision_free_infix_ts.
