(* C18 with rotation, NumbersDirect naming (r00000, r00001, ...; no rCURRENT: the current file is the newest numbered file):
   reopen_outputfile() after an external rename of the current file, reopen_outputfile() with the file in place,
   reset(builder) to another NumbersDirect family.  The analogue of ReopenRot.v (Numbers naming).

   What the model does (found by experiments, then proved):
   - the path of the current file is part of the Active state; reopen_outputfile() opens exactly this path again (append,
     create if missing) and keeps the whole rotation state: the index L of the current file AND the roll state.
     After "rename r<L> -> moved; reopen" there is a NEW, empty file r<L> AT THE ORIGINAL PATH, with the same number; the
     next rotation opens r<L+1>: no number is skipped, no number is used twice in the directory - but over time the number L
     has named two different files (the one moved away and the new one).
   - the size count is not reset: the new r<L> inherits the count of the file moved away.  If that file was already over
     the limit, the first record after the reopen rotates at once: the new r<L> stays EMPTY, the record goes to r<L+1>
     (exd_reopen_empty_file).  Nothing is lost, nothing is overwritten.
   - the new writer is an unbuffered File until the next rotation; the old BufWriter is dropped, its buffered tail is
     flushed into the inode it has open: the moved file.
   - reopen with the file in place: the same inode is continued; the directory at the end is the one of the history
     without the reopen.
   - reset(builder) to another NumbersDirect family in the same write mode: the old writer is dropped (buffered tail flushed
     into the old current file), the new writer starts as in a directory of its own, provided the names of the old family
     are not members of the new one (numd_member).
   - the name the current file is renamed to must not be a numbered name of the family: renamed to the NEXT number r<L+1>,
     the file is truncated by the next rotation (without append) and its records are lost without any error:
     exd_reopen_family_name_loses_records; with append the rotation continues the file (nothing lost).
   Main statements: reopen_numbersdirect, reopen_numbersdirect_partition, reopen_numbersdirect_at_once,
   reopen_numbersdirect_initial, reopen_numbersdirect_in_place, reset_numbersdirect, reset_numbersdirect_prefix. *)
Require Import FL.Base.Bytes FL.Base.BytesFacts FL.Base.PathName FL.Fs.Fs FL.Fs.FsFacts FL.Time.Civil FL.Time.TsFormat
  FL.Names.FileSpec FL.Names.NamesFacts FL.Flw.Model FL.Flw.ModelFacts FL.Flw.NumFs FL.Flw.NumInv FL.Flw.Run FL.Flw.RunFacts
  FL.Flw.NumRun FL.Flw.NumTheorems FL.Oracles.O_Flw FL.Flw.NumListing FL.Flw.ForeignFs FL.Flw.ForeignModel FL.Flw.NumForeign
  FL.Flw.NumDInv FL.Flw.NumDRun FL.Flw.NumDTheorems FL.Flw.ForeignGen FL.Flw.NumDForeign FL.Flw.ReopenRot.
From Coq Require Import ZifyN ZifyNat ZifyBool.
Open Scope nat_scope.

(* ================================================================== 1. the invariant with other files in the directory *)
(* extra: files whose names are not numbered names of the family (name, content); the writer may have another buffer
   capacity than the configuration says (after reopen it is an unbuffered File) *)
Definition fresh_name_d (c : config) (n : bytes) : Prop := forall i, n <> rname c i.

Record NumDInvX (c : config) (w : world) (wr : writer) (closed : list bytes) (extra : list (bytes * bytes)) : Prop := {
  dx_quiet : quiet w;
  dx_wf : fs_wf (wfs w);
  dx_cur : lookup (wfs w) (rname c (length closed)) = Some (wino wr);
  dx_curplain : plain (inode (wfs w) (wino wr));
  dx_closed : forall i, i < length closed ->
      exists j, lookup (wfs w) (rname c i) = Some j /\ plain (inode (wfs w) j) /\ content (wfs w) j = nth i closed [];
  dx_extra : forall n d, In (n, d) extra ->
      exists j, lookup (wfs w) n = Some j /\ plain (inode (wfs w) j) /\ content (wfs w) j = d;
  dx_only : forall n j, lookup (wfs w) n = Some j ->
      (exists i, i <= length closed /\ n = rname c i) \/ In n (List.map fst extra);
  dx_fresh : forall n, In n (List.map fst extra) -> fresh_name_d c n;
  dx_wr : wr_ok wr }.

Lemma numdinv_x c w wr closed : NumDInv c w wr closed -> NumDInvX c w wr closed [].
Proof.
  intros [Q W Hc Hcp Hcl Hon Hwr Hcap]. constructor; try assumption.
  - intros n d [].
  - intros n j H. left. exact (Hon n j H).
  - intros n [].
Qed.

(* ---- one rotation: the next number is opened, nothing is renamed ---- *)
Lemma mount_next_rotates_dx c crit w wr closed extra roll force :
  numdcfg c crit -> NumDInvX c w wr closed extra ->
  force || rotation_necessary w roll = true ->
  exists w' wr' roll',
    mount_next c w (Active (Some (mk_rs (NSNumD (N.of_nat (length closed))) roll)) wr (rname c (length closed))) force
      = (Ok tt, w', Active (Some (mk_rs (NSNumD (N.of_nat (length (closed ++ [cur_view w wr])))) roll')) wr'
                          (rname c (length (closed ++ [cur_view w wr]))))
    /\ NumDInvX c w' wr' (closed ++ [cur_view w wr]) extra
    /\ cur_view w' wr' = [] /\ roll_size_ok roll' 0 /\ same_env w w'
    /\ (forall m cur, roll = RSize m cur -> exists cur', roll' = RSize m cur').
Proof.
  intros [Hrot [Hts [Hlink _]]] I Hnec.
  pose proof I as [Q W Hc Hcp Hcl Hex Hon Hfr Hwr].
  assert (Elen : length (closed ++ [cur_view w wr]) = S (length closed)) by (rewrite app_length; cbn [length]; lia).
  rewrite Elen.
  unfold mount_next. cbn [mk_rs rs_roll rs_naming rs_cleanup rs_bg]. rewrite Hnec.
  unfold open_log_file. rewrite (name_of_fixed c w) by assumption.
  fold (nm c (number_infix (N.of_nat (length closed) + 1))). rewrite rname_S.
  (* the next name is free *)
  assert (Ht : lookup (wfs w) (rname c (S (length closed))) = None).
  { destruct (lookup (wfs w) (rname c (S (length closed)))) as [j|] eqn:E; [|reflexivity]. exfalso.
    destruct (Hon _ _ E) as [[i [Hi E1]]|E1].
    - apply rname_inj in E1. lia.
    - exact (Hfr _ E1 _ eq_refl). }
  destruct (open_fresh_quiet c w (rname c (S (length closed))) Q Hlink Ht) as [w2 [Eop [F2 S2]]]. rewrite Eop.
  (* the old writer is dropped *)
  unfold w_drop. destruct (w_flush_quiet w2 wr (proj1 S2)) as [w3 [Efl [F3 S3]]]. rewrite Efl. cbn [fst snd].
  unfold cleanup_or_queue. cbn [mk_rs rs_roll rs_naming rs_cleanup rs_bg cleanup_impl].
  rewrite F2 in F3.
  pose proof (wf_bound _ W _ _ Hc) as Hold.
  pose proof (direct_fs_spec (wfs w) (rname c (S (length closed))) (wino wr) (wpend wr) (wnow w) W Hold Ht) as R.
  cbn zeta in R. destruct R as [W3 [Hnew [L3t [L3o [Inew [Iold Ioth]]]]]].
  set (new := snd (create_file (wfs w) (rname c (S (length closed))) 0%N (wnow w))) in *.
  set (f3 := append_ino (fst (create_file (wfs w) (rname c (S (length closed))) 0%N (wnow w))) (wino wr) (wpend wr)) in *.
  set (wr' := {| wino := new; wpend := []; wcap := c_cap c |}).
  exists w3, wr', (reset_size_and_date w3 roll (rname c (S (length closed)))).
  split. { replace (N.of_nat (S (length closed))) with (N.of_nat (length closed) + 1)%N by lia. reflexivity. }
  split.
  { constructor.
    - exact (proj1 S3).
    - rewrite F3. exact W3.
    - rewrite F3, Elen. exact L3t.
    - rewrite F3. cbn [wr' wino]. rewrite Inew. split; reflexivity.
    - intros i Hi. rewrite Elen in Hi. rewrite F3.
      destruct (Nat.eq_dec i (length closed)) as [->|Hne].
      + exists (wino wr). split; [rewrite L3o; [exact Hc | intros E; apply rname_inj in E; lia]|]. split.
        * rewrite Iold. exact Hcp.
        * unfold content at 1. rewrite Iold. cbn [with_data fdata]. rewrite app_nth2, Nat.sub_diag by lia. reflexivity.
      + assert (Hi' : i < length closed) by lia. destruct (Hcl i Hi') as [j [Lj [Pj Cj]]].
        exists j. rewrite L3o by (intros E; apply rname_inj in E; lia).
        split; [exact Lj|].
        assert (Hj1 : j <> new). { pose proof (wf_bound _ W _ _ Lj). rewrite Hnew. lia. }
        assert (Hj2 : j <> wino wr). { intros ->. pose proof (wf_inj _ W _ _ _ Lj Hc) as E. apply rname_inj in E. lia. }
        unfold content. rewrite Ioth by assumption. split; [exact Pj|]. rewrite app_nth1 by assumption. exact Cj.
    - intros n d Hin. rewrite F3. destruct (Hex n d Hin) as [j [Lj [Pj Cj]]].
      assert (Hn : fresh_name_d c n) by (apply Hfr; apply (in_map fst) in Hin; exact Hin).
      exists j. rewrite L3o by apply Hn. split; [exact Lj|].
      assert (Hj1 : j <> new). { pose proof (wf_bound _ W _ _ Lj). rewrite Hnew. lia. }
      assert (Hj2 : j <> wino wr). { intros ->. pose proof (wf_inj _ W _ _ _ Lj Hc) as E. exact (Hn _ E). }
      unfold content. rewrite Ioth by assumption. split; [exact Pj | exact Cj].
    - intros n j Hn. rewrite F3 in Hn. rewrite Elen.
      destruct (beq_spec n (rname c (S (length closed)))) as [->|Hn1].
      + left. exists (S (length closed)). split; [lia | reflexivity].
      + rewrite L3o in Hn by assumption. destruct (Hon _ _ Hn) as [[i [Hi E]]|E].
        * left. exists i. split; [lia | exact E].
        * right. exact E.
    - exact Hfr.
    - unfold wr_ok, wr'. cbn. destruct (c_cap c); [lia | reflexivity]. }
  split. { unfold cur_view. rewrite F3. cbn [wr' wino wpend]. unfold content. rewrite Inew. reflexivity. }
  split. { destruct roll; cbn; auto. }
  split; [eapply same_env_trans; eassumption|].
  intros m cur ->. cbn. eauto.
Qed.

(* ---- appending to the current inode keeps the invariant ---- *)
Lemma numdinvx_append c w w' wr wr' closed extra x :
  NumDInvX c w wr closed extra -> wfs w' = append_ino (wfs w) (wino wr) x -> same_env w w' ->
  wino wr' = wino wr -> wr_ok wr' ->
  NumDInvX c w' wr' closed extra /\ content (wfs w') (wino wr') = content (wfs w) (wino wr) ++ x.
Proof.
  intros [Q W Hc Hcp Hcl Hex Hon Hfr Hwr] F SE Ei Hok.
  pose proof (wf_bound _ W _ _ Hc) as Hold.
  split.
  - constructor.
    + exact (proj1 SE).
    + rewrite F. apply wf_append. exact W.
    + rewrite F, lookup_append, Ei. exact Hc.
    + rewrite F, Ei, inode_append, Nat.eqb_refl by assumption. exact Hcp.
    + intros i Hi. destruct (Hcl i Hi) as [j [Lj [Pj Cj]]]. exists j. rewrite F, lookup_append. split; [exact Lj|].
      assert (Hj : j <> wino wr). { intros ->. pose proof (wf_inj _ W _ _ _ Lj Hc) as E. apply rname_inj in E. lia. }
      unfold content. rewrite inode_append by assumption. destruct (Nat.eqb_spec j (wino wr)); [contradiction|]. auto.
    + intros n d Hin. destruct (Hex n d Hin) as [j [Lj [Pj Cj]]]. exists j. rewrite F, lookup_append. split; [exact Lj|].
      assert (Hn : fresh_name_d c n) by (apply Hfr; apply (in_map fst) in Hin; exact Hin).
      assert (Hj : j <> wino wr). { intros ->. pose proof (wf_inj _ W _ _ _ Lj Hc) as E. exact (Hn _ E). }
      unfold content. rewrite inode_append by assumption. destruct (Nat.eqb_spec j (wino wr)); [contradiction|]. auto.
    + intros n j. rewrite F, lookup_append. apply Hon.
    + exact Hfr.
    + exact Hok.
  - rewrite F, Ei, content_append, Nat.eqb_refl by assumption. reflexivity.
Qed.

(* ---- a write on an active writer; g: the part of the size count that is not in the current file ---- *)
Lemma write_active_dx c crit w wr closed extra roll g b :
  numdcfg c crit -> NumDInvX c w wr closed extra -> roll_size_ok roll (g + length (cur_view w wr)) ->
  let rot := rotation_necessary w roll in
  exists w' wr' roll' closed',
    write_buffer (st_of_d c (length closed) roll wr) w b = (Ok tt, w', st_of_d c (length closed') roll' wr', rot)
    /\ NumDInvX c w' wr' closed' extra
    /\ roll_size_ok roll' ((if rot then 0 else g) + length (cur_view w' wr')) /\ same_env w w'
    /\ (closed', cur_view w' wr') = (if rot then (closed ++ [cur_view w wr], b) else (closed, cur_view w wr ++ b))
    /\ (forall m cur, roll = RSize m cur -> exists cur', roll' = RSize m cur').
Proof.
  intros Hcfg I Hsz rot.
  unfold write_buffer, st_of_d. cbn [f_cfg f_inner f_poisoned mk_rs rs_roll]. fold rot.
  assert (M : exists w1 wr1 roll1 closed1,
            mount_next c w (Active (Some (mk_rs (NSNumD (N.of_nat (length closed))) roll)) wr (rname c (length closed))) false
            = (Ok tt, w1, Active (Some (mk_rs (NSNumD (N.of_nat (length closed1))) roll1)) wr1 (rname c (length closed1)))
            /\ NumDInvX c w1 wr1 closed1 extra
            /\ roll_size_ok roll1 ((if rot then 0 else g) + length (cur_view w1 wr1)) /\ same_env w w1
            /\ (closed1, cur_view w1 wr1) = (if rot then (closed ++ [cur_view w wr], []) else (closed, cur_view w wr))
            /\ (forall m cur, roll = RSize m cur -> exists cur', roll1 = RSize m cur')).
  { destruct rot eqn:Er.
    - destruct (mount_next_rotates_dx c crit w wr closed extra roll false Hcfg I) as [w1 [wr1 [roll1 [E [I1 [V1 [Z1 [S1 R1]]]]]]]]; [exact Er|].
      exists w1, wr1, roll1, (closed ++ [cur_view w wr]). rewrite V1.
      split; [exact E|]. split; [exact I1|]. split; [exact Z1|]. split; [exact S1|]. split; [reflexivity | exact R1].
    - exists w, wr, roll, closed. split.
      + unfold mount_next. cbn [mk_rs rs_roll orb]. unfold rot in Er. rewrite Er. reflexivity.
      + split; [exact I|]. split; [exact Hsz|]. split; [apply same_env_refl; apply I|]. split; [reflexivity | eauto]. }
  destruct M as [w1 [wr1 [roll1 [closed1 [E [I1 [Z1 [S1 [V1 R1]]]]]]]]].
  rewrite E.
  destruct (w_write_quiet w1 wr1 b (dx_quiet _ _ _ _ _ I1) (dx_wr _ _ _ _ _ I1)) as [w2 [wr2 [fl [Ew [S2 [F2 [Ei [Ec [Ep Hok]]]]]]]]].
  rewrite Ew.
  destruct (numdinvx_append c w1 w2 wr1 wr2 closed1 extra fl I1 F2 S2 Ei Hok) as [I2 C2].
  exists w2, wr2, (increase_size roll1 (N.of_nat (length b))), closed1.
  assert (V2 : cur_view w2 wr2 = cur_view w1 wr1 ++ b).
  { unfold cur_view. rewrite C2, <- !app_assoc, Ep. reflexivity. }
  split; [reflexivity|]. split; [exact I2|].
  split. { rewrite V2, app_length, Nat.add_assoc. apply roll_size_increase. exact Z1. }
  split; [eapply same_env_trans; eassumption|].
  split. { rewrite V2. destruct rot; injection V1 as -> ->; reflexivity. }
  intros m cur Hr. destruct (R1 m cur Hr) as [cur' ->]. cbn. eauto.
Qed.

Lemma flush_active_dx c w wr closed extra roll :
  NumDInvX c w wr closed extra ->
  exists w' wr', flush_state (st_of_d c (length closed) roll wr) w = (true, w', st_of_d c (length closed) roll wr')
    /\ NumDInvX c w' wr' closed extra /\ cur_view w' wr' = cur_view w wr /\ wpend wr' = [] /\ same_env w w'.
Proof.
  intros I. unfold flush_state, st_of_d. cbn [f_inner].
  destruct (w_flush_quiet w wr (dx_quiet _ _ _ _ _ I)) as [w1 [E [F S]]]. rewrite E.
  set (wr' := {| wino := wino wr; wpend := []; wcap := wcap wr |}).
  assert (Hok : wr_ok wr') by (unfold wr_ok, wr'; cbn; destruct (wcap wr); [lia | reflexivity]).
  destruct (numdinvx_append c w w1 wr wr' closed extra (wpend wr) I F S eq_refl Hok) as [I1 C1].
  exists w1, wr'. split; [reflexivity|]. split; [exact I1|]. split; [|split; [reflexivity | exact S]].
  unfold cur_view. rewrite C1. cbn [wr' wpend]. rewrite app_nil_r. reflexivity.
Qed.

Lemma numdinvx_env c w w' wr closed extra : NumDInvX c w wr closed extra -> wfs w' = wfs w -> quiet w' -> NumDInvX c w' wr closed extra.
Proof. intros [Q W Hc Hcp Hcl Hex Hon Hfr Hwr] F Q'. constructor; try rewrite F; assumption. Qed.

Lemma shutdown_active_dx c w wr closed extra roll : NumDInvX c w wr closed extra -> wacts w = 0 ->
  exists w' wr', shutdown_state (st_of_d c (length closed) roll wr) w = (w', st_of_d c (length closed) roll wr')
    /\ NumDInvX c w' wr' closed extra /\ cur_view w' wr' = cur_view w wr /\ wpend wr' = [] /\ wacts w' = 0.
Proof.
  intros I Ha. unfold shutdown_state, st_of_d, drain_acts. cbn [f_inner f_cfg mk_rs rs_cleanup rs_naming].
  destruct (w_flush_quiet w wr (dx_quiet _ _ _ _ _ I)) as [w1 [E [F S]]]. rewrite E.
  set (wr' := {| wino := wino wr; wpend := []; wcap := wcap wr |}).
  assert (Hok : wr_ok wr') by (unfold wr_ok, wr'; cbn; destruct (wcap wr); [lia | reflexivity]).
  destruct (numdinvx_append c w w1 wr wr' closed extra (wpend wr) I F S eq_refl Hok) as [I1 C1].
  exists w1, wr'. split; [reflexivity|]. split; [exact I1|]. split; [|split; [reflexivity | exact (same_env_acts _ _ S Ha)]].
  unfold cur_view. rewrite C1. cbn [wr' wpend]. rewrite app_nil_r. reflexivity.
Qed.

(* ================================================================== 2. histories on the generalised invariant *)
(* the abstract view (xview, x_step, x_run, sx_run of ReopenRot.v): closed files, content of the current file, and the
   ghost part g of the size count *)
Definition RelDX (c : config) (crit : criterion) (extra : list (bytes * bytes)) (x : sys) (v : xview) : Prop :=
  let '(closed, cur, g) := v in
  s_tl x = [] /\ wacts (s_w x) = 0 /\
  exists wr roll, s_flw x = Some (st_of_d c (length closed) roll wr) /\ NumDInvX c (s_w x) wr closed extra
    /\ cur_view (s_w x) wr = cur /\ roll_size_ok roll (g + length cur)
    /\ (forall m, crit = CSize m -> exists k, roll = RSize m k).

Lemma step_sync_reldx c crit extra x v o : numdcfg c crit -> RelDX c crit extra x v -> step x o = sync_step x o.
Proof.
  intros [_ [Hts [_ Ha]]] R. destruct v as [[closed cur] g]. destruct R as [_ [_ [wr [roll [Es _]]]]].
  rewrite step_plain by (intros s' Es'; rewrite Es in Es'; injection Es' as <-; exact Hts).
  unfold step_core. rewrite Es. unfold is_async. cbn [st_of_d f_cfg]. rewrite Ha. reflexivity.
Qed.

Lemma write_reldx c crit extra x v b :
  numdcfg c crit -> RelDX c crit extra x v ->
  exists s w' s' rot, s_flw x = Some s /\ f_poisoned s = false /\
    write_buffer s (s_w x) b = (Ok tt, w', s', rot)
    /\ RelDX c crit extra {| s_flw := Some s'; s_w := w'; s_tl := []; s_dead := s_dead x |} (x_step v (OWrite b) rot)
    /\ (forall m, crit = CSize m -> rot = (m <? N.of_nat (size_of v))%N).
Proof.
  intros Hcfg R. destruct v as [[closed cur] g]. destruct R as [Ht [Ha [wr [roll [Es [I [V [Z RS]]]]]]]].
  rewrite <- V in Z.
  destruct (write_active_dx c crit (s_w x) wr closed extra roll g b Hcfg I Z) as [w' [wr' [roll' [closed' [E [I' [Z' [S' [V' R']]]]]]]]].
  exists (st_of_d c (length closed) roll wr), w', (st_of_d c (length closed') roll' wr'), (rotation_necessary (s_w x) roll).
  split; [exact Es|]. split; [reflexivity|]. split; [exact E|].
  split.
  - cbn [x_step]. rewrite V in V'.
    destruct (rotation_necessary (s_w x) roll); injection V' as <- V''; (split; [reflexivity|]; split; [cbn [s_w]; exact (same_env_acts _ _ S' Ha)|];
      exists wr', roll'; cbn [s_flw s_w];
      split; [reflexivity|]; split; [exact I'|]; split; [exact V''|]; split; [rewrite <- V''; exact Z'|];
      intros m Hm; destruct (RS m Hm) as [k ->]; destruct (R' m k eq_refl) as [k' ->]; eauto).
  - intros m Hm. destruct (RS m Hm) as [k ->]. cbn in Z. subst k. cbn [size_of]. rewrite V. reflexivity.
Qed.

Lemma step_reldx c crit extra x v o :
  numdcfg c crit -> RelDX c crit extra x v -> basic_op o ->
  let '(x', ob) := step x o in
  RelDX c crit extra x' (x_step v o (rot_of ob))
  /\ (forall m, is_wr o = true -> crit = CSize m -> ob = ObsRes 0 (m <? N.of_nat (size_of v))%N).
Proof.
  intros Hcfg R Hb. rewrite (step_sync_reldx c crit extra x v o Hcfg R). destruct o; try contradiction; cbn [sync_step].
  - (* OWrite *)
    destruct (write_reldx c crit extra x v b Hcfg R) as [s [w' [s' [rot [Es [Hp [E [R' C]]]]]]]].
    assert (Ht : s_tl x = []) by (destruct v as [[? ?] ?]; apply R).
    rewrite Es, Hp. rewrite Ht. cbn [app]. rewrite E. cbn [rot_of]. split; [exact R'|].
    intros m _ Hm. rewrite (C m Hm). reflexivity.
  - (* OPlain *)
    destruct (write_reldx c crit extra x v b Hcfg R) as [s [w' [s' [rot [Es [Hp [E [R' C]]]]]]]].
    assert (Ht : s_tl x = []) by (destruct v as [[? ?] ?]; apply R).
    rewrite Es, Hp, E. cbn [rot_of code_of]. rewrite Ht. split; [exact R'|].
    intros m _ Hm. rewrite (C m Hm). reflexivity.
  - (* OFlush *)
    destruct v as [[closed cur] g]. destruct R as [Ht [Ha [wr [roll [Es [I [V [Z RS]]]]]]]]. rewrite Es. cbn [st_of_d f_poisoned].
    destruct (flush_active_dx c (s_w x) wr closed extra roll I) as [w' [wr' [E [I' [V' [P' S']]]]]].
    fold (st_of_d c (length closed) roll wr). rewrite E. cbn [rot_of x_step].
    split; [|intros m H; discriminate].
    split; [exact Ht|]. split; [exact (same_env_acts _ _ S' Ha)|]. exists wr', roll. cbn [s_flw s_w].
    split; [reflexivity|]. split; [exact I'|]. split; [congruence|]. split; assumption.
  - (* OTrigger *)
    destruct v as [[closed cur] g]. destruct R as [Ht [Ha [wr [roll [Es [I [V [Z RS]]]]]]]]. rewrite Es. cbn [st_of_d f_poisoned f_cfg f_inner].
    destruct (mount_next_rotates_dx c crit (s_w x) wr closed extra roll true Hcfg I eq_refl) as [w' [wr' [roll' [E [I' [V' [Z' [S' R']]]]]]]].
    rewrite E. cbn [rot_of x_step code_of with_inner f_cfg f_poisoned].
    split; [|intros m H; discriminate].
    split; [exact Ht|]. split; [exact (same_env_acts _ _ S' Ha)|]. rewrite V in *. exists wr', roll'. cbn [s_flw s_w].
    split; [reflexivity|]. split; [exact I'|]. split; [exact V'|]. split; [exact Z'|].
    intros m Hm. destruct (RS m Hm) as [k ->]. destruct (R' m k eq_refl) as [k' ->]. eauto.
  - (* OTick *)
    cbn [rot_of x_step]. split; [|intros m H; discriminate].
    destruct v as [[closed cur] g]. destruct R as [Ht [Ha [wr [roll [Es [I [V [Z RS]]]]]]]].
    split; [exact Ht|]. split; [exact Ha|]. exists wr, roll. cbn [s_flw s_w].
    split; [exact Es|]. split; [apply (numdinvx_env c (s_w x)); [exact I | reflexivity | apply I]|].
    split; [exact V|]. split; assumption.
  - (* OSnap *)
    cbn [rot_of x_step]. split; [|intros m H; discriminate]. destruct v as [[closed cur] g]. exact R.
Qed.

Lemma run_reldx c crit extra : numdcfg c crit -> forall ops x v, RelDX c crit extra x v -> Forall basic_op ops ->
  RelDX c crit extra (fst (run x ops)) (x_run v ops (snd (run x ops))).
Proof.
  intros Hcfg. induction ops as [|o r IH]; intros x v R Hb; [exact R|].
  cbn [run]. inversion Hb as [|o' r' Ho Hr]; subst.
  pose proof (step_reldx c crit extra x v o Hcfg R Ho) as S. destruct (step x o) as [x1 ob].
  destruct S as [R1 _]. specialize (IH x1 _ R1 Hr). destruct (run x1 r) as [x2 obs]. exact IH.
Qed.

Lemma run_sizedx c m extra : numdcfg c (CSize m) -> forall ops x v, RelDX c (CSize m) extra x v -> Forall basic_op ops ->
  x_run v ops (snd (run x ops)) = sx_run m v ops.
Proof.
  intros Hcfg. induction ops as [|o r IH]; intros x v R Hb; [reflexivity|].
  cbn [run]. inversion Hb as [|o' r' Ho Hr]; subst.
  pose proof (step_reldx c (CSize m) extra x v o Hcfg R Ho) as S. destruct (step x o) as [x1 ob] eqn:Est.
  destruct S as [R1 C1]. specialize (IH x1 _ R1 Hr). destruct (run x1 r) as [x2 obs] eqn:Er. cbn [snd] in *.
  assert (Erot : x_step v o (rot_of ob) = x_step v o (m <? N.of_nat (size_of v))%N).
  { destruct o; try reflexivity; rewrite (C1 m eq_refl eq_refl); reflexivity. }
  cbn [x_run sx_run]. rewrite <- Erot. exact IH.
Qed.

(* ---- the directory at the end: r00000 .. hold closed ++ [cur], the other files are untouched ---- *)
Lemma numdinvx_dir_holds c w wr closed extra : NumDInvX c w wr closed extra -> wpend wr = [] ->
  dir_holds (wfs w) (numbered c 0 (closed ++ [cur_view w wr]) ++ extra).
Proof.
  intros [Q W Hc Hcp Hcl Hex Hon Hfr Hwr] P. split.
  - intros n d Hin. apply in_app_or in Hin. destruct Hin as [Hin|Hin]; [|exact (Hex n d Hin)].
    apply numbered_in in Hin. destruct Hin as [i [Hi [-> ->]]]. cbn [Nat.add].
    rewrite app_length in Hi. cbn [length] in Hi.
    destruct (Nat.eq_dec i (length closed)) as [->|Hne].
    + exists (wino wr). split; [exact Hc|]. split; [exact Hcp|].
      rewrite app_nth2, Nat.sub_diag by lia. cbn [nth]. unfold cur_view. rewrite P, app_nil_r. reflexivity.
    + assert (Hi' : i < length closed) by lia. destruct (Hcl i Hi') as [j [Lj [Pj Cj]]]. exists j.
      split; [exact Lj|]. split; [exact Pj|]. rewrite app_nth1 by assumption. exact Cj.
  - intros n j Hn. rewrite map_app. apply in_or_app. destruct (Hon n j Hn) as [[i [Hi ->]]|Hin]; [left | right; exact Hin].
    apply numbered_names. exists i. rewrite app_length. cbn [length Nat.add]. split; [lia | reflexivity].
Qed.

Lemma stop_reldx c crit extra x closed cur g : numdcfg c crit -> RelDX c crit extra x (closed, cur, g) ->
  dir_holds (wfs (s_w (fst (step x OStop)))) (numbered c 0 (closed ++ [cur]) ++ extra).
Proof.
  intros Hcfg R0. rewrite (step_sync_reldx c crit extra x _ OStop Hcfg R0). destruct R0 as [Ht [Ha R]]. cbn [sync_step].
  destruct R as [wr [roll [Es [I [V [Z RS]]]]]]. rewrite Es. cbn [st_of_d f_poisoned]. unfold drop_state.
  destruct (shutdown_active_dx c (s_w x) wr closed extra roll I Ha) as [w1 [wr1 [E1 [I1 [V1 [P1 A1]]]]]]. fold (st_of_d c (length closed) roll wr). rewrite E1.
  destruct (shutdown_active_dx c w1 wr1 closed extra roll I1 A1) as [w2 [wr2 [E2 [I2 [V2 [P2 A2]]]]]]. rewrite E2.
  cbn [st_of_d f_inner s_w fst]. unfold w_drop.
  destruct (w_flush_quiet w2 wr2 (dx_quiet _ _ _ _ _ I2)) as [w3 [E3 [F3 S3]]]. rewrite E3. cbn [fst snd].
  rewrite P2, append_ino_nil_id in F3. rewrite F3.
  rewrite <- V, <- V1, <- V2. apply numdinvx_dir_holds; assumption.
Qed.

(* ================================================================== 3. reopen_outputfile() *)
(* somebody renames the current file r<L> to a fresh name, then reopen_outputfile(): the renamed file gets the buffered
   tail, a new empty file r<L> exists at the original path, the rotation state is kept: the index is still L, the size count
   still includes the bytes moved away *)
Lemma reopen_moved_step_d c crit x cl cu moved :
  numdcfg c crit -> RelD c crit x (Some (cl, cu)) -> fresh_name_d c moved ->
  exists x2, run x [OExtRename (rname c (length cl)) moved; OReopen] = (x2, [ObsRes 0 false; ObsRes 0 false])
    /\ RelDX c crit [(moved, cu)] x2 (cl, [], length cu).
Proof.
  intros Hcfg R Hm. pose proof Hcfg as [Hrot [Hts [Hlink Hasync]]].
  cbn [run]. rewrite (step_sync_rel_d c crit x _ (OExtRename (rname c (length cl)) moved) Hcfg R).
  destruct R as [Ht [Ha [wr [roll [Es [I [V [Z RS]]]]]]]].
  pose proof I as [Q W Hc Hcp Hcl Hon Hwr Hcap].
  assert (Hfree : lookup (wfs (s_w x)) moved = None).
  { destruct (lookup (wfs (s_w x)) moved) as [j|] eqn:E; [|reflexivity]. exfalso.
    destruct (Hon _ _ E) as [i [_ E1]]. exact (Hm i E1). }
  destruct (rotate_fs_spec (wfs (s_w x)) (rname c (length cl)) moved (wino wr) (wpend wr) (wnow (s_w x)) W
              (fun E => Hm _ (eq_sym E)) Hc Hfree) as [f1 [Er R]].
  cbn zeta in R. destruct R as [L1c [Hino1 [W3 [Hnew [L3c [L3t [L3o [Hlen [Inew [Iold Ioth]]]]]]]]]].
  cbn [sync_step]. rewrite Er.
  set (w1 := set_fs (s_w x) f1).
  set (x1 := {| s_flw := s_flw x; s_w := w1; s_tl := s_tl x; s_dead := s_dead x |}).
  assert (Q1 : quiet w1) by exact Q.
  rewrite (ReopenRot.step_sync_cfg x1 OReopen (st_of_d c (length cl) roll wr) Es Hts Hasync).
  cbn [sync_step x1 s_flw s_w s_tl s_dead]. rewrite Es. cbn [st_of_d f_poisoned].
  unfold reopen_state. cbn [f_inner st_of_d]. rewrite (tick_quiet w1 Q1). cbv beta iota zeta.
  assert (Eopen : open_append (wfs w1) (rname c (length cl)) (wnow w1) = create_file f1 (rname c (length cl)) 0%N (wnow (s_w x))).
  { apply open_append_fresh. exact L1c. }
  destruct (effect_quiet w1 (fun f => fst (open_append f (rname c (length cl)) (wnow w1))) Q1) as [F2 S2].
  set (w2 := effect w1 (fun f => fst (open_append f (rname c (length cl)) (wnow w1)))) in *.
  rewrite Eopen in F2. rewrite Eopen.
  unfold w_drop. destruct (w_flush_quiet w2 wr (proj1 S2)) as [w3 [Efl [F3 S3]]]. rewrite Efl. cbn [fst snd code_of].
  set (new := snd (create_file f1 (rname c (length cl)) 0%N (wnow (s_w x)))) in *.
  set (f3 := append_ino (fst (create_file f1 (rname c (length cl)) 0%N (wnow (s_w x)))) (wino wr) (wpend wr)) in *.
  assert (F3' : wfs w3 = f3) by (rewrite F3, F2; reflexivity).
  set (wr' := {| wino := new; wpend := []; wcap := None |}).
  eexists. split; [reflexivity|].
  pose proof (wf_bound _ W _ _ Hc) as Hold.
  assert (A3 : wacts w3 = 0).
  { apply (same_env_acts w2 w3 S3). apply (same_env_acts w1 w2 S2). exact Ha. }
  split; [exact Ht|]. split; [exact A3|]. exists wr', roll. cbn [s_flw s_w with_inner st_of_d f_cfg f_poisoned].
  split; [reflexivity|]. split.
  { constructor.
    - exact (proj1 S3).
    - rewrite F3'. exact W3.
    - rewrite F3'. exact L3c.
    - rewrite F3'. cbn [wr' wino]. rewrite Inew. split; reflexivity.
    - intros i Hi. rewrite F3'. destruct (Hcl i Hi) as [j [Lj [Pj Cj]]].
      exists j. rewrite L3o; [|intros E; apply rname_inj in E; lia | intros E; exact (Hm i (eq_sym E))].
      split; [exact Lj|].
      assert (Hj1 : j <> new). { pose proof (wf_bound _ W _ _ Lj). rewrite Hnew. lia. }
      assert (Hj2 : j <> wino wr). { intros ->. pose proof (wf_inj _ W _ _ _ Lj Hc) as E. apply rname_inj in E. lia. }
      unfold content. rewrite Ioth by assumption. split; [exact Pj | exact Cj].
    - intros n d [E|[]]. injection E as <- <-. rewrite F3'. exists (wino wr). split; [exact L3t|]. split.
      + rewrite Iold. exact Hcp.
      + unfold content at 1. rewrite Iold. cbn [with_data fdata]. exact V.
    - intros n j Hn. rewrite F3' in Hn.
      destruct (beq_spec n (rname c (length cl))) as [->|Hn1]; [left; exists (length cl); split; [lia | reflexivity]|].
      destruct (beq_spec n moved) as [->|Hn2]; [right; left; reflexivity|].
      rewrite L3o in Hn by assumption. left. exact (Hon _ _ Hn).
    - intros n [<-|[]]. exact Hm.
    - reflexivity. }
  split. { unfold cur_view. rewrite F3'. cbn [wr' wino wpend]. unfold content. rewrite Inew. reflexivity. }
  split. { cbn [length]. rewrite Nat.add_0_r. exact Z. }
  exact RS.
Qed.

(* reopen_outputfile() with the file in place: the same inode is continued, the buffered tail is flushed into it *)
Lemma reopen_inplace_step_d c crit x cl cu :
  numdcfg c crit -> RelD c crit x (Some (cl, cu)) ->
  exists x2, step x OReopen = (x2, ObsRes 0 false) /\ RelDX c crit [] x2 (cl, cu, 0).
Proof.
  intros Hcfg R. pose proof Hcfg as [Hrot [Hts [Hlink Hasync]]].
  rewrite (step_sync_rel_d c crit x _ OReopen Hcfg R).
  destruct R as [Ht [Ha [wr [roll [Es [I [V [Z RS]]]]]]]].
  pose proof (numdinv_x _ _ _ _ I) as IX. pose proof I as [Q W Hc Hcp Hcl Hon Hwr Hcap].
  cbn [sync_step]. rewrite Es. cbn [st_of_d f_poisoned].
  unfold reopen_state. cbn [f_inner st_of_d]. rewrite (tick_quiet _ Q). cbv beta iota zeta.
  assert (Eopen : open_append (wfs (s_w x)) (rname c (length cl)) (wnow (s_w x)) = (wfs (s_w x), wino wr)).
  { unfold open_append. rewrite Hc. reflexivity. }
  destruct (effect_quiet (s_w x) (fun f => fst (open_append f (rname c (length cl)) (wnow (s_w x)))) Q) as [F2 S2].
  set (w2 := effect (s_w x) (fun f => fst (open_append f (rname c (length cl)) (wnow (s_w x))))) in *.
  rewrite Eopen in F2. rewrite Eopen. cbn [fst snd] in F2 |- *.
  pose proof (numdinvx_env c (s_w x) w2 wr cl [] IX F2 (proj1 S2)) as I2.
  unfold w_drop. destruct (w_flush_quiet w2 wr (proj1 S2)) as [w3 [Efl [F3 S3]]]. rewrite Efl. cbn [fst snd code_of].
  set (wr' := {| wino := wino wr; wpend := []; wcap := None |}).
  destruct (numdinvx_append c w2 w3 wr wr' cl [] (wpend wr) I2 F3 S3 eq_refl eq_refl) as [I3 C3].
  eexists. split; [reflexivity|].
  split; [exact Ht|]. split. { apply (same_env_acts w2 w3 S3). apply (same_env_acts _ w2 S2). exact Ha. }
  exists wr', roll. cbn [s_flw s_w with_inner st_of_d f_cfg f_poisoned].
  split; [reflexivity|]. split; [exact I3|].
  split. { unfold cur_view. rewrite C3. cbn [wr' wpend]. rewrite app_nil_r, F2. exact V. }
  split; [exact Z | exact RS].
Qed.

(* before the first record there is no file and no writer: the rename finds nothing, reopen does nothing *)
Lemma reopen_initial_steps_d c crit x a b :
  numdcfg c crit -> RelD c crit x None ->
  exists x2, run x [OExtRename a b; OReopen] = (x2, [ObsRes 0 false; ObsRes 0 false]) /\ RelD c crit x2 None.
Proof.
  intros Hcfg R. cbn [run]. rewrite (step_sync_rel_d c crit x _ (OExtRename a b) Hcfg R).
  cbn [sync_step]. destruct R as [Ht [Ha [Es [Q [Hn Hi]]]]].
  rewrite rename_none by (apply lookup_empty; exact Hn).
  set (x1 := {| s_flw := s_flw x; s_w := set_fs (s_w x) (wfs (s_w x)); s_tl := s_tl x; s_dead := s_dead x |}).
  assert (R1 : RelD c crit x1 None).
  { split; [exact Ht|]. split; [exact Ha|]. split; [exact Es|]. split; [exact Q|]. split; assumption. }
  rewrite (step_sync_rel_d c crit x1 _ OReopen Hcfg R1). cbn [sync_step x1 s_flw]. rewrite Es.
  cbn [new_flw f_poisoned reopen_state f_inner code_of]. eexists. split; [reflexivity|].
  split; [exact Ht|]. split; [exact Ha|]. split; [reflexivity|]. split; [exact Q|]. split; assumption.
Qed.

Lemma reopen_initial_step_d c crit x :
  numdcfg c crit -> RelD c crit x None ->
  exists x2, step x OReopen = (x2, ObsRes 0 false) /\ RelD c crit x2 None.
Proof.
  intros Hcfg R. rewrite (step_sync_rel_d c crit x _ OReopen Hcfg R). cbn [sync_step].
  pose proof R as [Ht [Ha [Es [Q [Hn Hi]]]]]. rewrite Es.
  cbn [new_flw f_poisoned reopen_state f_inner code_of]. eexists. split; [reflexivity|].
  split; [exact Ht|]. split; [exact Ha|]. split; [reflexivity|]. split; [exact Q|]. split; assumption.
Qed.

(* ================================================================== 4. whole histories *)
(* a history from a state of the original invariant, then stop *)
Lemma finish_rel_d c crit x a ops : numdcfg c crit -> RelD c crit x a -> Forall basic_op ops ->
  let a' := a_run a ops (snd (run x ops)) in
  direct_view c (wfs (s_w (fst (run x (ops ++ [OStop]))))) (files_of a')
  /\ flat a' = flat a ++ written ops
  /\ (forall m, crit = CSize m -> a' = s_run m a ops).
Proof.
  intros Hcfg R Hb a'. subst a'. rewrite run_app.
  pose proof (run_rel_d c crit Hcfg ops x a R Hb) as R1. pose proof (run_length ops x) as L.
  assert (Hs : forall m, crit = CSize m -> a_run a ops (snd (run x ops)) = s_run m a ops).
  { intros m ->. exact (proj1 (run_size_d c m Hcfg ops x a R Hb)). }
  destruct (run x ops) as [x1 obs1]. cbn [fst snd] in *.
  pose proof (stop_rel_d c crit x1 _ Hcfg R1) as S. cbn [run]. destruct (step x1 OStop) as [x2 ob2]. cbn [fst].
  split; [apply files_of_direct; exact S|]. split; [apply a_run_flat; assumption | exact Hs].
Qed.

(* the view r00000 .. of a directory without other files, and the list of (name, content) *)
Lemma dir_holds_direct_view c f files : dir_holds f (numbered c 0 files ++ []) -> direct_view c f files.
Proof.
  intros [D1 D2]. split.
  - intros i Hi. apply D1. apply in_or_app. left. apply numbered_in. exists i. split; [exact Hi|]. split; reflexivity.
  - intros n j Hn. specialize (D2 n j Hn). rewrite app_nil_r in D2. apply numbered_names in D2. exact D2.
Qed.

Lemma direct_view_dir_holds c f files : direct_view c f files -> dir_holds f (numbered c 0 files).
Proof.
  intros [A B]. split.
  - intros n d Hin. apply numbered_in in Hin. destruct Hin as [i [Hi [-> ->]]]. exact (A i Hi).
  - intros n j Hn. apply numbered_names. exact (B n j Hn).
Qed.

(* the abstract view at the end of a history whose directory (after a stop) is known *)
Lemma view_of_history c crit t0 off ops1 closed1 cur1 x0 ob0 :
  numdcfg c crit -> Forall basic_op ops1 -> step (sys0 t0 off) (OStart c) = (x0, ob0) ->
  direct_view c (wfs (s_w (fst (run (sys0 t0 off) (OStart c :: ops1 ++ [OStop]))))) (closed1 ++ [cur1]) ->
  a_run None ops1 (snd (run x0 ops1)) = Some (closed1, cur1).
Proof.
  intros Hcfg Hb1 E0 H. cbn [run] in H. rewrite E0 in H.
  pose proof (start_rel_d c crit t0 off) as R0. rewrite E0 in R0. cbn [fst] in R0.
  pose proof (finish_rel_d c crit x0 None ops1 Hcfg R0 Hb1) as [V _].
  destruct (run x0 (ops1 ++ [OStop])) as [x1 obs1]. cbn [fst] in *.
  pose proof (direct_view_unique c _ _ _ V H) as E.
  destruct (a_run None ops1 (snd (run x0 ops1))) as [[cl cu]|]; cbn [files_of] in E.
  - apply app_inj_tail in E. destruct E as [-> ->]. reflexivity.
  - destruct closed1; discriminate.
Qed.

(* ---- the part of the history after the switch ---- *)
Lemma tail_reldx c crit extra x cl cu g ops2 :
  numdcfg c crit -> RelDX c crit extra x (cl, cu, g) -> Forall basic_op ops2 ->
  exists closed2 cur2,
    dir_holds (wfs (s_w (fst (run x (ops2 ++ [OStop]))))) (numbered c 0 (cl ++ closed2 ++ [cur2]) ++ extra)
    /\ concat closed2 ++ cur2 = cu ++ written ops2
    /\ (exists t, closed2 ++ [cur2] = (cu ++ t) :: List.tl (closed2 ++ [cur2]))
    /\ (forall m, crit = CSize m -> cl ++ closed2 ++ [cur2] = x_files (sx_run m (cl, cu, g) ops2)).
Proof.
  intros Hcfg R Hb. rewrite run_app.
  pose proof (run_reldx c crit extra Hcfg ops2 x _ R Hb) as R1. pose proof (run_length ops2 x) as L.
  assert (Hs : forall m, crit = CSize m -> x_run (cl, cu, g) ops2 (snd (run x ops2)) = sx_run m (cl, cu, g) ops2).
  { intros m ->. exact (run_sizedx c m extra Hcfg ops2 x _ R Hb). }
  pose proof (x_run_ext ops2 (cl, cu, g) (snd (run x ops2))) as X.
  pose proof (x_run_flat ops2 (cl, cu, g) (snd (run x ops2)) Hb L) as Fl.
  destruct (run x ops2) as [x1 obs1]. cbn [fst snd] in *.
  destruct (x_run (cl, cu, g) ops2 obs1) as [[cl3 cu3] g3] eqn:Ev.
  pose proof (stop_reldx c crit extra x1 cl3 cu3 g3 Hcfg R1) as S. cbn [run]. destruct (step x1 OStop) as [x2 ob2]. cbn [fst] in *.
  cbn [x_ext x_flat] in X, Fl.
  assert (Ecl : exists closed2, cl3 = cl ++ closed2 /\ exists t, closed2 ++ [cu3] = (cu ++ t) :: List.tl (closed2 ++ [cu3])).
  { destruct X as [[-> [t ->]]|[t [rest ->]]].
    - exists []. rewrite app_nil_r. split; [reflexivity|]. exists t. reflexivity.
    - exists ((cu ++ t) :: rest). split; [reflexivity|]. exists t. reflexivity. }
  destruct Ecl as [closed2 [-> Ht]]. exists closed2, cu3.
  split; [rewrite app_assoc; exact S|]. split.
  - rewrite concat_app, <- !app_assoc in Fl. apply app_inv_head in Fl. exact Fl.
  - split; [exact Ht|]. intros m Hm. rewrite <- (Hs m Hm). cbn [x_files]. rewrite app_assoc. reflexivity.
Qed.

(* ------------------------------------------------------------------ theorem 1: external rename, then reopen *)
(* closed1 ++ [cur1]: the files r00000 .. r<L> that the history ops1 leaves (L = length closed1); the current file is the
   newest one, r<L>.  It is renamed to `moved`, then reopen_outputfile() is called. *)
Theorem reopen_numbersdirect c crit t0 off ops1 ops2 moved closed1 cur1 :
  numdcfg c crit -> Forall basic_op ops1 -> Forall basic_op ops2 -> fresh_name_d c moved ->
  direct_view c (wfs (s_w (fst (run (sys0 t0 off) (OStart c :: ops1 ++ [OStop]))))) (closed1 ++ [cur1]) ->
  let cur := rname c (length closed1) in
  let r := run (sys0 t0 off) (OStart c :: ops1 ++ [OExtRename cur moved; OReopen] ++ ops2 ++ [OStop]) in
  let f := wfs (s_w (fst r)) in
  (* reopen_outputfile() succeeds *)
  nth_error (snd r) (S (S (length ops1))) = Some (ObsRes 0 false)
  /\ concat closed1 ++ cur1 = written ops1
  /\ exists closed2 cur2,
       (* the directory: the closed files of ops1 under their numbers, the files of ops2 under the numbers L, L+1, ..,
          and the renamed file with everything written since the last rotation of ops1 (buffered tail included) *)
       dir_holds f (numbered c 0 (closed1 ++ closed2 ++ [cur2]) ++ [(moved, cur1)])
       (* the first file of ops2 is a new file at the original path: it has the number L again *)
       /\ In (cur, hd [] (closed2 ++ [cur2])) (numbered c 0 (closed1 ++ closed2 ++ [cur2]))
       /\ concat closed2 ++ cur2 = written ops2
       /\ concat (closed1 ++ [cur1] ++ closed2 ++ [cur2]) = written (ops1 ++ ops2).
Proof.
  intros Hcfg Hb1 Hb2 Hm Hv. cbv zeta.
  destruct (step (sys0 t0 off) (OStart c)) as [x0 ob0] eqn:E0.
  pose proof (view_of_history c crit t0 off ops1 closed1 cur1 x0 ob0 Hcfg Hb1 E0 Hv) as Ea.
  cbn [run]. rewrite E0.
  pose proof (start_rel_d c crit t0 off) as R0. rewrite E0 in R0. cbn [fst] in R0.
  rewrite !run_app.
  pose proof (run_rel_d c crit Hcfg ops1 x0 None R0 Hb1) as R1. pose proof (run_length ops1 x0) as L1.
  pose proof (a_run_flat ops1 None (snd (run x0 ops1)) Hb1 L1) as Fl1. cbn [flat app] in Fl1.
  destruct (run x0 ops1) as [x1 obs1]. cbn [fst snd] in *. rewrite Ea in *. cbn [flat] in Fl1.
  destruct (reopen_moved_step_d c crit x1 closed1 cur1 moved Hcfg R1 Hm) as [x2 [E2 R2]].
  rewrite (run_app [OExtRename (rname c (length closed1)) moved; OReopen]). rewrite E2.
  destruct (tail_reldx c crit [(moved, cur1)] x2 closed1 [] (length cur1) ops2 Hcfg R2 Hb2) as [closed2 [cur2 [D [C _]]]].
  destruct (run x2 (ops2 ++ [OStop])) as [x3 obs3]. cbn [fst snd] in *.
  split; [apply nth_error_after; exact L1|]. split; [exact Fl1|].
  exists closed2, cur2. cbn [app] in C.
  split; [exact D|]. split.
  { apply numbered_in. exists (length closed1). split; [rewrite app_length; destruct closed2; cbn [length app]; lia|].
    split; [reflexivity|]. rewrite app_nth2, Nat.sub_diag by lia. destruct closed2; reflexivity. }
  split; [exact C|].
  rewrite ReopenRot.written_app, !concat_app. cbn [concat]. rewrite !app_nil_r, <- Fl1, <- C, <- !app_assoc. reflexivity.
Qed.
Print Assumptions reopen_numbersdirect.

(* size criterion: the size count survives the reopen.  The files r<L>, r<L+1>, .. after the switch are the greedy partition
   of ops2 that starts with cur1 (the content of the renamed file) in the current file - with cur1 taken off the first file,
   because these bytes are in the renamed file *)
Theorem reopen_numbersdirect_partition c m t0 off ops1 ops2 moved closed1 cur1 :
  numdcfg c (CSize m) -> Forall basic_op ops1 -> Forall basic_op ops2 -> fresh_name_d c moved ->
  expected_files m None (items false ops1) = closed1 ++ [cur1] ->
  let r := run (sys0 t0 off) (OStart c :: ops1 ++ [OExtRename (rname c (length closed1)) moved; OReopen] ++ ops2 ++ [OStop]) in
  exists h tl,
    partition m [] cur1 (items true ops2) = (cur1 ++ h) :: tl
    /\ dir_holds (wfs (s_w (fst r))) (numbered c 0 (closed1 ++ h :: tl) ++ [(moved, cur1)]).
Proof.
  intros Hcfg Hb1 Hb2 Hm Hex. cbv zeta.
  pose proof (numbersdirect_partition c m t0 off ops1 Hcfg Hb1) as Hv. rewrite Hex in Hv.
  destruct (step (sys0 t0 off) (OStart c)) as [x0 ob0] eqn:E0.
  pose proof (view_of_history c (CSize m) t0 off ops1 closed1 cur1 x0 ob0 Hcfg Hb1 E0 Hv) as Ea.
  cbn [run]. rewrite E0.
  pose proof (start_rel_d c (CSize m) t0 off) as R0. rewrite E0 in R0. cbn [fst] in R0.
  rewrite !run_app.
  pose proof (run_rel_d c (CSize m) Hcfg ops1 x0 None R0 Hb1) as R1.
  destruct (run x0 ops1) as [x1 obs1]. cbn [fst snd] in *. rewrite Ea in *.
  destruct (reopen_moved_step_d c (CSize m) x1 closed1 cur1 moved Hcfg R1 Hm) as [x2 [E2 R2]].
  rewrite (run_app [OExtRename (rname c (length closed1)) moved; OReopen]). rewrite E2.
  destruct (tail_reldx c (CSize m) [(moved, cur1)] x2 closed1 [] (length cur1) ops2 Hcfg R2 Hb2) as [closed2 [cur2 [D [_ [_ P]]]]].
  destruct (run x2 (ops2 ++ [OStop])) as [x3 obs3]. cbn [fst snd] in *.
  destruct (sx_run_partition m ops2 closed1 [] cur1 Hb2) as [h [tl [P1 P2]]]. rewrite app_nil_r in P1.
  exists h, tl. split; [exact P1|]. rewrite (eq_trans (P m eq_refl) P2) in D. exact D.
Qed.
Print Assumptions reopen_numbersdirect_partition.

(* right after reopen_outputfile() has returned the renamed file holds every record written since the last rotation -
   the buffered tail included -, and there is a new, empty file r<L> at the original path *)
Theorem reopen_numbersdirect_at_once c crit t0 off ops1 moved closed1 cur1 :
  numdcfg c crit -> Forall basic_op ops1 -> fresh_name_d c moved ->
  direct_view c (wfs (s_w (fst (run (sys0 t0 off) (OStart c :: ops1 ++ [OStop]))))) (closed1 ++ [cur1]) ->
  let f := wfs (s_w (fst (run (sys0 t0 off) (OStart c :: ops1 ++ [OExtRename (rname c (length closed1)) moved; OReopen])))) in
  concat closed1 ++ cur1 = written ops1
  /\ dir_holds f (numbered c 0 (closed1 ++ [[]]) ++ [(moved, cur1)]).
Proof.
  intros Hcfg Hb1 Hm Hv. cbv zeta.
  destruct (step (sys0 t0 off) (OStart c)) as [x0 ob0] eqn:E0.
  pose proof (view_of_history c crit t0 off ops1 closed1 cur1 x0 ob0 Hcfg Hb1 E0 Hv) as Ea.
  cbn [run]. rewrite E0.
  pose proof (start_rel_d c crit t0 off) as R0. rewrite E0 in R0. cbn [fst] in R0.
  rewrite run_app.
  pose proof (run_rel_d c crit Hcfg ops1 x0 None R0 Hb1) as R1. pose proof (run_length ops1 x0) as L1.
  pose proof (a_run_flat ops1 None (snd (run x0 ops1)) Hb1 L1) as Fl1. cbn [flat app] in Fl1.
  destruct (run x0 ops1) as [x1 obs1]. cbn [fst snd] in *. rewrite Ea in *. cbn [flat] in Fl1.
  destruct (reopen_moved_step_d c crit x1 closed1 cur1 moved Hcfg R1 Hm) as [x2 [E2 R2]]. rewrite E2. cbn [fst].
  split; [exact Fl1|].
  destruct R2 as [_ [_ [wr [roll [_ [I [V _]]]]]]].
  assert (Hp : wpend wr = []).
  { unfold cur_view in V. destruct (content (wfs (s_w x2)) (wino wr)); [exact V | discriminate]. }
  rewrite <- V. apply numdinvx_dir_holds; assumption.
Qed.
Print Assumptions reopen_numbersdirect_at_once.

(* no record before the switch: there is no file yet (whatever is renamed, nothing is found), reopen does nothing, the
   history ops2 starts with r00000 as from a fresh start *)
Theorem reopen_numbersdirect_initial c crit t0 off ops1 ops2 a b :
  numdcfg c crit -> Forall basic_op ops1 -> Forall basic_op ops2 -> wrote ops1 = false ->
  let r := run (sys0 t0 off) (OStart c :: ops1 ++ [OExtRename a b; OReopen] ++ ops2 ++ [OStop]) in
  nth_error (snd r) (S (S (length ops1))) = Some (ObsRes 0 false)
  /\ exists files, direct_view c (wfs (s_w (fst r))) files /\ concat files = written ops2
       /\ (forall m, crit = CSize m -> files = expected_files m None (items false ops2)).
Proof.
  intros Hcfg Hb1 Hb2 Hw1. cbv zeta. cbn [run]. destruct (step (sys0 t0 off) (OStart c)) as [x0 ob0] eqn:E0.
  pose proof (start_rel_d c crit t0 off) as R0. rewrite E0 in R0. cbn [fst] in R0.
  rewrite !run_app.
  pose proof (run_rel_d c crit Hcfg ops1 x0 None R0 Hb1) as R1. pose proof (run_length ops1 x0) as L1.
  pose proof (a_run_none_wrote ops1 (snd (run x0 ops1)) L1) as Hw. rewrite Hw1 in Hw.
  destruct (run x0 ops1) as [x1 obs1]. cbn [fst snd] in *. rewrite Hw in R1.
  destruct (reopen_initial_steps_d c crit x1 a b Hcfg R1) as [x2 [E2 R2]].
  rewrite (run_app [OExtRename a b; OReopen]). rewrite E2.
  pose proof (finish_rel_d c crit x2 None ops2 Hcfg R2 Hb2) as [Rd [Fl Sz]].
  destruct (run x2 (ops2 ++ [OStop])) as [x3 obs3]. cbn [fst snd] in *.
  split; [apply nth_error_after; exact L1|].
  eexists. split; [exact Rd|]. split; [rewrite files_of_concat; exact Fl|].
  intros m Hm. rewrite (Sz m Hm). apply s_run_none. exact Hb2.
Qed.
Print Assumptions reopen_numbersdirect_initial.

(* ------------------------------------------------------------------ theorem 2: reopen with the file in place *)
(* nothing is lost, nothing is truncated: the closed files of ops1 stay, the current file of ops1 is continued (cur1 is a
   prefix of the file that follows the closed files of ops1), the family holds exactly the stream *)
Theorem reopen_numbersdirect_in_place c crit t0 off ops1 ops2 :
  numdcfg c crit -> Forall basic_op ops1 -> Forall basic_op ops2 ->
  let r := run (sys0 t0 off) (OStart c :: ops1 ++ [OReopen] ++ ops2 ++ [OStop]) in
  let f := wfs (s_w (fst r)) in
  nth_error (snd r) (S (length ops1)) = Some (ObsRes 0 false)
  /\ exists files1 files,
       direct_view c (wfs (s_w (fst (run (sys0 t0 off) (OStart c :: ops1 ++ [OStop]))))) files1
       /\ concat files1 = written ops1
       /\ direct_view c f files /\ concat files = written (ops1 ++ ops2)
       /\ (forall closed1 cur1, files1 = closed1 ++ [cur1] -> exists t rest, files = closed1 ++ (cur1 ++ t) :: rest)
       (* size criterion: exactly the files of the history without the reopen (numbersdirect_partition) *)
       /\ (forall m, crit = CSize m -> files = expected_files m None (items false (ops1 ++ ops2))).
Proof.
  intros Hcfg Hb1 Hb2. cbv zeta. cbn [run]. destruct (step (sys0 t0 off) (OStart c)) as [x0 ob0] eqn:E0.
  pose proof (start_rel_d c crit t0 off) as R0. rewrite E0 in R0. cbn [fst] in R0.
  rewrite !run_app.
  pose proof (run_rel_d c crit Hcfg ops1 x0 None R0 Hb1) as R1. pose proof (run_length ops1 x0) as L1.
  pose proof (a_run_flat ops1 None (snd (run x0 ops1)) Hb1 L1) as Fl1. cbn [flat app] in Fl1.
  destruct (run x0 ops1) as [x1 obs1] eqn:E1. cbn [fst snd] in *.
  pose proof (stop_rel_d c crit x1 _ Hcfg R1) as S1. cbn [run] in S1 |- *.
  assert (Hex : forall m, crit = CSize m -> forall a, a_run None ops1 obs1 = a -> forall fl,
            fl = files_of (s_run m a ops2) -> fl = expected_files m None (items false (ops1 ++ ops2))).
  { intros m Hm a Ea fl ->. subst crit. rewrite <- s_run_none by (apply Forall_app; split; assumption).
    rewrite s_run_app. pose proof (proj1 (run_size_d c m Hcfg ops1 x0 None R0 Hb1)) as Sz.
    rewrite E1 in Sz. cbn [snd] in Sz. rewrite <- Sz, Ea. reflexivity. }
  assert (Hnth : forall (a : obs) rest, nth_error (obs1 ++ a :: rest) (length ops1) = Some a).
  { intros a rest. rewrite nth_error_app2 by lia. rewrite L1, Nat.sub_diag. reflexivity. }
  destruct (a_run None ops1 obs1) as [[cl cu]|] eqn:Ea.
  - destruct (reopen_inplace_step_d c crit x1 cl cu Hcfg R1) as [x2 [E2 R2]].
    assert (E2' : run x1 [OReopen] = (x2, [ObsRes 0 false])) by (cbn [run]; rewrite E2; reflexivity).
    rewrite (run_app [OReopen]), E2'.
    destruct (tail_reldx c crit [] x2 cl cu 0 ops2 Hcfg R2 Hb2) as [closed2 [cur2 [D [C [[t Ht] P]]]]].
    destruct (run x2 (ops2 ++ [OStop])) as [x3 obs3]. cbn [fst snd] in *.
    split; [apply Hnth|].
    destruct (step x1 OStop) as [x1s ob1s]. cbn [fst].
    exists (cl ++ [cu]), (cl ++ closed2 ++ [cur2]).
    split; [exact S1|].
    split. { rewrite concat_app. cbn [concat]. rewrite app_nil_r. exact Fl1. }
    split; [apply dir_holds_direct_view; exact D|].
    split.
    { rewrite ReopenRot.written_app, !concat_app. cbn [concat]. rewrite app_nil_r, <- Fl1. cbn [flat]. rewrite <- app_assoc, <- C. reflexivity. }
    split.
    { intros closed1 cur1 E. apply app_inj_tail in E. destruct E as [<- <-].
      rewrite Ht. exists t, (List.tl (closed2 ++ [cur2])). reflexivity. }
    intros m Hm. apply (Hex m Hm _ eq_refl). rewrite (P m Hm). apply sx_run_files. exact Hb2.
  - destruct (reopen_initial_step_d c crit x1 Hcfg R1) as [x2 [E2 R2]].
    assert (E2' : run x1 [OReopen] = (x2, [ObsRes 0 false])) by (cbn [run]; rewrite E2; reflexivity).
    rewrite (run_app [OReopen]), E2'.
    pose proof (finish_rel_d c crit x2 None ops2 Hcfg R2 Hb2) as [Rd [Fl Sz2]].
    destruct (run x2 (ops2 ++ [OStop])) as [x3 obs3]. cbn [fst snd] in *.
    split; [apply Hnth|].
    destruct (step x1 OStop) as [x1s ob1s]. cbn [fst].
    exists [], (files_of (a_run None ops2 (snd (run x2 ops2)))).
    split; [apply (direct_view_nil c); exact S1|]. split; [exact Fl1|]. split; [exact Rd|].
    split. { rewrite files_of_concat, Fl, ReopenRot.written_app, <- Fl1. reflexivity. }
    split; [intros closed1 cur1 E; destruct closed1; discriminate|].
    intros m Hm. apply (Hex m Hm _ eq_refl). rewrite (Sz2 m Hm). reflexivity.
Qed.
Print Assumptions reopen_numbersdirect_in_place.

(* ================================================================== 5. reset(builder) to another NumbersDirect family *)
(* the names of the family of c are not members of the family of c2 (the family test of the model, numd_member) *)
Definition foreign_family_d (c c2 : config) : Prop := forall i, numd_member c2 (rname c i) = false.

(* reset: the old writer is dropped - its buffered tail reaches the old current file -, a new writer is installed *)
Lemma reset_step_d c crit c2 crit2 x a :
  numdcfg c crit -> numdcfg c2 crit2 -> c_cap c2 = c_cap c -> RelD c crit x a ->
  exists x2, step x (OReset c2) = (x2, ObsRes 0 false)
    /\ s_flw x2 = Some (new_flw c2) /\ s_tl x2 = [] /\ wacts (s_w x2) = 0 /\ quiet (s_w x2)
    /\ fs_wf (wfs (s_w x2)) /\ direct_view c (wfs (s_w x2)) (files_of a).
Proof.
  intros Hcfg Hcfg2 Hcap R. rewrite (step_sync_rel_d c crit x _ (OReset c2) Hcfg R). cbn [sync_step].
  destruct Hcfg as [_ [_ [_ Has]]]. destruct Hcfg2 as [_ [_ [_ Has2]]].
  destruct R as [Ht [Ha R]]. destruct a as [[cl cu]|].
  - destruct R as [wr [roll [Es [I [V [Z RS]]]]]]. rewrite Es. cbn [st_of_d f_poisoned f_cfg f_inner].
    rewrite Hcap, cap_eqb_refl, Has, Has2. cbn [Bool.eqb andb negb]. unfold drain_acts, w_drop.
    destruct (w_flush_quiet (s_w x) wr (nd_quiet _ _ _ _ I)) as [w1 [E [F S]]]. rewrite E. cbn [fst snd].
    set (wr' := {| wino := wino wr; wpend := []; wcap := wcap wr |}).
    assert (Hok : wr_ok wr') by (unfold wr_ok, wr'; cbn; destruct (wcap wr); [lia | reflexivity]).
    destruct (numdinv_append c (s_w x) w1 wr wr' cl (wpend wr) I F S eq_refl eq_refl Hok) as [I1 C1].
    eexists. split; [reflexivity|]. cbn [s_flw s_tl s_w].
    split; [reflexivity|]. split; [exact Ht|]. split; [exact (same_env_acts _ _ S Ha)|]. split; [exact (proj1 S)|].
    split; [exact (nd_wf _ _ _ _ I1)|].
    cbn [files_of]. replace cu with (cur_view w1 wr').
    + apply numdinv_direct_view; [exact I1 | reflexivity].
    + unfold cur_view. cbn [wr' wino wpend] in C1 |- *. rewrite C1, app_nil_r. exact V.
  - destruct R as [Es [Q [Hn Hi]]]. rewrite Es. cbn [new_flw f_poisoned f_cfg f_inner].
    rewrite Hcap, cap_eqb_refl, Has, Has2. cbn [Bool.eqb andb negb]. unfold drain_acts.
    eexists. split; [reflexivity|]. cbn [s_flw s_tl s_w].
    split; [reflexivity|]. split; [exact Ht|]. split; [exact Ha|]. split; [exact Q|].
    split; [|apply (direct_view_nil c); exact Hn].
    split; intros n; intros; rewrite (lookup_empty _ n Hn) in *; discriminate.
Qed.

(* the history of the new writer in a directory that holds the old family: the embedding of its history in an empty one *)
Lemma run_stop_embed_d fn fi c2 crit2 x ops :
  numdcfg c2 crit2 -> (forall n, In n (fnames fn) -> numd_member c2 n = false) -> RelD c2 crit2 x None -> Forall basic_op ops ->
  fst (run (embedx fn fi x) (ops ++ [OStop])) = embedx fn fi (fst (run x (ops ++ [OStop]))).
Proof.
  intros Hcfg Hfor R Hb. pose proof Hcfg as [Hrot [Hts [Hlink Hasync]]].
  assert (Hg : forall y s, good_sys_d c2 y -> s_flw y = Some s -> f_cfg s = c2 /\ f_poisoned s = false).
  { intros y s G Es. destruct (G s Es) as [Ec [Hp _]]. split; assumption. }
  pose proof (fun y s b (G : good_sys_d c2 y) (Es : s_flw y = Some s) =>
                write_buffer_embed_d fn fi c2 crit2 Hrot Hts Hlink Hfor s (s_w y) b (G s Es)) as HW.
  pose proof (fun y s (G : good_sys_d c2 y) (Es : s_flw y = Some s) =>
                mount_next_embed_d fn fi c2 Hts Hlink Hfor (s_w y) (f_inner s) true (proj2 (proj2 (G s Es)))) as HM.
  assert (F : forall i, fam_g fn (good_sys_d c2) (fst (run x (firstn i ops)))).
  { intros i. eapply reld_fam; [exact Hfor|]. apply (run_rel_d c2 crit2 Hcfg (firstn i ops) x None R). apply Forall_firstn'. exact Hb. }
  rewrite !run_app.
  pose proof (run_embed_g fn fi c2 (good_sys_d c2) Hts Hasync Hg HW HM ops x F Hb) as [E1 _].
  pose proof (F (length ops)) as [G1 _]. rewrite firstn_all in G1.
  destruct (run (embedx fn fi x) ops) as [xf1 obsf1]. destruct (run x ops) as [x1 obs1]. cbn [fst snd] in *. subst xf1.
  cbn [run]. pose proof (step_embed_g fn fi c2 (good_sys_d c2) Hts Hasync Hg HW HM x1 OStop G1 Logic.I) as ES.
  destruct (step (embedx fn fi x1) OStop) as [xf2 obf2]. destruct (step x1 OStop) as [x2 ob2]. cbn [fst snd] in *.
  injection ES as -> _. reflexivity.
Qed.

(* ------------------------------------------------------------------ theorem 3 *)
Theorem reset_numbersdirect c crit c2 crit2 t0 off ops1 ops2 :
  numdcfg c crit -> numdcfg c2 crit2 -> c_cap c2 = c_cap c -> foreign_family_d c c2 ->
  Forall basic_op ops1 -> Forall basic_op ops2 ->
  let r := run (sys0 t0 off) (OStart c :: ops1 ++ [OReset c2] ++ ops2 ++ [OStop]) in
  (* the reset is accepted *)
  nth_error (snd r) (S (length ops1)) = Some (ObsRes 0 false)
  /\ exists files1 files2,
       (* files1: the family of c as the history ops1 alone leaves it (the buffered tail has reached its current file) *)
       direct_view c (wfs (s_w (fst (run (sys0 t0 off) (OStart c :: ops1 ++ [OStop]))))) files1
       /\ concat files1 = written ops1
       (* files2: the family of c2, as numbersdirect_stream / numbersdirect_partition describe it for a fresh start *)
       /\ concat files2 = written ops2
       /\ (forall m, crit = CSize m -> files1 = expected_files m None (items false ops1))
       /\ (forall m2, crit2 = CSize m2 -> files2 = expected_files m2 None (items false ops2))
       (* the directory: both families - the old one untouched, the new one starting with its r00000 -, nothing else *)
       /\ dir_holds (wfs (s_w (fst r))) (numbered c 0 files1 ++ numbered c2 0 files2).
Proof.
  intros Hcfg Hcfg2 Hcap Hf Hb1 Hb2. cbv zeta. cbn [run]. destruct (step (sys0 t0 off) (OStart c)) as [x0 ob0] eqn:E0.
  pose proof (start_rel_d c crit t0 off) as R0. rewrite E0 in R0. cbn [fst] in R0.
  rewrite !run_app.
  pose proof (run_rel_d c crit Hcfg ops1 x0 None R0 Hb1) as R1. pose proof (run_length ops1 x0) as L1.
  pose proof (a_run_flat ops1 None (snd (run x0 ops1)) Hb1 L1) as Fl1. cbn [flat app] in Fl1.
  assert (Sz : forall m, crit = CSize m -> a_run None ops1 (snd (run x0 ops1)) = s_run m None ops1).
  { intros m ->. exact (proj1 (run_size_d c m Hcfg ops1 x0 None R0 Hb1)). }
  destruct (run x0 ops1) as [x1 obs1]. cbn [fst snd] in *.
  pose proof (stop_rel_d c crit x1 _ Hcfg R1) as S1. cbn [run] in S1 |- *.
  set (a1 := a_run None ops1 obs1) in *.
  destruct (reset_step_d c crit c2 crit2 x1 a1 Hcfg Hcfg2 Hcap R1) as [x2 [E2 [Es2 [Ht2 [Ha2 [Q2 [W2 Rd2]]]]]]].
  assert (E2' : run x1 [OReset c2] = (x2, [ObsRes 0 false])) by (cbn [run]; rewrite E2; reflexivity).
  rewrite (run_app [OReset c2]), E2'.
  (* the system after the reset is the embedding of a fresh one *)
  set (fn := names (wfs (s_w x2))). set (fi := inodes (wfs (s_w x2))).
  set (x2' := {| s_flw := Some (new_flw c2); s_w := set_fs (s_w x2) empty_fs; s_tl := s_tl x2; s_dead := s_dead x2 |}).
  assert (Eemb : x2 = embedx fn fi x2').
  { unfold embedx, x2'. cbn [s_flw s_w s_tl s_dead]. unfold embedw. cbn [set_fs wfs wnow woff wfaults wkill werrs wlink wacts].
    rewrite stock_embed. unfold fn, fi. rewrite stock_eta. destruct x2 as [fl w tl dd]. cbn [s_flw s_w s_tl s_dead] in *.
    rewrite Es2. destruct w. reflexivity. }
  assert (R2 : RelD c2 crit2 x2' None).
  { split; [exact Ht2|]. split; [exact Ha2|]. split; [reflexivity|]. split; [exact Q2|]. split; reflexivity. }
  pose proof (direct_view_dir_holds c _ _ Rd2) as D0.
  assert (Hfor : forall n, In n (fnames fn) -> numd_member c2 n = false).
  { intros n Hn. change (fnames fn) with (dir_names (wfs (s_w x2))) in Hn. apply dir_names_lookup in Hn. destruct Hn as [j Hj].
    apply (proj2 D0) in Hj. apply numbered_names in Hj. destruct Hj as [i [_ ->]]. apply Hf. }
  pose proof (run_stop_embed_d fn fi c2 crit2 x2' ops2 Hcfg2 Hfor R2 Hb2) as Eend. rewrite <- Eemb in Eend.
  pose proof (finish_rel_d c2 crit2 x2' None ops2 Hcfg2 R2 Hb2) as [Rd [Fl Sz2]].
  destruct (run x2 (ops2 ++ [OStop])) as [x3 obs3]. cbn [fst snd] in *.
  assert (Hnth : forall (a : obs) rest, nth_error (obs1 ++ a :: rest) (length ops1) = Some a).
  { intros a rest. rewrite nth_error_app2 by lia. rewrite L1, Nat.sub_diag. reflexivity. }
  split; [apply Hnth|].
  destruct (step x1 OStop) as [x1s ob1s]. cbn [fst].
  exists (files_of a1), (files_of (a_run None ops2 (snd (run x2' ops2)))).
  split; [apply files_of_direct; exact S1|]. split; [rewrite files_of_concat; exact Fl1|].
  split; [rewrite files_of_concat; exact Fl|].
  split; [intros m Hm; rewrite (Sz m Hm); apply s_run_none; exact Hb1|].
  split; [intros m Hm; rewrite (Sz2 m Hm); apply s_run_none; exact Hb2|].
  rewrite Eend. cbn [embedx s_w]. unfold embedw. cbn [set_fs wfs].
  apply dir_holds_embed.
  - unfold fn, fi. rewrite stock_eta. exact W2.
  - unfold fn, fi. rewrite stock_eta. exact D0.
  - apply direct_view_dir_holds. exact Rd.
  - intros n Hn Hn'. apply numbered_names in Hn. apply numbered_names in Hn'.
    destruct Hn as [i [_ ->]]. destruct Hn' as [i' [_ E]]. cbn [Nat.add] in E.
    pose proof (Hf i) as M. rewrite E, memberd_rname in M. discriminate.
Qed.
Print Assumptions reset_numbersdirect.

(* a simple sufficient condition: the fixed name parts (basename [_discriminant]) differ, neither is a prefix of the other *)
Lemma foreign_family_d_prefix c c2 :
  is_prefix (fixed0 c) (fixed0 c2) = false -> is_prefix (fixed0 c2) (fixed0 c) = false -> foreign_family_d c c2.
Proof.
  intros H1 H2 i. apply foreign_no_prefix_d. rewrite rname_shape.
  unfold under. destruct (fixed0 c) as [|f0 fr] eqn:E; [discriminate|]. rewrite <- app_assoc. apply not_prefix_app; assumption.
Qed.

Corollary reset_numbersdirect_prefix c crit c2 crit2 t0 off ops1 ops2 :
  numdcfg c crit -> numdcfg c2 crit2 -> c_cap c2 = c_cap c ->
  is_prefix (fixed0 c) (fixed0 c2) = false -> is_prefix (fixed0 c2) (fixed0 c) = false ->
  Forall basic_op ops1 -> Forall basic_op ops2 ->
  let r := run (sys0 t0 off) (OStart c :: ops1 ++ [OReset c2] ++ ops2 ++ [OStop]) in
  exists files1 files2,
    concat files1 = written ops1 /\ concat files2 = written ops2
    /\ dir_holds (wfs (s_w (fst r))) (numbered c 0 files1 ++ numbered c2 0 files2).
Proof.
  intros Hcfg Hcfg2 Hcap H1 H2 Hb1 Hb2.
  destruct (reset_numbersdirect c crit c2 crit2 t0 off ops1 ops2 Hcfg Hcfg2 Hcap (foreign_family_d_prefix c c2 H1 H2) Hb1 Hb2)
    as [_ [files1 [files2 [_ [C1 [C2 [_ [_ D]]]]]]]].
  exists files1, files2. auto.
Qed.
Print Assumptions reset_numbersdirect_prefix.

(* ================================================================== 6. examples (non-vacuity) and findings *)
Require FL.Flw.ReopenFacts.
Import String.StringSyntax.
Open Scope string_scope.

Definition exd_cfg (base : String.string) (cap : option nat) (app : bool) : config :=
  {| c_spec := {| fbase := bs base; fdisc := None; fts := false; fsfx := Some (bs "log") |};
     c_append := app; c_cap := cap; c_rot := Some (CSize 3, NNumbersDirect, KNever); c_utc := false;
     c_symlink := false; c_bg := false; c_async := false; c_start := None |}.

Definition exd_a := exd_cfg "a" (Some 8) false.        (* a_r00000.log, a_r00001.log, ..; limit 3 bytes, BufWriter of 8 bytes *)
Definition exd_aa := exd_cfg "a" (Some 8) true.        (* the same family, append *)
Definition exd_b := exd_cfg "b" (Some 8) true.         (* another family, the same write mode *)
(* the histories of ReopenRot.v: ex_ops1 = "abcd" | "ef" flush "gh" (in the buffer);  ex_ops2 = "ij" "kl" tick "mnop" snap "q" *)

Lemma exd_fresh_old : fresh_name_d exd_a ex_moved.
Proof.
  intros i E. rewrite rname_shape in E.
  apply (f_equal (fun s => nth 1 s 0%N)) in E. vm_compute in E. discriminate.
Qed.

Example exd_hyps :
  numdcfg exd_a (CSize 3) /\ numdcfg exd_b (CSize 3) /\ Forall basic_op ex_ops1 /\ Forall basic_op ex_ops2
  /\ fresh_name_d exd_a ex_moved /\ c_cap exd_b = c_cap exd_a
  /\ is_prefix (fixed0 exd_a) (fixed0 exd_b) = false /\ is_prefix (fixed0 exd_b) (fixed0 exd_a) = false
  /\ expected_files 3 None (items false ex_ops1) = [bs "abcd"] ++ [bs "efgh"].
Proof.
  split; [repeat split|]. split; [repeat split|]. split; [repeat constructor|]. split; [repeat constructor|].
  split; [exact exd_fresh_old|]. repeat split.
Qed.

(* the history ops1 leaves a_r00000.log = "abcd", a_r00001.log = "efgh": the current file is a_r00001.log *)
Lemma exd_view1 :
  direct_view exd_a (wfs (s_w (fst (run (sys0 0 0) (OStart exd_a :: ex_ops1 ++ [OStop]))))) ([bs "abcd"] ++ [bs "efgh"]).
Proof.
  destruct exd_hyps as (Hc & _ & H1 & _ & _ & _ & _ & _ & E). rewrite <- E. exact (numbersdirect_partition exd_a 3 0 0 ex_ops1 Hc H1).
Qed.

(* ---- theorem 1 on a history ---- *)
(* at the rename "efgh" is partly on disk ("ef" was flushed), partly in the buffer ("gh"); reopen succeeds; the new file
   at the original path has the same number 1; the next rotation opens number 2 *)
Example exd_reopen_computed :
  ex_dir (OStart exd_a :: ex_ops1)
  = [(bs "a_r00000.log", bs "abcd"); (bs "a_r00001.log", bs "ef")]
  /\ ex_dir (OStart exd_a :: ex_ops1 ++ [OExtRename (rname exd_a 1) ex_moved])
  = [(bs "a.old", bs "ef"); (bs "a_r00000.log", bs "abcd")]
  /\ ex_dir (OStart exd_a :: ex_ops1 ++ [OExtRename (rname exd_a 1) ex_moved; OReopen])
  = [(bs "a.old", bs "efgh"); (bs "a_r00000.log", bs "abcd"); (bs "a_r00001.log", [])]
  /\ ex_dir (OStart exd_a :: ex_ops1 ++ [OExtRename (rname exd_a 1) ex_moved; OReopen] ++ ex_ops2 ++ [OStop])
  = [(bs "a.old", bs "efgh"); (bs "a_r00000.log", bs "abcd"); (bs "a_r00001.log", []); (bs "a_r00002.log", bs "ijkl");
     (bs "a_r00003.log", bs "mnop"); (bs "a_r00004.log", bs "q")]
  /\ nth_error (snd (run (sys0 0 0) (OStart exd_a :: ex_ops1 ++ [OExtRename (rname exd_a 1) ex_moved; OReopen] ++ ex_ops2 ++ [OStop])))
               (S (S (length ex_ops1))) = Some (ObsRes 0 false)
  /\ written ex_ops1 = bs "abcdefgh" /\ written ex_ops2 = bs "ijklmnopq".
Proof. repeat (split; [vm_compute; reflexivity|]); vm_compute; reflexivity. Qed.

(* ... what the theorem says about it *)
Example exd_reopen_thm :
  exists closed2 cur2,
    concat closed2 ++ cur2 = written ex_ops2
    /\ dir_holds (wfs (s_w (fst (run (sys0 0 0) (OStart exd_a :: ex_ops1 ++ [OExtRename (rname exd_a 1) ex_moved; OReopen] ++ ex_ops2 ++ [OStop])))))
         (numbered exd_a 0 ([bs "abcd"] ++ closed2 ++ [cur2]) ++ [(ex_moved, bs "efgh")])
    /\ In (rname exd_a 1, hd [] (closed2 ++ [cur2])) (numbered exd_a 0 ([bs "abcd"] ++ closed2 ++ [cur2])).
Proof.
  destruct exd_hyps as (Hc & _ & H1 & H2 & Hm & _).
  pose proof (reopen_numbersdirect exd_a (CSize 3) 0 0 ex_ops1 ex_ops2 ex_moved [bs "abcd"] (bs "efgh") Hc H1 H2 Hm exd_view1) as [_ [_ T]].
  destruct T as (closed2 & cur2 & D & P & C2 & _).
  exists closed2, cur2. auto.
Qed.

(* the size rule: the renamed file holds "efgh"; the greedy partition of ops2 that starts with "efgh" in the current file is
   efgh | ijkl | mnop | q ; with "efgh" taken off:  "" | ijkl | mnop | q : these are the files number 1, 2, 3, 4 *)
Example exd_reopen_partition_thm :
  dir_holds (wfs (s_w (fst (run (sys0 0 0) (OStart exd_a :: ex_ops1 ++ [OExtRename (rname exd_a 1) ex_moved; OReopen] ++ ex_ops2 ++ [OStop])))))
    (numbered exd_a 0 [bs "abcd"; []; bs "ijkl"; bs "mnop"; bs "q"] ++ [(ex_moved, bs "efgh")]).
Proof.
  destruct exd_hyps as (Hc & _ & H1 & H2 & Hm & _ & _ & _ & E).
  destruct (reopen_numbersdirect_partition exd_a 3 0 0 ex_ops1 ex_ops2 ex_moved [bs "abcd"] (bs "efgh") Hc H1 H2 Hm E) as [h [tl [P D]]].
  assert (E2 : partition 3 [] (bs "efgh") (items true ex_ops2) = (bs "efgh" ++ []) :: [bs "ijkl"; bs "mnop"; bs "q"])
    by (vm_compute; reflexivity).
  rewrite E2 in P. injection P as Ph Pt. subst h tl. exact D.
Qed.

(* right after the reopen *)
Example exd_reopen_at_once_thm :
  dir_holds (wfs (s_w (fst (run (sys0 0 0) (OStart exd_a :: ex_ops1 ++ [OExtRename (rname exd_a 1) ex_moved; OReopen])))))
    (numbered exd_a 0 [bs "abcd"; []] ++ [(ex_moved, bs "efgh")]).
Proof.
  destruct exd_hyps as (Hc & _ & H1 & _ & Hm & _).
  exact (proj2 (reopen_numbersdirect_at_once exd_a (CSize 3) 0 0 ex_ops1 ex_moved [bs "abcd"] (bs "efgh") Hc H1 Hm exd_view1)).
Qed.

(* FINDING 1: the size count is not reset by reopen_outputfile().  The file that was moved away was over the limit, so
   the first record after the reopen rotates at once: the new file a_r00001.log at the original path stays EMPTY for good.
   The files of ops2 are therefore NOT the greedy partition started afresh. *)
Example exd_reopen_empty_file :
  ReopenFacts.assoc (bs "a_r00001.log")
    (ex_dir (OStart exd_a :: ex_ops1 ++ [OExtRename (rname exd_a 1) ex_moved; OReopen] ++ ex_ops2 ++ [OStop])) = Some []
  /\ expected_files 3 None (items false ex_ops2) = [bs "ijkl"; bs "mnop"; bs "q"].
Proof. repeat (split; [vm_compute; reflexivity|]); vm_compute; reflexivity. Qed.

(* the same effect without an empty file: "ef" (2 bytes) is moved away, the count goes on at 2: "gh" alone fills the new
   a_r00001.log, whereas a fresh writer would put "ghij" into one file *)
Example exd_reopen_not_afresh :
  ex_dir (OStart exd_a :: ex_ops1' ++ [OExtRename (rname exd_a 1) ex_moved; OReopen] ++ ex_ops2' ++ [OStop])
  = [(bs "a.old", bs "ef"); (bs "a_r00000.log", bs "abcd"); (bs "a_r00001.log", bs "gh"); (bs "a_r00002.log", bs "ijk")]
  /\ ex_dir (OStart exd_a :: ex_ops2' ++ [OStop]) = [(bs "a_r00000.log", bs "ghij"); (bs "a_r00001.log", bs "k")]
  /\ partition 3 [] (bs "ef") (items true ex_ops2') = [bs "ef" ++ bs "gh"; bs "ijk"].
Proof. repeat (split; [vm_compute; reflexivity|]); vm_compute; reflexivity. Qed.

(* FINDING 2: the state after the reopen: the same index 1, the same path a_r00001.log, size count 4 (the bytes of a.old),
   an unbuffered writer.  The number 1 has now named two different files over time: the one that is a.old now, and the new
   one.  In the directory no name is used twice and no number is skipped. *)
Example exd_reopen_state :
  match s_flw (ReopenFacts.end_of (OStart exd_a :: ex_ops1 ++ [OExtRename (rname exd_a 1) ex_moved; OReopen])) with
  | Some s => match f_inner s with
              | Active (Some rs) wr path =>
                (rs_naming rs, rs_roll rs, wcap wr, wpend wr, path) = (NSNumD 1, RSize 3 4, None, [], bs "a_r00001.log")
              | _ => False end
  | None => False end.
Proof. vm_compute. reflexivity. Qed.

(* FINDING 3: the hypothesis fresh_name_d is needed, and its failure loses or misplaces records.
   (a) Somebody renames the current file a_r00001.log to the NEXT numbered name a_r00002.log, then reopen_outputfile().
       Without append the next rotation opens a_r00002.log with truncation: the records "efgh" are gone; no error is
       reported, every call returned Ok.
   (b) With append the rotation continues the file: "efgh" ++ "ijkl" - nothing is lost, and in number order the files
       still read as the stream.
   (c) With append, renamed two numbers ahead (a_r00003.log): the file is continued by the rotation after the next:
       in number order the files read abcd | "" | ijkl | efgh mnop | q - the records "efgh" are MISPLACED behind "ijkl".
   (d) Renamed to a far number (a_r00007.log): untouched by this writer, but it reads as the newest file of the family
       (and a restarted writer would continue there). *)
Example exd_reopen_family_name_loses_records :
  ex_dir (OStart exd_a :: ex_ops1 ++ [OExtRename (rname exd_a 1) (rname exd_a 2); OReopen])
  = [(bs "a_r00000.log", bs "abcd"); (bs "a_r00001.log", []); (bs "a_r00002.log", bs "efgh")]
  /\ ex_dir (OStart exd_a :: ex_ops1 ++ [OExtRename (rname exd_a 1) (rname exd_a 2); OReopen] ++ ex_ops2 ++ [OStop])
  = [(bs "a_r00000.log", bs "abcd"); (bs "a_r00001.log", []); (bs "a_r00002.log", bs "ijkl"); (bs "a_r00003.log", bs "mnop");
     (bs "a_r00004.log", bs "q")]
  /\ werrs (s_w (ReopenFacts.end_of (OStart exd_a :: ex_ops1 ++ [OExtRename (rname exd_a 1) (rname exd_a 2); OReopen] ++ ex_ops2 ++ [OStop]))) = []
  /\ List.map (fun ob => match ob with ObsRes code _ => code | _ => 0%N end)
       (snd (run (sys0 0 0) (OStart exd_a :: ex_ops1 ++ [OExtRename (rname exd_a 1) (rname exd_a 2); OReopen] ++ ex_ops2 ++ [OStop])))
     = List.repeat 0%N 14.
Proof. repeat (split; [vm_compute; reflexivity|]); vm_compute; reflexivity. Qed.

Example exd_reopen_family_name_append :
  ex_dir (OStart exd_aa :: ex_ops1 ++ [OExtRename (rname exd_aa 1) (rname exd_aa 2); OReopen] ++ ex_ops2 ++ [OStop])
  = [(bs "a_r00000.log", bs "abcd"); (bs "a_r00001.log", []); (bs "a_r00002.log", bs "efghijkl"); (bs "a_r00003.log", bs "mnop");
     (bs "a_r00004.log", bs "q")]
  /\ ex_dir (OStart exd_aa :: ex_ops1 ++ [OExtRename (rname exd_aa 1) (rname exd_aa 3); OReopen] ++ ex_ops2 ++ [OStop])
  = [(bs "a_r00000.log", bs "abcd"); (bs "a_r00001.log", []); (bs "a_r00002.log", bs "ijkl"); (bs "a_r00003.log", bs "efghmnop");
     (bs "a_r00004.log", bs "q")]
  /\ ex_dir (OStart exd_a :: ex_ops1 ++ [OExtRename (rname exd_a 1) (rname exd_a 7); OReopen] ++ ex_ops2 ++ [OStop])
  = [(bs "a_r00000.log", bs "abcd"); (bs "a_r00001.log", []); (bs "a_r00002.log", bs "ijkl"); (bs "a_r00003.log", bs "mnop");
     (bs "a_r00004.log", bs "q"); (bs "a_r00007.log", bs "efgh")].
Proof. repeat (split; [vm_compute; reflexivity|]); vm_compute; reflexivity. Qed.

(* the name of the rCURRENT file of Numbers naming is NOT a name of this family: it is a legitimate target *)
Example exd_rcurrent_is_fresh :
  fresh_name_d exd_a (cname exd_a)
  /\ ex_dir (OStart exd_a :: ex_ops1 ++ [OExtRename (rname exd_a 1) (cname exd_a); OReopen] ++ ex_ops2 ++ [OStop])
  = [(bs "a_r00000.log", bs "abcd"); (bs "a_r00001.log", []); (bs "a_r00002.log", bs "ijkl"); (bs "a_r00003.log", bs "mnop");
     (bs "a_r00004.log", bs "q"); (bs "a_rCURRENT.log", bs "efgh")].
Proof. split; [intros i E; exact (rname_not_cname _ _ (eq_sym E)) | vm_compute; reflexivity]. Qed.

(* no record before the switch *)
Example exd_reopen_initial_computed :
  wrote [OTrigger; OFlush] = false
  /\ ex_dir (OStart exd_a :: [OTrigger; OFlush] ++ [OExtRename (rname exd_a 0) ex_moved; OReopen] ++ ex_ops2 ++ [OStop])
  = [(bs "a_r00000.log", bs "ijkl"); (bs "a_r00001.log", bs "mnop"); (bs "a_r00002.log", bs "q")].
Proof. repeat (split; [vm_compute; reflexivity|]); vm_compute; reflexivity. Qed.

Example exd_reopen_initial_thm :
  direct_view exd_a
    (wfs (s_w (fst (run (sys0 0 0) (OStart exd_a :: [OTrigger; OFlush] ++ [OExtRename (rname exd_a 0) ex_moved; OReopen] ++ ex_ops2 ++ [OStop])))))
    [bs "ijkl"; bs "mnop"; bs "q"].
Proof.
  destruct exd_hyps as (Hc & _ & _ & H2 & _).
  destruct (reopen_numbersdirect_initial exd_a (CSize 3) 0 0 [OTrigger; OFlush] ex_ops2 (rname exd_a 0) ex_moved Hc
              ltac:(repeat constructor) H2 eq_refl) as [_ [files [V [_ P]]]].
  rewrite (P 3%N eq_refl) in V. exact V.
Qed.

(* ---- theorem 2 on a history: the directory is the one of the history without the reopen ---- *)
Example exd_in_place_computed :
  ex_dir (OStart exd_a :: ex_ops1 ++ [OReopen] ++ ex_ops2 ++ [OStop])
  = [(bs "a_r00000.log", bs "abcd"); (bs "a_r00001.log", bs "efgh"); (bs "a_r00002.log", bs "ijkl");
     (bs "a_r00003.log", bs "mnop"); (bs "a_r00004.log", bs "q")]
  /\ ex_dir (OStart exd_a :: ex_ops1 ++ ex_ops2 ++ [OStop]) = ex_dir (OStart exd_a :: ex_ops1 ++ [OReopen] ++ ex_ops2 ++ [OStop])
  /\ ex_dir (OStart exd_a :: ex_ops1 ++ [OReopen]) = [(bs "a_r00000.log", bs "abcd"); (bs "a_r00001.log", bs "efgh")]
  /\ nth_error (snd (run (sys0 0 0) (OStart exd_a :: ex_ops1 ++ [OReopen] ++ ex_ops2 ++ [OStop]))) (S (length ex_ops1))
     = Some (ObsRes 0 false).
Proof. repeat (split; [vm_compute; reflexivity|]); vm_compute; reflexivity. Qed.

Example exd_in_place_thm :
  direct_view exd_a (wfs (s_w (fst (run (sys0 0 0) (OStart exd_a :: ex_ops1 ++ [OReopen] ++ ex_ops2 ++ [OStop])))))
        (expected_files 3 None (items false (ex_ops1 ++ ex_ops2)))
  /\ expected_files 3 None (items false (ex_ops1 ++ ex_ops2)) = [bs "abcd"; bs "efgh"; bs "ijkl"; bs "mnop"; bs "q"].
Proof.
  split; [|vm_compute; reflexivity].
  destruct exd_hyps as (Hc & _ & H1 & H2 & _).
  pose proof (reopen_numbersdirect_in_place exd_a (CSize 3) 0 0 ex_ops1 ex_ops2 Hc H1 H2) as [_ T]. cbv zeta in T.
  destruct T as (files1 & files & _ & _ & R & _ & _ & P). rewrite (P 3%N eq_refl) in R. exact R.
Qed.

(* ---- theorem 3 on a history: reset from the family a_ to the family b_ ---- *)
Example exd_reset_computed :
  ex_dir (OStart exd_a :: ex_ops1)
  = [(bs "a_r00000.log", bs "abcd"); (bs "a_r00001.log", bs "ef")]       (* "gh" is in the buffer *)
  /\ ex_dir (OStart exd_a :: ex_ops1 ++ [OReset exd_b] ++ ex_ops2 ++ [OStop])
  = [(bs "a_r00000.log", bs "abcd"); (bs "a_r00001.log", bs "efgh");
     (bs "b_r00000.log", bs "ijkl"); (bs "b_r00001.log", bs "mnop"); (bs "b_r00002.log", bs "q")]
  /\ nth_error (snd (run (sys0 0 0) (OStart exd_a :: ex_ops1 ++ [OReset exd_b] ++ ex_ops2 ++ [OStop]))) (S (length ex_ops1))
     = Some (ObsRes 0 false).
Proof. repeat (split; [vm_compute; reflexivity|]); vm_compute; reflexivity. Qed.

Example exd_reset_thm :
  dir_holds (wfs (s_w (fst (run (sys0 0 0) (OStart exd_a :: ex_ops1 ++ [OReset exd_b] ++ ex_ops2 ++ [OStop])))))
    (numbered exd_a 0 (expected_files 3 None (items false ex_ops1)) ++ numbered exd_b 0 (expected_files 3 None (items false ex_ops2)))
  /\ numbered exd_a 0 (expected_files 3 None (items false ex_ops1)) ++ numbered exd_b 0 (expected_files 3 None (items false ex_ops2))
     = [(bs "a_r00000.log", bs "abcd"); (bs "a_r00001.log", bs "efgh");
        (bs "b_r00000.log", bs "ijkl"); (bs "b_r00001.log", bs "mnop"); (bs "b_r00002.log", bs "q")].
Proof.
  split; [|vm_compute; reflexivity].
  destruct exd_hyps as (Hc & Hc2 & H1 & H2 & _ & Hcap & P1 & P2 & _).
  pose proof (reset_numbersdirect exd_a (CSize 3) exd_b (CSize 3) 0 0 ex_ops1 ex_ops2 Hc Hc2 Hcap (foreign_family_d_prefix _ _ P1 P2) H1 H2)
    as [_ T]. cbv zeta in T.
  destruct T as (files1 & files2 & _ & _ & _ & E1 & E2 & D). rewrite (E1 3%N eq_refl), (E2 3%N eq_refl) in D. exact D.
Qed.

(* a reset to the SAME family (foreign_family_d fails): the new writer finds the old files; without append it starts the
   next number, with append it continues the newest file; the numbering continues, nothing is overwritten *)
Example exd_reset_same_family :
  ex_dir (OStart exd_a :: ex_ops1 ++ [OReset exd_a] ++ ex_ops2 ++ [OStop])
  = [(bs "a_r00000.log", bs "abcd"); (bs "a_r00001.log", bs "efgh"); (bs "a_r00002.log", bs "ijkl");
     (bs "a_r00003.log", bs "mnop"); (bs "a_r00004.log", bs "q")]
  /\ ex_dir (OStart exd_a :: ex_ops1 ++ [OReset exd_aa] ++ ex_ops2 ++ [OStop])
  = [(bs "a_r00000.log", bs "abcd"); (bs "a_r00001.log", bs "efgh"); (bs "a_r00002.log", bs "ijkl");
     (bs "a_r00003.log", bs "mnop"); (bs "a_r00004.log", bs "q")].
Proof. repeat (split; [vm_compute; reflexivity|]); vm_compute; reflexivity. Qed.
