(* TimestampsDirect naming (no rCURRENT: the writer writes into r<time stamp>[.restart-NNNN], the time stamp being the
   second in which the file was started; a rotation opens the file for the infix of the present second, made
   collision-free, and renames nothing): the invariant that ties the concrete state to the abstract reader's view
   (closed files in the order of their closing, current content ++ pending bytes), and the one-rotation step.
   The keys (second, position within the second) are those of Timestamps naming (TsNames.v / TsInv.v); here the LAST key
   names the file being written. *)
Require Import FL.Base.Bytes FL.Base.BytesFacts FL.Base.PathName FL.Fs.Fs FL.Fs.FsFacts FL.Time.Civil FL.Time.TsFormat
  FL.Names.FileSpec FL.Names.NamesFacts FL.Names.SortFacts FL.Flw.Model FL.Flw.ModelFacts FL.Flw.NumFs FL.Flw.NumInv
  FL.Flw.NumListing FL.Flw.NumDInv FL.Flw.TsCal FL.Flw.TsTime FL.Flw.TsNames FL.Flw.TsInv.
From Coq Require Import ZifyN ZifyNat ZifyBool.
Open Scope nat_scope.

(* TimestampsDirect naming, no cleanup, no start-time part, no symlink, synchronous; use_utc either way *)
Definition tsdcfg (c : config) (crit : criterion) : Prop :=
  c_rot c = Some (crit, NTimestampsDirect, KNever) /\ fts (c_spec c) = false /\ c_symlink c = false /\ c_async c = false.

(* keys: one more than closed; the key at position (length closed) - the last one - names the file being written *)
Record TsdInv (c : config) (e lo : Z) (w : world) (wr : writer) (keys : list key) (closed : list bytes) : Prop := {
  td_quiet : quiet w;
  td_wf : fs_wf (wfs w);
  td_nodup : NoDup (dir_names (wfs w));
  td_off : eoff c w = e;
  td_len : length keys = S (length closed);
  td_cur : lookup (wfs w) (kname c e (nth (length closed) keys kd)) = Some (wino wr);
  td_curplain : plain (inode (wfs w) (wino wr));
  td_closed : forall i, i < length closed ->
      exists j, lookup (wfs w) (kname c e (nth i keys kd)) = Some j /\ plain (inode (wfs w) j) /\ content (wfs w) j = nth i closed []
                /\ j <> wino wr;
  td_only : forall n j, lookup (wfs w) n = Some j -> exists i, i <= length closed /\ n = kname c e (nth i keys kd);
  td_keys : keys_ok keys;
  td_range : forall k, In k keys -> (lo <= fst k <= wnow w)%Z;
  td_wr : wr_ok wr;
  td_cap : wcap wr = c_cap c }.

(* the naming state carries the second of the current file's start (it is never read again) *)
Definition st_tsd (c : config) (e : Z) (k : key) (roll : roll_state) (wr : writer) : flw :=
  {| f_cfg := c; f_inner := Active (Some (mk_rs (NSTs (fst k) None std_fmt) roll)) wr (kname c e k); f_poisoned := false |}.

Lemma tsdinv_dir c e lo w wr keys closed : TsdInv c e lo w wr keys closed -> dir_is c e (wfs w) keys.
Proof.
  intros I. pose proof I as [Q W Hnd Hoff Hlen Hc Hcp Hcl Hon Hko Hrg Hwr Hcap]. split.
  - intros k Ik. destruct (In_nth keys k kd Ik) as [i [Hi E]]. rewrite Hlen in Hi.
    destruct (Nat.eq_dec i (length closed)) as [->|Hne].
    + exists (wino wr). rewrite <- E. split; [exact Hc | apply Hcp].
    + destruct (Hcl i ltac:(lia)) as [j [Lj [[_ Pd] _]]]. rewrite E in Lj. eauto.
  - intros n j L. destruct (Hon n j L) as [i [Hi ->]]. right.
    exists (nth i keys kd). split; [apply nth_In; lia | reflexivity].
Qed.

Lemma tsdinv_now c e lo w wr keys closed : TsdInv c e lo w wr keys closed -> (lo <= wnow w)%Z.
Proof.
  intros I. pose proof (td_len _ _ _ _ _ _ _ I) as Hlen.
  assert (Ik : In (nth 0 keys kd) keys) by (apply nth_In; lia).
  pose proof (td_range _ _ _ _ _ _ _ I _ Ik). lia.
Qed.

Lemma nth_snoc_last {A} (l : list A) (x d : A) n : length l = n -> nth n (l ++ [x]) d = x.
Proof. intros <-. rewrite app_nth2, Nat.sub_diag by lia. reflexivity. Qed.

(* ------------------------------------------------------------------ one rotation *)
Lemma mount_next_rotates_tsd c crit e lo hi w wr keys closed roll force :
  tsdcfg c crit -> tag_ok c -> years_ok e lo hi -> TsdInv c e lo w wr keys closed ->
  (wnow w <= hi)%Z -> (N.of_nat (length keys) <= usize_max)%N ->
  force || rotation_necessary w roll = true ->
  exists w' wr' roll',
    mount_next c w (Active (Some (mk_rs (NSTs (fst (nth (length closed) keys kd)) None std_fmt) roll)) wr
                           (kname c e (nth (length closed) keys kd))) force
      = (Ok tt, w', Active (Some (mk_rs (NSTs (wnow w) None std_fmt) roll')) wr' (kname c e (wnow w, count (wnow w) keys)))
    /\ TsdInv c e lo w' wr' (keys ++ [(wnow w, count (wnow w) keys)]) (closed ++ [cur_view w wr])
    /\ cur_view w' wr' = [] /\ roll_size_ok roll' 0 /\ same_env w w'
    /\ (forall m cur, roll = RSize m cur -> exists cur', roll' = RSize m cur').
Proof.
  intros [Hrot [Hts [Hlink _]]] T Y I Hhi Hmax Hnec.
  pose proof I as [Q W Hnd Hoff Hlen Hc Hcp Hcl Hon Hko Hrg Hwr Hcap].
  pose proof (tsdinv_now _ _ _ _ _ _ _ I) as Hlo.
  assert (Yk : forall k, In k keys -> in_years e (fst k)).
  { intros k Ik. apply (years_in e lo hi); [exact Y|]. specialize (Hrg k Ik). lia. }
  assert (Ynow : in_years e (wnow w)) by (apply (years_in e lo hi); [exact Y | lia]).
  set (kold := nth (length closed) keys kd) in *.
  set (knew := (wnow w, count (wnow w) keys)).
  assert (Ikold : In kold keys) by (apply nth_In; lia).
  unfold mount_next. cbn [mk_rs rs_roll rs_naming rs_cleanup rs_bg]. rewrite Hnec.
  unfold collision_free. rewrite !tick_quiet by assumption.
  rewrite (fixed_of_fixed0 c w Hts), infix_from_ts_tsx, Hoff.
  rewrite (collision_free_infix_ts c e (woff w) (wfs w) keys (wnow w) (count (wnow w) keys) T Ynow Yk (tsdinv_dir _ _ _ _ _ _ _ I)
             (keys_count keys Hko (wnow w))) by (pose proof (count_le_length (wnow w) keys); lia).
  unfold open_log_file. rewrite (name_of_fixed c w) by assumption.
  change (as_name (c_spec c) (fixed0 c) (Some (infix_of e (wnow w, count (wnow w) keys)))) with (kname c e knew).
  (* the target name is free *)
  assert (Hnk : ~ In knew keys).
  { intros Ik. apply (keys_count keys Hko) in Ik. lia. }
  assert (Ht : lookup (wfs w) (kname c e knew) = None).
  { destruct (lookup (wfs w) (kname c e knew)) as [j|] eqn:E; [|reflexivity].
    destruct (Hon _ _ E) as [i [Hi E1]].
    apply kname_inj in E1; [|exact Ynow | apply Yk, nth_In; lia].
    exfalso. apply Hnk. rewrite E1. apply nth_In. lia. }
  destruct (open_fresh_quiet c w (kname c e knew) Q Hlink Ht) as [w2 [Eop [F2 S2]]]. rewrite Eop.
  (* the old writer is dropped *)
  unfold w_drop. destruct (w_flush_quiet w2 wr (proj1 S2)) as [w3 [Efl [F3 S3]]]. rewrite Efl. cbn [fst snd].
  unfold cleanup_or_queue. cbn [mk_rs rs_roll rs_naming rs_cleanup rs_bg cleanup_impl].
  rewrite F2 in F3.
  pose proof (wf_bound _ W _ _ Hc) as Hold.
  pose proof (direct_fs_spec (wfs w) (kname c e knew) (wino wr) (wpend wr) (wnow w) W Hold Ht) as R.
  cbn zeta in R. destruct R as [W3 [Hnew [L3t [L3o [Inew [Iold Ioth]]]]]].
  set (new := snd (create_file (wfs w) (kname c e knew) 0%N (wnow w))) in *.
  set (f3 := append_ino (fst (create_file (wfs w) (kname c e knew) 0%N (wnow w))) (wino wr) (wpend wr)) in *.
  set (wr' := {| wino := new; wpend := []; wcap := c_cap c |}).
  exists w3, wr', (reset_size_and_date w3 roll (kname c e knew)).
  split; [reflexivity|].
  assert (SE : same_env w w3) by (eapply same_env_trans; eassumption).
  assert (Elen : length (closed ++ [cur_view w wr]) = S (length closed)) by (rewrite app_length; cbn [length]; lia).
  assert (Hneq : forall i, i <= length closed -> kname c e (nth i keys kd) <> kname c e knew).
  { intros i Hi E. apply kname_inj in E; [|apply Yk, nth_In; lia | exact Ynow]. apply Hnk. rewrite <- E. apply nth_In. lia. }
  split.
  { constructor.
    - exact (proj1 S3).
    - rewrite F3. exact W3.
    - rewrite F3. unfold f3. change (dir_names (append_ino ?g _ _)) with (dir_names g).
      apply create_nodup; [exact Hnd | exact Ht].
    - unfold eoff in *. destruct SE as [_ [_ [-> _]]]. exact Hoff.
    - rewrite !app_length, Hlen. cbn [length]. lia.
    - rewrite Elen. rewrite nth_snoc_last by exact Hlen. rewrite F3. exact L3t.
    - rewrite F3. cbn [wr' wino]. rewrite Inew. split; reflexivity.
    - intros i Hi. rewrite Elen in Hi. rewrite F3. rewrite (app_nth1 keys _ kd) by lia.
      destruct (Nat.eq_dec i (length closed)) as [->|Hne].
      + exists (wino wr). fold kold. rewrite L3o by (apply Hneq; lia). split; [exact Hc|]. split.
        * rewrite Iold. exact Hcp.
        * split; [|cbn [wr' wino]; rewrite Hnew; lia].
          unfold content at 1. rewrite Iold. cbn [with_data fdata]. rewrite app_nth2, Nat.sub_diag by lia. reflexivity.
      + assert (Hi' : i < length closed) by lia. destruct (Hcl i Hi') as [j [Lj [Pj [Cj Hj2]]]].
        exists j. rewrite L3o by (apply Hneq; lia). split; [exact Lj|].
        assert (Hj1 : j <> new). { pose proof (wf_bound _ W _ _ Lj). rewrite Hnew. lia. }
        unfold content. rewrite Ioth by assumption. split; [exact Pj|]. rewrite app_nth1 by assumption. split; [exact Cj | exact Hj1].
    - intros n j Hn. rewrite F3 in Hn. rewrite Elen.
      destruct (beq_spec n (kname c e knew)) as [->|Hn2].
      + exists (S (length closed)). split; [lia|]. rewrite nth_snoc_last by exact Hlen. reflexivity.
      + rewrite L3o in Hn by assumption. destruct (Hon _ _ Hn) as [i [Hi E]].
        exists i. split; [lia|]. rewrite (app_nth1 keys _ kd) by lia. exact E.
    - apply ko_snoc; [exact Hko|]. intros k Ik. specialize (Hrg k Ik). lia.
    - destruct SE as [_ [-> _]]. intros k Ik. apply in_app_or in Ik. destruct Ik as [Ik|[<-|[]]].
      + exact (Hrg k Ik).
      + unfold knew. cbn [fst]. lia.
    - unfold wr_ok, wr'. cbn. destruct (c_cap c); [lia | reflexivity].
    - reflexivity. }
  split. { unfold cur_view. rewrite F3. cbn [wr' wino wpend]. unfold content. rewrite Inew. reflexivity. }
  split. { destruct roll; cbn; auto. }
  split; [exact SE|].
  intros m cur ->. cbn. eauto.
Qed.

(* ------------------------------------------------------------------ appending to the current inode keeps the invariant *)
Lemma tsdinv_append c e lo w w' wr wr' keys closed x :
  TsdInv c e lo w wr keys closed -> wfs w' = append_ino (wfs w) (wino wr) x -> same_env w w' ->
  wino wr' = wino wr -> wcap wr' = wcap wr -> wr_ok wr' ->
  TsdInv c e lo w' wr' keys closed /\ content (wfs w') (wino wr') = content (wfs w) (wino wr) ++ x.
Proof.
  intros [Q W Hnd Hoff Hlen Hc Hcp Hcl Hon Hko Hrg Hwr Hcap] F SE Ei Ec Hok.
  pose proof (wf_bound _ W _ _ Hc) as Hold.
  split.
  - constructor.
    + exact (proj1 SE).
    + rewrite F. apply wf_append. exact W.
    + rewrite F. exact Hnd.
    + unfold eoff in *. destruct SE as [_ [_ [-> _]]]. exact Hoff.
    + exact Hlen.
    + rewrite F, lookup_append, Ei. exact Hc.
    + rewrite F, Ei, inode_append, Nat.eqb_refl by assumption. exact Hcp.
    + intros i Hi. destruct (Hcl i Hi) as [j [Lj [Pj [Cj Hj]]]]. exists j. rewrite F, lookup_append. split; [exact Lj|].
      unfold content. rewrite inode_append by assumption. destruct (Nat.eqb_spec j (wino wr)); [contradiction|]. rewrite Ei. auto.
    + intros n j. rewrite F, lookup_append. apply Hon.
    + exact Hko.
    + destruct SE as [_ [-> _]]. exact Hrg.
    + exact Hok.
    + congruence.
  - rewrite F, Ei, content_append, Nat.eqb_refl by assumption. reflexivity.
Qed.

(* ------------------------------------------------------------------ a write on an active writer *)
Lemma write_active_tsd c crit e lo hi w wr keys closed roll b :
  tsdcfg c crit -> tag_ok c -> years_ok e lo hi -> TsdInv c e lo w wr keys closed ->
  (wnow w <= hi)%Z -> (N.of_nat (length keys) <= usize_max)%N -> roll_size_ok roll (length (cur_view w wr)) ->
  let rot := rotation_necessary w roll in
  exists w' wr' roll' keys' closed',
    write_buffer (st_tsd c e (nth (length closed) keys kd) roll wr) w b
      = (Ok tt, w', st_tsd c e (nth (length closed') keys' kd) roll' wr', rot)
    /\ TsdInv c e lo w' wr' keys' closed' /\ roll_size_ok roll' (length (cur_view w' wr')) /\ same_env w w'
    /\ (closed', cur_view w' wr') = (if rot then (closed ++ [cur_view w wr], b) else (closed, cur_view w wr ++ b))
    /\ (forall m cur, roll = RSize m cur -> exists cur', roll' = RSize m cur').
Proof.
  intros Hcfg T Y I Hhi Hmax Hsz rot.
  unfold write_buffer, st_tsd. cbn [f_cfg f_inner f_poisoned mk_rs rs_roll]. fold rot.
  assert (M : exists w1 wr1 roll1 keys1 closed1,
            mount_next c w (Active (Some (mk_rs (NSTs (fst (nth (length closed) keys kd)) None std_fmt) roll)) wr
                                   (kname c e (nth (length closed) keys kd))) false
            = (Ok tt, w1, Active (Some (mk_rs (NSTs (fst (nth (length closed1) keys1 kd)) None std_fmt) roll1)) wr1
                                 (kname c e (nth (length closed1) keys1 kd)))
            /\ TsdInv c e lo w1 wr1 keys1 closed1 /\ roll_size_ok roll1 (length (cur_view w1 wr1)) /\ same_env w w1
            /\ (closed1, cur_view w1 wr1) = (if rot then (closed ++ [cur_view w wr], []) else (closed, cur_view w wr))
            /\ (forall m cur, roll = RSize m cur -> exists cur', roll1 = RSize m cur')).
  { destruct rot eqn:Er.
    - destruct (mount_next_rotates_tsd c crit e lo hi w wr keys closed roll false Hcfg T Y I Hhi Hmax)
        as [w1 [wr1 [roll1 [E [I1 [V1 [Z1 [S1 R1]]]]]]]]; [exact Er|].
      exists w1, wr1, roll1, (keys ++ [(wnow w, count (wnow w) keys)]), (closed ++ [cur_view w wr]). rewrite V1.
      assert (En : nth (length (closed ++ [cur_view w wr])) (keys ++ [(wnow w, count (wnow w) keys)]) kd = (wnow w, count (wnow w) keys)).
      { apply nth_snoc_last. rewrite app_length. cbn [length]. rewrite (td_len _ _ _ _ _ _ _ I). lia. }
      rewrite En. cbn [fst].
      split; [exact E|]. split; [exact I1|]. split; [exact Z1|]. split; [exact S1|]. split; [reflexivity | exact R1].
    - exists w, wr, roll, keys, closed. split.
      + unfold mount_next. cbn [mk_rs rs_roll orb]. unfold rot in Er. rewrite Er. reflexivity.
      + split; [exact I|]. split; [exact Hsz|]. split; [apply same_env_refl; apply I|]. split; [reflexivity | eauto]. }
  destruct M as [w1 [wr1 [roll1 [keys1 [closed1 [E [I1 [Z1 [S1 [V1 R1]]]]]]]]]].
  rewrite E.
  destruct (w_write_quiet w1 wr1 b (td_quiet _ _ _ _ _ _ _ I1) (td_wr _ _ _ _ _ _ _ I1)) as [w2 [wr2 [fl [Ew [S2 [F2 [Ei [Ec [Ep Hok]]]]]]]]].
  rewrite Ew.
  destruct (tsdinv_append c e lo w1 w2 wr1 wr2 keys1 closed1 fl I1 F2 S2 Ei Ec Hok) as [I2 C2].
  exists w2, wr2, (increase_size roll1 (N.of_nat (length b))), keys1, closed1.
  assert (V2 : cur_view w2 wr2 = cur_view w1 wr1 ++ b).
  { unfold cur_view. rewrite C2, <- !app_assoc, Ep. reflexivity. }
  split; [reflexivity|]. split; [exact I2|].
  split. { rewrite V2, app_length. apply roll_size_increase. exact Z1. }
  split; [eapply same_env_trans; eassumption|].
  split. { rewrite V2. destruct rot; injection V1 as -> ->; reflexivity. }
  intros m cur Hr. destruct (R1 m cur Hr) as [cur' ->]. cbn. eauto.
Qed.

(* ------------------------------------------------------------------ flush *)
Lemma flush_active_tsd c e lo w wr keys closed roll k :
  TsdInv c e lo w wr keys closed ->
  exists w' wr', flush_state (st_tsd c e k roll wr) w = (true, w', st_tsd c e k roll wr')
    /\ TsdInv c e lo w' wr' keys closed /\ cur_view w' wr' = cur_view w wr /\ wpend wr' = [] /\ same_env w w'.
Proof.
  intros I. unfold flush_state, st_tsd. cbn [f_inner].
  destruct (w_flush_quiet w wr (td_quiet _ _ _ _ _ _ _ I)) as [w1 [E [F S]]]. rewrite E.
  set (wr' := {| wino := wino wr; wpend := []; wcap := wcap wr |}).
  assert (Hok : wr_ok wr') by (unfold wr_ok, wr'; cbn; destruct (wcap wr); [lia | reflexivity]).
  destruct (tsdinv_append c e lo w w1 wr wr' keys closed (wpend wr) I F S eq_refl eq_refl Hok) as [I1 C1].
  exists w1, wr'. split; [reflexivity|]. split; [exact I1|]. split; [|split; [reflexivity | exact S]].
  unfold cur_view. rewrite C1. cbn [wr' wpend]. rewrite app_nil_r. reflexivity.
Qed.

(* ------------------------------------------------------------------ the first write initialises the writer: empty directory *)
Lemma is_prefix_longer (a b : bytes) : b <> [] -> is_prefix (a ++ b) a = false.
Proof.
  intros Hb. destruct (is_prefix (a ++ b) a) eqn:E; [|reflexivity]. exfalso.
  apply is_prefix_iff in E. destruct E as [r E]. apply (f_equal (@length N)) in E. rewrite !app_length in E.
  destruct b; [congruence | cbn [length] in E; lia].
Qed.

Lemma newest_of_next_same infix : newest_of_next infix infix = None.
Proof. unfold newest_of_next, strip_prefix. rewrite is_prefix_longer by discriminate. reflexivity. Qed.

(* with append the directory is listed for the latest time stamp: none, the clock is read *)
Lemma latest_timestamp_file_empty c w rot : quiet w -> names (wfs w) = [] ->
  latest_timestamp_file c w rot std_fmt = (Ok (wnow w), w).
Proof.
  intros Q Hn. unfold latest_timestamp_file. destruct rot; [reflexivity|].
  unfold with_listing. rewrite tick_quiet by assumption. rewrite related_files_empty by assumption. reflexivity.
Qed.

Lemma initialize_empty_tsd c crit e lo w :
  tsdcfg c crit -> quiet w -> names (wfs w) = [] -> inodes (wfs w) = [] -> eoff c w = e -> (lo <= wnow w)%Z ->
  exists w' wr roll,
    initialize c w = (Ok (Active (Some (mk_rs (NSTs (wnow w) None std_fmt) roll)) wr (kname c e (wnow w, 0))), w')
    /\ TsdInv c e lo w' wr [(wnow w, 0)] [] /\ cur_view w' wr = [] /\ roll_size_ok roll 0 /\ same_env w w'
    /\ (forall m, crit = CSize m -> roll = RSize m 0).
Proof.
  intros [Hrot [Hts [Hlink _]]] Q Hn Hi Hoff Hlo.
  unfold initialize. rewrite Hrot. unfold init_naming.
  rewrite (latest_timestamp_file_empty c w _ Q Hn). cbn [bind].
  unfold collision_free. rewrite !tick_quiet by assumption. rewrite collision_free_infix_empty by assumption. cbn [bind].
  rewrite newest_of_next_same.
  assert (E0 : (if c_append c then (Ok (NSTs (wnow w) None std_fmt, infix_from_ts c w std_fmt (wnow w)), w)
                else (Ok (NSTs (wnow w) None std_fmt, infix_from_ts c w std_fmt (wnow w)), w))
               = (Ok (NSTs (wnow w) None std_fmt, infix_from_ts c w std_fmt (wnow w)), w)) by (destruct (c_append c); reflexivity).
  rewrite E0. clear E0. cbn [bind].
  rewrite infix_from_ts_tsx, Hoff.
  unfold open_log_file. rewrite (name_of_fixed c w) by assumption.
  change (as_name (c_spec c) (fixed0 c) (Some (tsx e (wnow w)))) with (kname c e (wnow w, 0)).
  set (k0 := (wnow w, 0)).
  destruct (open_fresh_quiet c w (kname c e k0) Q Hlink (lookup_empty _ _ Hn)) as [w2 [Eop [F2 S2]]]. rewrite Eop. cbn [bind fst snd].
  unfold create_file in F2. cbn [fst snd] in F2. rewrite Hn, Hi in F2. cbn [length app] in F2.
  unfold create_file. cbn [snd]. rewrite Hi. cbn [length].
  set (wr := {| wino := 0; wpend := []; wcap := c_cap c |}).
  assert (Lc : lookup (wfs w2) (kname c e k0) = Some 0) by (rewrite F2; unfold lookup; cbn; rewrite beq_refl; reflexivity).
  assert (Fo : file_of (wfs w2) (kname c e k0) = Some (fresh_file (wnow w))) by (unfold file_of; rewrite Lc, F2; reflexivity).
  assert (RN : exists roll, roll_new w2 crit (c_append c) (kname c e k0) = (Ok roll, w2) /\ roll_size_ok roll 0
               /\ (forall m, crit = CSize m -> roll = RSize m 0)).
  { unfold roll_new. destruct (c_append c).
    - rewrite tick_quiet by apply S2. rewrite Fo. cbn [fresh_file fdata length].
      eexists. split; [reflexivity|]. split; [destruct crit; reflexivity|]. intros m ->. reflexivity.
    - eexists. split; [reflexivity|]. split; [destruct crit; reflexivity|]. intros m ->. reflexivity. }
  destruct RN as [roll [Ern [Z R]]]. rewrite Ern. cbn [bind].
  exists w2, wr, roll. split; [reflexivity|].
  split.
  { constructor; cbn [length nth].
    - apply S2.
    - rewrite F2. split.
      + intros a j. unfold lookup; cbn. destruct (beq (kname c e k0) a); [|discriminate]. intros E; injection E as <-. lia.
      + intros a b j. unfold lookup; cbn. destruct (beq_spec (kname c e k0) a), (beq_spec (kname c e k0) b); try discriminate. congruence.
    - rewrite F2. unfold dir_names. cbn [names List.map fst]. constructor; [intros [] | constructor].
    - unfold eoff in *. destruct S2 as [_ [_ [-> _]]]. exact Hoff.
    - reflexivity.
    - exact Lc.
    - rewrite F2. split; reflexivity.
    - intros i Hi'. lia.
    - intros n j. rewrite F2. unfold lookup; cbn. destruct (beq_spec (kname c e k0) n) as [<-|]; [|discriminate].
      intros _. exists 0. split; [lia | reflexivity].
    - exact (ko_snoc [] (wnow w) ko_nil (fun k (H : In k []) => match H with end)).
    - destruct S2 as [_ [-> _]]. intros k [<-|[]]. unfold k0. cbn [fst]. lia.
    - unfold wr_ok, wr. cbn. destruct (c_cap c); [lia | reflexivity].
    - reflexivity. }
  split. { unfold cur_view, content, inode. rewrite F2. reflexivity. }
  split; [exact Z|]. split; [exact S2 | exact R].
Qed.
Print Assumptions mount_next_rotates_tsd.
Print Assumptions initialize_empty_tsd.
