(* Numbers naming: end-to-end statements about whole runs from an empty directory. *)
Require Import FL.Base.Bytes FL.Base.BytesFacts FL.Base.PathName FL.Fs.Fs FL.Fs.FsFacts FL.Time.Civil FL.Time.TsFormat
  FL.Names.FileSpec FL.Names.NamesFacts FL.Flw.Model FL.Flw.ModelFacts FL.Flw.NumFs FL.Flw.NumInv FL.Flw.Run FL.Flw.NumRun
  FL.Oracles.O_Flw.
From Coq Require Import ZifyN ZifyNat ZifyBool.
Open Scope nat_scope.

Fixpoint items (started : bool) (ops : list op) : list item :=
  match ops with
  | [] => []
  | (OWrite b | OPlain b) :: r => IRec b :: items true r
  | OTrigger :: r => if started then ITrig :: items started r else items started r
  | _ :: r => items started r
  end.

Definition files_of (a : aview) : list bytes := match a with Some (cl, cu) => cl ++ [cu] | None => [] end.

Lemma s_run_partition m ops : forall cl cu, Forall basic_op ops ->
  files_of (s_run m (Some (cl, cu)) ops) = partition m cl cu (items true ops).
Proof.
  induction ops as [|o r IH]; intros cl cu Hb; [reflexivity|].
  inversion Hb as [|o' r' Ho Hr]; subst. destruct o; try contradiction; cbn [s_run a_step items partition cur_of].
  - destruct (m <? N.of_nat (length cu))%N; apply IH; assumption.
  - destruct (m <? N.of_nat (length cu))%N; apply IH; assumption.
  - apply IH; assumption.
  - apply IH; assumption.
  - apply IH; assumption.
  - apply IH; assumption.
Qed.

Lemma s_run_none m ops : Forall basic_op ops ->
  files_of (s_run m None ops) = expected_files m None (items false ops).
Proof.
  induction ops as [|o r IH]; intros Hb; [reflexivity|].
  inversion Hb as [|o' r' Ho Hr]; subst. destruct o; try contradiction; cbn [s_run a_step items cur_of]; try (apply IH; assumption).
  - change (m <? N.of_nat (length (@nil N)))%N with (m <? 0)%N. rewrite (proj2 (N.ltb_ge m 0)) by lia.
    cbn [app]. rewrite s_run_partition by assumption. unfold expected_files. cbn [has_rec partition length].
    change (m <? N.of_nat 0)%N with (m <? 0)%N. rewrite (proj2 (N.ltb_ge m 0)) by lia. reflexivity.
  - change (m <? N.of_nat (length (@nil N)))%N with (m <? 0)%N. rewrite (proj2 (N.ltb_ge m 0)) by lia.
    cbn [app]. rewrite s_run_partition by assumption. unfold expected_files. cbn [has_rec partition length].
    change (m <? N.of_nat 0)%N with (m <? 0)%N. rewrite (proj2 (N.ltb_ge m 0)) by lia. reflexivity.
Qed.

Lemma items_written started ops : Forall basic_op ops -> recs_of (items started ops) = written ops.
Proof.
  revert started. induction ops as [|o r IH]; intros started Hb; [reflexivity|].
  inversion Hb as [|o' r' Ho Hr]; subst. destruct o; try contradiction; cbn [items written recs_of]; try (apply IH; assumption).
  - f_equal. apply IH; assumption.
  - f_equal. apply IH; assumption.
  - destruct started; cbn [recs_of]; apply IH; assumption.
Qed.

Definition reads (c : config) (f : fs) (files : list bytes) : Prop :=
  match files with
  | [] => names f = []
  | _ => exists closed cur, files = closed ++ [cur] /\ reader_view c f closed cur
  end.

Lemma start_rel c crit t0 off : Rel c crit (fst (step (sys0 t0 off) (OStart c))) None.
Proof. cbn. repeat split. Qed.

Lemma run_app : forall ops1 ops2 x, run x (ops1 ++ ops2) =
  let '(x1, o1) := run x ops1 in let '(x2, o2) := run x1 ops2 in (x2, o1 ++ o2).
Proof.
  induction ops1 as [|o r IH]; intros ops2 x; cbn [run app].
  - destruct (run x ops2). reflexivity.
  - destruct (step x o) as [x1 ob]. rewrite IH. destruct (run x1 r) as [x2 o1]. destruct (run x2 ops2). reflexivity.
Qed.

Lemma files_of_reads c f a : match a with None => names f = [] | Some (closed, cur) => reader_view c f closed cur end ->
  reads c f (files_of a).
Proof.
  destruct a as [[cl cu]|]; cbn [files_of]; intros H; [|exact H].
  unfold reads. destruct (cl ++ [cu]) eqn:E; [destruct cl; discriminate|]. rewrite <- E. eauto.
Qed.

(* C01 for Numbers naming: any criterion.  After the writer is stopped, the files r00000.., rCURRENT hold,
   in this order, a partition of exactly the bytes written. *)
Theorem numbers_stream c crit t0 off ops :
  numcfg c crit -> Forall basic_op ops ->
  exists files, reads c (wfs (s_w (fst (run (sys0 t0 off) (OStart c :: ops ++ [OStop]))))) files
    /\ concat files = written ops.
Proof.
  intros Hcfg Hb. cbn [run]. destruct (step (sys0 t0 off) (OStart c)) as [x0 ob0] eqn:E0.
  pose proof (start_rel c crit t0 off) as R0. rewrite E0 in R0. cbn [fst] in R0.
  rewrite run_app. pose proof (run_rel c crit Hcfg ops x0 None R0 Hb) as R1. pose proof (run_length ops x0) as L.
  destruct (run x0 ops) as [x1 obs1]. cbn [fst snd] in *.
  pose proof (stop_rel c crit x1 _ Hcfg R1) as S. cbn [run]. destruct (step x1 OStop) as [x2 ob2]. cbn [fst].
  exists (files_of (a_run None ops obs1)). split; [apply files_of_reads; exact S|].
  pose proof (a_run_flat ops None obs1 Hb L) as F. cbn [flat app] in F. rewrite <- F.
  destruct (a_run None ops obs1) as [[cl cu]|]; cbn [files_of flat concat]; [|reflexivity].
  rewrite concat_app. cbn [concat]. rewrite app_nil_r. reflexivity.
Qed.

(* C08 for Numbers naming with a size criterion: the files are the greedy partition, and each write
   reports a rotation exactly when the current file (disk + buffer) already exceeds the limit. *)
Theorem numbers_partition c m t0 off ops :
  numcfg c (CSize m) -> Forall basic_op ops ->
  reads c (wfs (s_w (fst (run (sys0 t0 off) (OStart c :: ops ++ [OStop]))))) (expected_files m None (items false ops)).
Proof.
  intros Hcfg Hb. cbn [run]. destruct (step (sys0 t0 off) (OStart c)) as [x0 ob0] eqn:E0.
  pose proof (start_rel c (CSize m) t0 off) as R0. rewrite E0 in R0. cbn [fst] in R0.
  rewrite run_app. pose proof (run_rel c (CSize m) Hcfg ops x0 None R0 Hb) as R1.
  pose proof (run_size c m Hcfg ops x0 None R0 Hb) as [Hs _].
  destruct (run x0 ops) as [x1 obs1]. cbn [fst snd] in *.
  pose proof (stop_rel c (CSize m) x1 _ Hcfg R1) as S. cbn [run]. destruct (step x1 OStop) as [x2 ob2]. cbn [fst].
  rewrite <- s_run_none by assumption. rewrite <- Hs. apply files_of_reads. exact S.
Qed.

Theorem numbers_rotates_iff c m t0 off ops i o b :
  numcfg c (CSize m) -> Forall basic_op ops -> nth_error ops i = Some o -> (o = OWrite b \/ o = OPlain b) ->
  nth_error (snd (run (sys0 t0 off) (OStart c :: ops))) (S i)
  = Some (ObsRes 0 (m <? N.of_nat (length (cur_of (s_run m None (firstn i ops)))))%N).
Proof.
  intros Hcfg Hb Hi Ho. cbn [run]. destruct (step (sys0 t0 off) (OStart c)) as [x0 ob0] eqn:E0.
  pose proof (start_rel c (CSize m) t0 off) as R0. rewrite E0 in R0. cbn [fst] in R0.
  pose proof (run_size c m Hcfg ops x0 None R0 Hb) as [_ Hr].
  destruct (run x0 ops) as [x1 obs1]. cbn [snd nth_error] in *. exact (Hr i o Hi b Ho).
Qed.
