(* The asynchronous write mode simulates the synchronous one: ALL configurations (every naming scheme, criterion,
   cleanup), histories of basic operations.

   1. Model.v never looks at c_async: every function of the state machine gives the same result for c and for
      sync_of c (c with c_async := false)  -  initialize_mode, mount_next_mode, write_buffer_mode, flush_state_mode,
      shutdown_state_mode, drop_state_mode.
   2. Hence the run of an asynchronous writer (Run.async_consume: the writer thread calls write_buffer / flush_state /
      shutdown_state for the messages; every message is consumed before the next operation starts - the scheduling
      assumption of the model and of the harness) and the run of the synchronous writer with the same remaining
      configuration go through THE SAME WORLDS (file system, clock, error channel, ...), operation by operation, as
      long as the synchronous run returns normal results (code 0: no error result, no panic): sim_run.  The
      observations agree except for the rotation flag, which the asynchronous caller never sees (no_rot).
      Where the two handles differ on failures (not covered, and the reason for the hypothesis): a failing raw write
      or flush is returned to the caller by the synchronous handle and reported on the error channel by the writer
      thread; a panic ends the writer thread, whereas the synchronous caller keeps the formatted record in its
      thread-local buffer.
   3. Dropping the writer: the asynchronous handle sends the shutdown message and then drops the state, which is one
      State::shutdown more than the synchronous drop; without faults the extra one does nothing (sim_stop).
   4. With the no-panic theorems of NoPanic.v this gives, without further hypotheses on the run: identical worlds for
      Numbers (with and without cleanup), NumbersDirect and Timestamps naming. *)
Require Import FL.Base.Bytes FL.Base.BytesFacts FL.Base.PathName FL.Fs.Fs FL.Fs.FsFacts FL.Time.Civil FL.Time.TsFormat
  FL.Names.FileSpec FL.Names.NamesFacts FL.Flw.Model FL.Flw.ModelFacts FL.Flw.NumFs FL.Flw.NumInv FL.Flw.Run FL.Flw.RunFacts
  FL.Flw.NumRun FL.Oracles.O_Flw FL.Flw.NumTheorems FL.Flw.NumListing FL.Flw.NumRestart FL.Flw.NumKillRestart
  FL.Flw.NumDInv FL.Flw.NumDRun FL.Flw.NumDTheorems
  FL.Flw.TsCal FL.Flw.TsTime FL.Flw.TsNames FL.Flw.TsInv FL.Flw.TsRun FL.Flw.TsTheorems
  FL.Flw.CleanupFacts FL.Flw.NumCleanupNames FL.Flw.NumCleanupStep FL.Flw.NumCleanupRun FL.Flw.NumCleanup
  FL.Flw.NoPanic FL.Flw.NumCfg0 FL.Flw.NumAsync.
From Coq Require Import ZifyN ZifyNat ZifyBool.
Open Scope nat_scope.

(* ------------------------------------------------------------------ 1. the state machine ignores the mode *)
Definition sync_of (c : config) : config :=
  {| c_spec := c_spec c; c_append := c_append c; c_cap := c_cap c; c_rot := c_rot c; c_utc := c_utc c;
     c_symlink := c_symlink c; c_bg := c_bg c; c_async := false; c_start := c_start c |}.
Definition set_mode (s : flw) : flw :=
  {| f_cfg := sync_of (f_cfg s); f_inner := f_inner s; f_poisoned := f_poisoned s |}.

Lemma sync_of_sync c : c_async c = false -> sync_of c = c.
Proof. destruct c; cbn. intros ->. reflexivity. Qed.

Ltac mode_norm :=
  unfold initialize, mount_next, init_naming, latest_timestamp_file, creation_ts_of_current, collision_free, index_for_rcurrent,
    cleanup_or_queue, cleanup_impl, open_log_file, do_symlink, infix_from_ts, name_of, fixed_of, starttxt;
  cbn [sync_of c_spec c_append c_cap c_rot c_utc c_symlink c_bg c_start].

Lemma initialize_mode c w : initialize (sync_of c) w = initialize c w.
Proof. mode_norm. reflexivity. Qed.
Lemma mount_next_mode c w st f : mount_next (sync_of c) w st f = mount_next c w st f.
Proof. mode_norm. reflexivity. Qed.

Lemma write_buffer_mode s w b :
  write_buffer (set_mode s) w b = let '(r, w', s', rot) := write_buffer s w b in (r, w', set_mode s', rot).
Proof.
  unfold write_buffer. cbn [set_mode f_cfg f_inner]. rewrite initialize_mode.
  destruct (f_inner s) as [|o wr p].
  - destruct (initialize (f_cfg s) w) as [[i| |] w0]; try reflexivity.
    rewrite mount_next_mode. destruct (mount_next (f_cfg s) w0 i false) as [[r1 w1] st1].
    destruct r1 as [u| |]; try reflexivity; destruct st1 as [|o1 wr1 p1]; try reflexivity;
      destruct (w_write _ wr1 b) as [[ok w3] wr']; destruct ok; reflexivity.
  - rewrite mount_next_mode. destruct (mount_next (f_cfg s) w (Active o wr p) false) as [[r1 w1] st1].
    destruct r1 as [u| |]; try reflexivity; destruct st1 as [|o1 wr1 p1]; try reflexivity;
      destruct (w_write _ wr1 b) as [[ok w3] wr']; destruct ok; reflexivity.
Qed.

Lemma flush_state_mode s w :
  flush_state (set_mode s) w = let '(ok, w', s') := flush_state s w in (ok, w', set_mode s').
Proof.
  unfold flush_state. cbn [set_mode f_inner]. destruct (f_inner s) as [|o wr p]; [reflexivity|].
  destruct (w_flush w wr) as [[ok w1] wr']. reflexivity.
Qed.

Lemma shutdown_state_mode s w :
  shutdown_state (set_mode s) w = let '(w', s') := shutdown_state s w in (w', set_mode s').
Proof.
  unfold shutdown_state, drain_acts. cbn [set_mode f_inner]. destruct (f_inner s) as [|o wr p]; [reflexivity|].
  destruct (w_flush w wr) as [[ok w1] wr']. reflexivity.
Qed.

Lemma drop_state_mode s w : drop_state (set_mode s) w = drop_state s w.
Proof.
  unfold drop_state. rewrite shutdown_state_mode. destruct (shutdown_state s w) as [w1 s1].
  rewrite shutdown_state_mode. destruct (shutdown_state s1 w1) as [w2 s2]. reflexivity.
Qed.

Lemma ensure_start_mode s w : ensure_start (set_mode s) w = set_mode (ensure_start s w).
Proof.
  unfold ensure_start. cbn [set_mode f_cfg sync_of c_spec c_start]. destruct (fts (c_spec (f_cfg s))); [|reflexivity].
  destruct (c_start (f_cfg s)); reflexivity.
Qed.

(* the operations on the state keep the configuration, and poison the state only with a panic *)
Lemma write_buffer_keeps s w b r w' s' rot : write_buffer s w b = (r, w', s', rot) ->
  f_cfg s' = f_cfg s /\ (r <> Panic -> f_poisoned s' = f_poisoned s).
Proof.
  unfold write_buffer.
  assert (G : forall w0 st0, (let '(r1, w1, st1) := mount_next (f_cfg s) w0 st0 false in
      match r1 with
      | Panic => (Panic, w1, poison (with_inner s st1), match st0 with Active (Some rs) _ _ => rotation_necessary w0 (rs_roll rs) | _ => false end)
      | _ => let w2 := match r1 with Err => report ELogFile w1 | _ => w1 end in
             match st1 with
             | Active o_rot wr path =>
               let '(ok, w3, wr') := w_write w2 wr b in
               if ok then (Ok tt, w3, with_inner s (Active (match o_rot with
                        | Some rs => Some {| rs_naming := rs_naming rs; rs_roll := increase_size (rs_roll rs) (N.of_nat (length b));
                                             rs_cleanup := rs_cleanup rs; rs_bg := rs_bg rs |}
                        | None => None end) wr' path), match st0 with Active (Some rs) _ _ => rotation_necessary w0 (rs_roll rs) | _ => false end)
               else (Err, w3, with_inner s (Active o_rot wr' path), match st0 with Active (Some rs) _ _ => rotation_necessary w0 (rs_roll rs) | _ => false end)
             | Initial => (Ok tt, w2, with_inner s st1, match st0 with Active (Some rs) _ _ => rotation_necessary w0 (rs_roll rs) | _ => false end)
             end
      end) = (r, w', s', rot) -> f_cfg s' = f_cfg s /\ (r <> Panic -> f_poisoned s' = f_poisoned s)).
  { intros w0 st0. destruct (mount_next (f_cfg s) w0 st0 false) as [[r1 w1] st1].
    destruct r1 as [u| |]; try (intros E; injection E as <- _ <- _; split; [reflexivity | congruence]);
      (destruct st1 as [|o1 wr1 p1]; [intros E; injection E as <- _ <- _; split; reflexivity|]); cbv zeta;
      destruct (w_write _ wr1 b) as [[ok w3] wr']; destruct ok; intros E; injection E as <- _ <- _; split; reflexivity. }
  destruct (f_inner s) as [|o wr p].
  - destruct (initialize (f_cfg s) w) as [[i| |] w0].
    + apply G.
    + intros E; injection E as <- _ <- _. split; reflexivity.
    + intros E; injection E as <- _ <- _. split; [reflexivity | congruence].
  - apply G.
Qed.

Lemma flush_state_keeps s w ok w' s' : flush_state s w = (ok, w', s') -> f_cfg s' = f_cfg s /\ f_poisoned s' = f_poisoned s.
Proof.
  unfold flush_state. destruct (f_inner s) as [|o wr p]; [intros E; injection E as _ _ <-; split; reflexivity|].
  destruct (w_flush w wr) as [[ok1 w1] wr']. intros E; injection E as _ _ <-. split; reflexivity.
Qed.

Lemma shutdown_state_keeps s w w' s' : shutdown_state s w = (w', s') -> f_cfg s' = f_cfg s /\ f_poisoned s' = f_poisoned s.
Proof.
  unfold shutdown_state. destruct (f_inner s) as [|o wr p]; [intros E; injection E as _ <-; split; reflexivity|].
  destruct (w_flush (drain_acts s w) wr) as [[ok1 w1] wr']. intros E; injection E as _ <-. split; reflexivity.
Qed.

(* without faults a second shutdown does nothing *)
Lemma shutdown_state_idem s w w1 s1 : quiet w -> shutdown_state s w = (w1, s1) -> shutdown_state s1 w1 = (w1, s1).
Proof.
  intros Q. unfold shutdown_state, drain_acts. destruct (f_inner s) as [|o wr p] eqn:Ei.
  - intros E; injection E as <- <-. rewrite Ei. reflexivity.
  - destruct (w_flush_quiet w wr Q) as [w0 [E0 _]]. rewrite E0. intros E; injection E as <- <-.
    cbn [with_inner f_inner]. unfold w_flush. cbn [wino wpend wcap p_write]. destruct o as [rs|]; reflexivity.
Qed.

Lemma drop_after_shutdown s w w1 s1 : quiet w -> shutdown_state s w = (w1, s1) -> drop_state s1 w1 = drop_state s w.
Proof.
  intros Q E. pose proof (shutdown_state_idem s w w1 s1 Q E) as E1. unfold drop_state. rewrite E, !E1. reflexivity.
Qed.

(* ------------------------------------------------------------------ 2. the simulation *)
(* xa: the system with the asynchronous writer, xs: the one with the synchronous writer.  Same world; same state up
   to the mode; the synchronous caller's thread-local buffer is empty; the writer thread runs *)
Definition Sim (xa xs : sys) : Prop :=
  s_w xs = s_w xa /\ s_tl xs = [] /\ s_dead xa = false /\
  exists s, s_flw xa = Some s /\ s_flw xs = Some (set_mode s) /\ c_async (f_cfg s) = true /\ f_poisoned s = false.

(* the caller of the asynchronous writer does not see the rotation flag *)
Definition no_rot (ob : obs) : obs := match ob with ObsRes code _ => ObsRes code false | _ => ob end.

Lemma apply_start_sim xa xs o : Sim xa xs -> Sim (apply_start xa o) (apply_start xs o).
Proof.
  intros [Ew [Et [Hd [s [Ea [Es [Has Hp]]]]]]]. unfold apply_start. rewrite Ea, Es. cbn [set_mode f_poisoned].
  destruct (names_computed o && negb (f_poisoned s)).
  - split; [exact Ew|]. split; [exact Et|]. split; [exact Hd|]. exists (ensure_start s (s_w xa)). cbn [s_flw].
    split; [reflexivity|]. split; [rewrite Ew; fold (set_mode s); rewrite ensure_start_mode; reflexivity|].
    unfold ensure_start. destruct (fts (c_spec (f_cfg s))); [|split; assumption]. destruct (c_start (f_cfg s)); split; assumption.
  - split; [exact Ew|]. split; [exact Et|]. split; [exact Hd|]. exists s. repeat split; assumption.
Qed.

Lemma step_core_sim xa xs o : Sim xa xs -> basic_op o -> obs_ok (snd (step_core xs o)) ->
  Sim (fst (step_core xa o)) (fst (step_core xs o)) /\ snd (step_core xa o) = no_rot (snd (step_core xs o)).
Proof.
  intros [Ew [Et [Hd [s [Ea [Es [Has Hp]]]]]]] Hb. unfold step_core. rewrite Ea, Es. unfold is_async. cbn [set_mode f_cfg sync_of c_async].
  rewrite Has. fold (set_mode s).
  destruct o; try contradiction; cbn [async_step]; unfold async_send; rewrite ?Hd, ?Hp; cbn [sync_step].
  - (* OWrite *)
    rewrite Es, Et, Ew. cbn [set_mode f_poisoned app]. rewrite Hp. fold (set_mode s). rewrite write_buffer_mode.
    unfold async_consume. destruct (write_buffer s (s_w xa) b) as [[[r w1] s1] rot] eqn:E.
    destruct (write_buffer_keeps _ _ _ _ _ _ _ E) as [K1 K2]. cbn [fst snd no_rot obs_ok].
    destruct r as [u| |]; [| |discriminate]; intros _; (split; [|reflexivity]);
      (split; [reflexivity|]; split; [reflexivity|]; split; [reflexivity|]; exists s1; cbn [s_flw];
       split; [reflexivity|]; split; [reflexivity|]; split; [congruence | rewrite K2; [exact Hp | discriminate]]).
  - (* OPlain *)
    rewrite Es, Ew. cbn [set_mode f_poisoned]. rewrite Hp. fold (set_mode s). rewrite write_buffer_mode.
    unfold async_consume. destruct (write_buffer s (s_w xa) b) as [[[r w1] s1] rot] eqn:E.
    destruct (write_buffer_keeps _ _ _ _ _ _ _ E) as [K1 K2]. cbn [fst snd no_rot obs_ok code_of].
    destruct r as [u| |]; [|discriminate|discriminate]. intros _. split; [|reflexivity].
    split; [reflexivity|]. split; [exact Et|]. split; [reflexivity|]. exists s1. cbn [s_flw].
    split; [reflexivity|]. split; [reflexivity|]. split; [congruence | rewrite K2; [exact Hp | discriminate]].
  - (* OFlush *)
    rewrite Es, Ew. cbn [set_mode f_poisoned]. rewrite Hp. fold (set_mode s). rewrite flush_state_mode.
    unfold async_consume. destruct (flush_state s (s_w xa)) as [[ok w1] s1] eqn:E.
    destruct (flush_state_keeps _ _ _ _ _ E) as [K1 K2]. cbn [fst snd no_rot obs_ok].
    destruct ok; [|discriminate]. intros _. split; [|reflexivity].
    split; [reflexivity|]. split; [exact Et|]. split; [reflexivity|]. exists s1. cbn [s_flw].
    split; [reflexivity|]. split; [reflexivity|]. split; congruence.
  - (* OTrigger: executed by the caller in both modes *)
    rewrite Ea, Es, Ew. cbn [set_mode f_poisoned f_cfg f_inner]. rewrite Hp, mount_next_mode.
    destruct (mount_next (f_cfg s) (s_w xa) (f_inner s) true) as [[r w1] st1]. cbn [fst snd no_rot obs_ok code_of].
    destruct r as [u| |]; [|discriminate|discriminate]. intros _. split; [|reflexivity].
    split; [reflexivity|]. split; [exact Et|]. split; [exact Hd|]. exists (with_inner s st1). cbn [s_flw].
    split; [reflexivity|]. split; [reflexivity|]. split; assumption.
  - (* OTick *)
    intros _. cbn [fst snd no_rot]. rewrite Ew. split; [|reflexivity].
    split; [reflexivity|]. split; [exact Et|]. split; [exact Hd|]. exists s. cbn [s_flw]. repeat split; assumption.
  - (* OSnap *)
    intros _. cbn [fst snd]. rewrite Ew. split; [|reflexivity].
    split; [exact Ew|]. split; [exact Et|]. split; [exact Hd|]. exists s. repeat split; assumption.
Qed.

Lemma step_sim xa xs o : Sim xa xs -> basic_op o -> obs_ok (snd (step xs o)) ->
  Sim (fst (step xa o)) (fst (step xs o)) /\ snd (step xa o) = no_rot (snd (step xs o)).
Proof. intros S. unfold step. apply step_core_sim. apply apply_start_sim. exact S. Qed.

Lemma sim_run : forall ops xa xs, Sim xa xs -> Forall basic_op ops -> Forall obs_ok (snd (run xs ops)) ->
  Sim (fst (run xa ops)) (fst (run xs ops)) /\ snd (run xa ops) = List.map no_rot (snd (run xs ops)).
Proof.
  induction ops as [|o r IH]; intros xa xs S Hb K; [split; [exact S | reflexivity]|].
  inversion Hb as [|o' r' Ho Hr]; subst. cbn [run] in *.
  pose proof (step_sim xa xs o S Ho) as St.
  destruct (step xa o) as [xa1 oba]. destruct (step xs o) as [xs1 obs1]. cbn [fst snd] in St.
  specialize (IH xa1 xs1). destruct (run xa1 r) as [xa2 la]. destruct (run xs1 r) as [xs2 ls]. cbn [fst snd] in *.
  inversion K as [|ob' l' K1 K2]; subst. destruct (St K1) as [S1 E1]. destruct (IH S1 Hr K2) as [S2 E2].
  split; [exact S2|]. cbn [List.map]. rewrite E1, E2. reflexivity.
Qed.

(* ------------------------------------------------------------------ 3. dropping the writer *)
Lemma sim_stop xa xs : Sim xa xs -> quiet (s_w xa) ->
  s_w (fst (step xa OStop)) = s_w (fst (step xs OStop))
  /\ s_flw (fst (step xa OStop)) = None /\ s_flw (fst (step xs OStop)) = None
  /\ s_dead (fst (step xa OStop)) = true
  /\ snd (step xa OStop) = ObsRes 0%N false /\ snd (step xs OStop) = ObsRes 0%N false.
Proof.
  intros S Q. pose proof (apply_start_sim xa xs OStop S) as S'.
  assert (Q' : quiet (s_w (apply_start xa OStop))).
  { unfold apply_start. destruct (s_flw xa); [|exact Q]. cbn [names_computed andb]. exact Q. }
  unfold step. revert S' Q'. generalize (apply_start xa OStop) (apply_start xs OStop). clear. intros xa xs S Q.
  destruct S as [Ew [Et [Hd [s [Ea [Es [Has Hp]]]]]]]. unfold step_core. rewrite Ea, Es. unfold is_async.
  cbn [set_mode f_cfg sync_of c_async]. rewrite Has, Hd, Hp. cbn [orb]. fold (set_mode s).
  unfold async_consume. destruct (shutdown_state s (s_w xa)) as [w1 s1] eqn:E.
  destruct (shutdown_state_keeps _ _ _ _ E) as [K1 K2].
  cbn [sync_step s_flw s_w s_tl]. rewrite Es. cbn [set_mode f_poisoned]. rewrite K2, Hp. fold (set_mode s).
  rewrite Ew, drop_state_mode, (drop_after_shutdown s (s_w xa) w1 s1 Q E). cbn [fst snd s_w s_flw s_dead]. repeat split.
Qed.

(* ------------------------------------------------------------------ whole runs, any configuration *)
Lemma sim_start c t0 off : c_async c = true ->
  Sim (fst (step (sys0 t0 off) (OStart c))) (fst (step (sys0 t0 off) (OStart (sync_of c)))).
Proof.
  intros Ha. cbn. split; [reflexivity|]. split; [reflexivity|]. split; [reflexivity|]. exists (new_flw c).
  repeat split. exact Ha.
Qed.

(* HYPOTHESES: the synchronous run returns normal results only (for the four families of NoPanic.v that is a theorem),
   and, for the drop, there are no faults at that point (part of the families' invariants).
   CONCLUSION: after the history, and after the history and the drop, the two worlds are equal; the observations
   agree up to the rotation flag. *)
Theorem async_sim_whole c t0 off ops :
  c_async c = true -> Forall basic_op ops ->
  let ra := run (sys0 t0 off) (OStart c :: ops) in
  let rs := run (sys0 t0 off) (OStart (sync_of c) :: ops) in
  Forall obs_ok (snd rs) ->
  (s_w (fst ra) = s_w (fst rs) /\ snd ra = List.map no_rot (snd rs) /\ s_dead (fst ra) = false)
  /\ (quiet (s_w (fst rs)) ->
      let ra' := run (sys0 t0 off) (OStart c :: ops ++ [OStop]) in
      let rs' := run (sys0 t0 off) (OStart (sync_of c) :: ops ++ [OStop]) in
      s_w (fst ra') = s_w (fst rs') /\ snd ra' = List.map no_rot (snd rs')
      /\ s_flw (fst ra') = None /\ s_dead (fst ra') = true).
Proof.
  intros Ha Hb. cbn zeta. cbn [run]. pose proof (sim_start c t0 off Ha) as S0.
  assert (O0 : snd (step (sys0 t0 off) (OStart c)) = ObsRes 0%N false) by reflexivity.
  assert (O0' : snd (step (sys0 t0 off) (OStart (sync_of c))) = ObsRes 0%N false) by reflexivity.
  destruct (step (sys0 t0 off) (OStart c)) as [xa0 oa0]. destruct (step (sys0 t0 off) (OStart (sync_of c))) as [xs0 os0].
  cbn [fst snd] in S0, O0, O0'. subst oa0 os0. rewrite !run_app.
  pose proof (sim_run ops xa0 xs0 S0 Hb) as SR.
  destruct (run xa0 ops) as [xa1 la]. destruct (run xs0 ops) as [xs1 ls]. cbn [fst snd] in *.
  intros K. inversion K as [|ob' l' K0 K1]; subst. destruct (SR K1) as [S1 E1].
  split.
  - split; [symmetry; apply S1|]. split; [cbn [List.map no_rot]; rewrite E1; reflexivity | apply S1].
  - intros Q. rewrite (proj1 S1) in Q. destruct (sim_stop xa1 xs1 S1 Q) as [Ew [Fa [Fs [Da [Oa Os]]]]].
    cbn [run]. destruct (step xa1 OStop) as [xa2 oa2]. destruct (step xs1 OStop) as [xs2 os2]. cbn [fst snd] in *. subst oa2 os2.
    split; [exact Ew|]. split; [|split; assumption].
    cbn [List.map no_rot]. rewrite E1, map_app. reflexivity.
Qed.

(* ------------------------------------------------------------------ 4. the families *)
Lemma numacfg_sync c crit : numacfg c crit -> numcfg (sync_of c) crit /\ c_async c = true.
Proof. intros [H1 [H2 [H3 H4]]]. repeat split; assumption. Qed.

Lemma rel_quiet c crit x a : Rel c crit x a -> quiet (s_w x).
Proof. intros [_ [_ R]]. destruct a as [[cl cu]|]; [destruct R as [wr [roll [_ [I _]]]]; apply I | apply R]. Qed.

(* Numbers naming, no cleanup: every criterion, capacity, history of basic operations.  The asynchronous writer and
   the synchronous writer with the same capacity go through the same worlds; as every prefix of a history is a
   history, this holds at every point of the run - in particular the snapshots taken before a flush are the same *)
Theorem async_worlds_numbers c crit t0 off ops :
  numacfg c crit -> Forall basic_op ops ->
  let ra := run (sys0 t0 off) (OStart c :: ops) in
  let rs := run (sys0 t0 off) (OStart (sync_of c) :: ops) in
  let ra' := run (sys0 t0 off) (OStart c :: ops ++ [OStop]) in
  let rs' := run (sys0 t0 off) (OStart (sync_of c) :: ops ++ [OStop]) in
  s_w (fst ra) = s_w (fst rs) /\ snd ra = List.map no_rot (snd rs)
  /\ s_w (fst ra') = s_w (fst rs') /\ snd ra' = List.map no_rot (snd rs').
Proof.
  intros Hcfg Hb. destruct (numacfg_sync c crit Hcfg) as [Hs Ha]. cbn zeta.
  assert (K : Forall obs_ok (snd (run (sys0 t0 off) (OStart (sync_of c) :: ops))) /\
              quiet (s_w (fst (run (sys0 t0 off) (OStart (sync_of c) :: ops))))).
  { cbn [run]. pose proof (start_rel (sync_of c) crit t0 off) as R0.
    assert (O0 : snd (step (sys0 t0 off) (OStart (sync_of c))) = ObsRes 0%N false) by reflexivity.
    destruct (step (sys0 t0 off) (OStart (sync_of c))) as [x0 ob0]. cbn [fst snd] in R0, O0. subst ob0.
    pose proof (run_rel _ crit Hs ops x0 None R0 Hb) as R1. pose proof (run_ok _ crit Hs ops x0 None R0 Hb) as K1.
    destruct (run x0 ops) as [x1 obs1]. cbn [fst snd] in *. split; [constructor; [reflexivity | exact K1]|].
    exact (rel_quiet _ _ _ _ R1). }
  destruct K as [K Q]. destruct (async_sim_whole c t0 off ops Ha Hb K) as [[E1 [E2 _]] St]. destruct (St Q) as [E3 [E4 _]].
  repeat split; assumption.
Qed.

(* NumbersDirect naming *)
Theorem async_worlds_numbersdirect c crit t0 off ops :
  c_async c = true -> numdcfg (sync_of c) crit -> Forall basic_op ops ->
  let ra' := run (sys0 t0 off) (OStart c :: ops ++ [OStop]) in
  let rs' := run (sys0 t0 off) (OStart (sync_of c) :: ops ++ [OStop]) in
  s_w (fst ra') = s_w (fst rs') /\ snd ra' = List.map no_rot (snd rs').
Proof.
  intros Ha Hs Hb. cbn zeta.
  assert (K : Forall obs_ok (snd (run (sys0 t0 off) (OStart (sync_of c) :: ops))) /\
              quiet (s_w (fst (run (sys0 t0 off) (OStart (sync_of c) :: ops))))).
  { cbn [run]. pose proof (start_rel_d (sync_of c) crit t0 off) as R0.
    assert (O0 : snd (step (sys0 t0 off) (OStart (sync_of c))) = ObsRes 0%N false) by reflexivity.
    destruct (step (sys0 t0 off) (OStart (sync_of c))) as [x0 ob0]. cbn [fst snd] in R0, O0. subst ob0.
    pose proof (run_rel_d _ crit Hs ops x0 None R0 Hb) as R1. pose proof (run_ok_d _ crit Hs ops x0 None R0 Hb) as K1.
    destruct (run x0 ops) as [x1 obs1]. cbn [fst snd] in *. split; [constructor; [reflexivity | exact K1]|].
    destruct R1 as [_ [_ R1]]. destruct (a_run None ops obs1) as [[cl cu]|]; [destruct R1 as [wr [roll [_ [I _]]]]; apply I | apply R1]. }
  destruct K as [K Q]. destruct (async_sim_whole c t0 off ops Ha Hb K) as [_ St]. destruct (St Q) as [E3 [E4 _]].
  split; assumption.
Qed.

(* Numbers naming with a cleanup strategy (side condition of numbers_cleanup_stream) *)
Theorem async_worlds_numbers_cleanup c crit k t0 off ops :
  c_async c = true -> numkcfg (sync_of c) crit k -> Forall basic_op ops ->
  kside (sync_of c) k (nclosed (a_run None ops (snd (run (fst (step (sys0 t0 off) (OStart (sync_of c)))) ops)))) ->
  let ra' := run (sys0 t0 off) (OStart c :: ops ++ [OStop]) in
  let rs' := run (sys0 t0 off) (OStart (sync_of c) :: ops ++ [OStop]) in
  s_w (fst ra') = s_w (fst rs') /\ snd ra' = List.map no_rot (snd rs').
Proof.
  intros Ha Hs Hb Hside. cbn zeta.
  assert (K : Forall obs_ok (snd (run (sys0 t0 off) (OStart (sync_of c) :: ops))) /\
              quiet (s_w (fst (run (sys0 t0 off) (OStart (sync_of c) :: ops))))).
  { cbn [run]. pose proof (start_rel_k (sync_of c) crit k t0 off) as R0.
    assert (O0 : snd (step (sys0 t0 off) (OStart (sync_of c))) = ObsRes 0%N false) by reflexivity.
    destruct (step (sys0 t0 off) (OStart (sync_of c))) as [x0 ob0]. cbn [fst snd] in R0, O0, Hside. subst ob0.
    pose proof (run_rel_k _ crit k Hs ops x0 None R0 Hb Hside) as R1. pose proof (run_ok_k _ crit k Hs ops x0 None R0 Hb Hside) as K1.
    destruct (run x0 ops) as [x1 obs1]. cbn [fst snd] in *. split; [constructor; [reflexivity | exact K1]|].
    destruct R1 as [_ [_ R1]]. destruct (a_run None ops obs1) as [[cl cu]|]; [destruct R1 as [wr [roll [_ [I _]]]]; apply I | apply R1]. }
  destruct K as [K Q]. destruct (async_sim_whole c t0 off ops Ha Hb K) as [_ St]. destruct (St Q) as [E3 [E4 _]].
  split; assumption.
Qed.

(* Timestamps naming (hypotheses of timestamps_stream) *)
Theorem async_worlds_timestamps c crit t0 off ops :
  c_async c = true -> tscfg (sync_of c) crit -> tag_ok (sync_of c) -> Forall basic_op ops -> Forall tick_ok ops ->
  (0 <= t0 + ts_e (sync_of c) off)%Z -> (t0 + elapsed ops + ts_e (sync_of c) off < sec_max)%Z -> (N.of_nat (length ops) <= usize_max)%N ->
  let ra' := run (sys0 t0 off) (OStart c :: ops ++ [OStop]) in
  let rs' := run (sys0 t0 off) (OStart (sync_of c) :: ops ++ [OStop]) in
  s_w (fst ra') = s_w (fst rs') /\ snd ra' = List.map no_rot (snd rs').
Proof.
  intros Ha Hs T Hb Htk Hlo Hhi Hmax. cbn zeta.
  assert (K : Forall obs_ok (snd (run (sys0 t0 off) (OStart (sync_of c) :: ops))) /\
              quiet (s_w (fst (run (sys0 t0 off) (OStart (sync_of c) :: ops))))).
  { cbn [run]. pose proof (start_rel_ts (sync_of c) t0 off) as R0.
    assert (O0 : snd (step (sys0 t0 off) (OStart (sync_of c))) = ObsRes 0%N false) by reflexivity.
    assert (W0 : wnow (s_w (fst (step (sys0 t0 off) (OStart (sync_of c))))) = t0) by reflexivity.
    destruct (step (sys0 t0 off) (OStart (sync_of c))) as [x0 ob0]. cbn [fst snd] in R0, O0, W0. subst ob0.
    assert (Y : years_ok (ts_e (sync_of c) off) t0 (t0 + elapsed ops)) by (split; assumption).
    pose proof (run_rel_ts _ crit _ _ _ Hs T Y ops x0 None 0 R0 Hb Htk ltac:(lia) ltac:(cbn [Nat.add]; exact Hmax)) as [R1 W1].
    pose proof (run_ok_ts _ crit _ _ _ Hs T Y ops x0 None 0 R0 Hb Htk ltac:(lia) ltac:(cbn [Nat.add]; exact Hmax)) as K1.
    destruct (run x0 ops) as [x1 obs1]. cbn [fst snd] in *. split; [constructor; [reflexivity | exact K1]|].
    destruct R1 as [_ [_ R1]]. destruct (a_run None ops obs1) as [[cl cu]|]; [destruct R1 as [keys [wr [roll [ts [_ [I _]]]]]]; apply I | apply R1]. }
  destruct K as [K Q]. destruct (async_sim_whole c t0 off ops Ha Hb K) as [_ St]. destruct (St Q) as [E3 [E4 _]].
  split; assumption.
Qed.

(* ------------------------------------------------------------------ 5. the theorems of the synchronous families, transferred
   The hypothesis  Xcfg (sync_of c) crit  says: c is a configuration of the family but for the mode.  The views
   (reads, direct_view, ts_view) mention the configuration only through the file names, which do not depend on the mode:
   "view (sync_of c)" and "view c" are convertible. *)
Theorem async_numbers_stream_via_sim c crit t0 off ops :
  numacfg c crit -> Forall basic_op ops ->
  exists files, reads c (wfs (s_w (fst (run (sys0 t0 off) (OStart c :: ops ++ [OStop]))))) files
    /\ concat files = written ops.
Proof.
  intros Hcfg Hb. destruct (async_worlds_numbers c crit t0 off ops Hcfg Hb) as [_ [_ [E _]]]. cbn zeta in E. rewrite E.
  change (reads c) with (reads (sync_of c)). apply (numbers_stream (sync_of c) crit); [apply numacfg_sync; exact Hcfg | exact Hb].
Qed.

Theorem async_numbersdirect_stream c crit t0 off ops :
  c_async c = true -> numdcfg (sync_of c) crit -> Forall basic_op ops ->
  exists files, direct_view c (wfs (s_w (fst (run (sys0 t0 off) (OStart c :: ops ++ [OStop]))))) files
    /\ concat files = written ops.
Proof.
  intros Ha Hs Hb. destruct (async_worlds_numbersdirect c crit t0 off ops Ha Hs Hb) as [E _]. cbn zeta in E. rewrite E.
  change (direct_view c) with (direct_view (sync_of c)). apply (numbersdirect_stream (sync_of c) crit); assumption.
Qed.

Theorem async_numbersdirect_partition c m t0 off ops :
  c_async c = true -> numdcfg (sync_of c) (CSize m) -> Forall basic_op ops ->
  direct_view c (wfs (s_w (fst (run (sys0 t0 off) (OStart c :: ops ++ [OStop]))))) (expected_files m None (items false ops)).
Proof.
  intros Ha Hs Hb. destruct (async_worlds_numbersdirect c (CSize m) t0 off ops Ha Hs Hb) as [E _]. cbn zeta in E. rewrite E.
  change (direct_view c) with (direct_view (sync_of c)). apply (numbersdirect_partition (sync_of c) m); assumption.
Qed.

Theorem async_timestamps_stream c crit t0 off ops :
  c_async c = true -> tscfg (sync_of c) crit -> tag_ok c -> Forall basic_op ops -> Forall tick_ok ops ->
  (0 <= t0 + ts_e c off)%Z -> (t0 + elapsed ops + ts_e c off < sec_max)%Z -> (N.of_nat (length ops) <= usize_max)%N ->
  let f := wfs (s_w (fst (run (sys0 t0 off) (OStart c :: ops ++ [OStop])))) in
  (names f = [] /\ written ops = [])
  \/ exists keys closed cur,
       ts_view c (ts_e c off) f keys closed cur
       /\ concat closed ++ cur = written ops
       /\ keys_ok keys.
Proof.
  intros Ha Hs T Hb Htk Hlo Hhi Hmax. cbn zeta.
  destruct (async_worlds_timestamps c crit t0 off ops Ha Hs T Hb Htk Hlo Hhi Hmax) as [E _]. cbn zeta in E. rewrite E.
  pose proof (timestamps_stream (sync_of c) crit t0 off ops Hs T Hb Htk Hlo Hhi Hmax) as H. cbn zeta in H.
  destruct H as [H|[keys [closed [cur H]]]]; [left; exact H|]. right. exists keys, closed, cur.
  destruct H as [V [F [K _]]]. split; [exact V|]. split; assumption.
Qed.

Theorem async_numbers_cleanup_partition c k m t0 off ops :
  c_async c = true -> numkcfg (sync_of c) (CSize m) k -> Forall basic_op ops ->
  kside (sync_of c) k (nclosed (s_run m None ops)) ->
  let f := wfs (s_w (fst (run (sys0 t0 off) (OStart c :: ops ++ [OStop])))) in
  match s_run m None ops with
  | None => names f = []
  | Some (closed, cur) =>
    closed ++ [cur] = expected_files m None (items false ops)
    /\ kreader_view (sync_of c) f closed cur (k_lo k (length closed)) (k_mid k (length closed))
  end.
Proof.
  intros Ha Hs Hb Hside. cbn zeta.
  pose proof (numbers_cleanup_partition (sync_of c) k m t0 off ops Hs Hb Hside) as H. cbn zeta in H.
  assert (Hside' : kside (sync_of c) k (nclosed (a_run None ops (snd (run (fst (step (sys0 t0 off) (OStart (sync_of c)))) ops))))).
  { pose proof (start_rel_k (sync_of c) (CSize m) k t0 off) as R0.
    rewrite (run_size_k' (sync_of c) k m Hs ops _ None R0 Hb Hside). exact Hside. }
  destruct (async_worlds_numbers_cleanup c (CSize m) k t0 off ops Ha Hs Hb Hside') as [E _]. cbn zeta in E. rewrite E.
  exact H.
Qed.

Print Assumptions async_sim_whole.
Print Assumptions async_worlds_numbers.
Print Assumptions async_worlds_numbersdirect.
Print Assumptions async_worlds_numbers_cleanup.
Print Assumptions async_worlds_timestamps.
Print Assumptions async_numbers_stream_via_sim.
Print Assumptions async_numbersdirect_stream.
Print Assumptions async_numbersdirect_partition.
Print Assumptions async_timestamps_stream.
Print Assumptions async_numbers_cleanup_partition.

(* ------------------------------------------------------------------ examples *)
Section Examples.
Open Scope N_scope.
Example ex_sync_of : sync_of ex_async = ex_buffered /\ sync_of ex_async_unbuffered = ex_direct.
Proof. split; reflexivity. Qed.

(* instance of async_worlds_numbers: hypotheses, and the conclusion for the history of NumAsync.v *)
Example ex_worlds_instance :
  let ra' := run (sys0 0 0) (OStart ex_async :: ex_hist ++ [OStop]) in
  let rs' := run (sys0 0 0) (OStart ex_buffered :: ex_hist ++ [OStop]) in
  s_w (fst ra') = s_w (fst rs') /\ snd ra' = List.map no_rot (snd rs').
Proof.
  destruct (async_worlds_numbers ex_async (CSize 3) 0 0 ex_hist) as [_ [_ [E1 E2]]];
    [repeat split | repeat constructor | split; assumption].
Qed.

(* the hypothesis "the synchronous run returns normal results" of sim_run / async_sim_whole cannot be dropped:
   with an injected fault (OSetFaults is not a basic operation) the failing raw write is returned to the caller by the
   synchronous handle (code 1, nothing on the error channel), whereas the asynchronous caller gets Ok and the writer
   thread reports the failure on the error channel; likewise for a failing flush *)
Definition ex_hist_fault : list op := [OWrite [1;10]; OSetFaults [true]; OPlain [2]; OFlush].
Example ex_fault_write :
  (werrs (s_w (fst (run (sys0 0 0) (OStart ex_async_unbuffered :: ex_hist_fault)))),
   snd (run (sys0 0 0) (OStart ex_async_unbuffered :: ex_hist_fault)))
  = ([EWrite], [ObsRes 0 false; ObsRes 0 false; ObsRes 0 false; ObsRes 0 false; ObsRes 0 false])
  /\ (werrs (s_w (fst (run (sys0 0 0) (OStart ex_direct :: ex_hist_fault)))),
      snd (run (sys0 0 0) (OStart ex_direct :: ex_hist_fault)))
  = ([], [ObsRes 0 false; ObsRes 0 false; ObsRes 0 false; ObsRes 1 false; ObsRes 0 false]).
Proof. split; vm_compute; reflexivity. Qed.

Definition ex_hist_fault_flush : list op := [OWrite [1;10]; OSetFaults [true]; OFlush].
Example ex_fault_flush :
  (werrs (s_w (fst (run (sys0 0 0) (OStart ex_async :: ex_hist_fault_flush)))),
   snd (run (sys0 0 0) (OStart ex_async :: ex_hist_fault_flush)))
  = ([EFlush], [ObsRes 0 false; ObsRes 0 false; ObsRes 0 false; ObsRes 0 false])
  /\ (werrs (s_w (fst (run (sys0 0 0) (OStart ex_buffered :: ex_hist_fault_flush)))),
      snd (run (sys0 0 0) (OStart ex_buffered :: ex_hist_fault_flush)))
  = ([], [ObsRes 0 false; ObsRes 0 false; ObsRes 0 false; ObsRes 1 false]).
Proof. split; vm_compute; reflexivity. Qed.
End Examples.
