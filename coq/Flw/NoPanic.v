(* "No operation panics, whatever the history": under the hypotheses of the stream theorems every observation of a whole
   run  OStart c :: ops ++ [OStop]  is a normal result - ObsRes 0 _ for an operation, a snapshot for OSnap - never
   code 1 (error result), 2 (panic) or 3 (no writer).  Numbers (with and without cleanup), NumbersDirect, Timestamps. *)
Require Import FL.Base.Bytes FL.Base.BytesFacts FL.Base.PathName FL.Fs.Fs FL.Fs.FsFacts FL.Time.Civil FL.Time.TsFormat
  FL.Names.FileSpec FL.Names.NamesFacts FL.Flw.Model FL.Flw.ModelFacts FL.Flw.NumFs FL.Flw.NumInv FL.Flw.Run FL.Flw.RunFacts
  FL.Flw.NumRun FL.Oracles.O_Flw FL.Flw.NumTheorems FL.Flw.NumListing FL.Flw.NumRestart FL.Flw.NumKillRestart
  FL.Flw.NumDInv FL.Flw.NumDRun FL.Flw.NumDTheorems
  FL.Flw.TsCal FL.Flw.TsTime FL.Flw.TsNames FL.Flw.TsInv FL.Flw.TsRun FL.Flw.TsTheorems
  FL.Flw.CleanupFacts FL.Flw.NumCleanupNames FL.Flw.NumCleanupStep FL.Flw.NumCleanupRun FL.Flw.NumCleanup.
From Coq Require Import ZifyN ZifyNat ZifyBool.
Open Scope nat_scope.

(* the observation has the shape that belongs to the operation, with code 0 *)
Definition obs_normal (o : op) (ob : obs) : Prop :=
  match o with
  | OSnap => exists files link errs, ob = ObsSnap files link errs
  | OQuery _ => exists l, ob = ObsList 0%N l
  | _ => exists rot, ob = ObsRes 0%N rot
  end.

Lemma obs_normal_ok o ob : obs_normal o ob -> obs_ok ob.
Proof. destruct o; cbn [obs_normal]; intros H; try (destruct H as [r ->]; reflexivity). destruct H as [f [l [e ->]]]. exact I. Qed.

(* for the operations of these histories the shape follows from obs_ok: it is decided by the operation alone *)
Lemma basic_shape x o : basic_op o -> obs_ok (snd (step x o)) -> obs_normal o (snd (step x o)).
Proof.
  intros Hb. unfold step, step_core.
  set (x1 := apply_start x o). clearbody x1.
  assert (S : forall y, obs_ok (snd (sync_step y o)) -> obs_normal o (snd (sync_step y o))).
  { intros y. destruct o; try contradiction; cbn [sync_step obs_normal].
    - destruct (s_flw y) as [s|]; [|cbn; discriminate]. destruct (f_poisoned s); [cbn; discriminate|].
      destruct (write_buffer s (s_w y) (s_tl y ++ b)) as [[[r w1] s1] rot]. cbn [snd obs_ok]. intros ->. eauto.
    - destruct (s_flw y) as [s|]; [|cbn; discriminate]. destruct (f_poisoned s); [cbn; discriminate|].
      destruct (write_buffer s (s_w y) b) as [[[r w1] s1] rot]. cbn [snd obs_ok]. intros ->. eauto.
    - destruct (s_flw y) as [s|]; [|cbn; discriminate]. destruct (f_poisoned s); [cbn; eauto|].
      destruct (flush_state s (s_w y)) as [[ok w1] s1]. cbn [snd obs_ok]. intros ->. eauto.
    - destruct (s_flw y) as [s|]; [|cbn; discriminate]. destruct (f_poisoned s); [cbn; discriminate|].
      destruct (mount_next (f_cfg s) (s_w y) (f_inner s) true) as [[r w1] st1]. cbn [snd obs_ok]. intros ->. eauto.
    - cbn. eauto.
    - intros _. unfold snapshot. cbn [snd]. do 3 eexists. reflexivity. }
  destruct (s_flw x1) as [s|]; [|apply S]. destruct (is_async s); [|apply S].
  destruct o; try contradiction; cbn [async_step]; try apply S.
  - unfold async_send. destruct (s_dead x1); [cbn; eauto|]. destruct (f_poisoned s); cbn; eauto.
  - unfold async_send. destruct (s_dead x1); [cbn; discriminate|]. destruct (f_poisoned s); cbn; eauto.
  - unfold async_send. destruct (s_dead x1); [cbn; eauto|]. destruct (f_poisoned s); cbn; eauto.
Qed.

(* ------------------------------------------------------------------ Numbers, no cleanup *)
Lemma run_ok c crit : numcfg c crit -> forall ops x a, Rel c crit x a -> Forall basic_op ops -> Forall obs_ok (snd (run x ops)).
Proof.
  intros Hcfg. induction ops as [|o r IH]; intros x a R Hb; [constructor|].
  cbn [run]. inversion Hb as [|o' r' Ho Hr]; subst.
  pose proof (step_rel c crit x a o Hcfg R Ho) as S. pose proof (step_rel_ok c crit x a o Hcfg R Ho) as K.
  destruct (step x o) as [x1 ob]. destruct S as [R1 _]. specialize (IH x1 _ R1 Hr). destruct (run x1 r) as [x2 obs].
  cbn [snd] in *. constructor; assumption.
Qed.

Lemma stop_ok c crit x a : numcfg c crit -> Rel c crit x a -> snd (step x OStop) = ObsRes 0%N false.
Proof.
  intros Hcfg R. rewrite (step_sync_rel c crit x a OStop Hcfg R). cbn [sync_step]. destruct R as [_ [_ R]].
  destruct a as [[cl cu]|]; [destruct R as [wr [roll [Es _]]] | destruct R as [Es _]]; rewrite Es; reflexivity.
Qed.

Theorem numbers_no_panic c crit t0 off ops :
  numcfg c crit -> Forall basic_op ops ->
  Forall obs_ok (snd (run (sys0 t0 off) (OStart c :: ops ++ [OStop]))).
Proof.
  intros Hcfg Hb. cbn [run]. destruct (step (sys0 t0 off) (OStart c)) as [x0 ob0] eqn:E0.
  pose proof (start_rel c crit t0 off) as R0. rewrite E0 in R0. cbn [fst] in R0.
  assert (K0 : obs_ok ob0) by (cbn in E0; injection E0 as _ <-; reflexivity).
  rewrite run_app. pose proof (run_rel c crit Hcfg ops x0 None R0 Hb) as R1. pose proof (run_ok c crit Hcfg ops x0 None R0 Hb) as K1.
  destruct (run x0 ops) as [x1 obs1]. cbn [fst snd] in *.
  pose proof (stop_ok c crit x1 _ Hcfg R1) as K2. cbn [run]. destruct (step x1 OStop) as [x2 ob2]. cbn [snd] in *.
  constructor; [exact K0|]. apply Forall_app. split; [exact K1|]. subst ob2. repeat constructor.
Qed.
Print Assumptions numbers_no_panic.

(* ------------------------------------------------------------------ a generic corollary: the shapes, position by position *)
Lemma run_shapes : forall ops x, Forall basic_op ops -> Forall obs_ok (snd (run x ops)) -> Forall2 obs_normal ops (snd (run x ops)).
Proof.
  induction ops as [|o r IH]; intros x Hb K; [constructor|].
  inversion Hb as [|o' r' Ho Hr]; subst. cbn [run] in *. pose proof (basic_shape x o Ho) as Sh.
  destruct (step x o) as [x1 ob]. specialize (IH x1 Hr). destruct (run x1 r) as [x2 obs]. cbn [snd] in *.
  inversion K as [|ob' obs' K1 K2]; subst. constructor; [exact (Sh K1) | exact (IH K2)].
Qed.

Lemma stop_res x : exists code, snd (step x OStop) = ObsRes code false.
Proof.
  unfold step, step_core. set (x1 := apply_start x OStop). clearbody x1.
  assert (S : forall y, exists code, snd (sync_step y OStop) = ObsRes code false).
  { intros y. cbn [sync_step]. destruct (s_flw y); cbn; eauto. }
  destruct (s_flw x1) as [s|]; [|apply S]. destruct (is_async s); apply S.
Qed.

Lemma whole_run_shapes c t0 off ops : Forall basic_op ops ->
  Forall obs_ok (snd (run (sys0 t0 off) (OStart c :: ops ++ [OStop]))) ->
  Forall2 obs_normal (OStart c :: ops ++ [OStop]) (snd (run (sys0 t0 off) (OStart c :: ops ++ [OStop]))).
Proof.
  intros Hb K. cbn [run] in *. destruct (step (sys0 t0 off) (OStart c)) as [x0 ob0] eqn:E0.
  assert (Eob : ob0 = ObsRes 0%N false) by (cbn in E0; injection E0 as _ <-; reflexivity).
  rewrite run_app in *. pose proof (run_shapes ops x0 Hb) as Sh. destruct (run x0 ops) as [x1 obs1]. cbn [run] in *.
  pose proof (stop_res x1) as [code Est].
  destruct (step x1 OStop) as [x2 ob2]. cbn [snd] in *. subst ob2.
  inversion K as [|a b K0 K1]; subst. apply Forall_app in K1. destruct K1 as [K1 K2]. inversion K2 as [|a b K3 _]; subst.
  constructor; [cbn; eauto|]. apply Forall2_app; [exact (Sh K1)|]. constructor; [cbn in K3; subst code; cbn; eauto | constructor].
Qed.

Corollary numbers_no_panic_shapes c crit t0 off ops :
  numcfg c crit -> Forall basic_op ops ->
  Forall2 obs_normal (OStart c :: ops ++ [OStop]) (snd (run (sys0 t0 off) (OStart c :: ops ++ [OStop]))).
Proof. intros Hcfg Hb. apply whole_run_shapes; [exact Hb | exact (numbers_no_panic c crit t0 off ops Hcfg Hb)]. Qed.
Print Assumptions numbers_no_panic_shapes.

(* ------------------------------------------------------------------ NumbersDirect *)
Lemma step_rel_d_ok c crit x a o : numdcfg c crit -> RelD c crit x a -> basic_op o -> obs_ok (snd (step x o)).
Proof.
  intros Hcfg R Hb. rewrite (step_sync_rel_d c crit x a o Hcfg R). destruct o; try contradiction; cbn [sync_step].
  - destruct (write_rel_d c crit x a b Hcfg R) as [s [w' [s' [rot [Es [Hp [E _]]]]]]].
    rewrite Es, Hp. rewrite (proj1 R). cbn [app]. rewrite E. reflexivity.
  - destruct (write_rel_d c crit x a b Hcfg R) as [s [w' [s' [rot [Es [Hp [E _]]]]]]].
    rewrite Es, Hp, E. reflexivity.
  - destruct R as [Ht [Ha R]]. destruct a as [[closed cur]|].
    + destruct R as [wr [roll [Es [I _]]]]. rewrite Es. cbn [st_of_d f_poisoned].
      destruct (flush_active_d c (s_w x) wr closed roll I) as [w' [wr' [E _]]].
      fold (st_of_d c (length closed) roll wr). rewrite E. reflexivity.
    + destruct R as [Es R]. rewrite Es. reflexivity.
  - destruct R as [Ht [Ha R]]. destruct a as [[closed cur]|].
    + destruct R as [wr [roll [Es [I _]]]]. rewrite Es. cbn [st_of_d f_poisoned f_cfg f_inner].
      destruct (mount_next_rotates_d c crit (s_w x) wr closed roll true Hcfg I eq_refl) as [w' [wr' [roll' [E _]]]].
      rewrite E. reflexivity.
    + destruct R as [Es R]. rewrite Es. reflexivity.
  - reflexivity.
  - cbn [snd snapshot obs_ok]. exact I.
Qed.

Lemma run_ok_d c crit : numdcfg c crit -> forall ops x a, RelD c crit x a -> Forall basic_op ops -> Forall obs_ok (snd (run x ops)).
Proof.
  intros Hcfg. induction ops as [|o r IH]; intros x a R Hb; [constructor|].
  cbn [run]. inversion Hb as [|o' r' Ho Hr]; subst.
  pose proof (step_rel_d c crit x a o Hcfg R Ho) as S. pose proof (step_rel_d_ok c crit x a o Hcfg R Ho) as K.
  destruct (step x o) as [x1 ob]. destruct S as [R1 _]. specialize (IH x1 _ R1 Hr). destruct (run x1 r) as [x2 obs].
  cbn [snd] in *. constructor; assumption.
Qed.

Lemma stop_ok_d c crit x a : numdcfg c crit -> RelD c crit x a -> snd (step x OStop) = ObsRes 0%N false.
Proof.
  intros Hcfg R. rewrite (step_sync_rel_d c crit x a OStop Hcfg R). cbn [sync_step]. destruct R as [_ [_ R]].
  destruct a as [[cl cu]|]; [destruct R as [wr [roll [Es _]]] | destruct R as [Es _]]; rewrite Es; reflexivity.
Qed.

Theorem numbersdirect_no_panic c crit t0 off ops :
  numdcfg c crit -> Forall basic_op ops ->
  Forall obs_ok (snd (run (sys0 t0 off) (OStart c :: ops ++ [OStop]))).
Proof.
  intros Hcfg Hb. cbn [run]. destruct (step (sys0 t0 off) (OStart c)) as [x0 ob0] eqn:E0.
  pose proof (start_rel_d c crit t0 off) as R0. rewrite E0 in R0. cbn [fst] in R0.
  assert (K0 : obs_ok ob0) by (cbn in E0; injection E0 as _ <-; reflexivity).
  rewrite run_app. pose proof (run_rel_d c crit Hcfg ops x0 None R0 Hb) as R1. pose proof (run_ok_d c crit Hcfg ops x0 None R0 Hb) as K1.
  destruct (run x0 ops) as [x1 obs1]. cbn [fst snd] in *.
  pose proof (stop_ok_d c crit x1 _ Hcfg R1) as K2. cbn [run]. destruct (step x1 OStop) as [x2 ob2]. cbn [snd] in *.
  constructor; [exact K0|]. apply Forall_app. split; [exact K1|]. subst ob2. repeat constructor.
Qed.
Print Assumptions numbersdirect_no_panic.

Corollary numbersdirect_no_panic_shapes c crit t0 off ops :
  numdcfg c crit -> Forall basic_op ops ->
  Forall2 obs_normal (OStart c :: ops ++ [OStop]) (snd (run (sys0 t0 off) (OStart c :: ops ++ [OStop]))).
Proof. intros Hcfg Hb. apply whole_run_shapes; [exact Hb | exact (numbersdirect_no_panic c crit t0 off ops Hcfg Hb)]. Qed.

(* ------------------------------------------------------------------ Timestamps *)
Lemma step_rel_ts_ok c crit e lo hi n x a o :
  tscfg c crit -> tag_ok c -> years_ok e lo hi -> RelT c e lo n x a -> basic_op o -> tick_ok o ->
  (wnow (s_w x) <= hi)%Z -> (N.of_nat n <= usize_max)%N -> obs_ok (snd (step x o)).
Proof.
  intros Hcfg T Y R Hb Htk Hhi Hmax. rewrite (step_sync_rel_ts c crit e lo n x a o Hcfg R). destruct o; try contradiction; cbn [sync_step].
  - destruct (write_rel_ts c crit e lo hi n x a b Hcfg T Y R Hhi Hmax) as [s [w' [s' [rot [Es [Hp [E _]]]]]]].
    rewrite Es, Hp. rewrite (proj1 R). cbn [app]. rewrite E. reflexivity.
  - destruct (write_rel_ts c crit e lo hi n x a b Hcfg T Y R Hhi Hmax) as [s [w' [s' [rot [Es [Hp [E _]]]]]]].
    rewrite Es, Hp, E. reflexivity.
  - destruct R as [Ht [Ha R]]. destruct a as [[closed cur]|].
    + destruct R as [keys [wr [roll [ts [Es [I _]]]]]]. rewrite Es. cbn [st_ts f_poisoned].
      destruct (flush_active_ts c e lo (s_w x) wr keys closed ts roll I) as [w' [wr' [E _]]].
      fold (st_ts c ts roll wr). rewrite E. reflexivity.
    + destruct R as [Es R]. rewrite Es. reflexivity.
  - destruct R as [Ht [Ha R]]. destruct a as [[closed cur]|].
    + destruct R as [keys [wr [roll [ts [Es [I [V Hn]]]]]]]. rewrite Es. cbn [st_ts f_poisoned f_cfg f_inner].
      destruct (mount_next_rotates_ts c crit e lo hi (s_w x) wr keys closed ts roll true Hcfg T Y I Hhi ltac:(lia) eq_refl)
        as [w' [wr' [roll' [E _]]]].
      rewrite E. reflexivity.
    + destruct R as [Es R]. rewrite Es. reflexivity.
  - reflexivity.
  - cbn [snd snapshot obs_ok]. exact I.
Qed.

Lemma run_ok_ts c crit e lo hi : tscfg c crit -> tag_ok c -> years_ok e lo hi ->
  forall ops x a n, RelT c e lo n x a -> Forall basic_op ops -> Forall tick_ok ops ->
  (wnow (s_w x) + elapsed ops <= hi)%Z -> (N.of_nat (n + length ops) <= usize_max)%N ->
  Forall obs_ok (snd (run x ops)).
Proof.
  intros Hcfg T Y. induction ops as [|o r IH]; intros x a n R Hb Htk Hhi Hmax; [constructor|].
  cbn [run]. inversion Hb as [|o' r' Ho Hr]; subst. inversion Htk as [|o' r' Hto Htr]; subst.
  cbn [elapsed length] in *. pose proof (elapsed_nonneg r Htr) as Er.
  assert (Hdt : (0 <= dt_of o)%Z) by (destruct o; cbn [dt_of tick_ok] in *; lia).
  pose proof (step_rel_ts c crit e lo hi n x a o Hcfg T Y R Ho Hto ltac:(lia) ltac:(lia)) as S.
  pose proof (step_rel_ts_ok c crit e lo hi n x a o Hcfg T Y R Ho Hto ltac:(lia) ltac:(lia)) as K.
  destruct (step x o) as [x1 ob].
  destruct S as [R1 W1]. specialize (IH x1 _ (S n) R1 Hr Htr ltac:(lia) ltac:(lia)). destruct (run x1 r) as [x2 obs].
  cbn [snd] in *. constructor; assumption.
Qed.

Lemma stop_ok_ts c crit e lo n x a : tscfg c crit -> RelT c e lo n x a -> snd (step x OStop) = ObsRes 0%N false.
Proof.
  intros Hcfg R. rewrite (step_sync_rel_ts c crit e lo n x a OStop Hcfg R). cbn [sync_step]. destruct R as [_ [_ R]].
  destruct a as [[cl cu]|]; [destruct R as [keys [wr [roll [ts [Es _]]]]] | destruct R as [Es _]]; rewrite Es; reflexivity.
Qed.

Theorem timestamps_no_panic c crit t0 off ops :
  tscfg c crit -> tag_ok c -> Forall basic_op ops -> Forall tick_ok ops ->
  (0 <= t0 + ts_e c off)%Z -> (t0 + elapsed ops + ts_e c off < sec_max)%Z -> (N.of_nat (length ops) <= usize_max)%N ->
  Forall obs_ok (snd (run (sys0 t0 off) (OStart c :: ops ++ [OStop]))).
Proof.
  intros Hcfg T Hb Htk Hlo Hhi Hmax. cbn [run]. destruct (step (sys0 t0 off) (OStart c)) as [x0 ob0] eqn:E0.
  pose proof (start_rel_ts c t0 off) as R0. rewrite E0 in R0. cbn [fst] in R0.
  assert (K0 : obs_ok ob0) by (cbn in E0; injection E0 as _ <-; reflexivity).
  assert (W0 : wnow (s_w x0) = t0) by (cbn in E0; injection E0 as <- _; reflexivity).
  assert (Y : years_ok (ts_e c off) t0 (t0 + elapsed ops)) by (split; assumption).
  rewrite run_app.
  pose proof (run_rel_ts c crit _ _ _ Hcfg T Y ops x0 None 0 R0 Hb Htk ltac:(lia) ltac:(cbn [Nat.add]; exact Hmax)) as [R1 W1].
  pose proof (run_ok_ts c crit _ _ _ Hcfg T Y ops x0 None 0 R0 Hb Htk ltac:(lia) ltac:(cbn [Nat.add]; exact Hmax)) as K1.
  destruct (run x0 ops) as [x1 obs1]. cbn [fst snd] in *.
  pose proof (stop_ok_ts c crit _ _ _ x1 _ Hcfg R1) as K2. cbn [run]. destruct (step x1 OStop) as [x2 ob2]. cbn [snd] in *.
  constructor; [exact K0|]. apply Forall_app. split; [exact K1|]. subst ob2. repeat constructor.
Qed.
Print Assumptions timestamps_no_panic.

Corollary timestamps_no_panic_shapes c crit t0 off ops :
  tscfg c crit -> tag_ok c -> Forall basic_op ops -> Forall tick_ok ops ->
  (0 <= t0 + ts_e c off)%Z -> (t0 + elapsed ops + ts_e c off < sec_max)%Z -> (N.of_nat (length ops) <= usize_max)%N ->
  Forall2 obs_normal (OStart c :: ops ++ [OStop]) (snd (run (sys0 t0 off) (OStart c :: ops ++ [OStop]))).
Proof.
  intros Hcfg T Hb Htk Hlo Hhi Hmax. apply whole_run_shapes; [exact Hb | exact (timestamps_no_panic c crit t0 off ops Hcfg T Hb Htk Hlo Hhi Hmax)].
Qed.

(* ------------------------------------------------------------------ Numbers with a cleanup strategy *)
Lemma step_rel_k_ok c crit k x a o :
  numkcfg c crit k -> RelK c crit k x a -> basic_op o ->
  kside c k (nclosed (a_step a o (rot_of (snd (step x o))))) -> obs_ok (snd (step x o)).
Proof.
  intros Hcfg R Hb. rewrite (step_sync_rel_k c crit k x a o Hcfg R).
  destruct o; try contradiction; cbn [sync_step].
  - destruct (write_rel_k c crit k x a b Hcfg R) as [s [Es [Hp WR]]].
    rewrite Es, Hp. rewrite (proj1 R). cbn [app].
    destruct (write_buffer s (s_w x) b) as [[[r w'] s'] rot]. cbn [rot_of snd]. intros Hside.
    destruct (WR Hside) as (-> & _). reflexivity.
  - destruct (write_rel_k c crit k x a b Hcfg R) as [s [Es [Hp WR]]].
    rewrite Es, Hp.
    destruct (write_buffer s (s_w x) b) as [[[r w'] s'] rot]. cbn [rot_of snd]. intros Hside.
    destruct (WR Hside) as (-> & _). reflexivity.
  - intros _. destruct R as [Ht [Ha R]]. destruct a as [[closed cur]|].
    + destruct R as [wr [roll [Es [I _]]]]. rewrite Es. cbn [st_ofk f_poisoned].
      destruct (flush_active_k c k (s_w x) wr closed _ _ roll I) as [w' [wr' [E _]]].
      fold (st_ofk c k (length closed) roll wr). rewrite E. reflexivity.
    + destruct R as [Es R]. rewrite Es. reflexivity.
  - destruct R as [Ht [Ha R]]. destruct a as [[closed cur]|].
    + destruct R as [wr [roll [Es [I _]]]]. rewrite Es. cbn [st_ofk f_poisoned f_cfg f_inner].
      destruct (mount_next c (s_w x) (Active (Some (mk_rsk k (NSNumR (N.of_nat (length closed))) roll)) wr (cname c)) true)
        as [[r1 w1] st1] eqn:EM. cbn [rot_of a_step snd]. intros Hside.
      assert (Hs : kside c k (S (length closed))).
      { cbn [nclosed] in Hside. rewrite app_length in Hside. cbn [length] in Hside.
        replace (length closed + 1) with (S (length closed)) in Hside by lia. exact Hside. }
      destruct (mount_next_rotates_k c crit k (s_w x) wr closed roll true Hcfg Hs I eq_refl) as [w' [wr' [roll' [E _]]]].
      rewrite EM in E. injection E as -> -> ->. reflexivity.
    + intros _. destruct R as [Es R]. rewrite Es. reflexivity.
  - intros _. reflexivity.
  - intros _. cbn [snd snapshot obs_ok]. exact I.
Qed.

Lemma run_ok_k c crit k : numkcfg c crit k -> forall ops x a, RelK c crit k x a -> Forall basic_op ops ->
  kside c k (nclosed (a_run a ops (snd (run x ops)))) -> Forall obs_ok (snd (run x ops)).
Proof.
  intros Hcfg. induction ops as [|o r IH]; intros x a R Hb Hside; [constructor|].
  cbn [run] in *. inversion Hb as [|o' r' Ho Hr]; subst.
  pose proof (step_rel_k c crit k x a o Hcfg R Ho) as S. pose proof (step_rel_k_ok c crit k x a o Hcfg R Ho) as K.
  destruct (step x o) as [x1 ob].
  specialize (IH x1 (a_step a o (rot_of ob))). destruct (run x1 r) as [x2 obs]. cbn [fst snd a_run] in *.
  assert (Hs1 : kside c k (nclosed (a_step a o (rot_of ob)))) by (eapply kside_le; [apply nclosed_run | exact Hside]).
  destruct (S Hs1) as [R1 _]. constructor; [exact (K Hs1) | apply IH; assumption].
Qed.

Lemma stop_ok_k c crit k x a : numkcfg c crit k -> RelK c crit k x a -> snd (step x OStop) = ObsRes 0%N false.
Proof.
  intros Hcfg R. rewrite (step_sync_rel_k c crit k x a OStop Hcfg R). cbn [sync_step]. destruct R as [_ [_ R]].
  destruct a as [[cl cu]|]; [destruct R as [wr [roll [Es _]]] | destruct R as [Es _]]; rewrite Es; reflexivity.
Qed.

(* the side condition is the one of numbers_cleanup_stream: with a cleanup strategy the suffix is not "gz" (and does not end
   with ".gz") *)
Theorem numbers_cleanup_no_panic c crit k t0 off ops :
  numkcfg c crit k -> Forall basic_op ops ->
  kside c k (nclosed (a_run None ops (snd (run (fst (step (sys0 t0 off) (OStart c))) ops)))) ->
  Forall obs_ok (snd (run (sys0 t0 off) (OStart c :: ops ++ [OStop]))).
Proof.
  intros Hcfg Hb Hside. cbn [run]. destruct (step (sys0 t0 off) (OStart c)) as [x0 ob0] eqn:E0.
  pose proof (start_rel_k c crit k t0 off) as R0. rewrite E0 in R0. cbn [fst] in R0, Hside.
  assert (K0 : obs_ok ob0) by (cbn in E0; injection E0 as _ <-; reflexivity).
  rewrite run_app. pose proof (run_rel_k c crit k Hcfg ops x0 None R0 Hb Hside) as R1.
  pose proof (run_ok_k c crit k Hcfg ops x0 None R0 Hb Hside) as K1.
  destruct (run x0 ops) as [x1 obs1]. cbn [fst snd] in *.
  pose proof (stop_ok_k c crit k x1 _ Hcfg R1) as K2. cbn [run]. destruct (step x1 OStop) as [x2 ob2]. cbn [snd] in *.
  constructor; [exact K0|]. apply Forall_app. split; [exact K1|]. subst ob2. repeat constructor.
Qed.
Print Assumptions numbers_cleanup_no_panic.

(* ------------------------------------------------------------------ instances *)
Example numbers_no_panic_instance :
  Forall2 obs_normal (OStart (ex_cfg KNever log_sfx) :: ex_ops ++ [OStop])
    (snd (run (sys0 0 0) (OStart (ex_cfg KNever log_sfx) :: ex_ops ++ [OStop]))).
Proof.
  apply (numbers_no_panic_shapes _ (CSize 3)); [|exact ex_ops_basic].
  destruct (ex_numkcfg KNever log_sfx) as (A & B & C & D & _). repeat split; assumption.
Qed.

Example numbers_cleanup_no_panic_instance :
  Forall obs_ok (snd (run (sys0 0 0) (OStart (ex_cfg (KLogGz 1 1) log_sfx) :: ex_ops ++ [OStop]))).
Proof.
  apply (numbers_cleanup_no_panic _ (CSize 3) (KLogGz 1 1)); [apply ex_numkcfg | exact ex_ops_basic|].
  exact ex_sfx_ok.
Qed.

Example timestamps_no_panic_instance :
  Forall2 obs_normal (OStart ext_c :: ext_ops ++ [OStop]) (snd (run (sys0 0 0) (OStart ext_c :: ext_ops ++ [OStop]))).
Proof.
  apply (timestamps_no_panic_shapes ext_c (CSize 100) 0 0 ext_ops ext_c_ok ext_c_tag_ok ext_ops_basic ext_ops_ticks).
  - change (0 <= 0)%Z. lia.
  - change (1 < sec_max)%Z. unfold sec_max. lia.
  - vm_compute. discriminate.
Qed.

Example numbersdirect_no_panic_instance :
  Forall2 obs_normal (OStart exd_c :: exd_ops ++ [OStop]) (snd (run (sys0 0 0) (OStart exd_c :: exd_ops ++ [OStop]))).
Proof. apply (numbersdirect_no_panic_shapes exd_c (CSize 3)); [exact exd_c_ok | repeat constructor]. Qed.

Print Assumptions numbersdirect_no_panic_shapes.
Print Assumptions timestamps_no_panic_shapes.
