(* Files that are not members of the logger's file family are ignored - Numbers naming WITH a cleanup strategy:
   the cleanup lists, removes and compresses family files only; the archive name of a listed file is a family name, too. *)
Require Import FL.Base.Bytes FL.Base.BytesFacts FL.Base.PathName FL.Fs.Fs FL.Fs.FsFacts FL.Time.Civil FL.Time.TsFormat
  FL.Names.FileSpec FL.Names.NamesFacts FL.Names.SortFacts FL.Names.FamilyFacts FL.Flw.Model FL.Flw.ModelFacts FL.Flw.NumFs
  FL.Flw.NumInv FL.Flw.Run FL.Flw.RunFacts FL.Flw.NumRun FL.Oracles.O_Flw FL.Flw.NumTheorems FL.Flw.NumListing FL.Flw.CleanupFacts
  FL.Flw.NumCleanupNames FL.Flw.NumCleanupStep FL.Flw.NumCleanupRun FL.Flw.NumCleanup
  FL.Flw.ForeignFs FL.Flw.ForeignModel FL.Flw.NumForeign.
From Coq Require Import ZifyN ZifyNat ZifyBool.
Open Scope nat_scope.

(* ---- the abstract view of a prefix of the history has no more closed files than that of the whole ---- *)
Lemma a_run_app : forall l1 l2 a o1 o2, length o1 = length l1 ->
  a_run a (l1 ++ l2) (o1 ++ o2) = a_run (a_run a l1 o1) l2 o2.
Proof.
  induction l1 as [|x l1 IH]; intros l2 a [|y o1] o2 H; cbn [length] in H; try discriminate; [reflexivity|].
  cbn [app a_run]. apply IH. lia.
Qed.

Lemma nclosed_app l1 l2 x :
  nclosed (a_run None l1 (snd (run x l1))) <= nclosed (a_run None (l1 ++ l2) (snd (run x (l1 ++ l2)))).
Proof.
  rewrite run_app. pose proof (run_length l1 x) as L. destruct (run x l1) as [x1 o1]. destruct (run x1 l2) as [x2 o2].
  cbn [snd] in *. rewrite a_run_app by exact L. apply nclosed_run.
Qed.

Lemma nclosed_prefix ops x i :
  nclosed (a_run None (firstn i ops) (snd (run x (firstn i ops)))) <= nclosed (a_run None ops (snd (run x ops))).
Proof. pose proof (nclosed_app (firstn i ops) (skipn i ops) x) as H. rewrite firstn_skipn in H. exact H. Qed.

Lemma sfx_ok_not_gz' sp : sfx_ok sp -> fsfx sp <> Some gz_sfx.
Proof. intros H E. pose proof (sfx_ok_not_gz sp gz_sfx H E) as B. rewrite beq_refl in B. discriminate. Qed.

(* ---- the states related to an abstract view are of the kind considered ---- *)
Lemma relk_fam fn c crit k x a : (forall n, In n (fnames fn) -> num_member c n = false) ->
  (klim k = None \/ sfx_ok (c_spec c)) ->
  RelK c crit k x a -> fam_sys fn c k x.
Proof.
  intros Hforeign Hs [_ [_ R]]. split.
  - intros s Es. destruct a as [[closed cur]|].
    + destruct R as [wr [roll [E _]]]. rewrite E in Es. injection Es as <-. repeat split. cbn. eauto.
    + destruct R as [E _]. rewrite E in Es. injection Es as <-. repeat split.
  - intros n Hn. destruct a as [[closed cur]|].
    + destruct R as [wr [roll [_ [I _]]]]. apply dir_names_lookup in Hn. destruct Hn as [j Hj].
      destruct (kd_only _ _ _ _ _ (nk_dir _ _ _ _ _ _ I) n j Hj) as [->|[[i [_ ->]]|[i [Hi ->]]]].
      * exact (cname_own fn c Hforeign).
      * apply (rname_own fn c Hforeign).
      * destruct Hs as [Hs|Hs].
        -- unfold k_lo, k_mid in Hi. rewrite Hs in Hi. lia.
        -- intros Hf. pose proof (foreign_gz fn c Hforeign 0%Z _ Hf) as Q. rewrite (qf_gname_gz 0%Z c i Hs) in Q. discriminate.
    + destruct R as [_ [_ [E _]]]. unfold dir_names in Hn. rewrite E in Hn. destruct Hn.
Qed.

(* The theorem.  Hypotheses as for numbers_cleanup_stream (kside: with a cleanup the suffix is not gz and does not end
   with .gz), and the foreign-name condition of numbers_foreign_ignored. *)
Theorem numbers_cleanup_foreign_ignored c crit k t0 off foreign ops :
  numkcfg c crit k -> Forall basic_op ops ->
  kside c k (nclosed (a_run None ops (snd (run (fst (step (sys0 t0 off) (OStart c))) ops)))) ->
  NoDup (List.map fst foreign) ->
  (forall n, In n (List.map fst foreign) -> num_member c n = false) ->
  let ops' := OStart c :: ops ++ [OStop] in
  let rf := run (sys0f t0 off foreign) ops' in
  let r0 := run (sys0 t0 off) ops' in
  (* 1: the same observations; a snapshot shows the foreign files in addition *)
  List.map (strip_obs (List.map fst foreign)) (snd rf) = snd r0
  /\ (Forall (fun o => o <> OSnap) ops -> snd rf = snd r0)
  (* 2: the foreign files are in place, unchanged *)
  /\ (forall n d, In (n, d) foreign -> file_of (wfs (s_w (fst rf))) n = Some (plain_file t0 d))
  (* 3: every other name is what the run in the empty directory makes of it *)
  /\ (forall n, ~ In n (List.map fst foreign) -> file_of (wfs (s_w (fst rf))) n = file_of (wfs (s_w (fst r0))) n)
  /\ (forall n, In n (List.map fst foreign) -> file_of (wfs (s_w (fst r0))) n = None)
  (* the whole state: the run is the embedding of the run in the empty directory *)
  /\ fst rf = embedx (names (fs0f t0 foreign)) (inodes (fs0f t0 foreign)) (fst r0).
Proof.
  intros Hcfg Hb Hside ND Hfor. pose proof Hcfg as (Hrot & Hts & Hlink & Hasync & Hbg).
  destruct (fs0f_spec t0 foreign ND) as [Hd _].
  assert (Hforeign : forall n, In n (fnames (names (fs0f t0 foreign))) -> num_member c n = false).
  { intros n Hn. apply Hfor. rewrite <- Hd. exact Hn. }
  assert (Hs : klim k = None \/ sfx_ok (c_spec c)).
  { unfold kside in Hside. destruct (klim k); [right; apply Hside | left; reflexivity]. }
  assert (Hk : k = KNever \/ (c_bg c = false /\ fsfx (c_spec c) <> Some gz_sfx)).
  { destruct Hs as [Hs|Hs]; [left; apply klim_none; exact Hs | right; split; [exact Hbg | apply sfx_ok_not_gz'; exact Hs]]. }
  apply (foreign_ignored_gen c crit k t0 off foreign ops Hrot Hts Hlink Hasync Hk Hb ND Hfor).
  - intros i. eapply relk_fam; [exact Hforeign | exact Hs |].
    apply (run_rel_k c crit k Hcfg (firstn i ops) _ None (start_rel_k c crit k t0 off)).
    + apply Forall_firstn'. exact Hb.
    + eapply kside_le; [apply nclosed_prefix | exact Hside].
  - intros n Hn. rewrite <- Hd in Hn.
    pose proof (numbers_cleanup_stream c crit k t0 off ops Hcfg Hb Hside) as [_ V].
    set (f := wfs (s_w (fst (run (sys0 t0 off) (OStart c :: ops ++ [OStop]))))) in *.
    destruct (lookup f n) as [j|] eqn:Ej; [exfalso|reflexivity].
    destruct (a_run None ops (snd (run (fst (step (sys0 t0 off) (OStart c))) ops))) as [[closed cur]|].
    + destruct V as [KD _]. destruct (kd_only _ _ _ _ _ KD n j Ej) as [->|[[i [_ ->]]|[i [Hi ->]]]].
      * exact (cname_own _ c Hforeign Hn).
      * exact (rname_own _ c Hforeign _ Hn).
      * destruct Hs as [Hs|Hs].
        -- unfold k_lo, k_mid in Hi. rewrite Hs in Hi. lia.
        -- pose proof (foreign_gz _ c Hforeign 0%Z _ Hn) as Q. rewrite (qf_gname_gz 0%Z c i Hs) in Q. discriminate.
    + unfold lookup in Ej. rewrite V in Ej. discriminate.
Qed.
Print Assumptions numbers_cleanup_foreign_ignored.

(* numbers_cleanup_properties carries over: what the directory with the foreign files holds after the run.
   closed, cur: the reader's view that the run would leave without cleanup; n plain files and m archives are kept. *)
Theorem numbers_cleanup_foreign_dir c crit k n m t0 off foreign ops closed cur :
  numkcfg c crit k -> klim k = Some (n, m) -> Forall basic_op ops ->
  sfx_ok (c_spec c) ->
  a_run None ops (snd (run (fst (step (sys0 t0 off) (OStart c))) ops)) = Some (closed, cur) ->
  NoDup (List.map fst foreign) ->
  (forall x, In x (List.map fst foreign) -> num_member c x = false) ->
  let ff := wfs (s_w (fst (run (sys0f t0 off foreign) (OStart c :: ops ++ [OStop])))) in
  let L := length closed in let lo := L - (n + m) in let mid := L - n in
  concat closed ++ cur = written ops
  (* exactly these names exist *)
  /\ (forall x, file_of ff x <> None <->
        In x (List.map fst foreign) \/ x = cname c \/ (exists i, mid <= i < L /\ x = rname c i)
        \/ (exists i, lo <= i < mid /\ x = gname c i))
  (* the foreign files as they were *)
  /\ (forall x d, In (x, d) foreign -> file_of ff x = Some (plain_file t0 d))
  (* the newest n closed files as they were closed, the next m as complete archives, the current file *)
  /\ (forall i, mid <= i < L ->
        exists fl, file_of ff (rname c i) = Some fl /\ fdata fl = nth i closed [] /\ fgz fl = 0%N /\ fdir fl = false)
  /\ (forall i, lo <= i < mid ->
        exists fl, file_of ff (gname c i) = Some fl /\ fdata fl = nth i closed [] /\ fgz fl = 1%N /\ fdir fl = false)
  /\ (exists fl, file_of ff (cname c) = Some fl /\ fdata fl = cur /\ fgz fl = 0%N /\ fdir fl = false).
Proof.
  intros Hcfg Hk Hb Hsfx Ea ND Hfor ff L lo mid.
  assert (Hside : kside c k (nclosed (a_run None ops (snd (run (fst (step (sys0 t0 off) (OStart c))) ops))))).
  { rewrite Ea. unfold kside. rewrite Hk. exact Hsfx. }
  destruct (numbers_cleanup_foreign_ignored c crit k t0 off foreign ops Hcfg Hb Hside ND Hfor) as (_ & _ & F2 & F3 & F4 & _).
  fold ff in F2, F3.
  destruct (numbers_cleanup_properties c crit k n m t0 off ops closed cur Hcfg Hk Hb Hsfx Ea)
    as (P0 & Pn & _ & _ & _ & _ & Pp & Pa & _ & _ & Pc).
  set (f0 := wfs (s_w (fst (run (sys0 t0 off) (OStart c :: ops ++ [OStop]))))) in *. fold L lo mid in Pn, Pp, Pa.
  assert (Hrn : forall i, ~ In (rname c i) (List.map fst foreign)).
  { intros i Hi. apply Hfor in Hi. rewrite member_rname in Hi. discriminate. }
  assert (Hcn : ~ In (cname c) (List.map fst foreign)).
  { intros Hi. apply Hfor in Hi. rewrite member_cname in Hi. discriminate. }
  assert (Hgn : forall i, ~ In (gname c i) (List.map fst foreign)).
  { intros i Hi. apply Hfor in Hi. unfold num_member in Hi. rewrite (qf_gname_gz 0%Z c i Hsfx) in Hi. rewrite orb_true_r in Hi. discriminate. }
  assert (Hex : forall x, file_of f0 x <> None <-> exists j, lookup f0 x = Some j).
  { intros x. unfold file_of. destruct (lookup f0 x) as [j|]; split; intros H; try congruence; eauto. destruct H; discriminate. }
  split; [exact P0|]. split; [|split; [exact F2|split; [|split]]].
  - intros x. destruct (in_dec bytes_eq_dec x (List.map fst foreign)) as [Hi|Hi].
    + split; [intros _; left; exact Hi|]. intros _. apply in_map_iff in Hi. destruct Hi as [[x' d] [E Hi]]. cbn in E. subst x'.
      rewrite (F2 x d Hi). discriminate.
    + rewrite (F3 x Hi), Hex, Pn. split; [intros H; right; exact H|]. intros [H|H]; [contradiction | exact H].
  - intros i Hi. rewrite (F3 _ (Hrn i)). destruct (Pp i Hi) as [_ H]. exact H.
  - intros i Hi. rewrite (F3 _ (Hgn i)). destruct (Pa i Hi) as [_ H]. exact H.
  - rewrite (F3 _ Hcn). exact Pc.
Qed.
Print Assumptions numbers_cleanup_foreign_dir.

(* ------------------------------------------------------------------ example *)
Import String.StringSyntax.
Open Scope string_scope.
(* one plain rotated file and one archive are kept *)
Definition ex_k : config :=
  {| c_spec := c_spec ex_c; c_append := false; c_cap := None; c_rot := Some (CSize 3, NNumbers, KLogGz 1 1); c_utc := false;
     c_symlink := false; c_bg := false; c_async := false; c_start := None |}.

(* the near misses of ex_foreign, and near misses of the archive names *)
Definition ex_foreign_k : list (bytes * bytes) :=
  ex_foreign ++ [ (bs "a_r00000.log.gz.bak", bs "p"); (bs "a_r00001.gz", bs "o"); (bs "a_r00001.log.gzip", bs "n") ].

Example cleanup_foreign_hypotheses :
  numkcfg ex_k (CSize 3) (KLogGz 1 1) /\ Forall basic_op ex_ops
  /\ kside ex_k (KLogGz 1 1) (nclosed (a_run None ex_ops (snd (run (fst (step (sys0 0 0) (OStart ex_k))) ex_ops))))
  /\ NoDup (List.map fst ex_foreign_k)
  /\ (forall n, In n (List.map fst ex_foreign_k) -> num_member ex_k n = false).
Proof.
  split; [repeat split|]. split; [repeat constructor|]. split; [|split].
  - vm_compute; reflexivity.
  - repeat (constructor; [vm_compute; intuition discriminate|]). constructor.
  - intros n Hn. vm_compute in Hn.
    repeat (destruct Hn as [<-|Hn]; [vm_compute; reflexivity|]). destruct Hn.
Qed.

Example cleanup_foreign_instance :
  List.map (strip_obs (List.map fst ex_foreign_k)) (snd (run (sys0f 0 0 ex_foreign_k) (OStart ex_k :: ex_ops ++ [OStop])))
  = snd (run (sys0 0 0) (OStart ex_k :: ex_ops ++ [OStop])).
Proof.
  destruct cleanup_foreign_hypotheses as (H1 & H2 & H3 & H4 & H5).
  exact (proj1 (numbers_cleanup_foreign_ignored ex_k (CSize 3) (KLogGz 1 1) 0 0 ex_foreign_k ex_ops H1 H2 H3 H4 H5)).
Qed.

(* computed: the cleanup has removed r00000, compressed r00001 and kept r00002 - and nothing else: a_r00001x.log,
   a_r1backup.log, a_r1x.log and a_r2024-02-29_23-59-58.log, which the number filter took for numbered files before its
   repair (and the cleanup would have counted, compressed or deleted), are left alone *)
Example cleanup_foreign_instance_dir :
  ex_snap (fst (run (sys0f 0 0 ex_foreign_k) (OStart ex_k :: ex_ops ++ [OStop])))
  = [ (bs "a.log", 0%N, bs "q");
      (bs "a_r00000.log.gz.bak", 0%N, bs "p");
      (bs "a_r00001", 0%N, bs "t");
      (bs "a_r00001.gz", 0%N, bs "o");
      (bs "a_r00001.log.bak", 0%N, bs "w");
      (bs "a_r00001.log.gz", 1%N, bs "ef");
      (bs "a_r00001.log.gzip", 0%N, bs "n");
      (bs "a_r00001.txt", 0%N, bs "z");
      (bs "a_r00001x.log", 0%N, bs "3");
      (bs "a_r00002.log", 0%N, bs "ghij");
      (bs "a_r1backup.log", 0%N, bs "2");
      (bs "a_r1x.log", 0%N, bs "1");
      (bs "a_r2024-02-29_23-59-58.log", 0%N, bs "4");
      (bs "a_rCURRENT.log", 0%N, bs "k");
      (bs "a_rCURRENT.log.gz", 0%N, bs "s");
      (bs "a_rx.log", 0%N, bs "x");
      (bs "ax_r00001.log", 0%N, bs "v");
      (bs "b.log", 0%N, bs "y") ]
  /\ ex_snap (fst (run (sys0 0 0) (OStart ex_k :: ex_ops ++ [OStop])))
  = [ (bs "a_r00001.log.gz", 1%N, bs "ef"); (bs "a_r00002.log", 0%N, bs "ghij"); (bs "a_rCURRENT.log", 0%N, bs "k") ].
Proof. vm_compute. split; reflexivity. Qed.
