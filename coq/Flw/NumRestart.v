(* Numbers naming: sequences of runs on the same directory.  A writer that starts on the directory that earlier
   writers left behind continues the numbering: nothing that was written before is lost, overwritten or duplicated. *)
Require Import FL.Base.Bytes FL.Base.BytesFacts FL.Base.PathName FL.Fs.Fs FL.Fs.FsFacts FL.Time.Civil FL.Time.TsFormat
  FL.Names.FileSpec FL.Names.NamesFacts FL.Flw.Model FL.Flw.ModelFacts FL.Flw.NumFs FL.Flw.NumInv FL.Flw.Run FL.Flw.RunFacts
  FL.Flw.NumRun FL.Flw.NumListing FL.Oracles.O_Flw FL.Flw.NumTheorems.
From Coq Require Import ZifyN ZifyNat ZifyBool.
Import String.StringSyntax.
Open Scope nat_scope.

(* ------------------------------------------------------------------ the directory between two writers *)
Definition closed_of (v : aview) : list bytes := match v with Some (cl, _) => cl | None => [] end.

Definition dir_view (c : config) (f : fs) (v : aview) : Prop :=
  match v with
  | None => names f = [] /\ inodes f = []
  | Some (cl, cu) => fs_wf f /\ reader_view c f cl cu
  end.

(* no writer *)
Definition Idle (c : config) (x : sys) (v : aview) : Prop :=
  s_tl x = [] /\ wacts (s_w x) = 0 /\ s_flw x = None /\ quiet (s_w x) /\ dir_view c (wfs (s_w x)) v.
(* a writer that has not written yet: it has not looked at the directory *)
Definition Pre (c : config) (x : sys) (v : aview) : Prop :=
  s_tl x = [] /\ wacts (s_w x) = 0 /\ s_flw x = Some (new_flw c) /\ quiet (s_w x) /\ dir_view c (wfs (s_w x)) v.

(* the names depend on the file spec only *)
Lemma rname_spec_eq c c' i : c_spec c = c_spec c' -> rname c i = rname c' i.
Proof. unfold rname, nm, fixed0. intros ->. reflexivity. Qed.
Lemma cname_spec_eq c c' : c_spec c = c_spec c' -> cname c = cname c'.
Proof. unfold cname, nm, fixed0. intros ->. reflexivity. Qed.

Lemma reader_view_spec c c' f cl cu : c_spec c = c_spec c' -> reader_view c f cl cu -> reader_view c' f cl cu.
Proof.
  intros E [H1 [H2 H3]]. unfold reader_view. rewrite <- (cname_spec_eq c c' E).
  split; [|split].
  - intros i Hi. rewrite <- (rname_spec_eq c c' i E). apply H1. exact Hi.
  - exact H2.
  - intros n j L. destruct (H3 n j L) as [->|[i [Hi ->]]]; [left; reflexivity|]. right. exists i.
    split; [exact Hi | apply rname_spec_eq; exact E].
Qed.

Lemma dir_view_spec c c' f v : c_spec c = c_spec c' -> dir_view c f v -> dir_view c' f v.
Proof.
  intros E. destruct v as [[cl cu]|]; cbn [dir_view]; [|tauto].
  intros [W R]. split; [exact W | exact (reader_view_spec c c' f cl cu E R)].
Qed.

Lemma idle_spec c c' x v : c_spec c = c_spec c' -> Idle c x v -> Idle c' x v.
Proof. intros E [H1 [H2 [H3 [H4 H5]]]]. repeat split; try assumption; try apply H4. exact (dir_view_spec c c' _ v E H5). Qed.

(* ------------------------------------------------------------------ the directory seen as the state of a writer *)
Lemma numinv_of_view c w cl cu : quiet w -> fs_wf (wfs w) -> reader_view c (wfs w) cl cu ->
  exists j, NumInv c w {| wino := j; wpend := []; wcap := c_cap c |} cl
            /\ cur_view w {| wino := j; wpend := []; wcap := c_cap c |} = cu.
Proof.
  intros Q W [Hcl [[j [Lj [Pj Cj]]] Hon]]. exists j. split.
  - constructor; cbn [wino wpend wcap]; try assumption.
    + unfold wr_ok. cbn. destruct (c_cap c); [lia | reflexivity].
    + reflexivity.
  - unfold cur_view. cbn [wino wpend]. rewrite app_nil_r. exact Cj.
Qed.

Lemma fixed_of_fixed c w : fts (c_spec c) = false -> fixed_of c w = fixed0 c.
Proof. intros H. unfold fixed_of, fixed0, fixed_name_part. rewrite H. reflexivity. Qed.

(* the listing of initialize *)
Lemma listing_view c w cl cu : fts (c_spec c) = false -> quiet w ->
  reader_view c (wfs w) cl cu -> (N.of_nat (length cl) <= u32_max)%N ->
  with_listing w (fun w' =>
     match get_highest_index (woff w') (c_spec c) (fixed_of c w') (wfs w') with
     | None => None
     | Some (Some i) => Some (i + 1)%N
     | Some None => Some 0%N
     end) = (Ok (N.of_nat (length cl)), w).
Proof.
  intros Hts Q R Hb. unfold with_listing. rewrite tick_quiet by assumption.
  rewrite fixed_of_fixed by assumption. rewrite (highest_index_view c (woff w) (wfs w) cl cu R Hb).
  destruct (length cl) as [|k]; [reflexivity|]. do 2 f_equal. lia.
Qed.

(* one rotation on the level of the invariant (as in mount_next_rotates) *)
Lemma rotate_numinv c w wr cl now : NumInv c w wr cl ->
  exists f1, rename (wfs w) (cname c) (rname c (length cl)) = Some f1 /\ lookup f1 (cname c) = None /\
    forall w3, quiet w3 -> wfs w3 = append_ino (fst (create_file f1 (cname c) 0%N now)) (wino wr) (wpend wr) ->
      NumInv c w3 {| wino := snd (create_file f1 (cname c) 0%N now); wpend := []; wcap := c_cap c |} (cl ++ [cur_view w wr])
      /\ cur_view w3 {| wino := snd (create_file f1 (cname c) 0%N now); wpend := []; wcap := c_cap c |} = []
      /\ file_of (wfs w3) (cname c) = Some (fresh_file now).
Proof.
  intros I. pose proof I as [Q W Hc Hcp Hcl Hon Hwr Hcap].
  assert (Ht : lookup (wfs w) (rname c (length cl)) = None).
  { destruct (lookup (wfs w) (rname c (length cl))) as [j|] eqn:E; [|reflexivity].
    destruct (Hon _ _ E) as [E1|[i [Hi E1]]]; [exfalso; exact (rname_not_cname _ _ E1)|]. apply rname_inj in E1. lia. }
  destruct (rotate_fs_spec (wfs w) (cname c) (rname c (length cl)) (wino wr) (wpend wr) now W
              (fun E => rname_not_cname c _ (eq_sym E)) Hc Ht) as [f1 [Er R]].
  cbn zeta in R. destruct R as [L1c [Hino1 [W3 [Hnew [L3c [L3t [L3o [Hlen [Inew [Iold Ioth]]]]]]]]]].
  exists f1. split; [exact Er|]. split; [exact L1c|]. intros w3 Q3 F3'.
  set (new := snd (create_file f1 (cname c) 0%N now)) in *.
  set (f3 := append_ino (fst (create_file f1 (cname c) 0%N now)) (wino wr) (wpend wr)) in *.
  pose proof (wf_bound _ W _ _ Hc) as Hold.
  split; [|split].
  { constructor.
    - exact Q3.
    - rewrite F3'. exact W3.
    - rewrite F3'. exact L3c.
    - rewrite F3'. cbn [wino]. rewrite Inew. split; reflexivity.
    - intros i Hi. rewrite app_length in Hi. cbn [length] in Hi. rewrite F3'.
      destruct (Nat.eq_dec i (length cl)) as [->|Hne].
      + exists (wino wr). split; [exact L3t|]. split.
        * rewrite Iold. exact Hcp.
        * unfold content at 1. rewrite Iold. cbn [with_data fdata]. rewrite app_nth2, Nat.sub_diag by lia. reflexivity.
      + assert (Hi' : i < length cl) by lia. destruct (Hcl i Hi') as [j [Lj [Pj Cj]]].
        exists j. rewrite L3o; [|apply rname_not_cname | intros E; apply rname_inj in E; lia].
        split; [exact Lj|].
        assert (Hj1 : j <> new). { pose proof (wf_bound _ W _ _ Lj). rewrite Hnew. lia. }
        assert (Hj2 : j <> wino wr). { intros ->. pose proof (wf_inj _ W _ _ _ Lj Hc) as E. exact (rname_not_cname _ _ E). }
        unfold content. rewrite Ioth by assumption. split; [exact Pj|]. rewrite app_nth1 by assumption. exact Cj.
    - intros n j Hn. rewrite F3' in Hn.
      destruct (beq_spec n (cname c)) as [->|Hn1]; [left; reflexivity|].
      destruct (beq_spec n (rname c (length cl))) as [->|Hn2].
      + right. exists (length cl). rewrite app_length. cbn [length]. split; [lia | reflexivity].
      + rewrite L3o in Hn by assumption. destruct (Hon _ _ Hn) as [E|[i [Hi E]]]; [contradiction|].
        right. exists i. rewrite app_length. cbn [length]. split; [lia | exact E].
    - unfold wr_ok. cbn. destruct (c_cap c); [lia | reflexivity].
    - reflexivity. }
  { unfold cur_view. rewrite F3'. cbn [wino wpend]. unfold content. rewrite Inew. reflexivity. }
  { unfold file_of. rewrite F3', L3c, Inew. reflexivity. }
Qed.

(* what the writer makes of the directory it finds, before anything is written *)
Definition init_view (c : config) (v : aview) : list bytes * bytes :=
  match v with
  | None => ([], [])
  | Some (cl, cu) => if c_append c then (cl, cu) else (cl ++ [cu], [])
  end.

Lemma roll_new_fresh w crit path : exists roll,
  roll_new w crit false path = (Ok roll, w) /\ roll_size_ok roll 0 /\ (forall m, crit = CSize m -> exists k, roll = RSize m k).
Proof.
  unfold roll_new. eexists. split; [reflexivity|]. split; [destruct crit; reflexivity|]. intros m ->. eauto.
Qed.

Lemma roll_new_append w crit path fl : quiet w -> file_of (wfs w) path = Some fl -> exists roll,
  roll_new w crit true path = (Ok roll, w) /\ roll_size_ok roll (length (fdata fl))
  /\ (forall m, crit = CSize m -> exists k, roll = RSize m k).
Proof.
  intros Q F. unfold roll_new. rewrite tick_quiet by assumption. rewrite F.
  eexists. split; [reflexivity|]. split; [destruct crit; reflexivity|]. intros m ->. eauto.
Qed.

(* ---- the first write initialises the writer: a directory left behind by earlier writers ---- *)
Lemma initialize_view c crit w cl cu :
  numcfg c crit -> quiet w -> fs_wf (wfs w) -> reader_view c (wfs w) cl cu ->
  (N.of_nat (length cl) <= u32_max)%N ->
  exists w' wr roll,
    initialize c w = (Ok (Active (Some (mk_rs (NSNumR (N.of_nat (length (fst (init_view c (Some (cl, cu))))))) roll)) wr (cname c)), w')
    /\ NumInv c w' wr (fst (init_view c (Some (cl, cu))))
    /\ cur_view w' wr = snd (init_view c (Some (cl, cu)))
    /\ roll_size_ok roll (length (snd (init_view c (Some (cl, cu)))))
    /\ same_env w w'
    /\ (forall m, crit = CSize m -> exists k, roll = RSize m k).
Proof.
  intros [Hrot [Hts [Hlink _]]] Q W R Hb.
  destruct (numinv_of_view c w cl cu Q W R) as [j [I V]].
  set (wr0 := {| wino := j; wpend := []; wcap := c_cap c |}) in *.
  pose proof I as [_ _ Hc Hcp _ _ _ _]. cbn [wr0 wino] in Hc, Hcp.
  unfold initialize. rewrite Hrot. unfold init_naming, index_for_rcurrent.
  rewrite (listing_view c w cl cu Hts Q R Hb).
  cbn [init_view]. destruct (c_append c) eqn:Happ; cbn [negb fst snd].
  - (* append: the current file is continued *)
    cbn [bind]. unfold open_log_file. rewrite (name_of_fixed c w) by assumption. fold (nm c cur_infix) (cname c).
    unfold do_symlink. rewrite Hlink, Happ.
    assert (Fo : file_of (wfs w) (cname c) = Some (inode (wfs w) j)) by (unfold file_of; rewrite Hc; reflexivity).
    assert (D1 : match file_of (wfs w) (cname c) with Some fl => fdir fl = false | None => True end).
    { rewrite Fo. apply Hcp. }
    destruct (p_open_quiet w (cname c) true Q D1) as [w2 [Eop [F2 S2]]]. rewrite Eop.
    assert (Eopen : open_append (wfs w) (cname c) (wnow w) = (wfs w, j)) by (unfold open_append; rewrite Hc; reflexivity).
    rewrite Eopen in *. cbn [fst snd] in *. cbn [bind].
    assert (Fo2 : file_of (wfs w2) (cname c) = Some (inode (wfs w) j)) by (rewrite F2; exact Fo).
    destruct (roll_new_append w2 crit (cname c) _ (proj1 S2) Fo2) as [roll [Ern [Z RS]]]. rewrite Ern. cbn [bind].
    exists w2, wr0, roll. split; [reflexivity|].
    split; [apply (numinv_env c w); [exact I | exact F2 | apply S2]|].
    split; [unfold cur_view; rewrite F2; exact V|].
    split. { rewrite <- V. unfold cur_view. cbn [wr0 wino wpend]. rewrite app_nil_r. exact Z. }
    split; [exact S2 | exact RS].
  - (* no append: the current file is closed under the next number *)
    rewrite !(name_of_fixed c w) by assumption. fold (nm c cur_infix) (nm c (number_infix (N.of_nat (length cl)))).
    fold (cname c) (rname c (length cl)).
    destruct (rotate_numinv c w wr0 cl (wnow w) I) as [f1 [Er [L1c RI]]].
    pose proof (p_rename_quiet w (cname c) (rname c (length cl)) Q) as PR. rewrite Er in PR.
    destruct PR as [w1 [Epr [F1 S1]]]. rewrite Epr. cbn [bind].
    unfold open_log_file. rewrite (name_of_fixed c w1) by assumption. fold (nm c cur_infix) (cname c).
    unfold do_symlink. rewrite Hlink.
    assert (D1 : match file_of (wfs w1) (cname c) with Some fl => fdir fl = false | None => True end).
    { unfold file_of. rewrite F1, L1c. exact Logic.I. }
    destruct (p_open_quiet w1 (cname c) (c_append c) (proj1 S1) D1) as [w2 [Eop [F2 S2]]].
    rewrite Happ in Eop, F2. rewrite Happ, Eop.
    assert (Eopen : open_trunc (wfs w1) (cname c) 0%N (wnow w1) = create_file f1 (cname c) 0%N (wnow w)).
    { rewrite F1. destruct S1 as [_ [-> _]]. apply open_trunc_fresh. exact L1c. }
    rewrite Eopen in *. clear Eopen. cbn [bind].
    destruct (roll_new_fresh w2 crit (cname c)) as [roll [Ern [Z RS]]]. rewrite Ern. cbn [bind].
    assert (F3 : wfs w2 = append_ino (fst (create_file f1 (cname c) 0%N (wnow w))) (wino wr0) (wpend wr0)).
    { cbn [wr0 wpend]. rewrite append_ino_nil_id. exact F2. }
    destruct (RI w2 (proj1 S2) F3) as [I2 [V2 _]].
    assert (Elen : N.of_nat (length (cl ++ [cu])) = (N.of_nat (length cl) + 1)%N).
    { rewrite app_length. cbn [length]. lia. }
    rewrite V in I2.
    eexists w2, _, roll. split; [rewrite Elen; reflexivity|].
    split; [exact I2|]. split; [exact V2|]. split; [exact Z|].
    split; [eapply same_env_trans; eassumption | exact RS].
Qed.

(* ------------------------------------------------------------------ the first write *)
Lemma first_write c crit x v b :
  numcfg c crit -> (N.of_nat (length (closed_of v)) <= u32_max)%N -> Pre c x v ->
  exists w' s' rot,
    write_buffer (new_flw c) (s_w x) b = (Ok tt, w', s', rot)
    /\ Rel c crit {| s_flw := Some s'; s_w := w'; s_tl := []; s_dead := s_dead x |}
           (a_step (Some (init_view c v)) (OWrite b) rot).
Proof.
  intros Hcfg Hb [Ht [Ha [Es [Q D]]]]. destruct v as [[cl cu]|].
  - destruct D as [W R]. cbn [closed_of] in Hb.
    destruct (initialize_view c crit (s_w x) cl cu Hcfg Q W R Hb) as [w1 [wr [roll [Ei [I [V [Z [S1 RS]]]]]]]].
    destruct (init_view c (Some (cl, cu))) as [cl1 cu1]. cbn [fst snd] in *.
    assert (Z0 : roll_size_ok roll (length (cur_view w1 wr))) by (rewrite V; exact Z).
    destruct (write_active c crit w1 wr cl1 roll b Hcfg I Z0) as [w' [wr' [roll' [closed' [E [I' [Z' [S' [V' R']]]]]]]]].
    exists w', (st_of c (length closed') roll' wr'), (rotation_necessary w1 roll).
    split. { rewrite (write_buffer_init c (s_w x) b _ _ _ w1 Ei). exact E. }
    split; [reflexivity|]. split; [cbn [s_w]; exact (same_env_acts _ _ (same_env_trans _ _ _ S1 S') Ha)|].
    cbn [a_step]. rewrite V in V'.
    destruct (rotation_necessary w1 roll); injection V' as <- V''; (exists wr', roll'; cbn [s_flw s_w];
      split; [reflexivity|]; split; [exact I'|]; split; [exact V''|]; split; [rewrite <- V''; exact Z'|];
      intros m Hm; destruct (RS m Hm) as [k ->]; destruct (R' m k eq_refl) as [k' ->]; eauto).
  - assert (R0 : Rel c crit x None) by (split; [exact Ht|]; split; [exact Ha|]; split; [exact Es|]; split; [exact Q | exact D]).
    destruct (write_rel c crit x None b Hcfg R0) as [s [w' [s' [rot [Es' [Hp [E [R' _]]]]]]]].
    rewrite Es in Es'. injection Es' as <-. exists w', s', rot. split; [exact E | exact R'].
Qed.

(* ------------------------------------------------------------------ one run *)
(* the view of one run: None as long as nothing has been written *)
Definition GRel (c : config) (crit : criterion) (x : sys) (v a : aview) : Prop :=
  match a with None => Pre c x v | Some _ => Rel c crit x a end.

Definition g_step (c : config) (v a : aview) (o : op) (rot : bool) : aview :=
  match a with
  | None => match o with
            | OWrite _ | OPlain _ => a_step (Some (init_view c v)) o rot
            | _ => None
            end
  | Some _ => a_step a o rot
  end.

Lemma a_step_some p o rot : exists q, a_step (Some p) o rot = Some q.
Proof. destruct p as [cl cu]. destruct o; cbn [a_step]; eauto. Qed.

Lemma step_sync_pre c crit x v o : numcfg c crit -> Pre c x v -> step x o = sync_step x o.
Proof.
  intros [_ [Hts [_ Ha]]] [_ [_ [Es _]]].
  rewrite step_plain by (intros s' Es'; rewrite Es in Es'; injection Es' as <-; exact Hts).
  unfold step_core. rewrite Es. unfold is_async. cbn [new_flw f_cfg]. rewrite Ha. reflexivity.
Qed.

Lemma quiet_set_now w t : quiet w -> quiet (set_now w t).
Proof. intros [A B]. split; assumption. Qed.

Lemma gstep_rel c crit x v a o :
  numcfg c crit -> (N.of_nat (length (closed_of v)) <= u32_max)%N ->
  GRel c crit x v a -> basic_op o ->
  let '(x', ob) := step x o in GRel c crit x' v (g_step c v a o (rot_of ob)).
Proof.
  intros Hcfg Hb G Ho. destruct a as [p|].
  - cbn [GRel g_step] in *. pose proof (step_rel c crit x (Some p) o Hcfg G Ho) as S.
    destruct (step x o) as [x' ob]. destruct S as [R1 _].
    destruct (a_step_some p o (rot_of ob)) as [q Eq]. rewrite Eq in *. exact R1.
  - cbn [GRel] in G. rewrite (step_sync_pre c crit x v o Hcfg G).
    pose proof G as [Ht [Ha [Es [Q D]]]].
    destruct o; try contradiction; cbn [sync_step].
    + (* OWrite *)
      destruct (first_write c crit x v (s_tl x ++ b) Hcfg Hb G) as [w' [s' [rot [E R']]]].
      rewrite Es. cbn [new_flw f_poisoned]. fold (new_flw c). rewrite E. cbn [rot_of g_step].
      rewrite Ht in R'. cbn [app] in R'.
      destruct (a_step_some (init_view c v) (OWrite b) rot) as [q Eq]. rewrite Eq in *. exact R'.
    + (* OPlain *)
      destruct (first_write c crit x v b Hcfg Hb G) as [w' [s' [rot [E R']]]].
      rewrite Es. cbn [new_flw f_poisoned]. fold (new_flw c). rewrite E. cbn [rot_of g_step code_of]. rewrite Ht.
      change (a_step (Some (init_view c v)) (OPlain b) rot) with (a_step (Some (init_view c v)) (OWrite b) rot).
      destruct (a_step_some (init_view c v) (OWrite b) rot) as [q Eq]. rewrite Eq in *. exact R'.
    + (* OFlush *)
      rewrite Es. cbn [new_flw f_poisoned flush_state f_inner rot_of g_step GRel].
      split; [exact Ht|]. split; [exact Ha|]. split; [reflexivity|]. split; [exact Q | exact D].
    + (* OTrigger *)
      rewrite Es. cbn [new_flw f_poisoned f_cfg f_inner mount_next with_inner rot_of g_step code_of GRel].
      split; [exact Ht|]. split; [exact Ha|]. split; [reflexivity|]. split; [exact Q | exact D].
    + (* OTick *)
      cbn [rot_of g_step GRel]. split; [exact Ht|]. split; [exact Ha|]. split; [exact Es|].
      split; [apply quiet_set_now; exact Q | exact D].
    + (* OSnap *)
      cbn [rot_of g_step GRel]. exact G.
Qed.

Fixpoint g_run (c : config) (v a : aview) (ops : list op) (obs : list obs) : aview :=
  match ops, obs with
  | o :: r, ob :: robs => g_run c v (g_step c v a o (rot_of ob)) r robs
  | _, _ => a
  end.

Lemma grun_rel c crit v : numcfg c crit -> (N.of_nat (length (closed_of v)) <= u32_max)%N ->
  forall ops x a, GRel c crit x v a -> Forall basic_op ops ->
  GRel c crit (fst (run x ops)) v (g_run c v a ops (snd (run x ops))).
Proof.
  intros Hcfg Hb. induction ops as [|o r IH]; intros x a G Hbo; [exact G|].
  cbn [run]. inversion Hbo as [|o' r' Ho Hr]; subst.
  pose proof (gstep_rel c crit x v a o Hcfg Hb G Ho) as S. destruct (step x o) as [x1 ob].
  specialize (IH x1 _ S Hr). destruct (run x1 r) as [x2 obs]. exact IH.
Qed.

(* ---- the bytes of the view ---- *)
Definition gflat (v a : aview) : bytes := match a with None => flat v | Some _ => flat a end.

Lemma init_view_flat c v : flat (Some (init_view c v)) = flat v.
Proof.
  destruct v as [[cl cu]|]; cbn [init_view flat]; [|reflexivity].
  destruct (c_append c); [reflexivity|]. rewrite concat_app. cbn [concat]. rewrite !app_nil_r. reflexivity.
Qed.

Lemma g_step_flat c v a o rot : basic_op o -> gflat v (g_step c v a o rot) = gflat v a ++ written [o].
Proof.
  intros Ho. destruct a as [p|].
  - cbn [g_step gflat]. destruct (a_step_some p o rot) as [q Eq]. rewrite <- (a_step_flat (Some p) o rot Ho), Eq. reflexivity.
  - destruct o; try contradiction; cbn [g_step gflat written]; rewrite ?app_nil_r; try reflexivity.
    + destruct (a_step_some (init_view c v) (OWrite b) rot) as [q Eq].
      assert (X : gflat v (a_step (Some (init_view c v)) (OWrite b) rot) = flat (a_step (Some (init_view c v)) (OWrite b) rot))
        by (rewrite Eq; reflexivity).
      rewrite X, (a_step_flat _ (OWrite b) rot Logic.I), init_view_flat. cbn [written]. rewrite app_nil_r. reflexivity.
    + destruct (a_step_some (init_view c v) (OPlain b) rot) as [q Eq].
      assert (X : gflat v (a_step (Some (init_view c v)) (OPlain b) rot) = flat (a_step (Some (init_view c v)) (OPlain b) rot))
        by (rewrite Eq; reflexivity).
      rewrite X, (a_step_flat _ (OPlain b) rot Logic.I), init_view_flat. cbn [written]. rewrite app_nil_r. reflexivity.
Qed.

Lemma g_run_flat c v ops : forall a obs, Forall basic_op ops -> length obs = length ops ->
  gflat v (g_run c v a ops obs) = gflat v a ++ written ops.
Proof.
  induction ops as [|o r IH]; intros a obs Hb Hl; [cbn; rewrite app_nil_r; reflexivity|].
  destruct obs as [|ob robs]; [discriminate|]. inversion Hb as [|o' r' Ho Hr]; subst.
  cbn [g_run]. rewrite IH by (auto; cbn in Hl; lia). rewrite g_step_flat by assumption.
  rewrite (written_cons o r), app_assoc. reflexivity.
Qed.

(* ---- the number of closed files grows by at most one per operation (and by one at the start) ---- *)
Definition gpot (v a : aview) : nat :=
  match a with None => S (length (closed_of v)) | Some (cl, _) => length cl end.

Lemma a_step_pot cl cu o rot : match a_step (Some (cl, cu)) o rot with
                               | Some (cl', _) => length cl' <= S (length cl)
                               | None => False end.
Proof. destruct o; cbn [a_step]; try lia; try (destruct rot); rewrite ?app_length; cbn [length]; lia. Qed.

Lemma init_view_pot c v : length (fst (init_view c v)) <= S (length (closed_of v)).
Proof.
  destruct v as [[cl cu]|]; cbn [init_view closed_of fst length]; [|lia].
  destruct (c_append c); cbn [fst]; rewrite ?app_length; cbn [length]; lia.
Qed.

Lemma g_step_pot c v a o rot : gpot v (g_step c v a o rot) <= S (gpot v a).
Proof.
  destruct a as [[cl cu]|].
  - cbn [g_step]. pose proof (a_step_pot cl cu o rot) as H. destruct (a_step (Some (cl, cu)) o rot) as [[cl' cu']|]; [|contradiction].
    cbn [gpot]. exact H.
  - pose proof (init_view_pot c v) as H0. destruct (init_view c v) as [cl cu] eqn:Ei. cbn [fst] in H0.
    destruct o; cbn [g_step gpot]; try lia.
    + rewrite Ei. pose proof (a_step_pot cl cu (OWrite b) rot) as H. destruct (a_step (Some (cl, cu)) (OWrite b) rot) as [[cl' cu']|]; [|contradiction]. cbn [gpot]. lia.
    + rewrite Ei. pose proof (a_step_pot cl cu (OPlain b) rot) as H. destruct (a_step (Some (cl, cu)) (OPlain b) rot) as [[cl' cu']|]; [|contradiction]. cbn [gpot]. lia.
Qed.

Lemma g_run_pot c v ops : forall a obs, gpot v (g_run c v a ops obs) <= gpot v a + length ops.
Proof.
  induction ops as [|o r IH]; intros a obs; cbn [g_run length]; [lia|].
  destruct obs as [|ob robs]; [lia|]. specialize (IH (g_step c v a o (rot_of ob)) robs).
  pose proof (g_step_pot c v a o (rot_of ob)). lia.
Qed.

(* the directory after the run *)
Definition gview (v a : aview) : aview := match a with None => v | Some _ => a end.

Lemma gview_flat v a : flat (gview v a) = gflat v a.
Proof. destruct a; reflexivity. Qed.
Lemma gview_pot v a : length (closed_of (gview v a)) <= gpot v a.
Proof. destruct a as [[cl cu]|]; cbn [gview gpot closed_of]; lia. Qed.

(* ---- nothing that is in the directory is touched again: every closed file keeps its place and its content, the
        file that was the current one is only ever appended to (before it is closed under the next number) ---- *)
Definition extends (v v' : aview) : Prop :=
  match v with
  | None => True
  | Some (cl, cu) => exists t more, files_of v' = cl ++ [cu ++ t] ++ more
  end.

Lemma tail_split {A} (X : list A) y P z M : X ++ [y] = P ++ [z] ++ M ->
  (M = [] /\ X = P /\ y = z) \/ exists M', M = M' ++ [y] /\ X = P ++ [z] ++ M'.
Proof.
  intros H. destruct M as [|m0 M0].
  - left. rewrite app_nil_r in H. apply app_inj_tail in H. tauto.
  - right. assert (Hne : m0 :: M0 <> []) by discriminate. destruct (exists_last Hne) as [M' [a E]]. rewrite E in *.
    rewrite !app_assoc in H. apply app_inj_tail in H. destruct H as [H1 H2]. subst a. exists M'. split; [reflexivity|].
    rewrite H1, <- app_assoc. reflexivity.
Qed.

Lemma extends_refl v : extends v v.
Proof. destruct v as [[cl cu]|]; cbn [extends files_of]; [|exact Logic.I]. exists [], []. rewrite !app_nil_r. reflexivity. Qed.

Lemma extends_trans v1 v2 v3 : extends v1 v2 -> extends v2 v3 -> extends v1 v3.
Proof.
  destruct v1 as [[cl1 cu1]|]; [|intros; exact Logic.I]. cbn [extends]. intros [t [more E]].
  destruct v2 as [[cl2 cu2]|]; [|cbn [files_of] in E; destruct cl1; discriminate].
  cbn [extends files_of] in *. intros [t' [more' E']]. rewrite E'.
  destruct (tail_split cl2 cu2 cl1 (cu1 ++ t) more E) as [[-> [-> ->]]|[M' [-> ->]]].
  - exists (t ++ t'), more'. rewrite <- (app_assoc cu1 t t'). reflexivity.
  - exists t, (M' ++ [cu2 ++ t'] ++ more'). rewrite <- !app_assoc. reflexivity.
Qed.

Lemma a_step_extends cl cu o rot : extends (Some (cl, cu)) (a_step (Some (cl, cu)) o rot).
Proof.
  destruct o; cbn [a_step]; try apply extends_refl; try destruct rot; cbn [extends files_of].
  all: try (exists [], [b]; rewrite app_nil_r, <- app_assoc; reflexivity).
  all: try (exists b, []; reflexivity).
  all: exists [], [[]]; rewrite app_nil_r, <- app_assoc; reflexivity.
Qed.

Lemma init_view_extends c v : extends v (Some (init_view c v)).
Proof.
  destruct v as [[cl cu]|]; [|exact Logic.I]. cbn [init_view]. destruct (c_append c); [apply extends_refl|].
  cbn [extends files_of]. exists [], [[]]. rewrite app_nil_r, <- app_assoc. reflexivity.
Qed.

Lemma g_step_extends c v a o rot : extends v (gview v a) -> extends v (gview v (g_step c v a o rot)).
Proof.
  intros H. destruct a as [[cl cu]|].
  - cbn [g_step gview] in *. destruct (a_step_some (cl, cu) o rot) as [q Eq].
    pose proof (a_step_extends cl cu o rot) as X. rewrite Eq in *. cbn [gview]. exact (extends_trans _ _ _ H X).
  - destruct (init_view c v) as [cl cu] eqn:Ei. pose proof (init_view_extends c v) as X0. rewrite Ei in X0.
    destruct o; cbn [g_step gview]; try apply extends_refl; rewrite Ei.
    + destruct (a_step_some (cl, cu) (OWrite b) rot) as [q Eq]. pose proof (a_step_extends cl cu (OWrite b) rot) as X.
      rewrite Eq in *. cbn [gview]. exact (extends_trans _ _ _ X0 X).
    + destruct (a_step_some (cl, cu) (OPlain b) rot) as [q Eq]. pose proof (a_step_extends cl cu (OPlain b) rot) as X.
      rewrite Eq in *. cbn [gview]. exact (extends_trans _ _ _ X0 X).
Qed.

Lemma g_run_extends c v ops : forall a obs, extends v (gview v a) -> extends v (gview v (g_run c v a ops obs)).
Proof.
  induction ops as [|o r IH]; intros a obs H; cbn [g_run]; [exact H|].
  destruct obs as [|ob robs]; [exact H|]. apply IH. apply g_step_extends. exact H.
Qed.

(* ---- start and stop ---- *)
Lemma start_pre c x v : Idle c x v -> Pre c (fst (step x (OStart c))) v.
Proof.
  intros [Ht [Ha [Es [Q D]]]]. unfold step, apply_start. rewrite Es. unfold step_core. rewrite Es. cbn [sync_step fst].
  split; [exact Ht|]. split; [exact Ha|]. split; [reflexivity|]. split; [exact Q | exact D].
Qed.

Lemma stop_idle c crit x v a : numcfg c crit -> GRel c crit x v a ->
  Idle c (fst (step x OStop)) (gview v a).
Proof.
  intros Hcfg G. destruct a as [[closed cur]|]; cbn [GRel gview] in *.
  - rewrite (step_sync_rel c crit x _ OStop Hcfg G). destruct G as [Ht [Ha R]]. cbn [sync_step].
    destruct R as [wr [roll [Es [I [V [Z RS]]]]]]. rewrite Es. cbn [st_of f_poisoned]. unfold drop_state.
    destruct (shutdown_active c (s_w x) wr closed roll I Ha) as [w1 [wr1 [E1 [I1 [V1 [P1 A1]]]]]]. fold (st_of c (length closed) roll wr). rewrite E1.
    destruct (shutdown_active c w1 wr1 closed roll I1 A1) as [w2 [wr2 [E2 [I2 [V2 [P2 A2]]]]]]. rewrite E2.
    cbn [st_of f_inner s_w]. unfold w_drop.
    destruct (w_flush_quiet w2 wr2 (ni_quiet _ _ _ _ I2)) as [w3 [E3 [F3 S3]]]. rewrite E3. cbn [fst snd]. unfold Idle. cbn [s_tl s_w s_flw].
    rewrite P2, append_ino_nil_id in F3.
    split; [exact Ht|]. split; [exact (same_env_acts _ _ S3 A2)|]. split; [reflexivity|]. split; [apply S3|].
    cbn [dir_view]. rewrite F3.
    destruct I2 as [Q W Hc Hcp Hcl Hon Hwr Hcap]. split; [exact W|]. split; [exact Hcl|]. split; [|exact Hon].
    exists (wino wr2). split; [exact Hc|]. split; [exact Hcp|].
    unfold cur_view in *. rewrite P2, app_nil_r in V2. congruence.
  - rewrite (step_sync_pre c crit x v OStop Hcfg G). destruct G as [Ht [Ha [Es [Q D]]]]. cbn [sync_step].
    rewrite Es. cbn [new_flw f_poisoned drop_state shutdown_state f_inner fst]. unfold Idle. cbn [s_tl s_w s_flw].
    split; [exact Ht|]. split; [exact Ha|]. split; [reflexivity|]. split; [exact Q | exact D].
Qed.

(* ---- one whole run ---- *)
Lemma one_run c crit x v ops :
  numcfg c crit -> (N.of_nat (length (closed_of v)) <= u32_max)%N ->
  Forall basic_op ops -> Idle c x v ->
  exists v', Idle c (fst (run x (OStart c :: ops ++ [OStop]))) v'
    /\ flat v' = flat v ++ written ops
    /\ length (closed_of v') <= length (closed_of v) + S (length ops)
    /\ extends v v'.
Proof.
  intros Hcfg Hb Hops Id. cbn [run]. pose proof (start_pre c x v Id) as P0.
  destruct (step x (OStart c)) as [x0 ob0]. cbn [fst] in P0.
  rewrite run_app.
  pose proof (grun_rel c crit v Hcfg Hb ops x0 None P0 Hops) as G1. pose proof (run_length ops x0) as L.
  destruct (run x0 ops) as [x1 obs1]. cbn [fst snd] in *.
  pose proof (stop_idle c crit x1 v _ Hcfg G1) as S. cbn [run]. destruct (step x1 OStop) as [x2 ob2]. cbn [fst] in *.
  exists (gview v (g_run c v None ops obs1)). split; [exact S|]. split.
  - rewrite gview_flat, (g_run_flat c v ops None obs1 Hops L). reflexivity.
  - split; [pose proof (gview_pot v (g_run c v None ops obs1)); pose proof (g_run_pot c v ops None obs1); cbn [gpot] in *; lia|].
    apply g_run_extends. apply extends_refl.
Qed.

(* ------------------------------------------------------------------ sequences of runs *)
Fixpoint runs_ops (rs : list (config * list op)) : list op :=
  match rs with [] => [] | (c, ops) :: r => OStart c :: ops ++ [OStop] ++ runs_ops r end.
Fixpoint runs_written (rs : list (config * list op)) : bytes :=
  match rs with [] => [] | (_, ops) :: r => written ops ++ runs_written r end.

Definition run_ok (sp : file_spec) (r : config * list op) : Prop :=
  c_spec (fst r) = sp /\ (exists crit, numcfg (fst r) crit) /\ Forall basic_op (snd r).

Lemma runs_ops_cons c ops r : runs_ops ((c, ops) :: r) = (OStart c :: ops ++ [OStop]) ++ runs_ops r.
Proof. cbn [runs_ops app]. rewrite <- app_assoc. reflexivity. Qed.

Lemma runs_rel sp : forall rs x v c0, c_spec c0 = sp -> Forall (run_ok sp) rs -> Idle c0 x v ->
  (N.of_nat (length (closed_of v) + length (runs_ops rs)) <= u32_max)%N ->
  exists v', Idle c0 (fst (run x (runs_ops rs))) v' /\ flat v' = flat v ++ runs_written rs /\ extends v v'
    /\ length (closed_of v') <= length (closed_of v) + length (runs_ops rs).
Proof.
  induction rs as [|[c ops] r IH]; intros x v c0 Ec0 Hrs Id Hb.
  - exists v. split; [exact Id|]. cbn [runs_written runs_ops length]. rewrite app_nil_r.
    split; [reflexivity|]. split; [apply extends_refl | lia].
  - inversion Hrs as [|r0 r' [Ec [[crit Hcfg] Hops]] Hr]; subst. cbn [fst snd] in *.
    rewrite runs_ops_cons in *.
    assert (Esp : c_spec c0 = c_spec c) by congruence.
    assert (Hb1 : (N.of_nat (length (closed_of v)) <= u32_max)%N) by lia.
    destruct (one_run c crit x v ops Hcfg Hb1 Hops (idle_spec c0 c x v Esp Id)) as [v1 [Id1 [F1 [P1 X1]]]].
    rewrite run_app. destruct (run x (OStart c :: ops ++ [OStop])) as [x1 obs1]. cbn [fst] in Id1.
    assert (Hb2 : (N.of_nat (length (closed_of v1) + length (runs_ops r)) <= u32_max)%N).
    { rewrite app_length in Hb. cbn [length] in Hb. rewrite app_length in Hb. cbn [length] in Hb. lia. }
    destruct (IH x1 v1 c0 eq_refl Hr (idle_spec c c0 x1 v1 (eq_sym Esp) Id1) Hb2) as [v2 [Id2 [F2 [X2 P2]]]].
    destruct (run x1 (runs_ops r)) as [x2 obs2]. cbn [fst] in *.
    exists v2. split; [exact Id2|]. split; [rewrite F2, F1; cbn [runs_written]; rewrite app_assoc; reflexivity|].
    split; [exact (extends_trans _ _ _ X1 X2)|].
    rewrite app_length. cbn [length]. rewrite app_length. cbn [length]. lia.
Qed.

Lemma idle0 c t0 off : Idle c (sys0 t0 off) None.
Proof. cbn. repeat split. Qed.

Lemma idle_reads sp c0 x v : c_spec c0 = sp -> Idle c0 x v ->
  (forall c, c_spec c = sp -> reads c (wfs (s_w x)) (files_of v)) /\ concat (files_of v) = flat v.
Proof.
  intros E0 [_ [_ [_ [_ D]]]]. split.
  - intros c Ec. apply files_of_reads. apply (dir_view_spec c0 c) in D; [|congruence].
    destruct v as [[cl cu]|]; cbn [dir_view] in D; tauto.
  - destruct v as [[cl cu]|]; cbn [files_of flat concat]; [|reflexivity].
    rewrite concat_app. cbn [concat]. rewrite app_nil_r. reflexivity.
Qed.

Lemma runs_ops_app rs1 rs2 : runs_ops (rs1 ++ rs2) = runs_ops rs1 ++ runs_ops rs2.
Proof.
  induction rs1 as [|[c ops] r IH]; [reflexivity|]. cbn [app]. rewrite !runs_ops_cons, IH, <- app_assoc. reflexivity.
Qed.
Lemma runs_written_app rs1 rs2 : runs_written (rs1 ++ rs2) = runs_written rs1 ++ runs_written rs2.
Proof.
  induction rs1 as [|[c ops] r IH]; [reflexivity|]. cbn [app runs_written]. rewrite IH, <- app_assoc. reflexivity.
Qed.

Definition sp_config (sp : file_spec) : config :=
  {| c_spec := sp; c_append := false; c_cap := None; c_rot := None; c_utc := false; c_symlink := false;
     c_bg := false; c_async := false; c_start := None |}.

(* The statement asked for, with one side condition that the model needs:

   Theorem numbers_restarts sp t0 off rs :
     Forall (fun r => c_spec (fst r) = sp /\ (exists crit, numcfg (fst r) crit) /\ Forall basic_op (snd r)) rs ->
     exists files, (forall c, c_spec c = sp -> reads c (wfs (s_w (fst (run (sys0 t0 off) (runs_ops rs))))) files)
                /\ concat files = runs_written rs.

   - the bound on the length of the history is needed because the index that is read back from a listed file name
     is parsed as u32 and counts as 0 when it does not fit (index_beyond_u32_reads_as_0 below); a history of that
     length cannot be evaluated, so there is no end-to-end example for it.
   Nothing is required of the file spec any more (an earlier version of the model read the index after the last "_r"
   of the whole name and failed for a suffix that contains "_r"; see suffix_with_ur_keeps_records below).
   Everything else is as asked: any number of runs, each with its own configuration (append or not, any criterion, any
   buffer capacity), runs without a write included. *)
Theorem numbers_restarts_partial sp t0 off rs :
  (N.of_nat (length (runs_ops rs)) <= u32_max)%N ->
  Forall (fun r => c_spec (fst r) = sp /\ (exists crit, numcfg (fst r) crit) /\ Forall basic_op (snd r)) rs ->
  exists files,
    (forall c, c_spec c = sp -> reads c (wfs (s_w (fst (run (sys0 t0 off) (runs_ops rs))))) files)
    /\ concat files = runs_written rs.
Proof.
  intros Hb Hrs.
  destruct (runs_rel sp rs (sys0 t0 off) None (sp_config sp) eq_refl Hrs (idle0 _ t0 off) Hb) as [v' [Id [F _]]].
  destruct (idle_reads sp (sp_config sp) _ v' eq_refl Id) as [R C].
  exists (files_of v'). split; [exact R|]. rewrite C, F. reflexivity.
Qed.
Print Assumptions numbers_restarts_partial.

(* No file name is reused, no earlier file is touched: whatever further runs follow, every file that was closed keeps
   its number and its content; the file that was the current one is found under the next number (or is still the
   current one), with its old content as a prefix. *)
Theorem numbers_restarts_keep sp t0 off rs1 rs2 :
  (N.of_nat (length (runs_ops (rs1 ++ rs2))) <= u32_max)%N ->
  Forall (fun r => c_spec (fst r) = sp /\ (exists crit, numcfg (fst r) crit) /\ Forall basic_op (snd r)) (rs1 ++ rs2) ->
  exists files1 files2,
    (forall c, c_spec c = sp -> reads c (wfs (s_w (fst (run (sys0 t0 off) (runs_ops rs1))))) files1)
    /\ concat files1 = runs_written rs1
    /\ (forall c, c_spec c = sp -> reads c (wfs (s_w (fst (run (sys0 t0 off) (runs_ops (rs1 ++ rs2)))))) files2)
    /\ concat files2 = runs_written (rs1 ++ rs2)
    /\ (files1 = [] \/ exists closed cur t more, files1 = closed ++ [cur] /\ files2 = closed ++ [cur ++ t] ++ more).
Proof.
  intros Hb Hrs. apply Forall_app in Hrs. destruct Hrs as [Hrs1 Hrs2].
  rewrite runs_ops_app, app_length in Hb.
  assert (Hb1 : (N.of_nat (length (closed_of None) + length (runs_ops rs1)) <= u32_max)%N) by (cbn [closed_of length]; lia).
  destruct (runs_rel sp rs1 (sys0 t0 off) None (sp_config sp) eq_refl Hrs1 (idle0 _ t0 off) Hb1) as [v1 [Id1 [F1 [_ P1]]]].
  rewrite runs_ops_app, run_app. destruct (run (sys0 t0 off) (runs_ops rs1)) as [x1 obs1]. cbn [fst] in *.
  assert (Hb2 : (N.of_nat (length (closed_of v1) + length (runs_ops rs2)) <= u32_max)%N) by (cbn [closed_of length] in P1; lia).
  destruct (runs_rel sp rs2 x1 v1 (sp_config sp) eq_refl Hrs2 Id1 Hb2) as [v2 [Id2 [F2 [X2 _]]]].
  destruct (run x1 (runs_ops rs2)) as [x2 obs2]. cbn [fst] in *.
  destruct (idle_reads sp (sp_config sp) _ v1 eq_refl Id1) as [R1 C1]. destruct (idle_reads sp (sp_config sp) _ v2 eq_refl Id2) as [R2 C2].
  exists (files_of v1), (files_of v2). split; [exact R1|]. split; [rewrite C1, F1; reflexivity|].
  split; [exact R2|]. split; [rewrite C2, F2, F1, runs_written_app; reflexivity|].
  destruct v1 as [[cl cu]|]; [right | left; reflexivity]. cbn [extends] in X2. destruct X2 as [t [more E]].
  exists cl, cu, t, more. split; [reflexivity | exact E].
Qed.
Print Assumptions numbers_restarts_keep.

(* ------------------------------------------------------------------ examples *)
Open Scope string_scope.
Definition ex_sp (sfx : String.string) : file_spec := {| fbase := bs "app"; fdisc := None; fts := false; fsfx := Some (bs sfx) |}.
Definition ex_cfg (sp : file_spec) (app : bool) (crit : criterion) (cap : option nat) : config :=
  {| c_spec := sp; c_append := app; c_cap := cap; c_rot := Some (crit, NNumbers, KNever); c_utc := false;
     c_symlink := false; c_bg := false; c_async := false; c_start := None |}.

(* the hypotheses of the theorems can be met: three runs with different configurations, one of them appending *)
Definition ex_rs : list (config * list op) :=
  [ (ex_cfg (ex_sp "log") false (CSize 3) None, [OWrite (bs "abcd"); OWrite (bs "ef"); OTrigger; OWrite (bs "g")]);
    (ex_cfg (ex_sp "log") true (CSize 1) (Some 8%nat), [OTick 5; OFlush; OWrite (bs "hi"); OWrite (bs "j")]);
    (ex_cfg (ex_sp "log") false (CAge ADay) None, [OSnap]);
    (ex_cfg (ex_sp "log") false (CAgeOrSize AHour 100) (Some 2%nat), [OPlain (bs "k")]) ].

Example restarts_instance :
  exists files,
    (forall c, c_spec c = ex_sp "log" -> reads c (wfs (s_w (fst (run (sys0 0 0) (runs_ops ex_rs))))) files)
    /\ concat files = bs "abcdefghijk".
Proof.
  apply (numbers_restarts_partial (ex_sp "log") 0 0 ex_rs).
  - vm_compute. discriminate.
  - unfold ex_rs. repeat (apply Forall_cons; [split; [reflexivity|]; split; [eexists; repeat split|]; repeat constructor|]).
    apply Forall_nil.
Qed.

Definition snap_of (x : sys) : list (bytes * N * bytes) :=
  match snapshot (s_w x) with ObsSnap l _ _ => l | _ => [] end.

(* the directory of that history: abcd | ef | g, the appending run continues "g" and then rotates ("ghi" is larger
   than 1), the run without a write changes nothing, the last run closes "j" and starts a new current file *)
Example restarts_instance_dir :
  snap_of (fst (run (sys0 0 0) (runs_ops ex_rs)))
  = [ (bs "app_r00000.log", 0%N, bs "abcd"); (bs "app_r00001.log", 0%N, bs "ef"); (bs "app_r00002.log", 0%N, bs "ghi");
      (bs "app_r00003.log", 0%N, bs "j"); (bs "app_rCURRENT.log", 0%N, bs "k") ].
Proof. vm_compute. reflexivity. Qed.

(* a suffix that contains "_r": the index of a listed file is read directly after the fixed name part, the suffix does
   not disturb it (with the earlier listing every file counted as number 5 here, and "b" was overwritten) *)
Definition ex_ur : list (config * list op) :=
  [ (ex_cfg (ex_sp "x_r5") false (CSize 100) None, [OWrite (bs "a"); OTrigger; OWrite (bs "b")]);
    (ex_cfg (ex_sp "x_r5") false (CSize 100) None, [OWrite (bs "c")]);
    (ex_cfg (ex_sp "x_r5") false (CSize 100) None, [OWrite (bs "d")]) ].

Example suffix_with_ur_keeps_records :
  snap_of (fst (run (sys0 0 0) (runs_ops ex_ur)))
  = [ (bs "app_r00000.x_r5", 0%N, bs "a"); (bs "app_r00001.x_r5", 0%N, bs "b"); (bs "app_r00002.x_r5", 0%N, bs "c");
      (bs "app_rCURRENT.x_r5", 0%N, bs "d") ].
Proof. vm_compute. reflexivity. Qed.

Example suffix_with_ur_instance :
  exists files,
    (forall c, c_spec c = ex_sp "x_r5" -> reads c (wfs (s_w (fst (run (sys0 0 0) (runs_ops ex_ur))))) files)
    /\ concat files = bs "abcd".
Proof.
  apply (numbers_restarts_partial (ex_sp "x_r5") 0 0 ex_ur).
  - vm_compute. discriminate.
  - unfold ex_ur. repeat (apply Forall_cons; [split; [reflexivity|]; split; [eexists; repeat split|]; repeat constructor|]).
    apply Forall_nil.
Qed.

(* the bound on the history is needed: an index that does not fit u32 is read back as 0 *)
Example index_beyond_u32_reads_as_0 :
  index_of_listed (bs "app") (nm (ex_cfg (ex_sp "log") false (CSize 1) None) (number_infix 4294967296))
  = Some 0%N
  /\ index_of_listed (bs "app") (nm (ex_cfg (ex_sp "log") false (CSize 1) None) (number_infix 4294967295))
  = Some 4294967295%N.
Proof. vm_compute. split; reflexivity. Qed.

Print Assumptions numbers_restarts_partial.
Print Assumptions numbers_restarts_keep.
