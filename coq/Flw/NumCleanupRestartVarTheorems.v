(* Numbers naming, sequences of runs on one directory, every run with its own cleanup strategy (part 2): the theorems
   numbers_cleanup_restarts_varying (shape and stream), numbers_cleanup_restarts_varying_keep and
   numbers_cleanup_restarts_varying_keep_files (a later run never changes what an earlier run closed).
   Hypothesis on the strategies: each of them keeps at least one closed file (KNever, or limits n + m >= 1).  It is
   necessary for the keep theorems: see reused_number_counterexample in NumCleanupRestartEx.v. *)
Require Import FL.Base.Bytes FL.Base.BytesFacts FL.Base.PathName FL.Fs.Fs FL.Fs.FsFacts FL.Time.Civil FL.Time.TsFormat
  FL.Names.FileSpec FL.Names.NamesFacts FL.Names.SortFacts FL.Names.FamilyFacts FL.Flw.Model FL.Flw.ModelFacts FL.Flw.NumFs
  FL.Flw.NumInv FL.Flw.Run FL.Flw.RunFacts FL.Flw.NumRun FL.Flw.NumListing FL.Oracles.O_Flw FL.Flw.NumTheorems FL.Flw.CleanupFacts
  FL.Flw.NumCleanupNames FL.Flw.NumCleanupStep FL.Flw.NumCleanupRun FL.Flw.NumCleanup FL.Flw.NumRestart FL.Flw.KillFacts FL.Flw.NumKill
  FL.Flw.NumKillRestart FL.Flw.NoPanic FL.Flw.NumCleanupKillDir FL.Flw.NumCleanupKillStep FL.Flw.NumCleanupKill
  FL.Flw.NumCleanupKillListing FL.Flw.NumCleanupKillRestart FL.Flw.NumCleanupRestart FL.Flw.NumCleanupRestartTheorems
  FL.Flw.NumCleanupRestartVar.
From Coq Require Import ZifyN ZifyNat ZifyBool.
Open Scope nat_scope.

Definition vrun_ok (A B : nat) (sp : file_spec) (r : config * list op) : Prop :=
  c_spec (fst r) = sp /\ (exists crit k, numkcfg (fst r) crit k /\ kok A B k) /\ Forall basic_op (snd r).

Lemma numkcfg_fun c crit k crit' k' : numkcfg c crit k -> numkcfg c crit' k' -> k = k'.
Proof. intros (H & _) (H' & _). congruence. Qed.

Lemma runs_ops_one c ops : runs_ops [(c, ops)] = OStart c :: ops ++ [OStop].
Proof. cbn [runs_ops app]. reflexivity. Qed.

Lemma runs_rel_v A B sp : 1 <= A -> sfx_ok sp ->
  forall rs x v lo0 mid0 c0, c_spec c0 = sp -> Forall (vrun_ok A B sp) rs -> IdleV A B c0 x v lo0 mid0 ->
  (N.of_nat (length (closed_of v) + length (runs_ops rs)) <= u32_max)%N ->
  exists v' lo mid, IdleV A B c0 (fst (run x (runs_ops rs))) v' lo mid /\ flat v' = flat v ++ runs_written rs /\ extends v v'
    /\ length (closed_of v') <= length (closed_of v) + length (runs_ops rs) /\ lo0 <= lo /\ mid0 <= mid
    /\ (forall rs0 c ops crit k, rs = rs0 ++ [(c, ops)] -> existsb is_wr ops = true -> numkcfg c crit k ->
          kup k lo mid (length (closed_of v'))).
Proof.
  intros HA Hsfx. induction rs as [|[c ops] rs IH] using rev_ind; intros x v lo0 mid0 c0 Ec0 Hrs Id Hb.
  - exists v, lo0, mid0. split; [exact Id|]. cbn [runs_written runs_ops length]. rewrite app_nil_r.
    split; [reflexivity|]. split; [apply extends_refl|]. split; [lia|]. split; [lia|]. split; [lia|].
    intros rs0 c ops crit k E. destruct rs0; discriminate.
  - apply Forall_app in Hrs. destruct Hrs as [Hrs Hlast].
    inversion Hlast as [|r0 r' [Ec [(crit & k & Hcfg & Hkok) Hops]] _]; subst. cbn [fst snd] in *.
    rewrite runs_ops_app, runs_ops_one, app_length in Hb.
    destruct (IH x v lo0 mid0 c0 eq_refl Hrs Id ltac:(lia)) as (v1 & lo1 & mid1 & Id1 & F1 & X1 & P1 & Hlo1 & Hmid1 & _).
    rewrite runs_ops_app, runs_ops_one, run_app. destruct (run x (runs_ops rs)) as [x1 obs1]. cbn [fst] in *.
    assert (Esp : c_spec c0 = c_spec c) by congruence.
    assert (Hsfx' : sfx_ok (c_spec c)) by (rewrite <- Esp; exact Hsfx).
    assert (Hb1 : (N.of_nat (length (closed_of v1)) <= u32_max)%N) by lia.
    destruct (one_run_v A B c crit k HA Hcfg Hkok Hsfx' x1 v1 lo1 mid1 ops Hb1 Hops (idlev_spec A B c0 c x1 v1 lo1 mid1 Esp Id1))
      as (v2 & lo2 & mid2 & Id2 & F2 & P2 & X2 & Hlo2 & Hmid2 & U2).
    destruct (run x1 (OStart c :: ops ++ [OStop])) as [x2 obs2]. cbn [fst] in *.
    exists v2, lo2, mid2. split; [exact (idlev_spec A B c c0 x2 v2 lo2 mid2 (eq_sym Esp) Id2)|].
    split. { rewrite F2, F1, runs_written_app. cbn [runs_written]. rewrite app_nil_r, app_assoc. reflexivity. }
    split; [exact (extends_trans _ _ _ X1 X2)|].
    split. { rewrite app_length. cbn [length]. rewrite app_length. cbn [length]. cbn [length] in Hb. lia. }
    split; [lia|]. split; [lia|].
    intros rs0 c' ops' crit' k' E Hw Hcfg'. apply app_inj_tail in E. destruct E as [_ E]. injection E as <- <-.
    rewrite <- (numkcfg_fun c crit k crit' k' Hcfg Hcfg'). exact (U2 Hw).
Qed.

Lemma idlev0 A B c t0 off : IdleV A B c (sys0 t0 off) None 0 0.
Proof. cbn. repeat split. Qed.

Lemma idlev_view A B sp c0 x v lo mid : c_spec c0 = sp -> IdleV A B c0 x v lo mid ->
  match v with
  | None => names (wfs (s_w x)) = []
  | Some (cl, cu) => (forall c, c_spec c = sp -> kreader_view c (wfs (s_w x)) cl cu lo mid) /\ WinOK A B lo mid (length cl)
  end.
Proof.
  intros E0 (_ & _ & _ & _ & D). destruct v as [[cl cu]|]; cbn [kdir_view_v] in D; [|tauto].
  destruct D as (_ & V & X). split; [|exact X]. intros c Ec. apply (kreader_view_spec c0 c); [congruence | exact V].
Qed.

(* ------------------------------------------------------------------ THEOREM 1, every run with its own strategy *)
(* Any number of runs on one directory, each with its own criterion, buffer capacity, append flag, history AND CLEANUP
   STRATEGY (KNever, or limits with n + m >= A >= 1 and n >= B).  The final directory is empty, or it has the shape
   kreader_view for a window lo <= mid <= L: rCURRENT, the plain files r<i> (mid <= i < L), the complete archives
   r<i>.gz (lo <= i < mid), nothing else, each with exactly the content closed under its number; closed lists everything
   that was closed, in the order of closing, so the survivors and rCURRENT are a suffix of what was written.
   At least min(L, A) closed files survive, at least min(L, B) of them plain; if the last run has written something, the
   limits of its strategy hold (at most n plain files, at most n + m closed files). *)
Theorem numbers_cleanup_restarts_varying sp A B t0 off rs :
  1 <= A -> sfx_ok sp ->
  (N.of_nat (length (runs_ops rs)) <= u32_max)%N ->
  Forall (fun r => c_spec (fst r) = sp /\ (exists crit k, numkcfg (fst r) crit k /\ kok A B k) /\ Forall basic_op (snd r)) rs ->
  let f := wfs (s_w (fst (run (sys0 t0 off) (runs_ops rs)))) in
  (names f = [] /\ runs_written rs = [])
  \/ exists closed cur lo mid,
       (forall c, c_spec c = sp -> kreader_view c f closed cur lo mid)
       /\ concat closed ++ cur = runs_written rs
       /\ Nat.min (length closed) A <= length closed - lo /\ Nat.min (length closed) B <= length closed - mid
       /\ (forall rs0 c ops crit k n m, rs = rs0 ++ [(c, ops)] -> existsb is_wr ops = true -> numkcfg c crit k ->
             klim k = Some (n, m) -> length closed - mid <= n /\ length closed - lo <= n + m).
Proof.
  intros HA Hsfx Hb Hrs f.
  destruct (runs_rel_v A B sp HA Hsfx rs (sys0 t0 off) None 0 0 (sp_config sp) eq_refl Hrs (idlev0 A B _ t0 off) Hb)
    as (v' & lo & mid & Id & F & _ & _ & _ & _ & U).
  pose proof (idlev_view A B sp (sp_config sp) _ v' lo mid eq_refl Id) as V. fold f in V.
  destruct v' as [[cl cu]|].
  - right. destruct V as [V [X1 X2]]. exists cl, cu, lo, mid. split; [exact V|]. cbn [flat app] in F. split; [exact F|].
    split; [exact X1|]. split; [exact X2|].
    intros rs0 c ops crit k n m E Hw Hcfg Hk. specialize (U rs0 c ops crit k E Hw Hcfg). unfold kup in U. rewrite Hk in U. exact U.
  - left. split; [exact V|]. cbn [flat app] in F. symmetry. exact F.
Qed.
Print Assumptions numbers_cleanup_restarts_varying.

(* ------------------------------------------------------------------ THEOREM 2, every run with its own strategy *)
Theorem numbers_cleanup_restarts_varying_keep sp A B t0 off rs1 rs2 :
  1 <= A -> sfx_ok sp ->
  (N.of_nat (length (runs_ops (rs1 ++ rs2))) <= u32_max)%N ->
  Forall (fun r => c_spec (fst r) = sp /\ (exists crit k, numkcfg (fst r) crit k /\ kok A B k) /\ Forall basic_op (snd r)) (rs1 ++ rs2) ->
  let f1 := wfs (s_w (fst (run (sys0 t0 off) (runs_ops rs1)))) in
  let f2 := wfs (s_w (fst (run (sys0 t0 off) (runs_ops (rs1 ++ rs2))))) in
  (names f1 = [] /\ runs_written rs1 = [])
  \/ exists closed1 cur1 lo1 mid1 closed2 cur2 lo2 mid2 t more,
       (forall c, c_spec c = sp -> kreader_view c f1 closed1 cur1 lo1 mid1)
       /\ concat closed1 ++ cur1 = runs_written rs1
       /\ (forall c, c_spec c = sp -> kreader_view c f2 closed2 cur2 lo2 mid2)
       /\ concat closed2 ++ cur2 = runs_written (rs1 ++ rs2)
       /\ closed2 ++ [cur2] = closed1 ++ [cur1 ++ t] ++ more
       /\ lo1 <= lo2 /\ mid1 <= mid2.
Proof.
  intros HA Hsfx Hb Hrs f1 f2. apply Forall_app in Hrs. destruct Hrs as [Hrs1 Hrs2].
  rewrite runs_ops_app, app_length in Hb.
  assert (Hb1 : (N.of_nat (length (closed_of None) + length (runs_ops rs1)) <= u32_max)%N) by (cbn [closed_of length]; lia).
  destruct (runs_rel_v A B sp HA Hsfx rs1 (sys0 t0 off) None 0 0 (sp_config sp) eq_refl Hrs1 (idlev0 A B _ t0 off) Hb1)
    as (v1 & lo1 & mid1 & Id1 & F1 & _ & P1 & _ & _ & _).
  unfold f1, f2. rewrite runs_ops_app, run_app. destruct (run (sys0 t0 off) (runs_ops rs1)) as [x1 obs1]. cbn [fst] in *.
  assert (Hb2 : (N.of_nat (length (closed_of v1) + length (runs_ops rs2)) <= u32_max)%N) by (cbn [closed_of length] in P1; lia).
  destruct (runs_rel_v A B sp HA Hsfx rs2 x1 v1 lo1 mid1 (sp_config sp) eq_refl Hrs2 Id1 Hb2)
    as (v2 & lo2 & mid2 & Id2 & F2 & X2 & _ & Hlo & Hmid & _).
  destruct (run x1 (runs_ops rs2)) as [x2 obs2]. cbn [fst] in *.
  pose proof (idlev_view A B sp (sp_config sp) _ v1 lo1 mid1 eq_refl Id1) as V1.
  pose proof (idlev_view A B sp (sp_config sp) _ v2 lo2 mid2 eq_refl Id2) as V2.
  destruct v1 as [[cl1 cu1]|].
  - right. cbn [extends] in X2. destruct X2 as [t [more E]].
    destruct v2 as [[cl2 cu2]|]; [|cbn [files_of] in E; destruct cl1; discriminate].
    exists cl1, cu1, lo1, mid1, cl2, cu2, lo2, mid2, t, more. cbn [flat app files_of] in *.
    split; [exact (proj1 V1)|]. split; [exact F1|]. split; [exact (proj1 V2)|].
    split; [rewrite F2, F1, runs_written_app; reflexivity|]. split; [exact E|]. split; assumption.
  - left. split; [exact V1|]. cbn [flat app] in F1. symmetry. exact F1.
Qed.
Print Assumptions numbers_cleanup_restarts_varying_keep.

(* file by file: whatever the reader finds under a number after the first runs, it finds under the same number after all
   runs - unless the cleanup has removed it; an archive does not come back as a plain file *)
Theorem numbers_cleanup_restarts_varying_keep_files sp A B t0 off rs1 rs2 c i d :
  1 <= A -> sfx_ok sp ->
  (N.of_nat (length (runs_ops (rs1 ++ rs2))) <= u32_max)%N ->
  Forall (fun r => c_spec (fst r) = sp /\ (exists crit k, numkcfg (fst r) crit k /\ kok A B k) /\ Forall basic_op (snd r)) (rs1 ++ rs2) ->
  c_spec c = sp ->
  let f1 := wfs (s_w (fst (run (sys0 t0 off) (runs_ops rs1)))) in
  let f2 := wfs (s_w (fst (run (sys0 t0 off) (runs_ops (rs1 ++ rs2))))) in
  reads_at c f1 i d ->
  (reads_at c f2 i d /\ (lookup f1 (rname c i) = None -> lookup f2 (rname c i) = None))
  \/ (lookup f2 (rname c i) = None /\ lookup f2 (gname c i) = None).
Proof.
  intros HA Hsfx Hb Hrs Ec f1 f2 R.
  pose proof (numbers_cleanup_restarts_varying_keep sp A B t0 off rs1 rs2 HA Hsfx Hb Hrs) as T. cbv zeta in T. fold f1 f2 in T.
  destruct T as [[Hn _]|(cl1 & cu1 & lo1 & mid1 & cl2 & cu2 & lo2 & mid2 & t & more & V1 & _ & V2 & _ & E & Hlo & Hmid)].
  - exfalso. unfold reads_at, file_of in R. rewrite !(lookup_empty f1) in R by exact Hn. destruct R as (g & X & _). discriminate.
  - specialize (V1 c Ec). specialize (V2 c Ec).
    destruct (kview_reads_at c f1 cl1 cu1 _ _ i d V1 R) as [Hi Ed].
    assert (HL : length cl1 <= length cl2).
    { apply (f_equal (@length bytes)) in E. rewrite !app_length in E. cbn [length] in E. lia. }
    assert (En : nth i cl2 [] = nth i cl1 []).
    { apply (f_equal (fun l => nth i l [])) in E. rewrite app_nth1 in E by lia. rewrite app_nth1 in E by lia. exact E. }
    destruct (Nat.le_gt_cases lo2 i) as [H2|H2].
    + left. split.
      * rewrite Ed, <- En. apply (kview_reads_in c f2 cl2 cu2 _ _ i V2). lia.
      * intros N1. apply (kview_no_plain c f2 cl2 cu2 _ _ i V2).
        destruct (Nat.lt_ge_cases i mid1) as [H3|H3]; [lia|]. exfalso.
        destruct V1 as [[_ _ Hp _ _] _]. destruct (Hp i ltac:(lia)) as (j & Lj & _). congruence.
    + right. apply (kview_gone c f2 cl2 cu2 _ _ i V2). left. exact H2.
Qed.
Print Assumptions numbers_cleanup_restarts_varying_keep_files.
