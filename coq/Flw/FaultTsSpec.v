(* C19 with rotation, Timestamps naming (rCURRENT + r<time stamp>[.restart-NNNN]): the executable SPECIFICATION of what a
   FileLogWriter with Timestamps naming, size criterion, direct mode (no buffer), no cleanup, synchronous, makes of a
   list of records - each preceded by an advance of the clock - when the file-system calls fail as an arbitrary fault
   oracle says; and what the specification implies.  The refinement proof (the model `run` does exactly this) is in
   FaultTs.v.

   What the model (and the code) does, read off write_buffer / mount_next / initialize (validated by vm_compute against
   `run` for all oracles up to length 8, FaultTs.zx_agree_all):

   (iii) a failing step of the INITIALISATION.  Without append: the two read_dir of the collision-free infix, the rename
         of an old rCURRENT (there is none: NotFound is tolerated, but the call is made and can fail), the open/create of
         rCURRENT.  With append: the open/create of rCURRENT, the metadata call.  initialize returns Err, write_buffer
         returns Err BEFORE anything is written, the record is LOST, the handle reports EWrite, the state stays `Initial`:
         the next record initialises again from the beginning.  With append, an rCURRENT that was created before the
         failing metadata call stays (empty) and is continued later - its birth time becomes the time stamp of the naming
         state (the name it gets when it is closed), also when the clock has advanced.
   (i)   a rotation makes FOUR fallible calls: read_dir, read_dir (the collision-free infix for the time stamp ts of the
         naming state = the second rCURRENT was started), rename rCURRENT -> r<ts>[.restart-NNNN], open/create the new
         rCURRENT.  When one of the first three fails, mount_next returns Err with the state unchanged (time stamp
         included), write_buffer reports ELogFile and WRITES THE RECORD WITH THE OLD WRITER into the (over-full) rCURRENT.
         Nothing is lost; the size counter still exceeds the limit, the next record tries again.
   (ii)  the rename succeeds, the OPEN/CREATE of the new rCURRENT fails: mount_next returns Err; the time stamp of the
         naming state has ALREADY been set to the present second (the birth time of the - not existing - rCURRENT is the
         clock); the writer is still the old one, whose file is now called r<ts>[.restart-NNNN]; write_buffer reports
         ELogFile and WRITES THE RECORD INTO THE RENAMED FILE.  Nothing is lost, the order is kept (that file is the newest
         closed file, there is no rCURRENT) - state ZOld.  The next record tries the rotation again: two read_dir for the
         infix of the NEW time stamp (the result is not used for anything), the rename finds no rCURRENT (NotFound is
         tolerated; nothing is renamed, no file is overwritten, the name of the renamed file is not used a second time),
         a new rCURRENT is created; the time stamp of the naming state is the second of THAT attempt - the second the new
         rCURRENT is created.  The time stamp that was set by the failed attempt names no file, ever.
   (iv)  the WRITE itself fails: write_buffer returns Err, the size counter is not increased, the record is LOST, the handle
         reports EWrite; the writer state is as before.
   Every oracle entry `true` that is consumed yields exactly one reported error (ELogFile: rotation step, record
   kept; EWrite: record lost).  No log call panics or returns an error. *)
Require Import FL.Base.Bytes FL.Base.BytesFacts FL.Fs.Fs FL.Flw.Model FL.Flw.Run FL.Flw.NumRun FL.Flw.TsNames FL.Flw.TsInv
  FL.Flw.FaultFacts FL.Flw.FaultRotSpec FL.Flw.FaultTsdSpec.
From Coq Require Import ZifyN ZifyNat ZifyBool.
Open Scope nat_scope.

(* ------------------------------------------------------------------ the specification *)
(* the abstract state: directory, writer, time stamp of the naming state.  A closed file is named by its key (second of
   its start, position among the files of that second: 0 = <ts>, S n = <ts>.restart-<n>) *)
Inductive zst :=
| ZInit (created : option Z)
    (* writer not initialised; the directory is empty / holds the empty rCURRENT, born in second t *)
| ZCur (keys : list key) (closed : list bytes) (ts : Z) (d : bytes)
    (* length keys = length closed: the closed files; rCURRENT holds d, the writer writes into it; it will be closed
       under the time stamp ts *)
| ZOld (keys : list key) (closed : list bytes) (ts : Z) (d : bytes).
    (* length keys = S (length closed): the closed files and, under the last key, the file that was rCURRENT and holds d;
       NO rCURRENT: the new one could not be created; the writer still writes into the renamed file; ts: the time stamp
       the naming state was given by the failed rotation (it will name nothing) *)

Definition z_keys (st : zst) : list key :=
  match st with ZInit _ => [] | ZCur keys _ _ _ => keys | ZOld keys _ _ _ => keys end.
(* the contents of the files named by the keys *)
Definition z_closed (st : zst) : list bytes :=
  match st with ZInit _ => [] | ZCur _ closed _ _ => closed | ZOld _ closed _ d => closed ++ [d] end.
(* rCURRENT *)
Definition z_cur (st : zst) : option bytes :=
  match st with ZInit None => None | ZInit (Some _) => Some [] | ZCur _ _ _ d => Some d | ZOld _ _ _ _ => None end.
(* the time stamp of the naming state *)
Definition z_ts (st : zst) : option Z :=
  match st with ZInit _ => None | ZCur _ _ ts _ => Some ts | ZOld _ _ ts _ => Some ts end.
(* what a reader finds: the closed files in the order of their keys, then rCURRENT *)
Definition zstream (st : zst) : bytes := concat (z_closed st) ++ match z_cur st with Some d => d | None => [] end.

(* an initialised writer on rCURRENT; now: the present second *)
Definition z_active (m : N) (now : Z) (keys : list key) (closed : list bytes) (ts : Z) (d b : bytes) (fl : list bool)
  : zst * list ecode * list bool :=
  let stay fl0 := let '(d', e, fl') := s_write d b fl0 in (ZCur keys closed ts d', ELogFile :: e, fl') in
  if (m <? N.of_nat (length d))%N then
    let '(f1, fl1) := pop fl in                               (* read_dir *)
    if f1 then stay fl1 else
    let '(f2, fl2) := pop fl1 in                              (* read_dir *)
    if f2 then stay fl2 else
    let '(f3, fl3) := pop fl2 in                              (* rename rCURRENT -> r<ts>[.restart-NNNN] *)
    if f3 then stay fl3 else
    let k := (ts, count ts keys) in
    let '(f4, fl4) := pop fl3 in                              (* open/create the new rCURRENT *)
    if f4 then let '(d', e, fl') := s_write d b fl4 in (ZOld (keys ++ [k]) closed now d', ELogFile :: e, fl')
    else let '(d', e, fl') := s_write [] b fl4 in (ZCur (keys ++ [k]) (closed ++ [d]) now d', e, fl')
  else let '(d', e, fl') := s_write d b fl in (ZCur keys closed ts d', e, fl').

(* an initialised writer on the renamed file (the last key) *)
Definition z_old (m : N) (now : Z) (keys : list key) (closed : list bytes) (ts : Z) (d b : bytes) (fl : list bool)
  : zst * list ecode * list bool :=
  let stay t fl0 := let '(d', e, fl') := s_write d b fl0 in (ZOld keys closed t d', ELogFile :: e, fl') in
  if (m <? N.of_nat (length d))%N then
    let '(f1, fl1) := pop fl in                               (* read_dir *)
    if f1 then stay ts fl1 else
    let '(f2, fl2) := pop fl1 in                              (* read_dir *)
    if f2 then stay ts fl2 else
    let '(f3, fl3) := pop fl2 in                              (* rename: rCURRENT is not found, nothing happens *)
    if f3 then stay ts fl3 else
    let '(f4, fl4) := pop fl3 in                              (* open/create the new rCURRENT *)
    if f4 then stay now fl4
    else let '(d', e, fl') := s_write [] b fl4 in (ZCur keys (closed ++ [d]) now d', e, fl')
  else let '(d', e, fl') := s_write d b fl in (ZOld keys closed ts d', e, fl').

(* a writer that is not initialised yet *)
Definition z_init (app : bool) (m : N) (now : Z) (created : option Z) (b : bytes) (fl : list bool) : zst * list ecode * list bool :=
  let '(f1, fl1) := if app then (false, fl) else pop fl in    (* read_dir (not with append) *)
  if f1 then (ZInit created, [EWrite], fl1) else
  let '(f2, fl2) := if app then (false, fl1) else pop fl1 in  (* read_dir (not with append) *)
  if f2 then (ZInit created, [EWrite], fl2) else
  let '(f3, fl3) := if app then (false, fl2) else pop fl2 in  (* rename of an old rCURRENT (not with append) *)
  if f3 then (ZInit created, [EWrite], fl3) else
  let '(f4, fl4) := pop fl3 in                                (* open/create rCURRENT *)
  if f4 then (ZInit created, [EWrite], fl4) else
  let t := match created with Some t0 => t0 | None => now end in
  let '(f5, fl5) := if app then pop fl4 else (false, fl4) in  (* metadata (with append) *)
  if f5 then (ZInit (Some t), [EWrite], fl5) else
  z_active m now [] [] t [] b fl5.

(* one record: the clock advances by dt, then the record b is logged *)
Definition zstep (app : bool) (m : N) (now : Z) (st : zst) (fl : list bool) (r : Z * bytes) : zst * list ecode * list bool :=
  match st with
  | ZInit created => z_init app m (now + fst r) created (snd r) fl
  | ZCur keys closed ts d => z_active m (now + fst r) keys closed ts d (snd r) fl
  | ZOld keys closed ts d => z_old m (now + fst r) keys closed ts d (snd r) fl
  end.

Fixpoint simts_st (app : bool) (m : N) (now : Z) (st : zst) (fl : list bool) (recs : list (Z * bytes)) : zst * list ecode * list bool :=
  match recs with
  | [] => (st, [], fl)
  | r :: rest =>
    let '(st1, e1, fl1) := zstep app m now st fl r in
    let '(st2, e2, fl2) := simts_st app m (now + fst r) st1 fl1 rest in (st2, e1 ++ e2, fl2)
  end.

(* the specification in the form asked for: the keys and contents of the closed files, rCURRENT, the reported errors (with
   their codes), the rest of the oracle *)
Definition simts (app : bool) (m : N) (t0 : Z) (fl : list bool) (recs : list (Z * bytes))
  : list key * list bytes * option bytes * list ecode * list bool :=
  let '(st, e, fl') := simts_st app m t0 (ZInit None) fl recs in (z_keys st, z_closed st, z_cur st, e, fl').

(* ------------------------------------------------------------------ n fallible calls in a row *)
(* Some k: a call failed, k calls were still to come; None: all succeeded *)
Fixpoint npops (n : nat) (fl : list bool) : option nat * list bool :=
  match n with
  | O => (None, fl)
  | S k => let '(f, fl1) := pop fl in if f then (Some k, fl1) else npops k fl1
  end.

(* the entries consumed: all false but, if a call fails, the last one *)
Lemma npops_used n : forall fl,
  match npops n fl with
  | (Some _, fl') => exists pre, fl = pre ++ true :: fl' /\ ntrue pre = 0
  | (None, fl') => exists pre, fl = pre ++ fl' /\ ntrue pre = 0
  end.
Proof.
  induction n as [|k IH]; intros fl; cbn [npops].
  - exists []. split; reflexivity.
  - destruct (pop_cases fl) as [[-> ->] | [f [r [-> ->]]]].
    + specialize (IH []). destruct (npops k []) as [[j|] fl']; exact IH.
    + destruct f; [exists []; split; reflexivity|].
      specialize (IH r). destruct (npops k r) as [[j|] fl']; destruct IH as [pre [E Hn]]; exists (false :: pre);
        (split; [cbn [app]; rewrite <- E; reflexivity | rewrite ntrue_cons; exact Hn]).
Qed.

Lemma npops_all_false n : forall fl, all_false fl -> fst (npops n fl) = None /\ all_false (snd (npops n fl)).
Proof.
  induction n as [|k IH]; intros fl Hf; cbn [npops]; [split; [reflexivity | exact Hf]|].
  destruct (pop_all_false fl Hf) as [E1 E2]. destruct (pop fl) as [f fl1]. cbn [fst snd] in *. subst f. apply IH. exact E2.
Qed.

Lemma z_active_alt m now keys closed ts d b fl :
  z_active m now keys closed ts d b fl =
  if (m <? N.of_nat (length d))%N then
    match npops 4 fl with
    | (Some 0, fl') => let '(d', e, fl'') := s_write d b fl' in (ZOld (keys ++ [(ts, count ts keys)]) closed now d', ELogFile :: e, fl'')
    | (Some _, fl') => let '(d', e, fl'') := s_write d b fl' in (ZCur keys closed ts d', ELogFile :: e, fl'')
    | (None, fl') => let '(d', e, fl'') := s_write [] b fl' in (ZCur (keys ++ [(ts, count ts keys)]) (closed ++ [d]) now d', e, fl'')
    end
  else let '(d', e, fl') := s_write d b fl in (ZCur keys closed ts d', e, fl').
Proof.
  unfold z_active. cbn [npops]. destruct (m <? N.of_nat (length d))%N; [|reflexivity].
  destruct (pop fl) as [f1 fl1]. destruct f1; [reflexivity|].
  destruct (pop fl1) as [f2 fl2]. destruct f2; [reflexivity|].
  destruct (pop fl2) as [f3 fl3]. destruct f3; [reflexivity|].
  destruct (pop fl3) as [f4 fl4]. destruct f4; reflexivity.
Qed.

Lemma z_old_alt m now keys closed ts d b fl :
  z_old m now keys closed ts d b fl =
  if (m <? N.of_nat (length d))%N then
    match npops 4 fl with
    | (Some 0, fl') => let '(d', e, fl'') := s_write d b fl' in (ZOld keys closed now d', ELogFile :: e, fl'')
    | (Some _, fl') => let '(d', e, fl'') := s_write d b fl' in (ZOld keys closed ts d', ELogFile :: e, fl'')
    | (None, fl') => let '(d', e, fl'') := s_write [] b fl' in (ZCur keys (closed ++ [d]) now d', e, fl'')
    end
  else let '(d', e, fl') := s_write d b fl in (ZOld keys closed ts d', e, fl').
Proof.
  unfold z_old. cbn [npops]. destruct (m <? N.of_nat (length d))%N; [|reflexivity].
  destruct (pop fl) as [f1 fl1]. destruct f1; [reflexivity|].
  destruct (pop fl1) as [f2 fl2]. destruct f2; [reflexivity|].
  destruct (pop fl2) as [f3 fl3]. destruct f3; [reflexivity|].
  destruct (pop fl3) as [f4 fl4]. destruct f4; reflexivity.
Qed.

(* the oracle entries of one initialisation: None = it succeeds; Some k = it fails (k: after rCURRENT was created) *)
Definition z_init_pops (app : bool) (fl : list bool) : option bool * list bool :=
  match npops (if app then 1 else 4) fl with
  | (Some _, fl') => (Some false, fl')
  | (None, fl') => if app then let '(f5, fl5) := pop fl' in if f5 then (Some true, fl5) else (None, fl5) else (None, fl')
  end.

Definition z_first (now : Z) (created : option Z) : Z := match created with Some t0 => t0 | None => now end.

Lemma z_init_alt app m now created b fl :
  z_init app m now created b fl
  = match z_init_pops app fl with
    | (Some k, fl') => (ZInit (if k then Some (z_first now created) else created), [EWrite], fl')
    | (None, fl') => z_active m now [] [] (z_first now created) [] b fl'
    end.
Proof.
  unfold z_init, z_init_pops, z_first. destruct app; cbn [npops].
  - destruct (pop fl) as [f4 fl4]. destruct f4; [reflexivity|].
    destruct (pop fl4) as [f5 fl5]. destruct f5; reflexivity.
  - destruct (pop fl) as [f1 fl1]. destruct f1; [reflexivity|].
    destruct (pop fl1) as [f2 fl2]. destruct f2; [reflexivity|].
    destruct (pop fl2) as [f3 fl3]. destruct f3; [reflexivity|].
    destruct (pop fl3) as [f4 fl4]. destruct f4; reflexivity.
Qed.

Lemma z_init_pops_used app fl :
  match z_init_pops app fl with
  | (Some _, fl') => exists pre, fl = pre ++ true :: fl' /\ ntrue pre = 0
  | (None, fl') => exists pre, fl = pre ++ fl' /\ ntrue pre = 0
  end.
Proof.
  unfold z_init_pops. pose proof (npops_used (if app then 1 else 4) fl) as U.
  destruct (npops (if app then 1 else 4) fl) as [[j|] fl']; [exact U|].
  destruct app; [|exact U]. destruct U as [pre [E Hn]].
  destruct (pop_cases fl') as [[-> ->] | [f [r [-> ->]]]]; [exists pre; split; assumption|].
  destruct f; [exists pre; split; assumption|].
  exists (pre ++ [false]). split; [rewrite E, <- app_assoc; reflexivity|].
  unfold ntrue in *. rewrite filter_app, app_length. cbn. lia.
Qed.

Lemma z_init_pops_all_false app fl : all_false fl -> fst (z_init_pops app fl) = None /\ all_false (snd (z_init_pops app fl)).
Proof.
  intros Hf. unfold z_init_pops. destruct (npops_all_false (if app then 1 else 4) fl Hf) as [E1 E2].
  destruct (npops (if app then 1 else 4) fl) as [o fl']. cbn [fst snd] in *. subst o.
  destruct app; [|split; [reflexivity | exact E2]].
  destruct (pop_all_false fl' E2) as [E3 E4]. destruct (pop fl') as [f5 fl5]. cbn [fst snd] in *. subst f5. split; [reflexivity | exact E4].
Qed.

(* ------------------------------------------------------------------ one record *)
Lemma zstream_cur keys closed ts d : zstream (ZCur keys closed ts d) = concat closed ++ d.
Proof. reflexivity. Qed.
Lemma zstream_old keys closed ts d : zstream (ZOld keys closed ts d) = concat closed ++ d.
Proof. unfold zstream. cbn [z_closed z_cur]. rewrite concat_app. cbn [concat]. rewrite !app_nil_r. reflexivity. Qed.
Lemma zstream_init created : zstream (ZInit created) = [].
Proof. destruct created; reflexivity. Qed.

(* what one step does, in terms of: the oracle entries it uses, the reports, the stream *)
Definition zstep_ok (st : zst) (fl : list bool) (b : bytes) (r : zst * list ecode * list bool) : Prop :=
  let '(st', e, fl') := r in
  exists used, fl = used ++ fl' /\ length e = ntrue used /\ nlost e <= 1
    /\ zstream st' = zstream st ++ (if lost e then [] else b).

(* the write of the record into the file that holds d, after the calls pre (reports errs0, no loss so far) *)
Lemma after_pops_ok (st : zst) (mk : bytes -> zst) (base d b : bytes) fl pre fl0 errs0 :
  fl = pre ++ fl0 -> ntrue pre = length errs0 -> lost errs0 = false -> nlost errs0 = 0 ->
  zstream st = base ++ d -> (forall d', zstream (mk d') = base ++ d') ->
  zstep_ok st fl b (let '(d', e, fl1) := s_write d b fl0 in (mk d', errs0 ++ e, fl1)).
Proof.
  intros Hfl Hn Hl Hnl Hst Hmk. pose proof (s_write_ok d b fl0) as S.
  destruct (s_write d b fl0) as [[d' e] fl1]. destruct S as [used [Hu [He [Hc Hd]]]].
  exists (pre ++ used). split; [rewrite Hfl, Hu, app_assoc; reflexivity|].
  split. { rewrite app_length. unfold ntrue in *. rewrite filter_app, app_length. lia. }
  split. { unfold nlost in *. rewrite filter_app, app_length. destruct Hc as [->| ->]; cbn; lia. }
  rewrite Hmk, Hst. unfold lost in *. rewrite existsb_app, Hl. cbn [orb]. rewrite Hd, app_assoc. reflexivity.
Qed.

Lemma ntrue_snoc_true pre : ntrue pre = 0 -> ntrue (pre ++ [true]) = length [ELogFile].
Proof. intros H. unfold ntrue in *. rewrite filter_app, app_length. cbn. lia. Qed.

Lemma z_active_ok m now keys closed ts d b fl : zstep_ok (ZCur keys closed ts d) fl b (z_active m now keys closed ts d b fl).
Proof.
  rewrite z_active_alt. destruct (m <? N.of_nat (length d))%N.
  - pose proof (npops_used 4 fl) as U. destruct (npops 4 fl) as [[j|] fl'].
    + destruct U as [pre [E Hn]].
      assert (E' : fl = (pre ++ [true]) ++ fl') by (rewrite E, <- app_assoc; reflexivity).
      destruct j as [|j].
      * exact (after_pops_ok (ZCur keys closed ts d) (fun d' => ZOld (keys ++ [(ts, count ts keys)]) closed now d') (concat closed) d b
                 fl (pre ++ [true]) fl' [ELogFile] E' (ntrue_snoc_true pre Hn) eq_refl eq_refl eq_refl
                 (fun d' => zstream_old _ closed now d')).
      * exact (after_pops_ok (ZCur keys closed ts d) (fun d' => ZCur keys closed ts d') (concat closed) d b
                 fl (pre ++ [true]) fl' [ELogFile] E' (ntrue_snoc_true pre Hn) eq_refl eq_refl eq_refl (fun d' => eq_refl)).
    + destruct U as [pre [E Hn]].
      apply (after_pops_ok (ZCur keys closed ts d) (fun d' => ZCur (keys ++ [(ts, count ts keys)]) (closed ++ [d]) now d')
               (concat closed ++ d) [] b fl pre fl' [] E Hn eq_refl eq_refl).
      * rewrite app_nil_r. reflexivity.
      * intros d'. rewrite zstream_cur, concat_app. cbn [concat]. rewrite app_nil_r. reflexivity.
  - exact (after_pops_ok (ZCur keys closed ts d) (fun d' => ZCur keys closed ts d') (concat closed) d b
             fl [] fl [] eq_refl eq_refl eq_refl eq_refl eq_refl (fun d' => eq_refl)).
Qed.

Lemma z_old_ok m now keys closed ts d b fl : zstep_ok (ZOld keys closed ts d) fl b (z_old m now keys closed ts d b fl).
Proof.
  rewrite z_old_alt. destruct (m <? N.of_nat (length d))%N.
  - pose proof (npops_used 4 fl) as U. destruct (npops 4 fl) as [[j|] fl'].
    + destruct U as [pre [E Hn]].
      assert (E' : fl = (pre ++ [true]) ++ fl') by (rewrite E, <- app_assoc; reflexivity).
      destruct j as [|j].
      * exact (after_pops_ok (ZOld keys closed ts d) (fun d' => ZOld keys closed now d') (concat closed) d b
                 fl (pre ++ [true]) fl' [ELogFile] E' (ntrue_snoc_true pre Hn) eq_refl eq_refl (zstream_old _ _ _ _)
                 (fun d' => zstream_old _ closed now d')).
      * exact (after_pops_ok (ZOld keys closed ts d) (fun d' => ZOld keys closed ts d') (concat closed) d b
                 fl (pre ++ [true]) fl' [ELogFile] E' (ntrue_snoc_true pre Hn) eq_refl eq_refl (zstream_old _ _ _ _)
                 (fun d' => zstream_old _ closed ts d')).
    + destruct U as [pre [E Hn]].
      apply (after_pops_ok (ZOld keys closed ts d) (fun d' => ZCur keys (closed ++ [d]) now d')
               (concat closed ++ d) [] b fl pre fl' [] E Hn eq_refl eq_refl).
      * rewrite app_nil_r. apply zstream_old.
      * intros d'. rewrite zstream_cur, concat_app. cbn [concat]. rewrite app_nil_r. reflexivity.
  - exact (after_pops_ok (ZOld keys closed ts d) (fun d' => ZOld keys closed ts d') (concat closed) d b
             fl [] fl [] eq_refl eq_refl eq_refl eq_refl (zstream_old _ _ _ _) (fun d' => zstream_old _ closed ts d')).
Qed.

Lemma zstep_ok_prefix st st0 fl pre fl0 b r : fl = pre ++ fl0 -> ntrue pre = 0 -> zstream st0 = zstream st ->
  zstep_ok st0 fl0 b r -> zstep_ok st fl b r.
Proof.
  intros Hfl Hn Hs. destruct r as [[st' e] fl']. unfold zstep_ok. intros [used [Hu [He [Hl Hst]]]].
  exists (pre ++ used). split; [rewrite Hfl, Hu, app_assoc; reflexivity|].
  split. { unfold ntrue in *. rewrite filter_app, app_length. lia. }
  split; [exact Hl|]. rewrite Hst, Hs. reflexivity.
Qed.

Lemma z_init_ok app m now created b fl : zstep_ok (ZInit created) fl b (z_init app m now created b fl).
Proof.
  rewrite z_init_alt. pose proof (z_init_pops_used app fl) as U.
  destruct (z_init_pops app fl) as [[k|] fl'].
  - destruct U as [pre [Hfl Hn]]. exists (pre ++ [true]). split; [rewrite Hfl, <- app_assoc; reflexivity|].
    split. { unfold ntrue in *. rewrite filter_app, app_length. cbn. lia. }
    split; [cbn; lia|]. rewrite !zstream_init. reflexivity.
  - destruct U as [pre [Hfl Hn]].
    apply (zstep_ok_prefix (ZInit created) (ZCur [] [] (z_first now created) []) fl pre fl' b _ Hfl Hn).
    + rewrite zstream_init. reflexivity.
    + apply z_active_ok.
Qed.

Theorem zstep_ok_all app m now st fl r : zstep_ok st fl (snd r) (zstep app m now st fl r).
Proof. destruct st as [created|keys closed ts d|keys closed ts d]; cbn [zstep]; [apply z_init_ok | apply z_active_ok | apply z_old_ok]. Qed.

(* ------------------------------------------------------------------ whole lists of records *)
(* per record: the record, the reports of its log call, the oracle entries its log call consumed *)
Fixpoint tracez (app : bool) (m : N) (now : Z) (st : zst) (fl : list bool) (recs : list (Z * bytes)) : list entry :=
  match recs with
  | [] => []
  | r :: rest =>
    let '(st1, e1, fl1) := zstep app m now st fl r in
    {| t_rec := snd r; t_errs := e1; t_used := firstn (length fl - length fl1) fl |} :: tracez app m (now + fst r) st1 fl1 rest
  end.

Theorem simts_trace app m : forall recs now st fl,
  let '(st', e, fl') := simts_st app m now st fl recs in
  let t := tracez app m now st fl recs in
  List.map t_rec t = List.map snd recs
  /\ fl = concat (List.map t_used t) ++ fl'
  /\ e = concat (List.map t_errs t)
  /\ zstream st' = zstream st ++ concat (List.map t_kept t)
  /\ Forall (fun x => length (t_errs x) = ntrue (t_used x) /\ nlost (t_errs x) <= 1) t.
Proof.
  induction recs as [|r rest IH]; intros now st fl; cbn [simts_st tracez].
  - cbn. rewrite app_nil_r. repeat split. constructor.
  - pose proof (zstep_ok_all app m now st fl r) as S. destruct (zstep app m now st fl r) as [[st1 e1] fl1].
    specialize (IH (now + fst r)%Z st1 fl1). destruct (simts_st app m (now + fst r) st1 fl1 rest) as [[st2 e2] fl2].
    destruct S as [used [Hu [He [Hl Hs]]]]. destruct IH as [H1 [H2 [H3 [H4 H5]]]].
    cbn [List.map concat t_rec t_used t_errs]. subst fl. rewrite firstn_used.
    split; [rewrite H1; reflexivity|].
    split; [rewrite <- app_assoc, <- H2; reflexivity|].
    split; [rewrite H3; reflexivity|].
    split. { rewrite H4, Hs, <- app_assoc. reflexivity. }
    constructor; [cbn [t_errs t_used]; split; assumption | exact H5].
Qed.

Lemma simts_st_app app m : forall recs1 recs2 now st fl,
  simts_st app m now st fl (recs1 ++ recs2)
  = let '(st1, e1, fl1) := simts_st app m now st fl recs1 in
    let '(st2, e2, fl2) := simts_st app m (now + telapsed recs1) st1 fl1 recs2 in (st2, e1 ++ e2, fl2).
Proof.
  induction recs1 as [|r rest IH]; intros recs2 now st fl; cbn [Datatypes.app simts_st telapsed].
  - rewrite Z.add_0_r. destruct (simts_st app m now st fl recs2) as [[st2 e2] fl2]. reflexivity.
  - destruct (zstep app m now st fl r) as [[st1 e1] fl1]. rewrite IH.
    destruct (simts_st app m (now + fst r) st1 fl1 rest) as [[st2 e2] fl2].
    rewrite Z.add_assoc.
    destruct (simts_st app m (now + fst r + telapsed rest) st2 fl2 recs2) as [[st3 e3] fl3]. rewrite app_assoc. reflexivity.
Qed.

(* (2) Only records during whose own log call a failing call was consumed can be missing; the stream (the closed files in
   the order of their keys, then rCURRENT) consists of the other records, in order, each once. *)
Theorem ts_lost_only_around_failures_spec app m t0 fl recs :
  let '(st', e, fl') := simts_st app m t0 (ZInit None) fl recs in
  let t := tracez app m t0 (ZInit None) fl recs in
  List.map t_rec t = List.map snd recs
  /\ fl = concat (List.map t_used t) ++ fl'
  /\ e = concat (List.map t_errs t)
  /\ zstream st' = concat (List.map t_kept t)
  /\ (forall x, In x t -> length (t_errs x) = ntrue (t_used x))
  /\ (forall x, In x t -> (forall f, In f (t_used x) -> f = false) -> t_errs x = [] /\ t_kept x = t_rec x)
  /\ (forall x, In x t -> t_kept x <> t_rec x -> In true (t_used x) /\ In EWrite (t_errs x)).
Proof.
  pose proof (simts_trace app m recs t0 (ZInit None) fl) as T.
  destruct (simts_st app m t0 (ZInit None) fl recs) as [[st' e] fl']. cbv zeta in T |- *.
  destruct T as [H1 [H2 [H3 [H4 H5]]]]. rewrite Forall_forall in H5.
  split; [exact H1|]. split; [exact H2|]. split; [exact H3|]. split; [exact H4|].
  split; [intros x Hx; apply (H5 x Hx)|].
  split.
  - intros x Hx Hall. destruct (H5 x Hx) as [Hn _]. apply ntrue_0_all_false in Hall. rewrite Hall in Hn.
    destruct (t_errs x) eqn:E; [|discriminate]. unfold t_kept. rewrite E. split; reflexivity.
  - intros x Hx Hk. destruct (H5 x Hx) as [Hn _]. unfold t_kept in Hk.
    destruct (lost (t_errs x)) eqn:El; [|congruence]. split.
    + destruct (in_dec Bool.bool_dec true (t_used x)) as [Hi|Hi]; [exact Hi|]. exfalso.
      assert (Hall : forall f, In f (t_used x) -> f = false) by (intros [|] Hf; [contradiction | reflexivity]).
      apply ntrue_0_all_false in Hall. rewrite Hall in Hn. destruct (t_errs x); [discriminate El | discriminate Hn].
    + unfold lost in El. apply existsb_exists in El. destruct El as [c [Hc Ec]]. destruct c; try discriminate. exact Hc.
Qed.

(* the codes that occur *)
Lemma s_write_codes d b fl c : In c (snd (fst (s_write d b fl))) -> c = EWrite \/ c = ELogFile.
Proof. unfold s_write. destruct (wr_pop b fl) as [f fl1]. destruct f; cbn [fst snd]; [intros [<-|[]]; auto | intros []]. Qed.

Lemma zstep_codes app m now st fl r c : In c (snd (fst (zstep app m now st fl r))) -> c = EWrite \/ c = ELogFile.
Proof.
  assert (P : forall (mk : bytes -> zst) d b fl0, In c (snd (fst (let '(d', e, fl') := s_write d b fl0 in (mk d', e, fl')))) -> c = EWrite \/ c = ELogFile).
  { intros mk d b fl0. pose proof (s_write_codes d b fl0 c) as X. destruct (s_write d b fl0) as [[d' e] fl1]. exact X. }
  assert (L : forall (mk : bytes -> zst) d b fl0, In c (snd (fst (let '(d', e, fl') := s_write d b fl0 in (mk d', ELogFile :: e, fl')))) -> c = EWrite \/ c = ELogFile).
  { intros mk d b fl0. pose proof (s_write_codes d b fl0 c) as X. destruct (s_write d b fl0) as [[d' e] fl1]. cbn [fst snd] in *. intros [<-|H]; auto. }
  assert (A : forall nw keys closed ts d b fl0, In c (snd (fst (z_active m nw keys closed ts d b fl0))) -> c = EWrite \/ c = ELogFile).
  { intros nw keys closed ts d b fl0. rewrite z_active_alt. destruct (m <? N.of_nat (length d))%N; [|apply (P (fun d' => ZCur keys closed ts d'))].
    destruct (npops 4 fl0) as [[[|j]|] fl'].
    - apply (L (fun d' => ZOld (keys ++ [(ts, count ts keys)]) closed nw d')).
    - apply (L (fun d' => ZCur keys closed ts d')).
    - apply (P (fun d' => ZCur (keys ++ [(ts, count ts keys)]) (closed ++ [d]) nw d')). }
  destruct st as [created|keys closed ts d|keys closed ts d]; cbn [zstep].
  - rewrite z_init_alt. destruct (z_init_pops app fl) as [[k|] fl']; [cbn; intros [<-|[]]; auto | apply A].
  - apply A.
  - rewrite z_old_alt. destruct (m <? N.of_nat (length d))%N; [|apply (P (fun d' => ZOld keys closed ts d'))].
    destruct (npops 4 fl) as [[[|j]|] fl'].
    + apply (L (fun d' => ZOld keys closed (now + fst r) d')).
    + apply (L (fun d' => ZOld keys closed ts d')).
    + apply (P (fun d' => ZCur keys (closed ++ [d]) (now + fst r) d')).
Qed.

(* (3) the stream is the concatenation of a subsequence of the records (no duplication, no reordering); each missing
   record is one reported EWrite: #missing = #EWrite <= #reported errors (the other reports are ELogFile: a failed
   step of a rotation, the record of that call was kept) *)
Theorem ts_loss_is_reported_spec app m : forall recs now st fl,
  let '(st', e, _) := simts_st app m now st fl recs in
  exists kept, Subseq kept (List.map snd recs) /\ zstream st' = zstream st ++ concat kept
    /\ length recs = length kept + nlost e /\ nlost e <= length e
    /\ (forall c, In c e -> c = EWrite \/ c = ELogFile).
Proof.
  induction recs as [|r rest IH]; intros now st fl; cbn [simts_st List.map].
  - exists []. cbn. rewrite app_nil_r. repeat split; [constructor | lia | intros c []].
  - pose proof (zstep_ok_all app m now st fl r) as S.
    pose proof (fun c => zstep_codes app m now st fl r c) as Codes.
    destruct (zstep app m now st fl r) as [[st1 e1] fl1]. cbn [fst snd] in Codes.
    specialize (IH (now + fst r)%Z st1 fl1). destruct (simts_st app m (now + fst r) st1 fl1 rest) as [[st2 e2] fl2].
    destruct S as [used [Hu [He [Hl Hs]]]]. destruct IH as [kept [Hsub [Hst [Hlen [Hle Hco]]]]].
    pose proof (nlost_le (e1 ++ e2)) as Hle2. rewrite nlost_app in Hle2.
    assert (Hco2 : forall c, In c (e1 ++ e2) -> c = EWrite \/ c = ELogFile).
    { intros c Hc. apply in_app_or in Hc. destruct Hc as [Hc|Hc]; [apply Codes | apply Hco]; exact Hc. }
    destruct (lost e1) eqn:El.
    + exists kept. split; [constructor; exact Hsub|]. rewrite Hst, Hs, app_nil_r. split; [reflexivity|].
      apply lost_nlost in El. rewrite nlost_app. cbn [length]. split; [lia|]. split; [lia | exact Hco2].
    + exists (snd r :: kept). split; [constructor; exact Hsub|]. rewrite Hst, Hs, <- app_assoc. split; [reflexivity|].
      assert (nlost e1 = 0). { destruct (nlost e1) eqn:E; [reflexivity|]. assert (lost e1 = true) by (apply lost_nlost; lia). congruence. }
      rewrite nlost_app. cbn [length]. split; [lia|]. split; [lia | exact Hco2].
Qed.

(* ------------------------------------------------------------------ the keys, for every oracle *)
(* the files that are closed for good (in the state ZOld the file of the last key still grows) *)
Definition z_done (st : zst) : list bytes :=
  match st with ZInit _ => [] | ZCur _ closed _ _ => closed | ZOld _ closed _ _ => closed end.

(* the state is well-formed at the second `now`: the keys are those of keys_ok (seconds non-decreasing, within one second
   the positions 0, 1, 2, ...: all keys - all names - different), all in [lo, ts]; ts in [lo, now] *)
Definition z_ok (lo now : Z) (st : zst) : Prop :=
  match st with
  | ZInit None => True
  | ZInit (Some t) => (lo <= t <= now)%Z
  | ZCur keys closed ts _ =>
    length keys = length closed /\ keys_ok keys /\ (forall k, In k keys -> (lo <= fst k <= ts)%Z) /\ (lo <= ts <= now)%Z
  | ZOld keys closed ts _ =>
    length keys = S (length closed) /\ keys_ok keys /\ (forall k, In k keys -> (lo <= fst k <= ts)%Z) /\ (lo <= ts <= now)%Z
  end.

(* what one step does to the files: keys and closed files are only extended (a closed file keeps key and content) *)
Definition zextends (st st' : zst) : Prop :=
  (exists xk, z_keys st' = z_keys st ++ xk) /\ (exists xc, z_done st' = z_done st ++ xc).

Lemma zextends_eq st st' : z_keys st' = z_keys st -> z_done st' = z_done st -> zextends st st'.
Proof. intros E1 E2. split; exists []; rewrite app_nil_r; assumption. Qed.
Lemma zextends_refl st : zextends st st.
Proof. apply zextends_eq; reflexivity. Qed.

Lemma z_ok_keys lo now st : z_ok lo now st -> keys_ok (z_keys st) /\ (forall k, In k (z_keys st) -> (lo <= fst k <= now)%Z).
Proof.
  destruct st as [[t|]|keys closed ts d|keys closed ts d]; cbn [z_ok z_keys].
  - intros _. split; [constructor | intros k []].
  - intros _. split; [constructor | intros k []].
  - intros [_ [K [R T]]]. split; [exact K|]. intros k Ik. specialize (R k Ik). lia.
  - intros [_ [K [R T]]]. split; [exact K|]. intros k Ik. specialize (R k Ik). lia.
Qed.

Lemma z_active_keys m lo now now' keys closed ts d b fl : (lo <= now <= now')%Z ->
  let st' := fst (fst (z_active m now' keys closed ts d b fl)) in
  (z_ok lo now (ZCur keys closed ts d) -> z_ok lo now' st') /\ zextends (ZCur keys closed ts d) st'.
Proof.
  intros Hn. rewrite z_active_alt.
  assert (Same : forall d', (z_ok lo now (ZCur keys closed ts d) -> z_ok lo now' (ZCur keys closed ts d'))
                            /\ zextends (ZCur keys closed ts d) (ZCur keys closed ts d')).
  { intros d'. split; [|apply zextends_eq; reflexivity]. intros [L [K [R T]]]. split; [exact L|]. split; [exact K|]. split; [exact R | lia]. }
  destruct (m <? N.of_nat (length d))%N.
  - destruct (npops 4 fl) as [[[|j]|] fl'].
    + destruct (s_write d b fl') as [[d' e] fl'']. cbn [fst]. split.
      * intros [L [K [R T]]]. split; [rewrite app_length, L; cbn [length]; lia|].
        split; [apply ko_snoc; [exact K | intros k Ik; specialize (R k Ik); lia]|].
        split; [|lia]. intros k Ik. apply in_app_or in Ik. destruct Ik as [Ik|[<-|[]]]; [specialize (R k Ik); lia | cbn [fst]; lia].
      * split; [eexists; reflexivity | exists []; cbn [z_done]; rewrite app_nil_r; reflexivity].
    + destruct (s_write d b fl') as [[d' e] fl'']. apply Same.
    + destruct (s_write [] b fl') as [[d' e] fl'']. cbn [fst]. split.
      * intros [L [K [R T]]]. split; [rewrite !app_length, L; reflexivity|].
        split; [apply ko_snoc; [exact K | intros k Ik; specialize (R k Ik); lia]|].
        split; [|lia]. intros k Ik. apply in_app_or in Ik. destruct Ik as [Ik|[<-|[]]]; [specialize (R k Ik); lia | cbn [fst]; lia].
      * split; eexists; reflexivity.
  - destruct (s_write d b fl) as [[d' e] fl'']. apply Same.
Qed.

Lemma z_old_keys m lo now now' keys closed ts d b fl : (lo <= now <= now')%Z ->
  let st' := fst (fst (z_old m now' keys closed ts d b fl)) in
  (z_ok lo now (ZOld keys closed ts d) -> z_ok lo now' st') /\ zextends (ZOld keys closed ts d) st'.
Proof.
  intros Hn. rewrite z_old_alt.
  assert (Same : forall t d', (ts <= t <= now')%Z -> (z_ok lo now (ZOld keys closed ts d) -> z_ok lo now' (ZOld keys closed t d'))
                            /\ zextends (ZOld keys closed ts d) (ZOld keys closed t d')).
  { intros t d' Ht. split; [|apply zextends_eq; reflexivity]. intros [L [K [R T]]]. split; [exact L|]. split; [exact K|].
    split; [intros k Ik; specialize (R k Ik); lia | lia]. }
  assert (Hts : z_ok lo now (ZOld keys closed ts d) -> (ts <= now')%Z) by (intros [_ [_ [_ T]]]; lia).
  destruct (m <? N.of_nat (length d))%N.
  - destruct (npops 4 fl) as [[[|j]|] fl'].
    + destruct (s_write d b fl') as [[d' e] fl'']. cbn [fst]. split; [|apply zextends_eq; reflexivity].
      intros Z0. pose proof (Hts Z0). apply (Same now' d'); [lia | exact Z0].
    + destruct (s_write d b fl') as [[d' e] fl'']. cbn [fst]. split; [|apply zextends_eq; reflexivity].
      intros Z0. pose proof (Hts Z0). apply (Same ts d'); [lia | exact Z0].
    + destruct (s_write [] b fl') as [[d' e] fl'']. cbn [fst]. split.
      * intros [L [K [R T]]]. split; [rewrite app_length, L; cbn [length]; lia|]. split; [exact K|].
        split; [intros k Ik; specialize (R k Ik); lia | lia].
      * split; [exists []; cbn [z_keys]; rewrite app_nil_r; reflexivity | eexists; reflexivity].
  - destruct (s_write d b fl) as [[d' e] fl'']. cbn [fst]. split; [|apply zextends_eq; reflexivity].
    intros Z0. pose proof (Hts Z0). apply (Same ts d'); [lia | exact Z0].
Qed.

Lemma zstep_keys app m lo now st fl r : (lo <= now)%Z -> (0 <= fst r)%Z ->
  let st' := fst (fst (zstep app m now st fl r)) in
  (z_ok lo now st -> z_ok lo (now + fst r) st') /\ zextends st st'.
Proof.
  intros Hlo Hdt. assert (Hn : (lo <= now <= now + fst r)%Z) by lia.
  destruct st as [created|keys closed ts d|keys closed ts d]; cbn [zstep];
    [|apply (z_active_keys m lo now); exact Hn | apply (z_old_keys m lo now); exact Hn].
  rewrite z_init_alt. destruct (z_init_pops app fl) as [[k|] fl'].
  - cbn [fst]. split; [|apply zextends_eq; reflexivity]. destruct k.
    + unfold z_first. destruct created as [t0|]; cbn [z_ok]; lia.
    + destruct created as [t0|]; cbn [z_ok]; [lia | auto].
  - (* the first record of a fresh writer never rotates *)
    rewrite z_active_alt. change (N.of_nat (length (@nil N))) with 0%N.
    assert (E : (m <? 0)%N = false) by (apply N.ltb_ge; apply N.le_0_l). rewrite E.
    destruct (s_write [] (snd r) fl') as [[d' e] fl1]. cbn [fst]. split; [|apply zextends_eq; reflexivity].
    intros Z0. cbn [z_ok]. split; [reflexivity|]. split; [constructor|]. split; [intros k []|].
    unfold z_first. destruct created as [t0|]; cbn [z_ok] in Z0; lia.
Qed.

(* for EVERY oracle: the keys of the closed files are those of keys_ok - all different, so no name is used twice and no
   file is overwritten; each key carries the second at which its file was started -, and keys and closed files are only
   extended *)
Theorem simts_keys app m lo : forall recs now st fl, (lo <= now)%Z -> ticks_ok recs ->
  let st' := fst (fst (simts_st app m now st fl recs)) in
  (z_ok lo now st -> z_ok lo (now + telapsed recs) st') /\ zextends st st'.
Proof.
  induction recs as [|r rest IH]; intros now st fl Hlo Ht; cbn [simts_st telapsed].
  - cbn [fst]. rewrite Z.add_0_r. split; [auto | apply zextends_refl].
  - inversion Ht as [|r' rest' Hr Hrest]; subst.
    pose proof (zstep_keys app m lo now st fl r Hlo Hr) as S. destruct (zstep app m now st fl r) as [[st1 e1] fl1]. cbn [fst] in S.
    assert (Hlo1 : (lo <= now + fst r)%Z) by lia.
    specialize (IH (now + fst r)%Z st1 fl1 Hlo1 Hrest). destruct (simts_st app m (now + fst r) st1 fl1 rest) as [[st2 e2] fl2]. cbn [fst] in *.
    destruct S as [S1 [[k1 S2] [c1 S3]]]. destruct IH as [I1 [[k2 I2] [c2 I3]]].
    split; [rewrite Z.add_assoc; auto|].
    split; [exists (k1 ++ k2); rewrite I2, S2, app_assoc; reflexivity | exists (c1 ++ c2); rewrite I3, S3, app_assoc; reflexivity].
Qed.

Lemma z_ok_init lo now : z_ok lo now (ZInit None).
Proof. exact I. Qed.

(* ------------------------------------------------------------------ (4) recovery *)
(* the view of the fault-free development (NumRun.aview): closed contents and the content of the writer's file *)
Definition zaview (st : zst) : aview :=
  match st with ZInit _ => None | ZCur _ closed _ d => Some (closed, d) | ZOld _ closed _ d => Some (closed, d) end.
(* in the state ZOld a rotation is pending *)
Definition zpending_ok (m : N) (st : zst) : Prop :=
  match st with ZOld _ _ _ d => (m <? N.of_nat (length d))%N = true | _ => True end.

Lemma zstep_pending app m now st fl r : zpending_ok m st -> zpending_ok m (fst (fst (zstep app m now st fl r))).
Proof.
  assert (A : forall nw keys closed ts d fl0, zpending_ok m (fst (fst (z_active m nw keys closed ts d (snd r) fl0)))).
  { intros nw keys closed ts d fl0. rewrite z_active_alt. destruct (m <? N.of_nat (length d))%N eqn:Em.
    - destruct (npops 4 fl0) as [[[|j]|] fl'].
      + pose proof (s_write_pending d (snd r) fl') as L. destruct (s_write d (snd r) fl') as [[d' e] fl'']. cbn [fst zpending_ok]. lia.
      + destruct (s_write d (snd r) fl') as [[d' e] fl'']. exact I.
      + destruct (s_write [] (snd r) fl') as [[d' e] fl'']. exact I.
    - destruct (s_write d (snd r) fl0) as [[d' e] fl'']. exact I. }
  intros P. destruct st as [created|keys closed ts d|keys closed ts d]; cbn [zstep].
  - rewrite z_init_alt. destruct (z_init_pops app fl) as [[k|] fl']; [exact I | apply A].
  - apply A.
  - cbn [zpending_ok] in P. rewrite z_old_alt, P.
    destruct (npops 4 fl) as [[[|j]|] fl'].
    + pose proof (s_write_pending d (snd r) fl') as L. destruct (s_write d (snd r) fl') as [[d' e] fl'']. cbn [fst zpending_ok]. lia.
    + pose proof (s_write_pending d (snd r) fl') as L. destruct (s_write d (snd r) fl') as [[d' e] fl'']. cbn [fst zpending_ok]. lia.
    + destruct (s_write [] (snd r) fl') as [[d' e] fl'']. exact I.
Qed.

Lemma simts_st_pending app m : forall recs now st fl, zpending_ok m st -> zpending_ok m (fst (fst (simts_st app m now st fl recs))).
Proof.
  induction recs as [|r rest IH]; intros now st fl P; cbn [simts_st]; [exact P|].
  pose proof (zstep_pending app m now st fl r P) as P1. destruct (zstep app m now st fl r) as [[st1 e1] fl1]. cbn [fst] in P1.
  specialize (IH (now + fst r)%Z st1 fl1 P1). destruct (simts_st app m (now + fst r) st1 fl1 rest) as [[st2 e2] fl2]. exact IH.
Qed.

(* one record when no more failures come: nothing is reported, the record is appended, a rotation that is due is carried
   out (also one that failed before, or was left half done), the writer is on rCURRENT, the state is that of the
   fault-free size rule *)
Lemma zstep_recovered app m now st fl r : all_false fl -> zpending_ok m st ->
  let '(st', e, fl') := zstep app m now st fl r in
  e = [] /\ all_false fl' /\ (exists keys closed ts d, st' = ZCur keys closed ts d)
  /\ zaview st' = a_step (zaview st) (OWrite (snd r)) (m <? N.of_nat (length (cur_of (zaview st))))%N.
Proof.
  intros Hf P. set (b := snd r).
  assert (W : forall d fl0, all_false fl0 -> let '(d', e, fl1) := s_write d b fl0 in d' = d ++ b /\ e = [] /\ all_false fl1).
  { intros d fl0 H0. unfold s_write, wr_pop. destruct b as [|x b']; [rewrite app_nil_r; auto|].
    destruct (pop_all_false fl0 H0) as [E1 E2]. destruct (pop fl0) as [f fl1]. cbn [fst snd] in *. subst f. auto. }
  assert (A : forall nw keys closed ts d fl0, all_false fl0 ->
     let '(st', e, fl') := z_active m nw keys closed ts d b fl0 in
     e = [] /\ all_false fl' /\ (exists keys' closed' ts' d', st' = ZCur keys' closed' ts' d')
     /\ zaview st' = a_step (Some (closed, d)) (OWrite b) (m <? N.of_nat (length d))%N).
  { intros nw keys closed ts d fl0 H0. rewrite z_active_alt. cbn [a_step].
    destruct (m <? N.of_nat (length d))%N eqn:Em.
    - destruct (npops_all_false 4 fl0 H0) as [E1 E2]. destruct (npops 4 fl0) as [o fl']. cbn [fst snd] in *. subst o.
      pose proof (W [] fl' E2) as S. destruct (s_write [] b fl') as [[d' e] fl'']. destruct S as [-> [-> S3]].
      split; [reflexivity|]. split; [exact S3|]. split; [do 4 eexists; reflexivity | reflexivity].
    - pose proof (W d fl0 H0) as S. destruct (s_write d b fl0) as [[d' e] fl1]. destruct S as [-> [-> S3]].
      split; [reflexivity|]. split; [exact S3|]. split; [do 4 eexists; reflexivity | reflexivity]. }
  destruct st as [created|keys closed ts d|keys closed ts d]; cbn [zstep zaview cur_of]; fold b.
  - rewrite z_init_alt. destruct (z_init_pops_all_false app fl Hf) as [E1 E2].
    destruct (z_init_pops app fl) as [o fl']. cbn [fst snd] in *. subst o.
    pose proof (A (now + fst r)%Z [] [] (z_first (now + fst r) created) [] fl' E2) as S.
    destruct (z_active m (now + fst r) [] [] (z_first (now + fst r) created) [] b fl') as [[st' e] fl'']. exact S.
  - apply (A (now + fst r)%Z keys closed ts d fl Hf).
  - cbn [zpending_ok] in P. rewrite z_old_alt, P. cbn [a_step].
    destruct (npops_all_false 4 fl Hf) as [E1 E2]. destruct (npops 4 fl) as [o fl']. cbn [fst snd] in *. subst o.
    pose proof (W [] fl' E2) as S. destruct (s_write [] b fl') as [[d' e] fl'']. destruct S as [-> [-> S3]].
    split; [reflexivity|]. split; [exact S3|]. split; [do 4 eexists; reflexivity | reflexivity].
Qed.

(* (4) Once no more failures come (the rest of the oracle is empty or all `false`), nothing more is reported, every
   further record is in the stream, and rotation works again: the contents develop exactly by the fault-free size rule
   NumRun.s_run (rotate before a record iff the file holds more than m bytes) - a rotation whose steps failed, or that was
   left half done (state ZOld), is carried out / completed with the next record; after it rCURRENT exists again *)
Theorem ts_recovery_spec app m : forall recs now st fl, all_false fl -> zpending_ok m st ->
  let '(st', e, fl') := simts_st app m now st fl recs in
  e = [] /\ all_false fl' /\ zstream st' = zstream st ++ concat (List.map snd recs)
  /\ zaview st' = s_run m (zaview st) (tops recs)
  /\ (recs <> [] -> exists keys closed ts d, st' = ZCur keys closed ts d).
Proof.
  induction recs as [|r rest IH]; intros now st fl Hf P; cbn [simts_st List.map].
  - cbn [s_run concat tops flat_map]. rewrite app_nil_r. repeat split; try assumption. intros H; contradiction.
  - rewrite s_run_tops_cons.
    pose proof (zstep_recovered app m now st fl r Hf P) as S. pose proof (zstep_ok_all app m now st fl r) as K.
    destruct (zstep app m now st fl r) as [[st1 e1] fl1]. destruct S as [-> [Hf1 [[ks1 [cl1 [ts1 [d1 Est]]]] Hv]]].
    destruct K as [used [_ [_ [_ Hs]]]]. cbn [lost existsb] in Hs.
    assert (P1 : zpending_ok m st1) by (rewrite Est; exact I).
    specialize (IH (now + fst r)%Z st1 fl1 Hf1 P1). destruct (simts_st app m (now + fst r) st1 fl1 rest) as [[st2 e2] fl2] eqn:Er.
    destruct IH as [-> [Hf2 [Hs2 [Hv2 Hc2]]]].
    split; [reflexivity|]. split; [exact Hf2|].
    split; [rewrite Hs2, Hs; cbn [concat]; rewrite <- app_assoc; reflexivity|].
    split; [rewrite Hv2, Hv; reflexivity|].
    intros _. destruct rest as [|r2 rest2]; [|apply Hc2; discriminate].
    cbn [simts_st] in Er. injection Er as <- _. eauto.
Qed.

Theorem ts_recovery_st app m t0 fl recs1 recs2 : ticks_ok (recs1 ++ recs2) ->
  let '(st1, e1, fl1) := simts_st app m t0 (ZInit None) fl recs1 in
  all_false fl1 ->
  let '(st2, e2, fl2) := simts_st app m t0 (ZInit None) fl (recs1 ++ recs2) in
  e2 = e1 /\ zstream st2 = zstream st1 ++ concat (List.map snd recs2)
  /\ zaview st2 = s_run m (zaview st1) (tops recs2)
  /\ zextends st1 st2
  /\ z_ok t0 (t0 + telapsed (recs1 ++ recs2)) st2
  /\ (recs2 <> [] -> exists keys closed ts d, st2 = ZCur keys closed ts d).
Proof.
  intros Ht. rewrite simts_st_app. apply Forall_app in Ht. destruct Ht as [Ht1 Ht2].
  pose proof (simts_keys app m t0 recs1 t0 (ZInit None) fl (Z.le_refl _) Ht1) as F1.
  pose proof (simts_st_pending app m recs1 t0 (ZInit None) fl I) as P.
  destruct (simts_st app m t0 (ZInit None) fl recs1) as [[st1 e1] fl1]. cbn [fst] in F1, P. intros Hf.
  pose proof (ts_recovery_spec app m recs2 (t0 + telapsed recs1)%Z st1 fl1 Hf P) as R.
  pose proof (telapsed_nonneg recs1 Ht1) as Hn1.
  pose proof (simts_keys app m t0 recs2 (t0 + telapsed recs1)%Z st1 fl1 ltac:(lia) Ht2) as F2.
  destruct (simts_st app m (t0 + telapsed recs1) st1 fl1 recs2) as [[st2 e2] fl2]. cbn [fst] in F2.
  destruct R as [-> [_ [Hs [Hv Hc]]]].
  rewrite app_nil_r. destruct F1 as [S1 _]. destruct F2 as [S2 X2].
  split; [reflexivity|]. split; [exact Hs|]. split; [exact Hv|]. split; [exact X2|].
  split; [rewrite telapsed_app, Z.add_assoc; apply S2, S1, z_ok_init | exact Hc].
Qed.

Print Assumptions ts_lost_only_around_failures_spec.
Print Assumptions ts_loss_is_reported_spec.
Print Assumptions simts_keys.
Print Assumptions ts_recovery_st.
