(* "The listing returns exactly the existing family files the selector asks for".  At every point of every history
   OStart c :: ops  of basic operations the operation  existing_log_files(selector)  (OQuery sel) returns normally, leaves
   the state as it is, and its result satisfies the oracle Oracles/O_Names.oracle_listing on the snapshot of the directory:
   sorted, it is exactly expected_listing.
   - Numbers naming with any cleanup strategy (rotated files r<number>, their archives r<number>...gz, rCURRENT):
     numbers_listing_exact; without cleanup under the hypotheses of numbers_stream alone: numbers_listing_exact_nocleanup;
   - NumbersDirect: numbersdirect_listing_exact;  - Timestamps: timestamps_listing_exact.
   Condition on the selector (custom_ok, custom_ok_d, custom_ok_ts): a custom "current" infix is not the infix of a rotated
   file - such an infix lists that file, as asked, and the oracle does not count it as current (example
   custom_number_infix_listed).  rCURRENT asked for twice (r_current and the custom infix "rCURRENT") is listed once:
   example custom_twice_listed_once. *)
Require Import FL.Base.Bytes FL.Base.BytesFacts FL.Base.PathName FL.Fs.Fs FL.Fs.FsFacts FL.Time.Civil FL.Time.TsFormat
  FL.Names.FileSpec FL.Names.NamesFacts FL.Names.SortFacts FL.Names.FamilyFacts FL.Flw.Model FL.Flw.ModelFacts FL.Flw.NumFs
  FL.Flw.NumInv FL.Flw.Run FL.Flw.RunFacts FL.Flw.NumRun FL.Oracles.O_Flw FL.Oracles.ReaderOrder FL.Oracles.O_Names
  FL.Flw.NumTheorems FL.Flw.NumListing FL.Flw.NumRestart FL.Flw.NumDInv FL.Flw.NumDRun FL.Flw.NumDTheorems
  FL.Flw.CleanupFacts FL.Flw.NumCleanupNames FL.Flw.NumCleanupStep FL.Flw.NumCleanupRun FL.Flw.NumCleanup
  FL.Flw.TsCal FL.Flw.TsTime FL.Flw.TsNames FL.Flw.TsInv FL.Flw.TsRun FL.Flw.TsTheorems FL.Flw.TsReader
  FL.Flw.NumKillRestart FL.Flw.NoPanic FL.Flw.TsParse FL.Flw.NamesDocumented.
From Coq Require Import ZifyN ZifyNat ZifyBool Permutation Sorted.
Open Scope nat_scope.

(* ------------------------------------------------------------------ sorted lists of names *)
Definition le_rel (x y : bytes) : Prop := lex_le x y = true.

Lemma insert_name_sorted x l : StronglySorted le_rel l -> StronglySorted le_rel (insert_name x l).
Proof.
  induction 1 as [|y l Hs IH Hy]; cbn [insert_name]; [constructor; constructor|].
  destruct (lex_le x y) eqn:E.
  - constructor; [constructor; assumption|]. constructor; [exact E|]. rewrite Forall_forall in *. intros z Hz.
    exact (lex_le_trans _ _ _ E (Hy z Hz)).
  - constructor; [exact IH|]. rewrite Forall_forall in *. intros z Hz. apply insert_name_in' in Hz. destruct Hz as [->|Hz].
    + destruct (lex_le_total x y) as [X|X]; [congruence | exact X].
    + exact (Hy z Hz).
Qed.

Lemma sort_names_sorted l : StronglySorted le_rel (sort_names l).
Proof. induction l as [|x l IH]; cbn [sort_names fold_right]; [constructor|]. apply insert_name_sorted. exact IH. Qed.

(* two duplicate-free lists with the same members are sorted into the same list *)
Lemma sort_names_same a b : NoDup a -> NoDup b -> (forall n, In n a <-> In n b) -> sort_names a = sort_names b.
Proof.
  intros Na Nb E. apply (sorted_unique le_rel).
  - intros x y. apply lex_le_antisym.
  - apply sort_names_sorted.
  - apply sort_names_sorted.
  - apply sort_names_nodup. exact Na.
  - apply sort_names_nodup. exact Nb.
  - intros n. rewrite !sort_names_in'. apply E.
Qed.

Lemma names_beq_refl l : names_beq l l = true.
Proof. induction l as [|x l IH]; cbn [names_beq]; [reflexivity|]. rewrite beq_refl, IH. reflexivity. Qed.

Lemma nodup_app_disjoint {A} (a b : list A) : NoDup a -> NoDup b -> (forall n, In n a -> ~ In n b) -> NoDup (a ++ b).
Proof.
  induction 1 as [|x a Hx Na IH]; intros Nb D; cbn [app]; [exact Nb|]. constructor.
  - intros I. apply in_app_or in I. destruct I as [I|I]; [exact (Hx I) | exact (D x (or_introl eq_refl) I)].
  - apply IH; [exact Nb|]. intros n Hn. apply D. right. exact Hn.
Qed.

(* ------------------------------------------------------------------ the selector *)
Definition custom_ok (sel : selector) : Prop :=
  match sel_custom sel with
  | None => True
  | Some x => forall i, x <> number_infix i
  end.

(* the four filters of existing_rot as one list *)
Definition p_plain (off : Z) (c : config) (sel : selector) (n : bytes) : bool :=
  sel_plain sel && qf off (fsfx (c_spec c)) (fixed0 c) IFNum (fsfx (c_spec c)) n.
Definition p_gz (off : Z) (c : config) (sel : selector) (n : bytes) : bool :=
  sel_gz sel && qf off (fsfx (c_spec c)) (fixed0 c) IFNum (Some gz_sfx) n.
Definition p_cur (off : Z) (c : config) (sel : selector) (n : bytes) : bool :=
  sel_rcur sel && qf off (fsfx (c_spec c)) (fixed0 c) (IFEq cur_infix) (fsfx (c_spec c)) n.
(* the custom current infix: not a second time, if it is rCURRENT and rCURRENT is listed already *)
Definition p_custom (off : Z) (c : config) (sel : selector) (n : bytes) : bool :=
  match sel_custom sel with
  | Some x => if sel_rcur sel && beq x cur_infix then false else qf off (fsfx (c_spec c)) (fixed0 c) (IFEq x) (fsfx (c_spec c)) n
  | None => false
  end.

Lemma filter_false {A} (l : list A) : filter (fun _ => false) l = [].
Proof. induction l; cbn [filter]; auto. Qed.

Lemma existing_rot_filters off c f sel :
  existing_rot off (c_spec c) (fixed0 c) f IFNum sel =
  let rel := related_files f (fsfx (c_spec c)) (fixed0 c) in
  Some (((filter (p_plain off c sel) rel ++ filter (p_gz off c sel) rel) ++ filter (p_cur off c sel) rel) ++ filter (p_custom off c sel) rel).
Proof.
  unfold existing_rot, p_plain, p_gz, p_cur, p_custom. cbv zeta.
  destruct (sel_custom sel) as [y|]; rewrite ?filter_files_total; [destruct (sel_rcur sel && beq y cur_infix)|];
    destruct (sel_plain sel), (sel_gz sel), (sel_rcur sel); cbn [andb app_opt]; cbv iota; rewrite ?filter_false; reflexivity.
Qed.

(* ------------------------------------------------------------------ the names of the directory, one by one *)
Lemma cur_infix_no_dot : no_dot cur_infix.
Proof. unfold no_dot, cur_infix. cbn [In]. intros H. repeat (destruct H as [H|H]; [discriminate|]). exact H. Qed.

Lemma candidate_cname c : infix_candidate (fsfx (c_spec c)) (fsfx (c_spec c)) (fixed0 c) (cname c) = Some cur_infix.
Proof.
  apply family_is_candidate, family_plain_alt. exists []. split; [left; reflexivity|]. split; [apply cur_infix_nonempty|].
  split; [apply cur_infix_no_dot|]. rewrite cname_shape, app_nil_r. unfold sfxs. rewrite <- app_assoc. reflexivity.
Qed.

Lemma candidate_rname c i :
  infix_candidate (fsfx (c_spec c)) (fsfx (c_spec c)) (fixed0 c) (rname c i) = Some (number_infix (N.of_nat i)).
Proof.
  apply family_is_candidate, family_plain_alt. exists []. split; [left; reflexivity|]. split; [apply number_infix_nonempty|].
  split; [apply number_infix_no_dot|]. rewrite rname_shape, app_nil_r, number_infix_digs, <- app_assoc. reflexivity.
Qed.

(* an archive is not a member of the plain listing, whatever the infix filter *)
Lemma candidate_gname c i : sfx_ok (c_spec c) ->
  infix_candidate (fsfx (c_spec c)) (fsfx (c_spec c)) (fixed0 c) (gname c i) = None.
Proof.
  intros H. rewrite infix_candidate_plain, gname_app, rname_shape. unfold sfxs, sfx_ok in *.
  destruct (fsfx (c_spec c)) as [s|].
  - unfold dot_gz. rewrite <- !app_assoc, (app_assoc (under (fixed0 c))).
    change (dot :: s ++ dot :: gz_sfx) with ((dot :: s) ++ dot :: gz_sfx).
    rewrite (strip_sfx_gz_none s _ H). reflexivity.
  - rewrite app_nil_r.
    destruct (cand_core (fixed0 c) ((under (fixed0 c) ++ r_char :: digs (N.of_nat i)) ++ dot_gz)) as [infix|] eqn:E; [exfalso | reflexivity].
    apply cand_core_spec in E. destruct E as (rs & Hrs & Hnd & _ & E).
    rewrite <- app_assoc in E. apply app_inv_head in E.
    assert (Hd : ~ In dot (r_char :: digs (N.of_nat i))) by (rewrite <- number_infix_digs; apply number_infix_no_dot).
    destruct Hrs as [->|(d & -> & _ & _)].
    + rewrite app_nil_r in E. apply Hnd. rewrite <- E. apply in_or_app. right. left. reflexivity.
    + unfold dot_gz in E. apply first_dot_unique in E; [|exact Hd | exact Hnd]. destruct E as [_ E]. discriminate E.
Qed.

Lemma number_infix_ne_cur i : beq (number_infix i) cur_infix = false.
Proof. apply beq_neq. apply number_infix_not_cur. Qed.

(* what the custom current infix adds for the file rCURRENT *)
Definition cur_custom (sel : selector) : bool :=
  match sel_custom sel with Some x => if sel_rcur sel && beq x cur_infix then false else beq cur_infix x | None => false end.

Lemma cur_custom_spec sel :
  (sel_rcur sel = true -> cur_custom sel = false)
  /\ sel_rcur sel || cur_custom sel = sel_rcur sel || match sel_custom sel with Some x => beq cur_infix x | None => false end.
Proof.
  unfold cur_custom. destruct (sel_custom sel) as [x|]; [|split; reflexivity].
  rewrite (beq_sym cur_infix x). destruct (sel_rcur sel), (beq x cur_infix); cbn [andb orb]; split;
    first [discriminate | intros; reflexivity].
Qed.

Section Names.
Variables (off : Z) (c : config) (crit : criterion) (k : cleanup) (sel : selector).
Hypothesis Hrot : c_rot c = Some (crit, NNumbers, k).
Hypothesis Hsfx : sfx_ok (c_spec c).
Hypothesis Hsel : custom_ok sel.

Let sfx := fsfx (c_spec c).

(* what the model's filters and the oracle's selection say: rCURRENT *)
Lemma cname_filters :
  p_plain off c sel (cname c) = false /\ p_gz off c sel (cname c) = false
  /\ p_cur off c sel (cname c) = sel_rcur sel
  /\ p_custom off c sel (cname c) = cur_custom sel.
Proof.
  unfold p_plain, p_gz, p_cur, p_custom, cur_custom. rewrite !qf_cname, !andb_false_r. split; [reflexivity|]. split; [reflexivity|].
  unfold qf. rewrite candidate_cname. cbn [filter_infix]. rewrite beq_refl, andb_true_r. split; reflexivity.
Qed.

Lemma cname_selected d :
  selected sel c (cname c, 0%N, d) = sel_rcur sel || match sel_custom sel with Some x => beq cur_infix x | None => false end.
Proof.
  unfold selected, classify_entry. rewrite Hrot. change (fixed_name_part (c_spec c) []) with (fixed0 c).
  rewrite (full_infix_cname c Hsfx). change (0 =? 1)%N with false. change (0 =? 0)%N with true. cbv iota.
  unfold cur_infix_of. rewrite Hrot. rewrite !beq_refl, andb_true_r.
  destruct (sel_custom sel) as [x|]; [rewrite (beq_sym x)|]; reflexivity.
Qed.

(* a rotated file *)
Lemma rname_filters i :
  p_plain off c sel (rname c i) = sel_plain sel /\ p_gz off c sel (rname c i) = false
  /\ p_cur off c sel (rname c i) = false /\ p_custom off c sel (rname c i) = false.
Proof.
  unfold p_plain, p_gz, p_cur, p_custom. rewrite qf_rname, (qf_rname_gz off c i Hsfx), andb_true_r, andb_false_r.
  split; [reflexivity|]. split; [reflexivity|]. unfold qf. rewrite candidate_rname. cbn [filter_infix].
  rewrite number_infix_ne_cur, andb_false_r. split; [reflexivity|].
  unfold custom_ok in Hsel. destruct (sel_custom sel) as [x|]; [|reflexivity].
  assert (E : beq (number_infix (N.of_nat i)) x = false) by (apply beq_neq; intros E; exact (Hsel _ (eq_sym E))).
  rewrite E. destruct (sel_rcur sel && beq x cur_infix); reflexivity.
Qed.

Lemma rname_selected i d : selected sel c (rname c i, 0%N, d) = sel_plain sel.
Proof.
  unfold selected, classify_entry. rewrite Hrot. change (fixed_name_part (c_spec c) []) with (fixed0 c).
  rewrite (full_infix_rname c i Hsfx). change (0 =? 1)%N with false. change (0 =? 0)%N with true. cbv iota.
  unfold cur_infix_of. rewrite Hrot. rewrite number_infix_ne_cur, (valid_number_infix NNumbers None _ eq_refl). reflexivity.
Qed.

(* an archive *)
Lemma gname_filters i :
  p_plain off c sel (gname c i) = false /\ p_gz off c sel (gname c i) = sel_gz sel
  /\ p_cur off c sel (gname c i) = false /\ p_custom off c sel (gname c i) = false.
Proof.
  unfold p_plain, p_gz, p_cur, p_custom. rewrite (qf_gname_plain off c i Hsfx), (qf_gname_gz off c i Hsfx), andb_true_r, andb_false_r.
  split; [reflexivity|]. split; [reflexivity|]. unfold qf. rewrite (candidate_gname c i Hsfx), andb_false_r.
  split; [reflexivity|]. destruct (sel_custom sel) as [x|]; [destruct (sel_rcur sel && beq x cur_infix)|]; reflexivity.
Qed.

Lemma gname_selected i d : selected sel c (gname c i, 1%N, d) = sel_gz sel.
Proof.
  unfold selected, classify_entry. rewrite Hrot. change (fixed_name_part (c_spec c) []) with (fixed0 c).
  rewrite (full_infix_gname c i Hsfx). change (1 =? 1)%N with true. cbv iota.
  rewrite (valid_number_infix NNumbers None _ eq_refl). reflexivity.
Qed.

(* ------------------------------------------------------------------ a directory of the invariant's shape *)
Variables (f : fs) (closed : list bytes) (lo mid : nat) (jc : nat).
Hypothesis KD : kdir c f closed lo mid.
Hypothesis Lc : lookup f (cname c) = Some jc.
Hypothesis Pc : plain (inode f jc).

Inductive dcase (n : bytes) : Prop :=
| DCur (d : bytes) : n = cname c -> snap_entry f n = (n, 0%N, d) -> dcase n
| DRot (i : nat) (d : bytes) : n = rname c i -> snap_entry f n = (n, 0%N, d) -> dcase n
| DGz (i : nat) (d : bytes) : n = gname c i -> snap_entry f n = (n, 1%N, d) -> dcase n.

Lemma dir_cases n : In n (dir_names f) -> dcase n /\ is_reg_file f n = true /\ is_prefix (fixed0 c) n = true.
Proof.
  intros I. apply dir_names_lookup in I. destruct I as [j Lj].
  destruct (kd_only _ _ _ _ _ KD n j Lj) as [->|[[i [Hi ->]]|[i [Hi ->]]]].
  - destruct Pc as [Pg Pd]. split; [|split].
    + apply (DCur _ (fdata (inode f jc)) eq_refl). unfold snap_entry, file_of. rewrite Lc, Pd, Pg. reflexivity.
    + unfold is_reg_file, file_of. rewrite Lc, Pd. reflexivity.
    + rewrite cname_shape. apply is_prefix_under.
  - destruct (kd_plain _ _ _ _ _ KD i Hi) as [j' [Lj' [[Pg Pd] _]]]. split; [|split].
    + apply (DRot _ i (fdata (inode f j')) eq_refl). unfold snap_entry, file_of. rewrite Lj', Pd, Pg. reflexivity.
    + unfold is_reg_file, file_of. rewrite Lj', Pd. reflexivity.
    + rewrite rname_shape. apply is_prefix_under.
  - destruct (kd_arch _ _ _ _ _ KD i Hi) as [j' [Lj' [_ [Pg Pd]]]]. split; [|split].
    + apply (DGz _ i (fdata (inode f j')) eq_refl). unfold snap_entry, file_of. rewrite Lj', Pd, Pg. reflexivity.
    + unfold is_reg_file, file_of. rewrite Lj', Pd. reflexivity.
    + rewrite gname_app, rname_shape, <- app_assoc. apply is_prefix_under.
Qed.

(* the model's filters are pairwise disjoint on the directory, and together they select what the oracle selects *)
Lemma filters_vs_oracle n : In n (dir_names f) ->
  (p_plain off c sel n = true -> p_gz off c sel n = false)
  /\ (p_plain off c sel n || p_gz off c sel n = true -> p_cur off c sel n = false)
  /\ ((p_plain off c sel n || p_gz off c sel n) || p_cur off c sel n = true -> p_custom off c sel n = false)
  /\ ((p_plain off c sel n || p_gz off c sel n) || p_cur off c sel n) || p_custom off c sel n = selected sel c (snap_entry f n).
Proof.
  intros I. destruct (dir_cases n I) as [[d -> Es|i d -> Es|i d -> Es] _]; rewrite Es.
  - destruct cname_filters as (-> & -> & -> & ->). rewrite cname_selected. cbn [orb].
    split; [discriminate|]. split; [discriminate|]. exact (cur_custom_spec sel).
  - destruct (rname_filters i) as (-> & -> & -> & ->). rewrite rname_selected, !orb_false_r. auto.
  - destruct (gname_filters i) as (-> & -> & -> & ->). rewrite gname_selected, !orb_false_r. cbn [orb]. split; [discriminate | auto].
Qed.

Let rel := related_files f sfx (fixed0 c).

Lemma rel_nodup : NoDup rel.
Proof.
  unfold rel, related_files. apply NoDup_rev. eapply Permutation_NoDup; [apply Permutation_sym, sort_by_key_perm|].
  apply NoDup_filter. exact (kd_nodup _ _ _ _ _ KD).
Qed.

Lemma rel_in n : In n rel <-> In n (dir_names f).
Proof.
  unfold rel. rewrite related_files_in. split; [tauto|]. intros I. destruct (dir_cases n I) as [_ [R P]]. auto.
Qed.

Definition listed : list bytes :=
  ((filter (p_plain off c sel) rel ++ filter (p_gz off c sel) rel) ++ filter (p_cur off c sel) rel) ++ filter (p_custom off c sel) rel.

Lemma listed_spec :
  NoDup listed /\ forall n, In n listed <-> In n (dir_names f) /\ selected sel c (snap_entry f n) = true.
Proof.
  pose proof rel_nodup as N.
  assert (V : forall n, In n rel -> _) by (intros n Hn; apply rel_in in Hn; exact (filters_vs_oracle n Hn)).
  split.
  - unfold listed. repeat apply nodup_app_disjoint; try (apply NoDup_filter; exact N).
    + intros n I1 I2. apply filter_In in I1. apply filter_In in I2. destruct I1 as [Hr H1]. destruct I2 as [_ H2].
      destruct (V n Hr) as [D1 _]. rewrite (D1 H1) in H2. discriminate.
    + intros n I1 I2. apply filter_In in I2. destruct I2 as [Hr H2]. destruct (V n Hr) as [_ [D2 _]].
      rewrite D2 in H2; [discriminate|]. apply in_app_or in I1. destruct I1 as [I1|I1]; apply filter_In in I1; destruct I1 as [_ ->];
        [reflexivity | apply orb_true_r].
    + intros n I1 I2. apply filter_In in I2. destruct I2 as [Hr H2]. destruct (V n Hr) as [_ [_ [D3 _]]].
      rewrite D3 in H2; [discriminate|]. apply in_app_or in I1. destruct I1 as [I1|I1];
        [apply in_app_or in I1; destruct I1 as [I1|I1]|]; apply filter_In in I1; destruct I1 as [_ ->];
        [reflexivity | rewrite orb_true_r; reflexivity | apply orb_true_r].
  - intros n. unfold listed. rewrite !in_app_iff, !filter_In. split.
    + intros H. assert (Hr : In n rel) by tauto. split; [apply rel_in; exact Hr|].
      destruct (V n Hr) as [_ [_ [_ <-]]]. rewrite !orb_true_iff. tauto.
    + intros [Hd Hs]. apply rel_in in Hd. destruct (V n Hd) as [_ [_ [_ E]]]. rewrite <- E, !orb_true_iff in Hs. tauto.
Qed.

(* the oracle accepts the list *)
Lemma listed_oracle : oracle_listing sel c (snap_list f) listed = true.
Proof.
  destruct listed_spec as [N Hin]. unfold oracle_listing, expected_listing.
  rewrite (sort_names_same listed (List.map (fun e : ReaderOrder.entry => fst (fst e)) (filter (selected sel c) (snap_list f)))).
  - apply names_beq_refl.
  - exact N.
  - unfold snap_list. set (ns := sort_names (dir_names f)).
    assert (Nns : NoDup ns) by (apply sort_names_nodup; exact (kd_nodup _ _ _ _ _ KD)).
    clearbody ns. induction ns as [|n ns IH]; cbn [List.map filter]; [constructor|].
    inversion Nns as [|? ? Hn Nns']; subst. destruct (selected sel c (snap_entry f n)); [|exact (IH Nns')].
    cbn [List.map]. constructor; [|exact (IH Nns')]. rewrite snap_entry_name. intros I. apply in_map_iff in I.
    destruct I as [e [Ee Ie]]. apply filter_In in Ie. destruct Ie as [Ie _]. apply in_map_iff in Ie. destruct Ie as [m [<- Im]].
    rewrite snap_entry_name in Ee. subst m. exact (Hn Im).
  - intros n. rewrite Hin, in_map_iff. split.
    + intros [Hd Hs]. exists (snap_entry f n). split; [apply snap_entry_name|]. apply filter_In. split; [|exact Hs].
      unfold snap_list. apply in_map, sort_names_in'. exact Hd.
    + intros [e [<- Ie]]. apply filter_In in Ie. destruct Ie as [Ie Hs]. unfold snap_list in Ie. apply in_map_iff in Ie.
      destruct Ie as [m [<- Im]]. rewrite snap_entry_name. split; [apply sort_names_in'; exact Im | exact Hs].
Qed.
End Names.

(* ------------------------------------------------------------------ the query on a state of the invariant *)
Lemma sys_eta x s : s_flw x = Some s -> {| s_flw := Some s; s_w := s_w x; s_tl := s_tl x; s_dead := s_dead x |} = x.
Proof. destruct x as [fl w tl dd]. cbn. intros ->. reflexivity. Qed.

Lemma query_relk c crit k x a sel :
  numkcfg c crit k -> not_gz c -> custom_ok sel -> RelK c crit k x a ->
  exists l, step x (OQuery sel) = (x, ObsList 0%N l) /\ oracle_listing sel c (snap_of x) l = true.
Proof.
  intros Hcfg G Hsel R. rewrite (step_sync_rel_k c crit k x a (OQuery sel) Hcfg R). cbn [sync_step].
  destruct Hcfg as (Hrot & Hts & _). destruct R as [_ [_ R]]. rewrite snap_of_list. destruct a as [[closed cur]|].
  - destruct R as [wr [roll [Es [I _]]]]. rewrite Es. cbn [st_ofk f_poisoned]. unfold query.
    cbn [st_ofk f_cfg f_inner mk_rsk rs_naming ns_filter]. unfold with_listing.
    rewrite (tick_quiet _ (nk_quiet _ _ _ _ _ _ I)), (fixed_of_fixed0 c _ Hts), existing_rot_filters. cbv zeta.
    fold (st_ofk c k (length closed) roll wr). cbv beta iota. rewrite (sys_eta x _ Es).
    eexists. split; [reflexivity|].
    exact (listed_oracle (woff (s_w x)) c crit k sel Hrot G Hsel (wfs (s_w x)) closed _ _ (wino wr)
             (nk_dir _ _ _ _ _ _ I) (nk_cur _ _ _ _ _ _ I) (nk_curplain _ _ _ _ _ _ I)).
  - destruct R as [Es [Q [Hn _]]]. rewrite Es. cbn [new_flw f_poisoned]. unfold query. cbn [new_flw f_cfg f_inner]. rewrite Hrot.
    unfold with_listing. rewrite (tick_quiet _ Q), existing_rot_empty by exact Hn.
    fold (new_flw c). cbv beta iota. rewrite (sys_eta x _ Es). exists []. split; [reflexivity|].
    unfold oracle_listing, expected_listing, snap_list, dir_names. rewrite Hn. reflexivity.
Qed.

(* THE THEOREM.  For every history of basic operations, every selector (custom_ok) and every cleanup strategy: in the state
   after  OStart c :: ops  the listing operation returns normally (code 0), changes nothing, and the oracle accepts its result
   for the snapshot of the directory: sorted, the result is exactly expected_listing sel c (snapshot). *)
Theorem numbers_listing_exact c crit k t0 off ops sel :
  numkcfg c crit k -> not_gz c -> Forall basic_op ops -> custom_ok sel ->
  kside c k (nclosed (a_run None ops (snd (run (fst (step (sys0 t0 off) (OStart c))) ops)))) ->
  let x := fst (run (sys0 t0 off) (OStart c :: ops)) in
  exists l, step x (OQuery sel) = (x, ObsList 0%N l)
            /\ oracle_listing sel c (snap_of x) l = true
            /\ sort_names l = expected_listing sel c (snap_of x).
Proof.
  intros Hcfg G Hb Hsel Hside x. unfold x. clear x. cbn [run]. destruct (step (sys0 t0 off) (OStart c)) as [x0 ob0] eqn:E0.
  pose proof (start_rel_k c crit k t0 off) as R0. rewrite E0 in R0. cbn [fst] in R0, Hside.
  pose proof (run_rel_k c crit k Hcfg ops x0 None R0 Hb Hside) as R1. destruct (run x0 ops) as [x1 obs1]. cbn [fst snd] in *.
  destruct (query_relk c crit k x1 _ sel Hcfg G Hsel R1) as [l [E O]]. exists l. split; [exact E|]. split; [exact O|].
  unfold oracle_listing in O. revert O. generalize (sort_names l) (expected_listing sel c (snap_of x1)).
  induction l0 as [|a l0 IH]; intros [|b l1] H; cbn [names_beq] in H; try discriminate; [reflexivity|].
  apply andb_prop in H. destruct H as [H1 H2]. apply beq_eq in H1. subst b. f_equal. apply IH. exact H2.
Qed.
Print Assumptions numbers_listing_exact.

(* ------------------------------------------------------------------ instances *)
Import String.StringSyntax.
Open Scope string_scope.

Definition sel_all : selector := {| sel_plain := true; sel_gz := true; sel_rcur := true; sel_custom := None |}.
Definition lx_c : config := NumCleanup.ex_cfg (KLogGz 1 1) log_sfx.
Definition lx_x : sys := fst (run (sys0 0 0) (OStart lx_c :: ex_ops)).

Example listing_instance_computed :
  snd (step lx_x (OQuery sel_all)) = ObsList 0%N [bs "a_r00004.log"; bs "a_r00003.log.gz"; bs "a_rCURRENT.log"]
  /\ snd (step lx_x (OQuery sel_log_gz)) = ObsList 0%N [bs "a_r00004.log"; bs "a_r00003.log.gz"]
  /\ expected_listing sel_all lx_c (snap_of lx_x) = [bs "a_r00003.log.gz"; bs "a_r00004.log"; bs "a_rCURRENT.log"].
Proof. vm_compute. repeat split; reflexivity. Qed.

Example listing_instance sel : custom_ok sel ->
  exists l, step lx_x (OQuery sel) = (lx_x, ObsList 0%N l) /\ oracle_listing sel lx_c (snap_of lx_x) l = true
            /\ sort_names l = expected_listing sel lx_c (snap_of lx_x).
Proof.
  intros Hsel. apply (numbers_listing_exact lx_c (CSize 3) (KLogGz 1 1) 0 0 ex_ops sel); try assumption.
  - apply ex_numkcfg.
  - apply ex_not_gz.
  - exact ex_ops_basic.
  - exact ex_sfx_ok.
Qed.

(* rCURRENT asked for twice - as r_current and as the custom current infix "rCURRENT" -: the file is listed once (the repaired
   listing leaves out the custom filter in this case), the oracle accepts, and the selector satisfies custom_ok *)
Example custom_twice_listed_once :
  let sel := {| sel_plain := false; sel_gz := false; sel_rcur := true; sel_custom := Some cur_infix |} in
  snd (step lx_x (OQuery sel)) = ObsList 0%N [bs "a_rCURRENT.log"]
  /\ expected_listing sel lx_c (snap_of lx_x) = [bs "a_rCURRENT.log"]
  /\ oracle_listing sel lx_c (snap_of lx_x) [bs "a_rCURRENT.log"] = true
  /\ custom_ok sel.
Proof.
  cbv zeta. split; [vm_compute; reflexivity|]. split; [vm_compute; reflexivity|]. split; [vm_compute; reflexivity|].
  intros i E. exact (number_infix_not_cur i (eq_sym E)).
Qed.

(* the custom current infix alone lists rCURRENT as well *)
Example custom_rcurrent_alone :
  let sel := {| sel_plain := false; sel_gz := false; sel_rcur := false; sel_custom := Some cur_infix |} in
  snd (step lx_x (OQuery sel)) = ObsList 0%N [bs "a_rCURRENT.log"]
  /\ oracle_listing sel lx_c (snap_of lx_x) [bs "a_rCURRENT.log"] = true.
Proof. cbv zeta. split; vm_compute; reflexivity. Qed.

(* custom_ok is needed for the oracle (not a defect of the listing): a custom current infix that is the infix of a rotated file
   lists that file, as asked (twice, when the plain files are asked for as well); the oracle does not count it as current *)
Example custom_number_infix_listed :
  let sel := {| sel_plain := false; sel_gz := false; sel_rcur := false; sel_custom := Some (bs "r00004") |} in
  snd (step lx_x (OQuery sel)) = ObsList 0%N [bs "a_r00004.log"]
  /\ expected_listing sel lx_c (snap_of lx_x) = []
  /\ oracle_listing sel lx_c (snap_of lx_x) [bs "a_r00004.log"] = false
  /\ ~ custom_ok sel.
Proof.
  cbv zeta. split; [vm_compute; reflexivity|]. split; [vm_compute; reflexivity|]. split; [vm_compute; reflexivity|].
  intros H. apply (H 4%N). vm_compute. reflexivity.
Qed.

(* ====================================================================================================================
   The same by permutations: no hypothesis that the names of the directory are pairwise different.  Used for NumbersDirect,
   and for Numbers without the flag c_bg. *)
Close Scope string_scope.

Lemma insert_name_perm x l : Permutation (insert_name x l) (x :: l).
Proof.
  induction l as [|y l IH]; cbn [insert_name]; [apply Permutation_refl|]. destruct (lex_le x y); [apply Permutation_refl|].
  eapply Permutation_trans; [apply perm_skip, IH | apply perm_swap].
Qed.
Lemma sort_names_perm l : Permutation (sort_names l) l.
Proof.
  induction l as [|x l IH]; cbn [sort_names fold_right]; [apply Permutation_refl|]. fold (sort_names l).
  eapply Permutation_trans; [apply insert_name_perm | apply perm_skip, IH].
Qed.

Lemma sorted_perm_eq : forall l1 l2 : list bytes, StronglySorted le_rel l1 -> StronglySorted le_rel l2 -> Permutation l1 l2 -> l1 = l2.
Proof.
  induction l1 as [|x l1 IH]; intros [|y l2] S1 S2 P.
  - reflexivity.
  - apply Permutation_nil in P. discriminate.
  - apply Permutation_sym, Permutation_nil in P. discriminate.
  - inversion S1 as [|? ? S1' F1]; subst. inversion S2 as [|? ? S2' F2]; subst. rewrite Forall_forall in F1, F2.
    assert (Exy : x = y).
    { assert (Ix : In x (y :: l2)) by (apply (Permutation_in _ P); left; reflexivity).
      assert (Iy : In y (x :: l1)) by (apply (Permutation_in _ (Permutation_sym P)); left; reflexivity).
      destruct Ix as [->|Ix]; [reflexivity|]. destruct Iy as [->|Iy]; [reflexivity|].
      apply lex_le_antisym; [apply F1, Iy | apply F2, Ix]. }
    subst y. f_equal. apply IH; [assumption | assumption | exact (Permutation_cons_inv P)].
Qed.

Lemma sort_names_of_perm a b : Permutation a b -> sort_names a = sort_names b.
Proof.
  intros P. apply sorted_perm_eq; [apply sort_names_sorted | apply sort_names_sorted|].
  eapply Permutation_trans; [apply sort_names_perm|]. eapply Permutation_trans; [exact P | apply Permutation_sym, sort_names_perm].
Qed.

Lemma perm_filter {A} (p : A -> bool) l l' : Permutation l l' -> Permutation (filter p l) (filter p l').
Proof.
  induction 1 as [|x l l' P IH|x y l|l l' l'' P1 IH1 P2 IH2]; cbn [filter].
  - constructor.
  - destruct (p x); [apply perm_skip|]; exact IH.
  - destruct (p x), (p y); try apply Permutation_refl. apply perm_swap.
  - eapply Permutation_trans; eassumption.
Qed.

Lemma perm_filter_app {A} (p q : A -> bool) l : (forall n, In n l -> p n = true -> q n = false) ->
  Permutation (filter p l ++ filter q l) (filter (fun n => p n || q n) l).
Proof.
  induction l as [|x l IH]; intros D; cbn [filter]; [constructor|].
  assert (IH' := IH (fun n Hn => D n (or_intror Hn))).
  destruct (p x) eqn:Px.
  - rewrite (D x (or_introl eq_refl) Px). cbn [orb app]. apply perm_skip. exact IH'.
  - cbn [orb]. destruct (q x); [|exact IH']. eapply Permutation_trans; [apply Permutation_sym, Permutation_middle|].
    apply perm_skip. exact IH'.
Qed.

Lemma names_of_selected (S : ReaderOrder.entry -> bool) f : forall ns,
  List.map (fun e : ReaderOrder.entry => fst (fst e)) (filter S (List.map (snap_entry f) ns)) = filter (fun n => S (snap_entry f n)) ns.
Proof.
  induction ns as [|n ns IH]; cbn [List.map filter]; [reflexivity|]. destruct (S (snap_entry f n)); cbn [List.map]; rewrite IH; [|reflexivity].
  rewrite snap_entry_name. reflexivity.
Qed.

Section Generic.
Variables (c : config) (sel : selector) (f : fs) (p1 p2 p3 p4 : bytes -> bool).
Hypothesis Hreg : forall n, In n (dir_names f) -> is_reg_file f n && is_prefix (fixed0 c) n = true.
Hypothesis Hsel : forall n, In n (dir_names f) ->
  (p1 n = true -> p2 n = false) /\ (p1 n || p2 n = true -> p3 n = false) /\ ((p1 n || p2 n) || p3 n = true -> p4 n = false)
  /\ ((p1 n || p2 n) || p3 n) || p4 n = selected sel c (snap_entry f n).

Let rel := related_files f (fsfx (c_spec c)) (fixed0 c).

Lemma rel_perm_dir : Permutation rel (dir_names f).
Proof.
  unfold rel, related_files. eapply Permutation_trans; [apply Permutation_sym, Permutation_rev|].
  eapply Permutation_trans; [apply sort_by_key_perm|]. rewrite filter_true_all by exact Hreg. apply Permutation_refl.
Qed.

Lemma generic_oracle :
  oracle_listing sel c (snap_list f) (((filter p1 rel ++ filter p2 rel) ++ filter p3 rel) ++ filter p4 rel) = true.
Proof.
  assert (V : forall n, In n rel -> _) by (intros n Hn; apply (Permutation_in _ rel_perm_dir) in Hn; exact (Hsel n Hn)).
  unfold oracle_listing, expected_listing.
  rewrite (sort_names_of_perm _ (List.map (fun e : ReaderOrder.entry => fst (fst e)) (filter (selected sel c) (snap_list f)))); [apply names_beq_refl|].
  unfold snap_list. rewrite names_of_selected.
  set (P := fun n => ((p1 n || p2 n) || p3 n) || p4 n).
  apply Permutation_trans with (filter P rel).
  - eapply Permutation_trans; [apply Permutation_app_tail|].
    { eapply Permutation_trans; [apply Permutation_app_tail, (perm_filter_app p1 p2 rel); intros n Hn; apply (V n Hn)|].
      apply (perm_filter_app (fun n => p1 n || p2 n) p3 rel). intros n Hn. apply (V n Hn). }
    apply (perm_filter_app (fun n => (p1 n || p2 n) || p3 n) p4 rel). intros n Hn. apply (V n Hn).
  - apply Permutation_trans with (filter P (dir_names f)); [apply perm_filter, rel_perm_dir|].
    rewrite (filter_ext_in P (fun n => selected sel c (snap_entry f n)) (dir_names f)) by (intros n Hn; apply (Hsel n Hn)).
    apply perm_filter, Permutation_sym, sort_names_perm.
Qed.
End Generic.

(* ------------------------------------------------------------------ NumbersDirect *)
(* the custom current infix is not the infix of a numbered file (NumbersDirect has no current infix of its own) *)
Definition custom_ok_d (sel : selector) : Prop :=
  match sel_custom sel with None => True | Some x => forall i, x <> number_infix i end.

Lemma rname_filters_d off c sel i : sfx_ok (c_spec c) -> custom_ok_d sel ->
  p_plain off c sel (rname c i) = sel_plain sel /\ p_gz off c sel (rname c i) = false
  /\ p_cur off c sel (rname c i) = false /\ p_custom off c sel (rname c i) = false.
Proof.
  intros Hsfx Hsel.
  unfold p_plain, p_gz, p_cur, p_custom. rewrite qf_rname, (qf_rname_gz off c i Hsfx), andb_true_r, andb_false_r.
  split; [reflexivity|]. split; [reflexivity|]. unfold qf. rewrite candidate_rname. cbn [filter_infix].
  rewrite number_infix_ne_cur, andb_false_r. split; [reflexivity|].
  unfold custom_ok_d in Hsel. destruct (sel_custom sel) as [x|]; [|reflexivity].
  assert (E : beq (number_infix (N.of_nat i)) x = false) by (apply beq_neq; intros E; exact (Hsel _ (eq_sym E))).
  rewrite E. destruct (sel_rcur sel && beq x cur_infix); reflexivity.
Qed.

Lemma rname_selected_d c crit k sel i d : c_rot c = Some (crit, NNumbersDirect, k) -> sfx_ok (c_spec c) ->
  selected sel c (rname c i, 0%N, d) = sel_plain sel.
Proof.
  intros Hrot Hsfx. unfold selected, classify_entry. rewrite Hrot. change (fixed_name_part (c_spec c) []) with (fixed0 c).
  rewrite (full_infix_rname c i Hsfx). change (0 =? 1)%N with false. change (0 =? 0)%N with true. cbv iota.
  unfold cur_infix_of. rewrite Hrot. rewrite (valid_number_infix NNumbersDirect None _ eq_refl). reflexivity.
Qed.

Lemma query_reld c crit x a sel :
  numdcfg c crit -> not_gz c -> custom_ok_d sel -> RelD c crit x a ->
  exists l, step x (OQuery sel) = (x, ObsList 0%N l) /\ oracle_listing sel c (snap_of x) l = true.
Proof.
  intros Hcfg G Hsel R. rewrite (step_sync_rel_d c crit x a (OQuery sel) Hcfg R). cbn [sync_step].
  destruct Hcfg as (Hrot & Hts & _). destruct R as [_ [_ R]]. rewrite snap_of_list. destruct a as [[closed cur]|].
  - destruct R as [wr [roll [Es [I _]]]]. rewrite Es. cbn [st_of_d f_poisoned]. unfold query.
    cbn [st_of_d f_cfg f_inner mk_rs rs_naming ns_filter]. unfold with_listing.
    rewrite (tick_quiet _ (nd_quiet _ _ _ _ I)), (fixed_of_fixed0 c _ Hts), existing_rot_filters. cbv zeta.
    fold (st_of_d c (length closed) roll wr). cbv beta iota. rewrite (sys_eta x _ Es).
    eexists. split; [reflexivity|].
    assert (Plain : forall n, In n (dir_names (wfs (s_w x))) -> exists i d, n = rname c i /\ snap_entry (wfs (s_w x)) n = (n, 0%N, d)
                              /\ is_reg_file (wfs (s_w x)) n = true).
    { intros n In_. apply dir_names_lookup in In_. destruct In_ as [j Lj].
      destruct (nd_only _ _ _ _ I n j Lj) as [i [Hi ->]].
      assert (Pj : plain (inode (wfs (s_w x)) j)).
      { destruct (Nat.eq_dec i (length closed)) as [->|Hne].
        - rewrite (nd_cur _ _ _ _ I) in Lj. injection Lj as <-. exact (nd_curplain _ _ _ _ I).
        - destruct (nd_closed _ _ _ _ I i ltac:(lia)) as [j' [Lj' [Pj' _]]]. rewrite Lj in Lj'. injection Lj' as <-. exact Pj'. }
      destruct Pj as [Pg Pd]. exists i, (fdata (inode (wfs (s_w x)) j)).
      split; [reflexivity|]. unfold snap_entry, is_reg_file, file_of. rewrite Lj, Pd, Pg. split; reflexivity. }
    apply generic_oracle.
    + intros n In_. destruct (Plain n In_) as [i [d [-> [_ Hr]]]]. rewrite Hr, rname_shape, is_prefix_under. reflexivity.
    + intros n In_. destruct (Plain n In_) as [i [d [-> [Es' _]]]]. rewrite Es'.
      destruct (rname_filters_d (woff (s_w x)) c sel i G Hsel) as (-> & -> & -> & ->).
      rewrite (rname_selected_d c crit KNever sel i d Hrot G), !orb_false_r. auto.
  - destruct R as [Es [Q [Hn _]]]. rewrite Es. cbn [new_flw f_poisoned]. unfold query. cbn [new_flw f_cfg f_inner]. rewrite Hrot.
    unfold with_listing. rewrite (tick_quiet _ Q), existing_rot_empty by exact Hn.
    fold (new_flw c). cbv beta iota. rewrite (sys_eta x _ Es). exists []. split; [reflexivity|].
    unfold oracle_listing, expected_listing, snap_list, dir_names. rewrite Hn. reflexivity.
Qed.

Lemma names_beq_eq : forall a b, names_beq a b = true -> a = b.
Proof.
  induction a as [|x a IH]; intros [|y b] H; cbn [names_beq] in H; try discriminate; [reflexivity|].
  apply andb_prop in H. destruct H as [H1 H2]. apply beq_eq in H1. subst y. f_equal. apply IH. exact H2.
Qed.

Theorem numbersdirect_listing_exact c crit t0 off ops sel :
  numdcfg c crit -> not_gz c -> Forall basic_op ops -> custom_ok_d sel ->
  let x := fst (run (sys0 t0 off) (OStart c :: ops)) in
  exists l, step x (OQuery sel) = (x, ObsList 0%N l)
            /\ oracle_listing sel c (snap_of x) l = true
            /\ sort_names l = expected_listing sel c (snap_of x).
Proof.
  intros Hcfg G Hb Hsel x. unfold x. clear x. cbn [run]. destruct (step (sys0 t0 off) (OStart c)) as [x0 ob0] eqn:E0.
  pose proof (start_rel_d c crit t0 off) as R0. rewrite E0 in R0. cbn [fst] in R0.
  pose proof (run_rel_d c crit Hcfg ops x0 None R0 Hb) as R1. destruct (run x0 ops) as [x1 obs1]. cbn [fst snd] in *.
  destruct (query_reld c crit x1 _ sel Hcfg G Hsel R1) as [l [E O]]. exists l. split; [exact E|]. split; [exact O|].
  apply names_beq_eq. exact O.
Qed.
Print Assumptions numbersdirect_listing_exact.

Example numbersdirect_listing_instance :
  snd (step (fst (run (sys0 0 0) (OStart exd_c :: exd_ops))) (OQuery sel_all))
  = ObsList 0%N (List.map bs ["app_r00003.log"; "app_r00002.log"; "app_r00001.log"; "app_r00000.log"]%string)
  /\ custom_ok_d sel_all.
Proof. split; [vm_compute; reflexivity | exact I]. Qed.

(* ------------------------------------------------------------------ Numbers without cleanup, hypotheses of numbers_stream only *)
Lemma query_rel c crit x a sel :
  numcfg c crit -> not_gz c -> custom_ok sel -> Rel c crit x a ->
  exists l, step x (OQuery sel) = (x, ObsList 0%N l) /\ oracle_listing sel c (snap_of x) l = true.
Proof.
  intros Hcfg G Hsel R. rewrite (step_sync_rel c crit x a (OQuery sel) Hcfg R). cbn [sync_step].
  destruct Hcfg as (Hrot & Hts & _). destruct R as [_ [_ R]]. rewrite snap_of_list. destruct a as [[closed cur]|].
  - destruct R as [wr [roll [Es [I _]]]]. rewrite Es. cbn [st_of f_poisoned]. unfold query.
    cbn [st_of f_cfg f_inner mk_rs rs_naming ns_filter]. unfold with_listing.
    rewrite (tick_quiet _ (ni_quiet _ _ _ _ I)), (fixed_of_fixed0 c _ Hts), existing_rot_filters. cbv zeta.
    fold (st_of c (length closed) roll wr). cbv beta iota. rewrite (sys_eta x _ Es).
    eexists. split; [reflexivity|].
    set (f := wfs (s_w x)) in *.
    assert (Cases : forall n, In n (dir_names f) ->
              is_reg_file f n = true /\ exists d, snap_entry f n = (n, 0%N, d) /\ (n = cname c \/ exists i, n = rname c i)).
    { intros n In_. apply dir_names_lookup in In_. destruct In_ as [j Lj].
      assert (Pj : plain (inode f j)).
      { destruct (ni_only _ _ _ _ I n j Lj) as [->|[i [Hi ->]]].
        - unfold f in Lj. rewrite (ni_cur _ _ _ _ I) in Lj. injection Lj as <-. exact (ni_curplain _ _ _ _ I).
        - destruct (ni_closed _ _ _ _ I i Hi) as [j' [Lj' [Pj' _]]]. unfold f in Lj. rewrite Lj in Lj'. injection Lj' as <-. exact Pj'. }
      destruct Pj as [Pg Pd]. unfold snap_entry, is_reg_file, file_of. rewrite Lj, Pd, Pg. split; [reflexivity|].
      exists (fdata (inode f j)). split; [reflexivity|].
      destruct (ni_only _ _ _ _ I n j Lj) as [->|[i [_ ->]]]; [left; reflexivity | right; eauto]. }
    apply generic_oracle.
    + intros n In_. destruct (Cases n In_) as [Hr [d [_ [->|[i ->]]]]]; rewrite Hr.
      * rewrite cname_shape, is_prefix_under. reflexivity.
      * rewrite rname_shape, is_prefix_under. reflexivity.
    + intros n In_. destruct (Cases n In_) as [_ [d [Es' [->|[i ->]]]]]; rewrite Es'.
      * destruct (cname_filters (woff (s_w x)) c sel) as (-> & -> & -> & ->).
        rewrite (cname_selected c crit KNever sel Hrot G d). cbn [orb].
        split; [discriminate|]. split; [discriminate|]. exact (cur_custom_spec sel).
      * destruct (rname_filters (woff (s_w x)) c sel G Hsel i) as (-> & -> & -> & ->).
        rewrite (rname_selected c crit KNever sel Hrot G i d), !orb_false_r. auto.
  - destruct R as [Es [Q [Hn _]]]. rewrite Es. cbn [new_flw f_poisoned]. unfold query. cbn [new_flw f_cfg f_inner]. rewrite Hrot.
    unfold with_listing. rewrite (tick_quiet _ Q), existing_rot_empty by exact Hn.
    fold (new_flw c). cbv beta iota. rewrite (sys_eta x _ Es). exists []. split; [reflexivity|].
    unfold oracle_listing, expected_listing, snap_list, dir_names. rewrite Hn. reflexivity.
Qed.

Theorem numbers_listing_exact_nocleanup c crit t0 off ops sel :
  numcfg c crit -> not_gz c -> Forall basic_op ops -> custom_ok sel ->
  let x := fst (run (sys0 t0 off) (OStart c :: ops)) in
  exists l, step x (OQuery sel) = (x, ObsList 0%N l)
            /\ oracle_listing sel c (snap_of x) l = true
            /\ sort_names l = expected_listing sel c (snap_of x).
Proof.
  intros Hcfg G Hb Hsel x. unfold x. clear x. cbn [run]. destruct (step (sys0 t0 off) (OStart c)) as [x0 ob0] eqn:E0.
  pose proof (start_rel c crit t0 off) as R0. rewrite E0 in R0. cbn [fst] in R0.
  pose proof (run_rel c crit Hcfg ops x0 None R0 Hb) as R1. destruct (run x0 ops) as [x1 obs1]. cbn [fst snd] in *.
  destruct (query_rel c crit x1 _ sel Hcfg G Hsel R1) as [l [E O]]. exists l. split; [exact E|]. split; [exact O|].
  apply names_beq_eq. exact O.
Qed.
Print Assumptions numbers_listing_exact_nocleanup.

(* ====================================================================================================================
   Timestamps naming: r<time stamp>[.restart-NNNN] and rCURRENT; the listing filters with the time-stamp parser (IFTs std_fmt),
   which accepts every infix that the writer forms (TsParse.parse_tsx). *)
Definition pt_plain (off : Z) (c : config) (sel : selector) (n : bytes) : bool :=
  sel_plain sel && qf off (fsfx (c_spec c)) (fixed0 c) (IFTs std_fmt) (fsfx (c_spec c)) n.
Definition pt_gz (off : Z) (c : config) (sel : selector) (n : bytes) : bool :=
  sel_gz sel && qf off (fsfx (c_spec c)) (fixed0 c) (IFTs std_fmt) (Some gz_sfx) n.

Lemma existing_rot_filters_ts off c f sel :
  existing_rot off (c_spec c) (fixed0 c) f (IFTs std_fmt) sel =
  let rel := related_files f (fsfx (c_spec c)) (fixed0 c) in
  Some (((filter (pt_plain off c sel) rel ++ filter (pt_gz off c sel) rel) ++ filter (p_cur off c sel) rel) ++ filter (p_custom off c sel) rel).
Proof.
  unfold existing_rot, pt_plain, pt_gz, p_cur, p_custom. cbv zeta.
  destruct (sel_custom sel) as [y|]; rewrite ?filter_files_total; [destruct (sel_rcur sel && beq y cur_infix)|];
    destruct (sel_plain sel), (sel_gz sel), (sel_rcur sel); cbn [andb app_opt]; cbv iota; rewrite ?filter_false; reflexivity.
Qed.

(* a custom current infix is no time stamp of a rotated file *)
Definition custom_ok_ts (sel : selector) : Prop :=
  match sel_custom sel with
  | None => True
  | Some x => forall e t, in_years e t -> x <> tsx e t
  end.

(* a plain name of the family does not look like an archive *)
Lemma kname_no_gz c e k : not_gz c -> in_years e (fst k) -> strip_suffix (dot :: gz_sfx) (kname c e k) = None.
Proof.
  intros G H. unfold kname, nm. apply as_name_gz_parts; [apply infix_of_nonempty; exact H|].
  unfold not_gz in G. destruct (fsfx (c_spec c)); [exact G|].
  destruct (infix_ends_digit e k H) as [X [D [-> [Hne Hd]]]]. apply sk_gz_digits; assumption.
Qed.
Lemma cname_no_gz c : not_gz c -> strip_suffix (dot :: gz_sfx) (cname c) = None.
Proof.
  intros G. unfold cname, nm. apply as_name_gz_parts; [apply cur_infix_nonempty|].
  unfold not_gz in G. destruct (fsfx (c_spec c)); [exact G | vm_compute; reflexivity].
Qed.

Lemma candidate_kname c e k : in_years e (fst k) ->
  infix_candidate (fsfx (c_spec c)) (fsfx (c_spec c)) (fixed0 c) (kname c e k) = Some (tsx e (fst k)).
Proof.
  intros H. apply family_is_candidate, family_plain_alt. exists (ktail (snd k)). split; [apply ktail_restart_part|].
  split; [apply tsx_nonempty; exact H|]. split; [exact (tsx_no_dot e _ H)|].
  rewrite kname_shape by exact H. fold (sfxs (c_spec c)). rewrite <- !app_assoc. reflexivity.
Qed.

Lemma cur_infix_no_stamp : parse_ts_local std_fmt cur_infix = None.
Proof. vm_compute. reflexivity. Qed.
Lemma cur_infix_not_canonical : canonical_ts std_fmt cur_infix = false.
Proof. unfold canonical_ts. rewrite cur_infix_no_stamp. reflexivity. Qed.

Section TsNamesListing.
Variables (off : Z) (c : config) (crit : criterion) (k : cleanup) (sel : selector) (e : Z).
Hypothesis Hrot : c_rot c = Some (crit, NTimestamps, k).
Hypothesis G : not_gz c.
Hypothesis Hsel : custom_ok_ts sel.

Lemma cname_filters_ts :
  pt_plain off c sel (cname c) = false /\ pt_gz off c sel (cname c) = false
  /\ p_cur off c sel (cname c) = sel_rcur sel
  /\ p_custom off c sel (cname c) = cur_custom sel.
Proof.
  unfold pt_plain, pt_gz, p_cur, p_custom, cur_custom, qf. rewrite candidate_cname. cbn [filter_infix]. rewrite cur_infix_not_canonical, andb_false_r.
  split; [reflexivity|]. split.
  - unfold infix_candidate. rewrite (cname_no_gz c G). apply andb_false_r.
  - rewrite beq_refl, andb_true_r. split; reflexivity.
Qed.

Lemma cname_selected_ts d :
  selected sel c (cname c, 0%N, d) = sel_rcur sel || match sel_custom sel with Some x => beq cur_infix x | None => false end.
Proof.
  unfold selected, classify_entry. rewrite Hrot. change (fixed_name_part (c_spec c) []) with (fixed0 c).
  rewrite (full_infix_cname c G). change (0 =? 1)%N with false. change (0 =? 0)%N with true. cbv iota.
  unfold cur_infix_of. rewrite Hrot. rewrite !beq_refl, andb_true_r.
  destruct (sel_custom sel) as [x|]; [rewrite (beq_sym x)|]; reflexivity.
Qed.

Lemma kname_filters_ts key : in_years e (fst key) ->
  pt_plain off c sel (kname c e key) = sel_plain sel /\ pt_gz off c sel (kname c e key) = false
  /\ p_cur off c sel (kname c e key) = false /\ p_custom off c sel (kname c e key) = false.
Proof.
  intros Y. unfold pt_plain, pt_gz, p_cur, p_custom, qf. rewrite (candidate_kname c e key Y). cbn [filter_infix].
  rewrite (canonical_tsx e _ Y), andb_true_r. split; [reflexivity|]. split.
  { unfold infix_candidate. rewrite (kname_no_gz c e key G Y). apply andb_false_r. }
  assert (Nc : beq (tsx e (fst key)) cur_infix = false).
  { apply beq_neq. intros E. apply (tsx_app_not_cur e (fst key) [] [] Y). rewrite !app_nil_r. exact E. }
  rewrite Nc, andb_false_r. split; [reflexivity|].
  unfold custom_ok_ts in Hsel. destruct (sel_custom sel) as [x|]; [|reflexivity].
  assert (E : beq (tsx e (fst key)) x = false) by (apply beq_neq; intros E; exact (Hsel e _ Y (eq_sym E))).
  rewrite E. destruct (sel_rcur sel && beq x cur_infix); reflexivity.
Qed.

Lemma kname_selected_ts key d : in_years e (fst key) -> selected sel c (kname c e key, 0%N, d) = sel_plain sel.
Proof.
  intros Y. unfold selected, classify_entry. rewrite Hrot. change (fixed_name_part (c_spec c) []) with (fixed0 c).
  rewrite (full_infix_kname c e key G Y). change (0 =? 1)%N with false. change (0 =? 0)%N with true. cbv iota.
  unfold cur_infix_of. rewrite Hrot. rewrite (beq_neq _ _ (infix_of_not_cur e key Y)), (valid_ts_infix None e key Y). reflexivity.
Qed.
End TsNamesListing.

Lemma query_relt c crit e lo hi n x a sel :
  tscfg c crit -> not_gz c -> custom_ok_ts sel -> years_ok e lo hi -> (wnow (s_w x) <= hi)%Z -> RelT c e lo n x a ->
  exists l, step x (OQuery sel) = (x, ObsList 0%N l) /\ oracle_listing sel c (snap_of x) l = true.
Proof.
  intros Hcfg G Hsel Y Hhi R. rewrite (step_sync_rel_ts c crit e lo n x a (OQuery sel) Hcfg R). cbn [sync_step].
  destruct Hcfg as (Hrot & Hts & _). destruct R as [_ [_ R]]. rewrite snap_of_list. destruct a as [[closed cur]|].
  - destruct R as [keys [wr [roll [ts [Es [I _]]]]]]. rewrite Es. cbn [st_ts f_poisoned]. unfold query.
    cbn [st_ts f_cfg f_inner mk_rs rs_naming ns_filter]. unfold with_listing.
    rewrite (tick_quiet _ (ti_quiet _ _ _ _ _ _ _ _ I)), (fixed_of_fixed0 c _ Hts), existing_rot_filters_ts. cbv zeta.
    fold (st_ts c ts roll wr). cbv beta iota. rewrite (sys_eta x _ Es).
    eexists. split; [reflexivity|].
    set (f := wfs (s_w x)) in *.
    assert (Yk : forall i, i < length closed -> in_years e (fst (nth i keys kd))).
    { intros i Hi. apply (years_in e lo hi _ Y).
      pose proof (ti_range _ _ _ _ _ _ _ _ I (nth i keys kd)) as Rg. pose proof (ti_ts _ _ _ _ _ _ _ _ I) as Rt.
      pose proof (ti_len _ _ _ _ _ _ _ _ I) as Hl.
      assert (Ik : In (nth i keys kd) keys) by (apply nth_In; lia). specialize (Rg Ik). lia. }
    assert (Cases : forall m, In m (dir_names f) ->
              is_reg_file f m = true /\ exists d, snap_entry f m = (m, 0%N, d)
                /\ (m = cname c \/ exists key, in_years e (fst key) /\ m = kname c e key)).
    { intros m In_. apply dir_names_lookup in In_. destruct In_ as [j Lj].
      assert (Pj : plain (inode f j)).
      { destruct (ti_only _ _ _ _ _ _ _ _ I m j Lj) as [->|[i [Hi ->]]].
        - unfold f in Lj. rewrite (ti_cur _ _ _ _ _ _ _ _ I) in Lj. injection Lj as <-. exact (ti_curplain _ _ _ _ _ _ _ _ I).
        - destruct (ti_closed _ _ _ _ _ _ _ _ I i Hi) as [j' [Lj' [Pj' _]]]. unfold f in Lj. rewrite Lj in Lj'. injection Lj' as <-. exact Pj'. }
      destruct Pj as [Pg Pd]. unfold snap_entry, is_reg_file, file_of. rewrite Lj, Pd, Pg. split; [reflexivity|].
      exists (fdata (inode f j)). split; [reflexivity|].
      destruct (ti_only _ _ _ _ _ _ _ _ I m j Lj) as [->|[i [Hi ->]]]; [left; reflexivity | right; eauto]. }
    apply generic_oracle.
    + intros m In_. destruct (Cases m In_) as [Hr [d [_ [->|[key [Yi ->]]]]]]; rewrite Hr.
      * rewrite cname_shape, is_prefix_under. reflexivity.
      * rewrite (kname_shape c e key Yi), is_prefix_under. reflexivity.
    + intros m In_. destruct (Cases m In_) as [_ [d [Es' [->|[key [Yi ->]]]]]]; rewrite Es'.
      * destruct (cname_filters_ts (woff (s_w x)) c sel G) as (-> & -> & -> & ->).
        rewrite (cname_selected_ts c crit KNever sel Hrot G d). cbn [orb].
        split; [discriminate|]. split; [discriminate|]. exact (cur_custom_spec sel).
      * destruct (kname_filters_ts (woff (s_w x)) c sel e G Hsel key Yi) as (-> & -> & -> & ->).
        rewrite (kname_selected_ts c crit KNever sel e Hrot G key d Yi), !orb_false_r. auto.
  - destruct R as [Es [Q [Hn _]]]. rewrite Es. cbn [new_flw f_poisoned]. unfold query. cbn [new_flw f_cfg f_inner]. rewrite Hrot.
    unfold with_listing. rewrite (tick_quiet _ Q), existing_rot_empty by exact Hn.
    fold (new_flw c). cbv beta iota. rewrite (sys_eta x _ Es). exists []. split; [reflexivity|].
    unfold oracle_listing, expected_listing, snap_list, dir_names. rewrite Hn. reflexivity.
Qed.

Theorem timestamps_listing_exact c crit t0 off ops sel :
  tscfg c crit -> tag_ok c -> not_gz c -> Forall basic_op ops -> Forall tick_ok ops -> custom_ok_ts sel ->
  (0 <= t0 + ts_e c off)%Z -> (t0 + elapsed ops + ts_e c off < sec_max)%Z -> (N.of_nat (length ops) <= usize_max)%N ->
  let x := fst (run (sys0 t0 off) (OStart c :: ops)) in
  exists l, step x (OQuery sel) = (x, ObsList 0%N l)
            /\ oracle_listing sel c (snap_of x) l = true
            /\ sort_names l = expected_listing sel c (snap_of x).
Proof.
  intros Hcfg T G Hb Htk Hsel Hlo Hhi Hmax x. unfold x. clear x. cbn [run].
  destruct (step (sys0 t0 off) (OStart c)) as [x0 ob0] eqn:E0.
  pose proof (start_rel_ts c t0 off) as R0. rewrite E0 in R0. cbn [fst] in R0.
  assert (W0 : wnow (s_w x0) = t0) by (cbn in E0; injection E0 as <- _; reflexivity).
  assert (Y : years_ok (ts_e c off) t0 (t0 + elapsed ops)) by (split; assumption).
  pose proof (run_rel_ts c crit _ _ _ Hcfg T Y ops x0 None 0 R0 Hb Htk ltac:(lia) ltac:(cbn [Nat.add]; exact Hmax)) as [R1 W1].
  destruct (run x0 ops) as [x1 obs1]. cbn [fst snd] in *.
  destruct (query_relt c crit _ _ _ _ x1 _ sel Hcfg G Hsel Y ltac:(lia) R1) as [l [E O]]. exists l. split; [exact E|]. split; [exact O|].
  apply names_beq_eq. exact O.
Qed.
Print Assumptions timestamps_listing_exact.

Example timestamps_listing_instance :
  snd (step (fst (run (sys0 0 0) (OStart ext_c :: ext_ops))) (OQuery sel_all))
  = ObsList 0%N (List.map bs ["app_r1970-01-01_00-00-01.log"; "app_r1970-01-01_00-00-00.restart-0002.log";
                              "app_r1970-01-01_00-00-00.restart-0001.log"; "app_r1970-01-01_00-00-00.restart-0000.log";
                              "app_r1970-01-01_00-00-00.log"; "app_rCURRENT.log"]%string)
  /\ custom_ok_ts sel_all.
Proof. split; [vm_compute; reflexivity | exact I]. Qed.
