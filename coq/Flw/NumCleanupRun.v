(* Numbers naming with a cleanup strategy, part 3: the invariant NumKInv, one rotation (mount_next with cleanup),
   every history of basic operations, and the end-to-end theorem numbers_cleanup_stream:
   after the writer is stopped the directory holds exactly rCURRENT, the newest n closed files as plain files,
   the next m closed files as archives with the same content, nothing else. *)
Require Import FL.Base.Bytes FL.Base.BytesFacts FL.Base.PathName FL.Fs.Fs FL.Fs.FsFacts FL.Time.Civil FL.Time.TsFormat
  FL.Names.FileSpec FL.Names.NamesFacts FL.Names.SortFacts FL.Names.FamilyFacts FL.Flw.Model FL.Flw.ModelFacts FL.Flw.NumFs
  FL.Flw.NumInv FL.Flw.Run FL.Flw.RunFacts FL.Flw.NumRun FL.Oracles.O_Flw FL.Flw.NumTheorems FL.Flw.NumListing FL.Flw.CleanupFacts
  FL.Flw.NumCleanupNames FL.Flw.NumCleanupStep.
From Coq Require Import ZifyN ZifyNat ZifyBool.
Open Scope nat_scope.

(* ------------------------------------------------------------------ configurations, limits, shape *)
Definition numkcfg (c : config) (crit : criterion) (k : cleanup) : Prop :=
  c_rot c = Some (crit, NNumbers, k) /\ fts (c_spec c) = false /\ c_symlink c = false /\ c_async c = false
  /\ c_bg c = false.

(* side condition, needed only when there is a cleanup: the suffix is not (and does not end with .)gz.  There is no
   condition on the number L of closed files any more (the listing is ordered by the NUMBER of the infix); the argument is
   kept for the statements that mention it *)
Definition kside (c : config) (k : cleanup) (L : nat) : Prop :=
  match klim k with None => True | Some _ => sfx_ok (c_spec c) end.

(* with L closed files: the archives are lo <= i < mid, the plain files mid <= i < L *)
Definition k_lo (k : cleanup) (L : nat) : nat := match klim k with None => 0 | Some (n, m) => L - (n + m) end.
Definition k_mid (k : cleanup) (L : nat) : nat := match klim k with None => 0 | Some (n, m) => L - n end.
Definition knew_lo (k : cleanup) (lo L : nat) : nat := match klim k with None => lo | Some (n, m) => Nat.max lo (L - (n + m)) end.
Definition knew_mid (k : cleanup) (mid L : nat) : nat := match klim k with None => mid | Some (n, m) => Nat.max mid (L - n) end.

Lemma knew_lo_step k L : knew_lo k (k_lo k L) (S L) = k_lo k (S L).
Proof. unfold knew_lo, k_lo. destruct (klim k) as [[n m]|]; lia. Qed.
Lemma knew_mid_step k L : knew_mid k (k_mid k L) (S L) = k_mid k (S L).
Proof. unfold knew_mid, k_mid. destruct (klim k) as [[n m]|]; lia. Qed.
Lemma k_lo_0 k : k_lo k 0 = 0.
Proof. unfold k_lo. destruct (klim k) as [[n m]|]; reflexivity. Qed.
Lemma k_mid_0 k : k_mid k 0 = 0.
Proof. unfold k_mid. destruct (klim k) as [[n m]|]; reflexivity. Qed.
Lemma kside_le c k L L' : L <= L' -> kside c k L' -> kside c k L.
Proof. intros _ H. exact H. Qed.

Lemma gname_ne_rname c i j : gname c i <> rname c j.
Proof.
  rewrite gname_app, !rname_shape, <- !app_assoc. intros H. apply app_inv_head in H. cbn [app] in H. injection H as H.
  unfold sfxs in H. destruct (fsfx (c_spec c)) as [s|].
  - unfold dot_gz in H. cbn [app] in H.
    apply first_dot_unique in H; [|apply digs_no; reflexivity | apply digs_no; reflexivity].
    destruct H as [_ H]. apply (f_equal (@length N)) in H. rewrite app_length in H. cbn [length] in H. lia.
  - rewrite !app_nil_r in H. unfold dot_gz in H. apply (digs_no dot (N.of_nat j)); [reflexivity|]. rewrite <- H.
    apply in_or_app. right. left. reflexivity.
Qed.

(* ------------------------------------------------------------------ the invariant *)
Record NumKInv (c : config) (w : world) (wr : writer) (closed : list bytes) (lo mid : nat) : Prop := {
  nk_quiet : quiet w;
  nk_wf : fs_wf (wfs w);
  nk_cur : lookup (wfs w) (cname c) = Some (wino wr);
  nk_curplain : plain (inode (wfs w) (wino wr));
  nk_dir : kdir c (wfs w) closed lo mid;
  nk_wr : wr_ok wr;
  nk_cap : wcap wr = c_cap c }.

Definition mk_rsk (k : cleanup) (ns : naming_state) (r : roll_state) : rot_state :=
  {| rs_naming := ns; rs_roll := r; rs_cleanup := k; rs_bg := false |}.
Definition st_ofk (c : config) (k : cleanup) (n : nat) (roll : roll_state) (wr : writer) : flw :=
  {| f_cfg := c; f_inner := Active (Some (mk_rsk k (NSNumR (N.of_nat n)) roll)) wr (cname c); f_poisoned := false |}.

(* ---- the cleanup keeps the invariant and moves the limits ---- *)
Lemma cleanup_impl_never c w flt d : cleanup_impl c w KNever flt d = (Ok tt, w).
Proof. reflexivity. Qed.
Lemma klim_none k : klim k = None -> k = KNever.
Proof. destruct k; cbn; congruence. Qed.

Lemma cleanup_k c crit k w wr closed lo mid :
  numkcfg c crit k -> kside c k (length closed) -> NumKInv c w wr closed lo mid ->
  exists w', cleanup_impl c w k IFNum None = (Ok tt, w') /\ same_env w w'
    /\ NumKInv c w' wr closed (knew_lo k lo (length closed)) (knew_mid k mid (length closed))
    /\ cur_view w' wr = cur_view w wr.
Proof.
  intros (Hrot & Hts & Hlink & Has & Hbg) Hside I. pose proof I as [Q W Hc Hcp KD Hwr Hcap].
  unfold kside, knew_lo, knew_mid in *. destruct (klim k) as [[n m]|] eqn:Ek.
  - pose proof Hside as Hsfx.
    destruct (cleanup_numbers c w k n m closed lo mid Hts Hsfx Ek Q W KD) as (w' & E & S & W' & KD' & SC).
    destruct (same_at_content _ _ _ _ SC Hc) as [Lc' Ic'].
    exists w'. split; [exact E|]. split; [exact S|]. split.
    + constructor; auto; [apply S | rewrite Ic'; exact Hcp].
    + unfold cur_view, content. rewrite Ic'. reflexivity.
  - apply klim_none in Ek. subst k. exists w. split; [reflexivity|]. split; [apply same_env_refl; exact Q|]. split; [exact I | reflexivity].
Qed.

(* ---- the file system after rename + create + flush of the old writer ---- *)
Lemma kdir_rotate c f closed lo mid old pend now :
  fs_wf f -> kdir c f closed lo mid -> lookup f (cname c) = Some old -> plain (inode f old) ->
  lookup f (rname c (length closed)) = None /\
  exists f1, rename f (cname c) (rname c (length closed)) = Some f1 /\ lookup f1 (cname c) = None /\
    let f3 := append_ino (fst (create_file f1 (cname c) 0%N now)) old pend in
    let new := snd (create_file f1 (cname c) 0%N now) in
    fs_wf f3 /\ lookup f3 (cname c) = Some new /\ inode f3 new = fresh_file now
    /\ kdir c f3 (closed ++ [content f old ++ pend]) lo mid.
Proof.
  intros W KD Hc Hcp. pose proof KD as [Hle Hnd Hp Ha Hon]. set (L := length closed) in *.
  assert (Ht : lookup f (rname c L) = None).
  { destruct (lookup f (rname c L)) as [j|] eqn:E; [|reflexivity].
    destruct (Hon _ _ E) as [E1|[(i & Hi & E1)|(i & Hi & E1)]].
    - exfalso; exact (rname_not_cname _ _ E1).
    - apply rname_inj in E1. lia.
    - symmetry in E1. exfalso. exact (gname_ne_rname _ _ _ E1). }
  split; [exact Ht|].
  destruct (rotate_fs_spec f (cname c) (rname c L) old pend now W (fun E => rname_not_cname c _ (eq_sym E)) Hc Ht) as [f1 [Er R]].
  cbn zeta in R. destruct R as [L1c [Hino1 [W3 [Hnew [L3c [L3t [L3o [Hlen [Inew [Iold Ioth]]]]]]]]]].
  exists f1. split; [exact Er|]. split; [exact L1c|]. cbn zeta.
  set (new := snd (create_file f1 (cname c) 0%N now)) in *.
  set (f3 := append_ino (fst (create_file f1 (cname c) 0%N now)) old pend) in *.
  split; [exact W3|]. split; [exact L3c|]. split; [exact Inew|].
  pose proof (wf_bound _ W _ _ Hc) as Hold.
  assert (Keep : forall x j, x <> cname c -> x <> rname c L -> lookup f x = Some j ->
                 lookup f3 x = Some j /\ inode f3 j = inode f j).
  { intros x j H1 H2 Lj. split; [rewrite L3o by assumption; exact Lj|]. apply Ioth.
    - pose proof (wf_bound _ W _ _ Lj). rewrite Hnew. lia.
    - intros ->. apply H1. exact (wf_inj _ W _ _ _ Lj Hc). }
  constructor.
  - rewrite app_length. cbn [length]. fold L. lia.
  - apply nd_append. apply nd_create; [exact L1c|]. eapply nd_rename; eassumption.
  - intros i Hi. rewrite app_length in Hi. cbn [length] in Hi. fold L in Hi.
    destruct (Nat.eq_dec i L) as [->|Hne].
    + exists old. split; [exact L3t|]. split.
      * rewrite Iold. exact Hcp.
      * unfold content at 1. rewrite Iold. cbn [with_data fdata]. unfold L. rewrite app_nth2, Nat.sub_diag by lia. reflexivity.
    + destruct (Hp i ltac:(lia)) as (j & Lj & Pj & Cj).
      destruct (Keep (rname c i) j) as [Lj' Ij']; [apply rname_not_cname | intros E; apply rname_inj in E; lia | exact Lj|].
      exists j. split; [exact Lj'|]. unfold content. rewrite Ij'. split; [exact Pj|]. rewrite app_nth1 by (fold L; lia). exact Cj.
  - intros i Hi. destruct (Ha i Hi) as (j & Lj & Dj & Gj & Fj).
    destruct (Keep (gname c i) j) as [Lj' Ij']; [apply gname_not_cname | apply gname_ne_rname | exact Lj|].
    exists j. rewrite Ij'. split; [exact Lj'|]. split; [|auto]. rewrite app_nth1 by (fold L; lia). exact Dj.
  - intros x j Hx. rewrite app_length. cbn [length]. fold L.
    destruct (beq_spec x (cname c)) as [->|Hn1]; [left; reflexivity|].
    destruct (beq_spec x (rname c L)) as [->|Hn2].
    + right. left. exists L. split; [lia | reflexivity].
    + rewrite L3o in Hx by assumption. destruct (Hon _ _ Hx) as [E|[(i & Hi & E)|(i & Hi & E)]]; [contradiction| |].
      * right. left. exists i. split; [lia | exact E].
      * right. right. exists i. split; [lia | exact E].
Qed.

(* the rotation state after a rotation at time t, and at initialisation *)
Definition roll_reset (r : roll_state) (t : Z) : roll_state :=
  match r with RSize max _ => RSize max 0 | RAge a _ => RAge a t | RAgeSize a _ max _ => RAgeSize a t max 0 end.
Definition roll_init (crit : criterion) (t : Z) : roll_state :=
  match crit with CSize n => RSize n 0 | CAge a => RAge a t | CAgeOrSize a n => RAgeSize a t n 0 end.

(* ---- one rotation ---- *)
Lemma mount_next_rotates_k c crit k w wr closed roll force :
  numkcfg c crit k -> kside c k (S (length closed)) ->
  NumKInv c w wr closed (k_lo k (length closed)) (k_mid k (length closed)) ->
  force || rotation_necessary w roll = true ->
  exists w' wr' roll',
    mount_next c w (Active (Some (mk_rsk k (NSNumR (N.of_nat (length closed))) roll)) wr (cname c)) force
      = (Ok tt, w', Active (Some (mk_rsk k (NSNumR (N.of_nat (length (closed ++ [cur_view w wr])))) roll')) wr' (cname c))
    /\ NumKInv c w' wr' (closed ++ [cur_view w wr]) (k_lo k (S (length closed))) (k_mid k (S (length closed)))
    /\ cur_view w' wr' = [] /\ roll_size_ok roll' 0 /\ same_env w w'
    /\ (forall m cur, roll = RSize m cur -> exists cur', roll' = RSize m cur')
    /\ roll' = roll_reset roll (wnow w).
Proof.
  intros Hcfg Hside I Hnec. pose proof Hcfg as (Hrot & Hts & Hlink & Has & Hbg).
  pose proof I as [Q W Hc Hcp KD Hwr Hcap].
  unfold mount_next. cbn [mk_rsk rs_roll rs_naming rs_cleanup rs_bg]. rewrite Hnec.
  unfold index_for_rcurrent. rewrite !(name_of_fixed c w) by assumption.
  fold (nm c cur_infix) (nm c (number_infix (N.of_nat (length closed)))).
  fold (cname c) (rname c (length closed)).
  destruct (kdir_rotate c (wfs w) closed _ _ (wino wr) (wpend wr) (wnow w) W KD Hc Hcp) as (Ht & f1 & Er & L1c & R).
  cbn zeta in R. destruct R as (W3 & L3c & Inew & KD3).
  pose proof (p_rename_quiet w (cname c) (rname c (length closed)) Q) as PR. rewrite Er in PR.
  destruct PR as [w1 [Epr [F1 S1]]]. rewrite Epr.
  (* open the new current file *)
  unfold open_log_file. rewrite (name_of_fixed c w1) by assumption. fold (nm c cur_infix) (cname c).
  unfold do_symlink. rewrite Hlink.
  assert (D1 : match file_of (wfs w1) (cname c) with Some fl => fdir fl = false | None => True end).
  { unfold file_of. rewrite F1, L1c. exact Logic.I. }
  destruct (p_open_quiet w1 (cname c) (c_append c) (proj1 S1) D1) as [w2 [Eop [F2 S2]]]. rewrite Eop.
  assert (Eopen : (if c_append c then open_append (wfs w1) (cname c) (wnow w1) else open_trunc (wfs w1) (cname c) 0%N (wnow w1))
                  = create_file f1 (cname c) 0%N (wnow w)).
  { rewrite F1. destruct S1 as [_ [-> _]]. destruct (c_append c); [apply open_append_fresh | apply open_trunc_fresh]; exact L1c. }
  rewrite Eopen in *. clear Eopen.
  (* the old writer is dropped *)
  unfold w_drop. destruct (w_flush_quiet w2 wr (proj1 S2)) as [w3 [Efl [F3 S3]]]. rewrite Efl. cbn [fst snd].
  change (w_flush w3 {| wino := wino wr; wpend := []; wcap := wcap wr |})
    with (true, w3, {| wino := wino wr; wpend := []; wcap := wcap wr |}). cbn [fst snd].
  unfold cleanup_or_queue. cbn [ns_filter ns_writes_direct].
  set (new := snd (create_file f1 (cname c) 0%N (wnow w))) in *.
  set (f3 := append_ino (fst (create_file f1 (cname c) 0%N (wnow w))) (wino wr) (wpend wr)) in *.
  assert (F3' : wfs w3 = f3) by (rewrite F3, F2; reflexivity).
  set (wr' := {| wino := new; wpend := []; wcap := c_cap c |}).
  assert (SE : same_env w w3) by (eapply same_env_trans; [eapply same_env_trans|]; eassumption).
  assert (I3 : NumKInv c w3 wr' (closed ++ [cur_view w wr]) (k_lo k (length closed)) (k_mid k (length closed))).
  { constructor.
    - exact (proj1 S3).
    - rewrite F3'. exact W3.
    - rewrite F3'. exact L3c.
    - rewrite F3'. cbn [wr' wino]. rewrite Inew. split; reflexivity.
    - rewrite F3'. exact KD3.
    - unfold wr_ok, wr'. cbn. destruct (c_cap c); [lia | reflexivity].
    - reflexivity. }
  assert (Elen : length (closed ++ [cur_view w wr]) = S (length closed)) by (rewrite app_length; cbn [length]; lia).
  assert (Hside' : kside c k (length (closed ++ [cur_view w wr]))) by (rewrite Elen; exact Hside).
  destruct (cleanup_k c crit k w3 wr' _ _ _ Hcfg Hside' I3) as (w4 & Ecl & S4 & I4 & V4).
  rewrite Ecl. rewrite Elen, knew_lo_step, knew_mid_step in I4.
  exists w4, wr', (reset_size_and_date w3 roll (cname c)).
  split. { rewrite Elen. replace (N.of_nat (S (length closed))) with (N.of_nat (length closed) + 1)%N by lia. reflexivity. }
  split; [exact I4|].
  split. { rewrite V4. unfold cur_view. rewrite F3'. cbn [wr' wino wpend]. unfold content. rewrite Inew. reflexivity. }
  split. { destruct roll; cbn; auto. }
  split; [eapply same_env_trans; eassumption|].
  split; [intros m cur ->; cbn; eauto|].
  assert (B : birth_or_now w3 (cname c) = wnow w).
  { unfold birth_or_now, file_of. rewrite F3', L3c. fold new. rewrite Inew. reflexivity. }
  unfold reset_size_and_date. rewrite B. destruct roll; reflexivity.
Qed.

(* ---- appending to the current inode keeps the invariant ---- *)
Lemma numkinv_append c w w' wr wr' closed lo mid x :
  NumKInv c w wr closed lo mid -> wfs w' = append_ino (wfs w) (wino wr) x -> same_env w w' ->
  wino wr' = wino wr -> wcap wr' = wcap wr -> wr_ok wr' ->
  NumKInv c w' wr' closed lo mid /\ content (wfs w') (wino wr') = content (wfs w) (wino wr) ++ x.
Proof.
  intros [Q W Hc Hcp KD Hwr Hcap] F SE Ei Ec Hok. destruct KD as [Hle Hnd Hp Ha Hon].
  pose proof (wf_bound _ W _ _ Hc) as Hold.
  assert (Oth : forall n j, n <> cname c -> lookup (wfs w) n = Some j -> inode (wfs w') j = inode (wfs w) j).
  { intros n j Hn Lj. rewrite F, inode_append by assumption. destruct (Nat.eqb_spec j (wino wr)) as [->|_]; [|reflexivity].
    exfalso. apply Hn. exact (wf_inj _ W _ _ _ Lj Hc). }
  split.
  - constructor.
    + exact (proj1 SE).
    + rewrite F. apply wf_append. exact W.
    + rewrite F, lookup_append, Ei. exact Hc.
    + rewrite F, Ei, inode_append, Nat.eqb_refl by assumption. exact Hcp.
    + constructor.
      * exact Hle.
      * rewrite F. apply nd_append. exact Hnd.
      * intros i Hi. destruct (Hp i Hi) as (j & Lj & Pj & Cj). exists j. rewrite F, lookup_append. split; [exact Lj|].
        unfold content. rewrite <- F, (Oth _ _ (rname_not_cname c i) Lj). auto.
      * intros i Hi. destruct (Ha i Hi) as (j & Lj & R). exists j. rewrite F, lookup_append. split; [exact Lj|].
        rewrite <- F, (Oth _ _ (gname_not_cname c i) Lj). exact R.
      * intros n j. rewrite F, lookup_append. apply Hon.
    + exact Hok.
    + congruence.
  - rewrite F, Ei, content_append, Nat.eqb_refl by assumption. reflexivity.
Qed.

(* ---- a write on an active writer ---- *)
Lemma write_active_k c crit k w wr closed roll b :
  numkcfg c crit k -> NumKInv c w wr closed (k_lo k (length closed)) (k_mid k (length closed)) ->
  roll_size_ok roll (length (cur_view w wr)) ->
  let rot := rotation_necessary w roll in
  (rot = true -> kside c k (S (length closed))) ->
  exists w' wr' roll' closed',
    write_buffer (st_ofk c k (length closed) roll wr) w b = (Ok tt, w', st_ofk c k (length closed') roll' wr', rot)
    /\ NumKInv c w' wr' closed' (k_lo k (length closed')) (k_mid k (length closed'))
    /\ roll_size_ok roll' (length (cur_view w' wr')) /\ same_env w w'
    /\ (closed', cur_view w' wr') = (if rot then (closed ++ [cur_view w wr], b) else (closed, cur_view w wr ++ b))
    /\ (forall m cur, roll = RSize m cur -> exists cur', roll' = RSize m cur')
    /\ roll' = increase_size (if rot then roll_reset roll (wnow w) else roll) (N.of_nat (length b)).
Proof.
  intros Hcfg I Hsz rot Hside.
  unfold write_buffer, st_ofk. cbn [f_cfg f_inner f_poisoned mk_rsk rs_roll]. fold rot.
  assert (M : exists w1 wr1 roll1 closed1,
            mount_next c w (Active (Some (mk_rsk k (NSNumR (N.of_nat (length closed))) roll)) wr (cname c)) false
            = (Ok tt, w1, Active (Some (mk_rsk k (NSNumR (N.of_nat (length closed1))) roll1)) wr1 (cname c))
            /\ NumKInv c w1 wr1 closed1 (k_lo k (length closed1)) (k_mid k (length closed1))
            /\ roll_size_ok roll1 (length (cur_view w1 wr1)) /\ same_env w w1
            /\ (closed1, cur_view w1 wr1) = (if rot then (closed ++ [cur_view w wr], []) else (closed, cur_view w wr))
            /\ (forall m cur, roll = RSize m cur -> exists cur', roll1 = RSize m cur')
            /\ roll1 = (if rot then roll_reset roll (wnow w) else roll)).
  { destruct rot eqn:Er.
    - destruct (mount_next_rotates_k c crit k w wr closed roll false Hcfg (Hside eq_refl) I) as [w1 [wr1 [roll1 [E [I1 [V1 [Z1 [S1 [R1 RR1]]]]]]]]]; [exact Er|].
      exists w1, wr1, roll1, (closed ++ [cur_view w wr]). rewrite V1.
      assert (Elen : length (closed ++ [cur_view w wr]) = S (length closed)) by (rewrite app_length; cbn [length]; lia).
      split; [exact E|]. split; [rewrite Elen; exact I1|]. split; [exact Z1|]. split; [exact S1|]. split; [reflexivity|]. split; [exact R1 | exact RR1].
    - exists w, wr, roll, closed. split.
      + unfold mount_next. cbn [mk_rsk rs_roll orb]. unfold rot in Er. rewrite Er. reflexivity.
      + split; [exact I|]. split; [exact Hsz|]. split; [apply same_env_refl; apply I|]. split; [reflexivity|]. split; [eauto | reflexivity]. }
  destruct M as [w1 [wr1 [roll1 [closed1 [E [I1 [Z1 [S1 [V1 [R1 RR1]]]]]]]]]].
  rewrite E.
  destruct (w_write_quiet w1 wr1 b (nk_quiet _ _ _ _ _ _ I1) (nk_wr _ _ _ _ _ _ I1)) as [w2 [wr2 [fl [Ew [S2 [F2 [Ei [Ec [Ep Hok]]]]]]]]].
  rewrite Ew.
  destruct (numkinv_append c w1 w2 wr1 wr2 closed1 _ _ fl I1 F2 S2 Ei Ec Hok) as [I2 C2].
  exists w2, wr2, (increase_size roll1 (N.of_nat (length b))), closed1.
  assert (V2 : cur_view w2 wr2 = cur_view w1 wr1 ++ b).
  { unfold cur_view. rewrite C2, <- !app_assoc, Ep. reflexivity. }
  split; [reflexivity|]. split; [exact I2|].
  split. { rewrite V2, app_length. apply roll_size_increase. exact Z1. }
  split; [eapply same_env_trans; eassumption|].
  split. { rewrite V2. destruct rot; injection V1 as -> ->; reflexivity. }
  split; [intros m cur Hr; destruct (R1 m cur Hr) as [cur' ->]; cbn; eauto|].
  rewrite RR1. reflexivity.
Qed.

(* ---- flush ---- *)
Lemma flush_active_k c k w wr closed lo mid roll :
  NumKInv c w wr closed lo mid ->
  exists w' wr', flush_state (st_ofk c k (length closed) roll wr) w = (true, w', st_ofk c k (length closed) roll wr')
    /\ NumKInv c w' wr' closed lo mid /\ cur_view w' wr' = cur_view w wr /\ wpend wr' = [] /\ same_env w w'.
Proof.
  intros I. unfold flush_state, st_ofk. cbn [f_inner].
  destruct (w_flush_quiet w wr (nk_quiet _ _ _ _ _ _ I)) as [w1 [E [F S]]]. rewrite E.
  set (wr' := {| wino := wino wr; wpend := []; wcap := wcap wr |}).
  assert (Hok : wr_ok wr') by (unfold wr_ok, wr'; cbn; destruct (wcap wr); [lia | reflexivity]).
  destruct (numkinv_append c w w1 wr wr' closed lo mid (wpend wr) I F S eq_refl eq_refl Hok) as [I1 C1].
  exists w1, wr'. split; [reflexivity|]. split; [exact I1|]. split; [|split; [reflexivity | exact S]].
  unfold cur_view. rewrite C1. cbn [wr' wpend]. rewrite app_nil_r. reflexivity.
Qed.

(* ---- the first write initialises the writer on the empty directory; the initial cleanup finds nothing ---- *)
Lemma initialize_empty_k c crit k w :
  numkcfg c crit k -> kside c k 0 -> quiet w -> names (wfs w) = [] -> inodes (wfs w) = [] ->
  exists w' wr roll,
    initialize c w = (Ok (Active (Some (mk_rsk k (NSNumR 0) roll)) wr (cname c)), w')
    /\ NumKInv c w' wr [] 0 0 /\ cur_view w' wr = [] /\ roll_size_ok roll 0 /\ same_env w w'
    /\ (forall m, crit = CSize m -> roll = RSize m 0)
    /\ roll = roll_init crit (wnow w).
Proof.
  intros Hcfg Hside Q Hn Hi. pose proof Hcfg as (Hrot & Hts & Hlink & Has & Hbg).
  unfold initialize. rewrite Hrot. unfold init_naming, index_for_rcurrent, with_listing.
  rewrite tick_quiet by assumption.
  unfold get_highest_index, list_log_gz. rewrite existing_rot_empty by assumption. cbn [filter_map_opt max_opt bind].
  assert (E0 : (if negb (c_append c)
                then let '(r, w1) := p_rename w (name_of c w (Some cur_infix)) (name_of c w (Some (number_infix 0))) in
                     match r with ROk => (Ok (0 + 1)%N, w1) | RNotFound => (Ok 0%N, w1) | RErr => (Err, w1) end
                else (Ok 0%N, w)) = (Ok 0%N, w)).
  { destruct (negb (c_append c)); [|reflexivity].
    pose proof (p_rename_quiet w (name_of c w (Some cur_infix)) (name_of c w (Some (number_infix 0))) Q) as PR.
    rewrite rename_none in PR by (apply lookup_empty; assumption). rewrite PR. reflexivity. }
  rewrite E0. cbn [bind].
  unfold open_log_file. rewrite (name_of_fixed c w) by assumption. fold (nm c cur_infix) (cname c).
  unfold do_symlink. rewrite Hlink.
  assert (D1 : match file_of (wfs w) (cname c) with Some fl => fdir fl = false | None => True end).
  { unfold file_of. rewrite lookup_empty by assumption. exact Logic.I. }
  destruct (p_open_quiet w (cname c) (c_append c) Q D1) as [w2 [Eop [F2 S2]]]. rewrite Eop.
  assert (Eopen : (if c_append c then open_append (wfs w) (cname c) (wnow w) else open_trunc (wfs w) (cname c) 0%N (wnow w))
                  = create_file (wfs w) (cname c) 0%N (wnow w)).
  { destruct (c_append c); [apply open_append_fresh | apply open_trunc_fresh]; apply lookup_empty; assumption. }
  rewrite Eopen in *. clear Eopen. cbn [bind fst snd].
  unfold create_file in F2. cbn [fst snd] in F2. rewrite Hn, Hi in F2. cbn [length app] in F2.
  unfold create_file. cbn [snd]. rewrite Hi. cbn [length].
  set (wr := {| wino := 0; wpend := []; wcap := c_cap c |}).
  assert (Lc : lookup (wfs w2) (cname c) = Some 0) by (rewrite F2; unfold lookup; cbn; rewrite beq_refl; reflexivity).
  assert (Fo : file_of (wfs w2) (cname c) = Some (fresh_file (wnow w))) by (unfold file_of; rewrite Lc, F2; reflexivity).
  assert (RN : exists roll, roll_new w2 crit (c_append c) (cname c) = (Ok roll, w2) /\ roll_size_ok roll 0
               /\ (forall m, crit = CSize m -> roll = RSize m 0) /\ roll = roll_init crit (wnow w)).
  { assert (B : birth_or_now w2 (cname c) = wnow w) by (unfold birth_or_now; rewrite Fo; reflexivity).
    unfold roll_new. destruct (c_append c).
    - rewrite tick_quiet by apply S2. rewrite Fo. cbn [fresh_file fdata length]. rewrite B.
      eexists. split; [reflexivity|]. split; [destruct crit; reflexivity|]. split; [intros m ->; reflexivity | destruct crit; reflexivity].
    - rewrite B. eexists. split; [reflexivity|]. split; [destruct crit; reflexivity|]. split; [intros m ->; reflexivity | destruct crit; reflexivity]. }
  destruct RN as [roll [Ern [Z [R RI]]]]. rewrite Ern. cbn [bind].
  assert (I2 : NumKInv c w2 wr [] 0 0).
  { constructor.
    - apply S2.
    - rewrite F2. split.
      + intros a j. unfold lookup; cbn. destruct (beq (cname c) a); [|discriminate]. intros E; injection E as <-. lia.
      + intros a b j. unfold lookup; cbn. destruct (beq_spec (cname c) a), (beq_spec (cname c) b); try discriminate. congruence.
    - exact Lc.
    - rewrite F2. split; reflexivity.
    - constructor.
      + cbn [length]. lia.
      + rewrite F2. unfold nodup_names, dir_names. cbn [names map fst]. constructor; [intros [] | constructor].
      + cbn [length]. intros i Hi'. lia.
      + intros i Hi'. lia.
      + intros n j. rewrite F2. unfold lookup; cbn. destruct (beq_spec (cname c) n); [auto | discriminate].
    - unfold wr_ok, wr. cbn. destruct (c_cap c); [lia | reflexivity].
    - reflexivity. }
  (* the initial cleanup *)
  assert (Ecl : forall d, match k with KNever => (Ok tt, w2) | _ => cleanup_impl c w2 k (ns_filter (NSNumR 0)) (if naming_writes_direct NNumbers then Some d else None) end
                = cleanup_impl c w2 k IFNum None) by (intros d; destruct k; reflexivity).
  rewrite Ecl. clear Ecl.
  destruct (cleanup_k c crit k w2 wr [] 0 0 Hcfg Hside I2) as (w4 & E4 & S4 & I4 & V4). rewrite E4. cbn [bind].
  assert (Ebg : match k with KNever => false | _ => c_bg c end = false) by (destruct k; auto).
  rewrite Ebg.
  assert (Z0 : knew_lo k 0 (length (@nil bytes)) = 0 /\ knew_mid k 0 (length (@nil bytes)) = 0).
  { unfold knew_lo, knew_mid. destruct (klim k) as [[n m]|]; cbn [length]; split; lia. }
  destruct Z0 as [Z1 Z2]. rewrite Z1, Z2 in I4.
  exists w4, wr, roll. split; [reflexivity|]. split; [exact I4|].
  split. { rewrite V4. unfold cur_view, content, inode. rewrite F2. reflexivity. }
  split; [exact Z|]. split; [eapply same_env_trans; eassumption|]. split; [exact R | exact RI].
Qed.

(* ------------------------------------------------------------------ the run *)
Definition nclosed (a : aview) : nat := match a with Some (cl, _) => length cl | None => 0 end.

Definition RelK (c : config) (crit : criterion) (k : cleanup) (x : sys) (a : aview) : Prop :=
  s_tl x = [] /\ wacts (s_w x) = 0 /\
  match a with
  | None => s_flw x = Some (new_flw c) /\ quiet (s_w x) /\ names (wfs (s_w x)) = [] /\ inodes (wfs (s_w x)) = []
  | Some (closed, cur) =>
    exists wr roll, s_flw x = Some (st_ofk c k (length closed) roll wr)
      /\ NumKInv c (s_w x) wr closed (k_lo k (length closed)) (k_mid k (length closed))
      /\ cur_view (s_w x) wr = cur /\ roll_size_ok roll (length cur)
      /\ (forall m, crit = CSize m -> exists z, roll = RSize m z)
  end.

Lemma nclosed_step a o rot : nclosed a <= nclosed (a_step a o rot).
Proof.
  destruct o; cbn [a_step]; try lia.
  - destruct a as [[cl cu]|]; destruct rot; cbn [nclosed]; rewrite ?app_length; cbn [length]; lia.
  - destruct a as [[cl cu]|]; destruct rot; cbn [nclosed]; rewrite ?app_length; cbn [length]; lia.
  - destruct a as [[cl cu]|]; cbn [nclosed]; rewrite ?app_length; cbn [length]; lia.
Qed.
Lemma nclosed_run : forall ops a obs, nclosed a <= nclosed (a_run a ops obs).
Proof.
  induction ops as [|o r IH]; intros a obs; cbn [a_run]; [lia|]. destruct obs as [|ob robs]; [lia|].
  eapply Nat.le_trans; [apply (nclosed_step a o (rot_of ob)) | apply IH].
Qed.

(* the rotation flag that write_buffer reports is decided before anything else happens *)
Lemma write_buffer_rotflag c k L roll wr w b :
  snd (write_buffer (st_ofk c k L roll wr) w b) = rotation_necessary w roll.
Proof.
  unfold write_buffer, st_ofk. cbn [f_cfg f_inner mk_rsk rs_roll].
  destruct (mount_next c w (Active (Some (mk_rsk k (NSNumR (N.of_nat L)) roll)) wr (cname c)) false) as [[r1 w1] st1].
  destruct r1; try reflexivity; destruct st1 as [|o_rot wr1 p1]; try reflexivity;
    destruct (w_write _ wr1 b) as [[ok w3] wr3]; destruct ok; reflexivity.
Qed.

(* the trace of the rotation state: what decides the rotation flags is the clock and the rotation state only *)
Definition roll_of_flw (s : flw) : option roll_state :=
  match f_inner s with Active (Some rs) _ _ => Some (rs_roll rs) | _ => None end.
Definition roll_of_sys (x : sys) : option roll_state :=
  match s_flw x with Some s => roll_of_flw s | None => None end.
Definition is_write (o : op) : option bytes := match o with OWrite b | OPlain b => Some b | _ => None end.
Definition flag_of (crit : criterion) (w : world) (ro : option roll_state) (o : op) : bool :=
  match is_write o with
  | Some _ => rotation_necessary w (match ro with Some r => r | None => roll_init crit (wnow w) end)
  | None => false
  end.
Definition ro_step (crit : criterion) (t : Z) (ro : option roll_state) (o : op) (flag : bool) : option roll_state :=
  match o with
  | OWrite b | OPlain b =>
    let r0 := match ro with Some r => r | None => roll_init crit t end in
    Some (increase_size (if flag then roll_reset r0 t else r0) (N.of_nat (length b)))
  | OTrigger => match ro with Some r => Some (roll_reset r t) | None => None end
  | _ => ro
  end.
Definition clock_step (o : op) (t : Z) : Z := match o with OTick dt => (t + dt)%Z | _ => t end.

Lemma rotation_necessary_env w w' r : wnow w' = wnow w -> woff w' = woff w -> rotation_necessary w' r = rotation_necessary w r.
Proof.
  intros H1 H2. unfold rotation_necessary, age_rotation_necessary, local_civil. rewrite H1, H2. reflexivity.
Qed.
Lemma same_env_clock w w' : same_env w w' -> wnow w' = wnow w /\ woff w' = woff w.
Proof. intros (_ & A & B & _). auto. Qed.

Lemma write_rel_k c crit k x a b :
  numkcfg c crit k -> RelK c crit k x a ->
  exists s, s_flw x = Some s /\ f_poisoned s = false /\
    let '(r, w', s', rot) := write_buffer s (s_w x) b in
    kside c k (nclosed (a_step a (OWrite b) rot)) ->
    r = Ok tt
    /\ RelK c crit k {| s_flw := Some s'; s_w := w'; s_tl := []; s_dead := s_dead x |} (a_step a (OWrite b) rot)
    /\ (forall m, crit = CSize m ->
          rot = (m <? N.of_nat (length (match a with Some (_, cu) => cu | None => [] end)))%N)
    /\ (rot = flag_of crit (s_w x) (roll_of_sys x) (OWrite b)
        /\ roll_of_flw s' = ro_step crit (wnow (s_w x)) (roll_of_sys x) (OWrite b) rot
        /\ wnow w' = wnow (s_w x) /\ woff w' = woff (s_w x)).
Proof.
  intros Hcfg [Ht [Ha R]]. destruct a as [[closed cur]|].
  - destruct R as [wr [roll [Es [I [V [Z RS]]]]]].
    rewrite <- V in Z.
    exists (st_ofk c k (length closed) roll wr). split; [exact Es|]. split; [reflexivity|].
    pose proof (write_buffer_rotflag c k (length closed) roll wr (s_w x) b) as RF.
    destruct (write_buffer (st_ofk c k (length closed) roll wr) (s_w x) b) as [[[r w'] s'] rot] eqn:E. cbn [snd] in RF. subst rot.
    intros Hside.
    assert (Hs : rotation_necessary (s_w x) roll = true -> kside c k (S (length closed))).
    { intros Er. rewrite Er in Hside. cbn [a_step nclosed] in Hside. rewrite app_length in Hside. cbn [length] in Hside.
      replace (length closed + 1) with (S (length closed)) in Hside by lia. exact Hside. }
    destruct (write_active_k c crit k (s_w x) wr closed roll b Hcfg I Z Hs) as [w1 [wr' [roll' [closed' [E' [I' [Z' [S' [V' [R' RR']]]]]]]]]].
    rewrite E in E'. injection E' as -> -> ->. split; [reflexivity|]. split; [|split].
    + split; [reflexivity|]. split; [cbn [s_w]; exact (same_env_acts _ _ S' Ha)|].
      cbn [a_step]. rewrite V in V'.
      destruct (rotation_necessary (s_w x) roll); injection V' as <- V''; (exists wr', roll'; cbn [s_flw s_w];
        split; [reflexivity|]; split; [exact I'|]; split; [exact V''|]; split; [rewrite <- V''; exact Z'|];
        intros m Hm; destruct (RS m Hm) as [z ->]; destruct (R' m z eq_refl) as [z' ->]; eauto).
    + intros m Hm. destruct (RS m Hm) as [z ->]. cbn in Z. subst z. rewrite V. reflexivity.
    + unfold roll_of_sys. rewrite Es. cbn [roll_of_flw st_ofk f_inner mk_rsk rs_roll flag_of is_write ro_step].
      split; [reflexivity|]. split; [rewrite RR'; reflexivity|]. apply same_env_clock. exact S'.
  - destruct R as [Es [Q [Hn Hi]]].
    exists (new_flw c). split; [exact Es|]. split; [reflexivity|].
    destruct (write_buffer (new_flw c) (s_w x) b) as [[[r w'] s'] rot] eqn:E. intros Hside.
    assert (Hs0 : kside c k 0) by (eapply kside_le; [|exact Hside]; lia).
    destruct (initialize_empty_k c crit k (s_w x) Hcfg Hs0 Q Hn Hi) as [w1 [wr [roll [Ei [I [V [Z [S1 [RS RI]]]]]]]]].
    rewrite (write_buffer_init c (s_w x) b _ _ _ w1 Ei) in E.
    change {| f_cfg := c; f_inner := Active (Some (mk_rsk k (NSNumR 0) roll)) wr (cname c); f_poisoned := false |}
      with (st_ofk c k (length (@nil bytes)) roll wr) in E.
    pose proof (write_buffer_rotflag c k (length (@nil bytes)) roll wr w1 b) as RF. rewrite E in RF. cbn [snd] in RF. subst rot.
    assert (Z0 : roll_size_ok roll (length (cur_view w1 wr))) by (rewrite V; exact Z).
    assert (Hs : rotation_necessary w1 roll = true -> kside c k (S (length (@nil bytes)))).
    { intros Er. rewrite Er in Hside. cbn [a_step nclosed app length] in Hside. exact Hside. }
    assert (I0 : NumKInv c w1 wr [] (k_lo k (length (@nil bytes))) (k_mid k (length (@nil bytes))))
      by (cbn [length]; rewrite k_lo_0, k_mid_0; exact I).
    destruct (write_active_k c crit k w1 wr [] roll b Hcfg I0 Z0 Hs) as [w2 [wr' [roll' [closed' [E' [I' [Z' [S' [V' [R' RR']]]]]]]]]].
    rewrite E in E'. injection E' as -> -> ->. split; [reflexivity|]. split; [|split].
    + split; [reflexivity|]. split; [cbn [s_w]; exact (same_env_acts _ _ (same_env_trans _ _ _ S1 S') Ha)|].
      cbn [a_step]. rewrite V in V'. cbn [app] in V'.
      destruct (rotation_necessary w1 roll); injection V' as <- V''; (exists wr', roll'; cbn [s_flw s_w];
        split; [reflexivity|]; split; [exact I'|]; split; [exact V''|]; split; [rewrite <- V''; exact Z'|]).
      * intros m Hm. rewrite (RS m Hm) in R'. destruct (R' m 0%N eq_refl) as [z' ->]; eauto.
      * intros m Hm. rewrite (RS m Hm) in R'. destruct (R' m 0%N eq_refl) as [z' ->]; eauto.
    + intros m Hm. rewrite (RS m Hm). reflexivity.
    + destruct (same_env_clock _ _ S1) as [C1 C2]. destruct (same_env_clock _ _ S') as [C3 C4].
      unfold roll_of_sys. rewrite Es. cbn [roll_of_flw new_flw st_ofk f_inner mk_rsk rs_roll flag_of is_write ro_step].
      rewrite <- RI. split; [apply rotation_necessary_env; assumption|]. split; [rewrite RR', C1; reflexivity|].
      split; congruence.
Qed.

Lemma numkinv_env c w w' wr closed lo mid : NumKInv c w wr closed lo mid -> wfs w' = wfs w -> quiet w' -> NumKInv c w' wr closed lo mid.
Proof. intros [Q W Hc Hcp KD Hwr Hcap] F Q'. constructor; try rewrite F; assumption. Qed.

Lemma step_sync_rel_k c crit k x a o : numkcfg c crit k -> RelK c crit k x a -> step x o = sync_step x o.
Proof.
  intros (_ & Hts & _ & Ha & _) [_ [_ R]].
  assert (E : exists s, s_flw x = Some s /\ f_cfg s = c).
  { destruct a as [[closed cur]|]; [destruct R as [wr [roll [Es _]]] | destruct R as [Es _]]; rewrite Es; eexists; split; reflexivity. }
  destruct E as [s [Es Ec]].
  rewrite step_plain by (intros s' Es'; rewrite Es in Es'; injection Es' as <-; rewrite Ec; exact Hts).
  unfold step_core. rewrite Es. unfold is_async. rewrite Ec, Ha. reflexivity.
Qed.

(* one basic operation: the relation is kept; the rotation flag, the next rotation state and the clock are functions of
   the clock and the rotation state before (the cleanup strategy and the directory play no role) *)
Definition trace_ok (crit : criterion) (x x' : sys) (o : op) (ob : obs) : Prop :=
  rot_of ob = flag_of crit (s_w x) (roll_of_sys x) o
  /\ roll_of_sys x' = ro_step crit (wnow (s_w x)) (roll_of_sys x) o (rot_of ob)
  /\ wnow (s_w x') = clock_step o (wnow (s_w x)) /\ woff (s_w x') = woff (s_w x).

Lemma step_rel_k c crit k x a o :
  numkcfg c crit k -> RelK c crit k x a -> basic_op o ->
  let '(x', ob) := step x o in
  kside c k (nclosed (a_step a o (rot_of ob))) ->
  RelK c crit k x' (a_step a o (rot_of ob))
  /\ (forall b m, (o = OWrite b \/ o = OPlain b) -> crit = CSize m ->
        ob = ObsRes 0 (m <? N.of_nat (length (match a with Some (_, cu) => cu | None => [] end)))%N)
  /\ trace_ok crit x x' o ob.
Proof.
  intros Hcfg R Hb. rewrite (step_sync_rel_k c crit k x a o Hcfg R). unfold trace_ok.
  destruct o; try contradiction; cbn [sync_step].
  - (* OWrite *)
    destruct (write_rel_k c crit k x a b Hcfg R) as [s [Es [Hp WR]]].
    rewrite Es, Hp. rewrite (proj1 R). cbn [app].
    destruct (write_buffer s (s_w x) b) as [[[r w'] s'] rot]. cbn [rot_of]. intros Hside.
    destruct (WR Hside) as (-> & R' & C & T). split; [exact R'|]. split.
    + intros b0 m _ Hm. rewrite (C m Hm). reflexivity.
    + cbn [s_w clock_step]. exact T.
  - (* OPlain *)
    destruct (write_rel_k c crit k x a b Hcfg R) as [s [Es [Hp WR]]].
    rewrite Es, Hp.
    destruct (write_buffer s (s_w x) b) as [[[r w'] s'] rot]. cbn [rot_of]. intros Hside.
    destruct (WR Hside) as (-> & R' & C & T). cbn [code_of]. rewrite (proj1 R). split; [exact R'|]. split.
    + intros b0 m _ Hm. rewrite (C m Hm). reflexivity.
    + cbn [s_w clock_step]. exact T.
  - (* OFlush *)
    destruct R as [Ht [Ha R]]. destruct a as [[closed cur]|].
    + destruct R as [wr [roll [Es [I [V [Z RS]]]]]]. unfold roll_of_sys. rewrite Es. cbn [st_ofk f_poisoned].
      destruct (flush_active_k c k (s_w x) wr closed _ _ roll I) as [w' [wr' [E [I' [V' [P' S']]]]]].
      fold (st_ofk c k (length closed) roll wr). rewrite E. cbn [rot_of a_step]. intros _.
      split; [|split; [intros b m [H|H]; discriminate|]].
      * split; [exact Ht|]. split; [exact (same_env_acts _ _ S' Ha)|]. exists wr', roll. cbn [s_flw s_w].
        split; [reflexivity|]. split; [exact I'|]. split; [congruence|]. split; assumption.
      * cbn [s_flw s_w]. split; [reflexivity|]. split; [reflexivity|]. apply same_env_clock. exact S'.
    + destruct R as [Es R]. unfold roll_of_sys. rewrite Es. cbn [new_flw f_poisoned flush_state f_inner rot_of a_step]. intros _.
      split; [|split; [intros b m [H|H]; discriminate|]].
      * split; [exact Ht|]. split; [exact Ha|]. split; [reflexivity | exact R].
      * cbn [s_flw s_w]. repeat split.
  - (* OTrigger *)
    destruct R as [Ht [Ha R]]. destruct a as [[closed cur]|].
    + destruct R as [wr [roll [Es [I [V [Z RS]]]]]]. unfold roll_of_sys. rewrite Es. cbn [st_ofk f_poisoned f_cfg f_inner].
      destruct (mount_next c (s_w x) (Active (Some (mk_rsk k (NSNumR (N.of_nat (length closed))) roll)) wr (cname c)) true)
        as [[r1 w1] st1] eqn:EM. cbn [rot_of a_step]. intros Hside.
      assert (Hs : kside c k (S (length closed))).
      { cbn [nclosed] in Hside. rewrite app_length in Hside. cbn [length] in Hside.
        replace (length closed + 1) with (S (length closed)) in Hside by lia. exact Hside. }
      destruct (mount_next_rotates_k c crit k (s_w x) wr closed roll true Hcfg Hs I eq_refl) as [w' [wr' [roll' [E [I' [V' [Z' [S' [R' RR']]]]]]]]].
      rewrite EM in E. injection E as -> -> ->. cbn [code_of with_inner f_cfg f_poisoned].
      split; [|split; [intros b m [H|H]; discriminate|]].
      * split; [exact Ht|]. split; [exact (same_env_acts _ _ S' Ha)|]. rewrite V in *. exists wr', roll'. cbn [s_flw s_w].
        assert (Elen : length (closed ++ [cur]) = S (length closed)) by (rewrite app_length; cbn [length]; lia).
        split; [reflexivity|]. split; [rewrite Elen; exact I'|]. split; [exact V'|]. split; [exact Z'|].
        intros m Hm. destruct (RS m Hm) as [z ->]. destruct (R' m z eq_refl) as [z' ->]. eauto.
      * cbn [s_flw s_w roll_of_flw f_inner mk_rsk rs_roll flag_of is_write ro_step clock_step].
        split; [reflexivity|]. split; [rewrite RR'; reflexivity|]. apply same_env_clock. exact S'.
    + destruct R as [Es R]. unfold roll_of_sys. rewrite Es.
      cbn [new_flw f_poisoned f_cfg f_inner mount_next with_inner rot_of a_step code_of]. intros _.
      split; [|split; [intros b m [H|H]; discriminate|]].
      * split; [exact Ht|]. split; [exact Ha|]. split; [reflexivity | exact R].
      * cbn [s_flw s_w]. repeat split.
  - (* OTick *)
    cbn [rot_of a_step]. intros _. split; [|split; [intros b m [H|H]; discriminate|]].
    + destruct R as [Ht [Ha R]]. split; [exact Ht|]. split; [exact Ha|]. destruct a as [[closed cur]|].
      * destruct R as [wr [roll [Es [I [V [Z RS]]]]]]. exists wr, roll. cbn [s_flw s_w].
        split; [exact Es|]. split; [apply (numkinv_env c (s_w x)); [exact I | reflexivity | apply I]|].
        split; [exact V|]. split; assumption.
      * cbn [s_flw s_w]. exact R.
    + unfold roll_of_sys. cbn [s_flw s_w set_now wnow woff]. repeat split.
  - (* OSnap *)
    cbn [rot_of a_step]. intros _. split; [exact R|]. split; [intros b m [H|H]; discriminate|]. repeat split.
Qed.

Lemma run_rel_k c crit k : numkcfg c crit k -> forall ops x a, RelK c crit k x a -> Forall basic_op ops ->
  kside c k (nclosed (a_run a ops (snd (run x ops)))) ->
  RelK c crit k (fst (run x ops)) (a_run a ops (snd (run x ops))).
Proof.
  intros Hcfg. induction ops as [|o r IH]; intros x a R Hb Hside; [exact R|].
  cbn [run] in *. inversion Hb as [|o' r' Ho Hr]; subst.
  pose proof (step_rel_k c crit k x a o Hcfg R Ho) as S. destruct (step x o) as [x1 ob].
  specialize (IH x1 (a_step a o (rot_of ob))). destruct (run x1 r) as [x2 obs]. cbn [fst snd a_run] in *.
  destruct S as [R1 _]; [eapply kside_le; [apply nclosed_run | exact Hside]|].
  apply IH; assumption.
Qed.

(* with a size criterion the abstract run is a function of the operations alone *)
Lemma run_size_k c k m : numkcfg c (CSize m) k -> forall ops x a, RelK c (CSize m) k x a -> Forall basic_op ops ->
  kside c k (nclosed (a_run a ops (snd (run x ops)))) ->
  a_run a ops (snd (run x ops)) = s_run m a ops.
Proof.
  intros Hcfg. induction ops as [|o r IH]; intros x a R Hb Hside; [reflexivity|].
  cbn [run] in *. inversion Hb as [|o' r' Ho Hr]; subst.
  pose proof (step_rel_k c (CSize m) k x a o Hcfg R Ho) as S. destruct (step x o) as [x1 ob].
  specialize (IH x1 (a_step a o (rot_of ob))). destruct (run x1 r) as [x2 obs]. cbn [fst snd a_run s_run] in *.
  destruct S as [R1 [C1 _]]; [eapply kside_le; [apply nclosed_run | exact Hside]|].
  assert (Erot : a_step a o (rot_of ob) = a_step a o (m <? N.of_nat (length (cur_of a)))%N).
  { destruct o; try reflexivity.
    - rewrite (C1 b m (or_introl eq_refl) eq_refl). reflexivity.
    - rewrite (C1 b m (or_intror eq_refl) eq_refl). reflexivity. }
  rewrite <- Erot. apply IH; assumption.
Qed.

(* ------------------------------------------------------------------ stop: what is left in the directory *)
Definition kreader_view (c : config) (f : fs) (closed : list bytes) (cur : bytes) (lo mid : nat) : Prop :=
  kdir c f closed lo mid /\ exists j, lookup f (cname c) = Some j /\ plain (inode f j) /\ content f j = cur.

Lemma shutdown_active_k c k w wr closed lo mid roll : NumKInv c w wr closed lo mid -> wacts w = 0 ->
  exists w' wr', shutdown_state (st_ofk c k (length closed) roll wr) w = (w', st_ofk c k (length closed) roll wr')
    /\ NumKInv c w' wr' closed lo mid /\ cur_view w' wr' = cur_view w wr /\ wpend wr' = [] /\ wacts w' = 0.
Proof.
  intros I Ha. unfold shutdown_state, st_ofk, drain_acts. cbn [f_inner f_cfg mk_rsk rs_cleanup rs_naming rs_roll].
  destruct (w_flush_quiet w wr (nk_quiet _ _ _ _ _ _ I)) as [w1 [E [F S]]]. rewrite E.
  set (wr' := {| wino := wino wr; wpend := []; wcap := wcap wr |}).
  assert (Hok : wr_ok wr') by (unfold wr_ok, wr'; cbn; destruct (wcap wr); [lia | reflexivity]).
  destruct (numkinv_append c w w1 wr wr' closed lo mid (wpend wr) I F S eq_refl eq_refl Hok) as [I1 C1].
  exists w1, wr'. split; [reflexivity|]. split; [exact I1|]. split; [|split; [reflexivity | exact (same_env_acts _ _ S Ha)]].
  unfold cur_view. rewrite C1. cbn [wr' wpend]. rewrite app_nil_r. reflexivity.
Qed.

Lemma stop_rel_k c crit k x a : numkcfg c crit k -> RelK c crit k x a ->
  let '(x', _) := step x OStop in
  match a with
  | None => names (wfs (s_w x')) = []
  | Some (closed, cur) => kreader_view c (wfs (s_w x')) closed cur (k_lo k (length closed)) (k_mid k (length closed))
  end.
Proof.
  intros Hcfg R0. rewrite (step_sync_rel_k c crit k x a OStop Hcfg R0). destruct R0 as [Ht [Ha R]]. cbn [sync_step]. destruct a as [[closed cur]|].
  - destruct R as [wr [roll [Es [I [V [Z RS]]]]]]. rewrite Es. cbn [st_ofk f_poisoned]. unfold drop_state.
    destruct (shutdown_active_k c k (s_w x) wr closed _ _ roll I Ha) as [w1 [wr1 [E1 [I1 [V1 [P1 A1]]]]]]. fold (st_ofk c k (length closed) roll wr). rewrite E1.
    destruct (shutdown_active_k c k w1 wr1 closed _ _ roll I1 A1) as [w2 [wr2 [E2 [I2 [V2 [P2 A2]]]]]]. rewrite E2.
    cbn [st_ofk f_inner s_w]. unfold w_drop.
    destruct (w_flush_quiet w2 wr2 (nk_quiet _ _ _ _ _ _ I2)) as [w3 [E3 [F3 S3]]]. rewrite E3. cbn [fst snd].
    rewrite P2, append_ino_nil_id in F3. rewrite F3.
    destruct I2 as [Q W Hc Hcp KD Hwr Hcap]. split; [exact KD|].
    exists (wino wr2). split; [exact Hc|]. split; [exact Hcp|].
    unfold cur_view in *. rewrite P2, app_nil_r in V2. congruence.
  - destruct R as [Es [Q [Hn Hi]]]. rewrite Es. cbn [new_flw f_poisoned drop_state shutdown_state f_inner s_w]. exact Hn.
Qed.

Lemma start_rel_k c crit k t0 off : RelK c crit k (fst (step (sys0 t0 off) (OStart c))) None.
Proof. cbn. repeat split. Qed.

(* ------------------------------------------------------------------ 3. THE THEOREM *)
(* a is the reader's view that the run WOULD leave without cleanup (closed files in order, current file): by a_run_flat
   its concatenation is what was written.  The directory left behind holds the current file, the newest n closed files
   as they are and the next m as archives - and nothing else. *)
Theorem numbers_cleanup_stream c crit k t0 off ops :
  numkcfg c crit k -> Forall basic_op ops ->
  let x0 := fst (step (sys0 t0 off) (OStart c)) in
  let a := a_run None ops (snd (run x0 ops)) in
  kside c k (nclosed a) ->
  let f := wfs (s_w (fst (run (sys0 t0 off) (OStart c :: ops ++ [OStop])))) in
  flat a = written ops
  /\ match a with
     | None => names f = []
     | Some (closed, cur) => kreader_view c f closed cur (k_lo k (length closed)) (k_mid k (length closed))
     end.
Proof.
  intros Hcfg Hb x0 a Hside f. unfold f. clear f. cbn [run]. fold x0.
  destruct (step (sys0 t0 off) (OStart c)) as [x0' ob0] eqn:E0. cbn [fst] in x0. subst x0.
  pose proof (start_rel_k c crit k t0 off) as R0. rewrite E0 in R0. cbn [fst] in R0.
  rewrite run_app. pose proof (run_rel_k c crit k Hcfg ops x0' None R0 Hb Hside) as R1. pose proof (run_length ops x0') as Len.
  fold a in R1. unfold a in *. clear a.
  destruct (run x0' ops) as [x1 obs1]. cbn [fst snd] in *.
  pose proof (stop_rel_k c crit k x1 _ Hcfg R1) as S. cbn [run]. destruct (step x1 OStop) as [x2 ob2]. cbn [fst].
  split; [|exact S].
  rewrite (a_run_flat ops None obs1 Hb Len). reflexivity.
Qed.
Print Assumptions numbers_cleanup_stream.
