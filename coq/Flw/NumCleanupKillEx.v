(* Numbers naming with a cleanup strategy, killed process and restart (C11): examples.  All kill points of small
   histories are computed (vm_compute); the hypotheses of the two theorems are met by concrete histories; findings. *)
Require Import FL.Base.Bytes FL.Base.BytesFacts FL.Base.PathName FL.Fs.Fs FL.Fs.FsFacts FL.Time.Civil FL.Time.TsFormat
  FL.Names.FileSpec FL.Names.NamesFacts FL.Flw.Model FL.Flw.ModelFacts FL.Flw.NumFs FL.Flw.NumInv FL.Flw.Run FL.Flw.RunFacts
  FL.Flw.NumRun FL.Flw.NumListing FL.Oracles.O_Flw FL.Flw.NumTheorems FL.Flw.NumRestart FL.Flw.KillFacts FL.Flw.NumKill
  FL.Flw.NumKillRestart FL.Flw.CleanupFacts FL.Flw.NumCleanupNames FL.Flw.NumCleanupStep FL.Flw.NumCleanupRun FL.Flw.NumCleanup
  FL.Oracles.ReaderOrder FL.Oracles.O_Stream FL.Flw.NumCleanupKillDir FL.Flw.NumCleanupKillStep FL.Flw.NumCleanupKill
  FL.Flw.NumCleanupKillListing FL.Flw.NumCleanupKillRestart.
Import String.StringSyntax.
Open Scope nat_scope.
Open Scope string_scope.

(* base name "a", suffix "log", rotation when the current file holds more than 3 bytes, direct mode, no append *)
Definition kc (k : cleanup) : config := NumCleanup.ex_cfg k log_sfx.
Definition rec (i : nat) : op := OWrite (bs "abc" ++ [N.of_nat (48 + i)]).
(* records of 4 bytes: every write but the first rotates (and runs the cleanup) first *)
Definition kx1 : list op := [rec 0; rec 1; rec 2].
Definition kx2 : list op := [rec 3; rec 4; OSnap].
Definition kx3 : list op := [rec 5; rec 6].
Definition khist (k : cleanup) (kp : nat) : list op := OStart (kc k) :: kx1 ++ [OSetKill kp] ++ kx2 ++ [OCrash].
Definition karmed (k : cleanup) (kp : nat) : sys := fst (run (sys0 0 0) (OStart (kc k) :: kx1 ++ [OSetKill kp])).
Definition kdead (k : cleanup) (kp : nat) : sys := fst (run (sys0 0 0) (khist k kp)).
Definition kacked (k : cleanup) (kp : nat) : bytes := written kx1 ++ acked (karmed k kp) kx2.

Lemma kc_numkcfg k : numkcfg (kc k) (CSize 3) k.
Proof. repeat split. Qed.
Lemma kc_sfx k : sfx_ok (c_spec (kc k)).
Proof. vm_compute. reflexivity. Qed.
Lemma kx1_basic : Forall basic_op kx1.
Proof. repeat constructor. Qed.
Lemma kx2_basic : Forall basic_op kx2.
Proof. repeat constructor. Qed.
Lemma kx3_basic : Forall basic_op kx3.
Proof. repeat constructor. Qed.

(* ------------------------------------------------------------------ the directories a kill leaves: KLogGz 1 1 *)
(* before the kill counter is armed: r00000.gz, r00001, rCURRENT = abc2.  The write of abc3 rotates: rename (effect 0),
   create rCURRENT (1), cleanup: create r00001.log.gz (2), copy (3), finish (4), remove r00001.log (5), remove r00000.log.gz (6);
   then the write itself (7). *)
Example kill_points_loggz :
  (* 1: killed at the creation of rCURRENT - no current file *)
  snap_of (kdead (KLogGz 1 1) 1)
  = [ (bs "a_r00000.log.gz", 1%N, bs "abc0"); (bs "a_r00001.log", 0%N, bs "abc1"); (bs "a_r00002.log", 0%N, bs "abc2") ]
  (* 3, 4: killed at the copy / at finish - an UNFINISHED, empty archive (kind 2) next to its intact original *)
  /\ snap_of (kdead (KLogGz 1 1) 3)
  = [ (bs "a_r00000.log.gz", 1%N, bs "abc0"); (bs "a_r00001.log", 0%N, bs "abc1"); (bs "a_r00001.log.gz", 2%N, []);
      (bs "a_r00002.log", 0%N, bs "abc2"); (bs "a_rCURRENT.log", 0%N, []) ]
  /\ snap_of (kdead (KLogGz 1 1) 4) = snap_of (kdead (KLogGz 1 1) 3)
  (* 5: killed at the removal of the original - a COMPLETE archive next to its original, same content *)
  /\ snap_of (kdead (KLogGz 1 1) 5)
  = [ (bs "a_r00000.log.gz", 1%N, bs "abc0"); (bs "a_r00001.log", 0%N, bs "abc1"); (bs "a_r00001.log.gz", 1%N, bs "abc1");
      (bs "a_r00002.log", 0%N, bs "abc2"); (bs "a_rCURRENT.log", 0%N, []) ]
  (* 6: killed at the removal of the oldest archive - one archive more than the limit *)
  /\ snap_of (kdead (KLogGz 1 1) 6)
  = [ (bs "a_r00000.log.gz", 1%N, bs "abc0"); (bs "a_r00001.log.gz", 1%N, bs "abc1");
      (bs "a_r00002.log", 0%N, bs "abc2"); (bs "a_rCURRENT.log", 0%N, []) ]
  (* 7: killed at the write: the cleanup is complete, the record is not acknowledged *)
  /\ snap_of (kdead (KLogGz 1 1) 7)
  = [ (bs "a_r00001.log.gz", 1%N, bs "abc1"); (bs "a_r00002.log", 0%N, bs "abc2"); (bs "a_rCURRENT.log", 0%N, []) ]
  /\ kacked (KLogGz 1 1) 7 = bs "abc0abc1abc2" /\ kacked (KLogGz 1 1) 8 = bs "abc0abc1abc2abc3".
Proof. vm_compute. repeat split; reflexivity. Qed.

(* deletion only (KLog 1): killed at the removal of the oldest file - one file more than the limit *)
Example kill_points_log :
  snap_of (kdead (KLog 1) 2)
  = [ (bs "a_r00001.log", 0%N, bs "abc1"); (bs "a_r00002.log", 0%N, bs "abc2"); (bs "a_rCURRENT.log", 0%N, []) ]
  /\ snap_of (kdead (KLog 1) 3) = [ (bs "a_r00002.log", 0%N, bs "abc2"); (bs "a_rCURRENT.log", 0%N, []) ].
Proof. vm_compute. split; reflexivity. Qed.

(* ------------------------------------------------------------------ the reader *)
(* FINDING (reader / oracle): family_in_order (Oracles/ReaderOrder.v) keeps every entry of kind 0 or 1 of the family.
   It skips the unfinished archive (kind 2) - but at kill point 5 it reads r00001 TWICE (original and complete archive):
   the stream has a duplicated record and oracle_tail fails.  A reader of a directory that a killed process left must
   drop an archive whose original is present. *)
Definition shadowed (l : list entry) (e : entry) : bool :=
  let '(nm, kd, _) := e in
  (kd =? 1)%N && match strip_suffix (dot :: gz_sfx) nm with
                 | Some orig => existsb (fun e' : entry => beq (fst (fst e')) orig && (snd (fst e') =? 0)%N) l
                 | None => false
                 end.
Definition reader_entries (l : list entry) : list entry := filter (fun e => negb (shadowed l e)) l.
Definition kill_stream (c : config) (l : list entry) : bytes := stream_of c (reader_entries l).

Example oracle_reader_duplicates :
  stream_of (kc (KLogGz 1 1)) (snap_of (kdead (KLogGz 1 1) 5)) = bs "abc0abc1abc1abc2"
  /\ oracle_tail (kc (KLogGz 1 1)) (kacked (KLogGz 1 1) 5) (snap_of (kdead (KLogGz 1 1) 5)) = false
  /\ kill_stream (kc (KLogGz 1 1)) (snap_of (kdead (KLogGz 1 1) 5)) = bs "abc0abc1abc2"
  (* the unfinished archive is skipped by family_in_order itself *)
  /\ stream_of (kc (KLogGz 1 1)) (snap_of (kdead (KLogGz 1 1) 3)) = bs "abc0abc1abc2".
Proof. vm_compute. repeat split; reflexivity. Qed.

(* ALL kill points of the history, the three kinds of strategy (and limits 0): what the reader obtains is a tail of the
   acknowledged records, it contains the last n + m closed files and the current file (here: at least 4 * (n + m) bytes
   of closed files whenever that many records were acknowledged before the current file), and no entry is broken
   except next to its original *)
Definition tail_ok (k : cleanup) (nm : nat) (kp : nat) : bool :=
  let l := snap_of (kdead k kp) in
  let s := kill_stream (kc k) l in
  is_suffix s (kacked k kp) && Nat.leb (Nat.min (length (kacked k kp)) (4 * nm)) (length s).

Example all_kill_points_tail :
  forallb (tail_ok (KLogGz 1 1) 2) (seq 0 26) = true
  /\ forallb (tail_ok (KLog 1) 1) (seq 0 14) = true
  /\ forallb (tail_ok (KLog 2) 2) (seq 0 14) = true
  /\ forallb (tail_ok (KGz 1) 1) (seq 0 26) = true
  /\ forallb (tail_ok (KGz 2) 2) (seq 0 26) = true
  /\ forallb (tail_ok (KLogGz 0 0) 0) (seq 0 14) = true
  /\ forallb (tail_ok (KLogGz 2 1) 3) (seq 0 26) = true.
Proof. vm_compute. repeat split; reflexivity. Qed.

(* ------------------------------------------------------------------ Theorem 1 on this history *)
Example kill_keeps_acked_instance :
  exists closed ocur lo,
    kill_view (kc (KLogGz 1 1)) (wfs (s_w (kdead (KLogGz 1 1) 5))) closed ocur lo
    /\ concat closed ++ ocb ocur = bs "abc0abc1abc2"
    /\ lo <= length closed - 2
    /\ bs "abc0abc1abc2" = concat (firstn lo closed) ++ kv_stream closed ocur lo.
Proof.
  destruct (numbers_cleanup_kill_keeps_acked (kc (KLogGz 1 1)) (CSize 3) (KLogGz 1 1) 1 1 0 0 kx1 5 kx2
              (kc_numkcfg _) eq_refl eq_refl (kc_sfx _) kx1_basic kx2_basic) as (cl & oc & lo & V & F & Hlo & T).
  assert (E : written kx1 ++ acked (fst (run (sys0 0 0) (OStart (kc (KLogGz 1 1)) :: kx1 ++ [OSetKill 5]))) kx2 = bs "abc0abc1abc2")
    by (vm_compute; reflexivity).
  rewrite E in F, T. exists cl, oc, lo. auto.
Qed.

(* ------------------------------------------------------------------ the restart *)
Definition krestart (k : cleanup) (kp : nat) (ops3 : list op) := run (kdead k kp) (OStart (kc k) :: ops3 ++ [OStop]).
Definition all_ok (l : list obs) : bool :=
  forallb (fun ob => match ob with ObsRes cd _ => (cd =? 0)%N | ObsList cd _ => (cd =? 0)%N | ObsSnap _ _ _ => true end) l.

(* the leftovers of kill points 3 and 5 (archive next to its original) and 6 (too many archives) are repaired by the
   first write: the new writer closes the empty rCURRENT as r00003, then its cleanup removes the redundant archive,
   compresses what is beyond the plain-file limit and removes what is beyond both limits *)
Example restart_repairs :
  let final kp := snap_of (fst (krestart (KLogGz 1 1) kp kx3)) in
  final 3 = [ (bs "a_r00003.log.gz", 1%N, []); (bs "a_r00004.log", 0%N, bs "abc5"); (bs "a_rCURRENT.log", 0%N, bs "abc6") ]
  /\ final 5 = final 3 /\ final 6 = final 3
  /\ all_ok (snd (krestart (KLogGz 1 1) 3 kx3)) = true /\ all_ok (snd (krestart (KLogGz 1 1) 5 kx3)) = true.
Proof. vm_compute. repeat split; reflexivity. Qed.

(* one record only: the state right after the repair.  The interrupted compression of r00001 is not resumed - the file is
   beyond both limits now and is removed together with its archive; r00002 is compressed.  Second example (KLogGz 2 1, killed
   at the removal of the oldest archive: two archives where one is allowed): both old archives go, r00002 is compressed *)
Example restart_repairs_one_record :
  snap_of (fst (krestart (KLogGz 1 1) 5 [rec 5]))
  = [ (bs "a_r00002.log.gz", 1%N, bs "abc2"); (bs "a_r00003.log", 0%N, []); (bs "a_rCURRENT.log", 0%N, bs "abc5") ]
  /\ snap_of (fst (krestart (KLogGz 2 1) 13 [rec 5]))
  = [ (bs "a_r00002.log.gz", 1%N, bs "abc2"); (bs "a_r00003.log", 0%N, bs "abc3"); (bs "a_r00004.log", 0%N, []);
      (bs "a_rCURRENT.log", 0%N, bs "abc5") ].
Proof. vm_compute. split; reflexivity. Qed.

(* SURPRISE: the repair is part of the initialisation, and the writer initialises with its first write.  A writer that is
   started and dropped without a record leaves the unfinished archive where it is. *)
Example restart_without_record_repairs_nothing :
  snap_of (fst (krestart (KLogGz 1 1) 3 [OFlush; OTrigger])) = snap_of (kdead (KLogGz 1 1) 3)
  /\ all_ok (snd (krestart (KLogGz 1 1) 3 [OFlush; OTrigger])) = true.
Proof. vm_compute. split; reflexivity. Qed.

(* ALL kill points: the restart succeeds in every operation; afterwards the plain reader of the oracles suffices (no
   duplicates, no unfinished archive), the stream is a tail of acknowledged ++ own records, the limits hold *)
Definition restart_ok (k : cleanup) (kp : nat) : bool :=
  let r := krestart k kp kx3 in
  let l := snap_of (fst r) in
  all_ok (snd r) && oracle_tail (kc k) (kacked k kp ++ written kx3) l && oracle_limits (kc k) l
  && oracle_current_plain (kc k) l.

Example all_kill_points_restart :
  forallb (restart_ok (KLogGz 1 1)) (seq 0 26) = true
  /\ forallb (restart_ok (KLog 1)) (seq 0 14) = true
  /\ forallb (restart_ok (KGz 2)) (seq 0 26) = true
  /\ forallb (restart_ok (KLogGz 0 0)) (seq 0 14) = true
  /\ forallb (restart_ok (KLogGz 2 1)) (seq 0 26) = true.
Proof. vm_compute. repeat split; reflexivity. Qed.

(* Theorem 2 on this history (kill point 5: complete archive next to its original) *)
Example kill_restart_instance :
  let r2 := krestart (KLogGz 1 1) 5 kx3 in
  Forall obs_ok (snd r2)
  /\ exists pre closed ocur lo,
       kill_view (kc (KLogGz 1 1)) (wfs (s_w (fst r2))) closed ocur lo
       /\ bs "abc0abc1abc2abc5abc6" = pre ++ concat closed ++ ocb ocur
       /\ bs "abc0abc1abc2abc5abc6" = (pre ++ concat (firstn lo closed)) ++ kv_stream closed ocur lo
       /\ lo <= length closed - 2 /\ pre = []
       /\ exists cu, ocur = Some cu /\ kreader_view (kc (KLogGz 1 1)) (wfs (s_w (fst r2))) closed cu lo (length closed - 1).
Proof.
  assert (HL : (N.of_nat (S (length kx1 + length kx2)) <= u32_max)%N) by (vm_compute; discriminate).
  destruct (numbers_cleanup_kill_restart (kc (KLogGz 1 1)) (CSize 3) (KLogGz 1 1) 1 1 0 0 kx1 5 kx2 kx3
              (kc_numkcfg _) eq_refl eq_refl (kc_sfx _) kx1_basic kx2_basic kx3_basic HL) as (Kk & pre & cl & oc & lo & V & E & T & Hlo & Hp & Hr).
  assert (Ew : written kx1 ++ acked (fst (run (sys0 0 0) (OStart (kc (KLogGz 1 1)) :: kx1 ++ [OSetKill 5]))) kx2 ++ written kx3
               = bs "abc0abc1abc2abc5abc6") by (vm_compute; reflexivity).
  rewrite Ew in E, T. split; [exact Kk|]. exists pre, cl, oc, lo. split; [exact V|]. split; [exact E|]. split; [exact T|].
  split; [exact Hlo|]. split; [destruct Hp as [Hp|Hp]; [exact Hp | discriminate Hp]|].
  destruct (Hr eq_refl) as (cu & Eo & _ & Kv). exists cu. split; [exact Eo | exact Kv].
Qed.

(* the same with an appending configuration for both writers: the new writer continues the current file it finds *)
Definition kca (k : cleanup) : config :=
  {| c_spec := c_spec (kc k); c_append := true; c_cap := None; c_rot := Some (CSize 3, NNumbers, k); c_utc := false;
     c_symlink := false; c_bg := false; c_async := false; c_start := None |}.
Example kill_restart_append :
  let xk := fst (run (sys0 0 0) (OStart (kca (KLogGz 1 1)) :: kx1 ++ [OSetKill 9] ++ kx2 ++ [OCrash])) in
  let r2 := run xk (OStart (kca (KLogGz 1 1)) :: kx3 ++ [OStop]) in
  snap_of xk = [ (bs "a_r00001.log.gz", 1%N, bs "abc1"); (bs "a_r00002.log", 0%N, bs "abc2"); (bs "a_r00003.log", 0%N, bs "abc3") ]
  /\ snap_of (fst r2) = [ (bs "a_r00003.log.gz", 1%N, bs "abc3"); (bs "a_r00004.log", 0%N, bs "abc5"); (bs "a_rCURRENT.log", 0%N, bs "abc6") ]
  /\ all_ok (snd r2) = true.
Proof. vm_compute. repeat split; reflexivity. Qed.
